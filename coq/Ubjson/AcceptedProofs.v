(* C09 for the UBJSON parser model on EVERY accepted input (Ubjson/Parse.v).

   C09_ubj_parser (Ubjson/ConformanceProofs.v) speaks about inputs the reference decoder
   accepts.  Here the parser alone is analysed: an invariant relates its three stacks
   (state stack, valueState stack, length stack) and its token registers (buffer, marker,
   value type) to a stack of open "frames" of a partial tree; every step preserves it,
   the events delivered so far are the flattenings of complete well-formed trees followed
   by the events of the open frames, and when finalize accepts no frame is open.
   Counted containers deliver exactly the announced number of elements (no-ops are not
   counted), elements of typed arrays match the announced BaseType, numbers are in the
   range of their kind, strings and keys are byte strings.  No side condition on the
   input other than [all_bytes] is needed (zero-sized typed containers with huge counts
   run out of fuel, i.e. are not "accepted"). *)
From Coq Require Import Setoid List NArith ZArith Bool Lia.
From Coq Require Import ZifyBool ZifyNat ZifyN.
From SF Require Import Base.Prelude Base.PreludeProofs Core.Events Core.EventsProofs Core.AdapterProofs
  Ubjson.Spec Ubjson.Parse Ubjson.ChunkProofs Ubjson.ParseVisitorProofs.
From SF Require Ubjson.ConformanceProofs.
Import ListNotations.
Open Scope Z_scope.
Ltac Zify.zify_post_hook ::= Z.div_mod_to_equations.

(* ====================================================================== *)
(* Part 0: helpers                                                         *)
(* ====================================================================== *)
Lemma ab_app : forall a b, all_bytes (a ++ b) = all_bytes a && all_bytes b.
Proof. intros. unfold all_bytes. apply forallb_app. Qed.

Lemma ab_cons : forall c r, all_bytes (c :: r) = true -> is_byte c = true /\ all_bytes r = true.
Proof. intros c r H. cbn [all_bytes forallb] in H. apply andb_true_iff in H. exact H. Qed.

Lemma ab_firstn : forall n b, all_bytes b = true -> all_bytes (uzfirstn n b) = true.
Proof. intros n b H. unfold uzfirstn. apply Ubjson.ConformanceProofs.all_bytes_firstn. exact H. Qed.

Lemma ab_skipn : forall n b, all_bytes b = true -> all_bytes (uzskipn n b) = true.
Proof. intros n b H. unfold uzskipn. apply Ubjson.ConformanceProofs.all_bytes_skipn. exact H. Qed.

Lemma forallb_rev : forall A (f : A -> bool) l, forallb f (rev l) = forallb f l.
Proof.
  intros A f l. induction l as [|x l IH]; [reflexivity|]. cbn [rev forallb].
  rewrite forallb_app, IH. cbn [forallb]. rewrite andb_true_r. apply andb_comm.
Qed.

Lemma zlen_rev : forall A (l : list A), zlen (rev l) = zlen l.
Proof. intros. unfold zlen. rewrite rev_length. reflexivity. Qed.

Lemma zlen_cons' : forall A (x : A) l, zlen (x :: l) = zlen l + 1.
Proof. intros. unfold zlen. cbn [length]. lia. Qed.

Lemma uvis_add : forall s ev, exists e, uvis s ev = (s_add s [ev], e).
Proof. intros s ev. unfold uvis. rewrite emit_spec. eexists. reflexivity. Qed.

(* decide comparisons of closed integers *)
Ltac ceq :=
  repeat match goal with
  | |- context [Z.eqb ?a ?b] =>
      let v := eval vm_compute in (Z.eqb a b) in
      match v with
      | true => change (Z.eqb a b) with true
      | false => change (Z.eqb a b) with false
      end
  end; cbv beta iota.

Ltac ceqH H :=
  repeat match type of H with
  | context [Z.eqb ?a ?b] =>
      let v := eval vm_compute in (Z.eqb a b) in
      match v with
      | true => change (Z.eqb a b) with true in H
      | false => change (Z.eqb a b) with false in H
      end
  end; cbv beta iota in H.

Ltac pcx := cbn [up_cur up_stack up_vcur up_vstack up_lcur up_lstack up_buf up_marker up_vtype up_err
                uset_cur uset_buf uset_lcur uset_marker uset_err uset_step uset_type
                u_push v_push ul_push u_t u_s mku with_step] in *.

Ltac dp p := destruct p as [xcur xstk xvcur xvstk xlcur xlstk xbuf xmk xvt xer].

(* ====================================================================== *)
(* Part 1: ghost state - the open frames of the partial tree               *)
(* ====================================================================== *)
Inductive frame :=
| FL                                                      (* a value in progress, nothing delivered yet *)
| FA (len : Z) (bt : btype) (done : list tree)            (* open array, elements in reverse *)
| FO (len : Z) (done : list (bytes * bool * tree)) (key : option bytes).

Definition fevents (f : frame) : list event :=
  match f with
  | FL => []
  | FA len bt done => EArrStart len bt :: flatten_elems (rev done)
  | FO len done key => EObjStart len BAny :: flatten_members (rev done) ++
                       match key with Some k => [EKeyRef k] | None => [] end
  end.
(* innermost frame first *)
Fixpoint oevents (G : list frame) : list event :=
  match G with [] => [] | f :: G' => oevents G' ++ fevents f end.

Definition mwf (m : bytes * bool * tree) : bool := all_bytes (fst (fst m)) && wf_tree (snd m).

Definition fwf (f : frame) : bool :=
  match f with
  | FL => true
  | FA len bt done => forallb wf_tree done && forallb (tree_matches bt) done
  | FO len done key => forallb mwf done && match key with Some k => all_bytes k | None => true end
  end.

Definition arrive (t : tree) (f : frame) : frame :=
  match f with
  | FA len bt done => FA len bt (t :: done)
  | FO len done (Some k) => FO len ((k, true, t) :: done) None
  | _ => f
  end.

Definition gl (ts : list tree) (G : list frame) : list event := flat_map flatten ts ++ oevents G.

Lemma close_arr_wf : forall len bt done, fwf (FA len bt done) = true -> len = -1 \/ len = zlen done ->
  wf_tree (TArr len bt (rev done)) = true.
Proof.
  intros len bt done H Hl. cbn [fwf] in H. apply andb_true_iff in H. destruct H as [H1 H2].
  rewrite wf_arr, !forallb_rev, H1, H2. unfold len_ok. rewrite zlen_rev.
  destruct Hl as [->| ->]; [reflexivity|]. rewrite Z.eqb_refl, orb_true_r. reflexivity.
Qed.

Lemma close_arr_ev : forall len bt done, flatten (TArr len bt (rev done)) = fevents (FA len bt done) ++ [EArrEnd].
Proof. intros. rewrite flatten_arr. reflexivity. Qed.

Lemma close_obj_wf : forall len done, fwf (FO len done None) = true -> len = -1 \/ len = zlen done ->
  wf_tree (TObj len BAny (rev done)) = true.
Proof.
  intros len done H Hl. cbn [fwf] in H. rewrite andb_true_r in H.
  rewrite wf_obj. unfold len_ok. rewrite zlen_rev.
  assert (Hm : forallb (fun m : bytes * bool * tree => tree_matches BAny (snd m)) (rev done) = true).
  { generalize (rev done). induction l as [|m l IH]; [reflexivity|]. cbn [forallb tree_matches]. exact IH. }
  rewrite Hm. change (fun m : bytes * bool * tree => all_bytes (fst (fst m)) && wf_tree (snd m)) with mwf.
  rewrite forallb_rev, H.
  destruct Hl as [->| ->]; [reflexivity|]. rewrite Z.eqb_refl, orb_true_r. reflexivity.
Qed.

Lemma close_obj_ev : forall len done, flatten (TObj len BAny (rev done)) = fevents (FO len done None) ++ [EObjEnd].
Proof. intros. rewrite flatten_obj. cbn [fevents]. rewrite app_nil_r. reflexivity. Qed.

(* the BaseType of the values a state delivers (BAny: no constraint) *)
Definition cls (c : ustate) : btype :=
  if u_t c =? tFixed then
    if (u_s c =? sTrue) || (u_s c =? sFalse) then BBool
    else if u_s c =? sChar then BByte
    else if u_s c =? sInt8 then BInt8
    else if u_s c =? sUInt8 then BUint8
    else if u_s c =? sInt16 then BInt16
    else if u_s c =? sInt32 then BInt32
    else if u_s c =? sInt64 then BInt64
    else if u_s c =? sFloat32 then BFloat32
    else if u_s c =? sFloat64 then BFloat64
    else BAny
  else if (u_t c =? tHighPrec) || (u_t c =? tString) then BString
  else BAny.

Definition compat (bt0 : btype) (c : ustate) : Prop := bt0 = BAny \/ bt0 = cls c.

Lemma compat_matches : forall bt0 c t, compat bt0 c -> tree_matches (cls c) t = true -> tree_matches bt0 t = true.
Proof. intros bt0 c t [->| ->] H; [reflexivity|exact H]. Qed.

Lemma compat_cls : forall bt0 c c', cls c' = cls c -> compat bt0 c -> compat bt0 c'.
Proof. intros bt0 c c' E [H|H]; [left; exact H|right; congruence]. Qed.

Lemma compat_any : forall bt0 c, cls c = BAny -> compat bt0 c -> bt0 = BAny.
Proof. intros bt0 c E [H|H]; congruence. Qed.

Lemma marker_state_cls : forall m st, marker_state m = Some st -> cls st = marker_btype m.
Proof.
  intros m st H. unfold marker_state in H.
  repeat match type of H with
  | (if ?c then _ else _) = _ => let E := fresh "E" in destruct c eqn:E;
      [apply Z.eqb_eq in E; subst m; injection H as <-; reflexivity|clear E]
  end.
  discriminate H.
Qed.

(* ====================================================================== *)
(* Part 2: the invariant                                                   *)
(* ====================================================================== *)
Definition bufb (buf : bytes) (k : Z) : Prop := buf = [] \/ (0 < zlen buf /\ zlen buf < k).
(* reading a length: nothing read yet, or the marker is known and part of the payload is buffered *)
Definition lenrd (m : Z) (buf : bytes) : Prop :=
  (m = 0 /\ buf = []) \/ (lenmarker m = true /\ bufb buf (markcount m)).

Definition fixed_st (st : Z) : Prop :=
  st = sNil \/ st = sTrue \/ st = sFalse \/ st = sInt8 \/ st = sUInt8 \/ st = sInt16 \/ st = sInt32 \/
  st = sInt64 \/ st = sFloat32 \/ st = sFloat64 \/ st = sChar.
Definition isstr_t (t : Z) : Prop := t = tHighPrec \/ t = tString.
Definition istyped_t (t : Z) : Prop := t = tArrayTyped \/ t = tObjectTyped.
(* element states of typed containers *)
Definition elemst (ve : ustate) : Prop := exists m, marker_state m = Some ve /\ m <> mN.
(* counted and typed objects share their content states *)
Definition ocv (t : Z) (vo : list ustate) : Prop :=
  (t = tObjectCount /\ vo = []) \/ (t = tObjectTyped /\ exists ve, elemst ve /\ vo = [ve]).

(* the current state [c] with the registers marker, buffer, value type, owning the entries
   [lo] of the length stack and [vo] of the valueState stack, stands for frame [f] *)
Inductive top : ustate -> Z -> bytes -> btype -> list Z -> list ustate -> frame -> Prop :=
| T_fixed : forall st buf vt, fixed_st st -> bufb buf (fixed_count st) -> top (mku tFixed st) 0 buf vt [] [] FL
| T_str0 : forall t m buf vt, isstr_t t -> lenrd m buf -> top (mku t sStart) m buf vt [] [] FL
| T_str1 : forall t L buf vt, isstr_t t -> 0 <= L -> bufb buf L -> top (mku t sWithLen) 0 buf vt [L] [] FL
| T_arr : forall vt, top (mku tArray sStart) 0 [] vt [] [] FL
| T_obj : forall vt, top (mku tObject sStart) 0 [] vt [] [] FL
| T_adyn : forall st vt done, st = sStart \/ st = sCont -> top (mku tArrayDyn st) 0 [] vt [] [] (FA (-1) BAny done)
| T_acnt0 : forall m buf vt, lenrd m buf -> top (mku tArrayCount sStart) m buf vt [] [] FL
| T_acnt1 : forall L vt, 0 <= L -> top (mku tArrayCount sWithLen) 0 [] vt [L] [] FL
| T_acnt2 : forall len done r vt, r = len - zlen done -> 0 <= r ->
    top (mku tArrayCount sCont) 0 [] vt [r] [] (FA len BAny done)
| T_hdr0 : forall t vt, istyped_t t -> top (mku t sStart) 0 [] vt [] [] FL
| T_hdr1 : forall t ve, istyped_t t -> elemst ve -> top (mku t sWithType0) 0 [] (cls ve) [] [ve] FL
| T_hdr2 : forall t ve m buf, istyped_t t -> elemst ve -> lenrd m buf ->
    top (mku t sWithType1) m buf (cls ve) [] [ve] FL
| T_atyp1 : forall L ve, elemst ve -> 0 <= L -> top (mku tArrayTyped sWithLen) 0 [] (cls ve) [L] [ve] FL
| T_atyp2 : forall len done r ve vt, elemst ve -> r = len - zlen done -> 0 <= r ->
    top (mku tArrayTyped sCont) 0 [] vt [r] [ve] (FA len (cls ve) done)
| T_odyn0 : forall m buf vt done, lenrd m buf -> top (mku tObjectDyn sStart) m buf vt [] [] (FO (-1) done None)
| T_odyn1 : forall kl buf vt done, 0 <= kl -> bufb buf kl ->
    top (mku tObjectDyn sFieldNameLen) 0 buf vt [kl] [] (FO (-1) done None)
| T_odyn2 : forall vt done k, top (mku tObjectDyn sCont) 0 [] vt [] [] (FO (-1) done (Some k))
| T_ocnt0 : forall m buf vt, lenrd m buf -> top (mku tObjectCount sStart) m buf vt [] [] FL
| T_oc1 : forall t vo L vt, ocv t vo -> 0 <= L -> top (mku t sWithLen) 0 [] vt [L] vo FL
| T_oc2 : forall t vo len done r m buf vt, ocv t vo -> r = len - zlen done -> 0 <= r -> lenrd m buf ->
    (r = 0 -> m = 0) -> top (mku t sFieldName) m buf vt [r] vo (FO len done None)
| T_oc3 : forall t vo len done r kl buf vt, ocv t vo -> r = len - zlen done -> 1 <= r -> 0 <= kl -> bufb buf kl ->
    top (mku t sFieldNameLen) 0 buf vt [kl; r] vo (FO len done None)
| T_oc4 : forall t vo len done r k vt, ocv t vo -> r = len - zlen done -> 1 <= r ->
    top (mku t sCont) 0 [] vt [r] vo (FO len done (Some k)).

(* a state waiting for a child value of BaseType [bt] *)
Inductive under : ustate -> list Z -> list ustate -> frame -> btype -> Prop :=
| U_adyn : forall done, under (mku tArrayDyn sCont) [] [] (FA (-1) BAny done) BAny
| U_acnt : forall len done r, r = len - zlen done - 1 -> 0 <= r ->
    under (mku tArrayCount sCont) [r] [] (FA len BAny done) BAny
| U_atyp : forall len done r ve, elemst ve -> r = len - zlen done - 1 -> 0 <= r ->
    under (mku tArrayTyped sCont) [r] [ve] (FA len (cls ve) done) (cls ve)
| U_odyn : forall done k, under (mku tObjectDyn sStart) [] [] (FO (-1) done (Some k)) BAny
| U_oc : forall t vo len done r k, ocv t vo -> r = len - zlen done - 1 -> 0 <= r ->
    under (mku t sFieldName) [r] vo (FO len done (Some k)) BAny.

(* the waiting part of the three stacks (top first) *)
Inductive wait : list ustate -> list Z -> list ustate -> list frame -> btype -> Prop :=
| W_bot : forall z, wait [mku tNext sStart] [z] [] [] BAny
| W_cons : forall c cs lo ls vo vs f G bt bt0,
    under c lo vo f bt -> fwf f = true -> compat bt0 c -> wait cs ls vs G bt0 ->
    wait (c :: cs) (lo ++ ls) (vo ++ vs) (f :: G) bt.

(* the valueState stack without its stFail bottom *)
Definition nf (c : ustate) : Prop := u_t c <> tFail.
Definition vlist (p : uparser) : list ustate :=
  if u_t (up_vcur p) =? tFail then [] else up_vcur p :: up_vstack p.
Definition vok (p : uparser) : Prop :=
  Forall nf (up_vstack p) /\ (u_t (up_vcur p) = tFail -> up_vstack p = []).

(* the parser expects a value of BaseType bt in the context G *)
Definition ctx (vl : list ustate) (q : uparser) (G : list frame) (bt : btype) : Prop :=
  wait (up_cur q :: up_stack q) (up_lcur q :: up_lstack q) vl G bt /\ up_buf q = [] /\ up_marker q = 0.

Definition Rest (vl : list ustate) (p : uparser) (lo : list Z) (vo : list ustate) (G' : list frame) : Prop :=
  exists ls vs bt0, compat bt0 (up_cur p) /\ wait (up_stack p) ls vs G' bt0 /\
    up_lcur p :: up_lstack p = lo ++ ls /\ vl = vo ++ vs.

Definition J (vl : list ustate) (p : uparser) (G : list frame) : Prop :=
  match G with
  | [] => ctx vl p [] BAny
  | f :: G' => exists lo vo, top (up_cur p) (up_marker p) (up_buf p) (up_vtype p) lo vo f /\
                 fwf f = true /\ all_bytes (up_buf p) = true /\ Rest vl p lo vo G'
  end.

Definition GI (p : uparser) (G : list frame) : Prop := vok p /\ J (vlist p) p G.

(* ---------- basic facts ---------- *)
Lemma under_nf : forall c lo vo f bt, under c lo vo f bt -> nf c.
Proof.
  intros c lo vo f bt H. unfold nf.
  destruct H as [| | | |t vo len done r k [[-> _]|[-> _]]]; cbn [u_t mku]; discriminate.
Qed.

Lemma wait_ls : forall cs ls vs G bt, wait cs ls vs G bt -> exists z ls', ls = z :: ls'.
Proof.
  intros cs ls vs G bt H. induction H as [z|c cs lo ls vo vs f G bt bt0 Hu Hf Hc Hw IH]; [eauto|].
  destruct lo as [|x lo]; [exact IH|cbn [app]; eauto].
Qed.

Lemma wait_inv : forall cs ls vs G bt, wait cs ls vs G bt ->
  exists c cs' z ls', cs = c :: cs' /\ ls = z :: ls' /\ nf c.
Proof.
  intros cs ls vs G bt H. destruct (wait_ls _ _ _ _ _ H) as (z & ls' & E).
  destruct H as [z0|c cs lo ls vo vs f G bt bt0 Hu Hf Hc Hw].
  - exists (mku tNext sStart), [], z, ls'. repeat split; [exact E|]. unfold nf. cbn. discriminate.
  - exists c, cs, z, ls'. split; [reflexivity|]. split; [exact E|]. eapply under_nf; eauto.
Qed.

Lemma wait_case : forall c cs ll vl G bt, wait (c :: cs) ll vl G bt ->
  (c = mku tNext sStart /\ cs = [] /\ vl = [] /\ G = [] /\ bt = BAny /\ exists z, ll = [z]) \/
  (exists lo ls vo vs f G' bt0, ll = lo ++ ls /\ vl = vo ++ vs /\ G = f :: G' /\
     under c lo vo f bt /\ fwf f = true /\ compat bt0 c /\ wait cs ls vs G' bt0).
Proof.
  intros c cs ll vl G bt H. inversion H; subst.
  - left. repeat split; eauto.
  - right. do 7 eexists. repeat split; eauto.
Qed.

Lemma elemst_nf : forall ve, elemst ve -> nf ve.
Proof. intros ve (m & H & _). apply marker_state_mid in H. destruct H as [_ H]. exact H. Qed.

Lemma vlist_cons : forall p ve vs, vlist p = ve :: vs -> up_vcur p = ve /\ up_vstack p = vs /\ nf ve.
Proof.
  intros p ve vs H. unfold vlist in H. destruct (u_t (up_vcur p) =? tFail) eqn:E; [discriminate|].
  injection H as <- <-. repeat split. unfold nf. lia.
Qed.

Lemma vlist_push : forall p st vt, vok p -> nf st ->
  vok (v_push p st vt) /\ vlist (v_push p st vt) = st :: vlist p.
Proof.
  intros p st vt [H1 H2] Hn. unfold vok, vlist, nf in *. pcx.
  replace (u_t st =? tFail) with false by lia.
  destruct (u_t (up_vcur p) =? tFail) eqn:E.
  - rewrite H2 by lia. split; [split; [constructor|intros; lia]|reflexivity].
  - split; [split; [constructor; [lia|exact H1]|intros; lia]|reflexivity].
Qed.

Lemma vlist_pop : forall p ve vs, vok p -> vlist p = ve :: vs -> vok (v_pop p) /\ vlist (v_pop p) = vs.
Proof.
  intros p ve vs [H1 H2] H. apply vlist_cons in H. destruct H as (<- & <- & Hn).
  unfold v_pop. destruct (up_vstack p) as [|c r] eqn:E.
  - unfold vok, vlist. pcx. split; [split; [constructor|reflexivity]|reflexivity].
  - inversion H1; subst. unfold vok, vlist, nf in *. pcx.
    replace (u_t c =? tFail) with false by lia. split; [split; [assumption|intros; lia]|reflexivity].
Qed.

Lemma fixed_top : forall st vt, fixed_st st -> top (mku tFixed st) 0 [] vt [] [] FL.
Proof. intros. apply T_fixed; [assumption|left; reflexivity]. Qed.

(* a freshly pushed value state *)
Lemma marker_state_top : forall m st vt, marker_state m = Some st -> (u_s st =? sNoop) = false ->
  top st 0 [] vt [] [] FL.
Proof.
  intros m st vt H Hn. unfold marker_state in H.
  repeat match type of H with
  | (if ?c then _ else _) = _ => destruct c; [injection H as <-|]
  end; try discriminate H; try discriminate Hn;
  try (apply fixed_top; unfold fixed_st; tauto).
  - apply T_str0; [left; reflexivity|left; auto].
  - apply T_str0; [right; reflexivity|left; auto].
  - apply T_obj.
  - apply T_arr.
Qed.

Lemma elemst_top : forall ve vt, elemst ve -> top ve 0 [] vt [] [] FL.
Proof.
  intros ve vt (m & H & Hn). eapply marker_state_top; [exact H|].
  unfold marker_state in H.
  repeat match type of H with
  | (if ?c then _ else _) = _ => let E := fresh "E" in destruct c eqn:E; [injection H as <-|]
  end; try discriminate H; try reflexivity.
  exfalso. apply Hn. lia.
Qed.

(* ====================================================================== *)
(* Part 3: transitions of the ghost state                                  *)
(* ====================================================================== *)
Lemma oevents_arrive_A : forall len bt done t G,
  oevents (FA len bt (t :: done) :: G) = oevents (FA len bt done :: G) ++ flatten t.
Proof.
  intros. cbn [oevents fevents rev]. unfold flatten_elems. rewrite flat_map_app. cbn [flat_map].
  rewrite app_nil_r, <- !app_assoc. reflexivity.
Qed.

Lemma oevents_arrive_O : forall len done k t G,
  oevents (FO len ((k, true, t) :: done) None :: G) = oevents (FO len done (Some k) :: G) ++ flatten t.
Proof.
  intros. cbn [oevents fevents rev]. unfold flatten_members. rewrite flat_map_app. cbn [flat_map key_event].
  rewrite !app_nil_r, <- !app_assoc. cbn [app]. rewrite <- !app_assoc. reflexivity.
Qed.

Lemma fwf_arrive_A : forall len bt done t, fwf (FA len bt done) = true -> wf_tree t = true ->
  tree_matches bt t = true -> fwf (FA len bt (t :: done)) = true.
Proof.
  intros len bt done t H Hw Hm. cbn [fwf forallb] in *. apply andb_true_iff in H. destruct H as [H1 H2].
  rewrite Hw, Hm, H1, H2. reflexivity.
Qed.

Lemma fwf_arrive_O : forall len done k t, fwf (FO len done (Some k)) = true -> wf_tree t = true ->
  fwf (FO len ((k, true, t) :: done) None) = true.
Proof.
  intros len done k t H Hw. cbn [fwf forallb] in *. apply andb_true_iff in H. destruct H as [H1 H2].
  unfold mwf at 1. cbn [fst snd]. rewrite H2, Hw, H1. reflexivity.
Qed.

(* a complete value arrives in a waiting context *)
Lemma arrive_J : forall vl q G bt t, ctx vl q G bt -> wf_tree t = true -> tree_matches bt t = true ->
  exists ts G1, J vl q G1 /\ gl ts G1 = oevents G ++ flatten t /\ forallb wf_tree ts = true.
Proof.
  intros vl q G bt t (Hw & Hb & Hm) Hwf Hmt.
  destruct (wait_case _ _ _ _ _ _ Hw) as [(E1 & E2 & E3 & -> & -> & z & E4)|
    (lo & ls & vo & vs & f & G' & bt0 & E2 & E3 & -> & Hu & Hf & Hc & Hw')].
  - exists [t], []. split; [|split].
    + cbn [J]. split; [exact Hw|auto].
    + unfold gl. cbn [flat_map oevents app]. rewrite !app_nil_r. reflexivity.
    + cbn [forallb]. rewrite Hwf. reflexivity.
  - exists [], (arrive t f :: G').
    assert (HR : forall lo', up_lcur q :: up_lstack q = lo' ++ ls -> Rest vl q lo' vo G').
    { intros lo' El. exists ls, vs, bt0. auto. }
    remember (up_cur q) as c eqn:E1.
    destruct Hu as [done|len done r Hr Hr0|len done r ve Hve Hr Hr0|done k|tt vo len done r k Hoc Hr Hr0].
    + split; [|split; [|reflexivity]].
      * cbn [J arrive]. exists [], []. rewrite <- E1, Hb, Hm.
        split; [apply T_adyn; auto|]. split; [apply fwf_arrive_A; assumption|]. split; [reflexivity|].
        apply HR. exact E2.
      * unfold gl. cbn [flat_map app arrive]. apply oevents_arrive_A.
    + split; [|split; [|reflexivity]].
      * cbn [J arrive]. exists [r], []. rewrite <- E1, Hb, Hm.
        split; [apply T_acnt2; [rewrite zlen_cons'; lia|lia]|]. split; [apply fwf_arrive_A; assumption|].
        split; [reflexivity|]. apply HR. exact E2.
      * unfold gl. cbn [flat_map app arrive]. apply oevents_arrive_A.
    + split; [|split; [|reflexivity]].
      * cbn [J arrive]. exists [r], [ve]. rewrite <- E1, Hb, Hm.
        split; [apply T_atyp2; [assumption|rewrite zlen_cons'; lia|lia]|]. split; [apply fwf_arrive_A; assumption|].
        split; [reflexivity|]. apply HR. exact E2.
      * unfold gl. cbn [flat_map app arrive]. apply oevents_arrive_A.
    + split; [|split; [|reflexivity]].
      * cbn [J arrive]. exists [], []. rewrite <- E1, Hb, Hm.
        split; [apply T_odyn0; left; auto|]. split; [apply fwf_arrive_O; assumption|]. split; [reflexivity|].
        apply HR. exact E2.
      * unfold gl. cbn [flat_map app arrive]. apply oevents_arrive_O.
    + split; [|split; [|reflexivity]].
      * cbn [J arrive]. exists [r], vo. rewrite <- E1, Hb, Hm.
        split; [apply T_oc2; [assumption|rewrite zlen_cons'; lia|lia|left; auto|auto]|].
        split; [apply fwf_arrive_O; assumption|]. split; [reflexivity|]. apply HR. exact E2.
      * unfold gl. cbn [flat_map app arrive]. apply oevents_arrive_O.
Qed.

Lemma arrive_I : forall q G bt t, vok q -> ctx (vlist q) q G bt -> wf_tree t = true -> tree_matches bt t = true ->
  exists ts G1, GI q G1 /\ gl ts G1 = oevents G ++ flatten t /\ forallb wf_tree ts = true.
Proof.
  intros q G bt t Hv Hc Hwf Hmt. destruct (arrive_J _ q G bt t Hc Hwf Hmt) as (ts & G1 & HJ & He & Hts).
  exists ts, G1. split; [split; assumption|auto].
Qed.

(* a value state is pushed in a waiting context *)
Lemma push_I : forall q G bt st, vok q -> ctx (vlist q) q G bt ->
  (forall vt, top st 0 [] vt [] [] FL) -> compat bt st -> GI (u_push q st) (FL :: G).
Proof.
  intros q G bt st Hv (Hw & Hb & Hm) Ht Hc.
  destruct (wait_inv _ _ _ _ _ Hw) as (c & cs' & z & ls' & E1 & E2 & Hn). injection E1 as E1 E1'.
  split; [exact Hv|]. cbn [J]. exists [], []. pcx. rewrite Hb, Hm. split; [apply Ht|].
  split; [reflexivity|]. split; [reflexivity|].
  exists (up_lcur q :: up_lstack q), (vlist q), bt. pcx. split; [exact Hc|].
  unfold nf in Hn. rewrite E1. replace (u_t c =? tFail) with false by lia. rewrite <- E1.
  split; [exact Hw|]. split; reflexivity.
Qed.

(* ====================================================================== *)
(* Part 4: the outcome of a step in terms of the ghost state               *)
(* ====================================================================== *)
Definition Fout (G : list frame) (s : sink) (r : ures) : Prop :=
  match r with
  | UCrash _ => True
  | UR p1 s1 rest d e => e = unilE ->
      exists l ts G1, s1 = s_add s l /\ GI p1 G1 /\ all_bytes rest = true /\
        oevents G ++ l = gl ts G1 /\ forallb wf_tree ts = true
  end.

Lemma Fout_err : forall G s p1 s1 rest d e, e <> unilE -> Fout G s (UR p1 s1 rest d e).
Proof. intros. cbn [Fout]. intros; contradiction. Qed.

Lemma Fout_stay : forall G s p1 rest d l G1, GI p1 G1 -> all_bytes rest = true ->
  oevents G ++ l = oevents G1 -> Fout G s (UR p1 (s_add s l) rest d unilE).
Proof.
  intros G s p1 rest d l G1 HI Hr He. cbn [Fout]. intros _. exists l, [], G1.
  split; [reflexivity|]. split; [exact HI|]. split; [exact Hr|]. split; [exact He|reflexivity].
Qed.

Lemma Fout_stay0 : forall G s p1 rest d, GI p1 G -> all_bytes rest = true -> Fout G s (UR p1 s rest d unilE).
Proof.
  intros G s p1 rest d HI Hr. rewrite <- (s_add_nil s) at 2. eapply Fout_stay; eauto. apply app_nil_r.
Qed.

Lemma Fout_pre : forall G s l0 ts0 G1 r, oevents G ++ l0 = gl ts0 G1 -> forallb wf_tree ts0 = true ->
  Fout G1 (s_add s l0) r -> Fout G s r.
Proof.
  intros G s l0 ts0 G1 [p1 s1 rest d e|w] He Hw H; [|exact I]. cbn [Fout] in *. intros Hn.
  destruct (H Hn) as (l & ts & G2 & -> & HI & Hr & He2 & Hw2).
  exists (l0 ++ l), (ts0 ++ ts), G2. split; [apply s_add_add|]. split; [exact HI|]. split; [exact Hr|]. split.
  - rewrite app_assoc, He. unfold gl in *. rewrite flat_map_app, <- !app_assoc. f_equal. exact He2.
  - rewrite forallb_app, Hw, Hw2. reflexivity.
Qed.

Lemma Fout_nodone : forall G s r, Fout G s r -> Fout G s (value_nodone r).
Proof. intros G s [p1 s1 rest d e|w] H; exact H. Qed.

Lemma Fout_latch : forall G s r, Fout G s r -> Fout G s (xlatch r).
Proof.
  intros G s [p1 s1 rest d e|w] H; [|exact H]. cbn [xlatch].
  destruct (unil e) eqn:E; [exact H|]. apply Fout_err. intros ->. vm_compute in E. discriminate E.
Qed.

(* a value is complete in the context Gc *)
Lemma Fout_pop : forall q s l rest d G Gc bt t, vok q -> ctx (vlist q) q Gc bt ->
  wf_tree t = true -> tree_matches bt t = true -> all_bytes rest = true ->
  oevents G ++ l = oevents Gc ++ flatten t -> Fout G s (UR q (s_add s l) rest d unilE).
Proof.
  intros q s l rest d G Gc bt t Hv Hc Hw Hm Hr He. cbn [Fout]. intros _.
  destruct (arrive_I q Gc bt t Hv Hc Hw Hm) as (ts & G1 & HI & Hg & Hts).
  exists l, ts, G1. split; [reflexivity|]. split; [exact HI|]. split; [exact Hr|]. split; [|exact Hts].
  rewrite He, Hg. reflexivity.
Qed.

Lemma Fout_push : forall q s rest d G bt st, vok q -> ctx (vlist q) q G bt ->
  (forall vt, top st 0 [] vt [] [] FL) -> compat bt st -> all_bytes rest = true ->
  Fout G s (UR (u_push q st) s rest d unilE).
Proof.
  intros q s rest d G bt st Hv Hc Ht Hcm Hr. rewrite <- (s_add_nil s) at 2.
  eapply Fout_stay; [eapply push_I; eauto|exact Hr|]. cbn [oevents fevents]. reflexivity.
Qed.

(* popState on a parser whose remaining stacks are a waiting context *)
Lemma upop_F : forall p' s l rest G Gc bt0 t,
  vok p' -> wait (up_stack p') (up_lcur p' :: up_lstack p') (vlist p') Gc bt0 ->
  up_buf p' = [] -> up_marker p' = 0 ->
  wf_tree t = true -> tree_matches bt0 t = true -> all_bytes rest = true ->
  oevents G ++ l = oevents Gc ++ flatten t ->
  Fout G s (let '(p1, d) := upop_state p' in UR p1 (s_add s l) rest d unilE).
Proof.
  intros p' s l rest G Gc bt0 t Hv Hw Hb Hm Hwf Hmt Hr He.
  destruct (wait_inv _ _ _ _ _ Hw) as (c & cs & z & ls' & E1 & _ & _).
  unfold upop_state. cbv zeta.
  eapply (Fout_pop (u_pop p') s l rest _ G Gc bt0 t); try assumption.
  - dp p'. unfold vok in *. pcx. subst. exact Hv.
  - dp p'. unfold ctx, vlist in *. pcx. subst. cbn [u_pop up_stack up_cur up_lcur up_lstack up_vcur up_vstack up_buf up_marker].
    auto.
Qed.

Lemma Rest_wait : forall vl p lo vo G', Rest vl p lo vo G' ->
  exists ls vs bt0 z ls', compat bt0 (up_cur p) /\ wait (up_stack p) ls vs G' bt0 /\
    up_lcur p :: up_lstack p = lo ++ ls /\ vl = vo ++ vs /\ ls = z :: ls'.
Proof.
  intros vl p lo vo G' (ls & vs & bt0 & Hc & Hw & El & Ev).
  destruct (wait_ls _ _ _ _ _ Hw) as (z & ls' & E). exists ls, vs, bt0, z, ls'. auto.
Qed.

(* a leaf or a dynamic container is complete: popState *)
Lemma pop0_F : forall p s l rest f G' t,
  vok p -> Rest (vlist p) p [] [] G' -> up_buf p = [] -> up_marker p = 0 ->
  wf_tree t = true -> tree_matches (cls (up_cur p)) t = true -> all_bytes rest = true ->
  oevents (f :: G') ++ l = oevents G' ++ flatten t ->
  Fout (f :: G') s (let '(p1, d) := upop_state p in UR p1 (s_add s l) rest d unilE).
Proof.
  intros p s l rest f G' t Hv HR Hb Hm Hwf Hmt Hr He.
  destruct (Rest_wait _ _ _ _ _ HR) as (ls & vs & bt0 & z & ls' & Hc & Hw & El & Ev & _).
  cbn [app] in El, Ev. eapply (upop_F p s l rest (f :: G') G' bt0 t); try eassumption.
  - rewrite El, Ev. exact Hw.
  - eapply compat_matches; eauto.
Qed.

(* a string or a counted container is complete: popLenState *)
Lemma pop1_F : forall p s l rest f G' t L,
  vok p -> Rest (vlist p) p [L] [] G' -> up_buf p = [] -> up_marker p = 0 ->
  wf_tree t = true -> tree_matches (cls (up_cur p)) t = true -> all_bytes rest = true ->
  oevents (f :: G') ++ l = oevents G' ++ flatten t ->
  Fout (f :: G') s (let '(p1, d) := upop_len_state p in UR p1 (s_add s l) rest d unilE).
Proof.
  intros p s l rest f G' t L Hv HR Hb Hm Hwf Hmt Hr He.
  destruct (Rest_wait _ _ _ _ _ HR) as (ls & vs & bt0 & z & ls' & Hc & Hw & El & Ev & Els).
  cbn [app] in El, Ev. unfold upop_len_state. eapply (upop_F (ul_pop p) s l rest (f :: G') G' bt0 t); try eassumption.
  - dp p. unfold vok in *. pcx. injection El as E1 E2. subst. exact Hv.
  - dp p. unfold vlist in *. pcx. injection El as E1 E2. subst.
    cbn [ul_pop up_lstack up_stack up_lcur up_vcur up_vstack]. exact Hw.
  - dp p. pcx. injection El as E1 E2. subst. reflexivity.
  - dp p. pcx. injection El as E1 E2. subst. reflexivity.
  - eapply compat_matches; eauto.
Qed.

(* a typed container is complete: the element state is dropped, then popLenState *)
Lemma pop2_F : forall p s l rest f G' t L ve,
  vok p -> Rest (vlist p) p [L] [ve] G' -> up_buf p = [] -> up_marker p = 0 ->
  wf_tree t = true -> tree_matches (cls (up_cur p)) t = true -> all_bytes rest = true ->
  oevents (f :: G') ++ l = oevents G' ++ flatten t ->
  Fout (f :: G') s (let '(p1, d) := upop_len_state (v_pop p) in UR p1 (s_add s l) rest d unilE).
Proof.
  intros p s l rest f G' t L ve Hv HR Hb Hm Hwf Hmt Hr He.
  destruct (Rest_wait _ _ _ _ _ HR) as (ls & vs & bt0 & z & ls' & Hc & Hw & El & Ev & Els).
  cbn [app] in El, Ev. destruct (vlist_pop p ve vs Hv Ev) as [Hv1 Ev1].
  destruct (v_pop_proj p) as (A & B & C & D & E & F & _).
  unfold upop_len_state. eapply (upop_F (ul_pop (v_pop p)) s l rest (f :: G') G' bt0 t); try eassumption.
  - destruct (ul_pop_proj (v_pop p)) as (_ & _ & X & Y & _). unfold vok. rewrite X, Y. exact Hv1.
  - remember (v_pop p) as p1 eqn:Ep1. clear Ep1. dp p1. unfold vlist in *. pcx.
    injection El as E1 E2. rewrite E2, Els in D. subst xlstk xstk.
    cbn [ul_pop up_lstack up_stack up_lcur up_vcur up_vstack]. rewrite Ev1, <- Els. exact Hw.
  - destruct (ul_pop_proj (v_pop p)) as (_ & _ & _ & _ & X & _). congruence.
  - destruct (ul_pop_proj (v_pop p)) as (_ & _ & _ & _ & _ & X & _). congruence.
  - eapply compat_matches; eauto.
Qed.

(* ====================================================================== *)
(* Part 5: the token functions (collect, stepLen, stepValue)               *)
(* ====================================================================== *)
Lemma ucollect_cases : forall p a k p1 rest o,
  bufb (up_buf p) k -> all_bytes (up_buf p) = true -> all_bytes a = true ->
  ucollect p a k = UC p1 rest o ->
  all_bytes rest = true /\
  match o with
  | None => rest = [] /\ p1 = uset_buf p (up_buf p ++ a) /\ bufb (up_buf p ++ a) k /\
            all_bytes (up_buf p ++ a) = true
  | Some tmp => p1 = uset_buf p [] /\ zlen tmp = k /\ all_bytes tmp = true
  end.
Proof.
  intros p a k p1 rest o Hb Hab Ha H. rewrite (collect_spec p a k Hb) in H. unfold collect_s in H.
  destruct (k <? 0) eqn:E1; [discriminate|].
  assert (Hall : all_bytes (up_buf p ++ a) = true) by (rewrite ab_app, Hab, Ha; reflexivity).
  destruct (zlen (up_buf p) + zlen a >=? k) eqn:E2; inversion H; subst; clear H.
  - split; [apply ab_skipn; exact Ha|]. split; [reflexivity|]. split; [|apply ab_firstn; exact Hall].
    apply zlen_zfirstn. rewrite zlen_app. lia.
  - split; [reflexivity|]. split; [reflexivity|]. split; [reflexivity|]. split; [|exact Hall].
    unfold bufb. destruct (up_buf p ++ a) as [|x l] eqn:E; [left; reflexivity|right].
    rewrite <- E, zlen_app. split; [|lia]. rewrite <- zlen_app, E. unfold zlen. cbn [length]. lia.
Qed.

(* stepLen either needs more input for the length, or pushes the length *)
Definition len_more (p p1 : uparser) : Prop :=
  up_cur p1 = up_cur p /\ up_stack p1 = up_stack p /\ up_vcur p1 = up_vcur p /\ up_vstack p1 = up_vstack p /\
  up_lcur p1 = up_lcur p /\ up_lstack p1 = up_lstack p /\ up_vtype p1 = up_vtype p /\
  lenmarker (up_marker p1) = true /\ bufb (up_buf p1) (markcount (up_marker p1)) /\
  all_bytes (up_buf p1) = true.
Definition len_done (cont : ustate) (p p1 : uparser) (L : Z) : Prop :=
  up_cur p1 = cont /\ up_stack p1 = up_stack p /\ up_vcur p1 = up_vcur p /\ up_vstack p1 = up_vstack p /\
  up_lcur p1 = L /\ up_lstack p1 = up_lcur p :: up_lstack p /\ up_vtype p1 = up_vtype p /\
  up_marker p1 = 0 /\ up_buf p1 = [] /\ 0 <= L.

Lemma len_finish_spec : forall cont q rest L p1 rest', up_buf q = [] ->
  len_finish cont q rest L = UL p1 rest' unilE -> rest' = rest /\ len_done cont q p1 L.
Proof.
  intros cont q rest L p1 rest' Hb H. unfold len_finish in H.
  destruct (L <? 0) eqn:E; inversion H; subst; clear H. split; [reflexivity|].
  unfold len_done. pcx. repeat split; auto. lia.
Qed.

Lemma len_via_spec : forall cont q a k p1 rest,
  lenmarker (up_marker q) = true -> markcount (up_marker q) = k -> bufb (up_buf q) k ->
  all_bytes (up_buf q) = true -> all_bytes a = true ->
  len_via cont q a k = UL p1 rest unilE ->
  all_bytes rest = true /\ (len_more q p1 \/ exists L, len_done cont q p1 L).
Proof.
  intros cont q a k p1 rest Hm Hk Hb Hab Ha H. unfold len_via in H.
  destruct (ucollect q a k) as [q1 rest1 [t|]|] eqn:E; [| |discriminate].
  - destruct (ucollect_cases _ _ _ _ _ _ Hb Hab Ha E) as (Hr & -> & _ & _).
    apply len_finish_spec in H; [|reflexivity]. destruct H as [-> H]. split; [exact Hr|].
    right. exists (wraps (8 * k) (be_dec t)). unfold len_done in *. pcx. exact H.
  - destruct (ucollect_cases _ _ _ _ _ _ Hb Hab Ha E) as (Hr & -> & -> & Hb1 & Hab1).
    inversion H; subst; clear H. split; [reflexivity|]. left. unfold len_more. pcx.
    repeat split; auto.
Qed.

Lemma len_go_spec : forall cont q a p1 rest,
  lenmarker (up_marker q) = true -> bufb (up_buf q) (markcount (up_marker q)) ->
  all_bytes (up_buf q) = true -> all_bytes a = true ->
  len_go cont q a = UL p1 rest unilE ->
  all_bytes rest = true /\ (len_more q p1 \/ exists L, len_done cont q p1 L).
Proof.
  intros cont q a p1 rest Hm Hb Hab Ha H. unfold len_go in H.
  assert (Hfin : forall r L, markcount (up_marker q) = 0 -> all_bytes r = true ->
            len_finish cont q r L = UL p1 rest unilE ->
            all_bytes rest = true /\ (len_more q p1 \/ exists L, len_done cont q p1 L)).
  { intros r L Hk Hr Hf. rewrite Hk in Hb. destruct Hb as [Hb|Hb]; [|lia].
    apply len_finish_spec in Hf; [|exact Hb]. destruct Hf as [-> Hf]. split; [exact Hr|]. right. eauto. }
  destruct (up_marker q =? mi) eqn:E1.
  { destruct a as [|x r]; [discriminate|]. apply ab_cons in Ha. destruct Ha as [_ Ha].
    eapply Hfin; [|exact Ha|exact H]. apply Z.eqb_eq in E1. rewrite E1. reflexivity. }
  destruct (up_marker q =? mU) eqn:E2.
  { destruct a as [|x r]; [discriminate|]. apply ab_cons in Ha. destruct Ha as [_ Ha].
    eapply Hfin; [|exact Ha|exact H]. apply Z.eqb_eq in E2. rewrite E2. reflexivity. }
  destruct (up_marker q =? mI) eqn:E3.
  { apply Z.eqb_eq in E3. assert (Hk : markcount (up_marker q) = 2) by (rewrite E3; reflexivity).
    rewrite Hk in Hb. eapply len_via_spec; eauto. }
  destruct (up_marker q =? ml) eqn:E4.
  { apply Z.eqb_eq in E4. assert (Hk : markcount (up_marker q) = 4) by (rewrite E4; reflexivity).
    rewrite Hk in Hb. eapply len_via_spec; eauto. }
  destruct (up_marker q =? mL) eqn:E5.
  { apply Z.eqb_eq in E5. assert (Hk : markcount (up_marker q) = 8) by (rewrite E5; reflexivity).
    rewrite Hk in Hb. eapply len_via_spec; eauto. }
  discriminate.
Qed.

Lemma ustep_len_spec : forall p b cont p1 rest,
  lenrd (up_marker p) (up_buf p) -> all_bytes (up_buf p) = true -> all_bytes b = true ->
  ustep_len p b cont = UL p1 rest unilE ->
  all_bytes rest = true /\ (len_more p p1 \/ exists L, len_done cont p p1 L).
Proof.
  intros p b cont p1 rest Hl Hab Hb H. rewrite ustep_len_eq in H.
  destruct (up_marker p =? 0) eqn:Em.
  - apply Z.eqb_eq in Em.
    assert (Hbuf : up_buf p = []).
    { destruct Hl as [[_ Hl]|[Hl _]]; [exact Hl|]. rewrite Em in Hl. discriminate Hl. }
    destruct b as [|m r]; [discriminate|]. apply ab_cons in Hb. destruct Hb as [_ Hb].
    destruct (negb (lenmarker m)) eqn:El; [discriminate|]. apply negb_false_iff in El.
    destruct (zlen r =? 0).
    + inversion H; subst; clear H. split; [reflexivity|]. left. unfold len_more. pcx.
      repeat split; auto. left. exact Hbuf.
    + apply len_go_spec in H; pcx; [|exact El|left; exact Hbuf|exact Hab|exact Hb].
      destruct H as [Hr H]. split; [exact Hr|]. unfold len_more, len_done in *. pcx. exact H.
  - destruct Hl as [[Hl _]|[Hl1 Hl2]]; [lia|]. eapply len_go_spec; eauto.
Qed.

Lemma marker_state_noop : forall m st, marker_state m = Some st -> (u_s st =? sNoop) = true -> m = mN.
Proof.
  intros m st H Hn. unfold marker_state in H.
  repeat match type of H with
  | (if ?c then _ else _) = _ => let E := fresh "E" in destruct c eqn:E; [injection H as <-|]
  end; try discriminate H; try discriminate Hn. lia.
Qed.

Ltac vis e Hv :=
  match goal with |- context [uvis ?s ?ev] => destruct (uvis_add s ev) as [e Hv]; rewrite Hv; cbv beta iota end.
Ltac nilcase e Ee := destruct (unil e) eqn:Ee; [apply unil_true' in Ee; subst e|].
Ltac errc Ee := apply Fout_err; intro; subst; vm_compute in Ee; discriminate Ee.

(* stepValue in a context that expects any value *)
Lemma ustep_value_F : forall q s b G, vok q -> ctx (vlist q) q G BAny -> all_bytes b = true ->
  (forall r, b = mN :: r -> GI q G) -> Fout G s (ustep_value q s b).
Proof.
  intros q s b G Hv Hc Hb Hnoop. unfold ustep_value.
  destruct b as [|m r]; [exact I|]. apply ab_cons in Hb. destruct Hb as [_ Hr].
  destruct (marker_state m) as [st|] eqn:Em; [|apply Fout_err; discriminate].
  destruct (u_s st =? sNil) eqn:E1.
  { vis e Hv1. nilcase e Ee; [|errc Ee].
    eapply (Fout_pop q s [EVal SNil] r true G G BAny (TVal SNil false)); auto. }
  destruct (u_s st =? sNoop) eqn:E2.
  { apply Fout_stay0; [|exact Hr]. apply (Hnoop r). f_equal. eapply marker_state_noop; eauto. }
  destruct (u_s st =? sTrue) eqn:E3.
  { vis e Hv1. nilcase e Ee; [|errc Ee].
    eapply (Fout_pop q s [EVal (SBool true)] r true G G BAny (TVal (SBool true) false)); auto. }
  destruct (u_s st =? sFalse) eqn:E4.
  { vis e Hv1. nilcase e Ee; [|errc Ee].
    eapply (Fout_pop q s [EVal (SBool false)] r true G G BAny (TVal (SBool false) false)); auto. }
  eapply Fout_push; eauto.
  - intros vt. eapply marker_state_top; eauto.
  - left. reflexivity.
Qed.

(* ====================================================================== *)
(* Part 6: one step, state by state                                        *)
(* ====================================================================== *)
Lemma GI_intro : forall p1 f G' lo vo, vok p1 ->
  top (up_cur p1) (up_marker p1) (up_buf p1) (up_vtype p1) lo vo f -> fwf f = true ->
  all_bytes (up_buf p1) = true -> Rest (vlist p1) p1 lo vo G' -> GI p1 (f :: G').
Proof. intros p1 f G' lo vo H1 H2 H3 H4 H5. split; [assumption|]. cbn [J]. exists lo, vo. auto. Qed.

Lemma Rest_upd : forall vl p p1 lo lo1 vo G', Rest vl p lo vo G' ->
  up_stack p1 = up_stack p -> cls (up_cur p1) = cls (up_cur p) ->
  (forall ls, ls <> [] -> up_lcur p :: up_lstack p = lo ++ ls -> up_lcur p1 :: up_lstack p1 = lo1 ++ ls) ->
  Rest vl p1 lo1 vo G'.
Proof.
  intros vl p p1 lo lo1 vo G' HR Hs Hc Hl.
  destruct (Rest_wait _ _ _ _ _ HR) as (ls & vs & bt0 & z & ls' & Hcm & Hw & El & Ev & Els).
  exists ls, vs, bt0. split; [eapply compat_cls; eauto|]. split; [rewrite Hs; exact Hw|].
  split; [apply Hl; [rewrite Els; discriminate|exact El]|exact Ev].
Qed.

Lemma Rest_vpush : forall vl p lo vo G' ve, Rest vl p lo vo G' -> Rest (ve :: vl) p lo (ve :: vo) G'.
Proof.
  intros vl p lo vo G' ve (ls & vs & bt0 & Hc & Hw & El & Ev). exists ls, vs, bt0.
  split; [exact Hc|]. split; [exact Hw|]. split; [exact El|]. rewrite Ev. reflexivity.
Qed.

(* a container that is ready for a child becomes a waiting context *)
Lemma Rest_ctx : forall vl p q lo lo1 vo G' f bt,
  Rest vl p lo vo G' -> under (up_cur q) lo1 vo f bt -> fwf f = true ->
  cls (up_cur q) = cls (up_cur p) -> up_stack q = up_stack p ->
  (forall ls, ls <> [] -> up_lcur p :: up_lstack p = lo ++ ls -> up_lcur q :: up_lstack q = lo1 ++ ls) ->
  up_buf q = [] -> up_marker q = 0 -> ctx vl q (f :: G') bt.
Proof.
  intros vl p q lo lo1 vo G' f bt HR Hu Hf Hc Hs Hl Hb Hm.
  destruct (Rest_wait _ _ _ _ _ HR) as (ls & vs & bt0 & z & ls' & Hcm & Hw & El & Ev & Els).
  split; [|auto]. rewrite (Hl ls) by (try exact El; rewrite Els; discriminate). rewrite Ev.
  eapply W_cons; eauto.
  - eapply compat_cls; eauto.
  - rewrite Hs. exact Hw.
Qed.

(* ---------- stFixed ---------- *)
Lemma fixed_emit_F : forall p s rest G' ev t,
  vok p -> Rest (vlist p) p [] [] G' -> up_buf p = [] -> up_marker p = 0 ->
  flatten t = [ev] -> wf_tree t = true -> tree_matches (cls (up_cur p)) t = true -> all_bytes rest = true ->
  Fout (FL :: G') s (let '(s1, e) := uvis s ev in fixed_fin p s1 rest true e).
Proof.
  intros p s rest G' ev t Hv HR Hb Hm Hfl Hwf Hmt Hr. vis e Hv1. unfold fixed_fin.
  nilcase e Ee.
  - cbn [andb].
    eapply (pop0_F p s [ev] rest FL G' t); eauto.
    cbn [oevents fevents]. rewrite app_nil_r, Hfl. reflexivity.
  - cbn [andb]. errc Ee.
Qed.

Lemma fixed_via_F : forall p s b G' st k mk,
  vok p -> up_cur p = mku tFixed st -> fixed_st st -> up_marker p = 0 -> fixed_count st = k ->
  bufb (up_buf p) k -> all_bytes (up_buf p) = true -> all_bytes b = true -> Rest (vlist p) p [] [] G' ->
  (forall tmp, zlen tmp = k -> all_bytes tmp = true ->
     exists t, flatten t = [mk (be_dec tmp)] /\ wf_tree t = true /\ tree_matches (cls (mku tFixed st)) t = true) ->
  Fout (FL :: G') s (fixed_via p s b k mk).
Proof.
  intros p s b G' st k mk Hv Hc Hst Hm Hk Hbuf Hab Hb HR Hmk. unfold fixed_via.
  destruct (ucollect p b k) as [p1 rest [tmp|]|] eqn:E; [| |exact I].
  - destruct (ucollect_cases _ _ _ _ _ _ Hbuf Hab Hb E) as (Hr & -> & Hl & Htmp).
    destruct (Hmk tmp Hl Htmp) as (t & Hfl & Hwf & Hmt).
    apply (fixed_emit_F (uset_buf p []) s rest G' _ t);
      [exact Hv|eapply Rest_upd; eauto|reflexivity|exact Hm|exact Hfl|exact Hwf| |exact Hr].
    pcx. rewrite Hc. exact Hmt.
  - destruct (ucollect_cases _ _ _ _ _ _ Hbuf Hab Hb E) as (Hr & -> & -> & Hb1 & Hab1).
    unfold fixed_fin. cbn [andb]. apply Fout_stay0; [|reflexivity].
    apply (GI_intro _ FL G' [] []); pcx; [exact Hv| |reflexivity|exact Hab1|exact HR].
    rewrite Hc, Hm. apply T_fixed; [exact Hst|rewrite Hk; exact Hb1].
Qed.

Lemma in_u8_byte : forall x, is_byte x = true -> in_u 8 x = true.
Proof. intros x H. unfold in_u, is_byte in *. change (2 ^ 8) with 256. exact H. Qed.

Lemma step_fixed_F : forall p s b G' st,
  vok p -> up_cur p = mku tFixed st -> fixed_st st -> up_marker p = 0 ->
  bufb (up_buf p) (fixed_count st) -> all_bytes (up_buf p) = true -> all_bytes b = true ->
  Rest (vlist p) p [] [] G' -> Fout (FL :: G') s (ustep_fixed p s b).
Proof.
  intros p s b G' st Hv Hc Hst Hm Hbuf Hab Hb HR. rewrite ustep_fixed_eq, Hc. cbn [u_s mku].
  assert (H0 : fixed_count st = 0 -> up_buf p = []).
  { intros E. rewrite E in Hbuf. destruct Hbuf as [H|H]; [exact H|lia]. }
  assert (Hcls : forall t, tree_matches (cls (mku tFixed st)) t = true -> tree_matches (cls (up_cur p)) t = true).
  { intros t H. rewrite Hc. exact H. }
  pose proof Hst as Hst'.
  destruct Hst' as [E|[E|[E|[E|[E|[E|[E|[E|[E|[E|E]]]]]]]]]]; subst st; unfold fixed_body; ceq.
  - eapply (fixed_emit_F p s b G' _ (TVal SNil false)); eauto.
  - eapply (fixed_emit_F p s b G' _ (TVal (SBool true) false)); eauto.
  - eapply (fixed_emit_F p s b G' _ (TVal (SBool false) false)); eauto.
  - destruct b as [|x r]; [exact I|]. apply ab_cons in Hb. destruct Hb as [Hx Hr].
    eapply (fixed_emit_F p s r G' _ (TVal (SNum KInt8 (wraps 8 x)) false)); eauto.
    cbn [wf_tree scalar_ok nkind_ok]. apply Ubjson.ConformanceProofs.wraps_in_s_8.
  - destruct b as [|x r]; [exact I|]. apply ab_cons in Hb. destruct Hb as [Hx Hr].
    eapply (fixed_emit_F p s r G' _ (TVal (SNum KUint8 x) false)); eauto.
  - eapply fixed_via_F; eauto. intros tmp Hl Ht. exists (TVal (SNum KInt16 (wraps 16 (be_dec tmp))) false).
    split; [reflexivity|]. split; [apply Ubjson.ConformanceProofs.wraps_in_s_16|reflexivity].
  - eapply fixed_via_F; eauto. intros tmp Hl Ht. exists (TVal (SNum KInt32 (wraps 32 (be_dec tmp))) false).
    split; [reflexivity|]. split; [apply Ubjson.ConformanceProofs.wraps_in_s_32|reflexivity].
  - eapply fixed_via_F; eauto. intros tmp Hl Ht. exists (TVal (SNum KInt64 (wraps 64 (be_dec tmp))) false).
    split; [reflexivity|]. split; [apply Ubjson.ConformanceProofs.wraps_in_s_64|reflexivity].
  - eapply fixed_via_F; eauto. intros tmp Hl Ht. exists (TVal (SNum KFloat32 (be_dec tmp)) false).
    split; [reflexivity|]. split; [|reflexivity].
    apply (Ubjson.ConformanceProofs.be_dec_in_u tmp 4 32 4294967296); auto.
  - eapply fixed_via_F; eauto. intros tmp Hl Ht. exists (TVal (SNum KFloat64 (be_dec tmp)) false).
    split; [reflexivity|]. split; [|reflexivity].
    apply (Ubjson.ConformanceProofs.be_dec_in_u tmp 8 64 18446744073709551616); auto.
  - eapply fixed_via_F; eauto. intros tmp Hl Ht. exists (TVal (SNum KByte (be_dec tmp)) false).
    split; [reflexivity|]. split; [|reflexivity].
    apply (Ubjson.ConformanceProofs.be_dec_in_u tmp 1 8 256); auto.
Qed.

(* ---------- strings and high precision numbers ---------- *)
Lemma vok_eq : forall p p1, up_vcur p1 = up_vcur p -> up_vstack p1 = up_vstack p -> vok p -> vok p1.
Proof. intros p p1 A B H. unfold vok in *. rewrite A, B. exact H. Qed.
Lemma vlist_eq : forall p p1, up_vcur p1 = up_vcur p -> up_vstack p1 = up_vstack p -> vlist p1 = vlist p.
Proof. intros p p1 A B. unfold vlist. rewrite A, B. reflexivity. Qed.

Lemma Rest_lcur : forall vl p L lo vo G', Rest vl p (L :: lo) vo G' -> up_lcur p = L.
Proof. intros vl p L lo vo G' (ls & vs & bt0 & _ & _ & El & _). cbn [app] in El. congruence. Qed.

Lemma isstr_cls : forall t st, isstr_t t -> cls (mku t st) = BString.
Proof. intros t st [-> | ->]; reflexivity. Qed.

Lemma str_withlen_F : forall p s b G' t L,
  vok p -> up_cur p = mku t sWithLen -> isstr_t t -> up_marker p = 0 -> 0 <= L ->
  bufb (up_buf p) L -> all_bytes (up_buf p) = true -> all_bytes b = true ->
  Rest (vlist p) p [L] [] G' -> Fout (FL :: G') s (str_withlen p s b).
Proof.
  intros p s b G' t L Hv Hc Hst Hm HL Hbuf Hab Hb HR. unfold str_withlen.
  rewrite (Rest_lcur _ _ _ _ _ _ HR).
  assert (Hcls : cls (up_cur p) = BString) by (rewrite Hc; apply isstr_cls; exact Hst).
  destruct (L =? 0) eqn:E0.
  - assert (Hb0 : up_buf p = []) by (destruct Hbuf as [H|H]; [exact H|lia]).
    vis e Hv1. unfold str_fin. nilcase e Ee; cbn [andb]; [|errc Ee].
    eapply (pop1_F p s [EVal (SStr [])] b FL G' (TVal (SStr []) false)); eauto.
    + rewrite Hcls. reflexivity.
    + cbn [oevents fevents flatten]. rewrite app_nil_r. reflexivity.
  - destruct (ucollect p b L) as [p1 rest [tmp|]|] eqn:E; [| |exact I].
    + destruct (ucollect_cases _ _ _ _ _ _ Hbuf Hab Hb E) as (Hr & -> & Hl & Htmp).
      vis e Hv1. unfold str_fin. nilcase e Ee; cbn [andb]; [|errc Ee].
      apply (pop1_F (uset_buf p []) s [EStrRef tmp] rest FL G' (TVal (SStr tmp) true) L);
        [exact Hv|eapply Rest_upd; eauto|reflexivity|exact Hm|exact Htmp| |exact Hr|].
      * pcx. rewrite Hcls. reflexivity.
      * cbn [oevents fevents flatten]. rewrite app_nil_r. reflexivity.
    + destruct (ucollect_cases _ _ _ _ _ _ Hbuf Hab Hb E) as (Hr & -> & -> & Hb1 & Hab1).
      unfold str_fin. cbn [andb]. apply Fout_stay0; [|reflexivity].
      apply (GI_intro _ FL G' [L] []); pcx; [exact Hv| |reflexivity|exact Hab1|exact HR].
      rewrite Hc, Hm. apply T_str1; assumption.
Qed.

Lemma str0_F : forall p s b G' t,
  vok p -> up_cur p = mku t sStart -> isstr_t t -> lenrd (up_marker p) (up_buf p) ->
  all_bytes (up_buf p) = true -> all_bytes b = true -> Rest (vlist p) p [] [] G' ->
  Fout (FL :: G') s (ustep_string p s b).
Proof.
  intros p s b G' t Hv Hc Hst Hl Hab Hb HR. rewrite ustep_string_eq. rewrite Hc. cbn [u_s mku]. ceq.
  change (with_step (mku t sStart) sWithLen) with (mku t sWithLen). unfold str_cont.
  destruct (ustep_len p b (mku t sWithLen)) as [p1 rest err|w] eqn:El; [|exact I].
  nilcase err Ee; cbn [andb]; [|errc Ee].
  destruct (ustep_len_spec _ _ _ _ _ Hl Hab Hb El) as (Hr & [Hmore|(L & Hdone)]).
  - destruct Hmore as (A1 & A2 & A3 & A4 & A5 & A6 & A7 & A8 & A9 & A10).
    rewrite A1, Hc. cbn [u_s mku]. ceq. apply Fout_stay0; [|exact Hr].
    apply (GI_intro _ FL G' [] []).
    + eapply vok_eq; eauto.
    + rewrite A1, Hc. apply T_str0; [assumption|]. right. auto.
    + reflexivity.
    + exact A10.
    + rewrite (vlist_eq p p1 A3 A4). eapply Rest_upd; eauto; [rewrite A1; reflexivity|].
      intros ls _ E. rewrite A5, A6. exact E.
  - destruct Hdone as (A1 & A2 & A3 & A4 & A5 & A6 & A7 & A8 & A9 & A10).
    rewrite A1. cbn [u_s mku]. ceq.
    eapply (str_withlen_F p1 s rest G' t L); eauto.
    + eapply vok_eq; eauto.
    + left. exact A9.
    + rewrite A9. reflexivity.
    + rewrite (vlist_eq p p1 A3 A4). eapply Rest_upd; eauto.
      * rewrite A1, Hc. rewrite !(isstr_cls _ _ Hst). reflexivity.
      * intros ls _ E. rewrite A5, A6. cbn [app] in *. rewrite E. reflexivity.
Qed.

Lemma str1_F : forall p s b G' t L,
  vok p -> up_cur p = mku t sWithLen -> isstr_t t -> up_marker p = 0 -> 0 <= L ->
  bufb (up_buf p) L -> all_bytes (up_buf p) = true -> all_bytes b = true ->
  Rest (vlist p) p [L] [] G' -> Fout (FL :: G') s (ustep_string p s b).
Proof.
  intros p s b G' t L Hv Hc Hst Hm HL Hbuf Hab Hb HR. rewrite ustep_string_eq. rewrite Hc. cbn [u_s mku]. ceq.
  eapply str_withlen_F; eauto.
Qed.

(* ---------- a state that reads a length ---------- *)
Lemma len_step_GI : forall p b cont p1 rest G' f lo vo,
  vok p -> lenrd (up_marker p) (up_buf p) -> all_bytes (up_buf p) = true -> all_bytes b = true ->
  Rest (vlist p) p lo vo G' -> fwf f = true -> cls cont = cls (up_cur p) ->
  (forall m buf, lenrd m buf -> top (up_cur p) m buf (up_vtype p) lo vo f) ->
  (forall L, 0 <= L -> top cont 0 [] (up_vtype p) (L :: lo) vo f) ->
  ustep_len p b cont = UL p1 rest unilE -> GI p1 (f :: G') /\ all_bytes rest = true.
Proof.
  intros p b cont p1 rest G' f lo vo Hv Hl Hab Hb HR Hf Hcls Hmore Hdone El.
  destruct (ustep_len_spec _ _ _ _ _ Hl Hab Hb El) as (Hr & [Hm|(L & Hd)]); (split; [|exact Hr]).
  - destruct Hm as (A1 & A2 & A3 & A4 & A5 & A6 & A7 & A8 & A9 & A10).
    apply (GI_intro _ f G' lo vo).
    + eapply vok_eq; eauto.
    + rewrite A1, A7. apply Hmore. right. auto.
    + exact Hf.
    + exact A10.
    + rewrite (vlist_eq p p1 A3 A4). eapply Rest_upd; eauto; [rewrite A1; reflexivity|].
      intros ls _ E. rewrite A5, A6. exact E.
  - destruct Hd as (A1 & A2 & A3 & A4 & A5 & A6 & A7 & A8 & A9 & A10).
    apply (GI_intro _ f G' (L :: lo) vo).
    + eapply vok_eq; eauto.
    + rewrite A1, A7, A8, A9. apply Hdone. exact A10.
    + exact Hf.
    + rewrite A9. reflexivity.
    + rewrite (vlist_eq p p1 A3 A4). eapply Rest_upd; eauto; [rewrite A1; exact Hcls|].
      intros ls _ E. rewrite A5, A6, E. reflexivity.
Qed.

Lemma of_ul_len_F : forall p s b cont G' f lo vo,
  vok p -> lenrd (up_marker p) (up_buf p) -> all_bytes (up_buf p) = true -> all_bytes b = true ->
  Rest (vlist p) p lo vo G' -> fwf f = true -> cls cont = cls (up_cur p) ->
  (forall m buf, lenrd m buf -> top (up_cur p) m buf (up_vtype p) lo vo f) ->
  (forall L, 0 <= L -> top cont 0 [] (up_vtype p) (L :: lo) vo f) ->
  Fout (f :: G') s (of_ul (ustep_len p b cont) s).
Proof.
  intros p s b cont G' f lo vo Hv Hl Hab Hb HR Hf Hcls Hmore Hdone.
  destruct (ustep_len p b cont) as [p1 rest err|w] eqn:El; [|exact I]. cbn [of_ul].
  nilcase err Ee; [|errc Ee].
  destruct (len_step_GI _ _ _ _ _ _ _ _ _ Hv Hl Hab Hb HR Hf Hcls Hmore Hdone El) as [HG Hr].
  apply Fout_stay0; assumption.
Qed.

(* ---------- stArray / stObject: the kind of the container ---------- *)
Lemma arr_start_F : forall p s b G',
  vok p -> up_cur p = mku tArray sStart -> up_marker p = 0 -> up_buf p = [] -> all_bytes b = true ->
  Rest (vlist p) p [] [] G' -> Fout (FL :: G') s (arr_start p s b).
Proof.
  intros p s b G' Hv Hc Hm Hbuf Hb HR. unfold arr_start.
  destruct b as [|x r]; [exact I|]. pose proof (ab_cons _ _ Hb) as [_ Hr].
  destruct (x =? mCount).
  { apply Fout_stay0; [|exact Hr]. apply (GI_intro _ FL G' [] []); pcx; [exact Hv| |reflexivity|rewrite Hbuf; reflexivity|].
    - rewrite Hc, Hm, Hbuf. cbn [u_s mku]. apply T_acnt0. left. auto.
    - eapply Rest_upd; eauto. pcx. rewrite Hc. reflexivity. }
  destruct (x =? mType).
  { apply Fout_stay0; [|exact Hr]. apply (GI_intro _ FL G' [] []); pcx; [exact Hv| |reflexivity|rewrite Hbuf; reflexivity|].
    - rewrite Hc, Hm, Hbuf. cbn [u_s mku]. apply T_hdr0. left. reflexivity.
    - eapply Rest_upd; eauto. pcx. rewrite Hc. reflexivity. }
  vis e Hv1. nilcase e Ee; [|errc Ee].
  apply (Fout_stay _ s _ (x :: r) false [EArrStart (-1) BAny] (FA (-1) BAny [] :: G')); [|exact Hb|].
  - apply (GI_intro _ _ G' [] []); pcx; [exact Hv| |reflexivity|rewrite Hbuf; reflexivity|].
    + rewrite Hc, Hm, Hbuf. cbn [u_s mku]. apply T_adyn. left. reflexivity.
    + eapply Rest_upd; eauto. pcx. rewrite Hc. reflexivity.
  - cbn [oevents fevents rev flatten_elems flat_map]. rewrite app_nil_r. reflexivity.
Qed.

Lemma obj_start_F : forall p s b G',
  vok p -> up_cur p = mku tObject sStart -> up_marker p = 0 -> up_buf p = [] -> all_bytes b = true ->
  Rest (vlist p) p [] [] G' -> Fout (FL :: G') s (obj_start p s b).
Proof.
  intros p s b G' Hv Hc Hm Hbuf Hb HR. unfold obj_start.
  destruct b as [|x r]; [exact I|]. pose proof (ab_cons _ _ Hb) as [_ Hr].
  destruct (x =? mCount).
  { apply Fout_stay0; [|exact Hr]. apply (GI_intro _ FL G' [] []); pcx; [exact Hv| |reflexivity|rewrite Hbuf; reflexivity|].
    - rewrite Hc, Hm, Hbuf. cbn [u_s mku]. apply T_ocnt0. left. auto.
    - eapply Rest_upd; eauto. pcx. rewrite Hc. reflexivity. }
  destruct (x =? mType).
  { apply Fout_stay0; [|exact Hr]. apply (GI_intro _ FL G' [] []); pcx; [exact Hv| |reflexivity|rewrite Hbuf; reflexivity|].
    - rewrite Hc, Hm, Hbuf. cbn [u_s mku]. apply T_hdr0. right. reflexivity.
    - eapply Rest_upd; eauto. pcx. rewrite Hc. reflexivity. }
  vis e Hv1. nilcase e Ee; [|errc Ee].
  apply (Fout_stay _ s _ (x :: r) false [EObjStart (-1) BAny] (FO (-1) [] None :: G')); [|exact Hb|].
  - apply (GI_intro _ _ G' [] []); pcx; [exact Hv| |reflexivity|rewrite Hbuf; reflexivity|].
    + rewrite Hc, Hm, Hbuf. cbn [u_s mku]. apply T_odyn0. left. auto.
    + eapply Rest_upd; eauto. pcx. rewrite Hc. reflexivity.
  - cbn [oevents fevents rev flatten_members flat_map]. rewrite !app_nil_r. reflexivity.
Qed.

(* ---------- stArrayDyn ---------- *)
Lemma close_arr_events : forall len bt done G', 
  oevents (FA len bt done :: G') ++ [EArrEnd] = oevents G' ++ flatten (TArr len bt (rev done)).
Proof. intros. rewrite close_arr_ev. cbn [oevents]. rewrite app_assoc. reflexivity. Qed.

Lemma close_obj_events : forall len done G', 
  oevents (FO len done None :: G') ++ [EObjEnd] = oevents G' ++ flatten (TObj len BAny (rev done)).
Proof. intros. rewrite close_obj_ev. cbn [oevents]. rewrite app_assoc. reflexivity. Qed.

Lemma arr_dyn_F : forall p s b G' st done,
  vok p -> up_cur p = mku tArrayDyn st -> st = sStart \/ st = sCont -> up_marker p = 0 -> up_buf p = [] ->
  all_bytes b = true -> fwf (FA (-1) BAny done) = true -> Rest (vlist p) p [] [] G' ->
  Fout (FA (-1) BAny done :: G') s (arr_dyn p s b).
Proof.
  intros p s b G' st done Hv Hc Hst Hm Hbuf Hb Hf HR. unfold arr_dyn.
  destruct b as [|x r]; [exact I|]. pose proof (ab_cons _ _ Hb) as [_ Hr].
  destruct (x =? mArrE).
  { vis e Hv1. nilcase e Ee; [|errc Ee].
    apply (pop0_F p s [EArrEnd] r _ G' (TArr (-1) BAny (rev done))); auto.
    - apply close_arr_wf; auto.
    - rewrite Hc. destruct Hst as [-> | ->]; reflexivity.
    - apply close_arr_events. }
  apply Fout_nodone.
  set (p1 := if u_s (up_cur p) =? sStart then uset_step p sCont else p).
  assert (Hc1 : up_cur p1 = mku tArrayDyn sCont).
  { unfold p1. rewrite Hc. cbn [u_s mku]. destruct Hst as [-> | ->]; ceq; pcx; [rewrite Hc; reflexivity|exact Hc]. }
  assert (Hp1 : up_stack p1 = up_stack p /\ up_lcur p1 = up_lcur p /\ up_lstack p1 = up_lstack p /\
                up_vcur p1 = up_vcur p /\ up_vstack p1 = up_vstack p /\ up_buf p1 = up_buf p /\
                up_marker p1 = up_marker p /\ up_vtype p1 = up_vtype p).
  { unfold p1. destruct (u_s (up_cur p) =? sStart); pcx; repeat split; reflexivity. }
  destruct Hp1 as (B1 & B2 & B3 & B4 & B5 & B6 & B7 & B8).
  assert (Hv1 : vok p1) by (eapply vok_eq; eauto).
  assert (HR1 : Rest (vlist p1) p1 [] [] G').
  { rewrite (vlist_eq p p1 B4 B5). eapply Rest_upd; eauto.
    - rewrite Hc1, Hc. destruct Hst as [-> | ->]; reflexivity.
    - intros ls _ E. rewrite B2, B3. exact E. }
  apply ustep_value_F; [exact Hv1| |exact Hb|].
  - eapply (Rest_ctx _ p1 p1 [] [] [] G'); eauto; try congruence.
    rewrite Hc1. apply U_adyn.
  - intros _ _. apply (GI_intro _ _ G' [] []); [exact Hv1| |exact Hf|rewrite B6, Hbuf; reflexivity|exact HR1].
    rewrite Hc1, B7, Hm, B6, Hbuf. apply T_adyn. right. reflexivity.
Qed.

(* ---------- stArrayCount ---------- *)
Lemma cnt_body_F : forall p1 s b G' len done r,
  vok p1 -> up_cur p1 = mku tArrayCount sCont -> up_marker p1 = 0 -> up_buf p1 = [] ->
  Rest (vlist p1) p1 [r] [] G' -> fwf (FA len BAny done) = true -> r = len - zlen done -> 0 <= r ->
  all_bytes b = true -> Fout (FA len BAny done :: G') s (cnt_body p1 s unilE r b).
Proof.
  intros p1 s b G' len done r Hv Hc Hm Hbuf HR Hf Hr H0 Hb. unfold cnt_body.
  change (negb (unil unilE)) with false. cbv iota.
  destruct (r =? 0) eqn:Er.
  { vis e Hv1. nilcase e Ee; [|errc Ee].
    apply (pop1_F p1 s [EArrEnd] b _ G' (TArr len BAny (rev done)) r); auto.
    - apply close_arr_wf; [exact Hf|right; lia].
    - rewrite Hc. reflexivity.
    - apply close_arr_events. }
  destruct b as [|x r']; [exact I|]. pose proof (ab_cons _ _ Hb) as [_ Hr'].
  assert (HG : GI p1 (FA len BAny done :: G')).
  { apply (GI_intro _ _ G' [r] []); [exact Hv| |exact Hf|rewrite Hbuf; reflexivity|exact HR].
    rewrite Hc, Hm, Hbuf. apply T_acnt2; assumption. }
  destruct (x =? mN) eqn:En; [apply Fout_stay0; assumption|].
  apply Fout_nodone. rewrite (Rest_lcur _ _ _ _ _ _ HR).
  apply ustep_value_F; [exact Hv| |exact Hb|].
  - eapply (Rest_ctx _ p1 _ [r] [r - 1] [] G'); eauto; pcx; auto.
    + rewrite Hc. apply U_acnt; lia.
    + intros ls _ E. cbn [app] in *. injection E as E1 E2. rewrite E2. reflexivity.
  - intros r0 E. injection E as E1 E2. lia.
Qed.

Lemma arr_counted_F : forall p s b G' lo f,
  vok p -> top (up_cur p) (up_marker p) (up_buf p) (up_vtype p) lo [] f -> u_t (up_cur p) = tArrayCount ->
  fwf f = true -> all_bytes (up_buf p) = true -> all_bytes b = true -> Rest (vlist p) p lo [] G' ->
  Fout (f :: G') s (arr_counted p s b).
Proof.
  intros p s b G' lo f Hv Ht Hty Hf Hab Hb HR. rewrite arr_counted_eq.
  remember (up_cur p) as c eqn:Hc. remember (up_marker p) as m eqn:Hm. remember (up_buf p) as buf eqn:Hbuf.
  remember (up_vtype p) as vt eqn:Hvt. remember (@nil ustate) as vo eqn:Hvo.
  destruct Ht; cbn [u_t u_s mku] in *;
    try (exfalso; revert Hty; zc; lia);
    try (exfalso; match goal with H : isstr_t _ |- _ => destruct H as [H|H]; revert Hty; rewrite H; zc; lia end);
    try (exfalso; match goal with H : istyped_t _ |- _ => destruct H as [H|H]; revert Hty; rewrite H; zc; lia end);
    try (exfalso; match goal with H : ocv _ _ |- _ => destruct H as [[H _]|[H _]]; revert Hty; rewrite H; zc; lia end).
  - (* stStart: the count *)
    ceq. change (with_step (mku tArrayCount sStart) sWithLen) with (mku tArrayCount sWithLen).
    apply (of_ul_len_F p s b _ G' FL [] []); auto; try (rewrite <- Hm, <- Hbuf; assumption).
    + rewrite <- Hbuf. exact Hab.
    + rewrite <- Hc. reflexivity.
    + intros m0 buf0 Hl0. rewrite <- Hc. apply T_acnt0. exact Hl0.
    + intros L0 HL0. apply T_acnt1. exact HL0.
  - (* stWithLen: the start event, then the content *)
    ceq. rewrite (Rest_lcur _ _ _ _ _ _ HR). vis e Hv1.
    nilcase e Ee; [|unfold cnt_body; rewrite Ee; cbn [negb]; errc Ee].
    apply (Fout_pre _ s [EArrStart L BAny] [] (FA L BAny [] :: G')); [|reflexivity|].
    { unfold gl. cbn [flat_map app oevents fevents rev flatten_elems]. rewrite app_nil_r. reflexivity. }
    apply cnt_body_F; pcx; auto.
    + rewrite <- Hc. reflexivity.
    + eapply Rest_upd; eauto. pcx. rewrite <- Hc. reflexivity.
    + unfold zlen. cbn [length]. lia.
  - (* stCont *)
    ceq. rewrite (Rest_lcur _ _ _ _ _ _ HR). apply cnt_body_F; auto.
Qed.

(* ---------- typed containers: the header ---------- *)
Lemma elemst_intro : forall m st, marker_state m = Some st -> (m =? mN) = false -> elemst st.
Proof. intros m st H Hn. exists m. split; [exact H|lia]. Qed.

Lemma header0_F : forall p s b G' t,
  vok p -> up_cur p = mku t sStart -> istyped_t t -> up_marker p = 0 -> up_buf p = [] -> all_bytes b = true ->
  Rest (vlist p) p [] [] G' -> Fout (FL :: G') s (of_ul (ustep_header p b) s).
Proof.
  intros p s b G' t Hv Hc Ht Hm Hbuf Hb HR. unfold ustep_header. rewrite Hc. cbn [u_s mku]. ceq.
  change (with_step (mku t sStart) sWithType0) with (mku t sWithType0). unfold ustep_type.
  destruct b as [|m r]; [exact I|]. pose proof (ab_cons _ _ Hb) as [_ Hr].
  destruct (marker_state m) as [st|] eqn:Em; [|cbn [of_ul]; apply Fout_err; discriminate].
  destruct (m =? mN) eqn:En; [cbn [of_ul]; apply Fout_err; discriminate|]. cbn [of_ul].
  pose proof (elemst_intro _ _ Em En) as Hel.
  destruct (vlist_push (uset_cur p (mku t sWithType0)) st (marker_btype m) Hv (elemst_nf _ Hel)) as [Hv1 Hl1].
  apply Fout_stay0; [|exact Hr].
  apply (GI_intro _ FL G' [] [st]); [exact Hv1| |reflexivity| |].
  - pcx. rewrite Hm, Hbuf, <- (marker_state_cls _ _ Em). apply T_hdr1; assumption.
  - pcx. rewrite Hbuf. reflexivity.
  - rewrite Hl1. apply Rest_vpush.
    change (vlist (uset_cur p (mku t sWithType0))) with (vlist p).
    eapply Rest_upd; eauto. pcx. rewrite Hc. destruct Ht as [-> | ->]; reflexivity.
Qed.

Lemma header1_F : forall p s b G' t ve,
  vok p -> up_cur p = mku t sWithType0 -> istyped_t t -> elemst ve -> up_marker p = 0 -> up_buf p = [] ->
  up_vtype p = cls ve -> all_bytes b = true ->
  Rest (vlist p) p [] [ve] G' -> Fout (FL :: G') s (of_ul (ustep_header p b) s).
Proof.
  intros p s b G' t ve Hv Hc Ht Hel Hm Hbuf Hvt Hb HR. unfold ustep_header. rewrite Hc. cbn [u_s mku]. ceq.
  destruct b as [|c r]; [exact I|]. pose proof (ab_cons _ _ Hb) as [_ Hr].
  destruct (negb (c =? mCount)); [cbn [of_ul]; apply Fout_err; discriminate|]. cbn [of_ul].
  apply Fout_stay0; [|exact Hr].
  apply (GI_intro _ FL G' [] [ve]); pcx; [exact Hv| |reflexivity|rewrite Hbuf; reflexivity|].
  - rewrite Hm, Hbuf, Hvt. apply T_hdr2; [assumption|assumption|left; auto].
  - eapply Rest_upd; eauto. pcx. rewrite Hc. destruct Ht as [-> | ->]; reflexivity.
Qed.

Lemma header2_F : forall p s b G' t ve,
  vok p -> up_cur p = mku t sWithType1 -> istyped_t t -> elemst ve -> lenrd (up_marker p) (up_buf p) ->
  up_vtype p = cls ve -> all_bytes (up_buf p) = true -> all_bytes b = true ->
  Rest (vlist p) p [] [ve] G' -> Fout (FL :: G') s (of_ul (ustep_header p b) s).
Proof.
  intros p s b G' t ve Hv Hc Ht Hel Hl Hvt Hab Hb HR. unfold ustep_header. rewrite Hc. cbn [u_s mku]. ceq.
  change (with_step (mku t sWithType1) sWithLen) with (mku t sWithLen).
  apply (of_ul_len_F p s b _ G' FL [] [ve]); auto.
  - rewrite Hc. destruct Ht as [-> | ->]; reflexivity.
  - intros m0 buf0 Hl0. rewrite Hc, Hvt. apply T_hdr2; assumption.
  - intros L0 HL0. rewrite Hvt. destruct Ht as [-> | ->].
    + apply T_atyp1; assumption.
    + apply T_oc1; [|assumption]. right. split; [reflexivity|]. exists ve. auto.
Qed.

(* ---------- stArrayTyped ---------- *)
Definition StepOK (rec : uparser -> sink -> bytes -> ures) : Prop :=
  forall p s b G, GI p G -> all_bytes b = true -> Fout G s (rec p s b).

Lemma Rest_vcur : forall p lo ve vo G', Rest (vlist p) p lo (ve :: vo) G' -> up_vcur p = ve.
Proof.
  intros p lo ve vo G' (ls & vs & bt0 & _ & _ & _ & Ev). cbn [app] in Ev.
  apply vlist_cons in Ev. apply Ev.
Qed.

Lemma push_elem_F : forall rec q s b G ve,
  StepOK rec -> vok q -> ctx (vlist q) q G (cls ve) -> elemst ve -> all_bytes b = true ->
  Fout G s (rec (u_push q ve) s b).
Proof.
  intros rec q s b G ve Hrec Hv Hc Hel Hb.
  assert (HG : GI (u_push q ve) (FL :: G)).
  { eapply push_I; eauto; [intros vt; apply elemst_top; exact Hel|right; reflexivity]. }
  pose proof (Hrec _ s b _ HG Hb) as H.
  destruct (rec (u_push q ve) s b) as [p1 s1 rest d e|w]; [|exact I].
  cbn [Fout] in *. intros He. destruct (H He) as (l & ts & G1 & A & B & C & D & E).
  exists l, ts, G1. cbn [oevents fevents] in D. rewrite app_nil_r in D. auto.
Qed.

Lemma typ_body_F : forall rec p1 s b G' len done r ve,
  StepOK rec -> vok p1 -> up_cur p1 = mku tArrayTyped sCont -> up_marker p1 = 0 -> up_buf p1 = [] ->
  Rest (vlist p1) p1 [r] [ve] G' -> elemst ve -> fwf (FA len (cls ve) done) = true ->
  r = len - zlen done -> 0 <= r -> all_bytes b = true ->
  Fout (FA len (cls ve) done :: G') s (typ_body rec p1 s unilE r b).
Proof.
  intros rec p1 s b G' len done r ve Hrec Hv Hc Hm Hbuf HR Hel Hf Hr H0 Hb. unfold typ_body.
  change (negb (unil unilE)) with false. cbv iota.
  destruct (r =? 0) eqn:Er.
  { vis e Hv1. nilcase e Ee; [|errc Ee].
    apply (pop2_F p1 s [EArrEnd] b _ G' (TArr len (cls ve) (rev done)) r ve); auto.
    - apply close_arr_wf; [exact Hf|right; lia].
    - rewrite Hc. reflexivity.
    - apply close_arr_events. }
  cbv zeta. apply Fout_nodone. rewrite (Rest_lcur _ _ _ _ _ _ HR).
  change (up_vcur (uset_lcur p1 (r - 1))) with (up_vcur p1). rewrite (Rest_vcur _ _ _ _ _ HR).
  apply push_elem_F; auto.
  eapply (Rest_ctx _ p1 _ [r] [r - 1] [ve] G'); eauto; pcx; auto.
  - rewrite Hc. apply U_atyp; [exact Hel|lia|lia].
  - intros ls _ E. cbn [app] in *. injection E as E1 E2. rewrite E2. reflexivity.
Qed.

Lemma arr_typed_F : forall rec p s b G' lo vo f,
  StepOK rec -> vok p -> top (up_cur p) (up_marker p) (up_buf p) (up_vtype p) lo vo f ->
  u_t (up_cur p) = tArrayTyped -> fwf f = true -> all_bytes (up_buf p) = true -> all_bytes b = true ->
  Rest (vlist p) p lo vo G' -> Fout (f :: G') s (arr_typed rec p s b).
Proof.
  intros rec p s b G' lo vo f Hrec Hv Ht Hty Hf Hab Hb HR. rewrite arr_typed_eq.
  remember (up_cur p) as c eqn:Hc. remember (up_marker p) as m eqn:Hm. remember (up_buf p) as buf eqn:Hbuf.
  remember (up_vtype p) as vt eqn:Hvt.
  destruct Ht; cbn [u_t u_s mku] in *;
    try (exfalso; revert Hty; zc; lia);
    try (exfalso; match goal with H : isstr_t _ |- _ => destruct H as [H|H]; revert Hty; rewrite H; zc; lia end);
    try (exfalso; match goal with H : ocv _ _ |- _ => destruct H as [[H _]|[H _]]; revert Hty; rewrite H; zc; lia end);
    try (subst t).
  - (* stStart: the element type *)
    ceq. cbn [orb]. apply (header0_F p s b G' tArrayTyped); auto.
  - ceq. cbn [orb]. apply (header1_F p s b G' tArrayTyped ve); auto.
  - ceq. cbn [orb]. apply (header2_F p s b G' tArrayTyped ve); auto; rewrite <- ?Hm, <- ?Hbuf; auto.
  - (* stWithLen *)
    ceq. cbn [orb]. rewrite (Rest_lcur _ _ _ _ _ _ HR). vis e Hv1.
    nilcase e Ee; [|unfold typ_body; rewrite Ee; cbn [negb]; errc Ee].
    apply (Fout_pre _ s [EArrStart L (cls ve)] [] (FA L (cls ve) [] :: G')); [|reflexivity|].
    { unfold gl. cbn [flat_map app oevents fevents rev flatten_elems]. rewrite app_nil_r. reflexivity. }
    apply typ_body_F; pcx; auto.
    + rewrite <- Hc. reflexivity.
    + eapply Rest_upd; eauto. pcx. rewrite <- Hc. reflexivity.
    + unfold zlen. cbn [length]. lia.
  - (* stCont *)
    ceq. cbn [orb]. rewrite (Rest_lcur _ _ _ _ _ _ HR). apply typ_body_F; auto.
Qed.

(* ---------- keys ---------- *)
Lemma ul_pop_l : forall p L ls, ls <> [] -> up_lcur p :: up_lstack p = L :: ls ->
  up_lcur (ul_pop p) :: up_lstack (ul_pop p) = ls.
Proof.
  intros p L ls Hn E. dp p. pcx. injection E as E1 E2. subst xlstk.
  destruct ls as [|z ls']; [congruence|]. reflexivity.
Qed.

Lemma key_events : forall len done k G',
  oevents (FO len done None :: G') ++ [EKeyRef k] = oevents (FO len done (Some k) :: G').
Proof. intros. cbn [oevents fevents]. rewrite app_nil_r, <- !app_assoc. reflexivity. Qed.

Lemma fwf_key : forall len done k, fwf (FO len done None) = true -> all_bytes k = true ->
  fwf (FO len done (Some k)) = true.
Proof. intros len done k H Hk. cbn [fwf] in *. rewrite andb_true_r in H. rewrite H, Hk. reflexivity. Qed.

(* the key is complete: its length is popped and the state expects the member value *)
Lemma key_GI : forall p t kl lo' vo G' len done k,
  vok p -> up_cur p = mku t sFieldNameLen -> up_marker p = 0 -> up_buf p = [] ->
  Rest (vlist p) p (kl :: lo') vo G' ->
  (forall vt, top (mku t sCont) 0 [] vt lo' vo (FO len done (Some k))) ->
  fwf (FO len done None) = true -> all_bytes k = true -> cls (mku t sCont) = cls (mku t sFieldNameLen) ->
  GI (uset_step (ul_pop p) sCont) (FO len done (Some k) :: G').
Proof.
  intros p t kl lo' vo G' len done k Hv Hc Hm Hbuf HR Ht Hf Hk Hcls.
  destruct (ul_pop_proj p) as (A & B & C & D & E & F & _).
  apply (GI_intro _ _ G' lo' vo).
  - unfold vok. pcx. rewrite C, D. exact Hv.
  - pcx. rewrite A, Hc, F, Hm, E, Hbuf. cbn [u_t mku]. apply Ht.
  - apply fwf_key; assumption.
  - pcx. rewrite E, Hbuf. reflexivity.
  - unfold vlist. pcx. rewrite C, D. fold (vlist p). eapply Rest_upd; eauto.
    + pcx. rewrite A, Hc. cbn [u_t mku]. exact Hcls.
    + intros ls Hn El. pcx. cbn [app] in El.
      apply (ul_pop_l p kl (lo' ++ ls)); [|exact El]. destruct lo'; [exact Hn|discriminate].
Qed.

(* ---------- stObjectDyn ---------- *)
Lemma obj_dyn_emptykey_F : forall p s b G' done,
  vok p -> up_cur p = mku tObjectDyn sFieldNameLen -> up_marker p = 0 -> up_buf p = [] ->
  Rest (vlist p) p [0] [] G' -> fwf (FO (-1) done None) = true -> all_bytes b = true ->
  Fout (FO (-1) done None :: G') s (obj_dyn_emptykey p s b).
Proof.
  intros p s b G' done Hv Hc Hm Hbuf HR Hf Hb. unfold obj_dyn_emptykey. cbv zeta.
  vis e Hv1. nilcase e Ee; [|errc Ee].
  apply (Fout_stay _ s _ b false [EKeyRef []] (FO (-1) done (Some []) :: G')); [|exact Hb|apply key_events].
  eapply (key_GI p tObjectDyn 0 [] []); eauto. intros vt. apply T_odyn2.
Qed.

Lemma obj_dyn_F : forall p s b G' lo f,
  vok p -> top (up_cur p) (up_marker p) (up_buf p) (up_vtype p) lo [] f -> u_t (up_cur p) = tObjectDyn ->
  fwf f = true -> all_bytes (up_buf p) = true -> all_bytes b = true -> Rest (vlist p) p lo [] G' ->
  Fout (f :: G') s (obj_dyn p s b).
Proof.
  intros p s b G' lo f Hv Ht Hty Hf Hab Hb HR. unfold obj_dyn.
  destruct b as [|x r]; [exact I|]. pose proof (ab_cons _ _ Hb) as [_ Hr].
  remember (up_cur p) as c eqn:Hc. remember (up_marker p) as m eqn:Hm. remember (up_buf p) as buf eqn:Hbuf.
  remember (up_vtype p) as vt eqn:Hvt. remember (@nil ustate) as vo eqn:Hvo.
  destruct Ht; cbn [u_t u_s mku] in *;
    try (exfalso; revert Hty; zc; lia);
    try (exfalso; match goal with H : isstr_t _ |- _ => destruct H as [H|H]; revert Hty; rewrite H; zc; lia end);
    try (exfalso; match goal with H : istyped_t _ |- _ => destruct H as [H|H]; revert Hty; rewrite H; zc; lia end);
    try (exfalso; match goal with H : ocv _ _ |- _ => destruct H as [[H _]|[H _]]; revert Hty; rewrite H; zc; lia end).
  - (* stStart: end of the object, or the length of the next key *)
    ceq. cbn [andb].
    destruct ((m =? 0) && (x =? mObjE)) eqn:Ec.
    + apply andb_true_iff in Ec. destruct Ec as [Em _]. apply Z.eqb_eq in Em.
      assert (Hb0 : buf = []).
      { match goal with H : lenrd m buf |- _ =>
          destruct H as [[_ H]|[H _]]; [exact H|rewrite Em in H; discriminate H] end. }
      vis e Hv1. nilcase e Ee; [|errc Ee].
      apply (pop0_F p s [EObjEnd] r _ G' (TObj (-1) BAny (rev done))); auto; try congruence.
      * apply close_obj_wf; auto.
      * rewrite <- Hc. reflexivity.
      * apply close_obj_events.
    + change (with_step (mku tObjectDyn sStart) sFieldNameLen) with (mku tObjectDyn sFieldNameLen).
      apply (of_ul_len_F p s (x :: r) _ G' _ [] []); auto; try (rewrite <- Hm, <- Hbuf; assumption).
      * rewrite <- Hbuf. exact Hab.
      * rewrite <- Hc. reflexivity.
      * intros m0 buf0 Hl0. rewrite <- Hc. apply T_odyn0. exact Hl0.
      * intros L0 HL0. apply T_odyn1; [exact HL0|left; reflexivity].
  - (* stFieldNameLen: the key *)
    ceq. cbn [andb]. rewrite (Rest_lcur _ _ _ _ _ _ HR).
    assert (Hbufb : bufb (up_buf p) kl) by (rewrite <- Hbuf; assumption).
    assert (Hab' : all_bytes (up_buf p) = true) by (rewrite <- Hbuf; exact Hab).
    destruct (ucollect p (x :: r) kl) as [p1 rest [tmp|]|] eqn:E; [| |exact I].
    + destruct (ucollect_cases _ _ _ _ _ _ Hbufb Hab' Hb E) as (Hr1 & -> & Hl & Htmp).
      cbv zeta. vis e Hv1. nilcase e Ee; [|errc Ee].
      apply (Fout_stay _ s _ rest false [EKeyRef tmp] (FO (-1) done (Some tmp) :: G')); [|exact Hr1|apply key_events].
      eapply (key_GI (uset_buf p []) tObjectDyn kl [] []); eauto; pcx; auto.
      intros vt0. apply T_odyn2.
    + destruct (ucollect_cases _ _ _ _ _ _ Hbufb Hab' Hb E) as (Hr1 & -> & -> & Hb1 & Hab1).
      apply Fout_stay0; [|reflexivity].
      apply (GI_intro _ _ G' [kl] []); pcx; [exact Hv| |exact Hf|exact Hab1|exact HR].
      rewrite <- Hc, <- Hm. apply T_odyn1; assumption.
  - (* stCont: the member value *)
    ceq. cbn [andb].
    destruct (x =? mN) eqn:En.
    { apply Fout_stay0; [|exact Hr].
      apply (GI_intro _ _ G' [] []); [exact Hv| |exact Hf|rewrite <- Hbuf; reflexivity|exact HR].
      rewrite <- Hc, <- Hm, <- Hbuf. apply T_odyn2. }
    apply Fout_nodone. apply ustep_value_F; [exact Hv| |exact Hb|].
    + eapply (Rest_ctx _ p _ [] [] [] G'); eauto; pcx; auto.
      * rewrite <- Hc. cbn [u_t mku]. apply U_odyn.
      * rewrite <- Hc. reflexivity.
    + intros r0 E. injection E as E1 E2. lia.
Qed.

(* ---------- stObjectCount / stObjectTyped: the content ---------- *)
Definition tyflag (typed : bool) (t : Z) (vo : list ustate) : Prop :=
  (typed = false /\ t = tObjectCount /\ vo = []) \/
  (typed = true /\ t = tObjectTyped /\ exists ve, elemst ve /\ vo = [ve]).

Lemma tyflag_ocv : forall typed t vo, tyflag typed t vo -> ocv t vo.
Proof. intros typed t vo [(_ & A & B)|(_ & A & B)]; [left|right]; auto. Qed.

Lemma tyflag_cls : forall typed t vo st, tyflag typed t vo -> cls (mku t st) = BAny.
Proof. intros typed t vo st [(_ & -> & _)|(_ & -> & _)]; reflexivity. Qed.

Lemma wrap_false : forall typed p s rest err,
  obj_wrap typed (oc_close false p s rest err) = UR p s rest false err.
Proof. intros. reflexivity. Qed.

(* the object is complete *)
Lemma oc_close_F : forall typed p s rest G' t vo st len done,
  tyflag typed t vo -> vok p -> up_cur p = mku t st -> up_marker p = 0 -> up_buf p = [] ->
  Rest (vlist p) p [0] vo G' -> fwf (FO len done None) = true -> len = zlen done ->
  all_bytes rest = true ->
  Fout (FO len done None :: G') s (obj_wrap typed (oc_close true p s rest unilE)).
Proof.
  intros typed p s rest G' t vo st len done Hty Hv Hc Hm Hbuf HR Hf Hl Hr.
  unfold oc_close. vis e Hv1. cbn [obj_wrap]. nilcase e Ee; cbn [andb]; [|errc Ee].
  assert (Hcls : tree_matches (cls (up_cur p)) (TObj len BAny (rev done)) = true).
  { rewrite Hc, (tyflag_cls _ _ _ st Hty). reflexivity. }
  destruct Hty as [(-> & -> & ->)|(-> & -> & ve & Hel & ->)].
  - apply (pop1_F p s [EObjEnd] rest _ G' (TObj len BAny (rev done)) 0); auto.
    + apply close_obj_wf; [exact Hf|right; exact Hl].
    + apply close_obj_events.
  - apply (pop2_F p s [EObjEnd] rest _ G' (TObj len BAny (rev done)) 0 ve); auto.
    + apply close_obj_wf; [exact Hf|right; exact Hl].
    + apply close_obj_events.
Qed.

Lemma oc_field_name_F : forall typed p s b G' t vo len done r,
  tyflag typed t vo -> vok p -> up_cur p = mku t sFieldName ->
  lenrd (up_marker p) (up_buf p) -> (r = 0 -> up_marker p = 0) ->
  all_bytes (up_buf p) = true -> all_bytes b = true ->
  Rest (vlist p) p [r] vo G' -> fwf (FO len done None) = true -> r = len - zlen done -> 0 <= r ->
  Fout (FO len done None :: G') s (obj_wrap typed (oc_field_name p s b)).
Proof.
  intros typed p s b G' t vo len done r Hty Hv Hc Hl Hr0 Hab Hb HR Hf Hr H0. unfold oc_field_name.
  rewrite (Rest_lcur _ _ _ _ _ _ HR).
  destruct (r =? 0) eqn:Er.
  - assert (Em : up_marker p = 0) by (apply Hr0; lia).
    assert (Eb : up_buf p = []).
    { destruct Hl as [[_ H]|[H _]]; [exact H|rewrite Em in H; discriminate H]. }
    eapply (oc_close_F typed p s b G' t vo); eauto; [|lia].
    replace 0 with r by lia. exact HR.
  - rewrite Hc. change (with_step (mku t sFieldName) sFieldNameLen) with (mku t sFieldNameLen).
    destruct (ustep_len p b (mku t sFieldNameLen)) as [p1 rest err|w] eqn:El; [|exact I].
    cbn [oc_len]. rewrite wrap_false. nilcase err Ee; [|errc Ee].
    pose proof (tyflag_ocv _ _ _ Hty) as Hoc.
    destruct (len_step_GI p b (mku t sFieldNameLen) p1 rest G' (FO len done None) [r] vo Hv Hl Hab Hb HR Hf) as [HG Hrest]; auto.
    + rewrite Hc, !(tyflag_cls _ _ _ _ Hty). reflexivity.
    + intros m0 buf0 Hl0. rewrite Hc. apply T_oc2; auto. intros; lia.
    + intros L0 HL0. apply T_oc3; auto; [lia|left; reflexivity].
    + apply Fout_stay0; assumption.
Qed.

Lemma oc_key_F : forall typed p s b G' t vo len done r kl,
  tyflag typed t vo -> vok p -> up_cur p = mku t sFieldNameLen -> up_marker p = 0 ->
  bufb (up_buf p) kl -> 0 <= kl -> all_bytes (up_buf p) = true -> all_bytes b = true ->
  Rest (vlist p) p [kl; r] vo G' -> fwf (FO len done None) = true -> r = len - zlen done -> 1 <= r ->
  Fout (FO len done None :: G') s (obj_wrap typed (oc_key p s b)).
Proof.
  intros typed p s b G' t vo len done r kl Hty Hv Hc Hm Hbuf Hkl Hab Hb HR Hf Hr H1. unfold oc_key.
  rewrite (Rest_lcur _ _ _ _ _ _ HR).
  pose proof (tyflag_ocv _ _ _ Hty) as Hoc.
  assert (Hkey : forall p0 rest tmp, p0 = uset_buf p [] -> all_bytes tmp = true -> all_bytes rest = true ->
            Fout (FO len done None :: G') s
              (obj_wrap typed (let p2 := ul_pop p0 in let '(s1, e) := uvis s (EKeyRef tmp) in
                               oc_close false (uset_step p2 sCont) s1 rest e))).
  { intros p0 rest tmp -> Htmp Hrest. cbv zeta. vis e Hv1. rewrite wrap_false. nilcase e Ee; [|errc Ee].
    apply (Fout_stay _ s _ rest false [EKeyRef tmp] (FO len done (Some tmp) :: G')); [|exact Hrest|apply key_events].
    eapply (key_GI (uset_buf p []) t kl [r] vo); eauto; pcx; auto;
      first [intros vt0; apply T_oc4; auto | rewrite !(tyflag_cls _ _ _ _ Hty); reflexivity]. }
  destruct (kl =? 0) eqn:Ek.
  - assert (Eb : up_buf p = []) by (destruct Hbuf as [H|H]; [exact H|lia]).
    apply (Hkey p b []); auto.
    transitivity (uset_buf p (up_buf p)); [symmetry; apply set_buf_same|rewrite Eb; reflexivity].
  - destruct (ucollect p b kl) as [p1 rest [tmp|]|] eqn:E; [| |exact I].
    + destruct (ucollect_cases _ _ _ _ _ _ Hbuf Hab Hb E) as (Hr1 & -> & Hl & Htmp).
      apply Hkey; auto.
    + destruct (ucollect_cases _ _ _ _ _ _ Hbuf Hab Hb E) as (Hr1 & -> & -> & Hb1 & Hab1).
      rewrite wrap_false. apply Fout_stay0; [|reflexivity].
      apply (GI_intro _ _ G' [kl; r] vo); pcx; [exact Hv| |exact Hf|exact Hab1|exact HR].
      rewrite Hc, Hm. apply T_oc3; auto.
Qed.

Lemma wrap_value : forall typed r,
  obj_wrap typed (match value_nodone r with
                  | UCrash w => OCC w
                  | UR p2 s2 rest _ err => oc_close false p2 s2 rest err
                  end) = value_nodone r.
Proof. intros typed [p1 s1 rest d e|w]; reflexivity. Qed.

Lemma oc_cont_F : forall typed p s b G' t vo len done r k,
  tyflag typed t vo -> vok p -> up_cur p = mku t sCont -> up_marker p = 0 -> up_buf p = [] ->
  all_bytes b = true ->
  Rest (vlist p) p [r] vo G' -> fwf (FO len done (Some k)) = true -> r = len - zlen done -> 1 <= r ->
  Fout (FO len done (Some k) :: G') s (obj_wrap typed (oc_cont p s b typed)).
Proof.
  intros typed p s b G' t vo len done r k Hty Hv Hc Hm Hbuf Hb HR Hf Hr H1. unfold oc_cont.
  rewrite (Rest_lcur _ _ _ _ _ _ HR).
  pose proof (tyflag_ocv _ _ _ Hty) as Hoc.
  set (p1 := uset_step (uset_lcur p (r - 1)) sFieldName).
  assert (Hctx : ctx (vlist p1) p1 (FO len done (Some k) :: G') BAny).
  { eapply (Rest_ctx _ p p1 [r] [r - 1] vo G'); eauto; unfold p1; pcx; auto.
    - rewrite Hc. change (with_step (mku t sCont) sFieldName) with (mku t sFieldName). apply U_oc; auto; lia.
    - rewrite Hc. change (with_step (mku t sCont) sFieldName) with (mku t sFieldName).
      rewrite !(tyflag_cls _ _ _ _ Hty). reflexivity.
    - intros ls _ E. cbn [app] in *. injection E as E1 E2. rewrite E2. reflexivity. }
  assert (Hv1 : vok p1) by exact Hv.
  assert (Hpush : forall ve, typed = true -> vo = [ve] -> elemst ve ->
            Fout (FO len done (Some k) :: G') s
              (obj_wrap typed (oc_close false (u_push p1 (up_vcur p1)) s b unilE))).
  { intros ve _ Evo Hel. rewrite wrap_false.
    assert (Evc : up_vcur p1 = ve). { subst vo. exact (Rest_vcur _ _ _ _ _ HR). }
    rewrite Evc. eapply Fout_push; eauto; [intros vt0; apply elemst_top; exact Hel|left; reflexivity]. }
  destruct b as [|x r'].
  - destruct Hty as [(-> & _ & _)|(-> & _ & ve & Hel & Evo)]; [exact I|]. eapply Hpush; eauto.
  - pose proof (ab_cons _ _ Hb) as [_ Hr'].
    destruct Hty as [(-> & Et & Evo)|(-> & Et & ve & Hel & Evo)]; cbn [negb andb].
    + destruct (x =? mN) eqn:En.
      * rewrite wrap_false. apply Fout_stay0; [|exact Hr'].
        apply (GI_intro _ _ G' [r] vo); [exact Hv| |exact Hf|rewrite Hbuf; reflexivity|exact HR].
        rewrite Hc, Hm, Hbuf. apply T_oc4; auto.
      * fold p1. rewrite wrap_value. apply Fout_nodone.
        apply ustep_value_F; auto. intros r0 E. injection E as E1 E2. lia.
    + eapply Hpush; eauto.
Qed.

Lemma oc_withlen_F : forall typed p s b G' t vo L,
  tyflag typed t vo -> vok p -> up_cur p = mku t sWithLen -> up_marker p = 0 -> up_buf p = [] ->
  all_bytes b = true -> Rest (vlist p) p [L] vo G' -> 0 <= L ->
  Fout (FL :: G') s (obj_wrap typed (oc_withlen p s b)).
Proof.
  intros typed p s b G' t vo L Hty Hv Hc Hm Hbuf Hb HR HL. unfold oc_withlen.
  rewrite (Rest_lcur _ _ _ _ _ _ HR). vis e Hv1.
  nilcase e Ee; cbn [negb]; [|cbn [obj_wrap andb]; errc Ee].
  apply (Fout_pre _ s [EObjStart L BAny] [] (FO L [] None :: G')); [|reflexivity|].
  { unfold gl. cbn [flat_map app oevents fevents rev flatten_members]. rewrite !app_nil_r. reflexivity. }
  destruct (L =? 0) eqn:E0.
  - eapply (oc_close_F typed p _ b G' t vo); eauto.
    + replace 0 with L by lia. exact HR.
    + unfold zlen. cbn [length]. lia.
  - eapply (oc_field_name_F typed (uset_step p sFieldName) _ b G' t vo L [] L); eauto; pcx.
    + rewrite Hc. reflexivity.
    + left. auto.
    + rewrite Hbuf. reflexivity.
    + eapply Rest_upd; eauto. pcx. rewrite Hc.
      change (with_step (mku t sWithLen) sFieldName) with (mku t sFieldName).
      rewrite !(tyflag_cls _ _ _ _ Hty). reflexivity.
    + unfold zlen. cbn [length]. lia.
Qed.

Lemma ocv_count : forall vo, ocv tObjectCount vo -> tyflag false tObjectCount vo.
Proof. intros vo [[_ H]|[H _]]; [left; auto|exfalso; revert H; zc; lia]. Qed.
Lemma ocv_typed : forall vo, ocv tObjectTyped vo -> tyflag true tObjectTyped vo.
Proof. intros vo [[H _]|[_ H]]; [exfalso; revert H; zc; lia|right; auto]. Qed.

Ltac topkill Hty :=
  cbn [u_t u_s mku] in *;
  try (exfalso; revert Hty; zc; lia);
  try (exfalso; match goal with H : isstr_t _ |- _ => destruct H as [H|H]; revert Hty; rewrite H; zc; lia end).

Lemma obj_content_F : forall typed p s b G' t lo vo f,
  vok p -> top (up_cur p) (up_marker p) (up_buf p) (up_vtype p) lo vo f -> u_t (up_cur p) = t ->
  tyflag typed t vo ->
  u_s (up_cur p) = sWithLen \/ u_s (up_cur p) = sFieldName \/ u_s (up_cur p) = sFieldNameLen \/ u_s (up_cur p) = sCont ->
  fwf f = true -> all_bytes (up_buf p) = true -> all_bytes b = true -> Rest (vlist p) p lo vo G' ->
  Fout (f :: G') s (obj_wrap typed (ustep_obj_content p s b typed)).
Proof.
  intros typed p s b G' t lo vo f Hv Ht Hty Hfl Hst Hf Hab Hb HR. rewrite obj_content_eq.
  assert (Hobj : t = tObjectCount \/ t = tObjectTyped).
  { destruct Hfl as [(_ & H & _)|(_ & H & _)]; auto. }
  remember (up_cur p) as c eqn:Hc. remember (up_marker p) as m eqn:Hm. remember (up_buf p) as buf eqn:Hbuf.
  remember (up_vtype p) as vt eqn:Hvt.
  destruct Ht; cbn [u_t u_s mku] in *; subst t;
    try (exfalso; destruct Hobj as [Hobj|Hobj]; revert Hobj; zc; lia);
    try (exfalso; match goal with H : isstr_t _ |- _ => destruct H as [H|H]; destruct Hobj as [Hobj|Hobj]; revert Hobj; rewrite H; zc; lia end);
    try (exfalso; destruct Hst as [Hst|[Hst|[Hst|Hst]]]; revert Hst; zc; lia).
  - (* stWithLen *)
    ceq. eapply (oc_withlen_F typed p s b G' t0 vo L); eauto.
  - (* stFieldName *)
    ceq. eapply (oc_field_name_F typed p s b G' t0 vo len done r); eauto; rewrite <- ?Hm, <- ?Hbuf; auto.
  - (* stFieldNameLen *)
    ceq. eapply (oc_key_F typed p s b G' t0 vo len done r kl); eauto; rewrite <- ?Hm, <- ?Hbuf; auto.
  - (* stCont *)
    ceq. eapply (oc_cont_F typed p s b G' t0 vo len done r k); eauto.
Qed.

Lemma obj_counted_F : forall p s b G' lo vo f,
  vok p -> top (up_cur p) (up_marker p) (up_buf p) (up_vtype p) lo vo f -> u_t (up_cur p) = tObjectCount ->
  fwf f = true -> all_bytes (up_buf p) = true -> all_bytes b = true -> Rest (vlist p) p lo vo G' ->
  Fout (f :: G') s (obj_counted p s b).
Proof.
  intros p s b G' lo vo f Hv Ht Hty Hf Hab Hb HR. rewrite obj_counted_eq.
  destruct (u_s (up_cur p) =? sStart) eqn:Es.
  - apply Z.eqb_eq in Es.
    remember (up_cur p) as c eqn:Hc. remember (up_marker p) as m eqn:Hm. remember (up_buf p) as buf eqn:Hbuf.
    remember (up_vtype p) as vt eqn:Hvt.
    destruct Ht; topkill Hty;
      try (exfalso; revert Es; zc; lia);
      try (exfalso; match goal with H : istyped_t _ |- _ => destruct H as [H|H]; revert Hty; rewrite H; zc; lia end).
    change (with_step (mku tObjectCount sStart) sWithLen) with (mku tObjectCount sWithLen).
    apply (of_ul_len_F p s b _ G' FL [] []); auto; try (rewrite <- Hm, <- Hbuf; assumption).
    + rewrite <- Hbuf. exact Hab.
    + rewrite <- Hc. reflexivity.
    + intros m0 buf0 Hl0. rewrite <- Hc. apply T_ocnt0. exact Hl0.
    + intros L0 HL0. apply T_oc1; [left; auto|exact HL0].
  - apply Z.eqb_neq in Es.
    assert (Hfl : tyflag false tObjectCount vo /\
                  (u_s (up_cur p) = sWithLen \/ u_s (up_cur p) = sFieldName \/ u_s (up_cur p) = sFieldNameLen \/ u_s (up_cur p) = sCont)).
    { clear HR Hab. remember (up_cur p) as c eqn:Hc. remember (up_marker p) as m eqn:Hm. remember (up_buf p) as buf eqn:Hbuf.
      remember (up_vtype p) as vt eqn:Hvt.
      destruct Ht; topkill Hty; try (exfalso; apply Es; reflexivity);
        try (exfalso; match goal with H : istyped_t _ |- _ => destruct H as [H|H]; revert Hty; rewrite H; zc; lia end);
        subst t; (split; [apply ocv_count; assumption|auto]). }
    destruct Hfl as [Hfl Hst]. eapply obj_content_F; eauto.
Qed.

Lemma obj_typed_F : forall p s b G' lo vo f,
  vok p -> top (up_cur p) (up_marker p) (up_buf p) (up_vtype p) lo vo f -> u_t (up_cur p) = tObjectTyped ->
  fwf f = true -> all_bytes (up_buf p) = true -> all_bytes b = true -> Rest (vlist p) p lo vo G' ->
  Fout (f :: G') s (obj_typed p s b).
Proof.
  intros p s b G' lo vo f Hv Ht Hty Hf Hab Hb HR. rewrite obj_typed_eq.
  destruct ((u_s (up_cur p) =? sStart) || (u_s (up_cur p) =? sWithType0) || (u_s (up_cur p) =? sWithType1)) eqn:Es.
  - remember (up_cur p) as c eqn:Hc. remember (up_marker p) as m eqn:Hm. remember (up_buf p) as buf eqn:Hbuf.
    remember (up_vtype p) as vt eqn:Hvt.
    destruct Ht; topkill Hty; try (exfalso; revert Es; ceq; cbn [orb]; discriminate);
      try (exfalso; match goal with H : ocv _ _ |- _ => clear - Es; revert Es; ceq; cbn [orb]; discriminate end);
      subst t.
    + apply (header0_F p s b G' tObjectTyped); auto.
    + apply (header1_F p s b G' tObjectTyped ve); auto.
    + apply (header2_F p s b G' tObjectTyped ve); auto; rewrite <- ?Hm, <- ?Hbuf; auto.
  - assert (Hfl : tyflag true tObjectTyped vo /\
                  (u_s (up_cur p) = sWithLen \/ u_s (up_cur p) = sFieldName \/ u_s (up_cur p) = sFieldNameLen \/ u_s (up_cur p) = sCont)).
    { clear HR Hab. remember (up_cur p) as c eqn:Hc. remember (up_marker p) as m eqn:Hm. remember (up_buf p) as buf eqn:Hbuf.
      remember (up_vtype p) as vt eqn:Hvt.
      destruct Ht; topkill Hty; try (exfalso; revert Es; ceq; cbn [orb]; discriminate);
        subst t; (split; [apply ocv_typed; assumption|auto]). }
    destruct Hfl as [Hfl Hst]. eapply obj_content_F; eauto.
Qed.

(* ---------- dispatch on the state type ---------- *)
Ltac topcases Ht Hty :=
  remember (up_cur _) as c eqn:Hc in Ht, Hty; remember (up_marker _) as m eqn:Hm in Ht;
  remember (up_buf _) as buf eqn:Hbuf in Ht; remember (up_vtype _) as vt eqn:Hvt in Ht;
  destruct Ht; cbn [u_t u_s mku] in Hty;
  try (exfalso; revert Hty; zc; lia);
  try (exfalso; match goal with H : isstr_t _ |- _ => destruct H as [H|H]; revert Hty; rewrite H; zc; lia end);
  try (exfalso; match goal with H : istyped_t _ |- _ => destruct H as [H|H]; revert Hty; rewrite H; zc; lia end);
  try (exfalso; match goal with H : ocv _ _ |- _ => destruct H as [[H _]|[H _]]; revert Hty; rewrite H; zc; lia end).

Lemma fixed_disp_F : forall p s b G' lo vo f,
  vok p -> top (up_cur p) (up_marker p) (up_buf p) (up_vtype p) lo vo f -> u_t (up_cur p) = tFixed ->
  all_bytes (up_buf p) = true -> all_bytes b = true -> Rest (vlist p) p lo vo G' ->
  Fout (f :: G') s (ustep_fixed p s b).
Proof.
  intros p s b G' lo vo f Hv Ht Hty Hab Hb HR. topcases Ht Hty.
  eapply step_fixed_F; eauto; rewrite <- ?Hbuf; assumption.
Qed.

Lemma string_disp_F : forall p s b G' lo vo f,
  vok p -> top (up_cur p) (up_marker p) (up_buf p) (up_vtype p) lo vo f ->
  u_t (up_cur p) = tHighPrec \/ u_t (up_cur p) = tString ->
  all_bytes (up_buf p) = true -> all_bytes b = true -> Rest (vlist p) p lo vo G' ->
  Fout (f :: G') s (ustep_string p s b).
Proof.
  intros p s b G' lo vo f Hv Ht Hty Hab Hb HR.
  remember (up_cur p) as c eqn:Hc. remember (up_marker p) as m eqn:Hm.
  remember (up_buf p) as buf eqn:Hbuf. remember (up_vtype p) as vt eqn:Hvt.
  destruct Ht; cbn [u_t u_s mku] in Hty;
  try (exfalso; destruct Hty as [Hty|Hty]; revert Hty; zc; lia);
  try (exfalso; match goal with H : istyped_t _ |- _ => destruct H as [H|H]; destruct Hty as [Hty|Hty]; revert Hty; rewrite H; zc; lia end);
  try (exfalso; match goal with H : ocv _ _ |- _ => destruct H as [[H _]|[H _]]; destruct Hty as [Hty|Hty]; revert Hty; rewrite H; zc; lia end).
  - eapply (str0_F p s b G' t); eauto; rewrite <- ?Hm, <- ?Hbuf; assumption.
  - eapply (str1_F p s b G' t L); eauto; rewrite <- ?Hbuf; assumption.
Qed.

Lemma arr_start_disp_F : forall p s b G' lo vo f,
  vok p -> top (up_cur p) (up_marker p) (up_buf p) (up_vtype p) lo vo f -> u_t (up_cur p) = tArray ->
  all_bytes b = true -> Rest (vlist p) p lo vo G' -> Fout (f :: G') s (arr_start p s b).
Proof. intros p s b G' lo vo f Hv Ht Hty Hb HR. topcases Ht Hty. eapply arr_start_F; eauto. Qed.

Lemma obj_start_disp_F : forall p s b G' lo vo f,
  vok p -> top (up_cur p) (up_marker p) (up_buf p) (up_vtype p) lo vo f -> u_t (up_cur p) = tObject ->
  all_bytes b = true -> Rest (vlist p) p lo vo G' -> Fout (f :: G') s (obj_start p s b).
Proof. intros p s b G' lo vo f Hv Ht Hty Hb HR. topcases Ht Hty. eapply obj_start_F; eauto. Qed.

Lemma arr_dyn_disp_F : forall p s b G' lo vo f,
  vok p -> top (up_cur p) (up_marker p) (up_buf p) (up_vtype p) lo vo f -> u_t (up_cur p) = tArrayDyn ->
  fwf f = true -> all_bytes b = true -> Rest (vlist p) p lo vo G' -> Fout (f :: G') s (arr_dyn p s b).
Proof. intros p s b G' lo vo f Hv Ht Hty Hf Hb HR. topcases Ht Hty. eapply arr_dyn_F; eauto. Qed.

Lemma top_vo_nil : forall c m buf vt lo vo f, top c m buf vt lo vo f ->
  u_t c = tArrayCount \/ u_t c = tObjectDyn -> vo = [].
Proof.
  intros c m buf vt lo vo f Ht Hty. destruct Ht; cbn [u_t mku] in Hty; try reflexivity;
    try (exfalso; destruct Hty as [Hty|Hty]; revert Hty; zc; lia);
    try (exfalso; match goal with H : istyped_t _ |- _ => destruct H as [H|H]; destruct Hty as [Hty|Hty]; revert Hty; rewrite H; zc; lia end);
    try (exfalso; match goal with H : ocv _ _ |- _ => destruct H as [[H _]|[H _]]; destruct Hty as [Hty|Hty]; revert Hty; rewrite H; zc; lia end).
Qed.

Lemma top_emptykey : forall c m buf vt lo vo f, top c m buf vt lo vo f -> u_t c = tObjectDyn ->
  u_s c = sFieldNameLen -> exists kl done, c = mku tObjectDyn sFieldNameLen /\ m = 0 /\ lo = [kl] /\ vo = [] /\
    f = FO (-1) done None /\ bufb buf kl.
Proof.
  intros c m buf vt lo vo f Ht Hty Hs. destruct Ht; cbn [u_t u_s mku] in Hty, Hs;
    try (exfalso; revert Hty; zc; lia); try (exfalso; revert Hs; zc; lia);
    try (exfalso; match goal with H : isstr_t _ |- _ => destruct H as [H|H]; revert Hty; rewrite H; zc; lia end);
    try (exfalso; match goal with H : istyped_t _ |- _ => destruct H as [H|H]; revert Hty; rewrite H; zc; lia end);
    try (exfalso; match goal with H : ocv _ _ |- _ => destruct H as [[H _]|[H _]]; revert Hty; rewrite H; zc; lia end).
  exists kl, done. auto 10.
Qed.

Lemma top_range : forall c m buf vt lo vo f, top c m buf vt lo vo f -> 2 <= u_t c <= 12.
Proof.
  intros c m buf vt lo vo f Ht. destruct Ht; cbn [u_t mku];
    try match goal with H : isstr_t _ |- _ => destruct H as [-> | ->] end;
    try match goal with H : istyped_t _ |- _ => destruct H as [-> | ->] end;
    try match goal with H : ocv _ _ |- _ => destruct H as [[-> _]|[-> _]] end; zc; lia.
Qed.

(* one step (execStep with the recursive call abstracted) preserves the invariant *)
Lemma xbody_F : forall rec, StepOK rec -> forall p s b G, GI p G -> all_bytes b = true ->
  Fout G s (xbody0 rec p s b).
Proof.
  intros rec Hrec p s b G [Hv HJ] Hb. destruct G as [|f G'].
  - (* between two top-level values *)
    cbn [J] in HJ. pose proof HJ as (Hw & _ & _).
    destruct (wait_case _ _ _ _ _ _ Hw) as [(Ec & _)|(lo & ls & vo & vs & f & G' & bt0 & _ & _ & Eg & _)];
      [|discriminate Eg].
    rewrite xb_next by (rewrite Ec; reflexivity).
    apply ustep_value_F; auto. intros r _. split; assumption.
  - cbn [J] in HJ. destruct HJ as (lo & vo & Ht & Hf & Hab & HR).
    pose proof (top_range _ _ _ _ _ _ _ Ht) as Hrg.
    destruct (t_cases (u_t (up_cur p))) as
      [E|[E|[E|[E|[E|[E|[E|[E|[E|[E|[E|[E|[E|E]]]]]]]]]]]]]; try (exfalso; revert E Hrg; zc; lia).
    + rewrite xb_fixed by exact E. eapply fixed_disp_F; eauto.
    + rewrite xb_string by (left; exact E). eapply string_disp_F; eauto.
    + rewrite xb_string by (right; exact E). eapply string_disp_F; eauto.
    + rewrite xb_arr by exact E. eapply arr_start_disp_F; eauto.
    + rewrite xb_arrdyn by exact E. eapply arr_dyn_disp_F; eauto.
    + rewrite xb_arrcount by exact E.
      assert (Evo : vo = []) by (eapply top_vo_nil; eauto). subst vo.
      eapply arr_counted_F; eauto.
    + rewrite xb_arrtyped by exact E. eapply arr_typed_F; eauto.
    + rewrite xb_obj by exact E. eapply obj_start_disp_F; eauto.
    + rewrite xb_objdyn by exact E.
      assert (Evo : vo = []) by (eapply top_vo_nil; eauto). subst vo.
      destruct ((u_s (up_cur p) =? sFieldNameLen) && (up_lcur p =? 0)) eqn:Ek.
      * apply andb_true_iff in Ek. destruct Ek as [Ek1 Ek2]. apply Z.eqb_eq in Ek1. apply Z.eqb_eq in Ek2.
        destruct (top_emptykey _ _ _ _ _ _ _ Ht E Ek1) as (kl & done & Ec & Em & -> & _ & -> & Hbb).
        pose proof (Rest_lcur _ _ _ _ _ _ HR) as El. rewrite Ek2 in El. subst kl.
        eapply obj_dyn_emptykey_F; eauto. destruct Hbb as [H|H]; [exact H|lia].
      * eapply obj_dyn_F; eauto.
    + rewrite xb_objcount by exact E. eapply obj_counted_F; eauto.
    + rewrite xb_objtyped by exact E. eapply obj_typed_F; eauto.
Qed.

(* ====================================================================== *)
(* Part 7: the loops, finalize, Parse                                      *)
(* ====================================================================== *)
Lemma uexec_F : forall f, StepOK (uexec f).
Proof.
  induction f as [|f IH]; intros p s b G HG Hb; [exact I|].
  rewrite uexec_S. apply Fout_latch. apply xbody_F; assumption.
Qed.

Lemma ufeed_until_F : forall fuel p s b G r, GI p G -> all_bytes b = true ->
  ufeed_until fuel p s b = Ok r -> Fout G s r.
Proof.
  induction fuel as [|n IH]; intros p s b G r HG Hb H; [discriminate|].
  cbn [ufeed_until] in H. pose proof (uexec_F 3 p s b G HG Hb) as HF. fold uexec_step in HF.
  destruct (uexec_step p s b) as [p1 s1 rest d e|w]; [|discriminate].
  destruct (d || negb (unil e)) eqn:E1; [inversion H; subst; exact HF|].
  destruct ((zlen rest =? 0) && negb (can_step_without_input p1)); [inversion H; subst; exact HF|].
  apply orb_false_iff in E1. destruct E1 as [_ E1]. apply negb_false_iff, unil_true' in E1. subst e.
  cbn [Fout] in HF. destruct (HF eq_refl) as (l & ts & G1 & -> & HG1 & Hr & He & Hts).
  eapply Fout_pre; [exact He|exact Hts|]. eapply IH; eauto.
Qed.

Lemma ufeed_F : forall fuel p s b G p' s', GI p G -> all_bytes b = true ->
  ufeed fuel p s b = Ok (p', s', unilE) -> Fout G s (UR p' s' [] false unilE).
Proof.
  induction fuel as [|n IH]; intros p s b G p' s' HG Hb H; [discriminate|].
  cbn [ufeed] in H. destruct (zlen b >? 0).
  2:{ inversion H; subst. apply Fout_stay0; [exact HG|reflexivity]. }
  destruct (ufeed_until (ufeed_fuel p b) p s b) as [[p1 s1 rest d e|w]| | |] eqn:E; try discriminate.
  pose proof (ufeed_until_F _ _ _ _ _ _ HG Hb E) as HF.
  destruct (unil e) eqn:Ee.
  - apply unil_true' in Ee. subst e. cbn [Fout] in HF.
    destruct (HF eq_refl) as (l & ts & G1 & -> & HG1 & Hr & He & Hts).
    eapply Fout_pre; [exact He|exact Hts|]. eapply IH; eauto.
  - inversion H; subst. vm_compute in Ee. discriminate Ee.
Qed.

(* ---------- finalize ---------- *)
Lemma top_fin_arr : forall c m buf vt lo vo f, top c m buf vt lo vo f ->
  u_t c = tArrayCount \/ u_t c = tArrayTyped -> u_s c = sCont ->
  exists len bt done r, f = FA len bt done /\ lo = [r] /\ r = len - zlen done /\ m = 0 /\ buf = [] /\
    cls c = BAny /\ (vo = [] \/ exists ve, vo = [ve]).
Proof.
  intros c m buf vt lo vo f Ht Hty Hs. destruct Ht; cbn [u_t u_s mku] in Hty, Hs;
    try (exfalso; destruct Hty as [Hty|Hty]; revert Hty; zc; lia);
    try (exfalso; revert Hs; zc; lia);
    try (exfalso; match goal with H : isstr_t _ |- _ => destruct H as [H|H]; destruct Hty as [Hty|Hty]; revert Hty; rewrite H; zc; lia end);
    try (exfalso; match goal with H : ocv _ _ |- _ => destruct H as [[H _]|[H _]]; destruct Hty as [Hty|Hty]; revert Hty; rewrite H; zc; lia end).
  - exists len, BAny, done, r. repeat split; auto.
  - exists len, (cls ve), done, r. repeat split; eauto.
Qed.

Lemma top_fin_obj : forall c m buf vt lo vo f, top c m buf vt lo vo f ->
  u_t c = tObjectCount \/ u_t c = tObjectTyped -> u_s c = sFieldName ->
  exists len done r, f = FO len done None /\ lo = [r] /\ r = len - zlen done /\ lenrd m buf /\ (r = 0 -> m = 0) /\
    cls c = BAny /\ (vo = [] \/ exists ve, vo = [ve]).
Proof.
  intros c m buf vt lo vo f Ht Hty Hs. destruct Ht; cbn [u_t u_s mku] in Hty, Hs;
    try (exfalso; destruct Hty as [Hty|Hty]; revert Hty; zc; lia);
    try (exfalso; revert Hs; zc; lia);
    try (exfalso; match goal with H : isstr_t _ |- _ => destruct H as [H|H]; destruct Hty as [Hty|Hty]; revert Hty; rewrite H; zc; lia end);
    try (exfalso; match goal with H : istyped_t _ |- _ => revert Hs; zc; lia end).
  exists len, done, r. repeat split; auto.
  - match goal with H : ocv t vo |- _ => destruct H as [[-> _]|[-> _]]; reflexivity end.
  - match goal with H : ocv t vo |- _ => destruct H as [[_ ->]|[_ (ve & _ & ->)]]; eauto end.
Qed.

(* popLenState in finalize: the valueState stack is not touched any more *)
Lemma fin_pop_ctx : forall vl p r vo G',
  Rest vl p [r] vo G' -> up_buf p = [] -> up_marker p = 0 ->
  exists vs bt0, vl = vo ++ vs /\ compat bt0 (up_cur p) /\ ctx vs (fst (upop_len_state p)) G' bt0.
Proof.
  intros vl p r vo G' HR Hb Hm.
  destruct (Rest_wait _ _ _ _ _ HR) as (ls & vs & bt0 & z & ls' & Hc & Hw & El & Ev & Els).
  exists vs, bt0. split; [exact Ev|]. split; [exact Hc|].
  destruct (wait_inv _ _ _ _ _ Hw) as (c & cs & _ & _ & Es & _ & _).
  unfold upop_len_state, upop_state. cbn [fst]. cbn [app] in El.
  dp p. pcx. injection El as E1 E2. subst.
  cbn [ul_pop u_pop up_lstack up_stack up_cur up_lcur up_buf up_marker up_vcur up_vstack].
  unfold ctx. pcx. auto.
Qed.

Lemma ufinalize_F : forall fuel p s G p' s', (exists vl, J vl p G) ->
  ufinalize fuel p s = (p', s', unilE) ->
  exists l ts, s' = s_add s l /\ oevents G ++ l = flat_map flatten ts /\ forallb wf_tree ts = true.
Proof.
  induction fuel as [|n IH]; intros p s G p' s' [vl HJ] H.
  { cbn [ufinalize] in H. inversion H. }
  cbn [ufinalize] in H. destruct G as [|f G'].
  - cbn [J] in HJ. destruct HJ as (Hw & _ & _).
    destruct (wait_case _ _ _ _ _ _ Hw) as [(Ec & Es & _)|(lo & ls & vo & vs & f & G' & bt0 & _ & _ & Eg & _)];
      [|discriminate Eg].
    rewrite Es, Ec in H. cbn [u_t u_s mku] in H. ceqH H. change (zlen (@nil ustate) >? 0) with false in H.
    cbn [negb orb] in H. inversion H; subst. exists [], []. rewrite s_add_nil. auto.
  - cbn [J] in HJ. destruct HJ as (lo & vo & Ht & Hf & Hab & HR).
    destruct (Rest_wait _ _ _ _ _ HR) as (ls & vs & bt0 & z & ls' & Hc & Hw & El & Ev & Els).
    destruct (wait_inv _ _ _ _ _ Hw) as (c & cs & _ & _ & Es & _ & _).
    assert (Hz : (zlen (up_stack p) >? 0) = true) by (rewrite Es; unfold zlen; cbn [length]; lia).
    rewrite Hz in H.
    destruct ((u_t (up_cur p) =? tArrayCount) || (u_t (up_cur p) =? tArrayTyped)) eqn:Ea.
    + destruct (negb (up_lcur p =? 0) || negb (u_s (up_cur p) =? sCont)) eqn:Ec; [inversion H|].
      apply orb_false_iff in Ec. destruct Ec as [Ec1 Ec2].
      apply negb_false_iff, Z.eqb_eq in Ec1. apply negb_false_iff, Z.eqb_eq in Ec2.
      assert (Hty : u_t (up_cur p) = tArrayCount \/ u_t (up_cur p) = tArrayTyped).
      { apply orb_true_iff in Ea. destruct Ea as [Ea|Ea]; apply Z.eqb_eq in Ea; auto. }
      destruct (top_fin_arr _ _ _ _ _ _ _ Ht Hty Ec2) as (len & bt & done & r & -> & -> & Hr & Hm & Hbuf & Hcls & _).
      pose proof (Rest_lcur _ _ _ _ _ _ HR) as Elc. rewrite Ec1 in Elc. subst r.
      destruct (uvis_add s EArrEnd) as [e Hv1]. rewrite Hv1 in H.
      destruct (unil e) eqn:Ee; [|inversion H; subst; vm_compute in Ee; discriminate Ee].
      destruct (fin_pop_ctx _ _ _ _ _ HR Hbuf Hm) as (vs1 & bt1 & _ & Hc1 & Hctx).
      assert (Hwf : wf_tree (TArr len bt (rev done)) = true) by (apply close_arr_wf; [exact Hf|right; lia]).
      assert (Hmt : tree_matches bt1 (TArr len bt (rev done)) = true).
      { eapply compat_matches; [exact Hc1|]. rewrite Hcls. reflexivity. }
      destruct (arrive_J _ _ _ _ _ Hctx Hwf Hmt) as (ts1 & G1 & HJ1 & He1 & Hts1).
      destruct (IH _ _ G1 _ _ (ex_intro (fun v => J v _ G1) vs1 HJ1) H) as (l & ts & -> & He & Hts).
      exists ([EArrEnd] ++ l), (ts1 ++ ts). split; [apply s_add_add|]. split.
      * rewrite app_assoc, close_arr_events, <- He1. unfold gl. rewrite flat_map_app, <- app_assoc, He. reflexivity.
      * rewrite forallb_app, Hts1, Hts. reflexivity.
    + destruct ((u_t (up_cur p) =? tObjectCount) || (u_t (up_cur p) =? tObjectTyped)) eqn:Eo; [|inversion H].
      destruct (negb (up_lcur p =? 0) || negb (u_s (up_cur p) =? sFieldName)) eqn:Ec; [inversion H|].
      apply orb_false_iff in Ec. destruct Ec as [Ec1 Ec2].
      apply negb_false_iff, Z.eqb_eq in Ec1. apply negb_false_iff, Z.eqb_eq in Ec2.
      assert (Hty : u_t (up_cur p) = tObjectCount \/ u_t (up_cur p) = tObjectTyped).
      { apply orb_true_iff in Eo. destruct Eo as [Eo|Eo]; apply Z.eqb_eq in Eo; auto. }
      destruct (top_fin_obj _ _ _ _ _ _ _ Ht Hty Ec2) as (len & done & r & -> & -> & Hr & Hl & Hr0 & Hcls & _).
      pose proof (Rest_lcur _ _ _ _ _ _ HR) as Elc. rewrite Ec1 in Elc. subst r.
      assert (Hm : up_marker p = 0) by (apply Hr0; lia).
      assert (Hbuf : up_buf p = []).
      { destruct Hl as [[_ Hl]|[Hl _]]; [exact Hl|rewrite Hm in Hl; discriminate Hl]. }
      destruct (uvis_add s EObjEnd) as [e Hv1]. rewrite Hv1 in H.
      destruct (unil e) eqn:Ee; [|inversion H; subst; vm_compute in Ee; discriminate Ee].
      destruct (fin_pop_ctx _ _ _ _ _ HR Hbuf Hm) as (vs1 & bt1 & _ & Hc1 & Hctx).
      assert (Hwf : wf_tree (TObj len BAny (rev done)) = true) by (apply close_obj_wf; [exact Hf|right; lia]).
      assert (Hmt : tree_matches bt1 (TObj len BAny (rev done)) = true).
      { eapply compat_matches; [exact Hc1|]. rewrite Hcls. reflexivity. }
      destruct (arrive_J _ _ _ _ _ Hctx Hwf Hmt) as (ts1 & G1 & HJ1 & He1 & Hts1).
      destruct (IH _ _ G1 _ _ (ex_intro (fun v => J v _ G1) vs1 HJ1) H) as (l & ts & -> & He & Hts).
      exists ([EObjEnd] ++ l), (ts1 ++ ts). split; [apply s_add_add|]. split.
      * rewrite app_assoc, close_obj_events, <- He1. unfold gl. rewrite flat_map_app, <- app_assoc, He. reflexivity.
      * rewrite forallb_app, Hts1, Hts. reflexivity.
Qed.

Lemma GI0 : GI uparser0 [].
Proof.
  split.
  - split; [constructor|reflexivity].
  - cbn [J]. split; [|auto]. apply W_bot.
Qed.

(* feed followed by finalize *)
Lemma feed_fin_F : forall fuel p s b G p1 s1 p' s',
  GI p G -> all_bytes b = true -> ufeed fuel p s b = Ok (p1, s1, unilE) -> ufin p1 s1 = (p', s', unilE) ->
  exists l ts, s' = s_add s l /\ oevents G ++ l = flat_map flatten ts /\ forallb wf_tree ts = true.
Proof.
  intros fuel p s b G p1 s1 p' s' HG Hb Hf Hfin.
  pose proof (ufeed_F _ _ _ _ _ _ _ HG Hb Hf) as HF. cbn [Fout] in HF.
  destruct (HF eq_refl) as (l1 & ts1 & G1 & -> & [Hv1 HJ1] & _ & He1 & Hts1).
  unfold ufin in Hfin. destruct (ufinalize_F _ _ _ G1 _ _ (ex_intro (fun v => J v _ G1) _ HJ1) Hfin) as (l2 & ts2 & -> & He2 & Hts2).
  exists (l1 ++ l2), (ts1 ++ ts2). split; [apply s_add_add|]. split.
  - rewrite app_assoc, He1. unfold gl. rewrite flat_map_app, <- app_assoc, He2. reflexivity.
  - rewrite forallb_app, Hts1, Hts2. reflexivity.
Qed.

(* ---------- C09, every accepted input ---------- *)
Theorem C09_ubj_accepted : forall vfail b evs p, all_bytes b = true ->
  urun_parse vfail b = Ok (evs, unilE, p) ->
  exists ts, evs = flat_map flatten ts /\ forallb wf_tree ts = true.
Proof.
  intros vfail b evs p Hb H. unfold urun_parse, up_parse in H.
  destruct (ufeed (2 * length b + 2) uparser0 (sink0 vfail) b) as [[[p1 s1] e1]| | |] eqn:Ef; try discriminate.
  destruct (unil e1) eqn:Ee.
  - apply unil_true' in Ee. subst e1.
    destruct (ufin p1 s1) as [[p2 s2] e2] eqn:Efin. inversion H; subst.
    destruct (feed_fin_F _ _ _ _ _ _ _ _ _ GI0 Hb Ef Efin) as (l & ts & -> & He & Hts).
    exists ts. rewrite s_log_add0. cbn [oevents app] in He. auto.
  - inversion H; subst. vm_compute in Ee. discriminate Ee.
Qed.
Print Assumptions C09_ubj_accepted.

(* the same through the executable monitor for a stream of documents *)
Lemma stream_trees_flatten : forall ts fuel, (length ts < fuel)%nat ->
  stream_trees fuel (flat_map flatten ts) = Some (map norm ts).
Proof.
  induction ts as [|t ts IH]; intros fuel Hf.
  - destruct fuel as [|f]; [lia|]. reflexivity.
  - destruct fuel as [|f]; [lia|]. cbn [flat_map map length] in *.
    destruct (flatten_head t) as (h & tl & E & _).
    assert (Hs : stream_trees (S f) (flatten t ++ flat_map flatten ts) =
                 match parse_tree (S (length (flatten t ++ flat_map flatten ts))) (flatten t ++ flat_map flatten ts) with
                 | Some (t0, r) => match stream_trees f r with Some ts0 => Some (t0 :: ts0) | None => None end
                 | None => None
                 end).
    { rewrite E. reflexivity. }
    rewrite Hs. rewrite parse_flatten by (rewrite app_length; lia).
    rewrite IH by lia. reflexivity.
Qed.

Lemma flat_map_length_ge : forall ts, (length ts <= length (flat_map flatten ts))%nat.
Proof.
  induction ts as [|t ts IH]; [cbn; lia|]. cbn [flat_map length]. rewrite app_length.
  pose proof (flatten_length_pos t). lia.
Qed.

Theorem C09_ubj_accepted_stream : forall vfail b evs p, all_bytes b = true ->
  urun_parse vfail b = Ok (evs, unilE, p) ->
  exists ts, stream_trees (S (length evs)) evs = Some ts /\ forallb wf_tree ts = true /\
             evs = flat_map flatten ts.
Proof.
  intros vfail b evs p Hb H. destruct (C09_ubj_accepted vfail b evs p Hb H) as (ts & -> & Hwf).
  exists (map norm ts). rewrite stream_trees_flatten by (pose proof (flat_map_length_ge ts); lia).
  split; [reflexivity|]. split.
  - rewrite forallb_forall in *. intros t Ht. apply in_map_iff in Ht. destruct Ht as (t0 & <- & Ht0).
    rewrite wf_norm. apply Hwf, Ht0.
  - clear Hwf H. induction ts as [|t ts IH]; [reflexivity|]. cbn [map flat_map].
    rewrite flatten_norm, <- IH. reflexivity.
Qed.
Print Assumptions C09_ubj_accepted_stream.

(* one document: the contract monitor accepts; several: it accepts each of them *)
Theorem C09_ubj_accepted_contract : forall vfail b evs p, all_bytes b = true ->
  urun_parse vfail b = Ok (evs, unilE, p) ->
  exists ts, evs = flat_map flatten ts /\ Forall (fun t => contract_ok (flatten t) = true) ts /\
             (length ts = 1%nat -> contract_ok evs = true).
Proof.
  intros vfail b evs p Hb H. destruct (C09_ubj_accepted vfail b evs p Hb H) as (ts & -> & Hwf).
  exists ts. split; [reflexivity|]. split.
  - apply Forall_forall. intros t Ht. rewrite contract_flatten. rewrite forallb_forall in Hwf. apply Hwf, Ht.
  - intros Hl. destruct ts as [|t [|t2 ts]]; try discriminate Hl. cbn [flat_map]. rewrite app_nil_r.
    rewrite contract_flatten. cbn [forallb] in Hwf. rewrite andb_true_r in Hwf. exact Hwf.
Qed.
Print Assumptions C09_ubj_accepted_contract.

(* ---------- Write ... Write, finalize: any chunking ---------- *)
Lemma GI_set_err : forall p e G, GI p G -> GI (uset_err p e) G.
Proof. intros p e G H. destruct G; exact H. Qed.

Lemma up_writes_F : forall cs p s G p' s', GI p G -> forallb all_bytes cs = true ->
  up_writes p s cs = Ok (p', s', unilE) ->
  exists l ts, s' = s_add s l /\ oevents G ++ l = flat_map flatten ts /\ forallb wf_tree ts = true.
Proof.
  induction cs as [|c cs IH]; intros p s G p' s' [Hv HJ] Hb H; cbn [up_writes] in H.
  - inversion H as [Hfin]. unfold ufin in Hfin.
    exact (ufinalize_F _ _ _ G _ _ (ex_intro (fun v => J v _ G) _ HJ) Hfin).
  - cbn [forallb] in Hb. apply andb_true_iff in Hb. destruct Hb as [Hc Hcs].
    unfold up_write in H.
    destruct (ufeed (2 * length c + 2) p s c) as [[[p1 s1] e1]| | |] eqn:Ef; try discriminate.
    destruct (unil e1) eqn:Ee.
    + apply unil_true' in Ee. subst e1. change (unil unilE) with true in H. cbv iota in H.
      pose proof (ufeed_F _ _ _ _ _ _ _ (conj Hv HJ) Hc Ef) as HF. cbn [Fout] in HF.
      destruct (HF eq_refl) as (l1 & ts1 & G1 & -> & HG1 & _ & He1 & Hts1).
      destruct (IH _ _ G1 _ _ (GI_set_err _ 0 _ HG1) Hcs H) as (l2 & ts2 & -> & He2 & Hts2).
      exists (l1 ++ l2), (ts1 ++ ts2). split; [apply s_add_add|]. split.
      * rewrite app_assoc, He1. unfold gl. rewrite flat_map_app, <- app_assoc, He2. reflexivity.
      * rewrite forallb_app, Hts1, Hts2. reflexivity.
    + rewrite Ee in H. inversion H; subst. vm_compute in Ee. discriminate Ee.
Qed.

Theorem C09_ubj_accepted_chunks : forall vfail cs evs p, forallb all_bytes cs = true ->
  urun_chunks vfail cs = Ok (evs, unilE, p) ->
  exists ts, evs = flat_map flatten ts /\ forallb wf_tree ts = true.
Proof.
  intros vfail cs evs p Hb H. unfold urun_chunks in H.
  destruct (up_writes uparser0 (sink0 vfail) cs) as [[[p1 s1] e1]| | |] eqn:E; try discriminate.
  inversion H; subst.
  destruct (up_writes_F _ _ _ _ _ _ GI0 Hb E) as (l & ts & -> & He & Hts).
  exists ts. rewrite s_log_add0. cbn [oevents app] in He. auto.
Qed.
Print Assumptions C09_ubj_accepted_chunks.

(* ---------- the statements on concrete inputs ---------- *)
Module UbjAcceptedExamples.
  Definition accepted (b : bytes) : option (list event) :=
    match urun_parse None b with Ok (evs, e, _) => if unil e then Some evs else None | _ => None end.
  Definition monitor (evs : list event) : bool :=
    match stream_trees (S (length evs)) evs with Some ts => forallb wf_tree ts | None => false end.

  (* [$[#i 2  $i#i 1 7  #i 0 : a typed array of two arrays, the first typed int8, the second counted *)
  Example ex_typed_of_typed :
    accepted [91; 36; 91; 35; 105; 2; 36; 105; 35; 105; 1; 7; 35; 105; 0] =
    Some [EArrStart 2 BAny; EArrStart 1 BInt8; EVal (SNum KInt8 7); EArrEnd; EArrStart 0 BAny; EArrEnd; EArrEnd].
  Proof. vm_compute. reflexivity. Qed.
  (* {$[#i 1 i 1 a Z T ] : a typed object whose member values are arrays *)
  Example ex_typed_obj :
    match accepted [123; 36; 91; 35; 105; 1; 105; 1; 97; 90; 84; 93] with
    | Some evs => monitor evs = true /\ length evs = 7%nat
    | None => False
    end.
  Proof. vm_compute. split; reflexivity. Qed.
  (* [#i 2 N Z N N T : no-ops are not counted *)
  Example ex_noops :
    accepted [91; 35; 105; 2; 78; 90; 78; 78; 84] = Some [EArrStart 2 BAny; EVal SNil; EVal (SBool true); EArrEnd].
  Proof. vm_compute. reflexivity. Qed.
  (* [$Z#i 3 : zero-sized elements need no input *)
  Example ex_zero_sized :
    accepted [91; 36; 90; 35; 105; 3] = Some [EArrStart 3 BAny; EVal SNil; EVal SNil; EVal SNil; EArrEnd].
  Proof. vm_compute. reflexivity. Qed.
  (* accepted although the reference decoder does not read them as one value: a lone no-op,
     a stream Z Z, a trailing no-op after a counted container *)
  Example ex_noop_only : accepted [78] = Some [] /\ ubj_decode [78] = RTruncated.
  Proof. vm_compute. split; reflexivity. Qed.
  Example ex_stream : accepted [90; 90] = Some [EVal SNil; EVal SNil] /\ monitor [EVal SNil; EVal SNil] = true.
  Proof. vm_compute. split; reflexivity. Qed.
  (* truncated inputs are not accepted: [#i 2 Z    [$i#i 2 5    {$i#i 1 i 1 a    [[]    [$i#i *)
  Example ex_trunc1 : accepted [91; 35; 105; 2; 90] = None. Proof. vm_compute. reflexivity. Qed.
  Example ex_trunc2 : accepted [91; 36; 105; 35; 105; 2; 5] = None. Proof. vm_compute. reflexivity. Qed.
  Example ex_trunc3 : accepted [123; 36; 105; 35; 105; 1; 105; 1; 97] = None. Proof. vm_compute. reflexivity. Qed.
  Example ex_trunc4 : accepted [91; 91; 93] = None. Proof. vm_compute. reflexivity. Qed.
  Example ex_trunc5 : accepted [91; 36; 105; 35; 105] = None. Proof. vm_compute. reflexivity. Qed.
  (* a negative count and the no-op as an element type are refused *)
  Example ex_negcount : accepted [91; 35; 105; 255] = None. Proof. vm_compute. reflexivity. Qed.
  Example ex_nooptype : accepted [91; 36; 78; 35; 105; 1] = None. Proof. vm_compute. reflexivity. Qed.
End UbjAcceptedExamples.
