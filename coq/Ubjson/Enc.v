(* L1: the UBJSON encoder, ubjson/visitor.go (after the fixes to OnBoolArray,
   OnBoolObject and uint64HighPrec).  Every w.write is one [wwrite]. *)
From SF Require Import Base.Prelude Core.Events Cbor.Enc Ubjson.Spec.
Open Scope Z_scope.

(* same lengthStack type as cborl *)
Record uenc := { ue_w : wsink; ue_len : lstack }.
Definition uenc0 (f : option nat) : uenc := {| ue_w := wsink0 f; ue_len := ls_init |}.

Definition uw (e : uenc) (b : bytes) : uenc * bool :=
  let '(w, ok) := wwrite (ue_w e) b in ({| ue_w := w; ue_len := ue_len e |}, ok).

(* sequencing of writes with early return *)
Definition andthen (r : uenc * bool) (k : uenc -> uenc * bool) : uenc * bool :=
  let '(e, ok) := r in if ok then k e else (e, false).
Notation "r >>> k" := (andthen r k) (at level 60, right associativity).

Definition opt_marker (e : uenc) (marker : bool) (m : Z) : uenc * bool :=
  if marker then uw e [m] else (e, true).

Definition ub_int8 (e : uenc) (i : Z) (marker : bool) : uenc * bool :=
  opt_marker e marker mi >>> fun e => uw e [wrapu 8 i].
Definition ub_uint8 (e : uenc) (u : Z) (marker : bool) : uenc * bool :=
  if marker then uw e [mU; u] else uw e [u].
Definition ub_int16 (e : uenc) (i : Z) (marker : bool) : uenc * bool :=
  opt_marker e marker mI >>> fun e => uw e (be_enc 2 (wrapu 16 i)).
Definition ub_int32 (e : uenc) (i : Z) (marker : bool) : uenc * bool :=
  opt_marker e marker ml >>> fun e => uw e (be_enc 4 (wrapu 32 i)).
Definition ub_int64 (e : uenc) (i : Z) (marker : bool) : uenc * bool :=
  opt_marker e marker mL >>> fun e => uw e (be_enc 8 (wrapu 64 i)).

(* onInt *)
Definition ub_onint (e : uenc) (i : Z) (marker : bool) : uenc * bool :=
  if (-128 <=? i) && (i <=? 127) then ub_int8 e i marker
  else if (0 <=? i) && (i <=? 255) then ub_uint8 e i marker
  else if (-32768 <=? i) && (i <=? 32767) then ub_int16 e i marker
  else if (-2147483648 <=? i) && (i <=? 2147483647) then ub_int32 e i marker
  else ub_int64 e i marker.

Definition ub_writelen (e : uenc) (l : Z) : uenc * bool := ub_onint e l true.

(* decimal digits of a non-negative number (strconv.AppendUint base 10) *)
Fixpoint digits_fuel (fuel : nat) (n : Z) (acc : bytes) : bytes :=
  match fuel with
  | O => acc
  | S f => if n <? 10 then (48 + n) :: acc else digits_fuel f (n / 10) ((48 + n mod 10) :: acc)
  end.
Definition digits (n : Z) : bytes := digits_fuel 25 n [].

Definition uint_type (u : Z) : Z :=
  if u <=? 127 then mi else if u <=? 255 then mU else if u <=? 32767 then mI
  else if u <=? 2147483647 then ml else if u <=? 9223372036854775807 then mL else mH.

Definition max_num_type (a b : Z) : Z :=
  if (a =? mH) || (b =? mH) then mH
  else if (a =? mL) || (b =? mL) then mL
  else if (a =? ml) || (b =? ml) then ml
  else if (a =? mI) || (b =? mI) then mI
  else if (a =? mU) || (b =? mU) then mU
  else mi.

Definition ub_highprec (e : uenc) (u : Z) (marker : bool) : uenc * bool :=
  opt_marker e marker mH >>> fun e =>
  let d := digits u in ub_writelen e (zlen d) >>> fun e => uw e d.

Definition ub_uint64 (e : uenc) (u t : Z) (marker : bool) : uenc * bool :=
  if t =? mi then ub_int8 e u marker
  else if t =? mU then ub_uint8 e (wrapu 8 u) marker
  else if t =? mI then ub_int16 e u marker
  else if t =? ml then ub_int32 e u marker
  else if t =? mL then ub_int64 e u marker
  else ub_highprec e u marker.

Definition ub_string (e : uenc) (s : bytes) (marker : bool) : uenc * bool :=
  opt_marker e marker mS >>> fun e =>
  ub_writelen e (zlen s) >>> fun e =>
  if zlen s =? 0 then (e, true) else uw e s.

Definition ub_float32 (e : uenc) (bits : Z) (marker : bool) := opt_marker e marker md >>> fun e => uw e (be_enc 4 bits).
Definition ub_float64 (e : uenc) (bits : Z) (marker : bool) := opt_marker e marker mD >>> fun e => uw e (be_enc 8 bits).

Definition ub_oncount (e : uenc) (l : Z) : uenc * bool :=
  let e1 := {| ue_w := ue_w e; ue_len := ls_push (ue_len e) l |} in
  if l <=? 0 then (e1, true) else uw e1 [mCount] >>> fun e => ub_writelen e l.

Definition ub_start (e : uenc) (m l : Z) : uenc * bool := uw e [m] >>> fun e => ub_oncount e l.
Definition ub_finish (e : uenc) (m : Z) : uenc * bool :=
  let '(ls, old) := ls_pop (ue_len e) in
  let e1 := {| ue_w := ue_w e; ue_len := ls |} in
  if old <=? 0 then uw e1 [m] else (e1, true).

(* On<Int16|Int32|Int64>: narrowing through the signed chain *)
Definition ub_onint16 (e : uenc) (i : Z) := if (-128 <=? i) && (i <=? 127) then ub_int8 e i true else ub_int16 e i true.
Definition ub_onint32 (e : uenc) (i : Z) := if (-32768 <=? i) && (i <=? 32767) then ub_onint16 e i else ub_int32 e i true.
Definition ub_onint64 (e : uenc) (i : Z) := if (-2147483648 <=? i) && (i <=? 2147483647) then ub_onint32 e i else ub_int64 e i true.

Definition ub_scalar (e : uenc) (s : scalar) : uenc * bool :=
  match s with
  | SNil => uw e [mZ]
  | SBool true => uw e [mT]
  | SBool false => uw e [mF]
  | SStr s => ub_string e s true
  | SNum KInt8 z => ub_int8 e z true
  | SNum KInt16 z => ub_onint16 e z
  | SNum KInt32 z => ub_onint32 e z
  | SNum KInt64 z => ub_onint64 e z
  | SNum KInt z => ub_onint e z true
  | SNum KByte z => if z >? 127 then ub_uint8 e z true else uw e [mC; z]   (* char holds 0..127 only *)
  | SNum KUint8 z => ub_uint8 e z true
  | SNum (KUint16 | KUint32 | KUint64 | KUint) z => ub_uint64 e z (uint_type z) true
  | SNum KFloat32 z => ub_float32 e z true
  | SNum KFloat64 z => ub_float64 e z true
  end.

Definition snum (s : scalar) : Z := match s with SNum _ z => z | _ => 0 end.
Definition sstr (s : scalar) : bytes := match s with SStr b => b | _ => [] end.
Definition sbool (s : scalar) : bool := match s with SBool b => b | _ => false end.

Definition uint_min_type (l : list scalar) : Z :=
  fold_left (fun t s => max_num_type t (uint_type (snum s))) l mi.

(* element marker of a typed container and the marker-less element writer *)
Definition typed_marker (bt : btype) (vals : list scalar) : Z :=
  match bt with
  | BString => mS | BInt8 => mi | BInt16 => mI | BInt32 => ml | BInt64 | BInt => mL
  | BByte | BUint8 => mU
  | BUint16 | BUint32 | BUint64 | BUint => uint_min_type vals
  | BFloat32 => md | BFloat64 => mD
  | _ => 0
  end.

Definition ub_elem (e : uenc) (bt : btype) (t : Z) (s : scalar) : uenc * bool :=
  match bt with
  | BString => ub_string e (sstr s) false
  | BInt8 => ub_int8 e (snum s) false
  | BInt16 => ub_int16 e (snum s) false
  | BInt32 => ub_int32 e (snum s) false
  | BInt64 | BInt => ub_int64 e (snum s) false
  | BByte | BUint8 => ub_uint8 e (snum s) false
  | BUint16 | BUint32 | BUint64 | BUint => ub_uint64 e (snum s) t false
  | BFloat32 => ub_float32 e (snum s) false
  | BFloat64 => ub_float64 e (snum s) false
  | _ => (e, true)
  end.

Fixpoint ub_elems (e : uenc) (bt : btype) (t : Z) (l : list scalar) : uenc * bool :=
  match l with
  | [] => (e, true)
  | s :: r => ub_elem e bt t s >>> fun e => ub_elems e bt t r
  end.

Fixpoint ub_bools (e : uenc) (l : list scalar) : uenc * bool :=
  match l with
  | [] => (e, true)
  | s :: r => uw e [if sbool s then mT else mF] >>> fun e => ub_bools e r
  end.

Fixpoint ub_members (e : uenc) (bt : btype) (t : Z) (l : list (bytes * scalar)) : uenc * bool :=
  match l with
  | [] => (e, true)
  | (k, s) :: r => ub_string e k false >>> fun e => ub_elem e bt t s >>> fun e => ub_members e bt t r
  end.

Fixpoint ub_bool_members (e : uenc) (l : list (bytes * scalar)) : uenc * bool :=
  match l with
  | [] => (e, true)
  | (k, s) :: r => ub_string e k false >>> fun e => uw e [if sbool s then mT else mF] >>> fun e => ub_bool_members e r
  end.

Definition ubj_on (e : uenc) (ev : event) : uenc * bool :=
  match ev with
  | EVal s => ub_scalar e s
  | EStrRef s => ub_string e s true
  | EKey k | EKeyRef k => ub_string e k false
  | EArrStart len _ => ub_start e mArrS len
  | EObjStart len _ => ub_start e mObjS len
  | EArrEnd => ub_finish e mArrE
  | EObjEnd => ub_finish e mObjE
  | EXArr BBool es =>
      ub_start e mArrS (zlen es) >>> fun e => ub_bools e es >>> fun e => ub_finish e mArrE
  | EXArr bt es =>
      if zlen es <=? 0 then uw e [mArrS; mArrE] else
      let t := typed_marker bt es in
      uw e [mArrS; mType; t; mCount] >>> fun e => ub_writelen e (zlen es) >>> fun e => ub_elems e bt t es
  | EXObj bt ms =>
      if zlen ms <=? 0 then uw e [mObjS; mObjE] else
      match bt with
      | BBool => ub_start e mObjS (zlen ms) >>> fun e => ub_bool_members e ms >>> fun e => ub_finish e mObjE
      | _ =>
          let t := typed_marker bt (map snd ms) in
          uw e [mObjS; mType; t; mCount] >>> fun e => ub_writelen e (zlen ms) >>> fun e => ub_members e bt t ms
      end
  end.

Fixpoint ubj_run (e : uenc) (evs : list event) (i : nat) : uenc * option nat :=
  match evs with
  | [] => (e, None)
  | ev :: r => let '(e1, ok) := ubj_on e ev in if ok then ubj_run e1 r (S i) else (e1, Some i)
  end.

Definition ubj_encode (evs : list event) : option bytes :=
  match ubj_run (uenc0 None) evs 0 with
  | (e, None) => Some (w_bytes (ue_w e))
  | _ => None
  end.
