(* C03 for the UBJSON parser model: no panic on arbitrary bytes / chunkings /
   visitor failures; totality (no OutOfFuel) except for typed containers of
   zero-sized elements; linear space. *)
From SF Require Import Base.Prelude Core.Events Ubjson.Spec Ubjson.Parse.
From Coq Require Import ZifyBool ZifyNat ZifyN.
Open Scope Z_scope.
Ltac Zify.zify_post_hook ::= Z.div_mod_to_equations.

(* ------------------------------------------------------------------ *)
(* uexec as a non-recursive functional                                 *)
(* ------------------------------------------------------------------ *)
Definition latch (r : ures) : ures :=
  match r with
  | UR p1 s1 rest d err => if unil err then r else UR (uset_err p1 err) s1 rest d err
  | c => c
  end.

Lemma zlen_nil_iff : forall (A : Type) (l : list A), (zlen l =? 0) = true <-> l = [].
Proof. intros A [|x l]; unfold zlen; cbn [length]; split; intro H; try reflexivity; try discriminate; lia. Qed.

Lemma zlen_cons : forall (A : Type) (x : A) l, zlen (x :: l) = zlen l + 1.
Proof. intros; unfold zlen; cbn [length]; lia. Qed.
Lemma zlen_nonneg : forall (A : Type) (l : list A), 0 <= zlen l.
Proof. intros; unfold zlen; lia. Qed.
Lemma zlen_app : forall (A : Type) (a b : list A), zlen (a ++ b) = zlen a + zlen b.
Proof. intros; unfold zlen; rewrite app_length; lia. Qed.

(* ------------------------------------------------------------------ *)
(* ucollect                                                            *)
(* ------------------------------------------------------------------ *)
Lemma ucollect_weak : forall p b c, 0 <= c ->
  exists buf rest tmp, ucollect p b c = UC (uset_buf p buf) rest tmp /\ (length rest <= length b)%nat.
Proof.
  intros p b c Hc. unfold ucollect.
  assert (Hfast : forall p0 b0, exists buf rest tmp,
     (if c <? 0 then UCC else if zlen b0 >=? c then UC p0 (uzskipn c b0) (Some (uzfirstn c b0))
      else UC (uset_buf p0 (up_buf p0 ++ b0)) [] None) = UC (uset_buf p0 buf) rest tmp /\ (length rest <= length b0)%nat).
  { intros p0 b0. destruct (c <? 0) eqn:E; [lia|].
    destruct (zlen b0 >=? c).
    - exists (up_buf p0), (uzskipn c b0), (Some (uzfirstn c b0)). split; [destruct p0; reflexivity|].
      unfold uzskipn. rewrite skipn_length. lia.
    - eexists _, _, _. split; [reflexivity|]. cbn [length]. lia. }
  destruct (zlen (up_buf p) >? 0).
  2:{ apply Hfast. }
  destruct (c - zlen (up_buf p) >? 0) eqn:Ed.
  - destruct (c - zlen (up_buf p) >? zlen b) eqn:Ed2.
    + eexists _, _, _. split; [reflexivity|]. cbn [length]. lia.
    + set (p1 := uset_buf p (up_buf p ++ uzfirstn (c - zlen (up_buf p)) b)).
      set (b1 := uzskipn (c - zlen (up_buf p)) b).
      assert (Hb1 : (length b1 <= length b)%nat) by (unfold b1, uzskipn; rewrite skipn_length; lia).
      destruct (zlen (up_buf p1) >=? c).
      * destruct (c <? 0) eqn:E; [lia|].
        destruct (zlen (up_buf p1) =? c); eexists _, _, _; (split; [destruct p; reflexivity|exact Hb1]).
      * destruct (Hfast p1 b1) as (buf & rest & tmp & H1 & H2).
        exists buf, rest, tmp. split; [rewrite H1; destruct p; reflexivity| lia].
  - destruct (zlen (up_buf p) >=? c).
    + destruct (c <? 0) eqn:E; [lia|].
      destruct (zlen (up_buf p) =? c); eexists _, _, _; (split; [destruct p; reflexivity|lia]).
    + apply Hfast.
Qed.

(* ------------------------------------------------------------------ *)
(* ustep_len                                                           *)
(* ------------------------------------------------------------------ *)
Definition len_out (p : uparser) (cont : ustate) (p1 : uparser) : Prop :=
  (exists buf m, p1 = uset_marker (uset_buf p buf) m) \/
  (exists buf L, 0 <= L /\ p1 = ul_push (uset_cur (uset_marker (uset_buf p buf) 0) cont) L).

Lemma ustep_len_weak : forall p b cont, b <> [] ->
  exists p1 rest err, ustep_len p b cont = UL p1 rest err /\ (unil err = true -> len_out p cont p1).
Proof.
  intros p b cont Hb.
  assert (Hfin : forall p0 rest L buf m, p0 = uset_marker (uset_buf p buf) m ->
     exists p1 rest1 err,
      (if L <? 0 then UL p0 [] ueNegativeLen else UL (ul_push (uset_cur (uset_marker p0 0) cont) L) rest unilE) = UL p1 rest1 err
      /\ (unil err = true -> len_out p cont p1)).
  { intros p0 rest L buf m ->. destruct (L <? 0) eqn:E.
    - eexists _, _, _. split; [reflexivity|]. intro H; discriminate H.
    - eexists _, _, _. split; [reflexivity|]. intros _. right. exists buf, L. split; [lia|]. destruct p; reflexivity. }
  assert (Hgo : forall p0 m0 b0, p0 = uset_marker p m0 -> b0 <> [] -> exists p1 rest err,
     (let p := p0 in
      let m := up_marker p in
      let finish (p : uparser) (rest : bytes) (L : Z) : ulres :=
        if L <? 0 then UL p [] ueNegativeLen
        else UL (ul_push (uset_cur (uset_marker p 0) cont) L) rest unilE in
      let viacollect (k : Z) : ulres :=
        match ucollect p b0 k with
        | UCC => ULC 2
        | UC p1 rest None => UL p1 rest unilE
        | UC p1 rest (Some tmp) => finish p1 rest (wraps (8 * k) (be_dec tmp))
        end in
      if m =? mi then match b0 with [] => ULC 3 | x :: r => finish p r (wraps 8 x) end
      else if m =? mU then match b0 with [] => ULC 4 | x :: r => finish p r x end
      else if m =? mI then viacollect 2
      else if m =? ml then viacollect 4
      else if m =? mL then viacollect 8
      else UL p [] ueUnknownMarker) = UL p1 rest err /\ (unil err = true -> len_out p cont p1)).
  { intros p0 m0 b0 Hp0 Hb0. cbv zeta.
    assert (Hvc : forall k, 0 <= k -> exists p1 rest err,
      match ucollect p0 b0 k with
        | UCC => ULC 2
        | UC p1 rest None => UL p1 rest unilE
        | UC p1 rest (Some tmp) =>
           if wraps (8 * k) (be_dec tmp) <? 0 then UL p1 [] ueNegativeLen
           else UL (ul_push (uset_cur (uset_marker p1 0) cont) (wraps (8 * k) (be_dec tmp))) rest unilE
        end = UL p1 rest err /\ (unil err = true -> len_out p cont p1)).
    { intros k Hk. destruct (ucollect_weak p0 b0 k Hk) as (buf & rest & tmp & Hc & _).
      rewrite Hc. destruct tmp as [tmp|].
      - apply (Hfin _ rest _ buf m0). subst p0; destruct p; reflexivity.
      - eexists _, _, _. split; [reflexivity|]. intros _. left. exists buf, m0. subst p0; destruct p; reflexivity. }
    destruct (up_marker p0 =? mi).
    { destruct b0 as [|x r]; [congruence|]. apply (Hfin _ r _ (up_buf p) m0). subst p0; destruct p; reflexivity. }
    destruct (up_marker p0 =? mU).
    { destruct b0 as [|x r]; [congruence|]. apply (Hfin _ r _ (up_buf p) m0). subst p0; destruct p; reflexivity. }
    destruct (up_marker p0 =? mI). { apply Hvc; lia. }
    destruct (up_marker p0 =? ml). { apply Hvc; lia. }
    destruct (up_marker p0 =? mL). { apply Hvc; lia. }
    eexists _, _, _. split; [reflexivity|]. intro H; discriminate H. }
  unfold ustep_len.
  destruct (up_marker p =? 0) eqn:Em.
  - destruct b as [|m r]; [congruence|].
    destruct (negb ((m =? mi) || (m =? mU) || (m =? mI) || (m =? ml) || (m =? mL))).
    { eexists _, _, _. split; [reflexivity|]. intro H; discriminate H. }
    destruct (zlen r =? 0) eqn:Er.
    { eexists _, _, _. split; [reflexivity|]. intros _. left. exists (up_buf p), m. destruct p; reflexivity. }
    apply (Hgo _ m r); [reflexivity|]. intros ->. discriminate Er.
  - apply (Hgo p (up_marker p) b); [destruct p; reflexivity|exact Hb].
Qed.

(* ------------------------------------------------------------------ *)
(* the body of uexec, with the recursive call abstracted               *)
(* ------------------------------------------------------------------ *)
Definition ubody0 (rec : uparser -> sink -> bytes -> ures) (p : uparser) (s : sink) (b : bytes) : ures :=
  let t := u_t (up_cur p) in
  let step := u_s (up_cur p) in
      if t =? tFail then UR p s b false (if up_err p =? 0 then unilE else up_err p)
    else if t =? tNext then ustep_value p s b
    else if t =? tFixed then ustep_fixed p s b
    else if (t =? tHighPrec) || (t =? tString) then ustep_string p s b
    else if t =? tArray then
      match b with
      | [] => UCrash 14
      | x :: r =>
          if x =? mCount then UR (uset_type p tArrayCount) s r false unilE
          else if x =? mType then UR (uset_type p tArrayTyped) s r false unilE
          else let '(s1, e) := uvis s (EArrStart (-1) BAny) in UR (uset_type p tArrayDyn) s1 b false e
      end
    else if t =? tArrayDyn then
      match b with
      | [] => UCrash 15
      | x :: r =>
          if x =? mArrE then
            let '(s1, e) := uvis s EArrEnd in
            if unil e then let '(p1, d) := upop_state p in UR p1 s1 r d unilE else UR p s1 r true e
          else
            let p1 := if step =? sStart then uset_step p sCont else p in
            value_nodone (ustep_value p1 s b)
      end
    else if t =? tArrayCount then
      if step =? sStart then of_ul (ustep_len p b (with_step (up_cur p) sWithLen)) s
      else
        let l := up_lcur p in
        let '(p1, s1, e0) :=
          if step =? sWithLen then let '(s1, e) := uvis s (EArrStart l BAny) in (uset_step p sCont, s1, e)
          else (p, s, unilE) in
        if negb (unil e0) then UR p1 s1 b false e0
        else if l =? 0 then
          let '(s2, e) := uvis s1 EArrEnd in
          if unil e then let '(p2, d) := upop_len_state p1 in UR p2 s2 b d unilE else UR p1 s2 b true e
        else
          match b with
          | [] => UCrash 16
          | x :: r =>
              if x =? mN then UR p1 s1 r false unilE
              else value_nodone (ustep_value (uset_lcur p1 (up_lcur p1 - 1)) s1 b)
          end
    else if t =? tArrayTyped then
      if (step =? sStart) || (step =? sWithType0) || (step =? sWithType1) then of_ul (ustep_header p b) s
      else
        let l := up_lcur p in
        let '(p1, s1, e0) :=
          if step =? sWithLen then let '(s1, e) := uvis s (EArrStart l (up_vtype p)) in (uset_step p sCont, s1, e)
          else (p, s, unilE) in
        if negb (unil e0) then UR p1 s1 b false e0
        else if l =? 0 then
          let '(s2, e) := uvis s1 EArrEnd in
          if unil e then let '(p2, d) := upop_len_state (v_pop p1) in UR p2 s2 b d unilE else UR p1 s2 b true e
        else
          let p2 := uset_lcur p1 (up_lcur p1 - 1) in
          value_nodone (rec (u_push p2 (up_vcur p2)) s1 b)
    else if t =? tObject then
      match b with
      | [] => UCrash 17
      | x :: r =>
          if x =? mCount then UR (uset_type p tObjectCount) s r false unilE
          else if x =? mType then UR (uset_type p tObjectTyped) s r false unilE
          else let '(s1, e) := uvis s (EObjStart (-1) BAny) in UR (uset_type p tObjectDyn) s1 b false e
      end
    else if (t =? tObjectDyn) && (step =? sFieldNameLen) && (up_lcur p =? 0) then
      let p2 := ul_pop p in
      let '(s1, e) := uvis s (EKeyRef []) in
      UR (uset_step p2 sCont) s1 b false e
    else if t =? tObjectDyn then
      match b with
      | [] => UCrash 18
      | x :: r =>
          if (step =? sStart) && (up_marker p =? 0) && (x =? mObjE) then
            let '(s1, e) := uvis s EObjEnd in
            if unil e then let '(p1, d) := upop_state p in UR p1 s1 r d unilE else UR p s1 r true e
          else if step =? sStart then of_ul (ustep_len p b (with_step (up_cur p) sFieldNameLen)) s
          else if step =? sFieldNameLen then
            match ucollect p b (up_lcur p) with
            | UCC => UCrash 19
            | UC p1 rest None => UR p1 s rest false unilE
            | UC p1 rest (Some tmp) =>
                let p2 := ul_pop p1 in
                let '(s1, e) := uvis s (EKeyRef tmp) in
                UR (uset_step p2 sCont) s1 rest false e
            end
          else if step =? sCont then
            if x =? mN then UR p s r false unilE
            else value_nodone (ustep_value (uset_step p sStart) s b)
          else UR p s b false unilE
      end
    else if t =? tObjectCount then
      if step =? sStart then of_ul (ustep_len p b (with_step (up_cur p) sWithLen)) s
      else
        match ustep_obj_content p s b false with
        | OCC w => UCrash w
        | OC fin p1 s1 rest err =>
            if fin && unil err then let '(p2, d) := upop_len_state p1 in UR p2 s1 rest d unilE
            else UR p1 s1 rest fin err
        end
    else if t =? tObjectTyped then
      if (step =? sStart) || (step =? sWithType0) || (step =? sWithType1) then of_ul (ustep_header p b) s
      else
        match ustep_obj_content p s b true with
        | OCC w => UCrash w
        | OC fin p1 s1 rest err =>
            if fin && unil err then let '(p2, d) := upop_len_state (v_pop p1) in UR p2 s1 rest d unilE
            else UR p1 s1 rest fin err
        end
    else UR p s b false ueInvalidState.

Definition ubody (rec : uparser -> sink -> bytes -> ures) (p : uparser) (s : sink) (b : bytes) : ures :=
  latch (ubody0 rec p s b).

Lemma uexec_S : forall f p s b, uexec (S f) p s b = ubody (uexec f) p s b.
Proof. reflexivity. Qed.

(* ------------------------------------------------------------------ *)
(* Stage 1: shape invariant, enough to exclude every crash branch       *)
(* ------------------------------------------------------------------ *)
Definition st_in (st : ustate) (l : list (Z * Z)) : bool :=
  existsb (fun ts => (u_t st =? fst ts) && (u_s st =? snd ts)) l.

Lemma st_in_In : forall st l, st_in st l = true -> In (u_t st, u_s st) l.
Proof.
  intros st l H. unfold st_in in H. apply existsb_exists in H. destruct H as ([t s] & Hin & H).
  cbn [fst snd] in H. apply andb_true_iff in H. destruct H as [H1 H2].
  apply Z.eqb_eq in H1. apply Z.eqb_eq in H2. subst. exact Hin.
Qed.

(* states pushed by stepValue / stepType *)
Definition fresh_states : list (Z * Z) :=
  [(2,5);(2,6);(2,7);(2,8);(2,9);(2,10);(2,11);(2,12);(3,0);(4,0);(5,0);(9,0)].
Definition vstates : list (Z * Z) := (0,0) :: (2,1) :: (2,3) :: (2,4) :: fresh_states.
Definition cur_states : list (Z * Z) :=
  vstates ++
  [(1,0);(3,13);(4,13);(6,0);(6,16);(7,0);(7,13);(7,16);
   (8,0);(8,14);(8,15);(8,13);(8,16);
   (10,0);(10,18);(10,16);
   (11,0);(11,13);(11,17);(11,18);(11,16);
   (12,0);(12,14);(12,15);(12,13);(12,17);(12,18);(12,16)].
Definition stack_states : list (Z * Z) := [(1,0);(6,16);(7,16);(8,16);(10,0);(11,17);(12,17)].

Definition lenst (st : ustate) : bool :=
  st_in st [(3,13);(4,13);(10,18);(11,18);(12,18)].

Definition inv1b (p : uparser) : bool :=
  st_in (up_cur p) cur_states &&
  forallb (fun st => st_in st stack_states) (up_stack p) &&
  (negb (lenst (up_cur p)) || (0 <=? up_lcur p)) &&
  st_in (up_vcur p) vstates &&
  forallb (fun st => st_in st vstates) (up_vstack p).

Definition ready (p : uparser) (b : bytes) : Prop := b <> [] \/ can_step_without_input p = true.

Definition post1 (r : ures) : Prop :=
  match r with
  | UCrash _ => False
  | UR p1 _ _ _ err => unil err = true -> inv1b p1 = true
  end.

Lemma ustep_value_spec : forall p s b, b <> [] ->
  exists p1 s1 rest d err, ustep_value p s b = UR p1 s1 rest d err /\ (length rest < length b)%nat /\
    (unil err = true -> p1 = p \/ exists st, st_in st fresh_states = true /\ p1 = u_push p st).
Proof.
  intros p s [|m r] Hb; [congruence|]. unfold ustep_value.
  assert (Hl : (length r < length (m :: r))%nat) by (cbn [length]; lia).
  destruct (marker_state m) as [st|] eqn:Em.
  2:{ eexists _, _, _, _, _. split; [reflexivity|]. split; [cbn [length]; lia|]. intro H; discriminate H. }
  assert (Hst : st_in st ((2,1) :: (2,2) :: (2,3) :: (2,4) :: fresh_states) = true).
  { unfold marker_state in Em.
    repeat match type of Em with (if ?c then _ else _) = _ => destruct c end;
    try discriminate Em; injection Em as <-; reflexivity. }
  destruct (u_s st =? sNil) eqn:E1.
  { destruct (uvis s (EVal SNil)) as [s1 e]. eexists _, _, _, _, _. split; [reflexivity|]. split; [exact Hl|]. intros _; left; reflexivity. }
  destruct (u_s st =? sNoop) eqn:E2.
  { eexists _, _, _, _, _. split; [reflexivity|]. split; [exact Hl|]. intros _; left; reflexivity. }
  destruct (u_s st =? sTrue) eqn:E3.
  { destruct (uvis s (EVal (SBool true))) as [s1 e]. eexists _, _, _, _, _. split; [reflexivity|]. split; [exact Hl|]. intros _; left; reflexivity. }
  destruct (u_s st =? sFalse) eqn:E4.
  { destruct (uvis s (EVal (SBool false))) as [s1 e]. eexists _, _, _, _, _. split; [reflexivity|]. split; [exact Hl|]. intros _; left; reflexivity. }
  eexists _, _, _, _, _. split; [reflexivity|]. split; [exact Hl|]. intros _; right. exists st. split; [|reflexivity].
  apply st_in_In in Hst. unfold sNil, sNoop, sTrue, sFalse in *.
  cbn [In fresh_states] in Hst.
  repeat (destruct Hst as [Hst|Hst]; [injection Hst as Ht Hs; destruct st as [t0 s0]; cbn [u_t u_s] in *; subst; try discriminate; reflexivity|]).
  contradiction.
Qed.

Lemma post1_latch : forall r, post1 r -> post1 (latch r).
Proof.
  intros [p s rest d err|w] H; cbn [latch]; [|exact H].
  destruct (unil err) eqn:E; [exact H|]. cbn [post1]. intro H1. congruence.
Qed.

Lemma post1_nodone : forall r, post1 r -> post1 (value_nodone r).
Proof. intros [p s rest d err|w] H; exact H. Qed.

Lemma inv1b_split : forall p, inv1b p = true ->
  st_in (up_cur p) cur_states = true /\
  forallb (fun st => st_in st stack_states) (up_stack p) = true /\
  (negb (lenst (up_cur p)) || (0 <=? up_lcur p)) = true /\
  st_in (up_vcur p) vstates = true /\
  forallb (fun st => st_in st vstates) (up_vstack p) = true.
Proof.
  intros p H. unfold inv1b in H.
  apply andb_true_iff in H. destruct H as [H H5]. apply andb_true_iff in H. destruct H as [H H4].
  apply andb_true_iff in H. destruct H as [H H3]. apply andb_true_iff in H. destruct H as [H1 H2]. auto.
Qed.

Lemma inv1b_join : forall p,
  st_in (up_cur p) cur_states = true ->
  forallb (fun st => st_in st stack_states) (up_stack p) = true ->
  (negb (lenst (up_cur p)) || (0 <=? up_lcur p)) = true ->
  st_in (up_vcur p) vstates = true ->
  forallb (fun st => st_in st vstates) (up_vstack p) = true -> inv1b p = true.
Proof. intros p H1 H2 H3 H4 H5. unfold inv1b. rewrite H1, H2, H3, H4, H5. reflexivity. Qed.

Lemma inv1b_len_out : forall p cont p1, len_out p cont p1 -> inv1b p = true ->
  st_in cont cur_states = true -> inv1b p1 = true.
Proof.
  intros p cont p1 [(buf & m & ->)|(buf & L & HL & ->)] Hp Hc.
  - destruct p; exact Hp.
  - destruct (inv1b_split _ Hp) as (H1 & H2 & H3 & H4 & H5). destruct p as [cur stk vc vs lc ls bf mk vt er].
    apply inv1b_join; cbn [up_cur up_stack up_vcur up_vstack up_lcur uset_cur uset_marker uset_buf ul_push] in *; auto.
    apply orb_true_iff. right. lia.
Qed.

Lemma stack_state_cur : forall st, st_in st stack_states = true ->
  st_in st cur_states = true /\ lenst st = false.
Proof.
  intros [t s] H. apply st_in_In in H. cbn in H.
  repeat (destruct H as [H|H]; [injection H as <- <-; split; reflexivity|]). contradiction.
Qed.

Lemma vstate_cur : forall st, st_in st vstates = true ->
  st_in st cur_states = true /\ lenst st = false /\ u_t st <> tArrayTyped.
Proof.
  intros [t s] H. apply st_in_In in H. cbn in H.
  repeat (destruct H as [H|H]; [injection H as <- <-; repeat split; try reflexivity; cbn; discriminate|]). contradiction.
Qed.

Lemma fresh_vstate : forall st, st_in st fresh_states = true -> st_in st vstates = true.
Proof.
  intros [t s] H. apply st_in_In in H. cbn in H.
  repeat (destruct H as [H|H]; [injection H as <- <-; reflexivity|]). contradiction.
Qed.

Lemma inv1b_upop : forall p,
  forallb (fun st => st_in st stack_states) (up_stack p) = true ->
  st_in (up_vcur p) vstates = true ->
  forallb (fun st => st_in st vstates) (up_vstack p) = true -> inv1b (u_pop p) = true.
Proof.
  intros p H2 H4 H5.
  destruct p as [cur stk vc vs lc ls bf mk vt er]. unfold u_pop. cbn [up_stack up_vcur up_vstack] in *.
  destruct stk as [|c r].
  - apply inv1b_join; cbn [up_cur up_stack up_vcur up_vstack up_lcur uset_cur]; auto.
  - cbn [forallb] in H2. apply andb_true_iff in H2. destruct H2 as [Hc Hr].
    destruct (stack_state_cur _ Hc) as [Hc1 Hc2].
    apply inv1b_join; cbn [up_cur up_stack up_vcur up_vstack up_lcur]; auto. rewrite Hc2. reflexivity.
Qed.

Lemma inv1b_upop_len : forall p,
  forallb (fun st => st_in st stack_states) (up_stack p) = true ->
  st_in (up_vcur p) vstates = true ->
  forallb (fun st => st_in st vstates) (up_vstack p) = true -> inv1b (u_pop (ul_pop p)) = true.
Proof.
  intros p H2 H4 H5. apply inv1b_upop; destruct p as [cur stk vc vs lc ls bf mk vt er]; unfold ul_pop;
    cbn [up_lstack]; destruct ls; assumption.
Qed.

Lemma vpop_parts : forall p,
  st_in (up_vcur p) vstates = true ->
  forallb (fun st => st_in st vstates) (up_vstack p) = true ->
  st_in (up_vcur (v_pop p)) vstates = true /\ forallb (fun st => st_in st vstates) (up_vstack (v_pop p)) = true
  /\ up_stack (v_pop p) = up_stack p.
Proof.
  intros p H4 H5. destruct p as [cur stk vc vs lc ls bf mk vt er]. unfold v_pop. cbn [up_vstack up_vcur] in *.
  destruct vs as [|c r]; cbn [up_vcur up_vstack up_stack].
  - auto.
  - cbn [forallb] in H5. apply andb_true_iff in H5. destruct H5 as [Hc Hr]. auto.
Qed.

Lemma inv1b_vpop : forall p, inv1b p = true -> inv1b (v_pop p) = true.
Proof.
  intros p Hp. destruct (inv1b_split _ Hp) as (H1 & H2 & H3 & H4 & H5).
  destruct p as [cur stk vc vs lc ls bf mk vt er]. unfold v_pop. cbn [up_vstack] in *.
  destruct vs as [|c r].
  - apply inv1b_join; cbn [up_cur up_stack up_vcur up_vstack up_lcur]; auto.
  - cbn [forallb] in H5. apply andb_true_iff in H5. destruct H5 as [Hc Hr].
    apply inv1b_join; cbn [up_cur up_stack up_vcur up_vstack up_lcur]; auto.
Qed.

Lemma inv1b_push : forall p st, inv1b p = true -> st_in (up_cur p) stack_states = true ->
  st_in st vstates = true -> inv1b (u_push p st) = true.
Proof.
  intros p st Hp Hc Hst. destruct (inv1b_split _ Hp) as (H1 & H2 & H3 & H4 & H5).
  destruct (vstate_cur _ Hst) as (Hs1 & Hs2 & _).
  destruct p as [cur stk vc vs lc ls bf mk vt er]. unfold u_push. cbn [up_cur up_stack up_vcur up_vstack up_lcur] in *.
  apply inv1b_join; cbn [up_cur up_stack up_vcur up_vstack up_lcur]; auto.
  - destruct (u_t cur =? tFail); [exact H2|]. cbn [forallb]. rewrite Hc, H2. reflexivity.
  - rewrite Hs2. reflexivity.
Qed.

Lemma inv1b_vpush : forall p st bt, inv1b p = true -> st_in st vstates = true -> inv1b (v_push p st bt) = true.
Proof.
  intros p st bt Hp Hst. destruct (inv1b_split _ Hp) as (H1 & H2 & H3 & H4 & H5).
  destruct p as [cur stk vc vs lc ls bf mk vt er]. unfold v_push. cbn [up_cur up_stack up_vcur up_vstack up_lcur] in *.
  apply inv1b_join; cbn [up_cur up_stack up_vcur up_vstack up_lcur]; auto.
  destruct (u_t vc =? tFail); [exact H5|]. cbn [forallb]. rewrite H4, H5. reflexivity.
Qed.

Lemma marker_state_v : forall m st, marker_state m = Some st -> (m =? mN) = false -> st_in st vstates = true.
Proof.
  intros m st Em Hn. unfold marker_state in Em.
  repeat match type of Em with (if ?c then _ else _) = _ => destruct c eqn:? end;
    try discriminate Em; try congruence; injection Em as <-; reflexivity.
Qed.

Lemma zero_sized_can_step : forall p, is_zero_sized (up_cur p) = true -> can_step_without_input p = true.
Proof.
  intros p H. unfold can_step_without_input. unfold is_zero_sized in H.
  apply andb_true_iff in H. destruct H as [Ht Hs]. rewrite Ht. unfold is_zero_sized. rewrite Ht, Hs. reflexivity.
Qed.

Opaque ustep_len ucollect ustep_value uvis wraps be_dec marker_state marker_btype.

Ltac norm := cbv [uset_buf uset_cur uset_marker uset_lcur uset_step uset_type uset_err ul_push u_push v_push with_step mku]; cbn -[Z.sub].

Ltac nonempty := solve [ discriminate | congruence ].

Ltac crunch1 :=
  repeat first
  [ progress norm
  | match goal with
    | |- context[uvis ?s ?e] => destruct (uvis s e) as [? ?]
    | |- context[ustep_value ?p ?s ?b] =>
        let E := fresh "E" in let Hl := fresh "Hl" in let Ho := fresh "Ho" in let Hu := fresh "Hu" in
        let st := fresh "st" in let Hst := fresh "Hst" in let err := fresh "err" in
        destruct (ustep_value_spec p s b) as (? & ? & ? & ? & err & E & Hl & Ho); [nonempty|]; rewrite E; clear E;
        destruct (unil err) eqn:Hu;
        [ specialize (Ho eq_refl); destruct Ho as [->|(st & Hst & ->)];
          [ | let Hv := fresh "Hv" in pose proof (fresh_vstate _ Hst) as Hv;
              let A := fresh "Hc" in let B := fresh "Hc" in let C := fresh "Hc" in
              destruct (vstate_cur _ Hv) as (A & B & C) ]
        | clear Ho ]
    | |- context[ustep_len ?p ?b ?c] =>
        let E := fresh "E" in let Ho := fresh "Ho" in let Hu := fresh "Hu" in let err := fresh "err" in
        let HL := fresh "HL" in
        destruct (ustep_len_weak p b c) as (? & ? & err & E & Ho); [nonempty|]; rewrite E; clear E;
        destruct (unil err) eqn:Hu;
        [ specialize (Ho eq_refl); destruct Ho as [(? & ? & ->)|(? & ? & HL & ->)] | clear Ho ]
    | |- context[ucollect ?p ?b ?c] =>
        let E := fresh "E" in let Ho := fresh "Ho" in
        destruct (ucollect_weak p b c) as (? & ? & ? & E & Ho); [lia|]; rewrite E; clear E
    | |- context[match marker_state ?m with _ => _ end] => destruct (marker_state m) eqn:?
    | |- context[match ?o with Some _ => _ | None => _ end] => is_var o; destruct o
    | |- context[if ?c then _ else _] => destruct c eqn:?
    end ].

Lemma inv1b_upop_len_vpop : forall p,
  forallb (fun st => st_in st stack_states) (up_stack p) = true ->
  st_in (up_vcur p) vstates = true ->
  forallb (fun st => st_in st vstates) (up_vstack p) = true -> inv1b (u_pop (ul_pop (v_pop p))) = true.
Proof.
  intros p H2 H4 H5. destruct (vpop_parts p H4 H5) as (A & B & C).
  apply inv1b_upop_len; [rewrite C; exact H2|exact A|exact B].
Qed.

Lemma ulpop_fields : forall p, up_cur (ul_pop p) = up_cur p /\ up_stack (ul_pop p) = up_stack p /\
  up_vcur (ul_pop p) = up_vcur p /\ up_vstack (ul_pop p) = up_vstack p.
Proof. intros p. unfold ul_pop. destruct (up_lstack p); repeat split; reflexivity. Qed.
Lemma ulpop_cur : forall p, up_cur (ul_pop p) = up_cur p. Proof. intro p; apply (ulpop_fields p). Qed.
Lemma ulpop_stack : forall p, up_stack (ul_pop p) = up_stack p. Proof. intro p; apply (ulpop_fields p). Qed.
Lemma ulpop_vcur : forall p, up_vcur (ul_pop p) = up_vcur p. Proof. intro p; apply (ulpop_fields p). Qed.
Lemma ulpop_vstack : forall p, up_vstack (ul_pop p) = up_vstack p. Proof. intro p; apply (ulpop_fields p). Qed.

Ltac inv_fields H2 H4 H5 :=
  rewrite ?ulpop_cur, ?ulpop_stack, ?ulpop_vcur, ?ulpop_vstack;
  cbn [up_cur up_stack up_vcur up_vstack up_lcur forallb]; rewrite ?H2, ?H4, ?H5;
  repeat match goal with H : lenst _ = false |- _ => rewrite H end;
  first [ reflexivity | assumption | (apply orb_true_iff; right; lia) ].

Ltac inv_leaf H2 H4 H5 :=
  try match goal with
    | Hm : marker_state ?m = Some ?u, Hn : (?m =? _) = false |- _ =>
        let Hv := fresh "Hv" in pose proof (marker_state_v _ _ Hm Hn) as Hv;
        let A := fresh "Hc" in let B := fresh "Hc" in let C := fresh "Hc" in
        destruct (vstate_cur _ Hv) as (A & B & C)
    end;
  match goal with
    | |- inv1b (u_pop (ul_pop (v_pop _))) = true => apply inv1b_upop_len_vpop
    | |- inv1b (u_pop (ul_pop _)) = true => apply inv1b_upop_len
    | |- inv1b (u_pop _) = true => apply inv1b_upop
    | |- inv1b _ = true => apply inv1b_join
    end; inv_fields H2 H4 H5.

Lemma ubody0_safe1 : forall rec p s b, inv1b p = true -> ready p b ->
  (u_t (up_cur p) = tArrayTyped ->
   forall p' s', inv1b p' = true -> u_t (up_cur p') <> tArrayTyped -> ready p' b -> post1 (rec p' s' b)) ->
  post1 (ubody0 rec p s b).
Proof.
  intros rec p s b Hi Hr Hrec.
  destruct (inv1b_split _ Hi) as (H1 & H2 & H3 & H4 & H5).
  destruct p as [[t st] stk vc vs lc ls buf mk vt er].
  cbn [up_cur up_stack up_vcur up_vstack up_lcur] in H1, H2, H3, H4, H5.
  destruct (vstate_cur _ H4) as (V1 & V2 & V3).
  apply st_in_In in H1. cbn in H1.
  repeat (destruct H1 as [H1|H1]; [injection H1 as <- <-|]); try contradiction.
  all: cbn in H3.
  all: destruct b as [|x r]; [ destruct Hr as [Hr|Hr]; [congruence|]; try (discriminate Hr); cbn in Hr |].
  all: unfold ubody0.
  all: cbn -[Z.sub].
  all: crunch1.
  all: try contradiction.
  all: try (intro Hu'; try congruence; try (rewrite Hu' in *; discriminate)).
  all: norm.
  all: try solve [inv_leaf H2 H4 H5].
  all: try solve [exfalso; congruence].
  all: try (apply post1_nodone; apply Hrec;
     [ reflexivity | inv_leaf H2 H4 H5 | exact V3
     | first [ left; discriminate | right; apply zero_sized_can_step; cbn [up_cur]; rewrite ?Heqb, ?Heqb0, ?Heqb1 in Hr; exact Hr ] ]).
Qed.

Transparent ustep_len ucollect ustep_value uvis wraps be_dec marker_state marker_btype.

Lemma ubody_safe1 : forall rec p s b, inv1b p = true -> ready p b ->
  (u_t (up_cur p) = tArrayTyped ->
   forall p' s', inv1b p' = true -> u_t (up_cur p') <> tArrayTyped -> ready p' b -> post1 (rec p' s' b)) ->
  post1 (ubody rec p s b).
Proof. intros. unfold ubody. apply post1_latch. apply ubody0_safe1; assumption. Qed.

Lemma uexec_safe1_nonrec : forall f p s b, inv1b p = true -> ready p b ->
  u_t (up_cur p) <> tArrayTyped -> post1 (uexec (S f) p s b).
Proof.
  intros f p s b Hi Hr Ht. rewrite uexec_S. apply ubody_safe1; try assumption.
  intro H; contradiction.
Qed.

Lemma uexec_safe1 : forall f p s b, inv1b p = true -> ready p b -> post1 (uexec (S (S f)) p s b).
Proof.
  intros f p s b Hi Hr. rewrite uexec_S. apply ubody_safe1; try assumption.
  intros _ p' s' Hi' Ht' Hr'. apply uexec_safe1_nonrec; assumption.
Qed.

Lemma uexec_step_safe1 : forall p s b, inv1b p = true -> ready p b -> post1 (uexec_step p s b).
Proof. intros. unfold uexec_step. apply uexec_safe1; assumption. Qed.

Definition post_fu (r : res ures) : Prop :=
  match r with
  | Ok (UR p1 _ _ _ err) => unil err = true -> inv1b p1 = true
  | Ok (UCrash _) => False
  | Panic _ => False
  | _ => True
  end.

Lemma ufeed_until_safe1 : forall fuel p s b, inv1b p = true -> ready p b -> post_fu (ufeed_until fuel p s b).
Proof.
  induction fuel as [|f IH]; intros p s b Hi Hr; cbn [ufeed_until]; [exact I|].
  pose proof (uexec_step_safe1 p s b Hi Hr) as H.
  destruct (uexec_step p s b) as [p1 s1 rest d err|w]; [|contradiction]. cbn [post1] in H.
  destruct (d || negb (unil err)) eqn:E1; [exact H|].
  apply orb_false_iff in E1. destruct E1 as [_ E1]. apply negb_false_iff in E1.
  destruct ((zlen rest =? 0) && negb (can_step_without_input p1)) eqn:E2; [exact H|].
  apply IH; [exact (H E1)|].
  apply andb_false_iff in E2. destruct E2 as [E2|E2].
  - left. intros ->. discriminate E2.
  - right. apply negb_false_iff in E2. exact E2.
Qed.

Definition post_f (r : res (uparser * sink * Z)) : Prop :=
  match r with
  | Ok (p1, _, err) => unil err = true -> inv1b p1 = true
  | Panic _ => False
  | _ => True
  end.

Lemma ufeed_safe1 : forall fuel p s b, inv1b p = true -> post_f (ufeed fuel p s b).
Proof.
  induction fuel as [|f IH]; intros p s b Hi; cbn [ufeed]; [exact I|].
  destruct (zlen b >? 0) eqn:Eb; [|cbn; intros _; exact Hi].
  assert (Hr : ready p b). { left. intros ->. discriminate Eb. }
  pose proof (ufeed_until_safe1 (ufeed_fuel p b) p s b Hi Hr) as H.
  destruct (ufeed_until (ufeed_fuel p b) p s b) as [[p1 s1 rest d err|w]|e|w|]; cbn [post_fu] in H; try contradiction; try exact I.
  destruct (unil err) eqn:E.
  - apply IH. exact (H eq_refl).
  - cbn. intro H1. congruence.
Qed.

Lemma inv1b_set_err : forall p e, inv1b (uset_err p e) = inv1b p.
Proof. intros [cur stk vc vs lc ls bf mk vt er] e. reflexivity. Qed.

Lemma up_write_safe1 : forall p s b, inv1b p = true -> post_f (up_write p s b).
Proof.
  intros p s b Hi. unfold up_write. pose proof (ufeed_safe1 (2 * length b + 2) p s b Hi) as H.
  destruct (ufeed (2 * length b + 2) p s b) as [[[p1 s1] err]|e|w|]; cbn [post_f] in *; try exact H.
  destruct (unil err) eqn:E; cbn [post_f].
  - intros _. rewrite inv1b_set_err. exact (H eq_refl).
  - intro H1. congruence.
Qed.

Lemma up_writes_no_panic : forall chunks p s, inv1b p = true ->
  match up_writes p s chunks with Panic _ => False | _ => True end.
Proof.
  induction chunks as [|c r IH]; intros p s Hi; cbn [up_writes].
  - destruct (ufin p s) as [[? ?] ?]. exact I.
  - pose proof (up_write_safe1 p s c Hi) as H.
    destruct (up_write p s c) as [[[p1 s1] err]|e|w|]; cbn [post_f] in H; try contradiction; try exact I.
    destruct (unil err) eqn:E; [|exact I]. apply IH. exact (H eq_refl).
Qed.

Lemma inv1b_init : inv1b uparser0 = true.
Proof. reflexivity. Qed.

Theorem C03_ubj_no_panic : forall vfail chunks, forallb all_bytes chunks = true ->
  match urun_chunks vfail chunks with Panic _ => False | _ => True end.
Proof.
  intros vfail chunks _. unfold urun_chunks.
  pose proof (up_writes_no_panic chunks uparser0 (sink0 vfail) inv1b_init) as H.
  destruct (up_writes uparser0 (sink0 vfail) chunks) as [[[p s] err]|e|w|]; try exact I. exact H.
Qed.

Theorem C03_ubj_parse_no_panic : forall vfail b, all_bytes b = true ->
  match urun_parse vfail b with Panic _ => False | _ => True end.
Proof.
  intros vfail b _. unfold urun_parse, up_parse.
  pose proof (ufeed_safe1 (2 * length b + 2) uparser0 (sink0 vfail) b inv1b_init) as H.
  destruct (ufeed (2 * length b + 2) uparser0 (sink0 vfail) b) as [[[p1 s1] err]|e|w|]; cbn [post_f] in H; try exact I; try contradiction.
  destruct (unil err); [destruct (ufin p1 s1) as [[? ?] ?]|]; exact I.
Qed.

Print Assumptions C03_ubj_no_panic.
Print Assumptions C03_ubj_parse_no_panic.

(* ------------------------------------------------------------------ *)
(* The recorded finding: a typed container of zero-sized elements takes *)
(* time proportional to its announced count: "[$T#L\x7f\xff..\xff"     *)
(* ------------------------------------------------------------------ *)
Definition zero_typed_witness : bytes := [91; 36; 84; 35; 76; 127; 255; 255; 255; 255; 255; 255; 255].

Theorem C03_ubj_zero_typed_refuted : exists b, all_bytes b = true /\ urun_parse None b = OutOfFuel.
Proof. exists zero_typed_witness. split; vm_compute; reflexivity. Qed.
Print Assumptions C03_ubj_zero_typed_refuted.
