(* C03 for the UBJSON parser model (Ubjson/Parse.v).

   Main results (all closed under the global context):
     C03_ubj_no_panic, C03_ubj_parse_no_panic   no Panic on any bytes / chunking / visitor failure (unconditional)
     C03_ubj_zero_typed_refuted                 "[$T#L\x7f\xff.." runs out of fuel (the recorded finding)
     C03_ubj_chunks_total, C03_ubj_parse_total  Ok (no OutOfFuel) when no '$' is immediately followed by Z, T or F
     C03_ubj_space, C03_ubj_space_run           retained state <= 3 * input length (unconditional, non-failed runs)

   Structure:
     stage 1  inv1b: a shape invariant excluding every crash branch (post1, ubody0_safe1)
     stage 3  ext3b: stack chain, value-state balance, no zero-sized element type, marker/buffer discipline;
              potential phi = 4 * remaining + sum of stack weights + weight of the current state decreases
              at every execStep (post3, ubody0_step3); ufeed_fuel >= phi + 1
     space    sp = stack + lstack + vstack + buf (+1 in four states) grows by at most 3 per consumed byte
              (post2, ubody0_step2) *)
From SF Require Import Base.Prelude Core.Events Ubjson.Spec Ubjson.Parse.
From Coq Require Import ZifyBool ZifyNat ZifyN.
Open Scope Z_scope.
Ltac Zify.zify_post_hook ::= Z.div_mod_to_equations.

(* ------------------------------------------------------------------ *)
(* uexec as a non-recursive functional                                 *)
(* ------------------------------------------------------------------ *)
Definition latch (r : ures) : ures :=
  match r with
  | UR p1 s1 rest d err => if unil err then r else UR (uset_err p1 err) s1 rest d err
  | c => c
  end.

Lemma zlen_nil_iff : forall (A : Type) (l : list A), (zlen l =? 0) = true <-> l = [].
Proof. intros A [|x l]; unfold zlen; cbn [length]; split; intro H; try reflexivity; try discriminate; lia. Qed.

Lemma zlen_cons : forall (A : Type) (x : A) l, zlen (x :: l) = zlen l + 1.
Proof. intros; unfold zlen; cbn [length]; lia. Qed.
Lemma zlen_nonneg : forall (A : Type) (l : list A), 0 <= zlen l.
Proof. intros; unfold zlen; lia. Qed.
Lemma zlen_app : forall (A : Type) (a b : list A), zlen (a ++ b) = zlen a + zlen b.
Proof. intros; unfold zlen; rewrite app_length; lia. Qed.

(* ------------------------------------------------------------------ *)
(* ucollect                                                            *)
(* ------------------------------------------------------------------ *)
Lemma ucollect_weak : forall p b c, 0 <= c ->
  exists buf rest tmp, ucollect p b c = UC (uset_buf p buf) rest tmp /\ (length rest <= length b)%nat.
Proof.
  intros p b c Hc. unfold ucollect.
  assert (Hfast : forall p0 b0, exists buf rest tmp,
     (if c <? 0 then UCC else if zlen b0 >=? c then UC p0 (uzskipn c b0) (Some (uzfirstn c b0))
      else UC (uset_buf p0 (up_buf p0 ++ b0)) [] None) = UC (uset_buf p0 buf) rest tmp /\ (length rest <= length b0)%nat).
  { intros p0 b0. destruct (c <? 0) eqn:E; [lia|].
    destruct (zlen b0 >=? c).
    - exists (up_buf p0), (uzskipn c b0), (Some (uzfirstn c b0)). split; [destruct p0; reflexivity|].
      unfold uzskipn. rewrite skipn_length. lia.
    - eexists _, _, _. split; [reflexivity|]. cbn [length]. lia. }
  destruct (zlen (up_buf p) >? 0).
  2:{ apply Hfast. }
  destruct (c - zlen (up_buf p) >? 0) eqn:Ed.
  - destruct (c - zlen (up_buf p) >? zlen b) eqn:Ed2.
    + eexists _, _, _. split; [reflexivity|]. cbn [length]. lia.
    + set (p1 := uset_buf p (up_buf p ++ uzfirstn (c - zlen (up_buf p)) b)).
      set (b1 := uzskipn (c - zlen (up_buf p)) b).
      assert (Hb1 : (length b1 <= length b)%nat) by (unfold b1, uzskipn; rewrite skipn_length; lia).
      destruct (zlen (up_buf p1) >=? c).
      * destruct (c <? 0) eqn:E; [lia|].
        destruct (zlen (up_buf p1) =? c); eexists _, _, _; (split; [destruct p; reflexivity|exact Hb1]).
      * destruct (Hfast p1 b1) as (buf & rest & tmp & H1 & H2).
        exists buf, rest, tmp. split; [rewrite H1; destruct p; reflexivity| lia].
  - destruct (zlen (up_buf p) >=? c).
    + destruct (c <? 0) eqn:E; [lia|].
      destruct (zlen (up_buf p) =? c); eexists _, _, _; (split; [destruct p; reflexivity|lia]).
    + apply Hfast.
Qed.

(* ------------------------------------------------------------------ *)
(* ustep_len                                                           *)
(* ------------------------------------------------------------------ *)
Definition len_out (p : uparser) (cont : ustate) (p1 : uparser) : Prop :=
  (exists buf m, p1 = uset_marker (uset_buf p buf) m) \/
  (exists buf L, 0 <= L /\ p1 = ul_push (uset_cur (uset_marker (uset_buf p buf) 0) cont) L).

Lemma ustep_len_weak : forall p b cont, b <> [] ->
  exists p1 rest err, ustep_len p b cont = UL p1 rest err /\ (unil err = true -> len_out p cont p1).
Proof.
  intros p b cont Hb.
  assert (Hfin : forall p0 rest L buf m, p0 = uset_marker (uset_buf p buf) m ->
     exists p1 rest1 err,
      (if L <? 0 then UL p0 [] ueNegativeLen else UL (ul_push (uset_cur (uset_marker p0 0) cont) L) rest unilE) = UL p1 rest1 err
      /\ (unil err = true -> len_out p cont p1)).
  { intros p0 rest L buf m ->. destruct (L <? 0) eqn:E.
    - eexists _, _, _. split; [reflexivity|]. intro H; discriminate H.
    - eexists _, _, _. split; [reflexivity|]. intros _. right. exists buf, L. split; [lia|]. destruct p; reflexivity. }
  assert (Hgo : forall p0 m0 b0, p0 = uset_marker p m0 -> b0 <> [] -> exists p1 rest err,
     (let p := p0 in
      let m := up_marker p in
      let finish (p : uparser) (rest : bytes) (L : Z) : ulres :=
        if L <? 0 then UL p [] ueNegativeLen
        else UL (ul_push (uset_cur (uset_marker p 0) cont) L) rest unilE in
      let viacollect (k : Z) : ulres :=
        match ucollect p b0 k with
        | UCC => ULC 2
        | UC p1 rest None => UL p1 rest unilE
        | UC p1 rest (Some tmp) => finish p1 rest (wraps (8 * k) (be_dec tmp))
        end in
      if m =? mi then match b0 with [] => ULC 3 | x :: r => finish p r (wraps 8 x) end
      else if m =? mU then match b0 with [] => ULC 4 | x :: r => finish p r x end
      else if m =? mI then viacollect 2
      else if m =? ml then viacollect 4
      else if m =? mL then viacollect 8
      else UL p [] ueUnknownMarker) = UL p1 rest err /\ (unil err = true -> len_out p cont p1)).
  { intros p0 m0 b0 Hp0 Hb0. cbv zeta.
    assert (Hvc : forall k, 0 <= k -> exists p1 rest err,
      match ucollect p0 b0 k with
        | UCC => ULC 2
        | UC p1 rest None => UL p1 rest unilE
        | UC p1 rest (Some tmp) =>
           if wraps (8 * k) (be_dec tmp) <? 0 then UL p1 [] ueNegativeLen
           else UL (ul_push (uset_cur (uset_marker p1 0) cont) (wraps (8 * k) (be_dec tmp))) rest unilE
        end = UL p1 rest err /\ (unil err = true -> len_out p cont p1)).
    { intros k Hk. destruct (ucollect_weak p0 b0 k Hk) as (buf & rest & tmp & Hc & _).
      rewrite Hc. destruct tmp as [tmp|].
      - apply (Hfin _ rest _ buf m0). subst p0; destruct p; reflexivity.
      - eexists _, _, _. split; [reflexivity|]. intros _. left. exists buf, m0. subst p0; destruct p; reflexivity. }
    destruct (up_marker p0 =? mi).
    { destruct b0 as [|x r]; [congruence|]. apply (Hfin _ r _ (up_buf p) m0). subst p0; destruct p; reflexivity. }
    destruct (up_marker p0 =? mU).
    { destruct b0 as [|x r]; [congruence|]. apply (Hfin _ r _ (up_buf p) m0). subst p0; destruct p; reflexivity. }
    destruct (up_marker p0 =? mI). { apply Hvc; lia. }
    destruct (up_marker p0 =? ml). { apply Hvc; lia. }
    destruct (up_marker p0 =? mL). { apply Hvc; lia. }
    eexists _, _, _. split; [reflexivity|]. intro H; discriminate H. }
  unfold ustep_len.
  destruct (up_marker p =? 0) eqn:Em.
  - destruct b as [|m r]; [congruence|].
    destruct (negb ((m =? mi) || (m =? mU) || (m =? mI) || (m =? ml) || (m =? mL))).
    { eexists _, _, _. split; [reflexivity|]. intro H; discriminate H. }
    destruct (zlen r =? 0) eqn:Er.
    { eexists _, _, _. split; [reflexivity|]. intros _. left. exists (up_buf p), m. destruct p; reflexivity. }
    apply (Hgo _ m r); [reflexivity|]. intros ->. discriminate Er.
  - apply (Hgo p (up_marker p) b); [destruct p; reflexivity|exact Hb].
Qed.

(* ------------------------------------------------------------------ *)
(* the body of uexec, with the recursive call abstracted               *)
(* ------------------------------------------------------------------ *)
Definition ubody0 (rec : uparser -> sink -> bytes -> ures) (p : uparser) (s : sink) (b : bytes) : ures :=
  let t := u_t (up_cur p) in
  let step := u_s (up_cur p) in
      if t =? tFail then UR p s b false (if up_err p =? 0 then unilE else up_err p)
    else if t =? tNext then ustep_value p s b
    else if t =? tFixed then ustep_fixed p s b
    else if (t =? tHighPrec) || (t =? tString) then ustep_string p s b
    else if t =? tArray then
      match b with
      | [] => UCrash 14
      | x :: r =>
          if x =? mCount then UR (uset_type p tArrayCount) s r false unilE
          else if x =? mType then UR (uset_type p tArrayTyped) s r false unilE
          else let '(s1, e) := uvis s (EArrStart (-1) BAny) in UR (uset_type p tArrayDyn) s1 b false e
      end
    else if t =? tArrayDyn then
      match b with
      | [] => UCrash 15
      | x :: r =>
          if x =? mArrE then
            let '(s1, e) := uvis s EArrEnd in
            if unil e then let '(p1, d) := upop_state p in UR p1 s1 r d unilE else UR p s1 r true e
          else
            let p1 := if step =? sStart then uset_step p sCont else p in
            value_nodone (ustep_value p1 s b)
      end
    else if t =? tArrayCount then
      if step =? sStart then of_ul (ustep_len p b (with_step (up_cur p) sWithLen)) s
      else
        let l := up_lcur p in
        let '(p1, s1, e0) :=
          if step =? sWithLen then let '(s1, e) := uvis s (EArrStart l BAny) in (uset_step p sCont, s1, e)
          else (p, s, unilE) in
        if negb (unil e0) then UR p1 s1 b false e0
        else if l =? 0 then
          let '(s2, e) := uvis s1 EArrEnd in
          if unil e then let '(p2, d) := upop_len_state p1 in UR p2 s2 b d unilE else UR p1 s2 b true e
        else
          match b with
          | [] => UCrash 16
          | x :: r =>
              if x =? mN then UR p1 s1 r false unilE
              else value_nodone (ustep_value (uset_lcur p1 (up_lcur p1 - 1)) s1 b)
          end
    else if t =? tArrayTyped then
      if (step =? sStart) || (step =? sWithType0) || (step =? sWithType1) then of_ul (ustep_header p b) s
      else
        let l := up_lcur p in
        let '(p1, s1, e0) :=
          if step =? sWithLen then let '(s1, e) := uvis s (EArrStart l (up_vtype p)) in (uset_step p sCont, s1, e)
          else (p, s, unilE) in
        if negb (unil e0) then UR p1 s1 b false e0
        else if l =? 0 then
          let '(s2, e) := uvis s1 EArrEnd in
          if unil e then let '(p2, d) := upop_len_state (v_pop p1) in UR p2 s2 b d unilE else UR p1 s2 b true e
        else
          let p2 := uset_lcur p1 (up_lcur p1 - 1) in
          value_nodone (rec (u_push p2 (up_vcur p2)) s1 b)
    else if t =? tObject then
      match b with
      | [] => UCrash 17
      | x :: r =>
          if x =? mCount then UR (uset_type p tObjectCount) s r false unilE
          else if x =? mType then UR (uset_type p tObjectTyped) s r false unilE
          else let '(s1, e) := uvis s (EObjStart (-1) BAny) in UR (uset_type p tObjectDyn) s1 b false e
      end
    else if (t =? tObjectDyn) && (step =? sFieldNameLen) && (up_lcur p =? 0) then
      let p2 := ul_pop p in
      let '(s1, e) := uvis s (EKeyRef []) in
      UR (uset_step p2 sCont) s1 b false e
    else if t =? tObjectDyn then
      match b with
      | [] => UCrash 18
      | x :: r =>
          if (step =? sStart) && (up_marker p =? 0) && (x =? mObjE) then
            let '(s1, e) := uvis s EObjEnd in
            if unil e then let '(p1, d) := upop_state p in UR p1 s1 r d unilE else UR p s1 r true e
          else if step =? sStart then of_ul (ustep_len p b (with_step (up_cur p) sFieldNameLen)) s
          else if step =? sFieldNameLen then
            match ucollect p b (up_lcur p) with
            | UCC => UCrash 19
            | UC p1 rest None => UR p1 s rest false unilE
            | UC p1 rest (Some tmp) =>
                let p2 := ul_pop p1 in
                let '(s1, e) := uvis s (EKeyRef tmp) in
                UR (uset_step p2 sCont) s1 rest false e
            end
          else if step =? sCont then
            if x =? mN then UR p s r false unilE
            else value_nodone (ustep_value (uset_step p sStart) s b)
          else UR p s b false unilE
      end
    else if t =? tObjectCount then
      if step =? sStart then of_ul (ustep_len p b (with_step (up_cur p) sWithLen)) s
      else
        match ustep_obj_content p s b false with
        | OCC w => UCrash w
        | OC fin p1 s1 rest err =>
            if fin && unil err then let '(p2, d) := upop_len_state p1 in UR p2 s1 rest d unilE
            else UR p1 s1 rest fin err
        end
    else if t =? tObjectTyped then
      if (step =? sStart) || (step =? sWithType0) || (step =? sWithType1) then of_ul (ustep_header p b) s
      else
        match ustep_obj_content p s b true with
        | OCC w => UCrash w
        | OC fin p1 s1 rest err =>
            if fin && unil err then let '(p2, d) := upop_len_state (v_pop p1) in UR p2 s1 rest d unilE
            else UR p1 s1 rest fin err
        end
    else UR p s b false ueInvalidState.

Definition ubody (rec : uparser -> sink -> bytes -> ures) (p : uparser) (s : sink) (b : bytes) : ures :=
  latch (ubody0 rec p s b).

Lemma uexec_S : forall f p s b, uexec (S f) p s b = ubody (uexec f) p s b.
Proof. reflexivity. Qed.

(* ------------------------------------------------------------------ *)
(* Stage 1: shape invariant, enough to exclude every crash branch       *)
(* ------------------------------------------------------------------ *)
Definition st_in (st : ustate) (l : list (Z * Z)) : bool :=
  existsb (fun ts => (u_t st =? fst ts) && (u_s st =? snd ts)) l.

Lemma st_in_In : forall st l, st_in st l = true -> In (u_t st, u_s st) l.
Proof.
  intros st l H. unfold st_in in H. apply existsb_exists in H. destruct H as ([t s] & Hin & H).
  cbn [fst snd] in H. apply andb_true_iff in H. destruct H as [H1 H2].
  apply Z.eqb_eq in H1. apply Z.eqb_eq in H2. subst. exact Hin.
Qed.

(* states pushed by stepValue / stepType *)
Definition fresh_states : list (Z * Z) :=
  [(2,5);(2,6);(2,7);(2,8);(2,9);(2,10);(2,11);(2,12);(3,0);(4,0);(5,0);(9,0)].
Definition vstates : list (Z * Z) := (0,0) :: (2,1) :: (2,3) :: (2,4) :: fresh_states.
Definition cur_states : list (Z * Z) :=
  vstates ++
  [(1,0);(3,13);(4,13);(6,0);(6,16);(7,0);(7,13);(7,16);
   (8,0);(8,14);(8,15);(8,13);(8,16);
   (10,0);(10,18);(10,16);
   (11,0);(11,13);(11,17);(11,18);(11,16);
   (12,0);(12,14);(12,15);(12,13);(12,17);(12,18);(12,16)].
Definition stack_states : list (Z * Z) := [(1,0);(6,16);(7,16);(8,16);(10,0);(11,17);(12,17)].

Definition lenst (st : ustate) : bool :=
  st_in st [(3,13);(4,13);(10,18);(11,18);(12,18)].

Definition inv1b (p : uparser) : bool :=
  st_in (up_cur p) cur_states &&
  forallb (fun st => st_in st stack_states) (up_stack p) &&
  (negb (lenst (up_cur p)) || (0 <=? up_lcur p)) &&
  st_in (up_vcur p) vstates &&
  forallb (fun st => st_in st vstates) (up_vstack p).

Definition ready (p : uparser) (b : bytes) : Prop := b <> [] \/ can_step_without_input p = true.

Definition post1 (r : ures) : Prop :=
  match r with
  | UCrash _ => False
  | UR p1 _ _ _ err => unil err = true -> inv1b p1 = true
  end.

Lemma ustep_value_spec : forall p s b, b <> [] ->
  exists p1 s1 rest d err, ustep_value p s b = UR p1 s1 rest d err /\ (length rest < length b)%nat /\
    (unil err = true -> p1 = p \/ exists st, st_in st fresh_states = true /\ p1 = u_push p st).
Proof.
  intros p s [|m r] Hb; [congruence|]. unfold ustep_value.
  assert (Hl : (length r < length (m :: r))%nat) by (cbn [length]; lia).
  destruct (marker_state m) as [st|] eqn:Em.
  2:{ eexists _, _, _, _, _. split; [reflexivity|]. split; [cbn [length]; lia|]. intro H; discriminate H. }
  assert (Hst : st_in st ((2,1) :: (2,2) :: (2,3) :: (2,4) :: fresh_states) = true).
  { unfold marker_state in Em.
    repeat match type of Em with (if ?c then _ else _) = _ => destruct c end;
    try discriminate Em; injection Em as <-; reflexivity. }
  destruct (u_s st =? sNil) eqn:E1.
  { destruct (uvis s (EVal SNil)) as [s1 e]. eexists _, _, _, _, _. split; [reflexivity|]. split; [exact Hl|]. intros _; left; reflexivity. }
  destruct (u_s st =? sNoop) eqn:E2.
  { eexists _, _, _, _, _. split; [reflexivity|]. split; [exact Hl|]. intros _; left; reflexivity. }
  destruct (u_s st =? sTrue) eqn:E3.
  { destruct (uvis s (EVal (SBool true))) as [s1 e]. eexists _, _, _, _, _. split; [reflexivity|]. split; [exact Hl|]. intros _; left; reflexivity. }
  destruct (u_s st =? sFalse) eqn:E4.
  { destruct (uvis s (EVal (SBool false))) as [s1 e]. eexists _, _, _, _, _. split; [reflexivity|]. split; [exact Hl|]. intros _; left; reflexivity. }
  eexists _, _, _, _, _. split; [reflexivity|]. split; [exact Hl|]. intros _; right. exists st. split; [|reflexivity].
  apply st_in_In in Hst. unfold sNil, sNoop, sTrue, sFalse in *.
  cbn [In fresh_states] in Hst.
  repeat (destruct Hst as [Hst|Hst]; [injection Hst as Ht Hs; destruct st as [t0 s0]; cbn [u_t u_s] in *; subst; try discriminate; reflexivity|]).
  contradiction.
Qed.

Lemma post1_latch : forall r, post1 r -> post1 (latch r).
Proof.
  intros [p s rest d err|w] H; cbn [latch]; [|exact H].
  destruct (unil err) eqn:E; [exact H|]. cbn [post1]. intro H1. congruence.
Qed.

Lemma post1_nodone : forall r, post1 r -> post1 (value_nodone r).
Proof. intros [p s rest d err|w] H; exact H. Qed.

Lemma inv1b_split : forall p, inv1b p = true ->
  st_in (up_cur p) cur_states = true /\
  forallb (fun st => st_in st stack_states) (up_stack p) = true /\
  (negb (lenst (up_cur p)) || (0 <=? up_lcur p)) = true /\
  st_in (up_vcur p) vstates = true /\
  forallb (fun st => st_in st vstates) (up_vstack p) = true.
Proof.
  intros p H. unfold inv1b in H.
  apply andb_true_iff in H. destruct H as [H H5]. apply andb_true_iff in H. destruct H as [H H4].
  apply andb_true_iff in H. destruct H as [H H3]. apply andb_true_iff in H. destruct H as [H1 H2]. auto.
Qed.

Lemma inv1b_join : forall p,
  st_in (up_cur p) cur_states = true ->
  forallb (fun st => st_in st stack_states) (up_stack p) = true ->
  (negb (lenst (up_cur p)) || (0 <=? up_lcur p)) = true ->
  st_in (up_vcur p) vstates = true ->
  forallb (fun st => st_in st vstates) (up_vstack p) = true -> inv1b p = true.
Proof. intros p H1 H2 H3 H4 H5. unfold inv1b. rewrite H1, H2, H3, H4, H5. reflexivity. Qed.

Lemma inv1b_len_out : forall p cont p1, len_out p cont p1 -> inv1b p = true ->
  st_in cont cur_states = true -> inv1b p1 = true.
Proof.
  intros p cont p1 [(buf & m & ->)|(buf & L & HL & ->)] Hp Hc.
  - destruct p; exact Hp.
  - destruct (inv1b_split _ Hp) as (H1 & H2 & H3 & H4 & H5). destruct p as [cur stk vc vs lc ls bf mk vt er].
    apply inv1b_join; cbn [up_cur up_stack up_vcur up_vstack up_lcur uset_cur uset_marker uset_buf ul_push] in *; auto.
    apply orb_true_iff. right. lia.
Qed.

Lemma stack_state_cur : forall st, st_in st stack_states = true ->
  st_in st cur_states = true /\ lenst st = false.
Proof.
  intros [t s] H. apply st_in_In in H. cbn in H.
  repeat (destruct H as [H|H]; [injection H as <- <-; split; reflexivity|]). contradiction.
Qed.

Lemma vstate_cur : forall st, st_in st vstates = true ->
  st_in st cur_states = true /\ lenst st = false /\ u_t st <> tArrayTyped.
Proof.
  intros [t s] H. apply st_in_In in H. cbn in H.
  repeat (destruct H as [H|H]; [injection H as <- <-; repeat split; try reflexivity; cbn; discriminate|]). contradiction.
Qed.

Lemma fresh_vstate : forall st, st_in st fresh_states = true -> st_in st vstates = true.
Proof.
  intros [t s] H. apply st_in_In in H. cbn in H.
  repeat (destruct H as [H|H]; [injection H as <- <-; reflexivity|]). contradiction.
Qed.

Lemma inv1b_upop : forall p,
  forallb (fun st => st_in st stack_states) (up_stack p) = true ->
  st_in (up_vcur p) vstates = true ->
  forallb (fun st => st_in st vstates) (up_vstack p) = true -> inv1b (u_pop p) = true.
Proof.
  intros p H2 H4 H5.
  destruct p as [cur stk vc vs lc ls bf mk vt er]. unfold u_pop. cbn [up_stack up_vcur up_vstack] in *.
  destruct stk as [|c r].
  - apply inv1b_join; cbn [up_cur up_stack up_vcur up_vstack up_lcur uset_cur]; auto.
  - cbn [forallb] in H2. apply andb_true_iff in H2. destruct H2 as [Hc Hr].
    destruct (stack_state_cur _ Hc) as [Hc1 Hc2].
    apply inv1b_join; cbn [up_cur up_stack up_vcur up_vstack up_lcur]; auto. rewrite Hc2. reflexivity.
Qed.

Lemma inv1b_upop_len : forall p,
  forallb (fun st => st_in st stack_states) (up_stack p) = true ->
  st_in (up_vcur p) vstates = true ->
  forallb (fun st => st_in st vstates) (up_vstack p) = true -> inv1b (u_pop (ul_pop p)) = true.
Proof.
  intros p H2 H4 H5. apply inv1b_upop; destruct p as [cur stk vc vs lc ls bf mk vt er]; unfold ul_pop;
    cbn [up_lstack]; destruct ls; assumption.
Qed.

Lemma vpop_parts : forall p,
  st_in (up_vcur p) vstates = true ->
  forallb (fun st => st_in st vstates) (up_vstack p) = true ->
  st_in (up_vcur (v_pop p)) vstates = true /\ forallb (fun st => st_in st vstates) (up_vstack (v_pop p)) = true
  /\ up_stack (v_pop p) = up_stack p.
Proof.
  intros p H4 H5. destruct p as [cur stk vc vs lc ls bf mk vt er]. unfold v_pop. cbn [up_vstack up_vcur] in *.
  destruct vs as [|c r]; cbn [up_vcur up_vstack up_stack].
  - auto.
  - cbn [forallb] in H5. apply andb_true_iff in H5. destruct H5 as [Hc Hr]. auto.
Qed.

Lemma inv1b_vpop : forall p, inv1b p = true -> inv1b (v_pop p) = true.
Proof.
  intros p Hp. destruct (inv1b_split _ Hp) as (H1 & H2 & H3 & H4 & H5).
  destruct p as [cur stk vc vs lc ls bf mk vt er]. unfold v_pop. cbn [up_vstack] in *.
  destruct vs as [|c r].
  - apply inv1b_join; cbn [up_cur up_stack up_vcur up_vstack up_lcur]; auto.
  - cbn [forallb] in H5. apply andb_true_iff in H5. destruct H5 as [Hc Hr].
    apply inv1b_join; cbn [up_cur up_stack up_vcur up_vstack up_lcur]; auto.
Qed.

Lemma inv1b_push : forall p st, inv1b p = true -> st_in (up_cur p) stack_states = true ->
  st_in st vstates = true -> inv1b (u_push p st) = true.
Proof.
  intros p st Hp Hc Hst. destruct (inv1b_split _ Hp) as (H1 & H2 & H3 & H4 & H5).
  destruct (vstate_cur _ Hst) as (Hs1 & Hs2 & _).
  destruct p as [cur stk vc vs lc ls bf mk vt er]. unfold u_push. cbn [up_cur up_stack up_vcur up_vstack up_lcur] in *.
  apply inv1b_join; cbn [up_cur up_stack up_vcur up_vstack up_lcur]; auto.
  - destruct (u_t cur =? tFail); [exact H2|]. cbn [forallb]. rewrite Hc, H2. reflexivity.
  - rewrite Hs2. reflexivity.
Qed.

Lemma inv1b_vpush : forall p st bt, inv1b p = true -> st_in st vstates = true -> inv1b (v_push p st bt) = true.
Proof.
  intros p st bt Hp Hst. destruct (inv1b_split _ Hp) as (H1 & H2 & H3 & H4 & H5).
  destruct p as [cur stk vc vs lc ls bf mk vt er]. unfold v_push. cbn [up_cur up_stack up_vcur up_vstack up_lcur] in *.
  apply inv1b_join; cbn [up_cur up_stack up_vcur up_vstack up_lcur]; auto.
  destruct (u_t vc =? tFail); [exact H5|]. cbn [forallb]. rewrite H4, H5. reflexivity.
Qed.

Lemma marker_state_v : forall m st, marker_state m = Some st -> (m =? mN) = false -> st_in st vstates = true.
Proof.
  intros m st Em Hn. unfold marker_state in Em.
  repeat match type of Em with (if ?c then _ else _) = _ => destruct c eqn:? end;
    try discriminate Em; try congruence; injection Em as <-; reflexivity.
Qed.

Lemma zero_sized_can_step : forall p, is_zero_sized (up_cur p) = true -> can_step_without_input p = true.
Proof.
  intros p H. unfold can_step_without_input. unfold is_zero_sized in H.
  apply andb_true_iff in H. destruct H as [Ht Hs]. rewrite Ht. unfold is_zero_sized. rewrite Ht, Hs. reflexivity.
Qed.

Opaque ustep_len ucollect ustep_value uvis wraps be_dec marker_state marker_btype.

Ltac norm := cbv [uset_buf uset_cur uset_marker uset_lcur uset_step uset_type uset_err ul_push u_push v_push with_step mku]; cbn -[Z.sub].

Ltac nonempty := solve [ discriminate | congruence ].

Ltac crunch1 :=
  repeat first
  [ progress norm
  | match goal with
    | |- context[uvis ?s ?e] => destruct (uvis s e) as [? ?]
    | |- context[ustep_value ?p ?s ?b] =>
        let E := fresh "E" in let Hl := fresh "Hl" in let Ho := fresh "Ho" in let Hu := fresh "Hu" in
        let st := fresh "st" in let Hst := fresh "Hst" in let err := fresh "err" in
        destruct (ustep_value_spec p s b) as (? & ? & ? & ? & err & E & Hl & Ho); [nonempty|]; rewrite E; clear E;
        destruct (unil err) eqn:Hu;
        [ specialize (Ho eq_refl); destruct Ho as [->|(st & Hst & ->)];
          [ | let Hv := fresh "Hv" in pose proof (fresh_vstate _ Hst) as Hv;
              let A := fresh "Hc" in let B := fresh "Hc" in let C := fresh "Hc" in
              destruct (vstate_cur _ Hv) as (A & B & C) ]
        | clear Ho ]
    | |- context[ustep_len ?p ?b ?c] =>
        let E := fresh "E" in let Ho := fresh "Ho" in let Hu := fresh "Hu" in let err := fresh "err" in
        let HL := fresh "HL" in
        destruct (ustep_len_weak p b c) as (? & ? & err & E & Ho); [nonempty|]; rewrite E; clear E;
        destruct (unil err) eqn:Hu;
        [ specialize (Ho eq_refl); destruct Ho as [(? & ? & ->)|(? & ? & HL & ->)] | clear Ho ]
    | |- context[ucollect ?p ?b ?c] =>
        let E := fresh "E" in let Ho := fresh "Ho" in
        destruct (ucollect_weak p b c) as (? & ? & ? & E & Ho); [lia|]; rewrite E; clear E
    | |- context[match marker_state ?m with _ => _ end] => destruct (marker_state m) eqn:?
    | |- context[match ?o with Some _ => _ | None => _ end] => is_var o; destruct o
    | |- context[if ?c then _ else _] => destruct c eqn:?
    end ].

Lemma inv1b_upop_len_vpop : forall p,
  forallb (fun st => st_in st stack_states) (up_stack p) = true ->
  st_in (up_vcur p) vstates = true ->
  forallb (fun st => st_in st vstates) (up_vstack p) = true -> inv1b (u_pop (ul_pop (v_pop p))) = true.
Proof.
  intros p H2 H4 H5. destruct (vpop_parts p H4 H5) as (A & B & C).
  apply inv1b_upop_len; [rewrite C; exact H2|exact A|exact B].
Qed.

Lemma ulpop_fields : forall p, up_cur (ul_pop p) = up_cur p /\ up_stack (ul_pop p) = up_stack p /\
  up_vcur (ul_pop p) = up_vcur p /\ up_vstack (ul_pop p) = up_vstack p.
Proof. intros p. unfold ul_pop. destruct (up_lstack p); repeat split; reflexivity. Qed.
Lemma ulpop_cur : forall p, up_cur (ul_pop p) = up_cur p. Proof. intro p; apply (ulpop_fields p). Qed.
Lemma ulpop_stack : forall p, up_stack (ul_pop p) = up_stack p. Proof. intro p; apply (ulpop_fields p). Qed.
Lemma ulpop_vcur : forall p, up_vcur (ul_pop p) = up_vcur p. Proof. intro p; apply (ulpop_fields p). Qed.
Lemma ulpop_vstack : forall p, up_vstack (ul_pop p) = up_vstack p. Proof. intro p; apply (ulpop_fields p). Qed.

Ltac inv_fields H2 H4 H5 :=
  rewrite ?ulpop_cur, ?ulpop_stack, ?ulpop_vcur, ?ulpop_vstack;
  cbn [up_cur up_stack up_vcur up_vstack up_lcur forallb]; rewrite ?H2, ?H4, ?H5;
  repeat match goal with H : lenst _ = false |- _ => rewrite H end;
  first [ reflexivity | assumption | (apply orb_true_iff; right; lia) ].

Ltac inv_leaf H2 H4 H5 :=
  try match goal with
    | Hm : marker_state ?m = Some ?u, Hn : (?m =? _) = false |- _ =>
        let Hv := fresh "Hv" in pose proof (marker_state_v _ _ Hm Hn) as Hv;
        let A := fresh "Hc" in let B := fresh "Hc" in let C := fresh "Hc" in
        destruct (vstate_cur _ Hv) as (A & B & C)
    end;
  match goal with
    | |- inv1b (u_pop (ul_pop (v_pop _))) = true => apply inv1b_upop_len_vpop
    | |- inv1b (u_pop (ul_pop _)) = true => apply inv1b_upop_len
    | |- inv1b (u_pop _) = true => apply inv1b_upop
    | |- inv1b _ = true => apply inv1b_join
    end; inv_fields H2 H4 H5.

Lemma ubody0_safe1 : forall rec p s b, inv1b p = true -> ready p b ->
  (u_t (up_cur p) = tArrayTyped ->
   forall p' s', inv1b p' = true -> u_t (up_cur p') <> tArrayTyped -> ready p' b -> post1 (rec p' s' b)) ->
  post1 (ubody0 rec p s b).
Proof.
  intros rec p s b Hi Hr Hrec.
  destruct (inv1b_split _ Hi) as (H1 & H2 & H3 & H4 & H5).
  destruct p as [[t st] stk vc vs lc ls buf mk vt er].
  cbn [up_cur up_stack up_vcur up_vstack up_lcur] in H1, H2, H3, H4, H5.
  destruct (vstate_cur _ H4) as (V1 & V2 & V3).
  apply st_in_In in H1. cbn in H1.
  repeat (destruct H1 as [H1|H1]; [injection H1 as <- <-|]); try contradiction.
  all: cbn in H3.
  all: destruct b as [|x r]; [ destruct Hr as [Hr|Hr]; [congruence|]; try (discriminate Hr); cbn in Hr |].
  all: unfold ubody0.
  all: cbn -[Z.sub].
  all: crunch1.
  all: try contradiction.
  all: try (intro Hu'; try congruence; try (rewrite Hu' in *; discriminate)).
  all: norm.
  all: try solve [inv_leaf H2 H4 H5].
  all: try solve [exfalso; congruence].
  all: try (apply post1_nodone; apply Hrec;
     [ reflexivity | inv_leaf H2 H4 H5 | exact V3
     | first [ left; discriminate | right; apply zero_sized_can_step; cbn [up_cur]; rewrite ?Heqb, ?Heqb0, ?Heqb1 in Hr; exact Hr ] ]).
Qed.

Transparent ustep_len ucollect ustep_value uvis wraps be_dec marker_state marker_btype.

Lemma ubody_safe1 : forall rec p s b, inv1b p = true -> ready p b ->
  (u_t (up_cur p) = tArrayTyped ->
   forall p' s', inv1b p' = true -> u_t (up_cur p') <> tArrayTyped -> ready p' b -> post1 (rec p' s' b)) ->
  post1 (ubody rec p s b).
Proof. intros. unfold ubody. apply post1_latch. apply ubody0_safe1; assumption. Qed.

Lemma uexec_safe1_nonrec : forall f p s b, inv1b p = true -> ready p b ->
  u_t (up_cur p) <> tArrayTyped -> post1 (uexec (S f) p s b).
Proof.
  intros f p s b Hi Hr Ht. rewrite uexec_S. apply ubody_safe1; try assumption.
  intro H; contradiction.
Qed.

Lemma uexec_safe1 : forall f p s b, inv1b p = true -> ready p b -> post1 (uexec (S (S f)) p s b).
Proof.
  intros f p s b Hi Hr. rewrite uexec_S. apply ubody_safe1; try assumption.
  intros _ p' s' Hi' Ht' Hr'. apply uexec_safe1_nonrec; assumption.
Qed.

Lemma uexec_step_safe1 : forall p s b, inv1b p = true -> ready p b -> post1 (uexec_step p s b).
Proof. intros. unfold uexec_step. apply uexec_safe1; assumption. Qed.

Definition post_fu (r : res ures) : Prop :=
  match r with
  | Ok (UR p1 _ _ _ err) => unil err = true -> inv1b p1 = true
  | Ok (UCrash _) => False
  | Panic _ => False
  | _ => True
  end.

Lemma ufeed_until_safe1 : forall fuel p s b, inv1b p = true -> ready p b -> post_fu (ufeed_until fuel p s b).
Proof.
  induction fuel as [|f IH]; intros p s b Hi Hr; cbn [ufeed_until]; [exact I|].
  pose proof (uexec_step_safe1 p s b Hi Hr) as H.
  destruct (uexec_step p s b) as [p1 s1 rest d err|w]; [|contradiction]. cbn [post1] in H.
  destruct (d || negb (unil err)) eqn:E1; [exact H|].
  apply orb_false_iff in E1. destruct E1 as [_ E1]. apply negb_false_iff in E1.
  destruct ((zlen rest =? 0) && negb (can_step_without_input p1)) eqn:E2; [exact H|].
  apply IH; [exact (H E1)|].
  apply andb_false_iff in E2. destruct E2 as [E2|E2].
  - left. intros ->. discriminate E2.
  - right. apply negb_false_iff in E2. exact E2.
Qed.

Definition post_f (r : res (uparser * sink * Z)) : Prop :=
  match r with
  | Ok (p1, _, err) => unil err = true -> inv1b p1 = true
  | Panic _ => False
  | _ => True
  end.

Lemma ufeed_safe1 : forall fuel p s b, inv1b p = true -> post_f (ufeed fuel p s b).
Proof.
  induction fuel as [|f IH]; intros p s b Hi; cbn [ufeed]; [exact I|].
  destruct (zlen b >? 0) eqn:Eb; [|cbn; intros _; exact Hi].
  assert (Hr : ready p b). { left. intros ->. discriminate Eb. }
  pose proof (ufeed_until_safe1 (ufeed_fuel p b) p s b Hi Hr) as H.
  destruct (ufeed_until (ufeed_fuel p b) p s b) as [[p1 s1 rest d err|w]|e|w|]; cbn [post_fu] in H; try contradiction; try exact I.
  destruct (unil err) eqn:E.
  - apply IH. exact (H eq_refl).
  - cbn. intro H1. congruence.
Qed.

Lemma inv1b_set_err : forall p e, inv1b (uset_err p e) = inv1b p.
Proof. intros [cur stk vc vs lc ls bf mk vt er] e. reflexivity. Qed.

Lemma up_write_safe1 : forall p s b, inv1b p = true -> post_f (up_write p s b).
Proof.
  intros p s b Hi. unfold up_write. pose proof (ufeed_safe1 (2 * length b + 2) p s b Hi) as H.
  destruct (ufeed (2 * length b + 2) p s b) as [[[p1 s1] err]|e|w|]; cbn [post_f] in *; try exact H.
  destruct (unil err) eqn:E; cbn [post_f].
  - intros _. rewrite inv1b_set_err. exact (H eq_refl).
  - intro H1. congruence.
Qed.

Lemma up_writes_no_panic : forall chunks p s, inv1b p = true ->
  match up_writes p s chunks with Panic _ => False | _ => True end.
Proof.
  induction chunks as [|c r IH]; intros p s Hi; cbn [up_writes].
  - destruct (ufin p s) as [[? ?] ?]. exact I.
  - pose proof (up_write_safe1 p s c Hi) as H.
    destruct (up_write p s c) as [[[p1 s1] err]|e|w|]; cbn [post_f] in H; try contradiction; try exact I.
    destruct (unil err) eqn:E; [|exact I]. apply IH. exact (H eq_refl).
Qed.

Lemma inv1b_init : inv1b uparser0 = true.
Proof. reflexivity. Qed.

Theorem C03_ubj_no_panic : forall vfail chunks, forallb all_bytes chunks = true ->
  match urun_chunks vfail chunks with Panic _ => False | _ => True end.
Proof.
  intros vfail chunks _. unfold urun_chunks.
  pose proof (up_writes_no_panic chunks uparser0 (sink0 vfail) inv1b_init) as H.
  destruct (up_writes uparser0 (sink0 vfail) chunks) as [[[p s] err]|e|w|]; try exact I. exact H.
Qed.

Theorem C03_ubj_parse_no_panic : forall vfail b, all_bytes b = true ->
  match urun_parse vfail b with Panic _ => False | _ => True end.
Proof.
  intros vfail b _. unfold urun_parse, up_parse.
  pose proof (ufeed_safe1 (2 * length b + 2) uparser0 (sink0 vfail) b inv1b_init) as H.
  destruct (ufeed (2 * length b + 2) uparser0 (sink0 vfail) b) as [[[p1 s1] err]|e|w|]; cbn [post_f] in H; try exact I; try contradiction.
  destruct (unil err); [destruct (ufin p1 s1) as [[? ?] ?]|]; exact I.
Qed.

Print Assumptions C03_ubj_no_panic.
Print Assumptions C03_ubj_parse_no_panic.

(* ------------------------------------------------------------------ *)
(* The recorded finding: a typed container of zero-sized elements takes *)
(* time proportional to its announced count: "[$T#L\x7f\xff..\xff"     *)
(* ------------------------------------------------------------------ *)
Definition zero_typed_witness : bytes := [91; 36; 84; 35; 76; 127; 255; 255; 255; 255; 255; 255; 255].

Theorem C03_ubj_zero_typed_refuted : exists b, all_bytes b = true /\ urun_parse None b = OutOfFuel.
Proof. exists zero_typed_witness. split; vm_compute; reflexivity. Qed.
Print Assumptions C03_ubj_zero_typed_refuted.

(* ================================================================== *)
(* Stage 3: totality                                                   *)
(* ================================================================== *)

Ltac dp p := destruct p as [?c ?k ?vc ?vs ?lc ?ls ?bf ?mk ?vt ?er].

Lemma uset_buf_same : forall p, uset_buf p (up_buf p) = p.
Proof. intro p; dp p; reflexivity. Qed.
Lemma uset_buf_nil : forall p, up_buf p = [] -> uset_buf p [] = p.
Proof. intros p H. rewrite <- H. apply uset_buf_same. Qed.

Definition suffix_of (b rest : bytes) : Prop := exists pre, b = pre ++ rest.

Lemma ucollect_strong : forall p b c, 0 < c -> zlen (up_buf p) < c ->
  (exists pre rest tmp, ucollect p b c = UC (uset_buf p []) rest (Some tmp) /\ b = pre ++ rest /\ pre <> []) \/
  (ucollect p b c = UC (uset_buf p (up_buf p ++ b)) [] None /\ zlen (up_buf p ++ b) < c).
Proof.
  intros p b c Hc Hbuf. unfold ucollect.
  pose proof (zlen_nonneg _ b) as Hbl.
  assert (Hsplit : forall k, 0 < k -> k <= zlen b -> b = uzfirstn k b ++ uzskipn k b /\ uzfirstn k b <> [] /\ zlen (uzfirstn k b) = k).
  { intros k Hk Hk2. unfold uzfirstn, uzskipn. split; [symmetry; apply firstn_skipn|].
    assert (Hl : length (firstn (Z.to_nat k) b) = Z.to_nat k) by (apply firstn_length_le; unfold zlen in Hk2; lia).
    split; [|unfold zlen; lia]. intro E. rewrite E in Hl. cbn [length] in Hl. lia. }
  destruct (zlen (up_buf p) >? 0) eqn:E0.
  - destruct (c - zlen (up_buf p) >? 0) eqn:E1; [|lia].
    destruct (c - zlen (up_buf p) >? zlen b) eqn:E2.
    + right. split; [reflexivity|]. rewrite zlen_app. lia.
    + destruct (Hsplit (c - zlen (up_buf p))) as (S1 & S2 & S3); [lia|lia|].
      cbn [up_buf uset_buf]. 
      assert (Hz : zlen (up_buf p ++ uzfirstn (c - zlen (up_buf p)) b) = c) by (rewrite zlen_app, S3; lia).
      rewrite Hz. replace (c >=? c) with true by lia. replace (c <? 0) with false by lia. rewrite Z.eqb_refl.
      left. eexists _, _, _. split; [|split; [exact S1|exact S2]]. destruct p; reflexivity.
  - assert (Hnil : up_buf p = []). { apply zlen_nil_iff. pose proof (zlen_nonneg _ (up_buf p)). lia. }
    replace (c <? 0) with false by lia.
    destruct (zlen b >=? c) eqn:E1.
    + destruct (Hsplit c) as (S1 & S2 & S3); [lia|lia|].
      left. eexists _, _, _. split; [|split; [exact S1|exact S2]]. rewrite (uset_buf_nil p Hnil). reflexivity.
    + right. split; [reflexivity|]. rewrite zlen_app. lia.
Qed.

Definition lenbm (mk : Z) (buf : bytes) : bool :=
  ((mk =? 0) || (mk =? mi) || (mk =? mU)) && (zlen buf =? 0)
  || (mk =? mI) && (zlen buf <? 2) || (mk =? ml) && (zlen buf <? 4) || (mk =? mL) && (zlen buf <? 8).

Definition len_out3 (p : uparser) (b : bytes) (cont : ustate) (p1 : uparser) (rest : bytes) : Prop :=
  (exists buf m, p1 = uset_marker (uset_buf p buf) m /\ rest = [] /\ lenbm m buf = true /\ m <> 0 /\ zlen buf <= zlen (up_buf p) + zlen b) \/
  (exists L pre, 0 <= L /\ p1 = ul_push (uset_cur (uset_marker (uset_buf p []) 0) cont) L /\ b = pre ++ rest /\ pre <> []).

Lemma ustep_len_strong : forall p b cont, b <> [] -> lenbm (up_marker p) (up_buf p) = true ->
  exists p1 rest err, ustep_len p b cont = UL p1 rest err /\ (unil err = true -> len_out3 p b cont p1 rest).
Proof.
  intros p b cont Hb Hbm.
  assert (Hfin : forall p0 pre rest L, p0 = uset_marker (uset_buf p []) (up_marker p0) -> b = pre ++ rest -> pre <> [] ->
     exists p1 rest1 err,
      (if L <? 0 then UL p0 [] ueNegativeLen else UL (ul_push (uset_cur (uset_marker p0 0) cont) L) rest unilE) = UL p1 rest1 err
      /\ (unil err = true -> len_out3 p b cont p1 rest1)).
  { intros p0 pre rest L Hp0 Hpre Hne. destruct (L <? 0) eqn:E.
    - eexists _, _, _. split; [reflexivity|]. intro H; discriminate H.
    - eexists _, _, _. split; [reflexivity|]. intros _. right. exists L, pre. split; [lia|]. split; [|split; assumption].
      rewrite Hp0. destruct p; reflexivity. }
  assert (Hgo : forall p0 pre0 b0, p0 = uset_marker p (up_marker p0) -> b = pre0 ++ b0 -> b0 <> [] ->
     lenbm (up_marker p0) (up_buf p) = true -> (up_marker p0 =? 0) = false ->
     exists p1 rest err,
     (let p := p0 in
      let m := up_marker p in
      let finish (p : uparser) (rest : bytes) (L : Z) : ulres :=
        if L <? 0 then UL p [] ueNegativeLen
        else UL (ul_push (uset_cur (uset_marker p 0) cont) L) rest unilE in
      let viacollect (k : Z) : ulres :=
        match ucollect p b0 k with
        | UCC => ULC 2
        | UC p1 rest None => UL p1 rest unilE
        | UC p1 rest (Some tmp) => finish p1 rest (wraps (8 * k) (be_dec tmp))
        end in
      if m =? mi then match b0 with [] => ULC 3 | x :: r => finish p r (wraps 8 x) end
      else if m =? mU then match b0 with [] => ULC 4 | x :: r => finish p r x end
      else if m =? mI then viacollect 2
      else if m =? ml then viacollect 4
      else if m =? mL then viacollect 8
      else UL p [] ueUnknownMarker) = UL p1 rest err /\ (unil err = true -> len_out3 p b cont p1 rest)).
  { intros p0 pre0 b0 Hp0 Hpre0 Hb0 Hlb Hm0. cbv zeta.
    assert (Hp0buf : up_buf p0 = up_buf p) by (rewrite Hp0; destruct p; reflexivity).
    assert (Hvc : forall k, 0 < k -> zlen (up_buf p) < k -> lenbm (up_marker p0) (up_buf p ++ b0) = true \/ k <= zlen (up_buf p ++ b0) -> exists p1 rest err,
      match ucollect p0 b0 k with
        | UCC => ULC 2
        | UC p1 rest None => UL p1 rest unilE
        | UC p1 rest (Some tmp) =>
           if wraps (8 * k) (be_dec tmp) <? 0 then UL p1 [] ueNegativeLen
           else UL (ul_push (uset_cur (uset_marker p1 0) cont) (wraps (8 * k) (be_dec tmp))) rest unilE
        end = UL p1 rest err /\ (unil err = true -> len_out3 p b cont p1 rest)).
    { intros k Hk Hbk Hlb2.
      destruct (ucollect_strong p0 b0 k Hk) as [(pre & rest & tmp & Hc & Hpre & Hne)|(Hc & Hlt)]; [rewrite Hp0buf; exact Hbk| |].
      - rewrite Hc. apply (Hfin _ (pre0 ++ pre) rest).
        + rewrite Hp0. destruct p; reflexivity.
        + rewrite Hpre0, Hpre, app_assoc. reflexivity.
        + intro E. apply app_eq_nil in E. destruct E as [_ E]. contradiction.
      - rewrite Hc. eexists _, _, _. split; [reflexivity|]. intros _. left. exists (up_buf p ++ b0), (up_marker p0).
        split; [rewrite Hp0buf, Hp0; destruct p; reflexivity|]. split; [reflexivity|].
        split; [|split; [intro E; rewrite E in Hm0; discriminate Hm0|]].
        { rewrite Hp0buf in Hlt. destruct Hlb2 as [Hlb2|Hlb2]; [exact Hlb2|lia]. }
        rewrite Hpre0, !zlen_app. pose proof (zlen_nonneg _ pre0). lia. }
    unfold lenbm in Hlb.
    destruct (up_marker p0 =? mi) eqn:Emi.
    { destruct b0 as [|x r]; [congruence|]. apply (Hfin _ (pre0 ++ [x]) r).
      - rewrite Hp0 at 1. assert (Hnil : up_buf p = []) by (apply zlen_nil_iff; unfold mi, mU, mI, ml, mL in *; lia).
        rewrite (uset_buf_nil p Hnil). reflexivity.
      - rewrite Hpre0, <- app_assoc. reflexivity.
      - intro E. apply app_eq_nil in E. destruct E as [_ E]. discriminate E. }
    destruct (up_marker p0 =? mU) eqn:EmU.
    { destruct b0 as [|x r]; [congruence|]. apply (Hfin _ (pre0 ++ [x]) r).
      - rewrite Hp0 at 1. assert (Hnil : up_buf p = []) by (apply zlen_nil_iff; unfold mi, mU, mI, ml, mL in *; lia).
        rewrite (uset_buf_nil p Hnil). reflexivity.
      - rewrite Hpre0, <- app_assoc. reflexivity.
      - intro E. apply app_eq_nil in E. destruct E as [_ E]. discriminate E. }
    pose proof (zlen_nonneg _ (up_buf p)) as Hnn.
    destruct (up_marker p0 =? mI) eqn:EmI.
    { apply Hvc; [lia|unfold mi, mU, mI, ml, mL in *; lia|].
      destruct (zlen (up_buf p ++ b0) <? 2) eqn:E2; [left|right; lia]. unfold lenbm. rewrite EmI, E2.
      cbn. rewrite !orb_true_r. reflexivity. }
    destruct (up_marker p0 =? ml) eqn:Eml.
    { apply Hvc; [lia|unfold mi, mU, mI, ml, mL in *; lia|].
      destruct (zlen (up_buf p ++ b0) <? 4) eqn:E2; [left|right; lia]. unfold lenbm. rewrite Eml, E2.
      cbn. rewrite !orb_true_r. reflexivity. }
    destruct (up_marker p0 =? mL) eqn:EmL.
    { apply Hvc; [lia|unfold mi, mU, mI, ml, mL in *; lia|].
      destruct (zlen (up_buf p ++ b0) <? 8) eqn:E2; [left|right; lia]. unfold lenbm. rewrite EmL, E2.
      cbn. rewrite !orb_true_r. reflexivity. }
    eexists _, _, _. split; [reflexivity|]. intro H; discriminate H. }
  unfold ustep_len.
  destruct (up_marker p =? 0) eqn:Em.
  - assert (Hbuf : up_buf p = []).
    { apply zlen_nil_iff. unfold lenbm in Hbm. unfold mi, mU, mI, ml, mL in *. lia. }
    destruct b as [|m r]; [congruence|].
    destruct (negb ((m =? mi) || (m =? mU) || (m =? mI) || (m =? ml) || (m =? mL))) eqn:Emm.
    { eexists _, _, _. split; [reflexivity|]. intro H; discriminate H. }
    apply negb_false_iff in Emm.
    assert (Hlm : lenbm m [] = true /\ m <> 0).
    { unfold lenbm. unfold mi, mU, mI, ml, mL in *. change (zlen (@nil Z)) with 0. split; lia. }
    destruct (zlen r =? 0) eqn:Er.
    { eexists _, _, _. split; [reflexivity|]. intros _. left. exists [], m.
      split; [rewrite (uset_buf_nil p Hbuf); reflexivity|]. split; [reflexivity|]. split; [apply Hlm|]. split; [apply Hlm|].
      change (zlen (@nil Z)) with 0. pose proof (zlen_nonneg _ (up_buf p)). pose proof (zlen_nonneg _ (m :: r)). lia. }
    apply (Hgo _ [m] r); [destruct p; reflexivity|reflexivity|intros ->; discriminate Er| |].
    + cbn [up_marker uset_marker]. rewrite Hbuf. apply Hlm.
    + cbn [up_marker uset_marker]. destruct Hlm as [_ Hlm]. apply Z.eqb_neq. exact Hlm.
  - apply (Hgo p [] b); [destruct p; reflexivity|reflexivity|exact Hb|exact Hbm|exact Em].
Qed.

(* ---------- the extra invariant ---------- *)
Fixpoint stk_ok (stk : list ustate) : bool :=
  match stk with
  | [] => false
  | x :: r => match r with [] => u_t x =? 1 | _ :: _ => negb (u_t x =? 1) && stk_ok r end
  end.
Definition chain_f (cur : ustate) (stk : list ustate) : bool :=
  if u_t cur =? 1 then match stk with [] => true | _ => false end
  else negb (u_t cur =? 0) && stk_ok stk.

Definition typed_states : list (Z * Z) :=
  [(8,14);(8,15);(8,13);(8,16);(12,14);(12,15);(12,13);(12,17);(12,18);(12,16)].
Definition Tz (st : ustate) : Z := if st_in st typed_states then 1 else 0.
Fixpoint tcount (stk : list ustate) : Z := match stk with [] => 0 | x :: r => Tz x + tcount r end.
Definition vdepth (vc : ustate) (vs : list ustate) : Z := if u_t vc =? 0 then 0 else 1 + zlen vs.
Definition nonfail (st : ustate) : bool := negb (u_t st =? 0).
Definition vbal_f (cur : ustate) (stk : list ustate) (vc : ustate) (vs : list ustate) : bool :=
  forallb nonfail vs && (nonfail vc || (zlen vs =? 0)) && (Tz cur + tcount stk =? vdepth vc vs).

Definition nzst (st : ustate) : bool := negb (is_zero_sized st).
Definition nz_f (cur vc : ustate) (vs : list ustate) : bool := nzst cur && nzst vc && forallb nzst vs.

Definition fixed_need (st : ustate) : Z :=
  let s := u_s st in
  if s =? 7 then 2 else if s =? 8 then 4 else if s =? 9 then 8 else if s =? 10 then 4
  else if s =? 11 then 8 else if s =? 12 then 1 else 0.
Definition lenreading (st : ustate) : bool :=
  st_in st [(3,0);(4,0);(7,0);(8,15);(12,15);(10,0);(11,0);(11,17);(12,17)].
Definition bm (st : ustate) (mk : Z) (buf : bytes) (lc : Z) : bool :=
  if lenreading st then
    lenbm mk buf && (if st_in st [(11,17);(12,17)] then (mk =? 0) || negb (lc =? 0) else true)
  else (mk =? 0) &&
       (if lenst st then (zlen buf =? 0) || (zlen buf <? lc)
        else if u_t st =? 2 then (zlen buf =? 0) || (zlen buf <? fixed_need st)
        else zlen buf =? 0).

Definition ext3b (p : uparser) : bool :=
  chain_f (up_cur p) (up_stack p) && vbal_f (up_cur p) (up_stack p) (up_vcur p) (up_vstack p) &&
  nz_f (up_cur p) (up_vcur p) (up_vstack p) && bm (up_cur p) (up_marker p) (up_buf p) (up_lcur p).

Lemma ext3_split : forall p, ext3b p = true ->
  chain_f (up_cur p) (up_stack p) = true /\ vbal_f (up_cur p) (up_stack p) (up_vcur p) (up_vstack p) = true /\
  nz_f (up_cur p) (up_vcur p) (up_vstack p) = true /\ bm (up_cur p) (up_marker p) (up_buf p) (up_lcur p) = true.
Proof.
  intros p H. unfold ext3b in H. apply andb_true_iff in H. destruct H as [H H4].
  apply andb_true_iff in H. destruct H as [H H3]. apply andb_true_iff in H. destruct H as [H1 H2]. auto.
Qed.
Lemma ext3_join : forall p,
  chain_f (up_cur p) (up_stack p) = true -> vbal_f (up_cur p) (up_stack p) (up_vcur p) (up_vstack p) = true ->
  nz_f (up_cur p) (up_vcur p) (up_vstack p) = true -> bm (up_cur p) (up_marker p) (up_buf p) (up_lcur p) = true ->
  ext3b p = true.
Proof. intros p H1 H2 H3 H4. unfold ext3b. rewrite H1, H2, H3, H4. reflexivity. Qed.

(* ---------- the potential ---------- *)
Definition wt (st : ustate) : Z :=
  if st_in st [(3,13);(4,13);(7,13);(7,16);(8,13);(8,16);(11,13);(11,17);(12,13);(12,17)] then 2
  else if st_in st [(5,0);(9,0);(10,18);(11,18)] then 1
  else if st_in st [(12,18)] then 4 else if st_in st [(12,16)] then 3 else 0.
Definition vt (st : ustate) : Z := if st_in st [(7,16);(8,16);(11,17);(12,17)] then 1 else 0.
Fixpoint sumv (stk : list ustate) : Z := match stk with [] => 0 | x :: r => vt x + sumv r end.
Definition phi (p : uparser) (n : Z) : Z := 4 * n + sumv (up_stack p) + wt (up_cur p).

Definition typed0 (st : ustate) : bool := st_in st [(8,0);(12,0)].

Lemma wt_bounds : forall st, 0 <= wt st <= 4.
Proof. intro st. unfold wt. repeat match goal with |- context[if ?c then _ else _] => destruct c end; lia. Qed.
Lemma vt_bounds : forall st, 0 <= vt st <= 1.
Proof. intro st. unfold vt. destruct (st_in st _); lia. Qed.
Lemma sumv_bounds : forall stk, 0 <= sumv stk <= zlen stk.
Proof.
  induction stk as [|x r IH]; cbn [sumv]. { unfold zlen; cbn; lia. }
  rewrite zlen_cons. pose proof (vt_bounds x). lia.
Qed.

Lemma bm_clean : forall st lc, bm st 0 [] lc = true.
Proof.
  intros st lc. unfold bm, lenbm. change (zlen (@nil Z)) with 0. cbn [Z.eqb andb orb Z.ltb Z.compare].
  destruct (lenreading st); [destruct (st_in st _); reflexivity|].
  destruct (lenst st); [reflexivity|]. destruct (u_t st =? 2); reflexivity.
Qed.

Lemma stack_state_facts : forall c, st_in c stack_states = true ->
  wt c <= vt c + 1 /\ nzst c = true /\ nonfail c = true /\ typed0 c = false /\ Tz c <= 1 /\ 0 <= Tz c.
Proof.
  intros [t s] H. apply st_in_In in H. cbn in H.
  repeat (destruct H as [H|H]; [injection H as <- <-; repeat split; try reflexivity; cbn; lia|]). contradiction.
Qed.

Lemma vstate_facts : forall c, st_in c vstates = true ->
  0 <= wt c <= 1 /\ Tz c = 0 /\ typed0 c = false /\ (u_t c =? 1) = false.
Proof.
  intros [t s] H. apply st_in_In in H. cbn in H.
  repeat (destruct H as [H|H]; [injection H as <- <-; repeat split; try reflexivity; cbn; lia|]). contradiction.
Qed.

Lemma tcount_nonneg : forall stk, 0 <= tcount stk.
Proof. induction stk as [|x r IH]; cbn [tcount]; [lia|]. unfold Tz. destruct (st_in x typed_states); lia. Qed.

Lemma stk_ok_cons : forall c r, stk_ok (c :: r) = true -> st_in c stack_states = true -> chain_f c r = true.
Proof.
  intros c r H Hc. destruct (stack_state_facts c Hc) as (_ & _ & Hnf & _).
  unfold chain_f. cbn [stk_ok] in H. destruct r as [|c' r'].
  - rewrite H. reflexivity.
  - apply andb_true_iff in H. destruct H as [H1 H2]. apply negb_true_iff in H1. rewrite H1.
    unfold nonfail in Hnf. rewrite Hnf, H2. reflexivity.
Qed.

Lemma ext3_upop_gen : forall p q, forallb (fun st => st_in st stack_states) (up_stack p) = true -> ext3b p = true -> (u_t (up_cur p) =? 1) = false ->
  up_cur q = up_cur p -> up_stack q = up_stack p -> up_marker q = 0 -> up_buf q = [] ->
  (Tz (up_cur p) = 0 /\ up_vcur q = up_vcur p /\ up_vstack q = up_vstack p \/
   Tz (up_cur p) = 1 /\ up_vcur q = up_vcur (v_pop p) /\ up_vstack q = up_vstack (v_pop p)) ->
  ext3b (u_pop q) = true /\ typed0 (up_cur (u_pop q)) = false /\
  (forall n, phi (u_pop q) n <= 4 * n + sumv (up_stack p) + 1).
Proof.
  intros p q I2 He Hn Hc Hs Hm Hb Hv.
  destruct (ext3_split _ He) as (E1 & E2 & E3 & E4).
  dp p. dp q. cbn [up_cur up_stack up_vcur up_vstack up_lcur up_marker up_buf] in *. subst.
  unfold chain_f in E1. rewrite Hn in E1. apply andb_true_iff in E1. destruct E1 as [E1a E1].
  destruct k as [|c1 r]; [discriminate E1|].
  cbn [forallb] in I2. apply andb_true_iff in I2. destruct I2 as [Ic Ir].
  destruct (stack_state_facts c1 Ic) as (F1 & F2 & F3 & F4 & F5 & F6).
  unfold u_pop. cbn [up_stack up_cur].
  split; [|split; [exact F4|]].
  2:{ intro n. unfold phi. cbn [up_stack up_cur sumv]. lia. }
  apply ext3_join; cbn [up_cur up_stack up_vcur up_vstack up_lcur up_marker up_buf].
  - apply stk_ok_cons; assumption.
  - unfold vbal_f in *. cbn [tcount] in E2.
    apply andb_true_iff in E2. destruct E2 as [E2 E2c]. apply andb_true_iff in E2. destruct E2 as [E2a E2b].
    destruct Hv as [(T0 & -> & ->)|(T1 & -> & ->)].
    + rewrite E2a, E2b. cbn [andb]. lia.
    + unfold v_pop. cbn [up_vstack]. destruct vs as [|v vs']; cbn [up_vcur up_vstack forallb].
      * unfold vdepth, nonfail in *. cbn [u_t mku]. change (tFail =? 0) with true. change (zlen (@nil ustate)) with 0 in *.
        pose proof (tcount_nonneg r).
        destruct (u_t vc =? 0); cbn [negb orb andb Z.eqb] in *; lia.
      * cbn [forallb] in E2a. apply andb_true_iff in E2a. destruct E2a as [Ev Evs]. rewrite Ev, Evs. cbn [andb orb].
        unfold vdepth, nonfail in *. rewrite zlen_cons in *. pose proof (zlen_nonneg _ vs').
        apply negb_true_iff in Ev. rewrite Ev.
        destruct (u_t vc =? 0); cbn [negb orb andb] in *; lia.
  - unfold nz_f in *. apply andb_true_iff in E3. destruct E3 as [E3 E3c]. apply andb_true_iff in E3. destruct E3 as [E3a E3b].
    rewrite F2. cbn [andb].
    destruct Hv as [(T0 & -> & ->)|(T1 & -> & ->)].
    + rewrite E3b, E3c. reflexivity.
    + unfold v_pop. cbn [up_vstack]. destruct vs as [|v vs']; cbn [up_vcur up_vstack forallb].
      * reflexivity.
      * exact E3c.
  - apply bm_clean.
Qed.

Definition pop_concl (p p' : uparser) : Prop :=
  ext3b p' = true /\ typed0 (up_cur p') = false /\ (forall n, phi p' n <= 4 * n + sumv (up_stack p) + 1).

Lemma ext3_upop : forall p, forallb (fun st => st_in st stack_states) (up_stack p) = true -> ext3b p = true -> (u_t (up_cur p) =? 1) = false ->
  up_marker p = 0 -> up_buf p = [] -> Tz (up_cur p) = 0 -> pop_concl p (u_pop p).
Proof. intros p Hi He Hn Hm Hb Ht. apply ext3_upop_gen; auto. Qed.

Lemma ext3_upop_len : forall p, forallb (fun st => st_in st stack_states) (up_stack p) = true -> ext3b p = true -> (u_t (up_cur p) =? 1) = false ->
  up_marker p = 0 -> up_buf p = [] -> Tz (up_cur p) = 0 -> pop_concl p (u_pop (ul_pop p)).
Proof.
  intros p Hi He Hn Hm Hb Ht. apply ext3_upop_gen; auto.
  - apply ulpop_cur. - apply ulpop_stack.
  - unfold ul_pop. destruct (up_lstack p); dp p; exact Hm.
  - unfold ul_pop. destruct (up_lstack p); dp p; exact Hb.
  - left. split; [exact Ht|]. split; [apply ulpop_vcur|apply ulpop_vstack].
Qed.

Lemma vpop_fields : forall p, up_cur (v_pop p) = up_cur p /\ up_stack (v_pop p) = up_stack p /\
  up_marker (v_pop p) = up_marker p /\ up_buf (v_pop p) = up_buf p.
Proof. intro p. unfold v_pop. destruct (up_vstack p); repeat split; reflexivity. Qed.

Lemma ext3_upop_len_v : forall p, forallb (fun st => st_in st stack_states) (up_stack p) = true -> ext3b p = true -> (u_t (up_cur p) =? 1) = false ->
  up_marker p = 0 -> up_buf p = [] -> Tz (up_cur p) = 1 -> pop_concl p (u_pop (ul_pop (v_pop p))).
Proof.
  intros p Hi He Hn Hm Hb Ht. destruct (vpop_fields p) as (V1 & V2 & V3 & V4).
  apply ext3_upop_gen; auto.
  - rewrite ulpop_cur. exact V1. - rewrite ulpop_stack. exact V2.
  - rewrite <- V3 in Hm. unfold ul_pop. destruct (up_lstack (v_pop p)); destruct (v_pop p); exact Hm.
  - rewrite <- V4 in Hb. unfold ul_pop. destruct (up_lstack (v_pop p)); destruct (v_pop p); exact Hb.
  - right. split; [exact Ht|]. split; [apply ulpop_vcur|apply ulpop_vstack].
Qed.

Lemma ext3_push : forall p st, ext3b p = true -> st_in (up_cur p) stack_states = true ->
  up_marker p = 0 -> up_buf p = [] -> st_in st vstates = true -> nonfail st = true -> nzst st = true ->
  ext3b (u_push p st) = true /\ typed0 st = false /\
  (forall n, phi (u_push p st) n <= 4 * n + sumv (up_stack p) + vt (up_cur p) + 1).
Proof.
  intros p st He Hc Hm Hb Hst Hnf Hnz.
  destruct (ext3_split _ He) as (E1 & E2 & E3 & E4).
  destruct (stack_state_facts _ Hc) as (F1 & F2 & F3 & F4 & F5 & F6).
  destruct (vstate_facts _ Hst) as (G1 & G2 & G3 & G4).
  dp p. cbn [up_cur up_stack up_vcur up_vstack up_lcur up_marker up_buf] in *. subst.
  unfold u_push. cbn [up_cur up_stack up_vcur up_vstack up_lcur up_marker up_buf].
  unfold nonfail in F3. apply negb_true_iff in F3. change (u_t c =? tFail) with (u_t c =? 0). rewrite F3.
  split; [|split; [exact G3|]].
  2:{ intro n. unfold phi. cbn [up_stack up_cur sumv]. lia. }
  apply ext3_join; cbn [up_cur up_stack up_vcur up_vstack up_lcur up_marker up_buf].
  - unfold chain_f in *. rewrite G4. unfold nonfail in Hnf. rewrite Hnf. cbn [andb stk_ok].
    destruct (u_t c =? 1).
    + destruct k; [reflexivity|discriminate E1].
    + rewrite F3 in E1. cbn [negb andb] in E1. destruct k; [discriminate E1|]. cbn [negb andb]. exact E1.
  - unfold vbal_f in *. cbn [tcount]. rewrite G2.
    apply andb_true_iff in E2. destruct E2 as [E2 E2c]. rewrite E2. cbn [andb]. lia.
  - unfold nz_f in *. apply andb_true_iff in E3. destruct E3 as [E3 E3c]. apply andb_true_iff in E3. destruct E3 as [E3a E3b].
    rewrite Hnz, E3b, E3c. reflexivity.
  - apply bm_clean.
Qed.

(* stepValue again, with the consumed byte *)
Lemma ustep_value_spec3 : forall p s x r,
  exists p1 s1 rest d err, ustep_value p s (x :: r) = UR p1 s1 rest d err /\
    (unil err = true -> rest = r /\
       (p1 = p \/ exists st, st_in st fresh_states = true /\ p1 = u_push p st /\ d = false)).
Proof.
  intros p s x r. unfold ustep_value.
  destruct (marker_state x) as [st|] eqn:Em.
  2:{ eexists _, _, _, _, _. split; [reflexivity|]. intro H; discriminate H. }
  assert (Hst : st_in st ((2,1) :: (2,2) :: (2,3) :: (2,4) :: fresh_states) = true).
  { unfold marker_state in Em.
    repeat match type of Em with (if ?c then _ else _) = _ => destruct c end;
    try discriminate Em; injection Em as <-; reflexivity. }
  destruct (u_s st =? sNil) eqn:E1.
  { destruct (uvis s (EVal SNil)) as [s1 e]. eexists _, _, _, _, _. split; [reflexivity|]. intros _. split; [reflexivity|left; reflexivity]. }
  destruct (u_s st =? sNoop) eqn:E2.
  { eexists _, _, _, _, _. split; [reflexivity|]. intros _. split; [reflexivity|left; reflexivity]. }
  destruct (u_s st =? sTrue) eqn:E3.
  { destruct (uvis s (EVal (SBool true))) as [s1 e]. eexists _, _, _, _, _. split; [reflexivity|]. intros _. split; [reflexivity|left; reflexivity]. }
  destruct (u_s st =? sFalse) eqn:E4.
  { destruct (uvis s (EVal (SBool false))) as [s1 e]. eexists _, _, _, _, _. split; [reflexivity|]. intros _. split; [reflexivity|left; reflexivity]. }
  eexists _, _, _, _, _. split; [reflexivity|]. intros _. split; [reflexivity|]. right. exists st. split; [|split; reflexivity].
  apply st_in_In in Hst. unfold sNil, sNoop, sTrue, sFalse in *.
  cbn [In fresh_states] in Hst.
  repeat (destruct Hst as [Hst|Hst]; [injection Hst as Ht Hs; destruct st as [t0 s0]; cbn [u_t u_s] in *; subst; try discriminate; reflexivity|]).
  contradiction.
Qed.

Lemma fresh_nz : forall st, st_in st fresh_states = true -> nonfail st = true /\ nzst st = true.
Proof.
  intros [t s] H. apply st_in_In in H. cbn in H.
  repeat (destruct H as [H|H]; [injection H as <- <-; split; reflexivity|]). contradiction.
Qed.

(* ---------- suffixes ---------- *)
Lemma sfx_refl : forall b : bytes, suffix_of b b. Proof. intro b; exists []; reflexivity. Qed.
Lemma sfx_tl : forall (x : Z) r, suffix_of (x :: r) r. Proof. intros x r; exists [x]; reflexivity. Qed.
Lemma sfx_nil : forall b : bytes, suffix_of b []. Proof. intro b; exists b; rewrite app_nil_r; reflexivity. Qed.
Lemma sfx_trans : forall a b c : bytes, suffix_of a b -> suffix_of b c -> suffix_of a c.
Proof. intros a b c [p1 ->] [p2 ->]. exists (p1 ++ p2). rewrite app_assoc. reflexivity. Qed.
Lemma sfx_len : forall b rest : bytes, suffix_of b rest -> zlen rest <= zlen b.
Proof. intros b rest [pre ->]. rewrite zlen_app. pose proof (zlen_nonneg _ pre). lia. Qed.

Lemma app_len_lt : forall pre rest : bytes, pre <> [] -> zlen rest < zlen (pre ++ rest).
Proof. intros [|x pre] rest H; [congruence|]. rewrite zlen_app, zlen_cons. pose proof (zlen_nonneg _ pre). lia. Qed.

Lemma ucollect_s3 : forall p b c, 0 < c -> zlen (up_buf p) < c ->
  (exists rest tmp, ucollect p b c = UC (uset_buf p []) rest (Some tmp) /\ suffix_of b rest /\ zlen rest < zlen b) \/
  (ucollect p b c = UC (uset_buf p (up_buf p ++ b)) [] None /\ zlen (up_buf p ++ b) < c).
Proof.
  intros p b c Hc Hb. destruct (ucollect_strong p b c Hc Hb) as [(pre & rest & tmp & E & -> & Hne)|H]; [left|right; exact H].
  exists rest, tmp. split; [exact E|]. split; [exists pre; reflexivity|apply app_len_lt; exact Hne].
Qed.

Definition len_out4 (p : uparser) (b : bytes) (cont : ustate) (p1 : uparser) (rest : bytes) : Prop :=
  (exists buf m, p1 = uset_marker (uset_buf p buf) m /\ rest = [] /\ lenbm m buf = true /\ m <> 0 /\ zlen buf <= zlen (up_buf p) + zlen b) \/
  (exists L, 0 <= L /\ p1 = ul_push (uset_cur (uset_marker (uset_buf p []) 0) cont) L /\ suffix_of b rest /\ zlen rest < zlen b).

Lemma ustep_len_s3 : forall p b cont, b <> [] -> lenbm (up_marker p) (up_buf p) = true ->
  exists p1 rest err, ustep_len p b cont = UL p1 rest err /\ (unil err = true -> len_out4 p b cont p1 rest).
Proof.
  intros p b cont Hb Hbm. destruct (ustep_len_strong p b cont Hb Hbm) as (p1 & rest & err & E & Ho).
  exists p1, rest, err. split; [exact E|]. intro Hu. destruct (Ho Hu) as [H|(L & pre & HL & -> & -> & Hne)]; [left; exact H|right].
  exists L. split; [exact HL|]. split; [reflexivity|]. split; [exists pre; reflexivity|apply app_len_lt; exact Hne].
Qed.

(* ---------- the guard, locally ---------- *)
Definition is_zt (y : Z) : bool := (y =? 90) || (y =? 84) || (y =? 70).
Definition headok (b : bytes) : bool := match b with y :: _ => negb (is_zt y) | [] => true end.

Lemma marker_state_nz : forall m st, marker_state m = Some st -> is_zt m = false -> (m =? mN) = false ->
  nzst st = true /\ nonfail st = true.
Proof.
  intros m st Em Hz Hn. unfold marker_state in Em. unfold is_zt in Hz.
  unfold mZ, mN, mT, mF, mi, mU, mI, ml, mL, md, mD, mH, mC, mS, mObjS, mArrS in *.
  repeat match type of Em with (if ?c then _ else _) = _ => destruct c eqn:? end;
    try discriminate Em; try lia; injection Em as <-; split; reflexivity.
Qed.

Definition post3 (p : uparser) (b : bytes) (r : ures) : Prop :=
  match r with
  | UCrash _ => False
  | UR p1 s1 rest d err => unil err = true ->
      ext3b p1 = true /\
      suffix_of b rest /\
      (typed0 (up_cur p1) = true -> exists pre', b = pre' ++ 36 :: rest) /\
      phi p1 (zlen rest) < phi p (zlen b) /\
      (d = true -> up_stack p1 = []) /\
      ((u_t (up_cur p) =? 1) = true -> zlen rest < zlen b)
  end.

Lemma post3_latch : forall p b r, post3 p b r -> post3 p b (latch r).
Proof.
  intros p b [p1 s rest d err|w] H; cbn [latch]; [|exact H].
  destruct (unil err) eqn:E; [exact H|]. cbn [post3]. intro H1. congruence.
Qed.
Lemma post3_nodone : forall p b r, post3 p b r -> post3 p b (value_nodone r).
Proof.
  intros p b [p1 s rest d err|w] H; [|exact H]. cbn [value_nodone post3] in *. intro Hu.
  destruct (H Hu) as (A & B & C & D & E & F). repeat split; try assumption. intro X; discriminate X.
Qed.

Lemma post3_mono : forall p p' b r, (forall n, phi p' n <= phi p n) -> (u_t (up_cur p) =? 1) = false ->
  post3 p' b r -> post3 p b r.
Proof.
  intros p p' b [p1 s rest d err|w] Hphi Hn H; [|exact H]. cbn [post3] in *. intro Hu.
  destruct (H Hu) as (A & B & C & D & E & F). repeat split; try assumption.
  - pose proof (Hphi (zlen b)). lia.
  - rewrite Hn. intro X; discriminate X.
Qed.

Lemma vdepth_pos : forall vc vs, 0 < vdepth vc vs -> nonfail vc = true.
Proof. intros vc vs H. unfold vdepth, nonfail in *. destruct (u_t vc =? 0); [lia|reflexivity]. Qed.

Opaque ustep_len ucollect ustep_value uvis wraps be_dec marker_state marker_btype.

Ltac norm3 := cbv [uset_buf uset_cur uset_marker uset_lcur uset_step uset_type uset_err ul_push v_push with_step mku];
  cbn -[Z.sub zlen u_push vdepth typed0 phi ext3b].

Ltac side3 := first
  [ discriminate | congruence | assumption
  | (cbn -[Z.sub zlen]; unfold lenbm, mi, mU, mI, ml, mL; change (zlen (@nil Z)) with 0; lia) ].

Ltac crunch3 :=
  repeat first
  [ progress norm3
  | match goal with
    | |- context[uvis ?s ?e] => destruct (uvis s e) as [? ?]
    | |- context[ustep_value ?p ?s (?x :: ?r)] =>
        let E := fresh "E" in let Ho := fresh "Ho" in let Hu := fresh "Hu" in
        let st := fresh "st" in let Hst := fresh "Hst" in let err := fresh "err" in
        destruct (ustep_value_spec3 p s x r) as (? & ? & ? & ? & err & E & Ho); rewrite E; clear E;
        destruct (unil err) eqn:Hu;
        [ specialize (Ho eq_refl); destruct Ho as [-> [->|(st & Hst & -> & ->)]] | clear Ho ]
    | |- context[ustep_len ?p ?b ?c] =>
        let E := fresh "E" in let Ho := fresh "Ho" in let Hu := fresh "Hu" in let err := fresh "err" in
        let HL := fresh "HL" in let Hs := fresh "Hsfx" in let Hz := fresh "Hzl" in let Hlb := fresh "Hlb" in let Hm := fresh "Hm" in let Hbl := fresh "Hbl" in
        destruct (ustep_len_s3 p b c) as (? & ? & err & E & Ho); [side3|side3|]; rewrite E; clear E;
        destruct (unil err) eqn:Hu;
        [ specialize (Ho eq_refl); destruct Ho as [(? & ? & -> & -> & Hlb & Hm & Hbl)|(? & HL & -> & Hs & Hz)]; [unfold lenbm, mi, mU, mI, ml, mL in Hlb; cbv [uset_buf uset_cur uset_marker uset_lcur uset_step uset_type uset_err ul_push v_push with_step mku] in Hbl; cbn [up_buf] in Hbl|] | clear Ho ]
    | |- context[ucollect ?p ?b ?c] =>
        let E := fresh "E" in let Hs := fresh "Hsfx" in let Hz := fresh "Hzl" in let Hlt := fresh "Hlt" in
        destruct (ucollect_s3 p b c) as [(? & ? & E & Hs & Hz)|(E & Hlt)]; [side3|side3| |]; rewrite E; clear E;
        try (cbv [uset_buf uset_cur uset_marker uset_lcur uset_step uset_type uset_err ul_push v_push with_step mku] in Hlt; cbn [up_buf app] in Hlt)
    | |- context[match marker_state ?m with _ => _ end] => destruct (marker_state m) eqn:?
    | |- context[if ?c then _ else _] => destruct c eqn:?
    end ].


Lemma ulpop_marker : forall p, up_marker (ul_pop p) = up_marker p.
Proof. intro p. unfold ul_pop. destruct (up_lstack p); reflexivity. Qed.
Lemma ulpop_buf : forall p, up_buf (ul_pop p) = up_buf p.
Proof. intro p. unfold ul_pop. destruct (up_lstack p); reflexivity. Qed.
Ltac flds := rewrite ?ulpop_cur, ?ulpop_stack, ?ulpop_vcur, ?ulpop_vstack, ?ulpop_marker, ?ulpop_buf;
  cbn [up_cur up_stack up_vcur up_vstack up_lcur up_marker up_buf].

Ltac ext3_plain E1 E2a E2b E2c E3b E3c :=
  apply ext3_join; flds;
  [ cbn -[zlen]; rewrite ?E1; reflexivity
  | unfold vbal_f; cbn -[zlen vdepth Z.add]; rewrite ?E2a, ?E2b; cbn [andb]; first [ assumption | lia ]
  | unfold nz_f; rewrite ?E3b, ?E3c; reflexivity
  | unfold bm; cbn -[zlen]; unfold lenbm, mi, mU, mI, ml, mL; change (zlen (@nil Z)) with 0; lia ].

Ltac side_mk := flds; first [ reflexivity | lia ].
Ltac side_buf := flds; first [ reflexivity | (apply zlen_nil_iff; lia) ].

Lemma upush_cur : forall p st, up_cur (u_push p st) = st.
Proof. reflexivity. Qed.

Ltac rest5 Q2 Q3 :=
  split; [ eauto using sfx_refl, sfx_tl, sfx_nil, sfx_trans
  | split; [ rewrite ?upush_cur;
             first [ rewrite Q2; (let X := fresh "X" in intro X; discriminate X)
                   | cbn; (let X := fresh "X" in intro X; discriminate X)
                   | (intros _; exists (@nil Z); cbn [app]; f_equal; unfold mType in *; lia) ]
  | split; [ try (match goal with |- phi ?A ?n < _ =>
                    let Q := fresh "Q" in pose proof (Q3 n) as Q;
                    revert Q; generalize (phi A n); intros ? Q;
                    cbn -[zlen Z.mul phi] in Q; change (zlen (@nil Z)) with 0 in Q end);
             unfold phi; rewrite ?ulpop_cur, ?ulpop_stack; cbn -[zlen Z.mul]; change (zlen (@nil Z)) with 0; lia
  | split; [ (let Hd := fresh "Hd" in intro Hd; first [ reflexivity | discriminate Hd | (apply zlen_nil_iff; exact Hd) ])
  | cbn -[zlen]; first [ (let X := fresh "X" in intro X; discriminate X) | (intros _; change (zlen (@nil Z)) with 0; lia) ] ] ] ] ].

Ltac push_leaf H4 E1 E2a E2b E2c E3b E3c :=
  let Q1 := fresh "Q" in let Q2 := fresh "Q" in let Q3 := fresh "Q" in
  match goal with
  | Hst : st_in ?st fresh_states = true |- ext3b (u_push ?P ?st) = true /\ _ =>
      destruct (ext3_push P st) as (Q1 & Q2 & Q3);
      [ ext3_plain E1 E2a E2b E2c E3b E3c | reflexivity | side_mk | side_buf
      | apply fresh_vstate; exact Hst | apply (fresh_nz _ Hst) | apply (fresh_nz _ Hst)
      | split; [exact Q1 | rest5 Q2 Q3 ] ]
  end.

Ltac pop_leaf H2 E1 E2a E2b E2c E3b E3c :=
  let Q1 := fresh "Q" in let Q2 := fresh "Q" in let Q3 := fresh "Q" in
  match goal with
  | |- ext3b (u_pop (ul_pop (v_pop ?P))) = true /\ _ =>
      destruct (ext3_upop_len_v P) as (Q1 & Q2 & Q3);
      [ flds; exact H2 | ext3_plain E1 E2a E2b E2c E3b E3c | reflexivity | side_mk | side_buf | reflexivity
      | split; [exact Q1 | rest5 Q2 Q3 ] ]
  | |- ext3b (u_pop (ul_pop ?P)) = true /\ _ =>
      destruct (ext3_upop_len P) as (Q1 & Q2 & Q3);
      [ flds; exact H2 | ext3_plain E1 E2a E2b E2c E3b E3c | reflexivity | side_mk | side_buf | reflexivity
      | split; [exact Q1 | rest5 Q2 Q3 ] ]
  | |- ext3b (u_pop ?P) = true /\ _ =>
      destruct (ext3_upop P) as (Q1 & Q2 & Q3);
      [ flds; exact H2 | ext3_plain E1 E2a E2b E2c E3b E3c | reflexivity | side_mk | side_buf | reflexivity
      | split; [exact Q1 | rest5 Q2 Q3 ] ]
  end.


Ltac push_vc_leaf H4 E1 E2a E2b E2c E3b E3c Hnf :=
  let Q1 := fresh "Q" in let Q2 := fresh "Q" in let Q3 := fresh "Q" in
  match goal with
  | |- ext3b (u_push ?P ?vc) = true /\ _ =>
      destruct (ext3_push P vc) as (Q1 & Q2 & Q3);
      [ ext3_plain E1 E2a E2b E2c E3b E3c | reflexivity | side_mk | side_buf
      | exact H4 | exact Hnf | exact E3b
      | split; [exact Q1 | rest5 Q2 Q3 ] ]
  end.


Ltac at_leaf Hrec Hr H2 H4 H5 V3 E1 E2a E2b E2c E3b E3c Hnf :=
  first
  [ (exfalso; unfold nzst in E3b; apply negb_true_iff in E3b; rewrite E3b in Hr; cbn in Hr; discriminate Hr)
  | (apply post3_nodone;
     match goal with |- post3 _ _ (_ (u_push ?P ?vc) _ _) =>
       let Q1 := fresh "Q" in let Q2 := fresh "Q" in let Q3 := fresh "Q" in
       destruct (ext3_push P vc) as (Q1 & Q2 & Q3);
       [ ext3_plain E1 E2a E2b E2c E3b E3c | reflexivity | side_mk | side_buf | exact H4 | exact Hnf | exact E3b | ];
       apply (post3_mono _ (u_push P vc));
       [ (let n := fresh "n" in intro n; specialize (Q3 n); revert Q3; generalize (phi (u_push P vc) n); intros ? Q3;
          cbn -[zlen Z.mul phi] in Q3; unfold phi; cbn -[zlen Z.mul]; lia)
       | reflexivity
       | apply Hrec;
         [ reflexivity
         | apply inv1b_push; [ inv_leaf H2 H4 H5 | reflexivity | exact H4 ]
         | exact Q1
         | rewrite upush_cur; exact V3
         | left; discriminate
         | rewrite upush_cur; exact Q2 ] ]
     end) ].


Ltac vpush_leaf Hh E1 E2a E2b E2c E3b E3c :=
  match goal with
  | Hm : marker_state ?x = Some ?u, Hn : (?x =? mN) = false, Hf : (u_t ?vc =? tFail) = _ |- _ =>
      let Hz := fresh "Hz" in let Unz := fresh "Unz" in let Unf := fresh "Unf" in
      assert (Hz : is_zt x = false) by (apply negb_true_iff; apply Hh; reflexivity);
      destruct (marker_state_nz x u Hm Hz Hn) as [Unz Unf];
      split;
      [ apply ext3_join; flds;
        [ cbn -[zlen]; rewrite ?E1; reflexivity
        | unfold vbal_f, vdepth, nonfail in *; cbn -[zlen Z.add]; unfold tFail in *;
          apply negb_true_iff in Unf; rewrite ?Unf; rewrite Hf in *; rewrite ?zlen_cons; cbn [forallb negb andb orb] in *;
          rewrite ?E2a; cbn [forallb negb andb orb]; lia
        | unfold nz_f; cbn [forallb]; rewrite ?Unz, ?E3b, ?E3c; reflexivity
        | unfold bm; cbn -[zlen]; unfold lenbm, mi, mU, mI, ml, mL; change (zlen (@nil Z)) with 0; lia ]
      | rest5 E1 E1 ]
  end.

Lemma ubody0_step3 : forall rec p s b, inv1b p = true -> ext3b p = true -> ready p b ->
  (typed0 (up_cur p) = true -> headok b = true) ->
  (u_t (up_cur p) = tArrayTyped -> forall p' s', inv1b p' = true -> ext3b p' = true -> u_t (up_cur p') <> tArrayTyped ->
      ready p' b -> typed0 (up_cur p') = false -> post3 p' b (rec p' s' b)) ->
  post3 p b (ubody0 rec p s b).
Proof.
  intros rec p s b Hi He Hr Hh Hrec.
  destruct (inv1b_split _ Hi) as (H1 & H2 & H3 & H4 & H5).
  destruct (ext3_split _ He) as (E1 & E2 & E3 & E4).
  destruct p as [[t st] stk vc vs lc ls buf mk vt er].
  cbn [up_cur up_stack up_vcur up_vstack up_lcur up_marker up_buf] in H1, H2, H3, H4, H5, E1, E2, E3, E4, Hh.
  destruct (vstate_cur _ H4) as (V1 & V2 & V3).
  unfold vbal_f in E2. apply andb_true_iff in E2. destruct E2 as [E2 E2c]. apply andb_true_iff in E2. destruct E2 as [E2a E2b].
  unfold nz_f in E3. apply andb_true_iff in E3. destruct E3 as [E3 E3c]. apply andb_true_iff in E3. destruct E3 as [E3a E3b].
  apply st_in_In in H1. cbn in H1.
  repeat (destruct H1 as [H1|H1]; [injection H1 as <- <-|]); try contradiction.
  all: try discriminate E1; try discriminate E3a.
  all: cbn -[zlen] in E1.
  all: try match type of E1 with (match ?l with [] => _ | _ => _ end) = true => destruct l; [|discriminate E1] end.
  all: cbn in H3; cbn -[zlen vdepth Z.add] in E2c; unfold bm in E4; cbn -[zlen] in E4; unfold lenbm, mi, mU, mI, ml, mL in E4; cbn in Hh.
  all: destruct b as [|x r]; [ destruct Hr as [Hr|Hr]; [congruence|]; try (discriminate Hr); cbn in Hr
                            | pose proof (zlen_cons _ x r) as Hzc; pose proof (zlen_nonneg _ r) as Hznn ].
  all: unfold ubody0.
  all: norm3.
  all: crunch3.
  all: try contradiction.
  all: try solve [exfalso; congruence].
  all: try (intro Hu'; try congruence; try (rewrite Hu' in *; discriminate)).
  all: clear Hi He.
  all: rewrite ?ulpop_cur, ?ulpop_stack, ?ulpop_vcur, ?ulpop_vstack, ?ulpop_marker, ?ulpop_buf; norm3.
  all: pose proof (zlen_nonneg _ buf) as Hbnn; pose proof (zlen_nonneg _ vs) as Hvnn; try (match type of E1 with stk_ok ?k = true => pose proof (tcount_nonneg k) as Htnn end).
  all: try solve [ split; [ ext3_plain E1 E2a E2b E2c E3b E3c | rest5 E1 E1 ] ].
  all: try solve [ pop_leaf H2 E1 E2a E2b E2c E3b E3c ].
  all: try solve [ push_leaf H4 E1 E2a E2b E2c E3b E3c ].
  all: try (assert (Hnf : nonfail vc = true) by (apply (vdepth_pos vc vs); lia)).
  all: try solve [ push_vc_leaf H4 E1 E2a E2b E2c E3b E3c Hnf ].
  3-6: at_leaf Hrec Hr H2 H4 H5 V3 E1 E2a E2b E2c E3b E3c Hnf.
  all: vpush_leaf Hh E1 E2a E2b E2c E3b E3c.
Qed.

Transparent ustep_len ucollect ustep_value uvis wraps be_dec marker_state marker_btype.


(* ---------- uexec_step ---------- *)
Lemma ubody_step3 : forall rec p s b, inv1b p = true -> ext3b p = true -> ready p b ->
  (typed0 (up_cur p) = true -> headok b = true) ->
  (u_t (up_cur p) = tArrayTyped -> forall p' s', inv1b p' = true -> ext3b p' = true -> u_t (up_cur p') <> tArrayTyped ->
      ready p' b -> typed0 (up_cur p') = false -> post3 p' b (rec p' s' b)) ->
  post3 p b (ubody rec p s b).
Proof. intros. unfold ubody. apply post3_latch. apply ubody0_step3; assumption. Qed.

Lemma uexec_step3 : forall p s b, inv1b p = true -> ext3b p = true -> ready p b ->
  (typed0 (up_cur p) = true -> headok b = true) -> post3 p b (uexec_step p s b).
Proof.
  intros p s b Hi He Hr Hh. unfold uexec_step. rewrite uexec_S. apply ubody_step3; try assumption.
  intros _ p' s' Hi' He' Ht' Hr' Hty'. rewrite uexec_S. apply ubody_step3; try assumption.
  - rewrite Hty'. intro X; discriminate X.
  - intro X; contradiction.
Qed.

(* ---------- the guard ---------- *)
Fixpoint no_zero_typed (l : bytes) : bool :=
  match l with
  | [] => true
  | x :: r => (negb (x =? 36) || headok r) && no_zero_typed r
  end.

Lemma nzt_app_r : forall a b, no_zero_typed (a ++ b) = true -> no_zero_typed b = true.
Proof.
  induction a as [|x a IH]; intros b H; [exact H|]. cbn [app no_zero_typed] in H.
  apply andb_true_iff in H. destruct H as [_ H]. apply IH. exact H.
Qed.
Lemma nzt_head : forall a b, no_zero_typed (a ++ 36 :: b) = true -> headok b = true.
Proof.
  intros a b H. apply nzt_app_r in H. cbn [no_zero_typed] in H. apply andb_true_iff in H. destruct H as [H _].
  cbn in H. exact H.
Qed.

Lemma typed0_no_step : forall p, typed0 (up_cur p) = true -> can_step_without_input p = false.
Proof.
  intros p H. dp p. destruct c as [t s]. cbn [up_cur] in H. apply st_in_In in H. cbn in H.
  destruct H as [H|[H|H]]; try contradiction; injection H as <- <-; reflexivity.
Qed.

Definition guard (p : uparser) (f : bytes) : Prop :=
  no_zero_typed f = true /\ (typed0 (up_cur p) = true -> headok f = true).

Lemma phi_fuel : forall p b, phi p (zlen b) < Z.of_nat (ufeed_fuel p b).
Proof.
  intros p b. unfold phi, ufeed_fuel. pose proof (sumv_bounds (up_stack p)). pose proof (wt_bounds (up_cur p)).
  unfold zlen in *. lia.
Qed.

Definition fu_ok (p : uparser) (b fut : bytes) (p1 : uparser) (rest : bytes) (d : bool) : Prop :=
  inv1b p1 = true /\ ext3b p1 = true /\ suffix_of b rest /\ guard p1 (rest ++ fut) /\
  (d = true -> up_stack p1 = []) /\ (d = false -> rest = []) /\
  ((u_t (up_cur p) =? 1) = true -> zlen rest < zlen b).

Lemma ufeed_until_total : forall fuel p s b fut, inv1b p = true -> ext3b p = true -> ready p b ->
  guard p (b ++ fut) -> phi p (zlen b) < Z.of_nat fuel ->
  exists p1 s1 rest d err, ufeed_until fuel p s b = Ok (UR p1 s1 rest d err) /\
    (unil err = true -> fu_ok p b fut p1 rest d).
Proof.
  induction fuel as [|f IH]; intros p s b fut Hi He Hr [Hg1 Hg2] Hf.
  { exfalso. unfold phi in Hf. pose proof (sumv_bounds (up_stack p)). pose proof (wt_bounds (up_cur p)).
    pose proof (zlen_nonneg _ b). lia. }
  cbn [ufeed_until].
  assert (Hh : typed0 (up_cur p) = true -> headok b = true).
  { intro Ht. specialize (Hg2 Ht). destruct Hr as [Hr|Hr].
    - destruct b; [congruence|exact Hg2].
    - rewrite (typed0_no_step p Ht) in Hr. discriminate Hr. }
  pose proof (uexec_step3 p s b Hi He Hr Hh) as H3.
  pose proof (uexec_step_safe1 p s b Hi Hr) as H1.
  destruct (uexec_step p s b) as [p1 s1 rest d err|w]; [|contradiction].
  cbn [post3 post1] in H3, H1.
  assert (Hok : unil err = true -> fu_ok p b fut p1 rest d -> fu_ok p b fut p1 rest d) by auto.
  assert (Hbase : unil err = true -> inv1b p1 = true /\ ext3b p1 = true /\ suffix_of b rest /\ guard p1 (rest ++ fut) /\
            (d = true -> up_stack p1 = []) /\ ((u_t (up_cur p) =? 1) = true -> zlen rest < zlen b) /\
            phi p1 (zlen rest) < phi p (zlen b)).
  { intro Hu. destruct (H3 Hu) as (A & B & C & D & E & F). specialize (H1 Hu).
    repeat split; try assumption.
    - destruct B as [pre ->]. rewrite <- app_assoc in Hg1. apply nzt_app_r in Hg1. exact Hg1.
    - intro Ht. destruct (C Ht) as [pre' ->]. rewrite <- app_assoc in Hg1. cbn [app] in Hg1.
      apply nzt_head in Hg1. exact Hg1. }
  destruct (d || negb (unil err)) eqn:E1.
  { eexists _, _, _, _, _. split; [reflexivity|]. intro Hu. rewrite Hu in E1. cbn in E1. rewrite orb_false_r in E1. subst d.
    destruct (Hbase Hu) as (A & B & C & D & E & F & G). unfold fu_ok. repeat (split; [assumption|]).
    split; [intro X; discriminate X|assumption]. }
  apply orb_false_iff in E1. destruct E1 as [Ed Eu]. apply negb_false_iff in Eu. subst d.
  destruct (Hbase Eu) as (A & B & C & D & E & F & G).
  destruct ((zlen rest =? 0) && negb (can_step_without_input p1)) eqn:E2.
  { eexists _, _, _, _, _. split; [reflexivity|]. intros _.
    unfold fu_ok. repeat (split; [assumption|]). split; [|assumption].
    intros _. apply andb_true_iff in E2. destruct E2 as [E2 _]. apply zlen_nil_iff. exact E2. }
  assert (Hr1 : ready p1 rest).
  { apply andb_false_iff in E2. destruct E2 as [E2|E2].
    - left. intros ->. discriminate E2.
    - right. apply negb_false_iff in E2. exact E2. }
  destruct (IH p1 s1 rest fut A B Hr1 D) as (p2 & s2 & rest2 & d2 & err2 & Eq & Hfin); [lia|].
  exists p2, s2, rest2, d2, err2. split; [exact Eq|]. intro Hu2.
  destruct (Hfin Hu2) as (A2 & B2 & C2 & D2 & E2' & F2 & G2).
  unfold fu_ok. split; [assumption|]. split; [assumption|]. split; [eapply sfx_trans; eassumption|].
  split; [assumption|]. split; [assumption|]. split; [assumption|].
  intro Hn. specialize (F Hn). pose proof (sfx_len _ _ C2). lia.
Qed.

Lemma chain_nil_next : forall p, ext3b p = true -> up_stack p = [] -> (u_t (up_cur p) =? 1) = true.
Proof.
  intros p He Hs. destruct (ext3_split _ He) as (E1 & _). rewrite Hs in E1. unfold chain_f in E1.
  destruct (u_t (up_cur p) =? 1); [reflexivity|]. rewrite andb_false_r in E1. discriminate E1.
Qed.

Definition f_ok (fut : bytes) (p1 : uparser) : Prop := inv1b p1 = true /\ ext3b p1 = true /\ guard p1 fut.

Lemma ufeed_total : forall fuel p s b fut, inv1b p = true -> ext3b p = true -> guard p (b ++ fut) ->
  2 * zlen b + (if u_t (up_cur p) =? 1 then 0 else 1) + 1 <= Z.of_nat fuel ->
  exists p1 s1 err, ufeed fuel p s b = Ok (p1, s1, err) /\ (unil err = true -> f_ok fut p1).
Proof.
  induction fuel as [|f IH]; intros p s b fut Hi He Hg Hf.
  { exfalso. pose proof (zlen_nonneg _ b). destruct (u_t (up_cur p) =? 1); lia. }
  cbn [ufeed]. destruct (zlen b >? 0) eqn:Eb.
  2:{ assert (b = []) by (apply zlen_nil_iff; pose proof (zlen_nonneg _ b); lia). subst b.
      eexists _, _, _. split; [reflexivity|]. intros _. repeat split; assumption || apply Hg. }
  assert (Hr : ready p b). { left. intros ->. discriminate Eb. }
  destruct (ufeed_until_total (ufeed_fuel p b) p s b fut Hi He Hr Hg (phi_fuel p b))
    as (p1 & s1 & rest & d & err & E & Hfin).
  rewrite E. destruct (unil err) eqn:Eu.
  2:{ eexists _, _, _. split; [reflexivity|]. intro X. congruence. }
  destruct (Hfin eq_refl) as (A & B & C & D & E1 & E2 & E3).
  destruct d.
  - specialize (E1 eq_refl). pose proof (chain_nil_next p1 B E1) as Hn1.
    apply IH; try assumption. rewrite Hn1. pose proof (sfx_len _ _ C).
    destruct (u_t (up_cur p) =? 1); [specialize (E3 eq_refl)|]; lia.
  - specialize (E2 eq_refl). subst rest.
    apply IH; try assumption. change (zlen (@nil Z)) with 0. destruct (u_t (up_cur p1) =? 1); destruct (u_t (up_cur p) =? 1); lia.
Qed.

Lemma ext3b_set_err : forall p e, ext3b (uset_err p e) = ext3b p.
Proof. intros p e. dp p. reflexivity. Qed.

Lemma ufeed_fuel_ok : forall p (b : bytes),
  2 * zlen b + (if u_t (up_cur p) =? 1 then 0 else 1) + 1 <= Z.of_nat (2 * length b + 2).
Proof. intros p b. unfold zlen. destruct (u_t (up_cur p) =? 1); lia. Qed.

Lemma up_write_total : forall p s b fut, inv1b p = true -> ext3b p = true -> guard p (b ++ fut) ->
  exists p1 s1 err, up_write p s b = Ok (p1, s1, err) /\ (unil err = true -> f_ok fut p1).
Proof.
  intros p s b fut Hi He Hg. unfold up_write.
  destruct (ufeed_total (2 * length b + 2) p s b fut Hi He Hg (ufeed_fuel_ok p b)) as (p1 & s1 & err & E & Hfin).
  rewrite E. destruct (unil err) eqn:Eu.
  - eexists _, _, _. split; [reflexivity|]. intros _. destruct (Hfin eq_refl) as (A & B & C).
    unfold f_ok. rewrite inv1b_set_err, ext3b_set_err. repeat split; try assumption; dp p1; apply C.
  - eexists _, _, _. split; [reflexivity|]. intro X. congruence.
Qed.

Lemma up_writes_total : forall chunks p s, inv1b p = true -> ext3b p = true -> guard p (concat chunks) ->
  exists p1 s1 err, up_writes p s chunks = Ok (p1, s1, err).
Proof.
  induction chunks as [|c r IH]; intros p s Hi He Hg; cbn [up_writes].
  - destruct (ufin p s) as [[p1 s1] e]. eexists _, _, _. reflexivity.
  - cbn [concat] in Hg. destruct (up_write_total p s c (concat r) Hi He Hg) as (p1 & s1 & err & E & Hfin).
    rewrite E. destruct (unil err) eqn:Eu.
    + destruct (Hfin eq_refl) as (A & B & C). apply IH; assumption.
    + eexists _, _, _. reflexivity.
Qed.

Lemma ext3b_init : ext3b uparser0 = true.
Proof. reflexivity. Qed.

Lemma guard_init : forall f, no_zero_typed f = true -> guard uparser0 f.
Proof. intros f H. split; [exact H|]. intro X; discriminate X. Qed.

Theorem C03_ubj_chunks_total : forall vfail chunks, forallb all_bytes chunks = true ->
  no_zero_typed (concat chunks) = true ->
  exists evs e p, urun_chunks vfail chunks = Ok (evs, e, p).
Proof.
  intros vfail chunks _ Hg. unfold urun_chunks.
  destruct (up_writes_total chunks uparser0 (sink0 vfail) inv1b_init ext3b_init (guard_init _ Hg)) as (p1 & s1 & err & E).
  rewrite E. eexists _, _, _. reflexivity.
Qed.

Theorem C03_ubj_parse_total : forall vfail b, all_bytes b = true -> no_zero_typed b = true ->
  exists evs e p, urun_parse vfail b = Ok (evs, e, p).
Proof.
  intros vfail b _ Hg. unfold urun_parse, up_parse.
  assert (Hg' : guard uparser0 (b ++ [])) by (rewrite app_nil_r; apply guard_init; exact Hg).
  destruct (ufeed_total (2 * length b + 2) uparser0 (sink0 vfail) b [] inv1b_init ext3b_init Hg' (ufeed_fuel_ok uparser0 b))
    as (p1 & s1 & err & E & _).
  rewrite E. destruct (unil err).
  - destruct (ufin p1 s1) as [[p2 s2] e2]. eexists _, _, _. reflexivity.
  - eexists _, _, _. reflexivity.
Qed.
Print Assumptions C03_ubj_chunks_total.
Print Assumptions C03_ubj_parse_total.

(* ================================================================== *)
(* Space: the retained state is linear in the bytes consumed            *)
(* ================================================================== *)
Definition bmb (p : uparser) : bool := bm (up_cur p) (up_marker p) (up_buf p) (up_lcur p).
Definition wsp (st : ustate) : Z := if st_in st [(8,13);(8,16);(12,18);(12,16)] then 1 else 0.
Definition sp (p : uparser) : Z :=
  zlen (up_stack p) + wsp (up_cur p) + zlen (up_lstack p) + zlen (up_buf p) + zlen (up_vstack p).

Definition post2 (p : uparser) (b : bytes) (r : ures) : Prop :=
  match r with
  | UCrash _ => False
  | UR p1 _ rest _ err => unil err = true -> bmb p1 = true /\ sp p1 + 3 * zlen rest <= sp p + 3 * zlen b
  end.

Lemma post2_latch : forall p b r, post2 p b r -> post2 p b (latch r).
Proof.
  intros p b [p1 s rest d err|w] H; cbn [latch]; [|exact H].
  destruct (unil err) eqn:E; [exact H|]. cbn [post2]. intro H1. congruence.
Qed.
Lemma post2_nodone : forall p b r, post2 p b r -> post2 p b (value_nodone r).
Proof. intros p b [p1 s rest d err|w] H; exact H. Qed.
Lemma post2_mono : forall p p' b r, sp p' <= sp p -> post2 p' b r -> post2 p b r.
Proof.
  intros p p' b [p1 s rest d err|w] Hs H; [|exact H]. cbn [post2] in *. intro Hu.
  destruct (H Hu) as [A B]. split; [exact A|lia].
Qed.

Lemma wsp_bounds : forall st, 0 <= wsp st <= 1.
Proof. intro st. unfold wsp. destruct (st_in st _); lia. Qed.
Lemma vstate_wsp : forall st, st_in st vstates = true -> wsp st = 0.
Proof.
  intros [t s] H. apply st_in_In in H. cbn in H.
  repeat (destruct H as [H|H]; [injection H as <- <-; reflexivity|]). contradiction.
Qed.

Lemma pop2_a : forall p, up_marker p = 0 -> up_buf p = [] ->
  bmb (u_pop p) = true /\ sp (u_pop p) <= zlen (up_stack p) + zlen (up_lstack p) + zlen (up_vstack p).
Proof.
  intros p Hm Hb. dp p. cbn [up_marker up_buf] in *. subst. unfold u_pop. cbn [up_stack].
  destruct k as [|c1 r]; unfold bmb, sp; cbn [up_cur up_stack up_lstack up_buf up_vstack up_marker up_lcur uset_cur].
  - split; [apply bm_clean|]. change (wsp (mku tFail sStart)) with 0. change (zlen (@nil Z)) with 0. lia.
  - split; [apply bm_clean|]. rewrite zlen_cons. pose proof (wsp_bounds c1). change (zlen (@nil Z)) with 0. lia.
Qed.

Lemma ulpop_len : forall p, zlen (up_lstack (ul_pop p)) <= zlen (up_lstack p).
Proof. intro p. unfold ul_pop. destruct (up_lstack p) as [|l r] eqn:E; dp p; cbn [up_lstack uset_lcur] in *; subst; [lia|rewrite zlen_cons; lia]. Qed.
Lemma vpop_len : forall p, zlen (up_vstack (v_pop p)) <= zlen (up_vstack p).
Proof. intro p. unfold v_pop. destruct (up_vstack p) as [|l r] eqn:E; cbn [up_vstack]; [unfold zlen; cbn; lia|rewrite zlen_cons; lia]. Qed.
Lemma vpop_lstack : forall p, up_lstack (v_pop p) = up_lstack p.
Proof. intro p. unfold v_pop. destruct (up_vstack p); reflexivity. Qed.

Lemma pop2_b : forall p, up_marker p = 0 -> up_buf p = [] ->
  bmb (u_pop (ul_pop p)) = true /\ sp (u_pop (ul_pop p)) <= zlen (up_stack p) + zlen (up_lstack p) + zlen (up_vstack p).
Proof.
  intros p Hm Hb. destruct (pop2_a (ul_pop p)) as [A B]; [rewrite ulpop_marker; exact Hm|rewrite ulpop_buf; exact Hb|].
  split; [exact A|]. rewrite ulpop_stack, ulpop_vstack in B. pose proof (ulpop_len p). lia.
Qed.

Lemma pop2_c : forall p, up_marker p = 0 -> up_buf p = [] ->
  bmb (u_pop (ul_pop (v_pop p))) = true /\
  sp (u_pop (ul_pop (v_pop p))) <= zlen (up_stack p) + zlen (up_lstack p) + zlen (up_vstack p).
Proof.
  intros p Hm Hb. destruct (vpop_fields p) as (V1 & V2 & V3 & V4).
  destruct (pop2_b (v_pop p)) as [A B]; [rewrite V3; exact Hm|rewrite V4; exact Hb|].
  split; [exact A|]. rewrite V2, vpop_lstack in B. pose proof (vpop_len p). lia.
Qed.

Opaque ustep_len ucollect ustep_value uvis wraps be_dec marker_state marker_btype.

Ltac norm2 := cbv [uset_buf uset_cur uset_marker uset_lcur uset_step uset_type uset_err ul_push v_push with_step mku];
  cbn -[Z.sub zlen sp bmb Z.mul Z.add].

Ltac crunch2 :=
  repeat first
  [ progress norm2
  | match goal with
    | |- context[uvis ?s ?e] => destruct (uvis s e) as [? ?]
    | |- context[ustep_value ?p ?s (?x :: ?r)] =>
        let E := fresh "E" in let Ho := fresh "Ho" in let Hu := fresh "Hu" in
        let st := fresh "st" in let Hst := fresh "Hst" in let err := fresh "err" in
        destruct (ustep_value_spec3 p s x r) as (? & ? & ? & ? & err & E & Ho); rewrite E; clear E;
        destruct (unil err) eqn:Hu;
        [ specialize (Ho eq_refl); destruct Ho as [-> [->|(st & Hst & -> & ->)]] | clear Ho ]
    | |- context[ustep_len ?p ?b ?c] =>
        let E := fresh "E" in let Ho := fresh "Ho" in let Hu := fresh "Hu" in let err := fresh "err" in
        let HL := fresh "HL" in let Hs := fresh "Hsfx" in let Hz := fresh "Hzl" in let Hlb := fresh "Hlb" in let Hm := fresh "Hm" in let Hbl := fresh "Hbl" in
        destruct (ustep_len_s3 p b c) as (? & ? & err & E & Ho); [side3|side3|]; rewrite E; clear E;
        destruct (unil err) eqn:Hu;
        [ specialize (Ho eq_refl); destruct Ho as [(? & ? & -> & -> & Hlb & Hm & Hbl)|(? & HL & -> & Hs & Hz)]; [unfold lenbm, mi, mU, mI, ml, mL in Hlb; cbv [uset_buf uset_cur uset_marker uset_lcur uset_step uset_type uset_err ul_push v_push with_step mku] in Hbl; cbn [up_buf] in Hbl|] | clear Ho ]
    | |- context[ucollect ?p ?b ?c] =>
        let E := fresh "E" in let Hs := fresh "Hsfx" in let Hz := fresh "Hzl" in let Hlt := fresh "Hlt" in
        destruct (ucollect_s3 p b c) as [(? & ? & E & Hs & Hz)|(E & Hlt)]; [side3|side3| |]; rewrite E; clear E;
        try (cbv [uset_buf uset_cur uset_marker uset_lcur uset_step uset_type uset_err ul_push v_push with_step mku] in Hlt; cbn [up_buf app] in Hlt)
    | |- context[match marker_state ?m with _ => _ end] => destruct (marker_state m) eqn:?
    | |- context[if ?c then _ else _] => destruct c eqn:?
    end ].

Ltac bm_leaf :=
  unfold bmb; flds;
  first [ apply bm_clean
        | (unfold bm; cbn -[zlen]; unfold lenbm, mi, mU, mI, ml, mL; change (zlen (@nil Z)) with 0; lia) ].

Ltac sp_norm := unfold sp; flds; cbn -[zlen Z.mul Z.add]; rewrite ?zlen_app, ?zlen_cons; change (zlen (@nil Z)) with 0;
  change (zlen (@nil ustate)) with 0.

Ltac plain2 := split; [ bm_leaf
  | try (match goal with |- context[up_lstack (ul_pop ?P)] =>
           let Hul := fresh "Hul" in pose proof (ulpop_len P) as Hul; cbn [up_lstack] in Hul end);
    sp_norm; lia ].

Ltac pop2_leaf :=
  let Q1 := fresh "Q" in let Q2 := fresh "Q" in
  match goal with
  | |- bmb (u_pop (ul_pop (v_pop ?P))) = true /\ _ => destruct (pop2_c P) as (Q1 & Q2); [ side_mk | side_buf | ]
  | |- bmb (u_pop (ul_pop ?P)) = true /\ _ => destruct (pop2_b P) as (Q1 & Q2); [ side_mk | side_buf | ]
  | |- bmb (u_pop ?P) = true /\ _ => destruct (pop2_a P) as (Q1 & Q2); [ side_mk | side_buf | ]
  end;
  split; [ exact Q1 | ];
  match goal with |- sp ?A + _ <= _ => revert Q2; generalize (sp A); intros ? Q2 end;
  cbn [up_stack up_lstack up_vstack] in Q2; rewrite ?zlen_cons in Q2; sp_norm; lia.


Lemma upush_sp : forall p st, u_t (up_cur p) <> tFail -> wsp st = 0 ->
  sp (u_push p st) = sp p - wsp (up_cur p) + 1.
Proof.
  intros p st Hc Hw. dp p. unfold u_push, sp. cbn [up_cur up_stack up_lstack up_buf up_vstack].
  destruct (u_t c =? tFail) eqn:E; [apply Z.eqb_eq in E; cbn [up_cur] in Hc; contradiction|].
  rewrite zlen_cons, Hw. lia.
Qed.

Ltac push2_leaf :=
  match goal with
  | |- bmb (u_push ?P ?st) = true /\ _ =>
      split; [ unfold bmb, u_push; flds; apply bm_clean
             | rewrite (upush_sp P st); [ sp_norm; lia | (flds; cbn; discriminate)
               | first [ assumption | (apply vstate_wsp; apply fresh_vstate; assumption) ] ] ]
  end.


Ltac at2_leaf Hrec Hr H2 H4 H5 V3 V4 :=
  apply post2_nodone;
  match goal with |- post2 _ _ (_ (u_push ?P ?vc) _ _) =>
    apply (post2_mono _ (u_push P vc));
    [ rewrite (upush_sp P vc); [ sp_norm; lia | (flds; cbn; discriminate) | exact V4 ]
    | apply Hrec;
      [ reflexivity
      | apply inv1b_push; [ inv_leaf H2 H4 H5 | reflexivity | exact H4 ]
      | unfold bmb, u_push; flds; apply bm_clean
      | rewrite upush_cur; exact V3
      | first [ (left; discriminate)
              | (right; apply zero_sized_can_step; rewrite upush_cur;
                 repeat match goal with H : (_ =? 0) = false |- _ => rewrite H in Hr end; exact Hr) ] ] ]
  end.

Lemma ubody0_step2 : forall rec p s b, inv1b p = true -> bmb p = true -> ready p b ->
  (u_t (up_cur p) = tArrayTyped -> forall p' s', inv1b p' = true -> bmb p' = true -> u_t (up_cur p') <> tArrayTyped ->
      ready p' b -> post2 p' b (rec p' s' b)) ->
  post2 p b (ubody0 rec p s b).
Proof.
  intros rec p s b Hi E4 Hr Hrec.
  destruct (inv1b_split _ Hi) as (H1 & H2 & H3 & H4 & H5).
  destruct p as [[t st] stk vc vs lc ls buf mk vt er].
  unfold bmb in E4.
  cbn [up_cur up_stack up_vcur up_vstack up_lcur up_marker up_buf] in H1, H2, H3, H4, H5, E4.
  destruct (vstate_cur _ H4) as (V1 & V2 & V3). pose proof (vstate_wsp _ H4) as V4.
  apply st_in_In in H1. cbn in H1.
  repeat (destruct H1 as [H1|H1]; [injection H1 as <- <-|]); try contradiction.
  all: cbn in H3; unfold bm in E4; cbn -[zlen] in E4; unfold lenbm, mi, mU, mI, ml, mL in E4.
  all: pose proof (zlen_nonneg _ buf) as Hbnn.
  all: try (assert (mk = 0) by lia; subst mk).
  all: try (assert (buf = []) by (apply zlen_nil_iff; lia); subst buf).
  all: destruct b as [|x r]; [ destruct Hr as [Hr|Hr]; [congruence|]; try (discriminate Hr); cbn in Hr
                            | pose proof (zlen_cons _ x r) as Hzc; pose proof (zlen_nonneg _ r) as Hznn ].
  all: unfold ubody0.
  all: norm2.
  all: crunch2.
  all: try contradiction.
  all: try solve [exfalso; congruence].
  all: try (intro Hu'; try congruence; try (rewrite Hu' in *; discriminate)).
  all: clear Hi.
  all: rewrite ?ulpop_cur, ?ulpop_stack, ?ulpop_vcur, ?ulpop_vstack, ?ulpop_marker, ?ulpop_buf; norm2.
  all: try solve [ plain2 ].
  all: try solve [ pop2_leaf ].
  all: try solve [ push2_leaf ].
  all: at2_leaf Hrec Hr H2 H4 H5 V3 V4.
Qed.

Transparent ustep_len ucollect ustep_value uvis wraps be_dec marker_state marker_btype.


Lemma ubody_step2 : forall rec p s b, inv1b p = true -> bmb p = true -> ready p b ->
  (u_t (up_cur p) = tArrayTyped -> forall p' s', inv1b p' = true -> bmb p' = true -> u_t (up_cur p') <> tArrayTyped ->
      ready p' b -> post2 p' b (rec p' s' b)) ->
  post2 p b (ubody rec p s b).
Proof. intros. unfold ubody. apply post2_latch. apply ubody0_step2; assumption. Qed.

Lemma uexec_step2 : forall p s b, inv1b p = true -> bmb p = true -> ready p b -> post2 p b (uexec_step p s b).
Proof.
  intros p s b Hi He Hr. unfold uexec_step. rewrite uexec_S. apply ubody_step2; try assumption.
  intros _ p' s' Hi' He' Ht' Hr'. rewrite uexec_S. apply ubody_step2; try assumption.
  intro X; contradiction.
Qed.

Definition sp_fu (p : uparser) (b : bytes) (r : res ures) : Prop :=
  match r with
  | Ok (UR p1 _ rest _ err) => unil err = true ->
      inv1b p1 = true /\ bmb p1 = true /\ sp p1 + 3 * zlen rest <= sp p + 3 * zlen b
  | _ => True
  end.

Lemma ufeed_until_space : forall fuel p s b, inv1b p = true -> bmb p = true -> ready p b ->
  sp_fu p b (ufeed_until fuel p s b).
Proof.
  induction fuel as [|f IH]; intros p s b Hi He Hr; cbn [ufeed_until]; [exact I|].
  pose proof (uexec_step2 p s b Hi He Hr) as H2.
  pose proof (uexec_step_safe1 p s b Hi Hr) as H1.
  destruct (uexec_step p s b) as [p1 s1 rest d err|w]; [|contradiction]. cbn [post1 post2] in H1, H2.
  destruct (d || negb (unil err)) eqn:E1.
  { cbn [sp_fu]. intro Hu. destruct (H2 Hu) as [A B]. auto. }
  apply orb_false_iff in E1. destruct E1 as [_ E1]. apply negb_false_iff in E1.
  destruct (H2 E1) as [A B]. specialize (H1 E1).
  destruct ((zlen rest =? 0) && negb (can_step_without_input p1)) eqn:E2.
  { cbn [sp_fu]. intros _. auto. }
  assert (Hr1 : ready p1 rest).
  { apply andb_false_iff in E2. destruct E2 as [E2|E2].
    - left. intros ->. discriminate E2.
    - right. apply negb_false_iff in E2. exact E2. }
  pose proof (IH p1 s1 rest H1 A Hr1) as H.
  destruct (ufeed_until f p1 s1 rest) as [[p2 s2 rest2 d2 err2|w]|e|w|]; cbn [sp_fu] in *; try exact I.
  intro Hu. destruct (H Hu) as (X & Y & Z). repeat split; try assumption. lia.
Qed.

Definition sp_f (p : uparser) (b : bytes) (r : res (uparser * sink * Z)) : Prop :=
  match r with
  | Ok (p1, _, err) => unil err = true -> inv1b p1 = true /\ bmb p1 = true /\ sp p1 <= sp p + 3 * zlen b
  | _ => True
  end.

Lemma ufeed_space : forall fuel p s b, inv1b p = true -> bmb p = true -> sp_f p b (ufeed fuel p s b).
Proof.
  induction fuel as [|f IH]; intros p s b Hi He; cbn [ufeed]; [exact I|].
  destruct (zlen b >? 0) eqn:Eb.
  2:{ cbn [sp_f]. intros _. pose proof (zlen_nonneg _ b). repeat split; try assumption. lia. }
  assert (Hr : ready p b). { left. intros ->. discriminate Eb. }
  pose proof (ufeed_until_space (ufeed_fuel p b) p s b Hi He Hr) as H.
  destruct (ufeed_until (ufeed_fuel p b) p s b) as [[p1 s1 rest d err|w]|e|w|]; cbn [sp_fu] in H; try exact I.
  destruct (unil err) eqn:E.
  - destruct (H eq_refl) as (A & B & C). pose proof (IH p1 s1 rest A B) as H'.
    destruct (ufeed f p1 s1 rest) as [[[p2 s2] err2]|e|w|]; cbn [sp_f] in *; try exact I.
    intro Hu. destruct (H' Hu) as (X & Y & Z). repeat split; try assumption. lia.
  - cbn [sp_f]. intro X. congruence.
Qed.

Lemma sp_set_err : forall p e, sp (uset_err p e) = sp p /\ bmb (uset_err p e) = bmb p.
Proof. intros p e. dp p. split; reflexivity. Qed.

Lemma up_write_space : forall p s b, inv1b p = true -> bmb p = true -> sp_f p b (up_write p s b).
Proof.
  intros p s b Hi He. unfold up_write. pose proof (ufeed_space (2 * length b + 2) p s b Hi He) as H.
  destruct (ufeed (2 * length b + 2) p s b) as [[[p1 s1] err]|e|w|]; cbn [sp_f] in *; try exact I.
  destruct (unil err) eqn:E; cbn [sp_f].
  - intros _. destruct (H eq_refl) as (A & B & C). destruct (sp_set_err p1 0) as [S1 S2].
    rewrite inv1b_set_err, S1, S2. auto.
  - intro X. congruence.
Qed.

Definition retained (p : uparser) : Z :=
  zlen (up_buf p) + zlen (up_stack p) + zlen (up_vstack p) + zlen (up_lstack p).

Lemma retained_sp : forall p, retained p <= sp p.
Proof. intro p. unfold retained, sp. pose proof (wsp_bounds (up_cur p)). lia. Qed.

Lemma retained_pop : forall p, retained (u_pop (ul_pop p)) <= retained p.
Proof.
  intro p. unfold retained. pose proof (ulpop_len p) as H.
  assert (H1 : up_buf (u_pop (ul_pop p)) = up_buf p /\ up_vstack (u_pop (ul_pop p)) = up_vstack p /\
          up_lstack (u_pop (ul_pop p)) = up_lstack (ul_pop p) /\ zlen (up_stack (u_pop (ul_pop p))) <= zlen (up_stack p)).
  { rewrite <- (ulpop_buf p), <- (ulpop_vstack p), <- (ulpop_stack p). generalize (ul_pop p). intro q.
    unfold u_pop. destruct (up_stack q) as [|c r] eqn:E; dp q; cbn [up_stack up_buf up_vstack up_lstack uset_cur] in *; subst;
      repeat split; try reflexivity; try lia. rewrite zlen_cons. lia. }
  destruct H1 as (A & B & C & D). rewrite A, B, C. lia.
Qed.

Lemma ufinalize_retained : forall fuel p s, retained (fst (fst (ufinalize fuel p s))) <= retained p.
Proof.
  induction fuel as [|f IH]; intros p s; cbn [ufinalize]; [cbn; lia|].
  repeat match goal with
  | |- context[if ?c then _ else _] => destruct c
  | |- context[let '(_, _) := ?u in _] => destruct u
  end; cbn [fst]; try lia.
  - unfold upop_len_state, upop_state. cbn [fst]. pose proof (IH (u_pop (ul_pop p)) s0). pose proof (retained_pop p). lia.
  - unfold upop_len_state, upop_state. cbn [fst]. pose proof (IH (u_pop (ul_pop p)) s0). pose proof (retained_pop p). lia.
Qed.

Lemma up_writes_space : forall chunks p s, inv1b p = true -> bmb p = true ->
  match up_writes p s chunks with
  | Ok (p1, _, _) => u_t (up_cur p1) <> tFail -> retained p1 <= sp p + 3 * zlen (concat chunks)
  | _ => True
  end.
Proof.
  induction chunks as [|c r IH]; intros p s Hi He; cbn [up_writes].
  - pose proof (ufinalize_retained (S (length (up_stack p))) p s) as H. unfold ufin.
    destruct (ufinalize (S (length (up_stack p))) p s) as [[p1 s1] e]. cbn [fst] in H. intros _.
    pose proof (retained_sp p). cbn [concat]. change (zlen (@nil Z)) with 0. lia.
  - pose proof (up_write_space p s c Hi He) as H.
    destruct (up_write p s c) as [[[p1 s1] err]|e|w|] eqn:Ew; cbn [sp_f] in H; try exact I.
    destruct (unil err) eqn:E.
    + destruct (H eq_refl) as (A & B & C). pose proof (IH p1 s1 A B) as H'.
      destruct (up_writes p1 s1 r) as [[[p2 s2] err2]|e|w|]; try exact I.
      intro Hc. specialize (H' Hc). cbn [concat]. rewrite zlen_app. lia.
    + intro Hc. exfalso. apply Hc. unfold up_write in Ew.
      destruct (ufeed (2 * length c + 2) p s c) as [[[p0 s0] err0]|e|w|]; try discriminate Ew.
      destruct (unil err0) eqn:E0; injection Ew as <- <- <-; [congruence|]. dp p0. reflexivity.
Qed.

Theorem C03_ubj_space : forall vfail chunks p s err, forallb all_bytes chunks = true ->
  up_writes uparser0 (sink0 vfail) chunks = Ok (p, s, err) -> u_t (up_cur p) <> tFail ->
  (length (up_buf p) + length (up_stack p) + length (up_vstack p) + length (up_lstack p)
     <= 3 * length (concat chunks))%nat.
Proof.
  intros vfail chunks p s err _ Hw Hc.
  pose proof (up_writes_space chunks uparser0 (sink0 vfail) inv1b_init eq_refl) as H.
  rewrite Hw in H. specialize (H Hc). unfold retained in H. change (sp uparser0) with 0 in H.
  unfold zlen in H. lia.
Qed.

Corollary C03_ubj_space_run : forall vfail chunks evs e p, forallb all_bytes chunks = true ->
  urun_chunks vfail chunks = Ok (evs, e, p) -> u_t (up_cur p) <> tFail ->
  (length (up_buf p) + length (up_stack p) + length (up_vstack p) + length (up_lstack p)
     <= 3 * length (concat chunks))%nat.
Proof.
  intros vfail chunks evs e p Hb Hr Hc. unfold urun_chunks in Hr.
  destruct (up_writes uparser0 (sink0 vfail) chunks) as [[[p1 s1] err]|?|?|] eqn:Ew; try discriminate Hr.
  injection Hr as _ _ <-. apply (C03_ubj_space vfail chunks p1 s1 err Hb Ew Hc).
Qed.
Print Assumptions C03_ubj_space.
Print Assumptions C03_ubj_space_run.

(* sanity checks of the guard *)
Example guard_rejects_witness : no_zero_typed zero_typed_witness = false.
Proof. reflexivity. Qed.
Example guard_accepts_typed_ints : no_zero_typed [91; 36; 105; 35; 85; 2; 1; 2] = true.
Proof. reflexivity. Qed.
