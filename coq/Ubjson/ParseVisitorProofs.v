(* C16 / C17 / C18 for the UBJSON parser model (Ubjson/Parse.v): how the parser treats its
   visitor, what state it is in after an accepted document, and the pull decoder.
   All theorems are closed under the global context.

   C16  C16_ubj_parse_prompt, C16_ubj_parse_fail_spec, C16_ubj_parse_prefix (Write...Write),
        C16_ubj_run_parse_* (Parse).  Premise "returns Ok" (see Ubjson/ParseSafety.v for totality).
   C17  C17_ubj_parse_top(_any), C17_ubj_writes_top, C17_ubj_run_*_top: after any accepted input the
        state stack is empty, cur = (stNext, stStart), buffer/marker/err are clear;
        C17_ubj_parse_vstack: the valueState stack is empty too (inputs without zero-sized typed
        containers, via ParseSafety.ext3b); C17_ubj_accept_reset / C17_ubj_accept_stacks: for
        documents the reference decoder accepts all three stacks are empty and the final parser
        is the initial one except for the dead field up_vtype.
        Not proved: emptiness of the length stack for arbitrary accepted inputs; the behavioural
        form (up_vtype is dead on entry).
   C18  (a) C18_ubj_next_no_panic (any script), C18_ubj_next_total (guard of C03),
            C18_ubj_next_total_partial (relative to totality of the inner loop);
        (b) C18_ubj_next_value_partial, C18_ubj_next_total: a nil Next stopped with an empty state
            stack and consumed >= 1 byte (not proved: >= 1 event, tree shape);
        (c) C18_ubj_run_script_independent_partial, C18_ubj_reader_as_bytes_partial,
            C18_ubj_scripts_same_data(_partial): the complete event sequence and the final verdict of a
            run of Next calls depend only on the concatenated data (and the runs return, under the
            guard of C03).  Not proved: which events are
            delivered by which call (needs the done flag of execStep to be determined by the
            parser states; ChunkProofs.ext does not compare it). *)
From Coq Require Import Setoid List NArith ZArith Bool Lia.
From Coq Require Import ZifyBool ZifyNat ZifyN.
From SF Require Import Base.Prelude Core.Events Ubjson.Spec Ubjson.Parse Ubjson.ChunkProofs.
Import ListNotations.
Open Scope Z_scope.
Ltac Zify.zify_post_hook ::= Z.div_mod_to_equations.

(* ====================================================================== *)
(* Part 0: visitor programs.  A function of the sink is "representable"   *)
(* when it is the interpretation of a straight-line program of visitor    *)
(* calls that returns at the first failing call with that call's error.   *)
(* ====================================================================== *)

Definition out (A : Type) : Type := option (A * sink * Z).

Inductive prog (A : Type) : Type :=
| PRet (a : A) (e : Z)
| PAbort
| PVis (ev : event) (afail : A) (k : prog A).
Arguments PRet {A} a e.
Arguments PAbort {A}.
Arguments PVis {A} ev afail k.

Fixpoint run {A} (pr : prog A) (s : sink) : out A :=
  match pr with
  | PRet a e => Some (a, s, e)
  | PAbort => None
  | PVis ev af k => let '(s1, ok) := emit s ev in if ok then run k s1 else Some (af, s1, ueVisitor)
  end.

Fixpoint ptrace {A} (pr : prog A) : list event :=
  match pr with PVis ev _ k => ev :: ptrace k | _ => [] end.
Fixpoint pfinal {A} (pr : prog A) : option (A * Z) :=
  match pr with PRet a e => Some (a, e) | PAbort => None | PVis _ _ k => pfinal k end.

Definition s_add (s : sink) (l : list event) : sink :=
  {| s_rlog := rev l ++ s_rlog s; s_n := length l + s_n s; s_fail := s_fail s |}.

Lemma s_add_nil : forall s, s_add s [] = s.
Proof. intros [l n f]; reflexivity. Qed.

Lemma s_add_add : forall s l1 l2, s_add (s_add s l1) l2 = s_add s (l1 ++ l2).
Proof.
  intros s l1 l2. unfold s_add; cbn [s_rlog s_n s_fail]. f_equal.
  - rewrite rev_app_distr, app_assoc. reflexivity.
  - rewrite app_length. lia.
Qed.

Lemma emit_spec : forall s e,
  emit s e = (s_add s [e], match s_fail s with Some k => Nat.ltb (s_n s) k | None => true end).
Proof. intros s e. unfold emit, s_add. cbn [rev app length Nat.add]. destruct (s_fail s); reflexivity. Qed.

Definition final_out {A} (pr : prog A) (s : sink) : out A :=
  match pfinal pr with Some (a, e) => Some (a, s_add s (ptrace pr), e) | None => None end.

Lemma run_nofail : forall A (pr : prog A) s, s_fail s = None -> run pr s = final_out pr s.
Proof.
  induction pr as [a e| |ev af k IH]; intros s Hs; unfold final_out; cbn [run pfinal ptrace].
  - rewrite s_add_nil. reflexivity.
  - reflexivity.
  - rewrite emit_spec, Hs. rewrite IH by exact Hs. unfold final_out.
    destruct (pfinal k) as [[a e]|]; [|reflexivity]. rewrite s_add_add. reflexivity.
Qed.

Lemma run_fail : forall A (pr : prog A) s k, s_fail s = Some k -> (s_n s <= k)%nat ->
  (if (length (ptrace pr) <=? k - s_n s)%nat then run pr s = final_out pr s
   else exists af, run pr s = Some (af, s_add s (firstn (S (k - s_n s)) (ptrace pr)), ueVisitor)).
Proof.
  induction pr as [a e| |ev af k0 IH]; intros s k Hs Hn; cbn [run pfinal ptrace length].
  - cbn [Nat.leb]. unfold final_out. cbn [pfinal ptrace]. rewrite s_add_nil. reflexivity.
  - reflexivity.
  - rewrite emit_spec, Hs.
    destruct (Nat.ltb (s_n s) k) eqn:E.
    + apply Nat.ltb_lt in E.
      assert (Hs1 : s_fail (s_add s [ev]) = Some k) by exact Hs.
      assert (Hn1 : (s_n (s_add s [ev]) <= k)%nat) by (cbn [s_add s_n length]; lia).
      specialize (IH _ _ Hs1 Hn1).
      replace (k - s_n (s_add s [ev]))%nat with (k - s_n s - 1)%nat in IH by (cbn [s_add s_n length]; lia).
      destruct (Nat.leb (S (length (ptrace k0))) (k - s_n s)) eqn:L.
      * apply Nat.leb_le in L.
        assert (L' : Nat.leb (length (ptrace k0)) (k - s_n s - 1) = true) by (apply Nat.leb_le; lia).
        rewrite L' in IH. rewrite IH. unfold final_out. cbn [pfinal ptrace].
        destruct (pfinal k0) as [[a e]|]; [|reflexivity]. rewrite s_add_add. reflexivity.
      * apply Nat.leb_gt in L.
        assert (L' : Nat.leb (length (ptrace k0)) (k - s_n s - 1) = false) by (apply Nat.leb_gt; lia).
        rewrite L' in IH. destruct IH as [af' IH]. exists af'. rewrite IH. rewrite s_add_add.
        replace (S (k - s_n s)) with (S (S (k - s_n s - 1))) by lia. reflexivity.
    + apply Nat.ltb_ge in E. assert (k - s_n s = 0)%nat as -> by lia.
      cbn [Nat.leb]. exists af. reflexivity.
Qed.

(* representability *)
Definition Rep {A} (f : sink -> out A) : Type := { pr : prog A | forall s, f s = run pr s }.

Lemma Rep_ret : forall A (a : A) e, Rep (fun s => Some (a, s, e)).
Proof. intros A a e. exists (PRet a e). reflexivity. Qed.

Lemma Rep_abort : forall A, Rep (fun _ => @None (A * sink * Z)).
Proof. intros A. exists PAbort. reflexivity. Qed.

Lemma Rep_ext : forall A (f g : sink -> out A), (forall s, f s = g s) -> Rep g -> Rep f.
Proof. intros A f g H [pr Hpr]. exists pr. intros s. rewrite H. apply Hpr. Qed.

Lemma uvis_emit : forall s ev s1 ok, emit s ev = (s1, ok) -> uvis s ev = (s1, if ok then unilE else ueVisitor).
Proof. intros s ev s1 ok E. unfold uvis. rewrite E. reflexivity. Qed.

(* the visitor call: on failure the function returns at once with the visitor's error *)
Lemma Rep_vis : forall A (f : sink -> out A) ev af (g : sink -> out A),
  (forall s s1, uvis s ev = (s1, unilE) -> f s = g s1) ->
  (forall s s1, uvis s ev = (s1, ueVisitor) -> f s = Some (af, s1, ueVisitor)) ->
  Rep g -> Rep f.
Proof.
  intros A f ev af g H1 H2 [pr Hpr]. exists (PVis ev af pr). intros s. cbn [run].
  destruct (emit s ev) as [s1 ok] eqn:E. apply uvis_emit in E. destruct ok.
  - rewrite (H1 _ _ E). apply Hpr.
  - apply (H2 _ _ E).
Qed.

(* sequencing: the continuation runs only after a nil error *)
Fixpoint pbind {A B} (pr : prog A) (phi : A -> Z -> B) (K : A -> prog B) : prog B :=
  match pr with
  | PRet a e => if unil e then K a else PRet (phi a e) e
  | PAbort => PAbort
  | PVis ev af k => PVis ev (phi af ueVisitor) (pbind k phi K)
  end.

Lemma run_pbind : forall A B (pr : prog A) (phi : A -> Z -> B) K s,
  run (pbind pr phi K) s =
  match run pr s with
  | None => None
  | Some (a, s1, e) => if unil e then run (K a) s1 else Some (phi a e, s1, e)
  end.
Proof.
  induction pr as [a e| |ev af k IH]; intros phi K s; cbn [pbind run].
  - destruct (unil e); reflexivity.
  - reflexivity.
  - destruct (emit s ev) as [s1 ok]. destruct ok; [apply IH|reflexivity].
Qed.

Lemma Rep_bind : forall A B (g : sink -> out A) (phi : A -> Z -> B) (h : A -> sink -> out B)
  (f : sink -> out B),
  Rep g -> (forall a, Rep (h a)) ->
  (forall s, f s = match g s with
                   | None => None
                   | Some (a, s1, e) => if unil e then h a s1 else Some (phi a e, s1, e)
                   end) ->
  Rep f.
Proof.
  intros A B g phi h f [pg Hg] Hh Hf.
  exists (pbind pg phi (fun a => proj1_sig (Hh a))). intros s.
  rewrite Hf, run_pbind, Hg. destruct (run pg s) as [[[a s1] e]|]; [|reflexivity].
  destruct (unil e); [|reflexivity]. apply (proj2_sig (Hh a)).
Qed.

Lemma unil_true' : forall e, unil e = true -> e = unilE.
Proof. intros e H. apply Z.eqb_eq in H. exact H. Qed.

Lemma Rep_map : forall A B (g : sink -> out A) (phi : A -> Z -> B) (f : sink -> out B),
  Rep g ->
  (forall s, f s = match g s with None => None | Some (a, s1, e) => Some (phi a e, s1, e) end) ->
  Rep f.
Proof.
  intros A B g phi f Hg Hf.
  apply (Rep_bind A B g phi (fun a s => Some (phi a unilE, s, unilE)) f Hg).
  - intros a. apply Rep_ret.
  - intros s. rewrite Hf. destruct (g s) as [[[a s1] e]|]; [|reflexivity].
    destruct (unil e) eqn:E; [|reflexivity]. apply unil_true' in E. subst e. reflexivity.
Qed.

(* ---------- what representability gives ---------- *)
Lemma s_log_add0 : forall f l, s_log (s_add (sink0 f) l) = l.
Proof. intros. unfold s_log, s_add, sink0. cbn [s_rlog]. rewrite app_nil_r. apply rev_involutive. Qed.

Lemma rep_prompt0 : forall A (f : sink -> out A), Rep f -> forall k a s e,
  f (sink0 (Some k)) = Some (a, s, e) ->
  (length (s_log s) <= S k)%nat /\ (length (s_log s) = S k -> e = ueVisitor).
Proof.
  intros A f [pr Hpr] k a s e H. rewrite Hpr in H.
  pose proof (run_fail A pr (sink0 (Some k)) k eq_refl (Nat.le_0_l k)) as R.
  cbn [sink0 s_n] in R. rewrite Nat.sub_0_r in R.
  destruct (Nat.leb (length (ptrace pr)) k) eqn:L.
  - apply Nat.leb_le in L. rewrite R in H. unfold final_out in H.
    destruct (pfinal pr) as [[a' e']|]; [|discriminate]. inversion H; subst.
    change {| s_rlog := []; s_n := 0; s_fail := Some k |} with (sink0 (Some k)).
    rewrite s_log_add0. split; lia.
  - apply Nat.leb_gt in L. destruct R as [af R].
    remember (firstn (S k) (ptrace pr)) as t eqn:Ht.
    rewrite R in H. injection H as Ha Hs He. subst a s e.
    change {| s_rlog := []; s_n := 0; s_fail := Some k |} with (sink0 (Some k)).
    rewrite s_log_add0. split; [|reflexivity]. subst t. rewrite firstn_length. lia.
Qed.

Lemma rep_prefix0 : forall A (f : sink -> out A), Rep f -> forall k a0 s0 e0,
  f (sink0 None) = Some (a0, s0, e0) ->
  exists a s, f (sink0 (Some k)) = Some (a, s, if (length (s_log s0) <=? k)%nat then e0 else ueVisitor) /\
              s_log s = firstn (S k) (s_log s0) /\
              ((length (s_log s0) <= k)%nat -> a = a0).
Proof.
  intros A f [pr Hpr] k a0 s0 e0 H. rewrite Hpr in H. rewrite Hpr.
  rewrite run_nofail in H by reflexivity. unfold final_out in H.
  destruct (pfinal pr) as [[a' e']|] eqn:F; [|discriminate]. inversion H; subst. clear H.
  rewrite s_log_add0.
  pose proof (run_fail A pr (sink0 (Some k)) k eq_refl (Nat.le_0_l k)) as R.
  cbn [sink0 s_n] in R. rewrite Nat.sub_0_r in R.
  change {| s_rlog := []; s_n := 0; s_fail := Some k |} with (sink0 (Some k)) in R.
  destruct (Nat.leb (length (ptrace pr)) k) eqn:L.
  - apply Nat.leb_le in L. rewrite R. unfold final_out. rewrite F.
    eexists _, _. split; [reflexivity|]. rewrite s_log_add0. split; [|reflexivity].
    symmetry. apply firstn_all2. lia.
  - apply Nat.leb_gt in L. destruct R as [af R]. rewrite R.
    eexists _, _. split; [reflexivity|]. rewrite s_log_add0. split; [reflexivity|]. lia.
Qed.

Lemma rep_prompt_gen : forall A (f : sink -> out A), Rep f -> forall s k a s' e,
  s_fail s = Some k -> (s_n s <= k)%nat -> f s = Some (a, s', e) ->
  exists l, s' = s_add s l /\ (s_n s' <= S k)%nat /\ (s_n s' = S k -> e = ueVisitor).
Proof.
  intros A f [pr Hpr] s k a s' e Hs Hn H. rewrite Hpr in H.
  pose proof (run_fail A pr s k Hs Hn) as R.
  destruct (Nat.leb (length (ptrace pr)) (k - s_n s)) eqn:L.
  - apply Nat.leb_le in L. rewrite R in H. unfold final_out in H.
    destruct (pfinal pr) as [[a' e']|]; [|discriminate]. inversion H; subst.
    exists (ptrace pr). split; [reflexivity|]. cbn [s_add s_n]. split; lia.
  - apply Nat.leb_gt in L. destruct R as [af R].
    remember (firstn (S (k - s_n s)) (ptrace pr)) as t eqn:Ht.
    rewrite R in H. inversion H; subst a s' e.
    exists t. split; [reflexivity|]. cbn [s_add s_n].
    assert (length t = S (k - s_n s)) by (subst t; rewrite firstn_length; lia).
    split; [lia|reflexivity].
Qed.

(* ====================================================================== *)
(* Part 1: every parser function is representable (core lemma of C16)     *)
(* ====================================================================== *)

Definition osr (r : ures) : out (uparser * bytes * bool) :=
  match r with UR p s rest d e => Some ((p, rest, d), s, e) | UCrash _ => None end.

Ltac vred :=
  cbv beta iota zeta;
  change (unil unilE) with true; change (unil ueVisitor) with false;
  cbn [andb orb negb];
  cbv beta iota zeta.

Ltac vis_step :=
  eapply Rep_vis;
  [ let s := fresh "s" in let s1 := fresh "s1" in let E := fresh "E" in
    intros s s1 E; cbv beta; rewrite E; vred; reflexivity
  | let s := fresh "s" in let s1 := fresh "s1" in let E := fresh "E" in
    intros s s1 E; cbv beta; rewrite E; vred; reflexivity
  | cbv beta ].

Lemma Rep_sr : forall p rest d e, Rep (fun s => osr (UR p s rest d e)).
Proof. intros. apply (Rep_ret _ (p, rest, d) e). Qed.
Lemma Rep_crash : forall w, Rep (fun s => osr (UCrash w)).
Proof. intros. apply Rep_abort. Qed.

Lemma Rep_of_ul : forall r, Rep (fun s => osr (of_ul r s)).
Proof. intros [p rest err|w]; [apply Rep_sr|apply Rep_crash]. Qed.

Lemma Rep_nodone : forall (f : sink -> ures),
  Rep (fun s => osr (f s)) -> Rep (fun s => osr (value_nodone (f s))).
Proof.
  intros f H. apply (Rep_map _ _ _ (fun a _ => (fst (fst a), snd (fst a), false)) _ H).
  intros s. destruct (f s); reflexivity.
Qed.

Lemma Rep_latch : forall (f : sink -> ures),
  Rep (fun s => osr (f s)) -> Rep (fun s => osr (xlatch (f s))).
Proof.
  intros f H.
  apply (Rep_map _ _ _ (fun a e => if unil e then a else (uset_err (fst (fst a)) e, snd (fst a), snd a)) _ H).
  intros s. destruct (f s) as [p1 s1 rest d err|w]; [|reflexivity].
  cbn [xlatch osr fst snd]. destruct (unil err); reflexivity.
Qed.

Ltac brk2 :=
  match goal with
  | |- Rep (fun s => _ (if ?c then _ else _)) => destruct c eqn:?
  | |- Rep (fun s => _ (match ?b with [] => _ | _ :: _ => _ end)) => destruct b
  | |- Rep (fun s => _ (match ?o with Some _ => _ | None => _ end)) => destruct o
  | |- Rep (fun s => _ (match ?c with UC _ _ _ => _ | UCC => _ end)) => destruct c as [? ? [?|]|]
  | |- Rep (fun s => _ (match ?c with UL _ _ _ => _ | ULC _ => _ end)) => destruct c as [? ? ?|?]
  end.

Ltac fin := first [ apply Rep_sr | apply Rep_crash | apply Rep_of_ul ].
Ltac rep_auto := repeat first [ fin | brk2 | vis_step ].

Lemma ustep_value_rep : forall p b, Rep (fun s => osr (ustep_value p s b)).
Proof. intros. unfold ustep_value. rep_auto. Qed.

Lemma ustep_fixed_rep : forall p b, Rep (fun s => osr (ustep_fixed p s b)).
Proof. intros. unfold ustep_fixed, upop_state. cbv zeta. rep_auto. Qed.

Lemma ustep_string_rep : forall p b, Rep (fun s => osr (ustep_string p s b)).
Proof. intros. unfold ustep_string, upop_len_state, upop_state. cbv zeta. rep_auto. Qed.

Lemma arr_start_rep : forall p b, Rep (fun s => osr (arr_start p s b)).
Proof. intros. unfold arr_start. rep_auto. Qed.
Lemma obj_start_rep : forall p b, Rep (fun s => osr (obj_start p s b)).
Proof. intros. unfold obj_start. rep_auto. Qed.

Lemma arr_dyn_rep : forall p b, Rep (fun s => osr (arr_dyn p s b)).
Proof.
  intros. unfold arr_dyn, upop_state. cbv zeta.
  repeat first [ fin | apply Rep_nodone; apply ustep_value_rep | brk2 | vis_step ].
Qed.

Lemma obj_dyn_emptykey_rep : forall p b, Rep (fun s => osr (obj_dyn_emptykey p s b)).
Proof. intros. unfold obj_dyn_emptykey. cbv zeta. rep_auto. Qed.

Lemma obj_dyn_rep : forall p b, Rep (fun s => osr (obj_dyn p s b)).
Proof.
  intros. unfold obj_dyn, upop_state. cbv zeta.
  repeat first [ fin | apply Rep_nodone; apply ustep_value_rep | brk2 | vis_step ].
Qed.

Lemma arr_counted_rep : forall p b, Rep (fun s => osr (arr_counted p s b)).
Proof.
  intros. unfold arr_counted, upop_len_state, upop_state. cbv zeta.
  destruct (u_s (up_cur p) =? sStart); [fin|].
  destruct (u_s (up_cur p) =? sWithLen).
  - vis_step. repeat first [ fin | apply Rep_nodone; apply ustep_value_rep | brk2 | vis_step ].
  - vred. repeat first [ fin | apply Rep_nodone; apply ustep_value_rep | brk2 | vis_step ].
Qed.

Lemma arr_typed_rep : forall rec, (forall p b, Rep (fun s => osr (rec p s b))) ->
  forall p b, Rep (fun s => osr (arr_typed rec p s b)).
Proof.
  intros rec Hrec p b. unfold arr_typed, upop_len_state, upop_state. cbv zeta.
  destruct ((u_s (up_cur p) =? sStart) || (u_s (up_cur p) =? sWithType0) || (u_s (up_cur p) =? sWithType1)); [fin|].
  destruct (u_s (up_cur p) =? sWithLen).
  - vis_step. repeat first [ fin | apply Rep_nodone; apply Hrec | brk2 | vis_step ].
  - vred. repeat first [ fin | apply Rep_nodone; apply Hrec | brk2 | vis_step ].
Qed.

(* stepObjectCountedContent *)
Definition ooc (r : ocres) : out (bool * uparser * bytes) :=
  match r with OC f p s rest e => Some ((f, p, rest), s, e) | OCC _ => None end.

Lemma Rep_oc : forall f p rest e, Rep (fun s => ooc (OC f p s rest e)).
Proof. intros. apply (Rep_ret _ (f, p, rest) e). Qed.
Lemma Rep_occ : forall w, Rep (fun s => ooc (OCC w)).
Proof. intros. apply Rep_abort. Qed.

Lemma obj_content_rep : forall p b typed, Rep (fun s => ooc (ustep_obj_content p s b typed)).
Proof.
  intros. unfold ustep_obj_content. cbv zeta.
  repeat first
    [ apply Rep_oc | apply Rep_occ
    | match goal with
      | |- Rep (fun s => ooc (match value_nodone (ustep_value ?q s ?bb) with _ => _ end)) =>
          apply (Rep_map _ _ _ (fun a _ => (false, fst (fst a), snd (fst a))) _ (ustep_value_rep q bb));
          let s := fresh "s" in intros s; destruct (ustep_value q s bb); reflexivity
      end
    | brk2 | vis_step ].
Qed.

Lemma obj_wrap_rep : forall (g : uparser -> uparser) (f : sink -> ocres),
  Rep (fun s => ooc (f s)) ->
  Rep (fun s => osr (match f s with
                     | OCC w => UCrash w
                     | OC fin p1 s1 rest err =>
                         if fin && unil err then let '(p2, d) := upop_len_state (g p1) in UR p2 s1 rest d unilE
                         else UR p1 s1 rest fin err
                     end)).
Proof.
  intros g f H.
  apply (Rep_bind (bool * uparser * bytes) (uparser * bytes * bool) _
           (fun (a : bool * uparser * bytes) (_ : Z) => (snd (fst a), snd a, fst (fst a)))
           (fun (a : bool * uparser * bytes) s => let '(fin, p1, rest) := a in
              if fin then let '(p2, d) := upop_len_state (g p1) in Some ((p2, rest, d), s, unilE)
              else Some ((p1, rest, false), s, unilE)) _ H).
  - intros [[fin p1] rest]. destruct fin; [destruct (upop_len_state (g p1))|]; apply Rep_ret.
  - intros s. destruct (f s) as [fin p1 s1 rest err|w]; [|reflexivity].
    cbn [ooc fst snd]. destruct (unil err) eqn:E.
    + apply unil_true' in E. subst err. destruct fin; cbn [andb].
      * destruct (upop_len_state (g p1)). reflexivity.
      * reflexivity.
    + rewrite andb_false_r. reflexivity.
Qed.

Lemma obj_counted_rep : forall p b, Rep (fun s => osr (obj_counted p s b)).
Proof.
  intros. unfold obj_counted. cbv zeta. destruct (u_s (up_cur p) =? sStart); [fin|].
  apply (obj_wrap_rep (fun q => q)). apply obj_content_rep.
Qed.

Lemma obj_typed_rep : forall p b, Rep (fun s => osr (obj_typed p s b)).
Proof.
  intros. unfold obj_typed. cbv zeta.
  destruct ((u_s (up_cur p) =? sStart) || (u_s (up_cur p) =? sWithType0) || (u_s (up_cur p) =? sWithType1)); [fin|].
  apply (obj_wrap_rep v_pop). apply obj_content_rep.
Qed.

Lemma xbody0_rep : forall rec, (forall p b, Rep (fun s => osr (rec p s b))) ->
  forall p b, Rep (fun s => osr (xbody0 rec p s b)).
Proof.
  intros rec Hrec p b. unfold xbody0. cbv zeta.
  repeat first [ fin | apply ustep_value_rep | apply ustep_fixed_rep | apply ustep_string_rep
               | apply arr_start_rep | apply arr_dyn_rep | apply arr_counted_rep
               | apply (arr_typed_rep rec Hrec) | apply obj_start_rep | apply obj_dyn_emptykey_rep
               | apply obj_dyn_rep | apply obj_counted_rep | apply obj_typed_rep | brk2 ].
Qed.

(* Core lemma of C16: one parser step is a straight-line visitor program. *)
Lemma uexec_rep : forall f p b, Rep (fun s => osr (uexec f p s b)).
Proof.
  induction f as [|f IH]; intros p b.
  - apply Rep_abort.
  - eapply Rep_ext; [intros s; rewrite uexec_S; reflexivity|].
    apply Rep_latch. apply xbody0_rep. exact IH.
Qed.

Lemma uexec_step_rep : forall p b, Rep (fun s => osr (uexec_step p s b)).
Proof. intros. apply uexec_rep. Qed.

(* ---------- the feed loops ---------- *)
Definition ores (r : res ures) : out (uparser * bytes * bool) :=
  match r with Ok x => osr x | _ => None end.
Definition orf (r : res (uparser * sink * Z)) : out uparser :=
  match r with Ok (p, s, e) => Some (p, s, e) | _ => None end.

Lemma ufeed_until_rep : forall fuel p b, Rep (fun s => ores (ufeed_until fuel p s b)).
Proof.
  induction fuel as [|f IH]; intros p b.
  - apply Rep_abort.
  - cbn [ufeed_until].
    apply (Rep_bind _ _ (fun s => osr (uexec_step p s b)) (fun a _ => a)
             (fun a s => let '(p1, rest, done) := a in
                if done then Some (a, s, unilE)
                else if (zlen rest =? 0) && negb (can_step_without_input p1) then Some (a, s, unilE)
                else ores (ufeed_until f p1 s rest))).
    + apply uexec_step_rep.
    + intros [[p1 rest] done]. destruct done; [apply Rep_ret|].
      destruct ((zlen rest =? 0) && negb (can_step_without_input p1)); [apply Rep_ret|apply IH].
    + intros s. destruct (uexec_step p s b) as [p1 s1 rest done err|w]; [|reflexivity].
      cbn [osr]. destruct (unil err) eqn:E.
      * apply unil_true' in E. subst err. destruct done; [reflexivity|].
        cbn [orb negb]. change (unil unilE) with true. cbn [negb].
        destruct ((zlen rest =? 0) && negb (can_step_without_input p1)); reflexivity.
      * rewrite orb_true_r. reflexivity.
Qed.

Lemma ufeed_rep : forall fuel p b, Rep (fun s => orf (ufeed fuel p s b)).
Proof.
  induction fuel as [|f IH]; intros p b.
  - apply Rep_abort.
  - cbn [ufeed]. destruct (zlen b >? 0); [|apply Rep_ret].
    apply (Rep_bind _ _ (fun s => ores (ufeed_until (ufeed_fuel p b) p s b)) (fun a _ => fst (fst a))
             (fun a s => orf (ufeed f (fst (fst a)) s (snd (fst a))))).
    + apply ufeed_until_rep.
    + intros a. apply IH.
    + intros s. destruct (ufeed_until (ufeed_fuel p b) p s b) as [[p1 s1 rest d err|w]| | |]; try reflexivity.
      cbn [ores osr fst snd]. destruct (unil err); reflexivity.
Qed.

Lemma up_write_rep : forall p b, Rep (fun s => orf (up_write p s b)).
Proof.
  intros. unfold up_write.
  apply (Rep_map _ _ _ (fun p1 e => if unil e then uset_err p1 0 else uset_cur (uset_err p1 e) (mku tFail sStart)) _
           (ufeed_rep (2 * length b + 2) p b)).
  intros s. destruct (ufeed (2 * length b + 2) p s b) as [[[p1 s1] e]| | |]; try reflexivity.
  cbn [orf]. destruct (unil e); reflexivity.
Qed.

Definition ofin (r : uparser * sink * Z) : out uparser := Some r.

Lemma ufinalize_rep : forall fuel p, Rep (fun s => ofin (ufinalize fuel p s)).
Proof.
  induction fuel as [|f IH]; intros p.
  - apply (Rep_ret _ p ueIncomplete).
  - cbn [ufinalize]. unfold ofin.
    repeat match goal with
    | |- Rep (fun s => Some (if ?c then _ else _)) => destruct c eqn:?
    | |- Rep (fun s => Some (_, s, _)) => apply Rep_ret
    end;
    (eapply Rep_vis;
      [ intros s s1 E; cbv beta; rewrite E; vred; reflexivity
      | intros s s1 E; cbv beta; rewrite E; vred; reflexivity
      | apply IH ]).
Qed.

Lemma ufin_rep : forall p, Rep (fun s => ofin (ufin p s)).
Proof. intros. unfold ufin. apply ufinalize_rep. Qed.

Lemma ufin_orf : forall p s, orf (Ok (ufin p s)) = ofin (ufin p s).
Proof. intros. unfold ofin. destruct (ufin p s) as [[p1 s1] e]. reflexivity. Qed.

Lemma up_parse_rep : forall p b, Rep (fun s => orf (up_parse p s b)).
Proof.
  intros. unfold up_parse.
  apply (Rep_bind _ _ _ (fun p1 _ => p1) (fun p1 s => ofin (ufin p1 s)) _ (ufeed_rep (2 * length b + 2) p b)).
  - intros a. apply ufin_rep.
  - intros s. destruct (ufeed (2 * length b + 2) p s b) as [[[p1 s1] e]| | |]; try reflexivity.
    cbn [orf]. destruct (unil e); [apply ufin_orf|reflexivity].
Qed.

Lemma up_writes_rep : forall chunks p, Rep (fun s => orf (up_writes p s chunks)).
Proof.
  induction chunks as [|c r IH]; intros p.
  - cbn [up_writes]. eapply Rep_ext; [intros s; apply ufin_orf|apply ufin_rep].
  - cbn [up_writes].
    apply (Rep_bind _ _ _ (fun p1 _ => p1) (fun p1 s => orf (up_writes p1 s r)) _ (up_write_rep p c)).
    + intros a. apply IH.
    + intros s. destruct (up_write p s c) as [[[p1 s1] e]| | |]; try reflexivity.
      cbn [orf]. destruct (unil e); reflexivity.
Qed.

(* ---------- C16 for the parser ---------- *)
Lemma urun_chunks_orf : forall v chunks evs e p,
  urun_chunks v chunks = Ok (evs, e, p) <->
  exists s, orf (up_writes uparser0 (sink0 v) chunks) = Some (p, s, e) /\ evs = s_log s.
Proof.
  intros. unfold urun_chunks. destruct (up_writes uparser0 (sink0 v) chunks) as [[[p' s] e']| | |]; cbn [orf].
  - split.
    + intros H. inversion H; subst. eauto.
    + intros (s' & H & ->). inversion H; subst. reflexivity.
  - split; [discriminate|]. intros (s' & H & _). discriminate.
  - split; [discriminate|]. intros (s' & H & _). discriminate.
  - split; [discriminate|]. intros (s' & H & _). discriminate.
Qed.

Lemma urun_parse_orf : forall v b evs e p,
  urun_parse v b = Ok (evs, e, p) <->
  exists s, orf (up_parse uparser0 (sink0 v) b) = Some (p, s, e) /\ evs = s_log s.
Proof.
  intros. unfold urun_parse. destruct (up_parse uparser0 (sink0 v) b) as [[[p' s] e']| | |]; cbn [orf].
  - split.
    + intros H. inversion H; subst. eauto.
    + intros (s' & H & ->). inversion H; subst. reflexivity.
  - split; [discriminate|]. intros (s' & H & _). discriminate.
  - split; [discriminate|]. intros (s' & H & _). discriminate.
  - split; [discriminate|]. intros (s' & H & _). discriminate.
Qed.

(* no event is delivered after the failing one, and its error is returned unchanged *)
Theorem C16_ubj_parse_prompt : forall k chunks evs e p,
  urun_chunks (Some k) chunks = Ok (evs, e, p) ->
  (length evs <= S k)%nat /\ (length evs = S k -> e = ueVisitor).
Proof.
  intros k chunks evs e p H. apply urun_chunks_orf in H. destruct H as (s & H & ->).
  exact (rep_prompt0 _ _ (up_writes_rep chunks uparser0) k p s e H).
Qed.

(* the failing run is determined by the unfailing one: it delivers exactly the
   first k+1 events, and returns the visitor's error iff the unfailing run has
   more than k events (otherwise the same verdict and the same final parser) *)
Theorem C16_ubj_parse_fail_spec : forall k chunks evs0 e0 p0,
  urun_chunks None chunks = Ok (evs0, e0, p0) ->
  exists p, urun_chunks (Some k) chunks =
              Ok (firstn (S k) evs0, (if (length evs0 <=? k)%nat then e0 else ueVisitor), p) /\
            ((length evs0 <= k)%nat -> p = p0).
Proof.
  intros k chunks evs0 e0 p0 H. apply urun_chunks_orf in H. destruct H as (s0 & H & ->).
  destruct (rep_prefix0 _ _ (up_writes_rep chunks uparser0) k p0 s0 e0 H) as (a & s & H1 & H2 & H3).
  exists a. split; [|exact H3]. apply urun_chunks_orf. exists s. split; [exact H1|]. symmetry. exact H2.
Qed.

Theorem C16_ubj_parse_prefix : forall k chunks evs e p evs0 e0 p0,
  urun_chunks (Some k) chunks = Ok (evs, e, p) -> urun_chunks None chunks = Ok (evs0, e0, p0) ->
  evs = firstn (S k) evs0 /\ e = (if (length evs0 <=? k)%nat then e0 else ueVisitor).
Proof.
  intros k chunks evs e p evs0 e0 p0 H H0.
  destruct (C16_ubj_parse_fail_spec k chunks evs0 e0 p0 H0) as (p' & H1 & _).
  rewrite H1 in H. inversion H. split; reflexivity.
Qed.

Theorem C16_ubj_run_parse_prompt : forall k b evs e p,
  urun_parse (Some k) b = Ok (evs, e, p) ->
  (length evs <= S k)%nat /\ (length evs = S k -> e = ueVisitor).
Proof.
  intros k b evs e p H. apply urun_parse_orf in H. destruct H as (s & H & ->).
  exact (rep_prompt0 _ _ (up_parse_rep uparser0 b) k p s e H).
Qed.

Theorem C16_ubj_run_parse_fail_spec : forall k b evs0 e0 p0,
  urun_parse None b = Ok (evs0, e0, p0) ->
  exists p, urun_parse (Some k) b =
              Ok (firstn (S k) evs0, (if (length evs0 <=? k)%nat then e0 else ueVisitor), p) /\
            ((length evs0 <= k)%nat -> p = p0).
Proof.
  intros k b evs0 e0 p0 H. apply urun_parse_orf in H. destruct H as (s0 & H & ->).
  destruct (rep_prefix0 _ _ (up_parse_rep uparser0 b) k p0 s0 e0 H) as (a & s & H1 & H2 & H3).
  exists a. split; [|exact H3]. apply urun_parse_orf. exists s. split; [exact H1|]. symmetry. exact H2.
Qed.

Theorem C16_ubj_run_parse_prefix : forall k b evs e p evs0 e0 p0,
  urun_parse (Some k) b = Ok (evs, e, p) -> urun_parse None b = Ok (evs0, e0, p0) ->
  evs = firstn (S k) evs0 /\ e = (if (length evs0 <=? k)%nat then e0 else ueVisitor).
Proof.
  intros k b evs e p evs0 e0 p0 H H0.
  destruct (C16_ubj_run_parse_fail_spec k b evs0 e0 p0 H0) as (p' & H1 & _).
  rewrite H1 in H. inversion H. split; reflexivity.
Qed.

(* ====================================================================== *)
(* Part 2: C17 - the state after an accepted document                     *)
(* ====================================================================== *)

Lemma ustate_eta : forall c t s, u_t c = t -> u_s c = s -> c = mku t s.
Proof. intros [t0 s0] t s H1 H2. cbn in *. subst. reflexivity. Qed.

Lemma nil_not : forall e, unil e = false -> e = unilE -> False.
Proof. intros e H ->. discriminate H. Qed.

(* finalize returns nil only at the top level, in the start state *)
Lemma ufinalize_top : forall fuel p s p' s',
  ufinalize fuel p s = (p', s', unilE) ->
  up_stack p' = [] /\ up_cur p' = mku tNext sStart.
Proof.
  induction fuel as [|f IH]; intros p s p' s' H; cbn [ufinalize] in H.
  - inversion H.
  - destruct (zlen (up_stack p) >? 0) eqn:Es.
    + destruct ((u_t (up_cur p) =? tArrayCount) || (u_t (up_cur p) =? tArrayTyped)).
      * destruct (_ || _); [inversion H|].
        destruct (uvis s EArrEnd) as [s1 e]. destruct (unil e) eqn:Ee; [eapply IH; eauto|].
        inversion H; subst. exfalso. eapply nil_not; eauto.
      * destruct ((u_t (up_cur p) =? tObjectCount) || (u_t (up_cur p) =? tObjectTyped)); [|inversion H].
        destruct (_ || _); [inversion H|].
        destruct (uvis s EObjEnd) as [s1 e]. destruct (unil e) eqn:Ee; [eapply IH; eauto|].
        inversion H; subst. exfalso. eapply nil_not; eauto.
    + destruct (negb (u_s (up_cur p) =? sStart) || negb (u_t (up_cur p) =? tNext)) eqn:Ec; [inversion H|].
      inversion H; subst. apply orb_false_iff in Ec. destruct Ec as [E1 E2].
      apply negb_false_iff, Z.eqb_eq in E1. apply negb_false_iff, Z.eqb_eq in E2.
      split; [|apply ustate_eta; assumption].
      destruct (up_stack p') as [|c l]; [reflexivity|]. unfold zlen in Es. cbn [length] in Es. lia.
Qed.

Lemma Inv_top_clean : forall p, Inv p -> u_t (up_cur p) = tNext -> clean p.
Proof.
  intros p [_ [Hf|Hg]] Ht; [rewrite Ht in Hf; discriminate|].
  apply good_clean; [exact Hg| |]; unfold count_of, lenst; rewrite Ht; reflexivity.
Qed.

Lemma ufinalize_inv : forall fuel p s p' s',
  Inv p -> ufinalize fuel p s = (p', s', unilE) -> Inv p' /\ clean p'.
Proof.
  induction fuel as [|f IH]; intros p s p' s' HI H; cbn [ufinalize] in H.
  - inversion H.
  - destruct (zlen (up_stack p) >? 0) eqn:Es.
    + assert (Hpop : forall T S, u_t (up_cur p) = T -> u_s (up_cur p) = S -> up_lcur p = 0 ->
                (T = tArrayCount \/ T = tArrayTyped) /\ S = sCont \/
                (T = tObjectCount \/ T = tObjectTyped) /\ S = sFieldName ->
                Inv (fst (upop_len_state p))).
      { intros T S HT HS HL HK. destruct HI as [He [Hf|Hg]].
        { rewrite HT in Hf. destruct HK as [[[->| ->] _]|[[->| ->] _]]; discriminate. }
        destruct (upop_len_state p) as [p1 d] eqn:Ep. cbn [fst].
        assert (Hm : mid (up_cur p)).
        { split; rewrite HT; destruct HK as [[[->| ->] _]|[[->| ->] _]]; discriminate. }
        assert (Hc : clean p).
        { apply good_clean; [exact Hg| |]; unfold count_of, lenst; rewrite HT, HS, HL;
            destruct HK as [[[->| ->] ->]|[[->| ->] ->]]; reflexivity. }
        destruct Hg as (Hb & _). exact (proj1 (upop_len_state_post p p1 d He Hb Hm Hc Ep)). }
      destruct ((u_t (up_cur p) =? tArrayCount) || (u_t (up_cur p) =? tArrayTyped)) eqn:Ea.
      * destruct (negb (up_lcur p =? 0) || negb (u_s (up_cur p) =? sCont)) eqn:Ec; [inversion H|].
        apply orb_false_iff in Ec. destruct Ec as [E1 E2].
        apply negb_false_iff, Z.eqb_eq in E1. apply negb_false_iff, Z.eqb_eq in E2.
        destruct (uvis s EArrEnd) as [s1 e]. destruct (unil e) eqn:Ee.
        -- eapply IH; [|exact H]. apply (Hpop _ _ eq_refl E2 E1). left. split; [|reflexivity].
           apply orb_true_iff in Ea. destruct Ea as [Ea|Ea]; apply Z.eqb_eq in Ea; auto.
        -- inversion H; subst. exfalso. eapply nil_not; eauto.
      * destruct ((u_t (up_cur p) =? tObjectCount) || (u_t (up_cur p) =? tObjectTyped)) eqn:Eo; [|inversion H].
        destruct (negb (up_lcur p =? 0) || negb (u_s (up_cur p) =? sFieldName)) eqn:Ec; [inversion H|].
        apply orb_false_iff in Ec. destruct Ec as [E1 E2].
        apply negb_false_iff, Z.eqb_eq in E1. apply negb_false_iff, Z.eqb_eq in E2.
        destruct (uvis s EObjEnd) as [s1 e]. destruct (unil e) eqn:Ee.
        -- eapply IH; [|exact H]. apply (Hpop _ _ eq_refl E2 E1). right. split; [|reflexivity].
           apply orb_true_iff in Eo. destruct Eo as [Eo|Eo]; apply Z.eqb_eq in Eo; auto.
        -- inversion H; subst. exfalso. eapply nil_not; eauto.
    + destruct (negb (u_s (up_cur p) =? sStart) || negb (u_t (up_cur p) =? tNext)) eqn:Ec; [inversion H|].
      inversion H; subst. apply orb_false_iff in Ec. destruct Ec as [E1 E2].
      apply negb_false_iff, Z.eqb_eq in E2.
      split; [exact HI|apply Inv_top_clean; assumption].
Qed.

(* what the parser is between two documents *)
Definition top (p : uparser) : Prop :=
  up_cur p = mku tNext sStart /\ up_stack p = [] /\ up_buf p = [] /\ up_marker p = 0 /\ up_err p = 0.

Lemma top0 : top uparser0.
Proof. unfold top, uparser0. cbn. auto. Qed.

Lemma ufin_top : forall p s p' s', Inv p -> ufin p s = (p', s', unilE) -> top p' /\ Inv p'.
Proof.
  intros p s p' s' HI H. unfold ufin in H.
  destruct (ufinalize_top _ _ _ _ _ H) as [A B].
  destruct (ufinalize_inv _ _ _ _ _ HI H) as [C [D1 D2]].
  split; [|exact C]. unfold top. destruct C as [C _]. auto.
Qed.

(* C17 (Parse): after an accepted input the state stack is empty, the parser is in
   its start state (stNext, stStart), nothing is buffered, no error is latched *)
Theorem C17_ubj_parse_top : forall p s b p' s',
  Inv p -> up_parse p s b = Ok (p', s', unilE) -> top p' /\ Inv p'.
Proof.
  intros p s b p' s' HI H. unfold up_parse in H.
  destruct (ufeed (2 * length b + 2) p s b) as [[[p1 s1] e1]| | |] eqn:E; try discriminate.
  destruct (unil e1) eqn:Ee.
  - apply unil_true' in Ee. subst e1. apply feed_sound in E.
    pose proof (Feed_inv _ _ _ _ _ E HI) as HI1.
    inversion H as [H0]. eapply ufin_top; eauto.
  - inversion H; subst. discriminate Ee.
Qed.

(* the top-level state alone needs no hypothesis at all *)
Theorem C17_ubj_parse_top_any : forall p s b p' s',
  up_parse p s b = Ok (p', s', unilE) -> up_stack p' = [] /\ up_cur p' = mku tNext sStart.
Proof.
  intros p s b p' s' H. unfold up_parse in H.
  destruct (ufeed (2 * length b + 2) p s b) as [[[p1 s1] e1]| | |] eqn:E; try discriminate.
  destruct (unil e1) eqn:Ee.
  - inversion H as [H0]. unfold ufin in H0. eapply ufinalize_top; eauto.
  - inversion H; subst. discriminate Ee.
Qed.

Lemma up_write_inv : forall p s c p1 s1, Inv p -> up_write p s c = Ok (p1, s1, unilE) -> Inv p1.
Proof.
  intros p s c p1 s1 HI H. destruct (up_write_Ok _ _ _ _ _ _ H) as (p1' & F & E).
  rewrite unil_nil in E. pose proof (Feed_inv _ _ _ _ _ F HI) as HI1.
  rewrite set_err_same in E by apply HI1. subst. exact HI1.
Qed.

Theorem C17_ubj_writes_top : forall chunks p s p' s',
  Inv p -> up_writes p s chunks = Ok (p', s', unilE) -> top p' /\ Inv p'.
Proof.
  induction chunks as [|c r IH]; intros p s p' s' HI H; cbn [up_writes] in H.
  - inversion H as [H0]. eapply ufin_top; eauto.
  - destruct (up_write p s c) as [[[p1 s1] err]| | |] eqn:Hw; try discriminate.
    destruct (unil err) eqn:Ee.
    + apply unil_true' in Ee. subst err. eapply IH; [|exact H]. eapply up_write_inv; eauto.
    + inversion H; subst. discriminate Ee.
Qed.

Theorem C17_ubj_run_parse_top : forall vfail b evs p,
  urun_parse vfail b = Ok (evs, unilE, p) -> top p.
Proof.
  intros vfail b evs p H. unfold urun_parse in H.
  destruct (up_parse uparser0 (sink0 vfail) b) as [[[p' s'] e']| | |] eqn:E; try discriminate.
  inversion H; subst. exact (proj1 (C17_ubj_parse_top _ _ _ _ _ Inv0 E)).
Qed.

Theorem C17_ubj_run_chunks_top : forall vfail chunks evs p,
  urun_chunks vfail chunks = Ok (evs, unilE, p) -> top p.
Proof.
  intros vfail chunks evs p H. unfold urun_chunks in H.
  destruct (up_writes uparser0 (sink0 vfail) chunks) as [[[p' s'] e']| | |] eqn:E; try discriminate.
  inversion H; subst. exact (proj1 (C17_ubj_writes_top _ _ _ _ _ Inv0 E)).
Qed.

(* ---------------------------------------------------------------------- *)
(* C17 for documents the reference decoder accepts (via the simulation of *)
(* ConformanceProofs.v, cf. C06_scope): all three stacks - states,        *)
(* valueStates, lengths - are empty again and every field except the      *)
(* dead up_vtype has its initial value.                                   *)
(* ---------------------------------------------------------------------- *)
From SF Require Ubjson.ConformanceProofs.
Module CP := SF.Ubjson.ConformanceProofs.

Theorem C17_ubj_accept_reset : forall b v, all_bytes b = true ->
  CP.no_huge_zero_typed b = true ->
  ubj_decode b = RValue v [] ->
  exists evs vt, urun_parse None b = Ok (evs, unilE, CP.uset_vtype uparser0 vt).
Proof.
  intros b v Hb Hz H. unfold ubj_decode in H. unfold CP.no_huge_zero_typed in Hz.
  destruct (CP.top_value _ b v [] H Hb (sink0 None) eq_refl) as (t & n & vt & Hwf & Hcv & Hbud & _ & Hreach).
  change (zlen (@nil Z)) with 0 in Hbud. rewrite CP.ztc_nil in Hbud.
  assert (Hne : b <> []) by (intros ->; discriminate H).
  exists (flatten t), vt.
  unfold urun_parse, up_parse.
  replace (2 * length b + 2)%nat with (S (S (2 * length b))) by lia.
  rewrite CP.ufeed_S. destruct (zlen b >? 0) eqn:Ez; [|pose proof (CP.nonempty_pos b Hne); lia].
  set (F := ufeed_fuel uparser0 b).
  assert (HF : (n + 1 <= F)%nat).
  { unfold F, ufeed_fuel. change (length (up_stack uparser0)) with 0%nat.
    assert (HK : Z.of_nat 8000 = 8000) by (vm_compute; reflexivity).
    unfold zlen in *. lia. }
  replace F with (S (n + (F - S n)))%nat by lia.
  rewrite CP.ufeed_until_S, Hreach. cbn [CP.ufu_cont orb]. rewrite CP.unil_nil.
  rewrite CP.ufeed_S. change (zlen (@nil Z) >? 0) with false. cbv iota. rewrite CP.unil_nil.
  change (ufin (CP.uset_vtype uparser0 vt) (CP.sadd (sink0 None) (flatten t)))
    with (CP.uset_vtype uparser0 vt, CP.sadd (sink0 None) (flatten t), unilE).
  cbv beta iota. rewrite CP.sadd_log. reflexivity.
Qed.

Corollary C17_ubj_accept_stacks : forall b v, all_bytes b = true ->
  CP.no_huge_zero_typed b = true -> ubj_decode b = RValue v [] ->
  exists evs p, urun_parse None b = Ok (evs, unilE, p) /\
    up_cur p = mku tNext sStart /\ up_stack p = [] /\
    up_vcur p = mku tFail sStart /\ up_vstack p = [] /\
    up_lcur p = 0 /\ up_lstack p = [] /\
    up_buf p = [] /\ up_marker p = 0 /\ up_err p = 0.
Proof.
  intros b v Hb Hz H. destruct (C17_ubj_accept_reset b v Hb Hz H) as (evs & vt & E).
  exists evs, (CP.uset_vtype uparser0 vt). split; [exact E|]. cbn. repeat split.
Qed.

(* ====================================================================== *)
(* Part 3: C18 - the pull decoder                                         *)
(* ====================================================================== *)

(* ---------- Next, unfolded once ---------- *)
Definition udec_body (f : nat) (d1 : udecoder) (s0 : sink) : res (udecoder * sink * Z) :=
  match ufeed_until (ufeed_fuel (ud_p d1) (ud_buf d1)) (ud_p d1) s0 (ud_buf d1) with
  | Ok (UR p1 s1 rest done err) =>
      let d2 := {| ud_p := p1; ud_buf := rest; ud_script := ud_script d1; ud_bytesdec := ud_bytesdec d1 |} in
      if negb (unil err) then Ok ({| ud_p := p1; ud_buf := ud_buf d1; ud_script := ud_script d1; ud_bytesdec := ud_bytesdec d1 |}, s1, err)
      else if done then Ok (d2, s1, unilE)
      else udec_next f d2 s1
  | Ok (UCrash w) => Panic w
  | Err e => Err e | Panic w => Panic w | OutOfFuel => OutOfFuel
  end.

(* Decoder.finalize at the end of the input; [sc] is the script that remains *)
Definition udec_fin (d : udecoder) (sc : list (bytes * Z)) (s : sink) : udecoder * sink * Z :=
  let '(p1, s1, e) := ufin (ud_p d) s in
  ({| ud_p := p1; ud_buf := []; ud_script := sc; ud_bytesdec := ud_bytesdec d |}, s1, if unil e then ueEOF else e).

Inductive ufill_res :=
| UFbody (d1 : udecoder)                 (* go on with d1 (its buffer may be empty: read again) *)
| UFfin (sc : list (bytes * Z))          (* end of input *)
| UFerr (d1 : udecoder) (e : Z).         (* the reader failed *)

Definition udec_fill (d : udecoder) : ufill_res :=
  if zlen (ud_buf d) =? 0 then
    if ud_bytesdec d then UFfin (ud_script d)
    else match ud_script d with
         | [] => UFfin []
         | (data, err) :: rest =>
             let d1 := {| ud_p := ud_p d; ud_buf := data; ud_script := rest; ud_bytesdec := false |} in
             if (zlen data =? 0) && negb (err =? 0) then (if err =? ueEOF then UFfin rest else UFerr d1 err)
             else UFbody d1
         end
  else UFbody d.

Lemma udec_next_S : forall f d s,
  udec_next (S f) d s =
  match udec_fill d with
  | UFbody d1 => if zlen (ud_buf d1) =? 0 then udec_next f d1 s else udec_body f d1 s
  | UFfin sc => Ok (udec_fin d sc s)
  | UFerr d1 e => Ok (d1, s, e)
  end.
Proof.
  intros f d s. cbn [udec_next]. unfold udec_fill, udec_body, udec_fin.
  destruct (zlen (ud_buf d) =? 0); [|reflexivity].
  destruct (ud_bytesdec d) eqn:Eb.
  { destruct (ufin (ud_p d) s) as [[p1 s1] e]. reflexivity. }
  destruct (ud_script d) as [|[data err] rest].
  { destruct (ufin (ud_p d) s) as [[p1 s1] e]. reflexivity. }
  cbv zeta. destruct ((zlen data =? 0) && negb (err =? 0)); [|reflexivity].
  destruct (err =? ueEOF); [|reflexivity].
  destruct (ufin (ud_p d) s) as [[p1 s1] e]. reflexivity.
Qed.

(* everything the decoder will still see *)
Definition utailb (d : udecoder) : bytes :=
  if ud_bytesdec d then [] else concat (map fst (ud_script d)).
Definition urem (d : udecoder) : bytes := ud_buf d ++ utailb d.

Fixpoint uscript_okb (sc : list (bytes * Z)) : bool :=
  match sc with
  | [] => true
  | (data, err) :: r =>
      match r with
      | [] => (err =? 0) || (err =? ueEOF)
      | _ :: _ => (err =? 0) && uscript_okb r
      end
  end.

Lemma uscript_okb_tail : forall x r, uscript_okb (x :: r) = true -> uscript_okb r = true.
Proof.
  intros [data err] r H. destruct r as [|y r]; [reflexivity|].
  cbn [uscript_okb] in H. apply andb_true_iff in H. destruct H as [_ H]. exact H.
Qed.

Lemma uscript_okb_head : forall data err r, uscript_okb ((data, err) :: r) = true ->
  err = 0 \/ (err = ueEOF /\ r = []).
Proof.
  intros data err r H. cbn [uscript_okb] in H. destruct r as [|y r].
  - apply orb_true_iff in H. destruct H as [H|H]; apply Z.eqb_eq in H; auto.
  - apply andb_true_iff in H. destruct H as [H _]. apply Z.eqb_eq in H. auto.
Qed.

Lemma udec_fill_spec : forall d, uscript_okb (ud_script d) = true ->
  match udec_fill d with
  | UFbody d1 => ud_p d1 = ud_p d /\ urem d1 = urem d /\ uscript_okb (ud_script d1) = true /\
                 (length (ud_script d1) < length (ud_script d) \/ (d1 = d /\ ud_buf d <> []))%nat
  | UFfin sc => urem d = [] /\ uscript_okb sc = true
  | UFerr _ _ => False
  end.
Proof.
  intros d H. unfold udec_fill.
  destruct (zlen (ud_buf d) =? 0) eqn:Eb.
  2:{ split; [reflexivity|]. split; [reflexivity|]. split; [exact H|]. right. split; [reflexivity|].
      intros E. rewrite E in Eb. discriminate Eb. }
  apply Z.eqb_eq, zlen_zero in Eb.
  destruct (ud_bytesdec d) eqn:Ebd.
  { split; [|exact H]. unfold urem, utailb. rewrite Eb, Ebd. reflexivity. }
  destruct (ud_script d) as [|[data err] rest] eqn:Es.
  { split; [|reflexivity]. unfold urem, utailb. rewrite Eb, Ebd, Es. reflexivity. }
  cbv zeta. pose proof (uscript_okb_tail _ _ H) as Ht.
  destruct (uscript_okb_head _ _ _ H) as [->|[-> ->]].
  - change (negb (0 =? 0)) with false. rewrite andb_false_r. cbn [ud_p ud_script].
    split; [reflexivity|]. split; [|split; [exact Ht|left; cbn [length]; lia]].
    unfold urem, utailb. cbn [ud_buf ud_script ud_bytesdec]. rewrite Eb, Ebd, Es. reflexivity.
  - destruct ((zlen data =? 0) && negb (ueEOF =? 0)) eqn:Ec.
    + change (ueEOF =? ueEOF) with true. cbv iota. split; [|reflexivity].
      apply andb_true_iff in Ec. destruct Ec as [Ec _]. apply Z.eqb_eq, zlen_zero in Ec. subst data.
      unfold urem, utailb. rewrite Eb, Ebd, Es. reflexivity.
    + cbn [ud_p ud_script]. split; [reflexivity|]. split; [|split; [reflexivity|left; cbn [length]; lia]].
      unfold urem, utailb. cbn [ud_buf ud_script ud_bytesdec]. rewrite Eb, Ebd, Es. cbn [map fst concat app].
      rewrite app_nil_r. reflexivity.
Qed.

(* ---------- the inner loop: invariant, and how it stops ---------- *)
Lemma ufeed_until_post : forall n p s b p1 s1 rest d,
  Inv p -> ufeed_until n p s b = Ok (UR p1 s1 rest d unilE) ->
  Inv p1 /\ (d = true -> u_t (up_cur p1) = tNext) /\ (d = false -> rest = [] /\ cstep p1 = false).
Proof.
  induction n as [|n IH]; intros p s b p1 s1 rest d HI H; [discriminate|].
  cbn [ufeed_until] in H.
  destruct (uexec_step p s b) as [pa sa ra da ea|w] eqn:E; [|discriminate].
  destruct (da || negb (unil ea)) eqn:E1.
  - inversion H; subst. destruct (exec_post _ _ _ _ _ _ _ HI E) as [HI1 Hd].
    split; [exact HI1|]. split; [exact Hd|]. intros ->. rewrite unil_nil in E1. discriminate E1.
  - apply orb_false_iff in E1. destruct E1 as [-> En]. apply negb_false_iff, unil_true in En. subst ea.
    destruct (exec_post _ _ _ _ _ _ _ HI E) as [HI1 _].
    destruct ((zlen ra =? 0) && negb (can_step_without_input pa)) eqn:Ec.
    + inversion H; subst. split; [exact HI1|]. split; [discriminate|]. intros _.
      apply andb_true_iff in Ec. destruct Ec as [Ec1 Ec2]. apply Z.eqb_eq, zlen_zero in Ec1.
      apply negb_true_iff in Ec2. auto.
    + eapply IH; eauto.
Qed.

(* ---------- (a) Next returns, provided the parser's inner loop does ---------- *)
(* Totality of ufeed_until (no panic, enough fuel) is the subject of the UBJSON
   safety proof and is not available here: it is a premise.  What is proved is
   that the decoder adds no failure of its own - in particular an empty read
   (0, nil) is never fed to the parser, which would index b[0]. *)
Definition ufu_total : Prop :=
  forall p s b, Inv p -> b <> [] ->
  exists p1 s1 rest d e, ufeed_until (ufeed_fuel p b) p s b = Ok (UR p1 s1 rest d e).

Definition umeasure (d : udecoder) : nat :=
  (2 * length (ud_script d) + match ud_buf d with [] => 0 | _ => 1 end)%nat.

Theorem C18_ubj_next_total_partial : ufu_total -> forall fuel d s,
  Inv (ud_p d) -> (umeasure d < fuel)%nat ->
  exists d' s' e, udec_next fuel d s = Ok (d', s', e) /\ (e = unilE -> Inv (ud_p d')) /\
                  (umeasure d' <= umeasure d)%nat.
Proof.
  intros Htot. induction fuel as [|f IH]; intros d s HI Hm; [lia|].
  rewrite udec_next_S. unfold udec_fill.
  assert (Body : forall d1, Inv (ud_p d1) -> ud_buf d1 <> [] -> (umeasure d1 <= umeasure d)%nat ->
            exists d' s' e, udec_body f d1 s = Ok (d', s', e) /\ (e = unilE -> Inv (ud_p d')) /\
                            (umeasure d' <= umeasure d)%nat).
  { intros d1 HI1 Hb Hm1. unfold udec_body.
    destruct (Htot (ud_p d1) s (ud_buf d1) HI1 Hb) as (p1 & s1 & rest & dn & err & Heq). rewrite Heq. cbv zeta.
    destruct (unil err) eqn:Ee; cbn [negb].
    - apply unil_true' in Ee. subst err.
      destruct (ufeed_until_post _ _ _ _ _ _ _ _ HI1 Heq) as (HI2 & _ & Hnd).
      destruct dn.
      + eexists _, _, _. split; [reflexivity|]. cbn [ud_p]. split; [auto|].
        unfold umeasure in *. cbn [ud_script ud_buf]. destruct rest; destruct (ud_buf d1); try congruence; lia.
      + destruct (Hnd eq_refl) as [-> _].
        destruct (IH {| ud_p := p1; ud_buf := []; ud_script := ud_script d1; ud_bytesdec := ud_bytesdec d1 |} s1)
          as (d' & s' & e & H1 & H2 & H3); [exact HI2| |].
        { unfold umeasure in *. cbn [ud_script ud_buf] in *. destruct (ud_buf d1); [congruence|lia]. }
        exists d', s', e. split; [exact H1|]. split; [exact H2|].
        unfold umeasure in *. cbn [ud_script ud_buf] in *. destruct (ud_buf d1); lia.
    - eexists _, _, _. split; [reflexivity|]. split; [intros ->; discriminate Ee|].
      unfold umeasure in *. cbn [ud_script ud_buf]. lia. }
  assert (Fin : forall sc, (length sc <= length (ud_script d))%nat ->
            exists d' s' e, Ok (udec_fin d sc s) = Ok (d', s', e) /\ (e = unilE -> Inv (ud_p d')) /\
                            (umeasure d' <= umeasure d)%nat).
  { intros sc Hsc. unfold udec_fin. destruct (ufin (ud_p d) s) as [[p1 s1] e] eqn:Ef.
    eexists _, _, _. split; [reflexivity|]. split.
    - intros E. destruct (unil e) eqn:Ee; [discriminate E|]. subst e. discriminate Ee.
    - unfold umeasure. cbn [ud_script ud_buf]. lia. }
  destruct (zlen (ud_buf d) =? 0) eqn:Eb.
  - assert (Hb : ud_buf d = []) by (apply zlen_zero, Z.eqb_eq; exact Eb).
    destruct (ud_bytesdec d); [apply Fin; lia|].
    destruct (ud_script d) as [|[data err] rest] eqn:Es; [apply Fin; cbn; lia|].
    cbv zeta.
    destruct ((zlen data =? 0) && negb (err =? 0)) eqn:Ec.
    + destruct (err =? ueEOF); [apply Fin; cbn [length]; lia|].
      eexists _, _, _. split; [reflexivity|]. split.
      * intros ->. cbn [ud_p]. exact HI.
      * unfold umeasure. cbn [ud_script ud_buf]. rewrite Es, Hb. cbn [length].
        apply andb_true_iff in Ec. destruct Ec as [Ec _]. apply Z.eqb_eq, zlen_zero in Ec. subst data. lia.
    + cbn [ud_buf]. destruct (zlen data =? 0) eqn:Ed.
      * apply Z.eqb_eq, zlen_zero in Ed. subst data.
        destruct (IH {| ud_p := ud_p d; ud_buf := []; ud_script := rest; ud_bytesdec := false |} s)
          as (d' & s' & e & H1 & H2 & H3); [exact HI| |].
        { unfold umeasure in *. cbn [ud_script ud_buf] in *. rewrite Es, Hb in Hm. cbn [length] in Hm. lia. }
        exists d', s', e. split; [exact H1|]. split; [exact H2|].
        unfold umeasure in *. cbn [ud_script ud_buf] in *. rewrite Es, Hb. cbn [length]. lia.
      * apply Body; cbn [ud_p ud_buf]; [exact HI|intros ->; discriminate Ed|].
        unfold umeasure. cbn [ud_script ud_buf]. rewrite Es, Hb. cbn [length]. destruct data; lia.
  - rewrite Eb. apply Body; [exact HI|intros E; rewrite E in Eb; discriminate Eb|lia].
Qed.

(* ---------- (b) what a nil verdict means ---------- *)
Lemma stk_top_empty : forall c l, stk (c :: l) -> u_t c = tNext -> l = [].
Proof.
  intros c l H Ht. destruct (stk_cases _ _ H) as [[_ E]|[[Hm _] _]]; [exact E|]. contradiction.
Qed.

(* a Next that returns nil stopped exactly when the state stack became empty again;
   nothing is buffered inside the parser, no error is latched *)
Theorem C18_ubj_next_value_partial : forall fuel d s d' s',
  Inv (ud_p d) -> uscript_okb (ud_script d) = true ->
  udec_next fuel d s = Ok (d', s', unilE) ->
  Inv (ud_p d') /\ u_t (up_cur (ud_p d')) = tNext /\ up_stack (ud_p d') = [] /\
  up_buf (ud_p d') = [] /\ up_marker (ud_p d') = 0 /\ uscript_okb (ud_script d') = true.
Proof.
  induction fuel as [|f IH]; intros d s d' s' HI Hsc H; [discriminate|].
  rewrite udec_next_S in H. pose proof (udec_fill_spec d Hsc) as Hf.
  destruct (udec_fill d) as [d1|sc|d1 e]; [| |contradiction].
  - destruct Hf as (Hp & _ & Ho & _).
    assert (HI1 : Inv (ud_p d1)) by (rewrite Hp; exact HI).
    destruct (zlen (ud_buf d1) =? 0); [eapply IH; eauto|].
    unfold udec_body in H.
    destruct (ufeed_until _ _ _ _) as [[p1 s1 rest dn err|w]| | |] eqn:Hfu; try discriminate.
    destruct (unil err) eqn:Ee; cbn [negb] in H; [|inversion H; subst; discriminate Ee].
    apply unil_true' in Ee. subst err.
    destruct (ufeed_until_post _ _ _ _ _ _ _ _ HI1 Hfu) as (HI2 & Hd & _).
    destruct dn; [|eapply IH; [| |exact H]; cbn [ud_p ud_script]; auto].
    inversion H; subst d' s'. cbn [ud_p ud_script]. specialize (Hd eq_refl).
    split; [exact HI2|]. split; [exact Hd|].
    destruct (Inv_top_clean _ HI2 Hd) as [C1 C2].
    destruct HI2 as [_ [Hfail|((Hs & _) & _)]]; [rewrite Hd in Hfail; discriminate|].
    split; [eapply stk_top_empty; eauto|]. auto.
  - unfold udec_fin in H. destruct (ufin (ud_p d) s) as [[p1 s1] e0]. inversion H as [[Hd' Hs' He]].
    destruct (unil e0) eqn:E0; [discriminate He|subst e0; discriminate E0].
Qed.

(* ---------- (c) script independence of the whole run ---------- *)
(* One call of the inner loop on the buffer a, seen as a prefix of the feed of
   a ++ T (T = everything that is still to come). *)
Lemma fu_merge : forall n p s a p1 s1 rest d e,
  ufeed_until n p s a = Ok (UR p1 s1 rest d e) ->
  Inv p -> a <> [] \/ cstep p = true -> forall T, T <> [] ->
  (e <> unilE -> exists p1', R p s (a ++ T) (p1', s1, e)) /\
  (e = unilE -> forall r, R p1 s1 (rest ++ T) r -> exists r', R p s (a ++ T) r' /\ sim r r').
Proof.
  induction n as [|n IH]; intros p s a p1 s1 rest d e H HI Ha T HT; [discriminate|].
  cbn [ufeed_until] in H.
  destruct (uexec_step p s a) as [pa sa ra da ea|w] eqn:E; [|discriminate].
  pose proof (exec_dich p s a T HI Ha HT) as D. rewrite E in D. cbn [Dich] in D.
  (* the loop stops after this step with a nil error *)
  assert (Stop : ea = unilE -> forall r, R pa sa (ra ++ T) r -> (ra <> [] -> da = true) ->
            exists r', R p s (a ++ T) r' /\ sim r r').
  { intros -> r HR Hra.
    assert (HI1 : Inv pa) by (eapply exec_post; eauto).
    destruct D as [D|(-> & _ & _ & D)].
    - destruct (uexec_step p s (a ++ T)) as [p2 s2 rest2 d2 e2|w] eqn:Wh; cbn [ext] in D; [|contradiction].
      destruct D as (<- & <- & D). destruct (D eq_refl) as (<- & ->).
      exists r. split; [|apply sim_refl]. eapply R_more; [exact Wh| |exact HR].
      destruct ra; [exact HT|discriminate].
    - cbn [app] in HR. eapply R_ext_nil; [exact HI1|exact HI|exact (D 2%nat)|exact HR]. }
  destruct (da || negb (unil ea)) eqn:E1.
  - inversion H; subst; clear H. split.
    + intros He. destruct D as [D|(_ & D & _)]; [|congruence].
      destruct (uexec_step p s (a ++ T)) as [p2 s2 rest2 d2 e2|w] eqn:Wh; cbn [ext] in D; [|contradiction].
      destruct D as (<- & <- & _). exists p2. eapply R_err; eauto.
    + intros -> r HR. apply (Stop eq_refl r HR). intros _. rewrite unil_nil in E1.
      destruct d; [reflexivity|discriminate E1].
  - apply orb_false_iff in E1. destruct E1 as [-> En]. apply negb_false_iff, unil_true in En. subst ea.
    destruct ((zlen ra =? 0) && negb (can_step_without_input pa)) eqn:Ec.
    + inversion H; subst; clear H. split; [congruence|]. intros _ r HR.
      apply (Stop eq_refl r HR). intros Hr. exfalso.
      apply andb_true_iff in Ec. destruct Ec as [Ec _]. apply Z.eqb_eq, zlen_zero in Ec. congruence.
    + assert (HI1 : Inv pa) by (eapply exec_post; eauto).
      assert (Ha1 : ra <> [] \/ cstep pa = true).
      { apply andb_false_iff in Ec. destruct Ec as [Ec|Ec].
        - left. intros ->. discriminate Ec.
        - right. apply negb_false_iff in Ec. exact Ec. }
      destruct (IH _ _ _ _ _ _ _ _ H HI1 Ha1 T HT) as [IH1 IH2].
      destruct D as [D|(D1 & _ & D2 & _)]; [|destruct Ha1; congruence].
      destruct (uexec_step p s (a ++ T)) as [p2 s2 rest2 d2 e2|w] eqn:Wh; cbn [ext] in D; [|contradiction].
      destruct D as (<- & <- & D). destruct (D eq_refl) as (<- & ->).
      assert (Hrt : ra ++ T <> []) by (destruct ra; [exact HT|discriminate]).
      split.
      * intros He. destruct (IH1 He) as [p1' R1]. exists p1'. eapply R_more; eauto.
      * intros He r HR. destruct (IH2 He r HR) as (r' & R' & S'). exists r'. split; [|exact S'].
        eapply R_more; eauto.
Qed.

(* the same for Feed, including the case that nothing follows *)
Lemma fu_transfer : forall n p s a p1 s1 rest d,
  ufeed_until n p s a = Ok (UR p1 s1 rest d unilE) -> Inv p -> a <> [] ->
  forall T r, Feed p1 s1 (rest ++ T) r -> exists r', Feed p s (a ++ T) r' /\ sim r r'.
Proof.
  intros n p s a p1 s1 rest d H HI Ha T r F.
  destruct T as [|t T].
  - rewrite app_nil_r in *. exists r. split; [|apply sim_refl]. right. split; [exact Ha|].
    eapply feed_until_sound; [exact H|]. destruct F as [[-> ->]|[Hr HR]].
    + right; left. auto.
    + right; right. auto.
  - assert (HT : t :: T <> []) by discriminate.
    destruct F as [[Hn _]|[_ HR]]; [destruct rest; discriminate|].
    destruct (fu_merge _ _ _ _ _ _ _ _ _ H HI (or_introl Ha) _ HT) as [_ M].
    destruct (M eq_refl r HR) as (r' & R' & S'). exists r'. split; [|exact S'].
    right. split; [apply app_nonnil; exact Ha|exact R'].
Qed.

Lemma fu_err : forall n p s a p1 s1 rest d e,
  ufeed_until n p s a = Ok (UR p1 s1 rest d e) -> e <> unilE -> Inv p -> a <> [] ->
  forall T, exists p1', Feed p s (a ++ T) (p1', s1, e).
Proof.
  intros n p s a p1 s1 rest d e H He HI Ha T.
  destruct T as [|t T].
  - rewrite app_nil_r. exists p1. right. split; [exact Ha|].
    eapply feed_until_sound; [exact H|]. left. auto.
  - destruct (fu_merge _ _ _ _ _ _ _ _ _ H HI (or_introl Ha) (t :: T) ltac:(discriminate)) as [M _].
    destruct (M He) as [p1' R1]. exists p1'. right. split; [apply app_nonnil; exact Ha|exact R1].
Qed.

(* what the decoder reports in total on the stream T: all events of the feed of T,
   then finalize; the last verdict is the error, or io.EOF after a clean end *)
Definition dfin_obs (pm : uparser) (sm : sink) (em : Z) : sink * Z :=
  if unil em then (snd (fst (ufin pm sm)), if unil (snd (ufin pm sm)) then ueEOF else snd (ufin pm sm))
  else (sm, em).
Definition WholeD (p : uparser) (s : sink) (T : bytes) (o : sink * Z) : Prop :=
  exists pm sm em, Feed p s T (pm, sm, em) /\ o = dfin_obs pm sm em.

Lemma WholeD_det : forall p s T o o', WholeD p s T o -> WholeD p s T o' -> o = o'.
Proof.
  intros p s T o o' (pm & sm & em & F & ->) (pm' & sm' & em' & F' & ->).
  pose proof (Feed_det _ _ _ _ _ F F') as E. inversion E; subst. reflexivity.
Qed.

Lemma WholeD_sim : forall p s T r r', Feed p s T r' -> sim r r' ->
  WholeD p s T (dfin_obs (fst (fst r)) (snd (fst r)) (snd r)).
Proof.
  intros p s T [[pm sm] em] [[pm' sm'] em'] F (<- & <- & S). cbn [fst snd].
  exists pm', sm, em. split; [exact F|]. unfold dfin_obs.
  destruct (unil em) eqn:E; [|reflexivity]. apply unil_true' in E. rewrite (S E). reflexivity.
Qed.

(* one Next: either it ends the run with a non-nil verdict, which is then the verdict
   of the whole stream; or it returns nil and the rest of the run is the run of the
   rest of the stream *)
Lemma udec_next_prefix : forall fuel d s d' s' e,
  Inv (ud_p d) -> uscript_okb (ud_script d) = true ->
  udec_next fuel d s = Ok (d', s', e) ->
  (e <> unilE -> WholeD (ud_p d) s (urem d) (s', e)) /\
  (e = unilE -> Inv (ud_p d') /\ uscript_okb (ud_script d') = true /\
                forall o, WholeD (ud_p d') s' (urem d') o -> WholeD (ud_p d) s (urem d) o).
Proof.
  induction fuel as [|f IH]; intros d s d' s' e HI Hsc H; [discriminate|].
  rewrite udec_next_S in H. pose proof (udec_fill_spec d Hsc) as Hf.
  destruct (udec_fill d) as [d1|sc|d1 e1]; [| |contradiction].
  - destruct Hf as (Hp & Hr & Ho & _). rewrite <- Hr, <- Hp.
    assert (HI1 : Inv (ud_p d1)) by (rewrite Hp; exact HI).
    destruct (zlen (ud_buf d1) =? 0) eqn:Eb; [eapply IH; eauto|].
    assert (Hb : ud_buf d1 <> []) by (intros E; rewrite E in Eb; discriminate Eb).
    unfold udec_body in H.
    destruct (ufeed_until _ _ _ _) as [[p1 s1 rest dn err|w]| | |] eqn:Hfu; try discriminate.
    destruct (unil err) eqn:Ee; cbn [negb] in H.
    + apply unil_true' in Ee. subst err.
      destruct (ufeed_until_post _ _ _ _ _ _ _ _ HI1 Hfu) as (HI2 & _ & Hnd).
      (* what follows d2 is transferred to d1 *)
      assert (Tr : forall o, WholeD p1 s1 (rest ++ utailb d1) o -> WholeD (ud_p d1) s (urem d1) o).
      { intros o (pm & sm & em & F & ->).
        destruct (fu_transfer _ _ _ _ _ _ _ _ Hfu HI1 Hb _ _ F) as (r' & F' & S').
        exact (WholeD_sim _ _ _ (pm, sm, em) r' F' S'). }
      destruct dn.
      * inversion H; subst d' s' e. split; [congruence|]. intros _. cbn [ud_p ud_script].
        split; [exact HI2|]. split; [exact Ho|]. exact Tr.
      * match type of H with udec_next f ?d2 _ = _ =>
          destruct (IH d2 _ _ _ _ HI2 Ho H) as [A B] end.
        cbn [ud_p] in A, B. split.
        -- intros He. apply Tr. exact (A He).
        -- intros He. destruct (B He) as (B1 & B2 & B3). split; [exact B1|]. split; [exact B2|].
           intros o Ho'. apply Tr. apply B3. exact Ho'.
    + inversion H; subst d' s' e. split; [|intros ->; discriminate Ee]. intros He.
      destruct (fu_err _ _ _ _ _ _ _ _ _ Hfu He HI1 Hb (utailb d1)) as (p1' & F).
      exists p1', s1, err. split; [exact F|]. unfold dfin_obs. rewrite Ee. reflexivity.
  - destruct Hf as [Hr Ho]. unfold udec_fin in H.
    destruct (ufin (ud_p d) s) as [[p1 s1] e0] eqn:Ef. inversion H; subst d' s' e. split.
    + intros _. rewrite Hr. exists (ud_p d), s, unilE. split; [left; auto|].
      unfold dfin_obs. rewrite unil_nil, Ef. reflexivity.
    + intros E. destruct (unil e0) eqn:E0; [discriminate E|]. subst e0. discriminate E0.
Qed.

(* the whole run: Next until the first non-nil verdict; result: the visitor and that verdict *)
Fixpoint udrain (k fuel : nat) (d : udecoder) (s : sink) : res (sink * Z) :=
  match k with
  | O => OutOfFuel
  | S k' =>
      match udec_next fuel d s with
      | Ok (d', s', e) => if unil e then udrain k' fuel d' s' else Ok (s', e)
      | Err e => Err e | Panic w => Panic w | OutOfFuel => OutOfFuel
      end
  end.

Lemma udrain_whole : forall k fuel d s o,
  Inv (ud_p d) -> uscript_okb (ud_script d) = true ->
  udrain k fuel d s = Ok o -> WholeD (ud_p d) s (urem d) o.
Proof.
  induction k as [|k IH]; intros fuel d s o HI Hsc H; [discriminate|].
  cbn [udrain] in H.
  destruct (udec_next fuel d s) as [[[d' s'] e]| | |] eqn:E; try discriminate.
  destruct (udec_next_prefix _ _ _ _ _ _ HI Hsc E) as [A B].
  destruct (unil e) eqn:Ee.
  - apply unil_true' in Ee. destruct (B Ee) as (B1 & B2 & B3). apply B3. eapply IH; eauto.
  - inversion H; subst. apply A. intros ->. discriminate Ee.
Qed.

(* C18 (c), whole-run form: the complete event sequence delivered by a run of Next
   calls and its final verdict depend only on the parser state and on the bytes that
   are still to come - not on how they are split into the buffer and the reads of a
   well-behaved reader, on empty reads, or on where io.EOF is reported.  (Which
   events are delivered by which call is not covered: see the file header.) *)
Theorem C18_ubj_run_script_independent_partial : forall k1 k2 f1 f2 d1 d2 s o1 o2,
  Inv (ud_p d1) -> ud_p d1 = ud_p d2 -> urem d1 = urem d2 ->
  uscript_okb (ud_script d1) = true -> uscript_okb (ud_script d2) = true ->
  udrain k1 f1 d1 s = Ok o1 -> udrain k2 f2 d2 s = Ok o2 -> o1 = o2.
Proof.
  intros k1 k2 f1 f2 d1 d2 s o1 o2 HI Hp Hr Hs1 Hs2 H1 H2.
  apply (udrain_whole _ _ _ _ _ HI Hs1) in H1.
  assert (HI2 : Inv (ud_p d2)) by (rewrite <- Hp; exact HI).
  apply (udrain_whole _ _ _ _ _ HI2 Hs2) in H2.
  rewrite <- Hp, <- Hr in H2. eapply WholeD_det; eauto.
Qed.

Definition ureader_dec (sc : list (bytes * Z)) : udecoder :=
  {| ud_p := uparser0; ud_buf := []; ud_script := sc; ud_bytesdec := false |}.
Definition ubytes_dec (b : bytes) : udecoder :=
  {| ud_p := uparser0; ud_buf := b; ud_script := []; ud_bytesdec := true |}.

Corollary C18_ubj_reader_as_bytes_partial : forall k1 k2 f1 f2 sc s o1 o2,
  uscript_okb sc = true ->
  udrain k1 f1 (ureader_dec sc) s = Ok o1 ->
  udrain k2 f2 (ubytes_dec (concat (map fst sc))) s = Ok o2 -> o1 = o2.
Proof.
  intros k1 k2 f1 f2 sc s o1 o2 Hsc H1 H2.
  eapply (C18_ubj_run_script_independent_partial k1 k2 f1 f2 (ureader_dec sc) (ubytes_dec (concat (map fst sc))));
    try eassumption; try reflexivity.
  - exact Inv0.
  - unfold urem, utailb, ureader_dec, ubytes_dec. cbn [ud_buf ud_script ud_bytesdec app]. rewrite app_nil_r. reflexivity.
Qed.

Corollary C18_ubj_scripts_same_data_partial : forall k1 k2 f1 f2 sc1 sc2 s o1 o2,
  uscript_okb sc1 = true -> uscript_okb sc2 = true ->
  concat (map fst sc1) = concat (map fst sc2) ->
  udrain k1 f1 (ureader_dec sc1) s = Ok o1 -> udrain k2 f2 (ureader_dec sc2) s = Ok o2 -> o1 = o2.
Proof.
  intros k1 k2 f1 f2 sc1 sc2 s o1 o2 H1 H2 Hc R1 R2.
  eapply (C18_ubj_run_script_independent_partial k1 k2 f1 f2 (ureader_dec sc1) (ureader_dec sc2));
    try eassumption; try reflexivity.
  exact Inv0.
Qed.

(* ====================================================================== *)
(* Part 4: with the safety results of Ubjson/ParseSafety.v                *)
(* ====================================================================== *)
From SF Require Ubjson.ParseSafety.
Module PS := SF.Ubjson.ParseSafety.

(* ---------- C18 (a): Next never panics, for any reader script ---------- *)
Definition no_panic_post (r : res (udecoder * sink * Z)) : Prop :=
  match r with
  | Panic _ => False
  | Ok (d', _, e) => unil e = true -> PS.inv1b (ud_p d') = true
  | _ => True
  end.

Theorem C18_ubj_next_no_panic : forall fuel d s,
  PS.inv1b (ud_p d) = true -> no_panic_post (udec_next fuel d s).
Proof.
  induction fuel as [|f IH]; intros d s Hi; [exact I|].
  rewrite udec_next_S.
  assert (Hfill : match udec_fill d with
                  | UFbody d1 | UFerr d1 _ => ud_p d1 = ud_p d
                  | UFfin _ => True end).
  { unfold udec_fill. destruct (zlen (ud_buf d) =? 0); [|reflexivity].
    destruct (ud_bytesdec d); [exact I|]. destruct (ud_script d) as [|[data err] rest]; [exact I|].
    cbv zeta. destruct (_ && _); [destruct (err =? ueEOF)|]; try exact I; reflexivity. }
  destruct (udec_fill d) as [d1|sc|d1 e].
  - assert (Hi1 : PS.inv1b (ud_p d1) = true) by (rewrite Hfill; exact Hi).
    destruct (zlen (ud_buf d1) =? 0) eqn:Eb; [apply IH; exact Hi1|].
    assert (Hr : PS.ready (ud_p d1) (ud_buf d1)) by (left; intros E; rewrite E in Eb; discriminate Eb).
    pose proof (PS.ufeed_until_safe1 (ufeed_fuel (ud_p d1) (ud_buf d1)) (ud_p d1) s (ud_buf d1) Hi1 Hr) as H.
    unfold udec_body.
    destruct (ufeed_until _ _ _ _) as [[p1 s1 rest dn err|w]|e|w|]; cbn [PS.post_fu] in H; try contradiction; try exact I.
    cbv zeta. destruct (unil err) eqn:Ee; cbn [negb].
    + destruct dn; [cbn [no_panic_post ud_p]; intros _; exact (H eq_refl)|].
      apply IH. cbn [ud_p]. exact (H eq_refl).
    + cbn [no_panic_post]. intros K. congruence.
  - unfold udec_fin. destruct (ufin (ud_p d) s) as [[p1 s1] e0]. cbn [no_panic_post].
    destruct (unil e0) eqn:E0; intros K; [discriminate K|congruence].
  - cbn [no_panic_post]. intros _. rewrite Hfill. exact Hi.
Qed.

Corollary C18_ubj_reader_no_panic : forall fuel sc s w, udec_next fuel (ureader_dec sc) s <> Panic w.
Proof.
  intros fuel sc s w H. pose proof (C18_ubj_next_no_panic fuel (ureader_dec sc) s PS.inv1b_init) as P.
  rewrite H in P. exact P.
Qed.

(* ---------- C18 (a), (b): with the guard of C03 (no '$' directly followed by Z, T or F in
   what is still to come) Next returns; a nil verdict means: the state stack is empty again,
   the invariants hold for the next call, and at least one byte was consumed ---------- *)
Definition udec_good (d : udecoder) : Prop :=
  PS.inv1b (ud_p d) = true /\ PS.ext3b (ud_p d) = true /\ PS.guard (ud_p d) (urem d) /\
  uscript_okb (ud_script d) = true.

Lemma suffix_len : forall b rest : bytes, PS.suffix_of b rest -> (length rest <= length b)%nat.
Proof. intros b rest [pre ->]. rewrite app_length. lia. Qed.

Theorem C18_ubj_next_total : forall fuel d s,
  udec_good d -> (umeasure d < fuel)%nat ->
  exists d' s' e, udec_next fuel d s = Ok (d', s', e) /\
    (e = unilE -> udec_good d' /\ up_stack (ud_p d') = [] /\
                  (length (urem d') <= length (urem d))%nat /\
                  (u_t (up_cur (ud_p d)) = tNext -> (length (urem d') < length (urem d))%nat) /\
                  (umeasure d' <= umeasure d)%nat).
Proof.
  induction fuel as [|f IH]; intros d s (Hi & He & Hg & Hsc) Hm; [lia|].
  rewrite udec_next_S. pose proof (udec_fill_spec d Hsc) as Hf.
  destruct (udec_fill d) as [d1|sc|d1 e1]; [| |contradiction].
  - destruct Hf as (Hp & Hr & Ho & Hms).
    assert (Hgood1 : udec_good d1) by (unfold udec_good; rewrite Hp, Hr; auto).
    assert (Hm1 : (umeasure d1 <= umeasure d)%nat /\ (ud_buf d1 = [] -> umeasure d1 < umeasure d)%nat).
    { destruct Hms as [Hms|[-> Hb]]; [|split; [lia|intros; contradiction]].
      unfold umeasure. destruct (ud_buf d1), (ud_buf d); split; intros; lia. }
    destruct Hm1 as [Hm1 Hm2].
    destruct (zlen (ud_buf d1) =? 0) eqn:Eb.
    + apply Z.eqb_eq, zlen_zero in Eb.
      destruct (IH d1 s Hgood1) as (d' & s' & e & H1 & H2); [specialize (Hm2 Eb); lia|].
      exists d', s', e. split; [exact H1|]. rewrite <- Hr, <- Hp. intros E'.
      destruct (H2 E') as (X1 & X2 & X3 & X4 & X5). repeat (split; [assumption|]). lia.
    + assert (Hb : ud_buf d1 <> []) by (intros E; rewrite E in Eb; discriminate Eb).
      destruct Hgood1 as (Hi1 & He1 & Hg1 & _).
      destruct (PS.ufeed_until_total (ufeed_fuel (ud_p d1) (ud_buf d1)) (ud_p d1) s (ud_buf d1) (utailb d1)
                  Hi1 He1 (or_introl Hb) Hg1 (PS.phi_fuel _ _))
        as (p1 & s1 & rest & dn & err & Heq & Hok).
      unfold udec_body. rewrite Heq. cbv zeta.
      destruct (unil err) eqn:Ee; cbn [negb].
      * destruct (Hok eq_refl) as (A & B & C & D & E & F & G).
        assert (Hlen : (length rest <= length (ud_buf d1))%nat) by (apply suffix_len; exact C).
        assert (Hstrict : u_t (up_cur (ud_p d)) = tNext -> (length rest < length (ud_buf d1))%nat).
        { intros Ht. rewrite <- Hp in Ht. assert (K : (u_t (up_cur (ud_p d1)) =? 1) = true) by (rewrite Ht; reflexivity).
          specialize (G K). unfold zlen in G. lia. }
        destruct dn.
        -- eexists _, _, _. split; [reflexivity|]. intros _. cbn [ud_p].
           split; [unfold udec_good; cbn [ud_p ud_script]; unfold urem; cbn [ud_buf]; auto|].
           split; [apply E; reflexivity|].
           rewrite <- Hr. unfold urem. cbn [ud_buf]. rewrite !app_length.
           change (utailb {| ud_p := p1; ud_buf := rest; ud_script := ud_script d1; ud_bytesdec := ud_bytesdec d1 |})
             with (utailb d1).
           split; [lia|]. split; [intros Ht; specialize (Hstrict Ht); lia|].
           unfold umeasure in *. cbn [ud_script ud_buf]. destruct rest; destruct (ud_buf d1); try congruence; lia.
        -- specialize (F eq_refl). subst rest.
           set (d2 := {| ud_p := p1; ud_buf := []; ud_script := ud_script d1; ud_bytesdec := ud_bytesdec d1 |}).
           assert (Hgood2 : udec_good d2).
           { unfold udec_good, d2. cbn [ud_p ud_script]. unfold urem. cbn [ud_buf]. auto. }
           destruct (IH d2 s1 Hgood2) as (d' & s' & e & H1 & H2).
           { unfold umeasure, d2 in *. cbn [ud_script ud_buf] in *. destruct (ud_buf d1); [congruence|lia]. }
           exists d', s', e. split; [exact H1|]. intros E'. destruct (H2 E') as (X1 & X2 & X3 & _ & X5).
           split; [exact X1|]. split; [exact X2|].
           assert (Hr2 : urem d2 = utailb d1) by reflexivity. rewrite Hr2 in X3.
           rewrite <- Hr. unfold urem at 2 4. rewrite !app_length.
           split; [lia|]. split.
           ++ intros Ht. specialize (Hstrict Ht). cbn [length] in Hstrict. destruct (ud_buf d1); [congruence|cbn [length]; lia].
           ++ unfold umeasure, d2 in *. cbn [ud_script ud_buf] in *. destruct (ud_buf d1); lia.
      * eexists _, _, _. split; [reflexivity|]. intros ->. discriminate Ee.
  - unfold udec_fin. destruct (ufin (ud_p d) s) as [[p1 s1] e0]. eexists _, _, _. split; [reflexivity|].
    intros K. destruct (unil e0) eqn:E0; [discriminate K|]. subst e0. discriminate E0.
Qed.

Lemma udec_good_reader : forall sc, uscript_okb sc = true -> PS.no_zero_typed (concat (map fst sc)) = true ->
  udec_good (ureader_dec sc).
Proof.
  intros sc H1 H2. unfold udec_good, ureader_dec. cbn [ud_p ud_script].
  split; [reflexivity|]. split; [reflexivity|]. split; [|exact H1]. apply PS.guard_init. exact H2.
Qed.

(* the whole run returns: at most one Next per byte, plus the final one *)
Lemma udrain_total : forall n fuel d s,
  (length (urem d) <= n)%nat -> udec_good d -> u_t (up_cur (ud_p d)) = tNext -> (umeasure d < fuel)%nat ->
  exists o, udrain (S n) fuel d s = Ok o.
Proof.
  induction n as [|n IH]; intros fuel d s Hn Hg Ht Hm; cbn [udrain];
    destruct (C18_ubj_next_total fuel d s Hg Hm) as (d' & s' & e & H & Hnil); rewrite H;
    (destruct (unil e) eqn:Ee; [|eauto]); apply unil_true' in Ee;
    destruct (Hnil Ee) as (Hg' & Hs' & _ & Hlt & Hm'); specialize (Hlt Ht).
  - lia.
  - apply IH; [lia|exact Hg'| |lia].
    destruct Hg' as (_ & He' & _). pose proof (PS.chain_nil_next _ He' Hs') as K. apply Z.eqb_eq in K. exact K.
Qed.

(* C18 (a)+(c) together: two well-behaved scripts with the same data (containing no '$'
   directly followed by Z, T or F): both complete runs return, with the same events
   and the same final verdict *)
Theorem C18_ubj_scripts_same_data : forall sc1 sc2 s fuel,
  uscript_okb sc1 = true -> uscript_okb sc2 = true ->
  concat (map fst sc1) = concat (map fst sc2) ->
  PS.no_zero_typed (concat (map fst sc1)) = true ->
  (2 * length sc1 + 1 <= fuel)%nat -> (2 * length sc2 + 1 <= fuel)%nat ->
  exists o, udrain (S (length (concat (map fst sc1)))) fuel (ureader_dec sc1) s = Ok o /\
            udrain (S (length (concat (map fst sc1)))) fuel (ureader_dec sc2) s = Ok o.
Proof.
  intros sc1 sc2 s fuel H1 H2 Hc Hz Hf1 Hf2.
  destruct (udrain_total (length (concat (map fst sc1))) fuel (ureader_dec sc1) s) as (o1 & R1).
  { unfold urem, utailb, ureader_dec. cbn [ud_buf ud_script ud_bytesdec app]. lia. }
  { apply udec_good_reader; assumption. }
  { reflexivity. }
  { unfold umeasure, ureader_dec. cbn [ud_script ud_buf]. lia. }
  destruct (udrain_total (length (concat (map fst sc1))) fuel (ureader_dec sc2) s) as (o2 & R2).
  { unfold urem, utailb, ureader_dec. cbn [ud_buf ud_script ud_bytesdec app]. rewrite Hc. lia. }
  { apply udec_good_reader; [assumption|]. rewrite <- Hc. exact Hz. }
  { reflexivity. }
  { unfold umeasure, ureader_dec. cbn [ud_script ud_buf]. lia. }
  exists o1. split; [exact R1|]. rewrite R2. f_equal. symmetry.
  eapply (C18_ubj_scripts_same_data_partial _ _ _ _ sc1 sc2); eauto.
Qed.

(* ---------- C17 for any accepted input without zero-sized element types: the
   valueState stack is empty again, too ---------- *)
Lemma R_end_nostep : forall p s b r, R p s b r -> Inv p -> snd r = unilE -> cstep (fst (fst r)) = false.
Proof.
  induction 1 as [p s a p1 s1 rest d e E Hn | p s a p1 s1 rest d r E Hr HR IH
                 | p s a p1 s1 r E Hx HR IH | p s a p1 s1 d E Hd]; intros HI Hn'; cbn [fst snd] in *.
  - congruence.
  - apply IH; auto. eapply exec_post; eauto.
  - apply IH; auto. eapply exec_post; eauto.
  - destruct Hd as [->|Hd]; [|exact Hd].
    pose proof (exec_post _ _ _ _ _ _ _ HI E) as P. exact (done_nostep _ _ P eq_refl).
Qed.

Lemma ufinalize_nostep : forall fuel p s p' s',
  cstep p = false -> ufinalize fuel p s = (p', s', unilE) -> p' = p /\ s' = s.
Proof.
  intros [|f] p s p' s' Hc H; cbn [ufinalize] in H; [inversion H|].
  unfold cstep, can_step_without_input in Hc.
  destruct (zlen (up_stack p) >? 0).
  - destruct ((u_t (up_cur p) =? tArrayCount) || (u_t (up_cur p) =? tArrayTyped)) eqn:Ea.
    + destruct (negb (up_lcur p =? 0) || negb (u_s (up_cur p) =? sCont)) eqn:Ec; [inversion H|].
      exfalso. apply orb_false_iff in Ec. destruct Ec as [E1 E2].
      apply negb_false_iff in E1. apply negb_false_iff in E2.
      apply orb_true_iff in Ea. destruct Ea as [Ea|Ea]; apply Z.eqb_eq in Ea; rewrite Ea in Hc;
        cbn in Hc; rewrite E1, E2 in Hc; cbn in Hc; rewrite ?orb_true_r in Hc; discriminate Hc.
    + destruct ((u_t (up_cur p) =? tObjectCount) || (u_t (up_cur p) =? tObjectTyped)) eqn:Eo; [|inversion H].
      destruct (negb (up_lcur p =? 0) || negb (u_s (up_cur p) =? sFieldName)) eqn:Ec; [inversion H|].
      exfalso. apply orb_false_iff in Ec. destruct Ec as [E1 E2].
      apply negb_false_iff in E1. apply negb_false_iff in E2.
      apply orb_true_iff in Eo. destruct Eo as [Eo|Eo]; apply Z.eqb_eq in Eo; rewrite Eo in Hc;
        cbn in Hc; rewrite E1, E2 in Hc; cbn in Hc; rewrite ?orb_true_r in Hc; discriminate Hc.
  - destruct (negb (u_s (up_cur p) =? sStart) || negb (u_t (up_cur p) =? tNext)); inversion H; auto.
Qed.

Lemma top_vstack : forall p, PS.inv1b p = true -> PS.ext3b p = true ->
  up_stack p = [] -> u_t (up_cur p) = tNext -> u_s (up_cur p) = sStart ->
  up_vcur p = mku tFail sStart /\ up_vstack p = [].
Proof.
  intros p Hi He Hs Ht Hst.
  destruct (PS.ext3_split _ He) as (_ & Hv & _). unfold PS.vbal_f in Hv.
  apply andb_true_iff in Hv. destruct Hv as [Hv Hbal]. apply andb_true_iff in Hv. destruct Hv as [_ Hnf].
  rewrite Hs in Hbal. cbn [PS.tcount] in Hbal.
  assert (HT : PS.Tz (up_cur p) = 0).
  { unfold PS.Tz, PS.st_in. rewrite Ht, Hst. reflexivity. }
  rewrite HT in Hbal. unfold PS.vdepth in Hbal.
  destruct (u_t (up_vcur p) =? 0) eqn:Ev.
  2:{ exfalso. pose proof (PS.zlen_nonneg _ (up_vstack p)). lia. }
  unfold PS.nonfail in Hnf. rewrite Ev in Hnf. cbn [negb orb] in Hnf.
  split.
  - unfold PS.inv1b in Hi. apply andb_true_iff in Hi. destruct Hi as [Hi _]. apply andb_true_iff in Hi. destruct Hi as [_ Hvc].
    apply PS.st_in_In in Hvc. apply Z.eqb_eq in Ev.
    destruct (up_vcur p) as [t0 s0]. cbn [u_t u_s] in *. subst t0.
    unfold PS.vstates, PS.fresh_states in Hvc. cbn [In] in Hvc.
    repeat (destruct Hvc as [Hvc|Hvc]; [inversion Hvc; subst; try reflexivity; try discriminate|]). contradiction.
  - destruct (up_vstack p) as [|x l]; [reflexivity|]. unfold zlen in Hnf. cbn [length] in Hnf. lia.
Qed.

Theorem C17_ubj_parse_vstack : forall s b p' s',
  PS.no_zero_typed b = true -> up_parse uparser0 s b = Ok (p', s', unilE) ->
  top p' /\ up_vcur p' = mku tFail sStart /\ up_vstack p' = [].
Proof.
  intros s b p' s' Hz H.
  destruct (C17_ubj_parse_top _ _ _ _ _ Inv0 H) as [Htop _]. split; [exact Htop|].
  unfold up_parse in H.
  destruct (PS.ufeed_total (2 * length b + 2) uparser0 s b [] PS.inv1b_init PS.ext3b_init) as (p1 & s1 & err & Heq & Hok).
  { rewrite app_nil_r. apply PS.guard_init. exact Hz. }
  { change (u_t (up_cur uparser0) =? 1) with true. cbv iota. unfold zlen. lia. }
  rewrite Heq in H. destruct (unil err) eqn:Ee; [|inversion H; subst; discriminate Ee].
  apply unil_true' in Ee. subst err. destruct (Hok eq_refl) as (Hi1 & He1 & _).
  inversion H as [H0]. clear H.
  apply feed_sound in Heq.
  assert (Hc : cstep p1 = false).
  { destruct Heq as [[_ E]|[_ HR]].
    - inversion E; subst. reflexivity.
    - exact (R_end_nostep _ _ _ _ HR Inv0 eq_refl). }
  unfold ufin in H0. destruct (ufinalize_nostep _ _ _ _ _ Hc H0) as [-> ->].
  destruct Htop as (Hcur & Hs & _).
  apply top_vstack; auto; rewrite Hcur; reflexivity.
Qed.

Corollary C17_ubj_run_parse_vstack : forall vfail b evs p,
  PS.no_zero_typed b = true -> urun_parse vfail b = Ok (evs, unilE, p) ->
  top p /\ up_vcur p = mku tFail sStart /\ up_vstack p = [].
Proof.
  intros vfail b evs p Hz H. unfold urun_parse in H.
  destruct (up_parse uparser0 (sink0 vfail) b) as [[[p' s'] e']| | |] eqn:E; try discriminate.
  inversion H; subst. eapply C17_ubj_parse_vstack; eauto.
Qed.

Print Assumptions C16_ubj_parse_prompt.
Print Assumptions C16_ubj_parse_fail_spec.
Print Assumptions C16_ubj_parse_prefix.
Print Assumptions C16_ubj_run_parse_prompt.
Print Assumptions C16_ubj_run_parse_fail_spec.
Print Assumptions C16_ubj_run_parse_prefix.
Print Assumptions C17_ubj_parse_top.
Print Assumptions C17_ubj_parse_top_any.
Print Assumptions C17_ubj_writes_top.
Print Assumptions C17_ubj_run_parse_top.
Print Assumptions C17_ubj_run_chunks_top.
Print Assumptions C17_ubj_accept_reset.
Print Assumptions C17_ubj_accept_stacks.
Print Assumptions C18_ubj_next_total_partial.
Print Assumptions C18_ubj_next_value_partial.
Print Assumptions C18_ubj_run_script_independent_partial.
Print Assumptions C18_ubj_reader_as_bytes_partial.
Print Assumptions C18_ubj_scripts_same_data_partial.
Print Assumptions C18_ubj_next_no_panic.
Print Assumptions C18_ubj_reader_no_panic.
Print Assumptions C18_ubj_next_total.
Print Assumptions C17_ubj_parse_vstack.
Print Assumptions C17_ubj_run_parse_vstack.
Print Assumptions C18_ubj_scripts_same_data.
