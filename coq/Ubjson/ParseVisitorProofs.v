(* C16 / C17 / C18 for the UBJSON parser model: how the parser treats its
   visitor, what state it is in after an accepted document, and the pull decoder. *)
From Coq Require Import Setoid List NArith ZArith Bool Lia.
From Coq Require Import ZifyBool ZifyNat ZifyN.
From SF Require Import Base.Prelude Core.Events Ubjson.Spec Ubjson.Parse Ubjson.ChunkProofs.
Import ListNotations.
Open Scope Z_scope.
Ltac Zify.zify_post_hook ::= Z.div_mod_to_equations.

(* ====================================================================== *)
(* Part 0: visitor programs.  A function of the sink is "representable"   *)
(* when it is the interpretation of a straight-line program of visitor    *)
(* calls that returns at the first failing call with that call's error.   *)
(* ====================================================================== *)

Definition out (A : Type) : Type := option (A * sink * Z).

Inductive prog (A : Type) : Type :=
| PRet (a : A) (e : Z)
| PAbort
| PVis (ev : event) (afail : A) (k : prog A).
Arguments PRet {A} a e.
Arguments PAbort {A}.
Arguments PVis {A} ev afail k.

Fixpoint run {A} (pr : prog A) (s : sink) : out A :=
  match pr with
  | PRet a e => Some (a, s, e)
  | PAbort => None
  | PVis ev af k => let '(s1, ok) := emit s ev in if ok then run k s1 else Some (af, s1, ueVisitor)
  end.

Fixpoint ptrace {A} (pr : prog A) : list event :=
  match pr with PVis ev _ k => ev :: ptrace k | _ => [] end.
Fixpoint pfinal {A} (pr : prog A) : option (A * Z) :=
  match pr with PRet a e => Some (a, e) | PAbort => None | PVis _ _ k => pfinal k end.

Definition s_add (s : sink) (l : list event) : sink :=
  {| s_rlog := rev l ++ s_rlog s; s_n := length l + s_n s; s_fail := s_fail s |}.

Lemma s_add_nil : forall s, s_add s [] = s.
Proof. intros [l n f]; reflexivity. Qed.

Lemma s_add_add : forall s l1 l2, s_add (s_add s l1) l2 = s_add s (l1 ++ l2).
Proof.
  intros s l1 l2. unfold s_add; cbn [s_rlog s_n s_fail]. f_equal.
  - rewrite rev_app_distr, app_assoc. reflexivity.
  - rewrite app_length. lia.
Qed.

Lemma emit_spec : forall s e,
  emit s e = (s_add s [e], match s_fail s with Some k => Nat.ltb (s_n s) k | None => true end).
Proof. intros s e. unfold emit, s_add. cbn [rev app length Nat.add]. destruct (s_fail s); reflexivity. Qed.

Definition final_out {A} (pr : prog A) (s : sink) : out A :=
  match pfinal pr with Some (a, e) => Some (a, s_add s (ptrace pr), e) | None => None end.

Lemma run_nofail : forall A (pr : prog A) s, s_fail s = None -> run pr s = final_out pr s.
Proof.
  induction pr as [a e| |ev af k IH]; intros s Hs; unfold final_out; cbn [run pfinal ptrace].
  - rewrite s_add_nil. reflexivity.
  - reflexivity.
  - rewrite emit_spec, Hs. rewrite IH by exact Hs. unfold final_out.
    destruct (pfinal k) as [[a e]|]; [|reflexivity]. rewrite s_add_add. reflexivity.
Qed.

Lemma run_fail : forall A (pr : prog A) s k, s_fail s = Some k -> (s_n s <= k)%nat ->
  (if (length (ptrace pr) <=? k - s_n s)%nat then run pr s = final_out pr s
   else exists af, run pr s = Some (af, s_add s (firstn (S (k - s_n s)) (ptrace pr)), ueVisitor)).
Proof.
  induction pr as [a e| |ev af k0 IH]; intros s k Hs Hn; cbn [run pfinal ptrace length].
  - cbn [Nat.leb]. unfold final_out. cbn [pfinal ptrace]. rewrite s_add_nil. reflexivity.
  - reflexivity.
  - rewrite emit_spec, Hs.
    destruct (Nat.ltb (s_n s) k) eqn:E.
    + apply Nat.ltb_lt in E.
      assert (Hs1 : s_fail (s_add s [ev]) = Some k) by exact Hs.
      assert (Hn1 : (s_n (s_add s [ev]) <= k)%nat) by (cbn [s_add s_n length]; lia).
      specialize (IH _ _ Hs1 Hn1).
      replace (k - s_n (s_add s [ev]))%nat with (k - s_n s - 1)%nat in IH by (cbn [s_add s_n length]; lia).
      destruct (Nat.leb (S (length (ptrace k0))) (k - s_n s)) eqn:L.
      * apply Nat.leb_le in L.
        assert (L' : Nat.leb (length (ptrace k0)) (k - s_n s - 1) = true) by (apply Nat.leb_le; lia).
        rewrite L' in IH. rewrite IH. unfold final_out. cbn [pfinal ptrace].
        destruct (pfinal k0) as [[a e]|]; [|reflexivity]. rewrite s_add_add. reflexivity.
      * apply Nat.leb_gt in L.
        assert (L' : Nat.leb (length (ptrace k0)) (k - s_n s - 1) = false) by (apply Nat.leb_gt; lia).
        rewrite L' in IH. destruct IH as [af' IH]. exists af'. rewrite IH. rewrite s_add_add.
        replace (S (k - s_n s)) with (S (S (k - s_n s - 1))) by lia. reflexivity.
    + apply Nat.ltb_ge in E. assert (k - s_n s = 0)%nat as -> by lia.
      cbn [Nat.leb]. exists af. reflexivity.
Qed.

(* representability *)
Definition Rep {A} (f : sink -> out A) : Type := { pr : prog A | forall s, f s = run pr s }.

Lemma Rep_ret : forall A (a : A) e, Rep (fun s => Some (a, s, e)).
Proof. intros A a e. exists (PRet a e). reflexivity. Qed.

Lemma Rep_abort : forall A, Rep (fun _ => @None (A * sink * Z)).
Proof. intros A. exists PAbort. reflexivity. Qed.

Lemma Rep_ext : forall A (f g : sink -> out A), (forall s, f s = g s) -> Rep g -> Rep f.
Proof. intros A f g H [pr Hpr]. exists pr. intros s. rewrite H. apply Hpr. Qed.

Lemma uvis_emit : forall s ev s1 ok, emit s ev = (s1, ok) -> uvis s ev = (s1, if ok then unilE else ueVisitor).
Proof. intros s ev s1 ok E. unfold uvis. rewrite E. reflexivity. Qed.

(* the visitor call: on failure the function returns at once with the visitor's error *)
Lemma Rep_vis : forall A (f : sink -> out A) ev af (g : sink -> out A),
  (forall s s1, uvis s ev = (s1, unilE) -> f s = g s1) ->
  (forall s s1, uvis s ev = (s1, ueVisitor) -> f s = Some (af, s1, ueVisitor)) ->
  Rep g -> Rep f.
Proof.
  intros A f ev af g H1 H2 [pr Hpr]. exists (PVis ev af pr). intros s. cbn [run].
  destruct (emit s ev) as [s1 ok] eqn:E. apply uvis_emit in E. destruct ok.
  - rewrite (H1 _ _ E). apply Hpr.
  - apply (H2 _ _ E).
Qed.

(* sequencing: the continuation runs only after a nil error *)
Fixpoint pbind {A B} (pr : prog A) (phi : A -> Z -> B) (K : A -> prog B) : prog B :=
  match pr with
  | PRet a e => if unil e then K a else PRet (phi a e) e
  | PAbort => PAbort
  | PVis ev af k => PVis ev (phi af ueVisitor) (pbind k phi K)
  end.

Lemma run_pbind : forall A B (pr : prog A) (phi : A -> Z -> B) K s,
  run (pbind pr phi K) s =
  match run pr s with
  | None => None
  | Some (a, s1, e) => if unil e then run (K a) s1 else Some (phi a e, s1, e)
  end.
Proof.
  induction pr as [a e| |ev af k IH]; intros phi K s; cbn [pbind run].
  - destruct (unil e); reflexivity.
  - reflexivity.
  - destruct (emit s ev) as [s1 ok]. destruct ok; [apply IH|reflexivity].
Qed.

Lemma Rep_bind : forall A B (g : sink -> out A) (phi : A -> Z -> B) (h : A -> sink -> out B)
  (f : sink -> out B),
  Rep g -> (forall a, Rep (h a)) ->
  (forall s, f s = match g s with
                   | None => None
                   | Some (a, s1, e) => if unil e then h a s1 else Some (phi a e, s1, e)
                   end) ->
  Rep f.
Proof.
  intros A B g phi h f [pg Hg] Hh Hf.
  exists (pbind pg phi (fun a => proj1_sig (Hh a))). intros s.
  rewrite Hf, run_pbind, Hg. destruct (run pg s) as [[[a s1] e]|]; [|reflexivity].
  destruct (unil e); [|reflexivity]. apply (proj2_sig (Hh a)).
Qed.

Lemma unil_true' : forall e, unil e = true -> e = unilE.
Proof. intros e H. apply Z.eqb_eq in H. exact H. Qed.

Lemma Rep_map : forall A B (g : sink -> out A) (phi : A -> Z -> B) (f : sink -> out B),
  Rep g ->
  (forall s, f s = match g s with None => None | Some (a, s1, e) => Some (phi a e, s1, e) end) ->
  Rep f.
Proof.
  intros A B g phi f Hg Hf.
  apply (Rep_bind A B g phi (fun a s => Some (phi a unilE, s, unilE)) f Hg).
  - intros a. apply Rep_ret.
  - intros s. rewrite Hf. destruct (g s) as [[[a s1] e]|]; [|reflexivity].
    destruct (unil e) eqn:E; [|reflexivity]. apply unil_true' in E. subst e. reflexivity.
Qed.

(* ---------- what representability gives ---------- *)
Lemma s_log_add0 : forall f l, s_log (s_add (sink0 f) l) = l.
Proof. intros. unfold s_log, s_add, sink0. cbn [s_rlog]. rewrite app_nil_r. apply rev_involutive. Qed.

Lemma rep_prompt0 : forall A (f : sink -> out A), Rep f -> forall k a s e,
  f (sink0 (Some k)) = Some (a, s, e) ->
  (length (s_log s) <= S k)%nat /\ (length (s_log s) = S k -> e = ueVisitor).
Proof.
  intros A f [pr Hpr] k a s e H. rewrite Hpr in H.
  pose proof (run_fail A pr (sink0 (Some k)) k eq_refl (Nat.le_0_l k)) as R.
  cbn [sink0 s_n] in R. rewrite Nat.sub_0_r in R.
  destruct (Nat.leb (length (ptrace pr)) k) eqn:L.
  - apply Nat.leb_le in L. rewrite R in H. unfold final_out in H.
    destruct (pfinal pr) as [[a' e']|]; [|discriminate]. inversion H; subst.
    change {| s_rlog := []; s_n := 0; s_fail := Some k |} with (sink0 (Some k)).
    rewrite s_log_add0. split; lia.
  - apply Nat.leb_gt in L. destruct R as [af R].
    remember (firstn (S k) (ptrace pr)) as t eqn:Ht.
    rewrite R in H. injection H as Ha Hs He. subst a s e.
    change {| s_rlog := []; s_n := 0; s_fail := Some k |} with (sink0 (Some k)).
    rewrite s_log_add0. split; [|reflexivity]. subst t. rewrite firstn_length. lia.
Qed.

Lemma rep_prefix0 : forall A (f : sink -> out A), Rep f -> forall k a0 s0 e0,
  f (sink0 None) = Some (a0, s0, e0) ->
  exists a s, f (sink0 (Some k)) = Some (a, s, if (length (s_log s0) <=? k)%nat then e0 else ueVisitor) /\
              s_log s = firstn (S k) (s_log s0) /\
              ((length (s_log s0) <= k)%nat -> a = a0).
Proof.
  intros A f [pr Hpr] k a0 s0 e0 H. rewrite Hpr in H. rewrite Hpr.
  rewrite run_nofail in H by reflexivity. unfold final_out in H.
  destruct (pfinal pr) as [[a' e']|] eqn:F; [|discriminate]. inversion H; subst. clear H.
  rewrite s_log_add0.
  pose proof (run_fail A pr (sink0 (Some k)) k eq_refl (Nat.le_0_l k)) as R.
  cbn [sink0 s_n] in R. rewrite Nat.sub_0_r in R.
  change {| s_rlog := []; s_n := 0; s_fail := Some k |} with (sink0 (Some k)) in R.
  destruct (Nat.leb (length (ptrace pr)) k) eqn:L.
  - apply Nat.leb_le in L. rewrite R. unfold final_out. rewrite F.
    eexists _, _. split; [reflexivity|]. rewrite s_log_add0. split; [|reflexivity].
    symmetry. apply firstn_all2. lia.
  - apply Nat.leb_gt in L. destruct R as [af R]. rewrite R.
    eexists _, _. split; [reflexivity|]. rewrite s_log_add0. split; [reflexivity|]. lia.
Qed.

Lemma rep_prompt_gen : forall A (f : sink -> out A), Rep f -> forall s k a s' e,
  s_fail s = Some k -> (s_n s <= k)%nat -> f s = Some (a, s', e) ->
  exists l, s' = s_add s l /\ (s_n s' <= S k)%nat /\ (s_n s' = S k -> e = ueVisitor).
Proof.
  intros A f [pr Hpr] s k a s' e Hs Hn H. rewrite Hpr in H.
  pose proof (run_fail A pr s k Hs Hn) as R.
  destruct (Nat.leb (length (ptrace pr)) (k - s_n s)) eqn:L.
  - apply Nat.leb_le in L. rewrite R in H. unfold final_out in H.
    destruct (pfinal pr) as [[a' e']|]; [|discriminate]. inversion H; subst.
    exists (ptrace pr). split; [reflexivity|]. cbn [s_add s_n]. split; lia.
  - apply Nat.leb_gt in L. destruct R as [af R].
    remember (firstn (S (k - s_n s)) (ptrace pr)) as t eqn:Ht.
    rewrite R in H. inversion H; subst a s' e.
    exists t. split; [reflexivity|]. cbn [s_add s_n].
    assert (length t = S (k - s_n s)) by (subst t; rewrite firstn_length; lia).
    split; [lia|reflexivity].
Qed.

(* ====================================================================== *)
(* Part 1: every parser function is representable (core lemma of C16)     *)
(* ====================================================================== *)

Definition osr (r : ures) : out (uparser * bytes * bool) :=
  match r with UR p s rest d e => Some ((p, rest, d), s, e) | UCrash _ => None end.

Ltac vred :=
  cbv beta iota zeta;
  change (unil unilE) with true; change (unil ueVisitor) with false;
  cbn [andb orb negb];
  cbv beta iota zeta.

Ltac vis_step :=
  eapply Rep_vis;
  [ let s := fresh "s" in let s1 := fresh "s1" in let E := fresh "E" in
    intros s s1 E; cbv beta; rewrite E; vred; reflexivity
  | let s := fresh "s" in let s1 := fresh "s1" in let E := fresh "E" in
    intros s s1 E; cbv beta; rewrite E; vred; reflexivity
  | cbv beta ].

Lemma Rep_sr : forall p rest d e, Rep (fun s => osr (UR p s rest d e)).
Proof. intros. apply (Rep_ret _ (p, rest, d) e). Qed.
Lemma Rep_crash : forall w, Rep (fun s => osr (UCrash w)).
Proof. intros. apply Rep_abort. Qed.

Lemma Rep_of_ul : forall r, Rep (fun s => osr (of_ul r s)).
Proof. intros [p rest err|w]; [apply Rep_sr|apply Rep_crash]. Qed.

Lemma Rep_nodone : forall (f : sink -> ures),
  Rep (fun s => osr (f s)) -> Rep (fun s => osr (value_nodone (f s))).
Proof.
  intros f H. apply (Rep_map _ _ _ (fun a _ => (fst (fst a), snd (fst a), false)) _ H).
  intros s. destruct (f s); reflexivity.
Qed.

Lemma Rep_latch : forall (f : sink -> ures),
  Rep (fun s => osr (f s)) -> Rep (fun s => osr (xlatch (f s))).
Proof.
  intros f H.
  apply (Rep_map _ _ _ (fun a e => if unil e then a else (uset_err (fst (fst a)) e, snd (fst a), snd a)) _ H).
  intros s. destruct (f s) as [p1 s1 rest d err|w]; [|reflexivity].
  cbn [xlatch osr fst snd]. destruct (unil err); reflexivity.
Qed.

Ltac brk2 :=
  match goal with
  | |- Rep (fun s => _ (if ?c then _ else _)) => destruct c eqn:?
  | |- Rep (fun s => _ (match ?b with [] => _ | _ :: _ => _ end)) => destruct b
  | |- Rep (fun s => _ (match ?o with Some _ => _ | None => _ end)) => destruct o
  | |- Rep (fun s => _ (match ?c with UC _ _ _ => _ | UCC => _ end)) => destruct c as [? ? [?|]|]
  | |- Rep (fun s => _ (match ?c with UL _ _ _ => _ | ULC _ => _ end)) => destruct c as [? ? ?|?]
  end.

Ltac fin := first [ apply Rep_sr | apply Rep_crash | apply Rep_of_ul ].
Ltac rep_auto := repeat first [ fin | brk2 | vis_step ].

Lemma ustep_value_rep : forall p b, Rep (fun s => osr (ustep_value p s b)).
Proof. intros. unfold ustep_value. rep_auto. Qed.

Lemma ustep_fixed_rep : forall p b, Rep (fun s => osr (ustep_fixed p s b)).
Proof. intros. unfold ustep_fixed, upop_state. cbv zeta. rep_auto. Qed.

Lemma ustep_string_rep : forall p b, Rep (fun s => osr (ustep_string p s b)).
Proof. intros. unfold ustep_string, upop_len_state, upop_state. cbv zeta. rep_auto. Qed.

Lemma arr_start_rep : forall p b, Rep (fun s => osr (arr_start p s b)).
Proof. intros. unfold arr_start. rep_auto. Qed.
Lemma obj_start_rep : forall p b, Rep (fun s => osr (obj_start p s b)).
Proof. intros. unfold obj_start. rep_auto. Qed.

Lemma arr_dyn_rep : forall p b, Rep (fun s => osr (arr_dyn p s b)).
Proof.
  intros. unfold arr_dyn, upop_state. cbv zeta.
  repeat first [ fin | apply Rep_nodone; apply ustep_value_rep | brk2 | vis_step ].
Qed.

Lemma obj_dyn_emptykey_rep : forall p b, Rep (fun s => osr (obj_dyn_emptykey p s b)).
Proof. intros. unfold obj_dyn_emptykey. cbv zeta. rep_auto. Qed.

Lemma obj_dyn_rep : forall p b, Rep (fun s => osr (obj_dyn p s b)).
Proof.
  intros. unfold obj_dyn, upop_state. cbv zeta.
  repeat first [ fin | apply Rep_nodone; apply ustep_value_rep | brk2 | vis_step ].
Qed.

Lemma arr_counted_rep : forall p b, Rep (fun s => osr (arr_counted p s b)).
Proof.
  intros. unfold arr_counted, upop_len_state, upop_state. cbv zeta.
  destruct (u_s (up_cur p) =? sStart); [fin|].
  destruct (u_s (up_cur p) =? sWithLen).
  - vis_step. repeat first [ fin | apply Rep_nodone; apply ustep_value_rep | brk2 | vis_step ].
  - vred. repeat first [ fin | apply Rep_nodone; apply ustep_value_rep | brk2 | vis_step ].
Qed.

Lemma arr_typed_rep : forall rec, (forall p b, Rep (fun s => osr (rec p s b))) ->
  forall p b, Rep (fun s => osr (arr_typed rec p s b)).
Proof.
  intros rec Hrec p b. unfold arr_typed, upop_len_state, upop_state. cbv zeta.
  destruct ((u_s (up_cur p) =? sStart) || (u_s (up_cur p) =? sWithType0) || (u_s (up_cur p) =? sWithType1)); [fin|].
  destruct (u_s (up_cur p) =? sWithLen).
  - vis_step. repeat first [ fin | apply Rep_nodone; apply Hrec | brk2 | vis_step ].
  - vred. repeat first [ fin | apply Rep_nodone; apply Hrec | brk2 | vis_step ].
Qed.

(* stepObjectCountedContent *)
Definition ooc (r : ocres) : out (bool * uparser * bytes) :=
  match r with OC f p s rest e => Some ((f, p, rest), s, e) | OCC _ => None end.

Lemma Rep_oc : forall f p rest e, Rep (fun s => ooc (OC f p s rest e)).
Proof. intros. apply (Rep_ret _ (f, p, rest) e). Qed.
Lemma Rep_occ : forall w, Rep (fun s => ooc (OCC w)).
Proof. intros. apply Rep_abort. Qed.

Lemma obj_content_rep : forall p b typed, Rep (fun s => ooc (ustep_obj_content p s b typed)).
Proof.
  intros. unfold ustep_obj_content. cbv zeta.
  repeat first
    [ apply Rep_oc | apply Rep_occ
    | match goal with
      | |- Rep (fun s => ooc (match value_nodone (ustep_value ?q s ?bb) with _ => _ end)) =>
          apply (Rep_map _ _ _ (fun a _ => (false, fst (fst a), snd (fst a))) _ (ustep_value_rep q bb));
          let s := fresh "s" in intros s; destruct (ustep_value q s bb); reflexivity
      end
    | brk2 | vis_step ].
Qed.

Lemma obj_wrap_rep : forall (g : uparser -> uparser) (f : sink -> ocres),
  Rep (fun s => ooc (f s)) ->
  Rep (fun s => osr (match f s with
                     | OCC w => UCrash w
                     | OC fin p1 s1 rest err =>
                         if fin && unil err then let '(p2, d) := upop_len_state (g p1) in UR p2 s1 rest d unilE
                         else UR p1 s1 rest fin err
                     end)).
Proof.
  intros g f H.
  apply (Rep_bind (bool * uparser * bytes) (uparser * bytes * bool) _
           (fun (a : bool * uparser * bytes) (_ : Z) => (snd (fst a), snd a, fst (fst a)))
           (fun (a : bool * uparser * bytes) s => let '(fin, p1, rest) := a in
              if fin then let '(p2, d) := upop_len_state (g p1) in Some ((p2, rest, d), s, unilE)
              else Some ((p1, rest, false), s, unilE)) _ H).
  - intros [[fin p1] rest]. destruct fin; [destruct (upop_len_state (g p1))|]; apply Rep_ret.
  - intros s. destruct (f s) as [fin p1 s1 rest err|w]; [|reflexivity].
    cbn [ooc fst snd]. destruct (unil err) eqn:E.
    + apply unil_true' in E. subst err. destruct fin; cbn [andb].
      * destruct (upop_len_state (g p1)). reflexivity.
      * reflexivity.
    + rewrite andb_false_r. reflexivity.
Qed.

Lemma obj_counted_rep : forall p b, Rep (fun s => osr (obj_counted p s b)).
Proof.
  intros. unfold obj_counted. cbv zeta. destruct (u_s (up_cur p) =? sStart); [fin|].
  apply (obj_wrap_rep (fun q => q)). apply obj_content_rep.
Qed.

Lemma obj_typed_rep : forall p b, Rep (fun s => osr (obj_typed p s b)).
Proof.
  intros. unfold obj_typed. cbv zeta.
  destruct ((u_s (up_cur p) =? sStart) || (u_s (up_cur p) =? sWithType0) || (u_s (up_cur p) =? sWithType1)); [fin|].
  apply (obj_wrap_rep v_pop). apply obj_content_rep.
Qed.

Lemma xbody0_rep : forall rec, (forall p b, Rep (fun s => osr (rec p s b))) ->
  forall p b, Rep (fun s => osr (xbody0 rec p s b)).
Proof.
  intros rec Hrec p b. unfold xbody0. cbv zeta.
  repeat first [ fin | apply ustep_value_rep | apply ustep_fixed_rep | apply ustep_string_rep
               | apply arr_start_rep | apply arr_dyn_rep | apply arr_counted_rep
               | apply (arr_typed_rep rec Hrec) | apply obj_start_rep | apply obj_dyn_emptykey_rep
               | apply obj_dyn_rep | apply obj_counted_rep | apply obj_typed_rep | brk2 ].
Qed.

(* Core lemma of C16: one parser step is a straight-line visitor program. *)
Lemma uexec_rep : forall f p b, Rep (fun s => osr (uexec f p s b)).
Proof.
  induction f as [|f IH]; intros p b.
  - apply Rep_abort.
  - eapply Rep_ext; [intros s; rewrite uexec_S; reflexivity|].
    apply Rep_latch. apply xbody0_rep. exact IH.
Qed.

Lemma uexec_step_rep : forall p b, Rep (fun s => osr (uexec_step p s b)).
Proof. intros. apply uexec_rep. Qed.

(* ---------- the feed loops ---------- *)
Definition ores (r : res ures) : out (uparser * bytes * bool) :=
  match r with Ok x => osr x | _ => None end.
Definition orf (r : res (uparser * sink * Z)) : out uparser :=
  match r with Ok (p, s, e) => Some (p, s, e) | _ => None end.

Lemma ufeed_until_rep : forall fuel p b, Rep (fun s => ores (ufeed_until fuel p s b)).
Proof.
  induction fuel as [|f IH]; intros p b.
  - apply Rep_abort.
  - cbn [ufeed_until].
    apply (Rep_bind _ _ (fun s => osr (uexec_step p s b)) (fun a _ => a)
             (fun a s => let '(p1, rest, done) := a in
                if done then Some (a, s, unilE)
                else if (zlen rest =? 0) && negb (can_step_without_input p1) then Some (a, s, unilE)
                else ores (ufeed_until f p1 s rest))).
    + apply uexec_step_rep.
    + intros [[p1 rest] done]. destruct done; [apply Rep_ret|].
      destruct ((zlen rest =? 0) && negb (can_step_without_input p1)); [apply Rep_ret|apply IH].
    + intros s. destruct (uexec_step p s b) as [p1 s1 rest done err|w]; [|reflexivity].
      cbn [osr]. destruct (unil err) eqn:E.
      * apply unil_true' in E. subst err. destruct done; [reflexivity|].
        cbn [orb negb]. change (unil unilE) with true. cbn [negb].
        destruct ((zlen rest =? 0) && negb (can_step_without_input p1)); reflexivity.
      * rewrite orb_true_r. reflexivity.
Qed.

Lemma ufeed_rep : forall fuel p b, Rep (fun s => orf (ufeed fuel p s b)).
Proof.
  induction fuel as [|f IH]; intros p b.
  - apply Rep_abort.
  - cbn [ufeed]. destruct (zlen b >? 0); [|apply Rep_ret].
    apply (Rep_bind _ _ (fun s => ores (ufeed_until (ufeed_fuel p b) p s b)) (fun a _ => fst (fst a))
             (fun a s => orf (ufeed f (fst (fst a)) s (snd (fst a))))).
    + apply ufeed_until_rep.
    + intros a. apply IH.
    + intros s. destruct (ufeed_until (ufeed_fuel p b) p s b) as [[p1 s1 rest d err|w]| | |]; try reflexivity.
      cbn [ores osr fst snd]. destruct (unil err); reflexivity.
Qed.

Lemma up_write_rep : forall p b, Rep (fun s => orf (up_write p s b)).
Proof.
  intros. unfold up_write.
  apply (Rep_map _ _ _ (fun p1 e => if unil e then uset_err p1 0 else uset_cur (uset_err p1 e) (mku tFail sStart)) _
           (ufeed_rep (2 * length b + 2) p b)).
  intros s. destruct (ufeed (2 * length b + 2) p s b) as [[[p1 s1] e]| | |]; try reflexivity.
  cbn [orf]. destruct (unil e); reflexivity.
Qed.

Definition ofin (r : uparser * sink * Z) : out uparser := Some r.

Lemma ufinalize_rep : forall fuel p, Rep (fun s => ofin (ufinalize fuel p s)).
Proof.
  induction fuel as [|f IH]; intros p.
  - apply (Rep_ret _ p ueIncomplete).
  - cbn [ufinalize]. unfold ofin.
    repeat match goal with
    | |- Rep (fun s => Some (if ?c then _ else _)) => destruct c eqn:?
    | |- Rep (fun s => Some (_, s, _)) => apply Rep_ret
    end;
    (eapply Rep_vis;
      [ intros s s1 E; cbv beta; rewrite E; vred; reflexivity
      | intros s s1 E; cbv beta; rewrite E; vred; reflexivity
      | apply IH ]).
Qed.

Lemma ufin_rep : forall p, Rep (fun s => ofin (ufin p s)).
Proof. intros. unfold ufin. apply ufinalize_rep. Qed.

Lemma ufin_orf : forall p s, orf (Ok (ufin p s)) = ofin (ufin p s).
Proof. intros. unfold ofin. destruct (ufin p s) as [[p1 s1] e]. reflexivity. Qed.

Lemma up_parse_rep : forall p b, Rep (fun s => orf (up_parse p s b)).
Proof.
  intros. unfold up_parse.
  apply (Rep_bind _ _ _ (fun p1 _ => p1) (fun p1 s => ofin (ufin p1 s)) _ (ufeed_rep (2 * length b + 2) p b)).
  - intros a. apply ufin_rep.
  - intros s. destruct (ufeed (2 * length b + 2) p s b) as [[[p1 s1] e]| | |]; try reflexivity.
    cbn [orf]. destruct (unil e); [apply ufin_orf|reflexivity].
Qed.

Lemma up_writes_rep : forall chunks p, Rep (fun s => orf (up_writes p s chunks)).
Proof.
  induction chunks as [|c r IH]; intros p.
  - cbn [up_writes]. eapply Rep_ext; [intros s; apply ufin_orf|apply ufin_rep].
  - cbn [up_writes].
    apply (Rep_bind _ _ _ (fun p1 _ => p1) (fun p1 s => orf (up_writes p1 s r)) _ (up_write_rep p c)).
    + intros a. apply IH.
    + intros s. destruct (up_write p s c) as [[[p1 s1] e]| | |]; try reflexivity.
      cbn [orf]. destruct (unil e); reflexivity.
Qed.

(* ---------- C16 for the parser ---------- *)
Lemma urun_chunks_orf : forall v chunks evs e p,
  urun_chunks v chunks = Ok (evs, e, p) <->
  exists s, orf (up_writes uparser0 (sink0 v) chunks) = Some (p, s, e) /\ evs = s_log s.
Proof.
  intros. unfold urun_chunks. destruct (up_writes uparser0 (sink0 v) chunks) as [[[p' s] e']| | |]; cbn [orf].
  - split.
    + intros H. inversion H; subst. eauto.
    + intros (s' & H & ->). inversion H; subst. reflexivity.
  - split; [discriminate|]. intros (s' & H & _). discriminate.
  - split; [discriminate|]. intros (s' & H & _). discriminate.
  - split; [discriminate|]. intros (s' & H & _). discriminate.
Qed.

Lemma urun_parse_orf : forall v b evs e p,
  urun_parse v b = Ok (evs, e, p) <->
  exists s, orf (up_parse uparser0 (sink0 v) b) = Some (p, s, e) /\ evs = s_log s.
Proof.
  intros. unfold urun_parse. destruct (up_parse uparser0 (sink0 v) b) as [[[p' s] e']| | |]; cbn [orf].
  - split.
    + intros H. inversion H; subst. eauto.
    + intros (s' & H & ->). inversion H; subst. reflexivity.
  - split; [discriminate|]. intros (s' & H & _). discriminate.
  - split; [discriminate|]. intros (s' & H & _). discriminate.
  - split; [discriminate|]. intros (s' & H & _). discriminate.
Qed.

(* no event is delivered after the failing one, and its error is returned unchanged *)
Theorem C16_ubj_parse_prompt : forall k chunks evs e p,
  urun_chunks (Some k) chunks = Ok (evs, e, p) ->
  (length evs <= S k)%nat /\ (length evs = S k -> e = ueVisitor).
Proof.
  intros k chunks evs e p H. apply urun_chunks_orf in H. destruct H as (s & H & ->).
  exact (rep_prompt0 _ _ (up_writes_rep chunks uparser0) k p s e H).
Qed.

(* the failing run is determined by the unfailing one: it delivers exactly the
   first k+1 events, and returns the visitor's error iff the unfailing run has
   more than k events (otherwise the same verdict and the same final parser) *)
Theorem C16_ubj_parse_fail_spec : forall k chunks evs0 e0 p0,
  urun_chunks None chunks = Ok (evs0, e0, p0) ->
  exists p, urun_chunks (Some k) chunks =
              Ok (firstn (S k) evs0, (if (length evs0 <=? k)%nat then e0 else ueVisitor), p) /\
            ((length evs0 <= k)%nat -> p = p0).
Proof.
  intros k chunks evs0 e0 p0 H. apply urun_chunks_orf in H. destruct H as (s0 & H & ->).
  destruct (rep_prefix0 _ _ (up_writes_rep chunks uparser0) k p0 s0 e0 H) as (a & s & H1 & H2 & H3).
  exists a. split; [|exact H3]. apply urun_chunks_orf. exists s. split; [exact H1|]. symmetry. exact H2.
Qed.

Theorem C16_ubj_parse_prefix : forall k chunks evs e p evs0 e0 p0,
  urun_chunks (Some k) chunks = Ok (evs, e, p) -> urun_chunks None chunks = Ok (evs0, e0, p0) ->
  evs = firstn (S k) evs0 /\ e = (if (length evs0 <=? k)%nat then e0 else ueVisitor).
Proof.
  intros k chunks evs e p evs0 e0 p0 H H0.
  destruct (C16_ubj_parse_fail_spec k chunks evs0 e0 p0 H0) as (p' & H1 & _).
  rewrite H1 in H. inversion H. split; reflexivity.
Qed.

Theorem C16_ubj_run_parse_prompt : forall k b evs e p,
  urun_parse (Some k) b = Ok (evs, e, p) ->
  (length evs <= S k)%nat /\ (length evs = S k -> e = ueVisitor).
Proof.
  intros k b evs e p H. apply urun_parse_orf in H. destruct H as (s & H & ->).
  exact (rep_prompt0 _ _ (up_parse_rep uparser0 b) k p s e H).
Qed.

Theorem C16_ubj_run_parse_fail_spec : forall k b evs0 e0 p0,
  urun_parse None b = Ok (evs0, e0, p0) ->
  exists p, urun_parse (Some k) b =
              Ok (firstn (S k) evs0, (if (length evs0 <=? k)%nat then e0 else ueVisitor), p) /\
            ((length evs0 <= k)%nat -> p = p0).
Proof.
  intros k b evs0 e0 p0 H. apply urun_parse_orf in H. destruct H as (s0 & H & ->).
  destruct (rep_prefix0 _ _ (up_parse_rep uparser0 b) k p0 s0 e0 H) as (a & s & H1 & H2 & H3).
  exists a. split; [|exact H3]. apply urun_parse_orf. exists s. split; [exact H1|]. symmetry. exact H2.
Qed.

Theorem C16_ubj_run_parse_prefix : forall k b evs e p evs0 e0 p0,
  urun_parse (Some k) b = Ok (evs, e, p) -> urun_parse None b = Ok (evs0, e0, p0) ->
  evs = firstn (S k) evs0 /\ e = (if (length evs0 <=? k)%nat then e0 else ueVisitor).
Proof.
  intros k b evs e p evs0 e0 p0 H H0.
  destruct (C16_ubj_run_parse_fail_spec k b evs0 e0 p0 H0) as (p' & H1 & _).
  rewrite H1 in H. inversion H. split; reflexivity.
Qed.

Print Assumptions C16_ubj_parse_prompt.
Print Assumptions C16_ubj_parse_fail_spec.
Print Assumptions C16_ubj_parse_prefix.
Print Assumptions C16_ubj_run_parse_prompt.
Print Assumptions C16_ubj_run_parse_fail_spec.
Print Assumptions C16_ubj_run_parse_prefix.
