(* The UBJSON encoder against the reference decoder (Ubjson/Spec.v):
   what the encoder writes for a well-formed tree is read back by the reference
   decoder as [ubj_img] of the tree (C07 for UBJSON), and C17. *)
From SF Require Import Base.Prelude Base.PreludeProofs Core.Events Core.EventsProofs
  Cbor.Enc Ubjson.Spec Ubjson.Enc Ubjson.Img Ubjson.EncProofs.
From Coq Require Import ZifyBool ZifyNat ZifyN.
Open Scope Z_scope.

Ltac Zify.zify_post_hook ::= Z.div_mod_to_equations.

(* ====================================================================== *)
(* 1. Bytes, lengths, two's complement                                     *)
(* ====================================================================== *)

Lemma take_app (a rest : bytes) : take (zlen a) (a ++ rest) = Some (a, rest).
Proof.
  unfold take, zlen.
  destruct (Z.of_nat (length a) <? 0) eqn:E1; [lia|].
  rewrite app_length.
  destruct (Z.of_nat (length a + length rest) <? Z.of_nat (length a)) eqn:E2; [lia|].
  rewrite Nat2Z.id.
  rewrite firstn_app, skipn_app, Nat.sub_diag, firstn_all, skipn_all.
  cbn [firstn skipn app]. rewrite app_nil_r. reflexivity.
Qed.

Lemma take_be k v rest n : n = Z.of_nat k ->
  take n (be_enc k v ++ rest) = Some (be_enc k v, rest).
Proof. intros ->. rewrite <- (be_enc_length k v) at 1. apply take_app. Qed.

Lemma take_1 x rest : take 1 (x :: rest) = Some ([x], rest).
Proof. exact (take_app [x] rest). Qed.

Lemma be_dec_1 x : be_dec [x] = x.
Proof. unfold be_dec. cbn [be_dec_acc]. lia. Qed.

Lemma pow256 k : 256 ^ Z.of_nat k = 2 ^ (8 * Z.of_nat k).
Proof. change 256 with (2 ^ 8). rewrite <- Z.pow_mul_r by lia. reflexivity. Qed.

Lemma wrapu_range w i : 0 <= w -> 0 <= wrapu w i < 2 ^ w.
Proof. intro H. unfold wrapu. apply Z.mod_pos_bound. apply Z.pow_pos_nonneg; lia. Qed.

Lemma wraps_wrapu w i : 0 < w -> in_s w i = true -> wraps w (wrapu w i) = i.
Proof.
  intros Hw Hi. pose proof (wraps_small w i Hw) as H. unfold wraps, wrapu in *.
  assert (0 < 2 ^ w) by (apply Z.pow_pos_nonneg; lia).
  rewrite Z.mod_mod by lia. apply H. unfold in_s in Hi. lia.
Qed.

Lemma be_wraps k i : (0 < k)%nat -> in_s (8 * Z.of_nat k) i = true ->
  wraps (8 * Z.of_nat k) (be_dec (be_enc k (wrapu (8 * Z.of_nat k) i))) = i.
Proof.
  intros Hk Hi. rewrite be_dec_enc.
  - apply wraps_wrapu; [lia | exact Hi].
  - rewrite pow256. apply wrapu_range. lia.
Qed.

(* ====================================================================== *)
(* 2. The reference decoder, marker by marker                              *)
(* ====================================================================== *)

Lemma pl_Z f b : ubj_payload (S f) mZ b = RValue CNil b.
Proof. reflexivity. Qed.
Lemma pl_T f b : ubj_payload (S f) mT b = RValue (CBool true) b.
Proof. reflexivity. Qed.
Lemma pl_F f b : ubj_payload (S f) mF b = RValue (CBool false) b.
Proof. reflexivity. Qed.
Lemma pl_i f b : ubj_payload (S f) mi b =
  match take 1 b with Some (a, r) => RValue (CNum (CInt (wraps 8 (be_dec a)))) r | None => RTruncated end.
Proof. reflexivity. Qed.
Lemma pl_U f b : ubj_payload (S f) mU b =
  match take 1 b with Some (a, r) => RValue (CNum (CInt (be_dec a))) r | None => RTruncated end.
Proof. reflexivity. Qed.
Lemma pl_I f b : ubj_payload (S f) mI b =
  match take 2 b with Some (a, r) => RValue (CNum (CInt (wraps 16 (be_dec a)))) r | None => RTruncated end.
Proof. reflexivity. Qed.
Lemma pl_l f b : ubj_payload (S f) ml b =
  match take 4 b with Some (a, r) => RValue (CNum (CInt (wraps 32 (be_dec a)))) r | None => RTruncated end.
Proof. reflexivity. Qed.
Lemma pl_L f b : ubj_payload (S f) mL b =
  match take 8 b with Some (a, r) => RValue (CNum (CInt (wraps 64 (be_dec a)))) r | None => RTruncated end.
Proof. reflexivity. Qed.
Lemma pl_C f b : ubj_payload (S f) mC b =
  match b with c :: r => if c >? 127 then RMalformed else RValue (CNum (CInt c)) r | [] => RTruncated end.
Proof. reflexivity. Qed.
Lemma pl_d f b : ubj_payload (S f) md b =
  match take 4 b with Some (a, r) => RValue (CNum (CF32 (be_dec a))) r | None => RTruncated end.
Proof. reflexivity. Qed.
Lemma pl_D f b : ubj_payload (S f) mD b =
  match take 8 b with Some (a, r) => RValue (CNum (CF64 (be_dec a))) r | None => RTruncated end.
Proof. reflexivity. Qed.

Definition ustr (b : bytes) : ref_result :=
  match ubj_len b with
  | LVal n r => match take n r with Some (a, r') => RValue (CStr a) r' | None => RTruncated end
  | LTrunc => RTruncated
  | LBad => RMalformed
  end.
Lemma pl_S f b : ubj_payload (S f) mS b = ustr b.
Proof. reflexivity. Qed.
Lemma pl_H f b : ubj_payload (S f) mH b = ustr b.
Proof. reflexivity. Qed.

Lemma len_i r : ubj_len (mi :: r) =
  match take 1 r with
  | Some (a, r') => if wraps 8 (be_dec a) <? 0 then LBad else LVal (wraps 8 (be_dec a)) r'
  | None => LTrunc end.
Proof. reflexivity. Qed.
Lemma len_U r : ubj_len (mU :: r) =
  match take 1 r with
  | Some (a, r') => if be_dec a <? 0 then LBad else LVal (be_dec a) r'
  | None => LTrunc end.
Proof. reflexivity. Qed.
Lemma len_I r : ubj_len (mI :: r) =
  match take 2 r with
  | Some (a, r') => if wraps 16 (be_dec a) <? 0 then LBad else LVal (wraps 16 (be_dec a)) r'
  | None => LTrunc end.
Proof. reflexivity. Qed.
Lemma len_l r : ubj_len (ml :: r) =
  match take 4 r with
  | Some (a, r') => if wraps 32 (be_dec a) <? 0 then LBad else LVal (wraps 32 (be_dec a)) r'
  | None => LTrunc end.
Proof. reflexivity. Qed.
Lemma len_L r : ubj_len (mL :: r) =
  match take 8 r with
  | Some (a, r') => if wraps 64 (be_dec a) <? 0 then LBad else LVal (wraps 64 (be_dec a)) r'
  | None => LTrunc end.
Proof. reflexivity. Qed.

(* payload [p] under marker [m] reads as [v] (scalars: any non-zero fuel) *)
Definition pdec (m : Z) (p : bytes) (v : cvalue) : Prop :=
  forall f rest, ubj_payload (S f) m (p ++ rest) = RValue v rest.
(* [bs] reads as the length [l] *)
Definition ldec (bs : bytes) (l : Z) : Prop :=
  forall rest, ubj_len (bs ++ rest) = LVal l rest.

Lemma int8_dec i : in_s 8 i = true ->
  pdec mi [wrapu 8 i] (CNum (CInt i)) /\ (0 <= i -> ldec [mi; wrapu 8 i] i).
Proof.
  intro Hi. split.
  - intros f rest. rewrite pl_i. cbn [app]. rewrite take_1, be_dec_1.
    rewrite wraps_wrapu by (try exact Hi; lia). reflexivity.
  - intros H0 rest. cbn [app]. rewrite len_i, take_1, be_dec_1.
    rewrite wraps_wrapu by (try exact Hi; lia).
    destruct (i <? 0) eqn:E; [lia | reflexivity].
Qed.

Lemma uint8_dec u : in_u 8 u = true ->
  pdec mU [u] (CNum (CInt u)) /\ ldec [mU; u] u.
Proof.
  intro Hu. split.
  - intros f rest. rewrite pl_U. cbn [app]. rewrite take_1, be_dec_1. reflexivity.
  - intros rest. cbn [app]. rewrite len_U, take_1, be_dec_1.
    unfold in_u in Hu. destruct (u <? 0) eqn:E; [lia | reflexivity].
Qed.

Lemma int16_dec i : in_s 16 i = true ->
  pdec mI (be_enc 2 (wrapu 16 i)) (CNum (CInt i)) /\ (0 <= i -> ldec (mI :: be_enc 2 (wrapu 16 i)) i).
Proof.
  intro Hi. pose proof (be_wraps 2 i ltac:(lia) Hi) as W. change (8 * Z.of_nat 2) with 16 in W.
  split.
  - intros f rest. rewrite pl_I, (take_be 2 _ rest 2 eq_refl), W. reflexivity.
  - intros H0 rest. cbn [app]. rewrite len_I, (take_be 2 _ rest 2 eq_refl), W.
    destruct (i <? 0) eqn:E; [lia | reflexivity].
Qed.

Lemma int32_dec i : in_s 32 i = true ->
  pdec ml (be_enc 4 (wrapu 32 i)) (CNum (CInt i)) /\ (0 <= i -> ldec (ml :: be_enc 4 (wrapu 32 i)) i).
Proof.
  intro Hi. pose proof (be_wraps 4 i ltac:(lia) Hi) as W. change (8 * Z.of_nat 4) with 32 in W.
  split.
  - intros f rest. rewrite pl_l, (take_be 4 _ rest 4 eq_refl), W. reflexivity.
  - intros H0 rest. cbn [app]. rewrite len_l, (take_be 4 _ rest 4 eq_refl), W.
    destruct (i <? 0) eqn:E; [lia | reflexivity].
Qed.

Lemma int64_dec i : in_s 64 i = true ->
  pdec mL (be_enc 8 (wrapu 64 i)) (CNum (CInt i)) /\ (0 <= i -> ldec (mL :: be_enc 8 (wrapu 64 i)) i).
Proof.
  intro Hi. pose proof (be_wraps 8 i ltac:(lia) Hi) as W. change (8 * Z.of_nat 8) with 64 in W.
  split.
  - intros f rest. rewrite pl_L, (take_be 8 _ rest 8 eq_refl), W. reflexivity.
  - intros H0 rest. cbn [app]. rewrite len_L, (take_be 8 _ rest 8 eq_refl), W.
    destruct (i <? 0) eqn:E; [lia | reflexivity].
Qed.

(* a char holds 0..127 (draft 12): a larger byte under 'C' is malformed *)
Lemma char_dec z : (z >? 127) = false -> pdec mC [z] (CNum (CInt z)).
Proof. intros Hz f rest. rewrite pl_C. cbn [app]. rewrite Hz. reflexivity. Qed.

Lemma f32_dec z : in_u 32 z = true -> pdec md (be_enc 4 z) (CNum (CF32 z)).
Proof.
  intros Hz f rest. rewrite pl_d, (take_be 4 _ rest 4 eq_refl), be_dec_enc; [reflexivity|].
  unfold in_u in Hz. change (256 ^ Z.of_nat 4) with (2 ^ 32). lia.
Qed.
Lemma f64_dec z : in_u 64 z = true -> pdec mD (be_enc 8 z) (CNum (CF64 z)).
Proof.
  intros Hz f rest. rewrite pl_D, (take_be 8 _ rest 8 eq_refl), be_dec_enc; [reflexivity|].
  unfold in_u in Hz. change (256 ^ Z.of_nat 8) with (2 ^ 64). lia.
Qed.

(* ---------- onInt: smallest width ---------- *)
Definition is_len_marker (m : Z) : bool := existsb (Z.eqb m) [mi; mU; mI; ml; mL].

Lemma in_s_of lo hi w i : (lo <=? i) && (i <=? hi) = true -> lo = - 2 ^ (w - 1) -> hi = 2 ^ (w - 1) - 1 ->
  in_s w i = true.
Proof. intros H -> ->. unfold in_s. lia. Qed.

Lemma onint_b_dec i : in_s 64 i = true ->
  exists m p, (forall marker, onint_b i marker = optm marker m ++ p) /\ is_len_marker m = true /\
              pdec m p (CNum (CInt i)) /\ (0 <= i -> ldec (m :: p) i).
Proof.
  intro Hi. unfold onint_b.
  destruct ((-128 <=? i) && (i <=? 127)) eqn:E1.
  { exists mi, [wrapu 8 i]. split; [reflexivity|]. split; [reflexivity|].
    apply int8_dec. eapply in_s_of; [exact E1| |]; reflexivity. }
  destruct ((0 <=? i) && (i <=? 255)) eqn:E2.
  { exists mU, [i]. split; [reflexivity|]. split; [reflexivity|].
    destruct (uint8_dec i) as [P L]; [unfold in_u; lia|]. split; [exact P | intros _; exact L]. }
  destruct ((-32768 <=? i) && (i <=? 32767)) eqn:E3.
  { exists mI, (be_enc 2 (wrapu 16 i)). split; [reflexivity|]. split; [reflexivity|].
    apply int16_dec. eapply in_s_of; [exact E3| |]; reflexivity. }
  destruct ((-2147483648 <=? i) && (i <=? 2147483647)) eqn:E4.
  { exists ml, (be_enc 4 (wrapu 32 i)). split; [reflexivity|]. split; [reflexivity|].
    apply int32_dec. eapply in_s_of; [exact E4| |]; reflexivity. }
  exists mL, (be_enc 8 (wrapu 64 i)). split; [reflexivity|]. split; [reflexivity|].
  apply int64_dec. exact Hi.
Qed.

Definition int_lim := 9223372036854775808. (* 2^63: Go's int is 64 bits *)

Lemma len_b_dec l : 0 <= l < int_lim ->
  exists m p, len_b l = m :: p /\ is_len_marker m = true /\ ldec (len_b l) l.
Proof.
  intro H. destruct (onint_b_dec l) as (m & p & E & M & _ & L).
  { unfold in_s, int_lim in *. change (2 ^ (64 - 1)) with 9223372036854775808. lia. }
  exists m, p. unfold len_b. rewrite (E true). cbn [optm app].
  split; [reflexivity|]. split; [exact M|]. apply L. lia.
Qed.

Lemma str_dec m s : m = mS \/ m = mH -> zlen s < int_lim ->
  pdec m (len_b (zlen s) ++ s) (CStr s).
Proof.
  intros Hm Hs f rest.
  assert (E : ubj_payload (S f) m ((len_b (zlen s) ++ s) ++ rest) = ustr ((len_b (zlen s) ++ s) ++ rest)).
  { destruct Hm as [-> | ->]; [apply pl_S | apply pl_H]. }
  rewrite E. unfold ustr. rewrite <- app_assoc.
  destruct (len_b_dec (zlen s)) as (m' & p & _ & _ & L); [unfold zlen in *; lia|].
  rewrite L, take_app. reflexivity.
Qed.

Lemma zlen_nonneg {A} (l : list A) : 0 <= zlen l.
Proof. unfold zlen. lia. Qed.

(* ====================================================================== *)
(* 3. Scalars                                                              *)
(* ====================================================================== *)

(* [bs] is a complete value that reads as [v] with any fuel above its length *)
Definition gooddec (bs : bytes) (v : cvalue) : Prop :=
  exists m p, bs = m :: p /\ is_value_marker m = true /\
    forall rest fuel, (length (bs ++ rest) < fuel)%nat ->
      ubj_payload fuel m (p ++ rest) = RValue v rest.

Lemma gooddec_of_pdec m p v : is_value_marker m = true -> pdec m p v -> gooddec (m :: p) v.
Proof.
  intros M P. exists m, p. split; [reflexivity|]. split; [exact M|].
  intros rest fuel H. destruct fuel as [|f]; [cbn in H; lia|]. apply P.
Qed.

Lemma len_marker_value m : is_len_marker m = true -> is_value_marker m = true.
Proof.
  unfold is_len_marker, is_value_marker. cbn [existsb].
  rewrite !orb_true_iff, !Z.eqb_eq. intuition (subst; auto).
Qed.

Lemma gd_int8 i : in_s 8 i = true -> gooddec (int8_b i true) (CNum (CInt i)).
Proof. intro H. apply (gooddec_of_pdec mi); [reflexivity | apply int8_dec; exact H]. Qed.
Lemma gd_uint8 u : in_u 8 u = true -> gooddec (uint8_b u true) (CNum (CInt u)).
Proof. intro H. apply (gooddec_of_pdec mU); [reflexivity | apply uint8_dec; exact H]. Qed.
Lemma gd_int16 i : in_s 16 i = true -> gooddec (int16_b i true) (CNum (CInt i)).
Proof. intro H. apply (gooddec_of_pdec mI); [reflexivity | apply int16_dec; exact H]. Qed.
Lemma gd_int32 i : in_s 32 i = true -> gooddec (int32_b i true) (CNum (CInt i)).
Proof. intro H. apply (gooddec_of_pdec ml); [reflexivity | apply int32_dec; exact H]. Qed.
Lemma gd_int64 i : in_s 64 i = true -> gooddec (int64_b i true) (CNum (CInt i)).
Proof. intro H. apply (gooddec_of_pdec mL); [reflexivity | apply int64_dec; exact H]. Qed.

Lemma gd_onint16 i : in_s 16 i = true -> gooddec (onint16_b i) (CNum (CInt i)).
Proof.
  intro H. unfold onint16_b. destruct ((-128 <=? i) && (i <=? 127)) eqn:E.
  - apply gd_int8. eapply in_s_of; [exact E| |]; reflexivity.
  - apply gd_int16; exact H.
Qed.
Lemma gd_onint32 i : in_s 32 i = true -> gooddec (onint32_b i) (CNum (CInt i)).
Proof.
  intro H. unfold onint32_b. destruct ((-32768 <=? i) && (i <=? 32767)) eqn:E.
  - apply gd_onint16. eapply in_s_of; [exact E| |]; reflexivity.
  - apply gd_int32; exact H.
Qed.
Lemma gd_onint64 i : in_s 64 i = true -> gooddec (onint64_b i) (CNum (CInt i)).
Proof.
  intro H. unfold onint64_b. destruct ((-2147483648 <=? i) && (i <=? 2147483647)) eqn:E.
  - apply gd_onint32. eapply in_s_of; [exact E| |]; reflexivity.
  - apply gd_int64; exact H.
Qed.
Lemma gd_onint i : in_s 64 i = true -> gooddec (onint_b i true) (CNum (CInt i)).
Proof.
  intro H. destruct (onint_b_dec i H) as (m & p & E & M & P & _).
  rewrite (E true). cbn [optm app]. apply gooddec_of_pdec; [apply len_marker_value; exact M | exact P].
Qed.

(* ---------- unsigned: the smallest type that fits, 'H' above MaxInt64 ---------- *)
Definition is_num_marker (t : Z) : bool := existsb (Z.eqb t) [mi; mU; mI; ml; mL; mH].
Definition umax (t : Z) : Z :=
  if t =? mi then 127 else if t =? mU then 255 else if t =? mI then 32767
  else if t =? ml then 2147483647 else if t =? mL then 9223372036854775807
  else 18446744073709551615.

Lemma num_marker_cases t : is_num_marker t = true ->
  t = mi \/ t = mU \/ t = mI \/ t = ml \/ t = mL \/ t = mH.
Proof.
  unfold is_num_marker. cbn [existsb]. rewrite !orb_true_iff, !Z.eqb_eq. intuition.
Qed.

Lemma num_marker_value t : is_num_marker t = true -> is_value_marker t = true.
Proof.
  intro H. apply num_marker_cases in H.
  destruct H as [->|[->|[->|[->|[->| ->]]]]]; reflexivity.
Qed.

Lemma uint_type_num u : is_num_marker (uint_type u) = true.
Proof. unfold uint_type. repeat destruct (_ <=? _); reflexivity. Qed.

Lemma uint_type_fits u : u <= 18446744073709551615 -> u <= umax (uint_type u).
Proof.
  intro H. unfold uint_type.
  destruct (u <=? 127) eqn:E1; [change (umax mi) with 127; lia|].
  destruct (u <=? 255) eqn:E2; [change (umax mU) with 255; lia|].
  destruct (u <=? 32767) eqn:E3; [change (umax mI) with 32767; lia|].
  destruct (u <=? 2147483647) eqn:E4; [change (umax ml) with 2147483647; lia|].
  destruct (u <=? 9223372036854775807) eqn:E5; [change (umax mL) with 9223372036854775807; lia|].
  change (umax mH) with 18446744073709551615. lia.
Qed.

Lemma uint_type_H u : (uint_type u =? mH) = (max_int64 <? u).
Proof.
  unfold uint_type, max_int64.
  destruct (u <=? 127) eqn:E1; [change (mi =? mH) with false; lia|].
  destruct (u <=? 255) eqn:E2; [change (mU =? mH) with false; lia|].
  destruct (u <=? 32767) eqn:E3; [change (mI =? mH) with false; lia|].
  destruct (u <=? 2147483647) eqn:E4; [change (ml =? mH) with false; lia|].
  destruct (u <=? 9223372036854775807) eqn:E5; [change (mL =? mH) with false; lia|].
  change (mH =? mH) with true. lia.
Qed.

Lemma max_num_type_props a b : is_num_marker a = true -> is_num_marker b = true ->
  is_num_marker (max_num_type a b) = true /\
  umax a <= umax (max_num_type a b) /\ umax b <= umax (max_num_type a b) /\
  (max_num_type a b =? mH) = (a =? mH) || (b =? mH).
Proof.
  intros Ha Hb. apply num_marker_cases in Ha. apply num_marker_cases in Hb.
  destruct Ha as [->|[->|[->|[->|[->| ->]]]]];
  destruct Hb as [->|[->|[->|[->|[->| ->]]]]];
  (split; [reflexivity|]; split; [apply Z.leb_le; reflexivity|];
   split; [apply Z.leb_le; reflexivity | reflexivity]).
Qed.

Lemma fold_num l : forall t0, is_num_marker t0 = true ->
  let t := fold_left (fun t s => max_num_type t (uint_type (snum s))) l t0 in
  is_num_marker t = true /\ umax t0 <= umax t /\
  (forall s, In s l -> umax (uint_type (snum s)) <= umax t) /\
  (t =? mH) = (t0 =? mH) || needs_h l.
Proof.
  induction l as [|x r IH]; intros t0 H0; cbn [fold_left].
  - cbv zeta. split; [exact H0|]. split; [lia|]. split; [intros s []|].
    unfold needs_h. cbn [existsb]. rewrite orb_false_r. reflexivity.
  - destruct (max_num_type_props t0 (uint_type (snum x)) H0 (uint_type_num _)) as (N1 & A1 & B1 & H1).
    destruct (IH _ N1) as (N2 & A2 & B2 & H2). cbv zeta.
    split; [exact N2|]. split; [lia|]. split.
    + intros s [<-|Hs]; [lia | apply B2; exact Hs].
    + rewrite H2, H1, uint_type_H. unfold needs_h. cbn [existsb].
      rewrite orb_assoc. reflexivity.
Qed.

Lemma uint_min_type_props l :
  is_num_marker (uint_min_type l) = true /\
  (forall s, In s l -> umax (uint_type (snum s)) <= umax (uint_min_type l)) /\
  (uint_min_type l =? mH) = needs_h l.
Proof.
  destruct (fold_num l mi eq_refl) as (N & _ & B & H). unfold uint_min_type.
  split; [exact N|]. split; [exact B|]. rewrite H. reflexivity.
Qed.

Lemma digits_fuel_len f : forall n acc, (length (digits_fuel f n acc) <= f + length acc)%nat.
Proof.
  induction f as [|f IH]; intros n acc; cbn [digits_fuel].
  - lia.
  - destruct (n <? 10); [cbn [length]; lia|].
    specialize (IH (n / 10) ((48 + n mod 10) :: acc)). cbn [length] in IH. lia.
Qed.

Lemma digits_len u : zlen (digits u) < int_lim.
Proof.
  pose proof (digits_fuel_len 25 u []) as H. unfold digits, zlen, int_lim. cbn [length] in H. lia.
Qed.

Lemma in_u_64 w z : 0 <= w <= 64 -> in_u w z = true -> in_u 64 z = true.
Proof.
  intros Hw H. unfold in_u in *.
  assert (2 ^ w <= 2 ^ 64) by (apply Z.pow_le_mono_r; lia). lia.
Qed.

Lemma len_b_nonempty l : 0 <= l < int_lim -> (1 <= length (len_b l))%nat.
Proof. intro H. destruct (len_b_dec l H) as (m & p & E & _). rewrite E. cbn [length]. lia. Qed.

Lemma uint64_b_dec u t : in_u 64 u = true -> is_num_marker t = true -> u <= umax t ->
  exists p, (forall marker, uint64_b u t marker = optm marker t ++ p) /\
            pdec t p (if t =? mH then CStr (digits u) else CNum (CInt u)) /\
            (1 <= length p)%nat.
Proof.
  intros Hu Ht Hf. unfold in_u in Hu. change (2 ^ 64) with 18446744073709551616 in Hu.
  apply num_marker_cases in Ht.
  destruct Ht as [->|[->|[->|[->|[->| ->]]]]].
  - change (umax mi) with 127 in Hf. exists [wrapu 8 u]. split; [reflexivity|]. split; [|cbn [length]; lia].
    change (mi =? mH) with false. cbv iota. apply int8_dec.
    unfold in_s. change (2 ^ (8 - 1)) with 128. lia.
  - change (umax mU) with 255 in Hf. exists [wrapu 8 u]. split; [reflexivity|]. split; [|cbn [length]; lia].
    change (mU =? mH) with false. cbv iota.
    rewrite wrapu_small by (change (2 ^ 8) with 256; lia).
    apply uint8_dec. unfold in_u. change (2 ^ 8) with 256. lia.
  - change (umax mI) with 32767 in Hf. exists (be_enc 2 (wrapu 16 u)).
    split; [reflexivity|]. split; [|rewrite be_enc_length; lia].
    change (mI =? mH) with false. cbv iota. apply int16_dec.
    unfold in_s. change (2 ^ (16 - 1)) with 32768. lia.
  - change (umax ml) with 2147483647 in Hf. exists (be_enc 4 (wrapu 32 u)).
    split; [reflexivity|]. split; [|rewrite be_enc_length; lia].
    change (ml =? mH) with false. cbv iota. apply int32_dec.
    unfold in_s. change (2 ^ (32 - 1)) with 2147483648. lia.
  - change (umax mL) with 9223372036854775807 in Hf. exists (be_enc 8 (wrapu 64 u)).
    split; [reflexivity|]. split; [|rewrite be_enc_length; lia].
    change (mL =? mH) with false. cbv iota. apply int64_dec.
    unfold in_s. change (2 ^ (64 - 1)) with 9223372036854775808. lia.
  - exists (len_b (zlen (digits u)) ++ digits u). split; [reflexivity|].
    change (mH =? mH) with true. cbv iota. split.
    + apply str_dec; [right; reflexivity | apply digits_len].
    + rewrite app_length.
      pose proof (len_b_nonempty (zlen (digits u)) (conj (zlen_nonneg _) (digits_len u))). lia.
Qed.

Definition scalar_small (s : scalar) : bool :=
  match s with SStr b => zlen b <? int_lim | _ => true end.

Lemma gd_uint z : in_u 64 z = true ->
  gooddec (uint64_b z (uint_type z) true)
          (if true && (max_int64 <? z) then CStr (digits z) else CNum (CInt z)).
Proof.
  intro Hz.
  destruct (uint64_b_dec z (uint_type z) Hz (uint_type_num z)) as (p & E & P & _).
  { apply uint_type_fits. unfold in_u in Hz. change (2 ^ 64) with 18446744073709551616 in Hz. lia. }
  rewrite (E true). cbn [optm app andb]. rewrite <- uint_type_H.
  apply gooddec_of_pdec; [apply num_marker_value, uint_type_num | exact P].
Qed.

Lemma gooddec_scalar s : scalar_ok s = true -> scalar_small s = true ->
  gooddec (scalar_b s) (ubj_img_scalar s).
Proof.
  intros Hok Hsm. destruct s as [|b|b|k z].
  - apply (gooddec_of_pdec mZ []); [reflexivity|]. intros f rest. apply pl_Z.
  - destruct b.
    + apply (gooddec_of_pdec mT []); [reflexivity|]. intros f rest. apply pl_T.
    + apply (gooddec_of_pdec mF []); [reflexivity|]. intros f rest. apply pl_F.
  - cbn [scalar_small] in Hsm.
    apply (gooddec_of_pdec mS (len_b (zlen b) ++ b)); [reflexivity|].
    apply str_dec; [left; reflexivity | lia].
  - cbn [scalar_ok] in Hok.
    destruct k; cbn [nkind_ok] in Hok; cbn [scalar_b ubj_img_scalar is_uint_kind andb canon_num].
    + apply gd_int8; exact Hok.
    + apply gd_onint16; exact Hok.
    + apply gd_onint32; exact Hok.
    + apply gd_onint64; exact Hok.
    + apply gd_onint; exact Hok.
    + destruct (z >? 127) eqn:E127.
      * apply gd_uint8; exact Hok.
      * apply (gooddec_of_pdec mC [z]); [reflexivity | apply char_dec; exact E127].
    + apply gd_uint8; exact Hok.
    + apply gd_uint. apply (in_u_64 16); [lia | exact Hok].
    + apply gd_uint. apply (in_u_64 32); [lia | exact Hok].
    + apply gd_uint; exact Hok.
    + apply gd_uint; exact Hok.
    + apply (gooddec_of_pdec md (be_enc 4 z)); [reflexivity | apply f32_dec; exact Hok].
    + apply (gooddec_of_pdec mD (be_enc 8 z)); [reflexivity | apply f64_dec; exact Hok].
Qed.

(* ====================================================================== *)
(* 4. The container loops of the reference decoder, as standalone fixpoints *)
(* ====================================================================== *)

Definition uvalue (f : nat) : nat -> bytes -> ref_result :=
  fix value (g : nat) (b : bytes) : ref_result :=
    match g with
    | O => RTruncated
    | S g' =>
        match b with
        | [] => RTruncated
        | m' :: r => if m' =? mN then value g' r
                     else if is_value_marker m' then ubj_payload f m' r else RMalformed
        end
    end.

Definition ukey (b : bytes) : option (bytes * bytes) + ref_result :=
  match ubj_len b with
  | LVal n r => match take n r with Some (a, r') => inl (Some (a, r')) | None => inr RTruncated end
  | LTrunc => inr RTruncated
  | LBad => inr RMalformed
  end.

(* counted loops ([pl] reads one element) *)
Definition arr_n (pl : bytes -> ref_result) : nat -> Z -> bytes -> list cvalue -> ref_result :=
  fix elems (g : nat) (n : Z) (b : bytes) (acc : list cvalue) : ref_result :=
    if n <=? 0 then RValue (CArr (rev acc)) b else
    match g with
    | O => RTruncated
    | S g' => match pl b with
              | RValue v r' => elems g' (n - 1) r' (v :: acc)
              | e => e
              end
    end.

Definition obj_n (pl : bytes -> ref_result) : nat -> Z -> bytes -> list (bytes * cvalue) -> ref_result :=
  fix mems (g : nat) (n : Z) (b : bytes) (acc : list (bytes * cvalue)) : ref_result :=
    if n <=? 0 then RValue (CObj (rev acc)) b else
    match g with
    | O => RTruncated
    | S g' =>
        match ukey b with
        | inr e => e
        | inl None => RMalformed
        | inl (Some (k, r')) =>
            match pl r' with
            | RValue v r'' => mems g' (n - 1) r'' ((k, v) :: acc)
            | e => e
            end
        end
    end.

(* loops of plain containers, closed by an end marker *)
Definition arr_plain (val : bytes -> ref_result) : nat -> bytes -> list cvalue -> ref_result :=
  fix elems (g : nat) (b : bytes) (acc : list cvalue) : ref_result :=
    match g with
    | O => RTruncated
    | S g' =>
        match b with
        | [] => RTruncated
        | h :: r' =>
            if h =? mArrE then RValue (CArr (rev acc)) r'
            else if h =? mN then elems g' r' acc
            else match val b with
                 | RValue v r'' => elems g' r'' (v :: acc)
                 | e => e
                 end
        end
    end.

Definition obj_plain (val : bytes -> ref_result) : nat -> bytes -> list (bytes * cvalue) -> ref_result :=
  fix mems (g : nat) (b : bytes) (acc : list (bytes * cvalue)) : ref_result :=
    match g with
    | O => RTruncated
    | S g' =>
        match b with
        | [] => RTruncated
        | h :: r' =>
            if h =? mObjE then RValue (CObj (rev acc)) r'
            else
              match ukey b with
              | inr e => e
              | inl None => RMalformed
              | inl (Some (k, r'')) =>
                  match val r'' with
                  | RValue v r3 => mems g' r3 ((k, v) :: acc)
                  | e => e
                  end
              end
        end
    end.

(* ---------- the container cases of ubj_payload ---------- *)
Lemma pl_arr_plain f h r : (h =? mType) = false -> (h =? mCount) = false ->
  ubj_payload (S f) mArrS (h :: r) = arr_plain (uvalue f f) f (h :: r) [].
Proof.
  intros H1 H2.
  change (ubj_payload (S f) mArrS (h :: r)) with
    (if h =? mType then
       match r with
       | [] => RTruncated
       | t :: r1 =>
           if negb (is_value_marker t) then RMalformed else
           match r1 with
           | [] => RTruncated
           | c :: r2 =>
               if negb (c =? mCount) then RMalformed else
               match ubj_len r2 with
               | LTrunc => RTruncated
               | LBad => RMalformed
               | LVal n r3 =>
                   if (100000 <? n) && ((t =? mZ) || (t =? mT) || (t =? mF)) then RMalformed else
                   arr_n (ubj_payload f t) (f + Z.to_nat (Z.min n 100001))%nat n r3 []
               end
           end
       end
     else if h =? mCount then
       match ubj_len r with
       | LTrunc => RTruncated
       | LBad => RMalformed
       | LVal n r1 => arr_n (uvalue f f) f n r1 []
       end
     else arr_plain (uvalue f f) f (h :: r) []).
  rewrite H1, H2. reflexivity.
Qed.

Lemma pl_arr_counted f r :
  ubj_payload (S f) mArrS (mCount :: r) =
  match ubj_len r with
  | LTrunc => RTruncated
  | LBad => RMalformed
  | LVal n r1 => arr_n (uvalue f f) f n r1 []
  end.
Proof. reflexivity. Qed.

Lemma pl_arr_typed f t r2 :
  ubj_payload (S f) mArrS (mType :: t :: mCount :: r2) =
  if negb (is_value_marker t) then RMalformed else
  match ubj_len r2 with
  | LTrunc => RTruncated
  | LBad => RMalformed
  | LVal n r3 =>
      if (100000 <? n) && ((t =? mZ) || (t =? mT) || (t =? mF)) then RMalformed else
      arr_n (ubj_payload f t) (f + Z.to_nat (Z.min n 100001))%nat n r3 []
  end.
Proof. reflexivity. Qed.

Lemma pl_obj_plain f h r : (h =? mType) = false -> (h =? mCount) = false ->
  ubj_payload (S f) mObjS (h :: r) = obj_plain (uvalue f f) f (h :: r) [].
Proof.
  intros H1 H2.
  change (ubj_payload (S f) mObjS (h :: r)) with
    (if h =? mType then
       match r with
       | [] => RTruncated
       | t :: r1 =>
           if negb (is_value_marker t) then RMalformed else
           match r1 with
           | [] => RTruncated
           | c :: r2 =>
               if negb (c =? mCount) then RMalformed else
               match ubj_len r2 with
               | LTrunc => RTruncated
               | LBad => RMalformed
               | LVal n r3 =>
                   obj_n (ubj_payload f t) (f + Z.to_nat (Z.min n 100001))%nat n r3 []
               end
           end
       end
     else if h =? mCount then
       match ubj_len r with
       | LTrunc => RTruncated
       | LBad => RMalformed
       | LVal n r1 => obj_n (uvalue f f) f n r1 []
       end
     else obj_plain (uvalue f f) f (h :: r) []).
  rewrite H1, H2. reflexivity.
Qed.

Lemma pl_obj_counted f r :
  ubj_payload (S f) mObjS (mCount :: r) =
  match ubj_len r with
  | LTrunc => RTruncated
  | LBad => RMalformed
  | LVal n r1 => obj_n (uvalue f f) f n r1 []
  end.
Proof. reflexivity. Qed.

Lemma pl_obj_typed f t r2 :
  ubj_payload (S f) mObjS (mType :: t :: mCount :: r2) =
  if negb (is_value_marker t) then RMalformed else
  match ubj_len r2 with
  | LTrunc => RTruncated
  | LBad => RMalformed
  | LVal n r3 => obj_n (ubj_payload f t) (f + Z.to_nat (Z.min n 100001))%nat n r3 []
  end.
Proof. reflexivity. Qed.

(* ---------- one step of each loop ---------- *)
Lemma uvalue_S f g m r : uvalue f (S g) (m :: r) =
  if m =? mN then uvalue f g r else if is_value_marker m then ubj_payload f m r else RMalformed.
Proof. reflexivity. Qed.

Lemma arr_n_O pl n b acc : arr_n pl O n b acc = if n <=? 0 then RValue (CArr (rev acc)) b else RTruncated.
Proof. reflexivity. Qed.
Lemma arr_n_S pl g n b acc : arr_n pl (S g) n b acc =
  if n <=? 0 then RValue (CArr (rev acc)) b else
  match pl b with
  | RValue v r' => arr_n pl g (n - 1) r' (v :: acc)
  | e => e
  end.
Proof. reflexivity. Qed.

Lemma obj_n_O pl n b acc : obj_n pl O n b acc = if n <=? 0 then RValue (CObj (rev acc)) b else RTruncated.
Proof. reflexivity. Qed.
Lemma obj_n_S pl g n b acc : obj_n pl (S g) n b acc =
  if n <=? 0 then RValue (CObj (rev acc)) b else
  match ukey b with
  | inr e => e
  | inl None => RMalformed
  | inl (Some (k, r')) =>
      match pl r' with
      | RValue v r'' => obj_n pl g (n - 1) r'' ((k, v) :: acc)
      | e => e
      end
  end.
Proof. reflexivity. Qed.

Lemma arr_plain_S val g h r acc : arr_plain val (S g) (h :: r) acc =
  if h =? mArrE then RValue (CArr (rev acc)) r
  else if h =? mN then arr_plain val g r acc
  else match val (h :: r) with
       | RValue v r'' => arr_plain val g r'' (v :: acc)
       | e => e
       end.
Proof. reflexivity. Qed.

Lemma obj_plain_S val g h r acc :
  obj_plain val (S g) (h :: r) acc =
  if h =? mObjE then RValue (CObj (rev acc)) r
  else match ukey (h :: r) with
       | inr e => e
       | inl None => RMalformed
       | inl (Some (k, r'')) =>
           match val r'' with
           | RValue v r3 => obj_plain val g r3 ((k, v) :: acc)
           | e => e
           end
       end.
Proof. reflexivity. Qed.

Lemma value_marker_not m : is_value_marker m = true ->
  (m =? mN) = false /\ (m =? mArrE) = false /\ (m =? mObjE) = false /\
  (m =? mType) = false /\ (m =? mCount) = false.
Proof.
  unfold is_value_marker. cbn [existsb]. rewrite !orb_true_iff, !Z.eqb_eq. intro H.
  repeat (destruct H as [->|H]; [repeat split; reflexivity|]). discriminate H.
Qed.

Lemma uvalue_good bs v f g rest : gooddec bs v ->
  (length (bs ++ rest) < f)%nat -> (0 < g)%nat -> uvalue f g (bs ++ rest) = RValue v rest.
Proof.
  intros (m & p & -> & M & D) Hf Hg. destruct g as [|g]; [lia|].
  cbn [app]. rewrite uvalue_S.
  destruct (value_marker_not m M) as (N & _). rewrite N, M. apply D. exact Hf.
Qed.

Lemma gooddec_nonempty bs v : gooddec bs v -> (1 <= length bs)%nat.
Proof. intros (m & p & -> & _). cbn [length]. lia. Qed.

Lemma length_flat_map_ge {A} (fb : A -> bytes) l :
  Forall (fun a => (1 <= length (fb a))%nat) l -> (length l <= length (flat_map fb l))%nat.
Proof.
  induction 1 as [|a l Ha Hl IH]; cbn [flat_map length]; [lia|]. rewrite app_length. lia.
Qed.

Lemma zlen_cons {A} (a : A) l : zlen (a :: l) = zlen l + 1.
Proof. unfold zlen. cbn [length]. lia. Qed.

(* ---------- counted loops ---------- *)
Lemma arr_n_loop {A} pl (fb : A -> bytes) (fv : A -> cvalue) (f : nat) (l : list A) :
  Forall (fun a => forall rest, (length (fb a ++ rest) < f)%nat -> pl (fb a ++ rest) = RValue (fv a) rest) l ->
  forall g acc rest, (length l <= g)%nat -> (length (flat_map fb l ++ rest) < f)%nat ->
  arr_n pl g (zlen l) (flat_map fb l ++ rest) acc = RValue (CArr (rev acc ++ map fv l)) rest.
Proof.
  induction 1 as [|a l Ha Hl IH]; intros g acc rest Hg Hf.
  - cbn [flat_map map app]. rewrite app_nil_r. destruct g; reflexivity.
  - destruct g as [|g]; [cbn [length] in Hg; lia|].
    rewrite arr_n_S. pose proof (zlen_nonneg l) as Hl0. rewrite zlen_cons.
    destruct (zlen l + 1 <=? 0) eqn:E; [lia|].
    cbn [flat_map] in *. rewrite <- app_assoc in *.
    rewrite Ha by exact Hf.
    replace (zlen l + 1 - 1) with (zlen l) by lia.
    rewrite IH.
    + cbn [rev map]. rewrite <- app_assoc. reflexivity.
    + cbn [length] in Hg. lia.
    + rewrite app_length in Hf. lia.
Qed.

Lemma string_b_false k : string_b k false = len_b (zlen k) ++ k.
Proof. reflexivity. Qed.

Lemma ukey_string k x : zlen k < int_lim -> ukey (string_b k false ++ x) = inl (Some (k, x)).
Proof.
  intro Hk. rewrite string_b_false, <- app_assoc. unfold ukey.
  destruct (len_b_dec (zlen k)) as (m & p & _ & _ & L); [pose proof (zlen_nonneg k); lia|].
  rewrite L, take_app. reflexivity.
Qed.

Lemma string_b_head k x : zlen k < int_lim ->
  exists h r, string_b k false ++ x = h :: r /\ (h =? mObjE) = false.
Proof.
  intro Hk. rewrite string_b_false.
  destruct (len_b_dec (zlen k)) as (m & p & E & M & _); [pose proof (zlen_nonneg k); lia|].
  rewrite E. cbn [app]. exists m. eexists. split; [reflexivity|].
  apply len_marker_value in M. apply (value_marker_not m M).
Qed.

Lemma obj_n_loop {A} pl (fk fb : A -> bytes) (fv : A -> cvalue) (f : nat) (l : list A) :
  Forall (fun a => zlen (fk a) < int_lim /\
                   forall rest, (length (fb a ++ rest) < f)%nat -> pl (fb a ++ rest) = RValue (fv a) rest) l ->
  forall g acc rest, (length l <= g)%nat ->
  (length (flat_map (fun a => string_b (fk a) false ++ fb a) l ++ rest) < f)%nat ->
  obj_n pl g (zlen l) (flat_map (fun a => string_b (fk a) false ++ fb a) l ++ rest) acc
  = RValue (CObj (rev acc ++ map (fun a => (fk a, fv a)) l)) rest.
Proof.
  induction 1 as [|a l [Hk Ha] Hl IH]; intros g acc rest Hg Hf.
  - cbn [flat_map map app]. rewrite app_nil_r. destruct g; reflexivity.
  - destruct g as [|g]; [cbn [length] in Hg; lia|].
    rewrite obj_n_S. pose proof (zlen_nonneg l) as Hl0. rewrite zlen_cons.
    destruct (zlen l + 1 <=? 0) eqn:E; [lia|].
    cbn [flat_map] in *. rewrite <- !app_assoc in *.
    rewrite ukey_string by exact Hk.
    rewrite Ha by (rewrite app_length in Hf; lia).
    replace (zlen l + 1 - 1) with (zlen l) by lia.
    rewrite IH.
    + cbn [rev map]. rewrite <- app_assoc. reflexivity.
    + cbn [length] in Hg. lia.
    + rewrite !app_length in Hf. rewrite app_length. lia.
Qed.

(* ---------- plain loops ---------- *)
Lemma arr_plain_loop {A} (fb : A -> bytes) (fv : A -> cvalue) (f : nat) (l : list A) :
  Forall (fun a => gooddec (fb a) (fv a)) l ->
  forall g acc rest,
  (length (flat_map fb l ++ mArrE :: rest) < g)%nat ->
  (length (flat_map fb l ++ mArrE :: rest) < f)%nat ->
  arr_plain (uvalue f f) g (flat_map fb l ++ mArrE :: rest) acc = RValue (CArr (rev acc ++ map fv l)) rest.
Proof.
  induction 1 as [|a l Ha Hl IH]; intros g acc rest Hg Hf.
  - cbn [flat_map map app] in *. rewrite app_nil_r.
    destruct g as [|g]; [lia|]. rewrite arr_plain_S. reflexivity.
  - cbn [flat_map] in *. rewrite <- app_assoc in *.
    assert (V : uvalue f f (fb a ++ flat_map fb l ++ mArrE :: rest)
                = RValue (fv a) (flat_map fb l ++ mArrE :: rest)).
    { apply uvalue_good; [exact Ha | exact Hf | lia]. }
    destruct Ha as (m & p & E & M & _). rewrite E in *. cbn [app] in *.
    destruct g as [|g]; [lia|]. rewrite arr_plain_S.
    destruct (value_marker_not m M) as (N1 & N2 & _). rewrite N1, N2, V.
    rewrite IH.
    + cbn [rev map]. rewrite <- app_assoc. reflexivity.
    + cbn [length] in Hg. rewrite app_length in Hg. lia.
    + cbn [length] in Hf. rewrite app_length in Hf. lia.
Qed.

Lemma obj_plain_loop {A} (fk fb : A -> bytes) (fv : A -> cvalue) (f : nat) (l : list A) :
  Forall (fun a => zlen (fk a) < int_lim /\ gooddec (fb a) (fv a)) l ->
  forall g acc rest,
  (length (flat_map (fun a => string_b (fk a) false ++ fb a) l ++ mObjE :: rest) < g)%nat ->
  (length (flat_map (fun a => string_b (fk a) false ++ fb a) l ++ mObjE :: rest) < f)%nat ->
  obj_plain (uvalue f f) g (flat_map (fun a => string_b (fk a) false ++ fb a) l ++ mObjE :: rest) acc
  = RValue (CObj (rev acc ++ map (fun a => (fk a, fv a)) l)) rest.
Proof.
  induction 1 as [|a l [Hk Ha] Hl IH]; intros g acc rest Hg Hf.
  - cbn [flat_map map app] in *. rewrite app_nil_r.
    destruct g as [|g]; [lia|]. rewrite obj_plain_S. reflexivity.
  - cbn [flat_map] in *. rewrite <- !app_assoc in *.
    assert (V : uvalue f f (fb a ++ flat_map (fun a => string_b (fk a) false ++ fb a) l ++ mObjE :: rest)
                = RValue (fv a) (flat_map (fun a => string_b (fk a) false ++ fb a) l ++ mObjE :: rest)).
    { apply uvalue_good; [exact Ha | rewrite app_length in Hf; lia | lia]. }
    pose proof (ukey_string (fk a) (fb a ++ flat_map (fun a => string_b (fk a) false ++ fb a) l ++ mObjE :: rest) Hk) as K.
    destruct (string_b_head (fk a) (fb a ++ flat_map (fun a => string_b (fk a) false ++ fb a) l ++ mObjE :: rest) Hk)
      as (h & r & E & N).
    destruct g as [|g]; [lia|].
    assert (Hg' : (length (flat_map (fun a => string_b (fk a) false ++ fb a) l ++ mObjE :: rest) < g)%nat).
    { pose proof (gooddec_nonempty _ _ Ha). rewrite !app_length in Hg. rewrite !app_length. lia. }
    assert (Hf' : (length (flat_map (fun a => string_b (fk a) false ++ fb a) l ++ mObjE :: rest) < f)%nat).
    { rewrite !app_length in Hf. rewrite !app_length. lia. }
    rewrite E in *. rewrite obj_plain_S. rewrite N, K, V.
    rewrite IH by assumption.
    cbn [rev map]. rewrite <- app_assoc. reflexivity.
Qed.

(* ====================================================================== *)
(* 5. Whole containers                                                     *)
(* ====================================================================== *)

Lemma pl_arr_plain' f b :
  (forall h r, b = h :: r -> (h =? mType) = false /\ (h =? mCount) = false) -> b <> [] ->
  ubj_payload (S f) mArrS b = arr_plain (uvalue f f) f b [].
Proof.
  intros H Hne. destruct b as [|h r]; [contradiction|].
  destruct (H h r eq_refl) as [H1 H2]. apply pl_arr_plain; assumption.
Qed.

Lemma pl_obj_plain' f b :
  (forall h r, b = h :: r -> (h =? mType) = false /\ (h =? mCount) = false) -> b <> [] ->
  ubj_payload (S f) mObjS b = obj_plain (uvalue f f) f b [].
Proof.
  intros H Hne. destruct b as [|h r]; [contradiction|].
  destruct (H h r eq_refl) as [H1 H2]. apply pl_obj_plain; assumption.
Qed.

Lemma arr_head {A} (fb : A -> bytes) (fv : A -> cvalue) l e x :
  Forall (fun a => gooddec (fb a) (fv a)) l -> (e =? mType) = false -> (e =? mCount) = false ->
  forall h r, flat_map fb l ++ e :: x = h :: r -> (h =? mType) = false /\ (h =? mCount) = false.
Proof.
  intros Hl E1 E2 h r. destruct Hl as [|a l (m & p & E & M & _) _]; cbn [flat_map app].
  - intro H. inversion H; subst. auto.
  - rewrite E. cbn [app]. intro H. inversion H; subst.
    destruct (value_marker_not h M) as (_ & _ & _ & N1 & N2). auto.
Qed.

Lemma obj_head {A} (fk fb : A -> bytes) l e x :
  Forall (fun a => zlen (fk a) < int_lim) l -> (e =? mType) = false -> (e =? mCount) = false ->
  forall h r, flat_map (fun a => string_b (fk a) false ++ fb a) l ++ e :: x = h :: r ->
  (h =? mType) = false /\ (h =? mCount) = false.
Proof.
  intros Hl E1 E2 h r. destruct Hl as [|a l Hk _]; cbn [flat_map app].
  - intro H. inversion H; subst. auto.
  - rewrite string_b_false.
    destruct (len_b_dec (zlen (fk a))) as (m & p & E & M & _); [pose proof (zlen_nonneg (fk a)); lia|].
    rewrite E. cbn [app]. intro H. inversion H; subst.
    apply len_marker_value in M.
    destruct (value_marker_not h M) as (_ & _ & _ & N1 & N2). auto.
Qed.

Lemma app_cons_not_nil {A} (l : list A) e x : l ++ e :: x <> [].
Proof. destruct l; discriminate. Qed.

(* ---------- arrays ---------- *)
Lemma shell_arr_plain {A} (fb : A -> bytes) (fv : A -> cvalue) l :
  Forall (fun a => gooddec (fb a) (fv a)) l ->
  gooddec (mArrS :: flat_map fb l ++ [mArrE]) (CArr (map fv l)).
Proof.
  intro Hl. exists mArrS, (flat_map fb l ++ [mArrE]).
  split; [reflexivity|]. split; [reflexivity|].
  intros rest fuel Hf. destruct fuel as [|f]; [lia|].
  cbn [app length] in Hf |- *. rewrite <- ?app_assoc in Hf. rewrite <- ?app_assoc. cbn [app] in Hf |- *.
  rewrite pl_arr_plain'.
  - apply (arr_plain_loop fb fv f l Hl f [] rest); lia.
  - eapply arr_head; [exact Hl | reflexivity | reflexivity].
  - apply app_cons_not_nil.
Qed.

Lemma good_to_uvalue {A} (fb : A -> bytes) (fv : A -> cvalue) f l :
  Forall (fun a => gooddec (fb a) (fv a)) l ->
  Forall (fun a => forall rest, (length (fb a ++ rest) < f)%nat ->
                   uvalue f f (fb a ++ rest) = RValue (fv a) rest) l.
Proof.
  intro H. eapply Forall_impl; [|exact H]. intros a Ha rest Hf.
  apply uvalue_good; [exact Ha | exact Hf | lia].
Qed.

Lemma good_nonempty {A} (fb : A -> bytes) (fv : A -> cvalue) l :
  Forall (fun a => gooddec (fb a) (fv a)) l -> Forall (fun a => (1 <= length (fb a))%nat) l.
Proof. intro H. eapply Forall_impl; [|exact H]. intros a Ha. eapply gooddec_nonempty; exact Ha. Qed.

Lemma shell_arr_counted {A} (fb : A -> bytes) (fv : A -> cvalue) l :
  Forall (fun a => gooddec (fb a) (fv a)) l -> zlen l < int_lim ->
  gooddec (mArrS :: mCount :: len_b (zlen l) ++ flat_map fb l) (CArr (map fv l)).
Proof.
  intros Hl Hn. exists mArrS, (mCount :: len_b (zlen l) ++ flat_map fb l).
  split; [reflexivity|]. split; [reflexivity|].
  intros rest fuel Hf. destruct fuel as [|f]; [lia|].
  cbn [app length] in Hf |- *. rewrite <- ?app_assoc in Hf. rewrite <- ?app_assoc. cbn [app] in Hf |- *.
  rewrite pl_arr_counted.
  destruct (len_b_dec (zlen l)) as (m & p & _ & _ & L); [pose proof (zlen_nonneg l); lia|].
  rewrite L. rewrite app_length in Hf.
  pose proof (length_flat_map_ge fb l (good_nonempty fb fv l Hl)) as Hge.
  apply (arr_n_loop (uvalue f f) fb fv f l (good_to_uvalue fb fv f l Hl) f [] rest).
  - rewrite app_length in Hf. lia.
  - lia.
Qed.

Definition is_elem_marker (t : Z) : bool := existsb (Z.eqb t) [mS; mi; mU; mI; ml; mL; md; mD; mH].

Lemma elem_marker_props t : is_elem_marker t = true ->
  is_value_marker t = true /\ ((t =? mZ) || (t =? mT) || (t =? mF)) = false.
Proof.
  unfold is_elem_marker. cbn [existsb]. rewrite !orb_true_iff, !Z.eqb_eq. intro H.
  repeat (destruct H as [->|H]; [split; reflexivity|]). discriminate H.
Qed.

Lemma pdec_to_payload {A} t (fb : A -> bytes) (fv : A -> cvalue) f l :
  Forall (fun a => pdec t (fb a) (fv a) /\ (1 <= length (fb a))%nat) l ->
  Forall (fun a => forall rest, (length (fb a ++ rest) < S f)%nat ->
                   ubj_payload (S f) t (fb a ++ rest) = RValue (fv a) rest) l.
Proof. intro H. eapply Forall_impl; [|exact H]. intros a [Ha _] rest _. apply Ha. Qed.

Lemma pdec_nonempty {A} t (fb : A -> bytes) (fv : A -> cvalue) l :
  Forall (fun a => pdec t (fb a) (fv a) /\ (1 <= length (fb a))%nat) l ->
  Forall (fun a => (1 <= length (fb a))%nat) l.
Proof. intro H. eapply Forall_impl; [|exact H]. intros a [_ Ha]. exact Ha. Qed.

Lemma shell_arr_typed {A} t (fb : A -> bytes) (fv : A -> cvalue) l :
  is_elem_marker t = true ->
  Forall (fun a => pdec t (fb a) (fv a) /\ (1 <= length (fb a))%nat) l -> zlen l < int_lim ->
  gooddec ([mArrS; mType; t; mCount] ++ len_b (zlen l) ++ flat_map fb l) (CArr (map fv l)).
Proof.
  intros Ht Hl Hn. exists mArrS, ([mType; t; mCount] ++ len_b (zlen l) ++ flat_map fb l).
  split; [reflexivity|]. split; [reflexivity|].
  intros rest fuel Hf. destruct fuel as [|f]; [lia|].
  cbn [app length] in Hf |- *. rewrite <- ?app_assoc in Hf. rewrite <- ?app_assoc. cbn [app] in Hf |- *.
  rewrite pl_arr_typed. destruct (elem_marker_props t Ht) as [V R]. rewrite V, R. cbn [negb].
  destruct (len_b_dec (zlen l)) as (m & p & _ & _ & L); [pose proof (zlen_nonneg l); lia|].
  rewrite L, andb_false_r. rewrite !app_length in Hf.
  pose proof (length_flat_map_ge fb l (pdec_nonempty t fb fv l Hl)) as Hge.
  destruct f as [|f]; [lia|].
  apply (arr_n_loop (ubj_payload (S f) t) fb fv (S f) l (pdec_to_payload t fb fv f l Hl) _ [] rest).
  - lia.
  - rewrite app_length. lia.
Qed.

(* ---------- objects ---------- *)
Lemma Forall_and_l {A} (P Q : A -> Prop) l : Forall (fun a => P a /\ Q a) l -> Forall P l.
Proof. intro H. eapply Forall_impl; [|exact H]. intros a [Ha _]. exact Ha. Qed.

Lemma shell_obj_plain {A} (fk fb : A -> bytes) (fv : A -> cvalue) l :
  Forall (fun a => zlen (fk a) < int_lim /\ gooddec (fb a) (fv a)) l ->
  gooddec (mObjS :: flat_map (fun a => string_b (fk a) false ++ fb a) l ++ [mObjE])
          (CObj (map (fun a => (fk a, fv a)) l)).
Proof.
  intro Hl. eexists mObjS, _.
  split; [reflexivity|]. split; [reflexivity|].
  intros rest fuel Hf. destruct fuel as [|f]; [lia|].
  cbn [app length] in Hf |- *. rewrite <- ?app_assoc in Hf. rewrite <- ?app_assoc. cbn [app] in Hf |- *.
  rewrite pl_obj_plain'.
  - apply (obj_plain_loop fk fb fv f l Hl f [] rest); lia.
  - eapply obj_head; [eapply Forall_and_l; exact Hl | reflexivity | reflexivity].
  - apply app_cons_not_nil.
Qed.

Lemma kgood_to_uvalue {A} (fk fb : A -> bytes) (fv : A -> cvalue) f l :
  Forall (fun a => zlen (fk a) < int_lim /\ gooddec (fb a) (fv a)) l ->
  Forall (fun a => zlen (fk a) < int_lim /\
                   forall rest, (length (fb a ++ rest) < f)%nat ->
                   uvalue f f (fb a ++ rest) = RValue (fv a) rest) l.
Proof.
  intro H. eapply Forall_impl; [|exact H]. intros a [Hk Ha]. split; [exact Hk|].
  intros rest Hf. apply uvalue_good; [exact Ha | exact Hf | lia].
Qed.

Lemma length_members_ge {A} (fk fb : A -> bytes) l :
  Forall (fun a => (1 <= length (fb a))%nat) l ->
  (length l <= length (flat_map (fun a => string_b (fk a) false ++ fb a) l))%nat.
Proof.
  intro H. apply length_flat_map_ge. eapply Forall_impl; [|exact H].
  intros a Ha. cbv beta in Ha. rewrite app_length. lia.
Qed.

Lemma kgood_nonempty {A} (fk fb : A -> bytes) (fv : A -> cvalue) l :
  Forall (fun a => zlen (fk a) < int_lim /\ gooddec (fb a) (fv a)) l ->
  Forall (fun a => (1 <= length (fb a))%nat) l.
Proof. intro H. eapply Forall_impl; [|exact H]. intros a [_ Ha]. eapply gooddec_nonempty; exact Ha. Qed.

Lemma shell_obj_counted {A} (fk fb : A -> bytes) (fv : A -> cvalue) l :
  Forall (fun a => zlen (fk a) < int_lim /\ gooddec (fb a) (fv a)) l -> zlen l < int_lim ->
  gooddec (mObjS :: mCount :: len_b (zlen l) ++ flat_map (fun a => string_b (fk a) false ++ fb a) l)
          (CObj (map (fun a => (fk a, fv a)) l)).
Proof.
  intros Hl Hn. eexists mObjS, _.
  split; [reflexivity|]. split; [reflexivity|].
  intros rest fuel Hf. destruct fuel as [|f]; [lia|].
  cbn [app length] in Hf |- *. rewrite <- ?app_assoc in Hf. rewrite <- ?app_assoc. cbn [app] in Hf |- *.
  rewrite pl_obj_counted.
  destruct (len_b_dec (zlen l)) as (m & p & _ & _ & L); [pose proof (zlen_nonneg l); lia|].
  rewrite L. rewrite app_length in Hf.
  pose proof (length_members_ge fk fb l (kgood_nonempty fk fb fv l Hl)) as Hge.
  apply (obj_n_loop (uvalue f f) fk fb fv f l (kgood_to_uvalue fk fb fv f l Hl) f [] rest).
  - rewrite app_length in Hf. lia.
  - lia.
Qed.

Lemma kpdec_to_payload {A} t (fk fb : A -> bytes) (fv : A -> cvalue) f l :
  Forall (fun a => zlen (fk a) < int_lim /\ pdec t (fb a) (fv a) /\ (1 <= length (fb a))%nat) l ->
  Forall (fun a => zlen (fk a) < int_lim /\
                   forall rest, (length (fb a ++ rest) < S f)%nat ->
                   ubj_payload (S f) t (fb a ++ rest) = RValue (fv a) rest) l.
Proof.
  intro H. eapply Forall_impl; [|exact H]. intros a (Hk & Ha & _). split; [exact Hk|].
  intros rest _. apply Ha.
Qed.

Lemma kpdec_nonempty {A} t (fk fb : A -> bytes) (fv : A -> cvalue) l :
  Forall (fun a => zlen (fk a) < int_lim /\ pdec t (fb a) (fv a) /\ (1 <= length (fb a))%nat) l ->
  Forall (fun a => (1 <= length (fb a))%nat) l.
Proof. intro H. eapply Forall_impl; [|exact H]. intros a (_ & _ & Ha). exact Ha. Qed.

Lemma shell_obj_typed {A} t (fk fb : A -> bytes) (fv : A -> cvalue) l :
  is_elem_marker t = true ->
  Forall (fun a => zlen (fk a) < int_lim /\ pdec t (fb a) (fv a) /\ (1 <= length (fb a))%nat) l ->
  zlen l < int_lim ->
  gooddec ([mObjS; mType; t; mCount] ++ len_b (zlen l)
           ++ flat_map (fun a => string_b (fk a) false ++ fb a) l)
          (CObj (map (fun a => (fk a, fv a)) l)).
Proof.
  intros Ht Hl Hn. eexists mObjS, _.
  split; [reflexivity|]. split; [reflexivity|].
  intros rest fuel Hf. destruct fuel as [|f]; [lia|].
  cbn [app length] in Hf |- *. rewrite <- ?app_assoc in Hf. rewrite <- ?app_assoc. cbn [app] in Hf |- *.
  rewrite pl_obj_typed. destruct (elem_marker_props t Ht) as [V R]. rewrite V. cbn [negb].
  destruct (len_b_dec (zlen l)) as (m & p & _ & _ & L); [pose proof (zlen_nonneg l); lia|].
  rewrite L. rewrite !app_length in Hf.
  pose proof (length_members_ge fk fb l (kpdec_nonempty t fk fb fv l Hl)) as Hge.
  destruct f as [|f]; [lia|].
  apply (obj_n_loop (ubj_payload (S f) t) fk fb fv (S f) l (kpdec_to_payload t fk fb fv f l Hl) _ [] rest).
  - lia.
  - rewrite app_length. lia.
Qed.

(* ====================================================================== *)
(* 6. Typed extended events                                                *)
(* ====================================================================== *)

Definition typed_bt (bt : btype) : bool :=
  match bt with BAny | BZero | BBool => false | _ => true end.

Lemma num_marker_elem t : is_num_marker t = true -> is_elem_marker t = true.
Proof.
  intro H. apply num_marker_cases in H.
  destruct H as [->|[->|[->|[->|[->| ->]]]]]; reflexivity.
Qed.

Lemma typed_marker_elem bt es : typed_bt bt = true -> is_elem_marker (typed_marker bt es) = true.
Proof.
  intro H. destruct bt; try discriminate H; try reflexivity;
    cbn [typed_marker]; apply num_marker_elem; apply (proj1 (uint_min_type_props es)).
Qed.

(* the value of one element of a typed container after the trip *)
Definition ximg (bt : btype) (es : list scalar) (s : scalar) : cvalue :=
  if is_uint_bt bt && needs_h es then scalar_h s else cv (scalar_value s).

Lemma ed_u8 z : in_u 8 z = true ->
  pdec mU (uint8_b z false) (CNum (CInt z)) /\ (1 <= length (uint8_b z false))%nat.
Proof. intro H. split; [exact (proj1 (uint8_dec z H)) | cbn; lia]. Qed.
Lemma ed_i8 z : in_s 8 z = true ->
  pdec mi (int8_b z false) (CNum (CInt z)) /\ (1 <= length (int8_b z false))%nat.
Proof. intro H. split; [exact (proj1 (int8_dec z H)) | cbn; lia]. Qed.
Lemma ed_i16 z : in_s 16 z = true ->
  pdec mI (int16_b z false) (CNum (CInt z)) /\ (1 <= length (int16_b z false))%nat.
Proof.
  intro H. split; [exact (proj1 (int16_dec z H))|].
  change (int16_b z false) with (be_enc 2 (wrapu 16 z)). rewrite be_enc_length. lia.
Qed.
Lemma ed_i32 z : in_s 32 z = true ->
  pdec ml (int32_b z false) (CNum (CInt z)) /\ (1 <= length (int32_b z false))%nat.
Proof.
  intro H. split; [exact (proj1 (int32_dec z H))|].
  change (int32_b z false) with (be_enc 4 (wrapu 32 z)). rewrite be_enc_length. lia.
Qed.
Lemma ed_i64 z : in_s 64 z = true ->
  pdec mL (int64_b z false) (CNum (CInt z)) /\ (1 <= length (int64_b z false))%nat.
Proof.
  intro H. split; [exact (proj1 (int64_dec z H))|].
  change (int64_b z false) with (be_enc 8 (wrapu 64 z)). rewrite be_enc_length. lia.
Qed.
Lemma ed_f32 z : in_u 32 z = true ->
  pdec md (float32_b z false) (CNum (CF32 z)) /\ (1 <= length (float32_b z false))%nat.
Proof.
  intro H. split; [exact (f32_dec z H)|].
  change (float32_b z false) with (be_enc 4 z). rewrite be_enc_length. lia.
Qed.
Lemma ed_f64 z : in_u 64 z = true ->
  pdec mD (float64_b z false) (CNum (CF64 z)) /\ (1 <= length (float64_b z false))%nat.
Proof.
  intro H. split; [exact (f64_dec z H)|].
  change (float64_b z false) with (be_enc 8 z). rewrite be_enc_length. lia.
Qed.
Lemma ed_str b : (zlen b <? int_lim) = true ->
  pdec mS (string_b b false) (CStr b) /\ (1 <= length (string_b b false))%nat.
Proof.
  intro H. split.
  - exact (str_dec mS b (or_introl eq_refl) ltac:(lia)).
  - rewrite string_b_false, app_length.
    assert (Hb : 0 <= zlen b < int_lim) by (pose proof (zlen_nonneg b); lia).
    pose proof (len_b_nonempty (zlen b) Hb). lia.
Qed.
Lemma ed_uint es s : In s es -> in_u 64 (snum s) = true ->
  pdec (uint_min_type es) (uint64_b (snum s) (uint_min_type es) false)
       (if needs_h es then scalar_h s else CNum (CInt (snum s))) /\
  (1 <= length (uint64_b (snum s) (uint_min_type es) false))%nat.
Proof.
  intros Hin Hu. destruct (uint_min_type_props es) as (N & B & H).
  destruct (uint64_b_dec (snum s) (uint_min_type es) Hu N) as (p & E & P & Len).
  { pose proof (B s Hin). pose proof (uint_type_fits (snum s)).
    unfold in_u in Hu. change (2 ^ 64) with 18446744073709551616 in Hu. lia. }
  rewrite (E false). cbn [optm app]. rewrite <- H. split; [exact P | exact Len].
Qed.

Lemma elem_dec bt es s : typed_bt bt = true -> In s es -> xelem_ok bt s = true ->
  scalar_small s = true ->
  pdec (typed_marker bt es) (elem_b bt (typed_marker bt es) s) (ximg bt es s) /\
  (1 <= length (elem_b bt (typed_marker bt es) s))%nat.
Proof.
  intros Hbt Hin Hx Hsm. unfold xelem_ok in Hx. unfold ximg.
  destruct bt; try discriminate Hbt; cbv iota in Hx; apply andb_true_iff in Hx as [Hm Hok];
    destruct s as [| |b|k z]; try discriminate Hm; try (destruct k; try discriminate Hm);
    cbn [scalar_ok nkind_ok] in Hok; cbn [scalar_small] in Hsm;
    cbn [typed_marker elem_b is_uint_bt andb sstr scalar_value cv canon_num];
    first
    [ apply ed_u8; exact Hok
    | apply ed_str; exact Hsm
    | apply ed_i8; exact Hok
    | apply ed_i16; exact Hok
    | apply ed_i32; exact Hok
    | apply ed_i64; exact Hok
    | apply ed_f32; exact Hok
    | apply ed_f64; exact Hok
    | apply (ed_uint es _ Hin); cbn [snum];
      first [ exact Hok | apply (in_u_64 16); [lia | exact Hok] | apply (in_u_64 32); [lia | exact Hok] ] ].
Qed.

Lemma zlen_le0_nil {A} (l : list A) : zlen l <= 0 -> l = [].
Proof. intro H. apply zlen_0_nil. pose proof (zlen_nonneg l). lia. Qed.

Lemma bool_good s : xelem_ok BBool s = true -> gooddec (bool_b s) (cv (scalar_value s)).
Proof.
  intro Hx. unfold xelem_ok in Hx. apply andb_true_iff in Hx as [Hm _].
  destruct s as [|b|b|k z]; try discriminate Hm.
  destruct b.
  - apply (gooddec_of_pdec mT []); [reflexivity|]. intros f rest. apply pl_T.
  - apply (gooddec_of_pdec mF []); [reflexivity|]. intros f rest. apply pl_F.
Qed.

Lemma bool_bt_eq bt : is_bool_bt bt = true -> bt = BBool.
Proof. destruct bt; try discriminate; reflexivity. Qed.

Lemma typed_of_xelem bt s : xelem_ok bt s = true -> is_bool_bt bt = false -> typed_bt bt = true.
Proof. destruct bt; try reflexivity; discriminate. Qed.

Lemma xarr_good bt es :
  forallb (xelem_ok bt) es = true -> zlen es < int_lim -> forallb scalar_small es = true ->
  gooddec (xarr_b bt es) (ubj_img (TXArr bt es)).
Proof.
  intros Hx Hn Hsm. rewrite forallb_forall in Hx, Hsm. unfold xarr_b. cbn [ubj_img].
  destruct (is_bool_bt bt) eqn:Eb.
  - apply bool_bt_eq in Eb. subst bt. cbn [is_uint_bt andb].
    assert (G : Forall (fun s => gooddec (bool_b s) (cv (scalar_value s))) es).
    { apply Forall_forall. intros s Hs. apply bool_good. apply Hx; exact Hs. }
    unfold count_b, close_b. destruct (zlen es <=? 0) eqn:E.
    + cbn [app]. apply shell_arr_plain. exact G.
    + rewrite app_nil_r. cbn [app]. apply shell_arr_counted; [exact G | exact Hn].
  - destruct (zlen es <=? 0) eqn:E.
    + assert (es = []) by (apply zlen_le0_nil; lia). subst es.
      destruct (is_uint_bt bt && needs_h []);
        exact (shell_arr_plain bool_b (fun _ => CNil) [] (Forall_nil _)).
    + assert (Ht : typed_bt bt = true).
      { destruct es as [|s0 es']; [discriminate E|].
        apply (typed_of_xelem bt s0); [apply Hx; left; reflexivity | exact Eb]. }
      replace (if is_uint_bt bt && needs_h es then CArr (map scalar_h es)
               else CArr (map (fun s => cv (scalar_value s)) es))
        with (CArr (map (ximg bt es) es))
        by (unfold ximg; destruct (is_uint_bt bt && needs_h es); reflexivity).
      apply shell_arr_typed; [apply typed_marker_elem; exact Ht | | exact Hn].
      apply Forall_forall. intros s Hs.
      apply elem_dec; [exact Ht | exact Hs | apply Hx; exact Hs | apply Hsm; exact Hs].
Qed.

Lemma xobj_good bt ms :
  forallb (fun m => all_bytes (fst m) && xelem_ok bt (snd m)) ms = true -> zlen ms < int_lim ->
  forallb (fun m => (zlen (fst m) <? int_lim) && scalar_small (snd m)) ms = true ->
  gooddec (xobj_b bt ms) (ubj_img (TXObj bt ms)).
Proof.
  intros Hx Hn Hsm. rewrite forallb_forall in Hx, Hsm. unfold xobj_b. cbn [ubj_img].
  assert (Hx' : forall m, In m ms -> xelem_ok bt (snd m) = true).
  { intros m Hm. specialize (Hx m Hm). apply andb_true_iff in Hx as [_ Hx]. exact Hx. }
  assert (Hk : forall m, In m ms -> zlen (fst m) < int_lim).
  { intros m Hm. specialize (Hsm m Hm). apply andb_true_iff in Hsm as [Hk _]. apply Z.ltb_lt in Hk. exact Hk. }
  assert (Hs' : forall m, In m ms -> scalar_small (snd m) = true).
  { intros m Hm. specialize (Hsm m Hm). apply andb_true_iff in Hsm as [_ Hs]. exact Hs. }
  destruct (zlen ms <=? 0) eqn:E.
  - assert (ms = []) by (apply zlen_le0_nil; lia). subst ms.
    destruct (is_uint_bt bt && needs_h (map snd []));
      exact (shell_obj_plain (fun m : bytes * scalar => fst m) (fun m => bool_b (snd m))
               (fun _ => CNil) [] (Forall_nil _)).
  - destruct (is_bool_bt bt) eqn:Eb.
    + apply bool_bt_eq in Eb. subst bt. cbn [is_uint_bt andb].
      unfold count_b, close_b. rewrite E, app_nil_r. cbn [app].
      apply (shell_obj_counted (fun m : bytes * scalar => fst m) (fun m => bool_b (snd m))
               (fun m => cv (scalar_value (snd m))) ms); [|exact Hn].
      apply Forall_forall. intros m Hm. split; [apply Hk; exact Hm|].
      apply bool_good. apply Hx'; exact Hm.
    + assert (Ht : typed_bt bt = true).
      { destruct ms as [|m0 ms']; [discriminate E|].
        apply (typed_of_xelem bt (snd m0)); [apply Hx'; left; reflexivity | exact Eb]. }
      replace (if is_uint_bt bt && needs_h (map snd ms)
               then CObj (map (fun m => (fst m, scalar_h (snd m))) ms)
               else CObj (map (fun m => (fst m, cv (scalar_value (snd m)))) ms))
        with (CObj (map (fun m => (fst m, ximg bt (map snd ms) (snd m))) ms))
        by (unfold ximg; destruct (is_uint_bt bt && needs_h (map snd ms)); reflexivity).
      apply (shell_obj_typed (typed_marker bt (map snd ms)) (fun m : bytes * scalar => fst m)
               (fun m => elem_b bt (typed_marker bt (map snd ms)) (snd m))
               (fun m => ximg bt (map snd ms) (snd m)) ms);
        [apply typed_marker_elem; exact Ht | | exact Hn].
      apply Forall_forall. intros m Hm. split; [apply Hk; exact Hm|].
      apply elem_dec; [exact Ht | apply in_map; exact Hm | apply Hx'; exact Hm | apply Hs'; exact Hm].
Qed.

(* ====================================================================== *)
(* 7. Trees                                                                *)
(* ====================================================================== *)

(* every element count, string length and key length fits Go's int *)
Fixpoint tree_small (t : tree) : bool :=
  match t with
  | TVal s _ => scalar_small s
  | TArr _ _ es =>
      (zlen es <? int_lim) &&
      (fix go (l : list tree) := match l with [] => true | e :: r => tree_small e && go r end) es
  | TObj _ _ ms =>
      (zlen ms <? int_lim) &&
      (fix go (l : list (bytes * bool * tree)) :=
         match l with
         | [] => true
         | (k, _, e) :: r => (zlen k <? int_lim) && tree_small e && go r
         end) ms
  | TXArr _ es => (zlen es <? int_lim) && forallb scalar_small es
  | TXObj _ ms =>
      (zlen ms <? int_lim) &&
      forallb (fun m => (zlen (fst m) <? int_lim) && scalar_small (snd m)) ms
  end.

Lemma small_arr len bt es :
  tree_small (TArr len bt es) = (zlen es <? int_lim) && forallb tree_small es.
Proof. reflexivity. Qed.

Lemma small_obj len bt ms :
  tree_small (TObj len bt ms) =
  (zlen ms <? int_lim) &&
  forallb (fun m => (zlen (fst (fst m)) <? int_lim) && tree_small (snd m)) ms.
Proof.
  cbn [tree_small]. f_equal.
  induction ms as [|[[k r] e] rest IH]; cbn [forallb fst snd]; [reflexivity|].
  rewrite <- IH. reflexivity.
Qed.

Lemma len_ok_pos {A} len (l : list A) : len_ok len l = true -> (len <=? 0) = false -> len = zlen l.
Proof. unfold len_ok. intros H1 H2. lia. Qed.

Lemma dec_tree t : wf_tree t = true -> tree_small t = true -> gooddec (tbytes t) (ubj_img t).
Proof.
  induction t as [s r|len bt es IH|len bt ms IH|bt es|bt ms] using tree_ind'; intros Hwf Hsm.
  - cbn [wf_tree tree_small tbytes ubj_img] in *. apply gooddec_scalar; assumption.
  - rewrite wf_arr in Hwf. rewrite small_arr in Hsm.
    apply andb_true_iff in Hwf as [Hwf Hw]. apply andb_true_iff in Hwf as [Hlen _].
    apply andb_true_iff in Hsm as [Hn Hs].
    rewrite forallb_forall in Hw, Hs. rewrite Forall_forall in IH.
    assert (G : Forall (fun t => gooddec (tbytes t) (ubj_img t)) es).
    { apply Forall_forall. intros t Ht. apply IH; [exact Ht | apply Hw; exact Ht | apply Hs; exact Ht]. }
    cbn [tbytes ubj_img]. unfold count_b, close_b. destruct (len <=? 0) eqn:E.
    + cbn [app]. apply shell_arr_plain. exact G.
    + apply len_ok_pos in Hlen; [|exact E]. subst len.
      rewrite app_nil_r. cbn [app]. apply shell_arr_counted; [exact G | lia].
  - rewrite wf_obj in Hwf. rewrite small_obj in Hsm.
    apply andb_true_iff in Hwf as [Hwf Hw]. apply andb_true_iff in Hwf as [Hlen _].
    apply andb_true_iff in Hsm as [Hn Hs].
    rewrite forallb_forall in Hw, Hs. rewrite Forall_forall in IH.
    assert (G : Forall (fun m : bytes * bool * tree =>
                          zlen (fst (fst m)) < int_lim /\ gooddec (tbytes (snd m)) (ubj_img (snd m))) ms).
    { apply Forall_forall. intros m Hm.
      specialize (Hw m Hm). specialize (Hs m Hm).
      apply andb_true_iff in Hw as [_ Hw]. apply andb_true_iff in Hs as [Hk Hs].
      split; [apply Z.ltb_lt in Hk; exact Hk|]. apply IH; assumption. }
    cbn [tbytes ubj_img]. unfold count_b, close_b. destruct (len <=? 0) eqn:E.
    + cbn [app].
      apply (shell_obj_plain (fun m : bytes * bool * tree => fst (fst m)) (fun m => tbytes (snd m))
               (fun m => ubj_img (snd m)) ms G).
    + apply len_ok_pos in Hlen; [|exact E]. subst len.
      rewrite app_nil_r. cbn [app].
      apply (shell_obj_counted (fun m : bytes * bool * tree => fst (fst m)) (fun m => tbytes (snd m))
               (fun m => ubj_img (snd m)) ms G). lia.
  - cbn [wf_tree tree_small tbytes] in *. apply andb_true_iff in Hsm as [Hn Hs].
    apply xarr_good; [exact Hwf | lia | exact Hs].
  - cbn [wf_tree tree_small tbytes] in *. apply andb_true_iff in Hsm as [Hn Hs].
    apply andb_true_iff in Hwf as [_ Hwf].
    apply xobj_good; [exact Hwf | lia | exact Hs].
Qed.

(* ====================================================================== *)
(* 8. The theorems                                                         *)
(* ====================================================================== *)

(* On the events of a well-formed tree the encoder never fails (unless the
   writer does), leaves the length stack where it was, and writes a document
   that the reference decoder reads back as [ubj_img t], whatever follows. *)
Theorem ubj_enc_tree : forall t, wf_tree t = true -> tree_small t = true ->
  forall e i, w_fail (ue_w e) = None ->
  exists e' bs, ubj_run e (flatten t) i = (e', None) /\
     ue_len e' = ue_len e /\ w_fail (ue_w e') = None /\
     w_bytes (ue_w e') = w_bytes (ue_w e) ++ bs /\
     (exists m bs', bs = m :: bs' /\ is_value_marker m = true /\
        forall rest fuel, (length (bs ++ rest) < fuel)%nat ->
          ubj_payload fuel m (bs' ++ rest) = RValue (ubj_img t) rest).
Proof.
  intros t Hwf Hsm e i Hf.
  destruct (ubj_run_tbytes t e i Hf) as (e' & E & L & F & B).
  exists e', (tbytes t). repeat (split; [assumption|]).
  exact (dec_tree t Hwf Hsm).
Qed.
Print Assumptions ubj_enc_tree.

Lemma ubj_value_S f m r : ubj_value (S f) (m :: r) =
  if m =? mN then ubj_value f r
  else if is_value_marker m then ubj_payload (S (length (m :: r))) m r else RMalformed.
Proof. reflexivity. Qed.

(* C07 for UBJSON: encode, then decode with the reference decoder *)
Theorem C07_ubj : forall t, wf_tree t = true -> tree_small t = true ->
  exists bs, ubj_encode (flatten t) = Some bs /\ ubj_decode bs = RValue (ubj_img t) [].
Proof.
  intros t Hwf Hsm. exists (tbytes t). split; [apply ubj_encode_tbytes|].
  destruct (dec_tree t Hwf Hsm) as (m & p & E & M & D). rewrite E in *.
  unfold ubj_decode. rewrite ubj_value_S.
  destruct (value_marker_not m M) as (N & _). rewrite N, M.
  specialize (D [] (S (length (m :: p)))). rewrite !app_nil_r in D. apply D. lia.
Qed.
Print Assumptions C07_ubj.

(* C17 for the UBJSON encoder: after a complete value it is idle again *)
Theorem C17_ubj_enc_idle : forall t e i, wf_tree t = true -> tree_small t = true ->
  w_fail (ue_w e) = None ->
  exists e', ubj_run e (flatten t) i = (e', None) /\ ue_len e' = ue_len e.
Proof. intros t e i _ _ H. apply C17_ubj_enc_idle_any; exact H. Qed.
Print Assumptions C17_ubj_enc_idle.
