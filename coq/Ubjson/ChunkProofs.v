(* C02 for the UBJSON parser model: the events and the verdict depend only on the
   concatenated input, not on how it is cut into Write calls; Parse on the whole
   buffer agrees with any sequence of writes followed by end of input.
   Method: as in Cbor/ChunkProofs.v (fuel-free loop relation, dichotomy of one
   step on a ++ b, merging of two consecutive feeds). *)
From Coq Require Import List ZArith Bool Lia.
From Coq Require Import ZifyBool ZifyNat ZifyN.
From SF Require Import Base.Prelude Core.Events Ubjson.Spec Ubjson.Parse.
Import ListNotations.
Open Scope Z_scope.
Ltac Zify.zify_post_hook ::= Z.div_mod_to_equations.

(* ---------- lists ---------- *)
Lemma zlen_app : forall (a b : bytes), zlen (a ++ b) = zlen a + zlen b.
Proof. intros; unfold zlen; rewrite app_length; lia. Qed.
Lemma zlen_nonneg : forall (a : bytes), 0 <= zlen a.
Proof. intros; unfold zlen; lia. Qed.
Lemma zlen_nil : zlen (@nil Z) = 0.
Proof. reflexivity. Qed.
Lemma zlen_zero : forall (a : bytes), zlen a = 0 -> a = [].
Proof. intros [|x a] H; [reflexivity|]. unfold zlen in H; cbn [length] in H; lia. Qed.
Lemma zlen_pos : forall (a : bytes), a <> [] -> 0 < zlen a.
Proof. intros [|x a] H; [congruence|]. unfold zlen; cbn [length]; lia. Qed.
Lemma zlen_cons : forall (x : Z) (a : bytes), zlen (x :: a) = zlen a + 1.
Proof. intros; unfold zlen; cbn [length]; lia. Qed.

Lemma zfirstn_app : forall n (a b : bytes),
  uzfirstn n (a ++ b) = uzfirstn n a ++ uzfirstn (n - zlen a) b.
Proof.
  intros; unfold uzfirstn, zlen. rewrite (firstn_app (Z.to_nat n) a b).
  f_equal. f_equal. lia.
Qed.
Lemma zskipn_app : forall n (a b : bytes),
  uzskipn n (a ++ b) = uzskipn n a ++ uzskipn (n - zlen a) b.
Proof.
  intros; unfold uzskipn, zlen. rewrite (skipn_app (Z.to_nat n) a b).
  f_equal. f_equal. lia.
Qed.
Lemma zfirstn_all : forall n (a : bytes), zlen a <= n -> uzfirstn n a = a.
Proof. intros; unfold uzfirstn, zlen in *. apply firstn_all2. lia. Qed.
Lemma zskipn_all : forall n (a : bytes), zlen a <= n -> uzskipn n a = [].
Proof. intros; unfold uzskipn, zlen in *. apply skipn_all2. lia. Qed.
Lemma zfirstn_le0 : forall n (a : bytes), n <= 0 -> uzfirstn n a = [].
Proof. intros; unfold uzfirstn. replace (Z.to_nat n) with O by lia. reflexivity. Qed.
Lemma zskipn_le0 : forall n (a : bytes), n <= 0 -> uzskipn n a = a.
Proof. intros; unfold uzskipn. replace (Z.to_nat n) with O by lia. reflexivity. Qed.
Lemma zlen_zfirstn : forall n (a : bytes), 0 <= n <= zlen a -> zlen (uzfirstn n a) = n.
Proof. intros; unfold uzfirstn, zlen in *. rewrite firstn_length. lia. Qed.
Lemma app_nonnil : forall (a b : bytes), a <> [] -> a ++ b <> [].
Proof. intros [|x a] b H; [congruence|discriminate]. Qed.
Lemma zlen_eqb_nil : forall (a : bytes), a <> [] -> (zlen a =? 0) = false.
Proof. intros a H. pose proof (zlen_pos a H). lia. Qed.

(* ---------- records ---------- *)
Lemma set_buf_same : forall p, uset_buf p (up_buf p) = p.
Proof. intros []; reflexivity. Qed.
Lemma set_err_same : forall p, up_err p = 0 -> uset_err p 0 = p.
Proof. intros [] H; cbn in H; subst; reflexivity. Qed.

(* ---------- collect ---------- *)
(* the buffer is empty, or holds a proper non-empty prefix of the wanted token *)
Definition bufok (p : uparser) (count : Z) : Prop :=
  up_buf p = [] \/ (0 < zlen (up_buf p) /\ zlen (up_buf p) < count).

(* collect in terms of the virtual input  buffer ++ slice *)
Definition collect_s (p : uparser) (a : bytes) (count : Z) : ucres :=
  if count <? 0 then UCC
  else if zlen (up_buf p) + zlen a >=? count then
    UC (uset_buf p []) (uzskipn (count - zlen (up_buf p)) a) (Some (uzfirstn count (up_buf p ++ a)))
  else UC (uset_buf p (up_buf p ++ a)) [] None.

Lemma collect_spec : forall p a count, bufok p count -> ucollect p a count = collect_s p a count.
Proof.
  intros p a count [Hb | [Hb1 Hb2]]; unfold ucollect, collect_s.
  - rewrite Hb. cbn [app]. rewrite zlen_nil.
    replace (0 >? 0) with false by reflexivity.
    destruct (count <? 0) eqn:E1; [reflexivity|].
    replace (0 + zlen a) with (zlen a) by lia.
    destruct (zlen a >=? count) eqn:E2; [|reflexivity].
    rewrite <- Hb at 1. rewrite set_buf_same, Z.sub_0_r. reflexivity.
  - replace (zlen (up_buf p) >? 0) with true by lia.
    replace (count - zlen (up_buf p) >? 0) with true by lia.
    replace (count <? 0) with false by lia.
    pose proof (zlen_nonneg a) as Ha.
    destruct (count - zlen (up_buf p) >? zlen a) eqn:E1.
    + replace (zlen (up_buf p) + zlen a >=? count) with false by lia. reflexivity.
    + replace (zlen (up_buf p) + zlen a >=? count) with true by lia.
      cbn [up_buf uset_buf].
      assert (Hl : zlen (up_buf p ++ uzfirstn (count - zlen (up_buf p)) a) = count).
      { rewrite zlen_app, zlen_zfirstn; lia. }
      rewrite Hl. replace (count >=? count) with true by lia.
      replace (count <? 0) with false by lia. rewrite Z.eqb_refl.
      f_equal. f_equal.
      rewrite (zfirstn_all count (up_buf p ++ uzfirstn _ a)) by lia.
      rewrite (zfirstn_app count (up_buf p) a).
      rewrite (zfirstn_all count (up_buf p)) by lia. reflexivity.
Qed.

Lemma collect_some_app : forall p a b count p1 rest t,
  bufok p count -> ucollect p a count = UC p1 rest (Some t) ->
  ucollect p (a ++ b) count = UC p1 (rest ++ b) (Some t) /\ p1 = uset_buf p [].
Proof.
  intros p a b count p1 rest t Hb H.
  rewrite (collect_spec p (a ++ b) count Hb). rewrite (collect_spec p a count Hb) in H.
  unfold collect_s in *.
  destruct (count <? 0) eqn:E1; [discriminate|].
  destruct (zlen (up_buf p) + zlen a >=? count) eqn:E2; [|discriminate].
  inversion H; subst p1 rest t; clear H.
  rewrite zlen_app. pose proof (zlen_nonneg b).
  replace (zlen (up_buf p) + (zlen a + zlen b) >=? count) with true by lia.
  split; [|reflexivity]. f_equal.
  - rewrite (zskipn_app _ a b). f_equal. apply zskipn_le0. lia.
  - f_equal. rewrite (app_assoc (up_buf p) a b).
    rewrite (zfirstn_app count (up_buf p ++ a) b).
    rewrite (zfirstn_le0 (count - zlen (up_buf p ++ a)) b) by (rewrite zlen_app; lia).
    rewrite app_nil_r. reflexivity.
Qed.

Lemma collect_none_app : forall p a b count p1 rest,
  bufok p count -> ucollect p a count = UC p1 rest None ->
  rest = [] /\ p1 = uset_buf p (up_buf p ++ a) /\ bufok p1 count /\
  zlen (up_buf p) + zlen a < count /\
  ucollect p1 b count = ucollect p (a ++ b) count.
Proof.
  intros p a b count p1 rest Hb H.
  rewrite (collect_spec p (a ++ b) count Hb). rewrite (collect_spec p a count Hb) in H.
  unfold collect_s in H.
  destruct (count <? 0) eqn:E1; [discriminate|].
  destruct (zlen (up_buf p) + zlen a >=? count) eqn:E2; [discriminate|].
  inversion H; subst p1 rest; clear H.
  assert (Hb1 : bufok (uset_buf p (up_buf p ++ a)) count).
  { unfold bufok. cbn [up_buf uset_buf].
    destruct (up_buf p ++ a) as [|x l] eqn:E; [left; reflexivity|right].
    rewrite <- E. rewrite zlen_app. split; [|lia].
    rewrite <- zlen_app, E. unfold zlen; cbn [length]; lia. }
  split; [reflexivity|]. split; [reflexivity|]. split; [exact Hb1|]. split; [lia|].
  rewrite (collect_spec _ b count Hb1).
  unfold collect_s. rewrite E1. cbn [up_buf uset_buf].
  rewrite !zlen_app. rewrite <- Z.add_assoc.
  destruct (zlen (up_buf p) + (zlen a + zlen b) >=? count) eqn:E3.
  - f_equal.
    + rewrite (zskipn_app _ a b). rewrite (zskipn_all _ a) by lia. cbn [app].
      f_equal. lia.
    + rewrite <- app_assoc. reflexivity.
  - rewrite <- app_assoc. reflexivity.
Qed.

(* ---------- uexec with the recursive call abstracted ---------- *)
Definition xlatch (r : ures) : ures :=
  match r with
  | UR p1 s1 rest d err => if unil err then r else UR (uset_err p1 err) s1 rest d err
  | c => c
  end.

Definition arr_counted (p : uparser) (s : sink) (b : bytes) : ures :=
  let step := u_s (up_cur p) in
  if step =? sStart then of_ul (ustep_len p b (with_step (up_cur p) sWithLen)) s
  else
    let l := up_lcur p in
    let '(p1, s1, e0) :=
      if step =? sWithLen then let '(s1, e) := uvis s (EArrStart l BAny) in (uset_step p sCont, s1, e)
      else (p, s, unilE) in
    if negb (unil e0) then UR p1 s1 b false e0
    else if l =? 0 then
      let '(s2, e) := uvis s1 EArrEnd in
      if unil e then let '(p2, d) := upop_len_state p1 in UR p2 s2 b d unilE else UR p1 s2 b true e
    else
      match b with
      | [] => UCrash 16
      | x :: r =>
          if x =? mN then UR p1 s1 r false unilE
          else value_nodone (ustep_value (uset_lcur p1 (up_lcur p1 - 1)) s1 b)
      end.

Definition arr_typed (rec : uparser -> sink -> bytes -> ures) (p : uparser) (s : sink) (b : bytes) : ures :=
  let step := u_s (up_cur p) in
  if (step =? sStart) || (step =? sWithType0) || (step =? sWithType1) then of_ul (ustep_header p b) s
  else
    let l := up_lcur p in
    let '(p1, s1, e0) :=
      if step =? sWithLen then let '(s1, e) := uvis s (EArrStart l (up_vtype p)) in (uset_step p sCont, s1, e)
      else (p, s, unilE) in
    if negb (unil e0) then UR p1 s1 b false e0
    else if l =? 0 then
      let '(s2, e) := uvis s1 EArrEnd in
      if unil e then let '(p2, d) := upop_len_state (v_pop p1) in UR p2 s2 b d unilE else UR p1 s2 b true e
    else
      let p2 := uset_lcur p1 (up_lcur p1 - 1) in
      value_nodone (rec (u_push p2 (up_vcur p2)) s1 b).

Definition arr_start (p : uparser) (s : sink) (b : bytes) : ures :=
  match b with
  | [] => UCrash 14
  | x :: r =>
      if x =? mCount then UR (uset_type p tArrayCount) s r false unilE
      else if x =? mType then UR (uset_type p tArrayTyped) s r false unilE
      else let '(s1, e) := uvis s (EArrStart (-1) BAny) in UR (uset_type p tArrayDyn) s1 b false e
  end.

Definition arr_dyn (p : uparser) (s : sink) (b : bytes) : ures :=
  let step := u_s (up_cur p) in
  match b with
  | [] => UCrash 15
  | x :: r =>
      if x =? mArrE then
        let '(s1, e) := uvis s EArrEnd in
        if unil e then let '(p1, d) := upop_state p in UR p1 s1 r d unilE else UR p s1 r true e
      else
        let p1 := if step =? sStart then uset_step p sCont else p in
        value_nodone (ustep_value p1 s b)
  end.

Definition obj_start (p : uparser) (s : sink) (b : bytes) : ures :=
  match b with
  | [] => UCrash 17
  | x :: r =>
      if x =? mCount then UR (uset_type p tObjectCount) s r false unilE
      else if x =? mType then UR (uset_type p tObjectTyped) s r false unilE
      else let '(s1, e) := uvis s (EObjStart (-1) BAny) in UR (uset_type p tObjectDyn) s1 b false e
  end.

Definition obj_dyn_emptykey (p : uparser) (s : sink) (b : bytes) : ures :=
  let p2 := ul_pop p in
  let '(s1, e) := uvis s (EKeyRef []) in
  UR (uset_step p2 sCont) s1 b false e.

Definition obj_dyn (p : uparser) (s : sink) (b : bytes) : ures :=
  let step := u_s (up_cur p) in
  match b with
  | [] => UCrash 18
  | x :: r =>
      if (step =? sStart) && (up_marker p =? 0) && (x =? mObjE) then
        let '(s1, e) := uvis s EObjEnd in
        if unil e then let '(p1, d) := upop_state p in UR p1 s1 r d unilE else UR p s1 r true e
      else if step =? sStart then of_ul (ustep_len p b (with_step (up_cur p) sFieldNameLen)) s
      else if step =? sFieldNameLen then
        match ucollect p b (up_lcur p) with
        | UCC => UCrash 19
        | UC p1 rest None => UR p1 s rest false unilE
        | UC p1 rest (Some tmp) =>
            let p2 := ul_pop p1 in
            let '(s1, e) := uvis s (EKeyRef tmp) in
            UR (uset_step p2 sCont) s1 rest false e
        end
      else if step =? sCont then
        if x =? mN then UR p s r false unilE
        else value_nodone (ustep_value (uset_step p sStart) s b)
      else UR p s b false unilE
  end.

Definition obj_counted (p : uparser) (s : sink) (b : bytes) : ures :=
  let step := u_s (up_cur p) in
  if step =? sStart then of_ul (ustep_len p b (with_step (up_cur p) sWithLen)) s
  else
    match ustep_obj_content p s b false with
    | OCC w => UCrash w
    | OC fin p1 s1 rest err =>
        if fin && unil err then let '(p2, d) := upop_len_state p1 in UR p2 s1 rest d unilE
        else UR p1 s1 rest fin err
    end.

Definition obj_typed (p : uparser) (s : sink) (b : bytes) : ures :=
  let step := u_s (up_cur p) in
  if (step =? sStart) || (step =? sWithType0) || (step =? sWithType1) then of_ul (ustep_header p b) s
  else
    match ustep_obj_content p s b true with
    | OCC w => UCrash w
    | OC fin p1 s1 rest err =>
        if fin && unil err then let '(p2, d) := upop_len_state (v_pop p1) in UR p2 s1 rest d unilE
        else UR p1 s1 rest fin err
    end.

Definition xbody0 (rec : uparser -> sink -> bytes -> ures) (p : uparser) (s : sink) (b : bytes) : ures :=
  let t := u_t (up_cur p) in
  let step := u_s (up_cur p) in
  if t =? tFail then UR p s b false (if up_err p =? 0 then unilE else up_err p)
  else if t =? tNext then ustep_value p s b
  else if t =? tFixed then ustep_fixed p s b
  else if (t =? tHighPrec) || (t =? tString) then ustep_string p s b
  else if t =? tArray then arr_start p s b
  else if t =? tArrayDyn then arr_dyn p s b
  else if t =? tArrayCount then arr_counted p s b
  else if t =? tArrayTyped then arr_typed rec p s b
  else if t =? tObject then obj_start p s b
  else if (t =? tObjectDyn) && (step =? sFieldNameLen) && (up_lcur p =? 0) then obj_dyn_emptykey p s b
  else if t =? tObjectDyn then obj_dyn p s b
  else if t =? tObjectCount then obj_counted p s b
  else if t =? tObjectTyped then obj_typed p s b
  else UR p s b false ueInvalidState.

Lemma uexec_S : forall f p s b, uexec (S f) p s b = xlatch (xbody0 (uexec f) p s b).
Proof. reflexivity. Qed.

(* ---------- the feed loop without fuel ---------- *)
Definition cstep (p : uparser) : bool := can_step_without_input p.
Definition fres := (uparser * sink * Z)%type.

(* [R p s b r]: the loop of feed/feedUntil started on [uexec_step p s b] ends with r *)
Inductive R : uparser -> sink -> bytes -> fres -> Prop :=
| R_err : forall p s b p1 s1 rest d e,
    uexec_step p s b = UR p1 s1 rest d e -> e <> unilE -> R p s b (p1, s1, e)
| R_more : forall p s b p1 s1 rest d r,
    uexec_step p s b = UR p1 s1 rest d unilE -> rest <> [] -> R p1 s1 rest r -> R p s b r
| R_stut : forall p s b p1 s1 r,
    uexec_step p s b = UR p1 s1 [] false unilE -> cstep p1 = true -> R p1 s1 [] r -> R p s b r
| R_stop : forall p s b p1 s1 d,
    uexec_step p s b = UR p1 s1 [] d unilE -> d = true \/ cstep p1 = false ->
    R p s b (p1, s1, unilE).

(* p.feed(b) *)
Definition Feed (p : uparser) (s : sink) (b : bytes) (r : fres) : Prop :=
  (b = [] /\ r = (p, s, unilE)) \/ (b <> [] /\ R p s b r).

Lemma unil_true : forall e, unil e = true <-> e = unilE.
Proof. intros; unfold unil; apply Z.eqb_eq. Qed.
Lemma unil_false : forall e, unil e = false <-> e <> unilE.
Proof. intros; unfold unil; apply Z.eqb_neq. Qed.
Lemma unil_nil : unil unilE = true.
Proof. reflexivity. Qed.

Lemma R_det : forall p s b r, R p s b r -> forall r', R p s b r' -> r = r'.
Proof.
  induction 1 as [p s b p1 s1 rest d e E Hn | p s b p1 s1 rest d r E Hr _ IH
                 | p s b p1 s1 r E Hx _ IH | p s b p1 s1 d E Hd];
    intros r' H'; inversion H'; subst;
    match goal with H : uexec_step _ _ _ = _ |- _ => rewrite E in H; inversion H; subst end;
    try congruence; auto;
    try (match goal with H : _ \/ _ |- _ => destruct H; congruence end).
Qed.

Lemma Feed_det : forall p s b r r', Feed p s b r -> Feed p s b r' -> r = r'.
Proof.
  intros p s b r r' [[H1 H2]|[H1 H2]] [[H3 H4]|[H3 H4]]; try congruence.
  eapply R_det; eauto.
Qed.

(* what happens after feedUntil returned (rest, done, err) inside feed *)
Definition after_fu (p1 : uparser) (s1 : sink) (rest : bytes) (e : Z) (r : fres) : Prop :=
  (e <> unilE /\ r = (p1, s1, e)) \/
  (e = unilE /\ rest = [] /\ r = (p1, s1, unilE)) \/
  (e = unilE /\ rest <> [] /\ R p1 s1 rest r).

Lemma feed_until_sound : forall n p s b p1 s1 rest d e,
  ufeed_until n p s b = Ok (UR p1 s1 rest d e) ->
  forall r, after_fu p1 s1 rest e r -> R p s b r.
Proof.
  induction n as [|n IH]; intros p s b p1 s1 rest d e H r K; [discriminate|].
  cbn [ufeed_until] in H.
  destruct (uexec_step p s b) as [pa sa ra da ea|w] eqn:E; [|discriminate].
  destruct (da || negb (unil ea)) eqn:E1.
  - inversion H; subst; clear H.
    destruct K as [[K1 K2]|[[K1 [K2 K3]]|[K1 [K2 K3]]]]; subst.
    + eapply R_err; eauto.
    + eapply R_stop; eauto. left. rewrite unil_nil in E1.
      destruct d; [reflexivity|discriminate].
    + eapply R_more; eauto.
  - apply orb_false_iff in E1. destruct E1 as [Ed En]. subst da.
    apply negb_false_iff, unil_true in En. subst ea.
    match type of H with (if ?c then _ else _) = _ => destruct c eqn:Ec end.
    + inversion H; subst; clear H.
      apply andb_true_iff in Ec. destruct Ec as [Ec1 Ec2].
      apply Z.eqb_eq, zlen_zero in Ec1. subst rest.
      apply negb_true_iff in Ec2.
      destruct K as [[K1 K2]|[[K1 [K2 K3]]|[K1 [K2 K3]]]]; subst; try congruence.
      eapply R_stop; eauto.
    + specialize (IH _ _ _ _ _ _ _ _ H r K).
      destruct ra as [|x ra].
      * eapply R_stut; [exact E| |exact IH].
        cbn in Ec. unfold cstep. destruct (can_step_without_input pa); [reflexivity|discriminate].
      * eapply R_more; [exact E|discriminate|exact IH].
Qed.

Lemma feed_sound : forall n p s b r, ufeed n p s b = Ok r -> Feed p s b r.
Proof.
  induction n as [|n IH]; intros p s b r H; [discriminate|].
  cbn [ufeed] in H.
  destruct (zlen b >? 0) eqn:Eb.
  - assert (Hb : b <> []) by (intro; subst; discriminate).
    right; split; [exact Hb|].
    destruct (ufeed_until (ufeed_fuel p b) p s b) as [[p1 s1 rest d e|w]|?|?|] eqn:E; try discriminate.
    eapply feed_until_sound; [exact E|].
    destruct (unil e) eqn:Ee.
    + apply unil_true in Ee. subst e. apply IH in H. destruct H as [[H1 H2]|[H1 H2]].
      * right; left; auto.
      * right; right; auto.
    + apply unil_false in Ee. inversion H; subst. left; auto.
  - inversion H; subst. left. split; [|reflexivity].
    apply zlen_zero. pose proof (zlen_nonneg b). lia.
Qed.

(* ---------- one step on a ++ b versus the same step on a ---------- *)
(* the step on the longer input does the same and leaves b unread; after an
   error only the visitor and the error matter.  The done flag is not compared:
   it only matters when the input is used up, and then it is determined by the
   resulting parser (see Post below). *)
Definition ext (b : bytes) (r r' : ures) : Prop :=
  match r with
  | UCrash _ => True
  | UR p1 s1 rest d e =>
      match r' with
      | UCrash _ => False
      | UR p2 s2 rest' d' e' =>
          s1 = s2 /\ e = e' /\ (e = unilE -> p1 = p2 /\ rest' = rest ++ b)
      end
  end.

Lemma ext_same : forall b p s rest d d' e, ext b (UR p s rest d e) (UR p s (rest ++ b) d' e).
Proof. intros; cbn [ext]; auto. Qed.
Lemma ext_err : forall b p s rest d e p' rest' d',
  e <> unilE -> ext b (UR p s rest d e) (UR p' s rest' d' e).
Proof. intros; cbn [ext]; repeat split; auto; congruence. Qed.
Lemma ext_crash : forall b w r, ext b (UCrash w) r.
Proof. intros; exact I. Qed.
Lemma ext_refl : forall r, ext [] r r.
Proof. intros [p s rest d e|w]; cbn [ext]; auto. rewrite app_nil_r. auto. Qed.
Lemma ext_latch : forall b r r', ext b r r' -> ext b (xlatch r) (xlatch r').
Proof.
  intros b [p s rest d e|w] [p' s' rest' d' e'|w'] H; cbn [ext xlatch] in *; auto.
  - destruct H as (-> & -> & H). destruct (unil e') eqn:E; cbn [ext]; auto.
    split; [reflexivity|]. split; [reflexivity|]. intros ->. discriminate.
  - destruct (unil e); exact H.
Qed.
Lemma ext_latch_r : forall b r r', ext b r r' -> ext b r (xlatch r').
Proof.
  intros b [p s rest d e|w] [p' s' rest' d' e'|w'] H; cbn [ext xlatch] in *; auto.
  destruct H as (-> & -> & H). destruct (unil e') eqn:E; cbn [ext]; auto.
  split; [reflexivity|]. split; [reflexivity|]. intros ->. discriminate.
Qed.
Lemma ext_nodone : forall b r r', ext b r r' -> ext b (value_nodone r) (value_nodone r').
Proof. intros b [p s rest d e|w] [p' s' rest' d' e'|w'] H; cbn [ext value_nodone] in *; auto. Qed.
Lemma ext_nodone_r : forall b r r', ext b r r' -> ext b r (value_nodone r').
Proof. intros b [p s rest d e|w] [p' s' rest' d' e'|w'] H; cbn [ext value_nodone] in *; auto. Qed.

Definition extL (b : bytes) (r r' : ulres) : Prop :=
  match r with
  | ULC _ => True
  | UL p1 rest e =>
      match r' with
      | ULC _ => False
      | UL p2 rest' e' => e = e' /\ (e = unilE -> p1 = p2 /\ rest' = rest ++ b)
      end
  end.
Lemma extL_same : forall b p rest e, extL b (UL p rest e) (UL p (rest ++ b) e).
Proof. intros; cbn [extL]; auto. Qed.
Lemma extL_err : forall b p rest e p' rest', e <> unilE -> extL b (UL p rest e) (UL p' rest' e).
Proof. intros; cbn [extL]; split; auto; congruence. Qed.
Lemma extL_refl : forall r, extL [] r r.
Proof. intros [p rest e|w]; cbn [extL]; auto. rewrite app_nil_r. auto. Qed.
Lemma ext_of_ul : forall b r r' s, extL b r r' -> ext b (of_ul r s) (of_ul r' s).
Proof. intros b [p rest e|w] [p' rest' e'|w'] s H; cbn [extL ext of_ul] in *; tauto. Qed.

Definition extO (b : bytes) (r r' : ocres) : Prop :=
  match r with
  | OCC _ => True
  | OC f1 p1 s1 rest e =>
      match r' with
      | OCC _ => False
      | OC f2 p2 s2 rest' e' =>
          s1 = s2 /\ e = e' /\ (e = unilE -> f1 = f2 /\ p1 = p2 /\ rest' = rest ++ b)
      end
  end.
Lemma extO_same : forall b f p s rest e, extO b (OC f p s rest e) (OC f p s (rest ++ b) e).
Proof. intros; cbn [extO]; auto. Qed.
Lemma extO_err : forall b f p s rest e f' p' rest',
  e <> unilE -> extO b (OC f p s rest e) (OC f' p' s rest' e).
Proof. intros; cbn [extO]; repeat split; auto; congruence. Qed.
Lemma extO_refl : forall r, extO [] r r.
Proof. intros [f p s rest e|w]; cbn [extO]; auto. rewrite app_nil_r. auto. Qed.

Ltac bm :=
  match goal with
  | |- context [match ?x with _ => _ end] => destruct x eqn:?
  end.
Ltac ext_solve :=
  first [ apply ext_crash | apply ext_same
        | apply ext_err; first [ assumption | discriminate
                               | (intro; subst; discriminate)
                               | (apply unil_false; assumption) ] ].
Ltac bmH H :=
  match type of H with
  | context [match ?x with _ => _ end] => destruct x eqn:?
  end.
Ltac boolprop :=
  repeat match goal with
  | H : (_ || _) = true |- _ => apply orb_true_iff in H; destruct H as [H|H]
  | H : (_ || _) = false |- _ => apply orb_false_iff in H; destruct H as [? H]
  | H : (_ && _) = true |- _ => apply andb_true_iff in H; destruct H as [? H]
  | H : (_ =? _) = true |- _ => apply Z.eqb_eq in H
  | H : (_ =? _) = false |- _ => apply Z.eqb_neq in H
  | H : unil _ = true |- _ => apply unil_true in H
  | H : unil _ = false |- _ => apply unil_false in H
  | H : negb _ = true |- _ => apply negb_true_iff in H
  | H : negb _ = false |- _ => apply negb_false_iff in H
  end.
Ltac invSR H := inversion H; subst; clear H.

Lemma uvis_nil_or : forall s e s1 err, uvis s e = (s1, err) -> err = unilE \/ err = ueVisitor.
Proof.
  intros s e s1 err H. unfold uvis in H. destruct (emit s e) as [s' ok].
  destruct ok; inversion H; auto.
Qed.

Lemma ustep_value_ext : forall b p s a, a <> [] ->
  ext b (ustep_value p s a) (ustep_value p s (a ++ b)).
Proof.
  intros b p s [|a0 ar] Ha; [congruence|]. cbn [app]. unfold ustep_value.
  repeat (first [ ext_solve | bm ]).
Qed.

(* ---------- reachable parser states ---------- *)
Definition mid (c : ustate) : Prop := u_t c <> tNext /\ u_t c <> tFail.
(* the state stack, current state first: stNext at the bottom and nowhere else *)
Fixpoint stk (l : list ustate) : Prop :=
  match l with
  | [] => False
  | c :: l' => match l' with [] => u_t c = tNext | _ :: _ => mid c /\ stk l' end
  end.
Definition velem (c : ustate) : Prop := u_t c <> tNext.
Definition base (p : uparser) : Prop :=
  stk (up_cur p :: up_stack p) /\ velem (up_vcur p) /\ Forall velem (up_vstack p).

Definition markcount (m : Z) : Z :=
  if m =? mI then 2 else if m =? ml then 4 else if m =? mL then 8 else 0.

(* states whose step starts with stepLen *)
Definition lenst (p : uparser) : bool :=
  let t := u_t (up_cur p) in let s := u_s (up_cur p) in
  (((t =? tHighPrec) || (t =? tString)) && (s =? sStart))
  || ((t =? tArrayCount) && (s =? sStart))
  || (((t =? tArrayTyped) || (t =? tObjectTyped)) && (s =? sWithType1))
  || ((t =? tObjectDyn) && (s =? sStart))
  || ((t =? tObjectCount) && (s =? sStart))
  || (((t =? tObjectCount) || (t =? tObjectTyped)) && (s =? sFieldName) && negb (up_lcur p =? 0)).

Definition fixed_count (s : Z) : Z :=
  if s =? sChar then 1 else if s =? sInt16 then 2 else if s =? sInt32 then 4
  else if s =? sInt64 then 8 else if s =? sFloat32 then 4 else if s =? sFloat64 then 8 else 0.

(* the size of the token being collected in the current state *)
Definition count_of (p : uparser) : Z :=
  let t := u_t (up_cur p) in let s := u_s (up_cur p) in
  if lenst p then markcount (up_marker p)
  else if t =? tFixed then fixed_count s
  else if ((t =? tHighPrec) || (t =? tString)) && (s =? sWithLen) then up_lcur p
  else if ((t =? tObjectDyn) || (t =? tObjectCount) || (t =? tObjectTyped)) && (s =? sFieldNameLen)
       then up_lcur p
  else 0.

Definition clean (p : uparser) : Prop := up_buf p = [] /\ up_marker p = 0.
Definition good (p : uparser) : Prop :=
  base p /\ bufok p (count_of p) /\ (lenst p = false -> up_marker p = 0).
Definition Inv (p : uparser) : Prop :=
  up_err p = 0 /\ (u_t (up_cur p) = tFail \/ good p).
(* after a step: the invariant, and done only at the top level *)
Definition Post (p1 : uparser) (d : bool) : Prop :=
  Inv p1 /\ (d = true -> u_t (up_cur p1) = tNext).

Ltac pc := cbn [up_cur up_stack up_vcur up_vstack up_lcur up_lstack up_buf up_marker up_vtype up_err
                uset_cur uset_buf uset_lcur uset_marker uset_err uset_step uset_type
                u_push v_push ul_push u_t u_s mku with_step] in *.

Lemma Inv_clean : forall p, up_err p = 0 -> base p -> clean p -> Inv p.
Proof.
  intros p He Hb [Hc1 Hc2]. split; [exact He|right]. split; [exact Hb|].
  split; [left; exact Hc1|]. intros _. exact Hc2.
Qed.

Lemma stk_cases : forall c l, stk (c :: l) ->
  (u_t c = tNext /\ l = []) \/ (mid c /\ exists c' l', l = c' :: l' /\ stk (c' :: l')).
Proof.
  intros c [|c' l'] H; cbn [stk] in H.
  - left; auto.
  - right. destruct H as [H1 H2]. split; [exact H1|]. eauto.
Qed.
Lemma stk_notfail : forall c l, stk (c :: l) -> u_t c <> tFail.
Proof.
  intros c l H. destruct (stk_cases _ _ H) as [[H1 _]|[[_ H1] _]]; [|exact H1].
  rewrite H1. discriminate.
Qed.
Lemma stk_push : forall n c l, stk (c :: l) -> mid n -> stk (n :: c :: l).
Proof. intros n c l H Hn. cbn [stk]. split; [exact Hn|exact H]. Qed.
Lemma stk_same_t : forall c c' l, u_t c' = u_t c -> stk (c :: l) -> stk (c' :: l).
Proof. intros c c' [|x l] E H; cbn [stk] in *; unfold mid in *; rewrite E; exact H. Qed.
Lemma stk_mid_change : forall c c' l, mid c -> mid c' -> stk (c :: l) -> stk (c' :: l).
Proof.
  intros c c' [|x l] Hc Hc' H; cbn [stk] in *.
  - destruct Hc as [Hc _]. congruence.
  - destruct H as [_ H]. split; assumption.
Qed.
Lemma stk_mid_tail : forall c l, stk (c :: l) -> mid c ->
  exists c' l', l = c' :: l' /\ stk (c' :: l').
Proof.
  intros c l H Hm. destruct (stk_cases _ _ H) as [[H1 _]|[_ H1]]; [|exact H1].
  destruct Hm as [Hm _]. congruence.
Qed.

Lemma marker_state_mid : forall m st, marker_state m = Some st -> mid st.
Proof.
  intros m st H. unfold marker_state in H.
  repeat match type of H with (if ?c then _ else _) = _ => destruct c end;
    try discriminate H; injection H as <-; split; discriminate.
Qed.

(* projections through the pops *)
Lemma ul_pop_proj : forall p,
  up_cur (ul_pop p) = up_cur p /\ up_stack (ul_pop p) = up_stack p /\
  up_vcur (ul_pop p) = up_vcur p /\ up_vstack (ul_pop p) = up_vstack p /\
  up_buf (ul_pop p) = up_buf p /\ up_marker (ul_pop p) = up_marker p /\
  up_err (ul_pop p) = up_err p.
Proof. intros p; unfold ul_pop; destruct (up_lstack p); pc; repeat split. Qed.

Lemma v_pop_proj : forall p,
  up_cur (v_pop p) = up_cur p /\ up_stack (v_pop p) = up_stack p /\
  up_lcur (v_pop p) = up_lcur p /\ up_lstack (v_pop p) = up_lstack p /\
  up_buf (v_pop p) = up_buf p /\ up_marker (v_pop p) = up_marker p /\
  up_err (v_pop p) = up_err p.
Proof. intros p; unfold v_pop; destruct (up_vstack p); pc; repeat split. Qed.

Lemma v_pop_velem : forall p, Forall velem (up_vstack p) ->
  velem (up_vcur (v_pop p)) /\ Forall velem (up_vstack (v_pop p)).
Proof.
  intros p H. unfold v_pop. destruct (up_vstack p) as [|c r]; pc.
  - split; [discriminate|constructor].
  - inversion H; subst. split; assumption.
Qed.

Lemma base_ul_pop : forall p, base p -> base (ul_pop p).
Proof.
  intros p H. destruct (ul_pop_proj p) as (A & B & C & D & _).
  unfold base in *. rewrite A, B, C, D. exact H.
Qed.
Lemma clean_ul_pop : forall p, clean p -> clean (ul_pop p).
Proof.
  intros p H. destruct (ul_pop_proj p) as (_ & _ & _ & _ & E & F & _).
  unfold clean in *. rewrite E, F. exact H.
Qed.
Lemma base_v_pop : forall p, base p -> base (v_pop p).
Proof.
  intros p (H1 & H2 & H3). destruct (v_pop_proj p) as (A & B & _).
  destruct (v_pop_velem p H3) as [V1 V2].
  unfold base. rewrite A, B. auto.
Qed.
Lemma clean_v_pop : forall p, clean p -> clean (v_pop p).
Proof.
  intros p H. destruct (v_pop_proj p) as (_ & _ & _ & _ & E & F & _).
  unfold clean in *. rewrite E, F. exact H.
Qed.

Lemma upop_state_post : forall p p1 d,
  up_err p = 0 -> base p -> mid (up_cur p) -> clean p ->
  upop_state p = (p1, d) -> Post p1 d.
Proof.
  intros p p1 d He (H1 & H2 & H3) Hm Hc H. unfold upop_state in H.
  destruct (stk_mid_tail _ _ H1 Hm) as (c' & l' & El & Hs).
  unfold u_pop in H. rewrite El in H. pc. invSR H. split.
  - apply Inv_clean; pc; auto. repeat split; pc; auto.
  - intros Hd. pc. apply Z.eqb_eq in Hd.
    destruct l' as [|x l']; [exact Hs|]. unfold zlen in Hd; cbn [length] in Hd; lia.
Qed.

Lemma upop_len_state_post : forall p p1 d,
  up_err p = 0 -> base p -> mid (up_cur p) -> clean p ->
  upop_len_state p = (p1, d) -> Post p1 d.
Proof.
  intros p p1 d He Hb Hm Hc H. unfold upop_len_state in H.
  destruct (ul_pop_proj p) as (A & _ & _ & _ & _ & _ & G).
  eapply upop_state_post; [| | | |exact H].
  - congruence.
  - apply base_ul_pop; exact Hb.
  - rewrite A; exact Hm.
  - apply clean_ul_pop; exact Hc.
Qed.

Lemma base_push : forall p st, base p -> mid st -> base (u_push p st).
Proof.
  intros p st (H1 & H2 & H3) Hm. unfold base. pc.
  pose proof (stk_notfail _ _ H1) as Hn.
  replace (u_t (up_cur p) =? tFail) with false by lia.
  split; [apply stk_push; assumption|auto].
Qed.

(* the result of stepValue in a clean state *)
Lemma ustep_value_post : forall p s a p1 s1 rest d,
  up_err p = 0 -> base p -> clean p ->
  ustep_value p s a = UR p1 s1 rest d unilE -> Inv p1 /\ (d = true -> p1 = p).
Proof.
  intros p s a p1 s1 rest d He Hb Hc H. unfold ustep_value in H.
  destruct a as [|m r]; [discriminate|].
  destruct (marker_state m) as [st|] eqn:Em; [|discriminate].
  assert (HI : Inv p) by (apply Inv_clean; assumption).
  repeat (bmH H); invSR H; try (split; [exact HI|reflexivity]).
  split; [|discriminate].
  apply Inv_clean; [exact He| |exact Hc].
  apply base_push; [exact Hb|]. eapply marker_state_mid; eauto.
Qed.

(* ---------- stepLen ---------- *)
Definition len_finish (cont : ustate) (p : uparser) (rest : bytes) (L : Z) : ulres :=
  if L <? 0 then UL p [] ueNegativeLen
  else UL (ul_push (uset_cur (uset_marker p 0) cont) L) rest unilE.
Definition len_via (cont : ustate) (p : uparser) (b : bytes) (k : Z) : ulres :=
  match ucollect p b k with
  | UCC => ULC 2
  | UC p1 rest None => UL p1 rest unilE
  | UC p1 rest (Some tmp) => len_finish cont p1 rest (wraps (8 * k) (be_dec tmp))
  end.
Definition len_go (cont : ustate) (p : uparser) (b : bytes) : ulres :=
  let m := up_marker p in
  if m =? mi then match b with [] => ULC 3 | x :: r => len_finish cont p r (wraps 8 x) end
  else if m =? mU then match b with [] => ULC 4 | x :: r => len_finish cont p r x end
  else if m =? mI then len_via cont p b 2
  else if m =? ml then len_via cont p b 4
  else if m =? mL then len_via cont p b 8
  else UL p [] ueUnknownMarker.
Definition lenmarker (m : Z) : bool := (m =? mi) || (m =? mU) || (m =? mI) || (m =? ml) || (m =? mL).

Lemma ustep_len_eq : forall p b cont,
  ustep_len p b cont =
    if up_marker p =? 0 then
      match b with
      | [] => ULC 5
      | m :: r =>
          if negb (lenmarker m) then UL (uset_marker p m) [] ueUnknownMarker
          else if zlen r =? 0 then UL (uset_marker p m) [] unilE else len_go cont (uset_marker p m) r
      end
    else len_go cont p b.
Proof. reflexivity. Qed.

Lemma lenmarker_nz : forall m, lenmarker m = true -> m <> 0.
Proof.
  intros m H. unfold lenmarker in H. unfold mi, mU, mI, ml, mL in H. lia.
Qed.

Lemma markcount_cases : forall m,
  (m = mI /\ markcount m = 2) \/ (m = ml /\ markcount m = 4) \/ (m = mL /\ markcount m = 8) \/
  (m <> mI /\ m <> ml /\ m <> mL /\ markcount m = 0).
Proof.
  intros m. unfold markcount.
  destruct (Z.eqb_spec m mI); [auto|]. destruct (Z.eqb_spec m ml); [auto|].
  destruct (Z.eqb_spec m mL); [auto 6|]. auto 8.
Qed.
Lemma bufok_0 : forall p, bufok p 0 -> up_buf p = [].
Proof. intros p [H|[H1 H2]]; [assumption|lia]. Qed.

Definition LDich (cont : ustate) (p : uparser) (b : bytes) (r whole : ulres) : Prop :=
  match r with
  | ULC _ => True
  | UL p1 rest e =>
      extL b r whole \/
      (rest = [] /\ e = unilE /\ up_marker p1 <> 0 /\ up_cur p1 = up_cur p /\
       up_lcur p1 = up_lcur p /\ extL [] (ustep_len p1 b cont) whole)
  end.
Lemma LDich_ext : forall cont p b r w, extL b r w -> LDich cont p b r w.
Proof. intros cont p b [] w H; [left; exact H|exact I]. Qed.

Lemma len_finish_ext : forall b cont p rest L,
  extL b (len_finish cont p rest L) (len_finish cont p (rest ++ b) L).
Proof.
  intros. unfold len_finish. destruct (L <? 0).
  - apply extL_err. discriminate.
  - apply extL_same.
Qed.

Lemma len_via_dich : forall cont q a b k,
  up_marker q <> 0 -> markcount (up_marker q) = k -> bufok q k ->
  LDich cont q b (len_via cont q a k) (len_via cont q (a ++ b) k).
Proof.
  intros cont q a b k Hm Hk Hb. unfold len_via at 1.
  destruct (ucollect q a k) as [q1 rest [t|]|] eqn:E; [..|exact I].
  - apply LDich_ext. destruct (collect_some_app q a b _ _ _ _ Hb E) as [E2 _].
    unfold len_via. rewrite E2. apply len_finish_ext.
  - destruct (collect_none_app q a b _ _ _ Hb E) as (-> & -> & Hb1 & _ & E2).
    right. pc. repeat split; auto.
    rewrite ustep_len_eq. pc.
    replace (up_marker q =? 0) with false by lia.
    unfold len_go. pc.
    destruct (markcount_cases (up_marker q)) as [[M1 M2]|[[M1 M2]|[[M1 M2]|(M1 & M2 & M3 & M4)]]].
    + rewrite M1. cbn [Z.eqb mI mi mU Pos.eqb]. unfold len_via.
      replace k with 2 in * by lia. rewrite E2. apply extL_refl.
    + rewrite M1. cbn [Z.eqb ml mi mU mI Pos.eqb]. unfold len_via.
      replace k with 4 in * by lia. rewrite E2. apply extL_refl.
    + rewrite M1. cbn [Z.eqb mL ml mi mU mI Pos.eqb]. unfold len_via.
      replace k with 8 in * by lia. rewrite E2. apply extL_refl.
    + (* k = 0: collect cannot be incomplete *)
      exfalso. rewrite (collect_spec q a k Hb) in E. unfold collect_s in E.
      pose proof (zlen_nonneg a). pose proof (zlen_nonneg (up_buf q)).
      replace (k <? 0) with false in E by lia.
      replace (zlen (up_buf q) + zlen a >=? k) with true in E by lia. discriminate.
Qed.

Lemma len_go_dich : forall cont q a b,
  up_marker q <> 0 -> bufok q (markcount (up_marker q)) -> a <> [] ->
  LDich cont q b (len_go cont q a) (len_go cont q (a ++ b)).
Proof.
  intros cont q a b Hm Hb Ha. unfold len_go.
  destruct a as [|x r]; [congruence|]. cbn [app].
  destruct (up_marker q =? mi) eqn:E1.
  { apply LDich_ext, len_finish_ext. }
  destruct (up_marker q =? mU) eqn:E2.
  { apply LDich_ext, len_finish_ext. }
  destruct (up_marker q =? mI) eqn:E3.
  { apply Z.eqb_eq in E3.
    assert (Hk : markcount (up_marker q) = 2) by (rewrite E3; reflexivity).
    rewrite Hk in Hb. apply (len_via_dich cont q (x :: r) b 2); auto. }
  destruct (up_marker q =? ml) eqn:E4.
  { apply Z.eqb_eq in E4.
    assert (Hk : markcount (up_marker q) = 4) by (rewrite E4; reflexivity).
    rewrite Hk in Hb. apply (len_via_dich cont q (x :: r) b 4); auto. }
  destruct (up_marker q =? mL) eqn:E5.
  { apply Z.eqb_eq in E5.
    assert (Hk : markcount (up_marker q) = 8) by (rewrite E5; reflexivity).
    rewrite Hk in Hb. apply (len_via_dich cont q (x :: r) b 8); auto. }
  apply LDich_ext, extL_err. discriminate.
Qed.

Lemma LDich_frame : forall cont q p b r w,
  up_cur q = up_cur p -> up_lcur q = up_lcur p -> LDich cont q b r w -> LDich cont p b r w.
Proof.
  intros cont q p b [p1 rest e|c] w A B H; [|exact I]. cbn [LDich] in *.
  destruct H as [H|(H1 & H2 & H3 & H4 & H5 & H6)]; [left; exact H|right].
  repeat split; auto; congruence.
Qed.

Lemma ustep_len_dich : forall cont p a b,
  bufok p (markcount (up_marker p)) -> a <> [] -> b <> [] ->
  LDich cont p b (ustep_len p a cont) (ustep_len p (a ++ b) cont).
Proof.
  intros cont p a b Hb Ha Hb0. rewrite !ustep_len_eq.
  destruct (up_marker p =? 0) eqn:Em.
  - destruct a as [|m r]; [congruence|]. cbn [app].
    destruct (negb (lenmarker m)) eqn:El.
    { apply LDich_ext, extL_err. discriminate. }
    apply negb_false_iff in El. pose proof (lenmarker_nz m El) as Hnz.
    assert (Hbuf : up_buf p = []).
    { apply Z.eqb_eq in Em. rewrite Em in Hb. apply bufok_0. exact Hb. }
    destruct r as [|r0 rr].
    + cbn [app]. replace (zlen (@nil Z) =? 0) with true by reflexivity.
      rewrite (zlen_eqb_nil b Hb0). right. pc. repeat split; auto.
      rewrite ustep_len_eq. pc. replace (m =? 0) with false by lia. apply extL_refl.
    + rewrite (zlen_eqb_nil (r0 :: rr)) by discriminate.
      rewrite (zlen_eqb_nil ((r0 :: rr) ++ b)) by discriminate.
      apply (LDich_frame cont (uset_marker p m) p); [reflexivity|reflexivity|].
      apply len_go_dich; pc; auto; [left; exact Hbuf|discriminate].
  - apply len_go_dich; auto. lia.
Qed.

(* the parser after a successful stepLen *)
Definition len_res (cont : ustate) (p p1 : uparser) : Prop :=
  up_stack p1 = up_stack p /\ up_vcur p1 = up_vcur p /\ up_vstack p1 = up_vstack p /\
  up_err p1 = up_err p /\
  ((up_cur p1 = up_cur p /\ up_lcur p1 = up_lcur p /\ up_marker p1 <> 0 /\
    bufok p1 (markcount (up_marker p1))) \/
   (up_cur p1 = cont /\ clean p1)).

Lemma len_finish_res : forall cont q rest L p1 rest',
  up_buf q = [] -> len_finish cont q rest L = UL p1 rest' unilE ->
  up_stack p1 = up_stack q /\ up_vcur p1 = up_vcur q /\ up_vstack p1 = up_vstack q /\
  up_err p1 = up_err q /\ up_cur p1 = cont /\ clean p1.
Proof.
  intros cont q rest L p1 rest' Hb H. unfold len_finish in H.
  destruct (L <? 0); invSR H. unfold clean. pc. repeat split; auto.
Qed.

Lemma len_via_res : forall cont q a k p1 rest,
  up_marker q <> 0 -> markcount (up_marker q) = k -> bufok q k ->
  len_via cont q a k = UL p1 rest unilE -> len_res cont q p1.
Proof.
  intros cont q a k p1 rest Hm Hk Hb H. unfold len_via in H.
  destruct (ucollect q a k) as [q1 rest1 [t|]|] eqn:E; [..|discriminate].
  - destruct (collect_some_app q a [] _ _ _ _ Hb E) as [_ ->].
    apply len_finish_res in H; [|reflexivity]. pc.
    destruct H as (A & B & C & D & F & G). unfold len_res. repeat split; auto.
  - destruct (collect_none_app q a [] _ _ _ Hb E) as (-> & -> & Hb1 & _ & _).
    invSR H. unfold len_res. pc. do 4 (split; [reflexivity|]). left.
    split; [reflexivity|]. split; [reflexivity|]. split; [exact Hm|]. exact Hb1.
Qed.

Lemma len_go_res : forall cont q a p1 rest,
  up_marker q <> 0 -> bufok q (markcount (up_marker q)) ->
  len_go cont q a = UL p1 rest unilE -> len_res cont q p1.
Proof.
  intros cont q a p1 rest Hm Hb H. unfold len_go in H.
  assert (Hfin : forall r L, markcount (up_marker q) = 0 ->
            len_finish cont q r L = UL p1 rest unilE -> len_res cont q p1).
  { intros r L Hk Hf. rewrite Hk in Hb. apply bufok_0 in Hb.
    apply len_finish_res in Hf; [|exact Hb].
    destruct Hf as (A & B & C & D & F & G). unfold len_res. repeat split; auto. }
  destruct (up_marker q =? mi) eqn:E1.
  { destruct a as [|x r]; [discriminate|]. apply (Hfin _ _) in H; auto.
    apply Z.eqb_eq in E1. rewrite E1. reflexivity. }
  destruct (up_marker q =? mU) eqn:E2.
  { destruct a as [|x r]; [discriminate|]. apply (Hfin _ _) in H; auto.
    apply Z.eqb_eq in E2. rewrite E2. reflexivity. }
  destruct (up_marker q =? mI) eqn:E3.
  { apply Z.eqb_eq in E3.
    assert (Hk : markcount (up_marker q) = 2) by (rewrite E3; reflexivity).
    rewrite Hk in Hb. eapply len_via_res; [exact Hm|exact Hk|exact Hb|exact H]. }
  destruct (up_marker q =? ml) eqn:E4.
  { apply Z.eqb_eq in E4.
    assert (Hk : markcount (up_marker q) = 4) by (rewrite E4; reflexivity).
    rewrite Hk in Hb. eapply len_via_res; [exact Hm|exact Hk|exact Hb|exact H]. }
  destruct (up_marker q =? mL) eqn:E5.
  { apply Z.eqb_eq in E5.
    assert (Hk : markcount (up_marker q) = 8) by (rewrite E5; reflexivity).
    rewrite Hk in Hb. eapply len_via_res; [exact Hm|exact Hk|exact Hb|exact H]. }
  discriminate.
Qed.

Lemma ustep_len_res : forall cont p a p1 rest,
  bufok p (markcount (up_marker p)) ->
  ustep_len p a cont = UL p1 rest unilE -> len_res cont p p1.
Proof.
  intros cont p a p1 rest Hb H. rewrite ustep_len_eq in H.
  destruct (up_marker p =? 0) eqn:Em.
  - destruct a as [|m r]; [discriminate|].
    assert (Hbuf : up_buf p = []).
    { apply Z.eqb_eq in Em. rewrite Em in Hb. apply bufok_0. exact Hb. }
    destruct (negb (lenmarker m)) eqn:El; [discriminate|].
    apply negb_false_iff in El. pose proof (lenmarker_nz m El) as Hnz.
    destruct (zlen r =? 0).
    + invSR H. unfold len_res. pc. do 4 (split; [reflexivity|]). left.
      split; [reflexivity|]. split; [reflexivity|]. split; [exact Hnz|]. left. exact Hbuf.
    + apply len_go_res in H; [|pc; exact Hnz|left; exact Hbuf].
      unfold len_res in *. pc. exact H.
  - apply len_go_res in H; auto. lia.
Qed.

(* ---------- the dichotomy ---------- *)
(* either the step on a ++ b does what the step on a does and leaves b unread, or
   the step on a used up a inside a token, stops the loop, and the next step on
   b is the step on a ++ b *)
Definition Dich (b : bytes) (r whole : ures) : Prop :=
  match r with
  | UCrash _ => True
  | UR p1 s1 rest d e =>
      ext b r whole \/
      (rest = [] /\ e = unilE /\ cstep p1 = false /\
       forall g, ext [] (uexec (S g) p1 s1 b) whole)
  end.
Lemma Dich_ext : forall b r w, ext b r w -> Dich b r w.
Proof. intros b [] w H; [left; exact H|exact I]. Qed.
Lemma ext_latch_l : forall b r w, ext b r w -> ext b (xlatch r) w.
Proof.
  intros b [p s rest d e|w] [p' s' rest' d' e'|w'] H; cbn [ext xlatch] in *; auto.
  - destruct H as (-> & -> & H). destruct (unil e') eqn:E; cbn [ext]; auto.
    split; [reflexivity|]. split; [reflexivity|]. intros ->. discriminate.
  - destruct (unil e); exact H.
Qed.
Lemma Dich_latch : forall b r w, Dich b r w -> Dich b (xlatch r) (xlatch w).
Proof.
  intros b [p s rest d e|c] w H; [|exact I]. cbn [Dich] in H.
  destruct H as [H|(H1 & H2 & H3 & H4)].
  - apply Dich_ext. apply (ext_latch b (UR p s rest d e) w H).
  - subst. cbn [xlatch]. rewrite unil_nil. right. repeat split; auto.
    intros g. apply ext_latch_r. apply H4.
Qed.
Lemma Dich_nodone : forall b r w, Dich b r w -> Dich b (value_nodone r) (value_nodone w).
Proof.
  intros b [p s rest d e|c] w H; [|exact I]. cbn [Dich] in H. cbn [value_nodone].
  destruct H as [H|(H1 & H2 & H3 & H4)].
  - apply Dich_ext. apply (ext_nodone b (UR p s rest d e) w H).
  - right. repeat split; auto. intros g. apply ext_nodone_r. apply H4.
Qed.

Ltac zc := unfold tFail, tNext, tFixed, tHighPrec, tString, tArray, tArrayDyn, tArrayCount,
  tArrayTyped, tObject, tObjectDyn, tObjectCount, tObjectTyped,
  sStart, sNil, sNoop, sTrue, sFalse, sInt8, sUInt8, sInt16, sInt32, sInt64, sFloat32, sFloat64,
  sChar, sWithLen, sWithType0, sWithType1, sCont, sFieldName, sFieldNameLen in *.
Ltac blia := zc; lia.
(* decide the conditions of the ifs in the goal by lia *)
Ltac ifs :=
  repeat match goal with
  | |- context [if ?c then _ else _] =>
      lazymatch c with true => fail | false => fail | _ => idtac end;
      first [ replace c with true by blia | replace c with false by blia ];
      cbv iota
  end.

Lemma xb_fail : forall rec p s b, u_t (up_cur p) = tFail ->
  xbody0 rec p s b = UR p s b false (if up_err p =? 0 then unilE else up_err p).
Proof. intros rec p s b H. unfold xbody0. rewrite H. reflexivity. Qed.
Lemma xb_next : forall rec p s b, u_t (up_cur p) = tNext -> xbody0 rec p s b = ustep_value p s b.
Proof. intros rec p s b H. unfold xbody0. rewrite H. reflexivity. Qed.
Lemma xb_fixed : forall rec p s b, u_t (up_cur p) = tFixed -> xbody0 rec p s b = ustep_fixed p s b.
Proof. intros rec p s b H. unfold xbody0. rewrite H. reflexivity. Qed.
Lemma xb_string : forall rec p s b, u_t (up_cur p) = tHighPrec \/ u_t (up_cur p) = tString ->
  xbody0 rec p s b = ustep_string p s b.
Proof. intros rec p s b [H|H]; unfold xbody0; rewrite H; reflexivity. Qed.
Lemma xb_arr : forall rec p s b, u_t (up_cur p) = tArray -> xbody0 rec p s b = arr_start p s b.
Proof. intros rec p s b H. unfold xbody0. rewrite H. reflexivity. Qed.
Lemma xb_arrdyn : forall rec p s b, u_t (up_cur p) = tArrayDyn -> xbody0 rec p s b = arr_dyn p s b.
Proof. intros rec p s b H. unfold xbody0. rewrite H. reflexivity. Qed.
Lemma xb_arrcount : forall rec p s b, u_t (up_cur p) = tArrayCount ->
  xbody0 rec p s b = arr_counted p s b.
Proof. intros rec p s b H. unfold xbody0. rewrite H. reflexivity. Qed.
Lemma xb_arrtyped : forall rec p s b, u_t (up_cur p) = tArrayTyped ->
  xbody0 rec p s b = arr_typed rec p s b.
Proof. intros rec p s b H. unfold xbody0. rewrite H. reflexivity. Qed.
Lemma xb_obj : forall rec p s b, u_t (up_cur p) = tObject -> xbody0 rec p s b = obj_start p s b.
Proof. intros rec p s b H. unfold xbody0. rewrite H. reflexivity. Qed.
Lemma xb_objdyn : forall rec p s b, u_t (up_cur p) = tObjectDyn ->
  xbody0 rec p s b =
    if (u_s (up_cur p) =? sFieldNameLen) && (up_lcur p =? 0) then obj_dyn_emptykey p s b
    else obj_dyn p s b.
Proof. intros rec p s b H. unfold xbody0. rewrite H. reflexivity. Qed.
Lemma xb_objcount : forall rec p s b, u_t (up_cur p) = tObjectCount ->
  xbody0 rec p s b = obj_counted p s b.
Proof. intros rec p s b H. unfold xbody0. rewrite H. reflexivity. Qed.
Lemma xb_objtyped : forall rec p s b, u_t (up_cur p) = tObjectTyped ->
  xbody0 rec p s b = obj_typed p s b.
Proof. intros rec p s b H. unfold xbody0. rewrite H. reflexivity. Qed.
Lemma xb_other : forall rec p s b, u_t (up_cur p) < 0 \/ u_t (up_cur p) > 12 ->
  xbody0 rec p s b = UR p s b false ueInvalidState.
Proof. intros rec p s b H. unfold xbody0. cbv zeta. ifs. reflexivity. Qed.

(* the buffer and the marker, read off the invariant *)
Lemma good_nolen : forall p, good p -> lenst p = false ->
  up_marker p = 0 /\ bufok p (count_of p).
Proof. intros p (_ & H2 & H3) E. split; auto. Qed.
Lemma good_len : forall p, good p -> lenst p = true -> bufok p (markcount (up_marker p)).
Proof. intros p (_ & H2 & _) E. unfold count_of in H2. rewrite E in H2. exact H2. Qed.
Lemma good_clean : forall p, good p -> lenst p = false -> count_of p = 0 -> clean p.
Proof.
  intros p H E C. destruct (good_nolen p H E) as [H1 H2]. rewrite C in H2.
  split; [apply bufok_0; exact H2|exact H1].
Qed.

(* ---------- stFixed ---------- *)
Definition fixed_fin (p : uparser) (s : sink) (rest : bytes) (done : bool) (err : Z) : ures :=
  if done && unil err then let '(p1, d) := upop_state p in UR p1 s rest d unilE
  else UR p s rest done err.
Definition fixed_via (p : uparser) (s : sink) (b : bytes) (k : Z) (mk : Z -> event) : ures :=
  match ucollect p b k with
  | UCC => UCrash 6
  | UC p1 rest None => fixed_fin p1 s rest false unilE
  | UC p1 rest (Some tmp) => let '(s1, e) := uvis s (mk (be_dec tmp)) in fixed_fin p1 s1 rest true e
  end.
Definition fixed_body (st : Z) (p : uparser) (s : sink) (b : bytes) : ures :=
  if st =? sNil then let '(s1, e) := uvis s (EVal SNil) in fixed_fin p s1 b true e
  else if st =? sNoop then fixed_fin p s b false unilE
  else if st =? sTrue then let '(s1, e) := uvis s (EVal (SBool true)) in fixed_fin p s1 b true e
  else if st =? sFalse then let '(s1, e) := uvis s (EVal (SBool false)) in fixed_fin p s1 b true e
  else if st =? sInt8 then
    match b with [] => UCrash 7 | x :: r => let '(s1, e) := uvis s (EVal (SNum KInt8 (wraps 8 x))) in fixed_fin p s1 r true e end
  else if st =? sUInt8 then
    match b with [] => UCrash 8 | x :: r => let '(s1, e) := uvis s (EVal (SNum KUint8 x)) in fixed_fin p s1 r true e end
  else if st =? sChar then fixed_via p s b 1 (fun v => EVal (SNum KByte v))
  else if st =? sInt16 then fixed_via p s b 2 (fun v => EVal (SNum KInt16 (wraps 16 v)))
  else if st =? sInt32 then fixed_via p s b 4 (fun v => EVal (SNum KInt32 (wraps 32 v)))
  else if st =? sInt64 then fixed_via p s b 8 (fun v => EVal (SNum KInt64 (wraps 64 v)))
  else if st =? sFloat32 then fixed_via p s b 4 (fun v => EVal (SNum KFloat32 v))
  else if st =? sFloat64 then fixed_via p s b 8 (fun v => EVal (SNum KFloat64 v))
  else UR p s b false unilE.
Lemma ustep_fixed_eq : forall p s b, ustep_fixed p s b = fixed_body (u_s (up_cur p)) p s b.
Proof. reflexivity. Qed.

Lemma fixed_fin_ext : forall b p s rest d e,
  ext b (fixed_fin p s rest d e) (fixed_fin p s (rest ++ b) d e).
Proof. intros. unfold fixed_fin. repeat bm; ext_solve. Qed.

Lemma fixed_fin_post : forall p s rest d e p1 s1 rest' d',
  up_err p = 0 -> base p -> mid (up_cur p) -> clean p ->
  fixed_fin p s rest d e = UR p1 s1 rest' d' unilE -> Post p1 d'.
Proof.
  intros p s rest d e p1 s1 rest' d' He Hb Hm Hc H. unfold fixed_fin in H.
  destruct (d && unil e) eqn:E.
  - destruct (upop_state p) as [q dq] eqn:Ep. invSR H. eapply upop_state_post; eauto.
  - invSR H. rewrite unil_nil, andb_true_r in E. subst d'.
    split; [apply Inv_clean; assumption|discriminate].
Qed.

Lemma cstep_fixed : forall p, u_t (up_cur p) = tFixed -> cstep p = is_zero_sized (up_cur p).
Proof. intros p H. unfold cstep, can_step_without_input. rewrite H. reflexivity. Qed.

Lemma fixed_via_dich : forall b p s a k mk,
  u_t (up_cur p) = tFixed -> is_zero_sized (up_cur p) = false ->
  (forall q s' x, up_cur q = up_cur p -> ustep_fixed q s' x = fixed_via q s' x k mk) ->
  bufok p k ->
  Dich b (fixed_via p s a k mk) (fixed_via p s (a ++ b) k mk).
Proof.
  intros b p s a k mk Ht Hz Hq Hb. unfold fixed_via at 1.
  destruct (ucollect p a k) as [p1 rest [t|]|] eqn:E; [..|exact I].
  - apply Dich_ext. destruct (collect_some_app p a b _ _ _ _ Hb E) as [E2 _].
    unfold fixed_via. rewrite E2. destruct (uvis s _) as [s1 e]. apply fixed_fin_ext.
  - destruct (collect_none_app p a b _ _ _ Hb E) as (-> & -> & Hb1 & _ & E2).
    unfold fixed_fin. cbn [andb]. right. split; [reflexivity|]. split; [reflexivity|]. split.
    + rewrite cstep_fixed by exact Ht. exact Hz.
    + intros g. rewrite uexec_S, xb_fixed by exact Ht. apply ext_latch_l.
      rewrite Hq by reflexivity. unfold fixed_via. rewrite E2. apply ext_refl.
Qed.

Lemma zero_sized_steps : forall c, is_zero_sized c = true ->
  u_s c = sNil \/ u_s c = sTrue \/ u_s c = sFalse.
Proof. intros c H. unfold is_zero_sized in H. blia. Qed.

Lemma ustep_fixed_dich : forall b p s a,
  u_t (up_cur p) = tFixed -> a <> [] \/ cstep p = true -> bufok p (fixed_count (u_s (up_cur p))) ->
  Dich b (ustep_fixed p s a) (ustep_fixed p s (a ++ b)).
Proof.
  intros b p s a Ht Ha Hb. rewrite !ustep_fixed_eq.
  rewrite cstep_fixed in Ha by exact Ht.
  assert (Hvia : forall k mk,
            fixed_count (u_s (up_cur p)) = k -> is_zero_sized (up_cur p) = false ->
            (forall q s' x, fixed_body (u_s (up_cur p)) q s' x = fixed_via q s' x k mk) ->
            Dich b (fixed_via p s a k mk) (fixed_via p s (a ++ b) k mk)).
  { intros k mk Hk Hz Hq. apply fixed_via_dich; auto.
    - intros q s' x Eq. rewrite ustep_fixed_eq, Eq. apply Hq.
    - rewrite <- Hk. exact Hb. }
  unfold fixed_body at 1 2.
  destruct (u_s (up_cur p) =? sNil) eqn:E1.
  { destruct (uvis s _) as [s1 e]. apply Dich_ext, fixed_fin_ext. }
  destruct (u_s (up_cur p) =? sNoop) eqn:E2.
  { apply Dich_ext, fixed_fin_ext. }
  destruct (u_s (up_cur p) =? sTrue) eqn:E3.
  { destruct (uvis s _) as [s1 e]. apply Dich_ext, fixed_fin_ext. }
  destruct (u_s (up_cur p) =? sFalse) eqn:E4.
  { destruct (uvis s _) as [s1 e]. apply Dich_ext, fixed_fin_ext. }
  assert (Hz : is_zero_sized (up_cur p) = false) by (unfold is_zero_sized; blia).
  assert (Ha' : a <> []) by (destruct Ha as [Ha|Ha]; [exact Ha|congruence]).
  destruct (u_s (up_cur p) =? sInt8) eqn:E5.
  { destruct a as [|x r]; [congruence|]. cbn [app].
    destruct (uvis s _) as [s1 e]. apply Dich_ext, fixed_fin_ext. }
  destruct (u_s (up_cur p) =? sUInt8) eqn:E6.
  { destruct a as [|x r]; [congruence|]. cbn [app].
    destruct (uvis s _) as [s1 e]. apply Dich_ext, fixed_fin_ext. }
  destruct (u_s (up_cur p) =? sChar) eqn:E7.
  { apply Hvia; auto; [unfold fixed_count; ifs; reflexivity|].
    intros. unfold fixed_body. rewrite E1, E2, E3, E4, E5, E6, E7. reflexivity. }
  destruct (u_s (up_cur p) =? sInt16) eqn:E8.
  { apply Hvia; auto; [unfold fixed_count; ifs; reflexivity|].
    intros. unfold fixed_body. rewrite E1, E2, E3, E4, E5, E6, E7, E8. reflexivity. }
  destruct (u_s (up_cur p) =? sInt32) eqn:E9.
  { apply Hvia; auto; [unfold fixed_count; ifs; reflexivity|].
    intros. unfold fixed_body. rewrite E1, E2, E3, E4, E5, E6, E7, E8, E9. reflexivity. }
  destruct (u_s (up_cur p) =? sInt64) eqn:E10.
  { apply Hvia; auto; [unfold fixed_count; ifs; reflexivity|].
    intros. unfold fixed_body. rewrite E1, E2, E3, E4, E5, E6, E7, E8, E9, E10. reflexivity. }
  destruct (u_s (up_cur p) =? sFloat32) eqn:E11.
  { apply Hvia; auto; [unfold fixed_count; ifs; reflexivity|].
    intros. unfold fixed_body. rewrite E1, E2, E3, E4, E5, E6, E7, E8, E9, E10, E11. reflexivity. }
  destruct (u_s (up_cur p) =? sFloat64) eqn:E12.
  { apply Hvia; auto; [unfold fixed_count; ifs; reflexivity|].
    intros. unfold fixed_body. rewrite E1, E2, E3, E4, E5, E6, E7, E8, E9, E10, E11, E12. reflexivity. }
  apply Dich_ext. ext_solve.
Qed.

Lemma lenst_fixed : forall p, u_t (up_cur p) = tFixed -> lenst p = false.
Proof. intros p H. unfold lenst. blia. Qed.
Lemma count_of_fixed : forall p, u_t (up_cur p) = tFixed -> count_of p = fixed_count (u_s (up_cur p)).
Proof. intros p H. unfold count_of. rewrite (lenst_fixed p H), H. reflexivity. Qed.

Lemma fixed_via_post : forall p s a k mk p1 s1 rest d,
  up_err p = 0 -> base p -> u_t (up_cur p) = tFixed -> up_marker p = 0 ->
  fixed_count (u_s (up_cur p)) = k -> bufok p k ->
  fixed_via p s a k mk = UR p1 s1 rest d unilE -> Post p1 d.
Proof.
  intros p s a k mk p1 s1 rest d He Hb Ht Hm Hk Hbuf H. unfold fixed_via in H.
  assert (Hmid : mid (up_cur p)) by (unfold mid; rewrite Ht; split; discriminate).
  destruct (ucollect p a k) as [q rest1 [t|]|] eqn:E; [..|discriminate].
  - destruct (collect_some_app p a [] _ _ _ _ Hbuf E) as [_ ->].
    destruct (uvis s _) as [s2 e].
    eapply fixed_fin_post; [| | | |exact H]; pc; auto. split; pc; auto.
  - destruct (collect_none_app p a [] _ _ _ Hbuf E) as (-> & -> & Hb1 & _ & _).
    unfold fixed_fin in H. cbn [andb] in H. invSR H. split; [|discriminate].
    split; [exact He|right]. split; [exact Hb|]. split.
    + change (count_of (uset_buf p (up_buf p ++ a))) with (count_of p).
      rewrite count_of_fixed by exact Ht. exact Hb1.
    + intros _. exact Hm.
Qed.

Lemma ustep_fixed_post : forall p s a p1 s1 rest d,
  up_err p = 0 -> good p -> u_t (up_cur p) = tFixed ->
  ustep_fixed p s a = UR p1 s1 rest d unilE -> Post p1 d.
Proof.
  intros p s a p1 s1 rest d He Hg Ht H. rewrite ustep_fixed_eq in H.
  destruct (good_nolen p Hg (lenst_fixed p Ht)) as [Hm Hbuf].
  rewrite count_of_fixed in Hbuf by exact Ht.
  assert (Hb : base p) by apply Hg.
  assert (Hmid : mid (up_cur p)) by (unfold mid; rewrite Ht; split; discriminate).
  assert (HI : Inv p) by (split; [exact He|right; exact Hg]).
  assert (Hfin : forall s' r' d0 e0, fixed_count (u_s (up_cur p)) = 0 ->
            fixed_fin p s' r' d0 e0 = UR p1 s1 rest d unilE -> Post p1 d).
  { intros s' r' d0 e0 Hk Hf. rewrite Hk in Hbuf. apply bufok_0 in Hbuf.
    eapply fixed_fin_post; [| | | |exact Hf]; auto. split; auto. }
  unfold fixed_body in H.
  destruct (u_s (up_cur p) =? sNil) eqn:E1.
  { destruct (uvis s _) as [s2 e]. eapply Hfin; [|exact H]. unfold fixed_count; ifs; reflexivity. }
  destruct (u_s (up_cur p) =? sNoop) eqn:E2.
  { eapply Hfin; [|exact H]. unfold fixed_count; ifs; reflexivity. }
  destruct (u_s (up_cur p) =? sTrue) eqn:E3.
  { destruct (uvis s _) as [s2 e]. eapply Hfin; [|exact H]. unfold fixed_count; ifs; reflexivity. }
  destruct (u_s (up_cur p) =? sFalse) eqn:E4.
  { destruct (uvis s _) as [s2 e]. eapply Hfin; [|exact H]. unfold fixed_count; ifs; reflexivity. }
  destruct (u_s (up_cur p) =? sInt8) eqn:E5.
  { destruct a as [|x r]; [discriminate|].
    destruct (uvis s _) as [s2 e]. eapply Hfin; [|exact H]. unfold fixed_count; ifs; reflexivity. }
  destruct (u_s (up_cur p) =? sUInt8) eqn:E6.
  { destruct a as [|x r]; [discriminate|].
    destruct (uvis s _) as [s2 e]. eapply Hfin; [|exact H]. unfold fixed_count; ifs; reflexivity. }
  destruct (u_s (up_cur p) =? sChar) eqn:E7.
  { assert (Hk : fixed_count (u_s (up_cur p)) = 1) by (unfold fixed_count; ifs; reflexivity).
    rewrite Hk in Hbuf.
    exact (fixed_via_post p s a 1 _ p1 s1 rest d He Hb Ht Hm Hk Hbuf H). }
  destruct (u_s (up_cur p) =? sInt16) eqn:E8.
  { assert (Hk : fixed_count (u_s (up_cur p)) = 2) by (unfold fixed_count; ifs; reflexivity).
    rewrite Hk in Hbuf.
    exact (fixed_via_post p s a 2 _ p1 s1 rest d He Hb Ht Hm Hk Hbuf H). }
  destruct (u_s (up_cur p) =? sInt32) eqn:E9.
  { assert (Hk : fixed_count (u_s (up_cur p)) = 4) by (unfold fixed_count; ifs; reflexivity).
    rewrite Hk in Hbuf.
    exact (fixed_via_post p s a 4 _ p1 s1 rest d He Hb Ht Hm Hk Hbuf H). }
  destruct (u_s (up_cur p) =? sInt64) eqn:E10.
  { assert (Hk : fixed_count (u_s (up_cur p)) = 8) by (unfold fixed_count; ifs; reflexivity).
    rewrite Hk in Hbuf.
    exact (fixed_via_post p s a 8 _ p1 s1 rest d He Hb Ht Hm Hk Hbuf H). }
  destruct (u_s (up_cur p) =? sFloat32) eqn:E11.
  { assert (Hk : fixed_count (u_s (up_cur p)) = 4) by (unfold fixed_count; ifs; reflexivity).
    rewrite Hk in Hbuf.
    exact (fixed_via_post p s a 4 _ p1 s1 rest d He Hb Ht Hm Hk Hbuf H). }
  destruct (u_s (up_cur p) =? sFloat64) eqn:E12.
  { assert (Hk : fixed_count (u_s (up_cur p)) = 8) by (unfold fixed_count; ifs; reflexivity).
    rewrite Hk in Hbuf.
    exact (fixed_via_post p s a 8 _ p1 s1 rest d He Hb Ht Hm Hk Hbuf H). }
  invSR H. split; [exact HI|discriminate].
Qed.

(* ---------- strings and high precision numbers ---------- *)
Definition str_fin (p : uparser) (s : sink) (rest : bytes) (done : bool) (err : Z) : ures :=
  if done && unil err then let '(p1, d) := upop_len_state p in UR p1 s rest d unilE
  else UR p s rest done err.
Definition str_withlen (p : uparser) (s : sink) (b : bytes) : ures :=
  let L := up_lcur p in
  if L =? 0 then let '(s1, e) := uvis s (EVal (SStr [])) in str_fin p s1 b true e
  else
    match ucollect p b L with
    | UCC => UCrash 9
    | UC p1 rest None => str_fin p1 s rest false unilE
    | UC p1 rest (Some tmp) => let '(s1, e) := uvis s (EStrRef tmp) in str_fin p1 s1 rest true e
    end.
Definition str_cont (s : sink) (r : ulres) : ures :=
  match r with
  | ULC w => UCrash w
  | UL p1 rest err =>
      if unil err && (u_s (up_cur p1) =? sWithLen) then str_withlen p1 s rest
      else UR p1 s rest false err
  end.
Lemma ustep_string_eq : forall p s b,
  ustep_string p s b =
    if u_s (up_cur p) =? sStart then str_cont s (ustep_len p b (with_step (up_cur p) sWithLen))
    else if u_s (up_cur p) =? sWithLen then str_withlen p s b
    else UR p s b false unilE.
Proof. reflexivity. Qed.

Definition isstr (p : uparser) : Prop := u_t (up_cur p) = tHighPrec \/ u_t (up_cur p) = tString.

Lemma isstr_mid : forall p, isstr p -> mid (up_cur p).
Proof. intros p [H|H]; unfold mid; rewrite H; split; discriminate. Qed.
Lemma cstep_str : forall p, isstr p -> cstep p = false.
Proof. intros p [H|H]; unfold cstep, can_step_without_input; rewrite H; reflexivity. Qed.

Lemma str_fin_ext : forall b p s rest d e,
  ext b (str_fin p s rest d e) (str_fin p s (rest ++ b) d e).
Proof. intros. unfold str_fin. repeat bm; ext_solve. Qed.

Lemma str_fin_post : forall p s rest d e p1 s1 rest' d',
  up_err p = 0 -> base p -> mid (up_cur p) -> clean p ->
  str_fin p s rest d e = UR p1 s1 rest' d' unilE -> Post p1 d'.
Proof.
  intros p s rest d e p1 s1 rest' d' He Hb Hm Hc H. unfold str_fin in H.
  destruct (d && unil e) eqn:E.
  - destruct (upop_len_state p) as [q dq] eqn:Ep. invSR H. eapply upop_len_state_post; eauto.
  - invSR H. rewrite unil_nil, andb_true_r in E. subst d'.
    split; [apply Inv_clean; assumption|discriminate].
Qed.

Lemma str_withlen_dich : forall b p s a,
  isstr p -> u_s (up_cur p) = sWithLen -> bufok p (up_lcur p) ->
  Dich b (str_withlen p s a) (str_withlen p s (a ++ b)).
Proof.
  intros b p s a Ht Hs Hb. unfold str_withlen at 1.
  destruct (up_lcur p =? 0) eqn:EL.
  { apply Dich_ext. unfold str_withlen. rewrite EL. destruct (uvis s _) as [s1 e]. apply str_fin_ext. }
  destruct (ucollect p a (up_lcur p)) as [p1 rest [t|]|] eqn:E; [..|exact I].
  - apply Dich_ext. destruct (collect_some_app p a b _ _ _ _ Hb E) as [E2 _].
    unfold str_withlen. rewrite EL, E2. destruct (uvis s _) as [s1 e]. apply str_fin_ext.
  - destruct (collect_none_app p a b _ _ _ Hb E) as (-> & -> & Hb1 & _ & E2).
    unfold str_fin. cbn [andb]. right. split; [reflexivity|]. split; [reflexivity|]. split.
    + apply cstep_str. exact Ht.
    + intros g. rewrite uexec_S, xb_string by exact Ht. apply ext_latch_l.
      rewrite ustep_string_eq. pc. rewrite Hs.
      replace (sWithLen =? sStart) with false by reflexivity. rewrite Z.eqb_refl.
      unfold str_withlen. pc. rewrite EL, E2. apply ext_refl.
Qed.

Lemma str_cont_ext_nil : forall s x w, extL [] x w -> ext [] (str_cont s x) (str_cont s w).
Proof.
  intros s [p1 rest e|c] [p2 rest' e'|c'] H; cbn [extL str_cont] in *; try tauto; try exact I.
  destruct H as [<- H]. destruct (unil e) eqn:E.
  - apply unil_true in E. destruct (H E) as [<- ->]. rewrite app_nil_r. apply ext_refl.
  - cbn [andb]. apply ext_err. apply unil_false. exact E.
Qed.

Lemma lenst_str_start : forall p, isstr p -> u_s (up_cur p) = sStart -> lenst p = true.
Proof. intros p [H|H] Hs; unfold lenst; blia. Qed.
Lemma lenst_str_other : forall p, isstr p -> u_s (up_cur p) <> sStart -> lenst p = false.
Proof. intros p [H|H] Hs; unfold lenst; blia. Qed.
Lemma count_of_str_withlen : forall p, isstr p -> u_s (up_cur p) = sWithLen -> count_of p = up_lcur p.
Proof.
  intros p Ht Hs. unfold count_of. rewrite (lenst_str_other p Ht) by (rewrite Hs; discriminate).
  destruct Ht as [H|H]; rewrite H, Hs; reflexivity.
Qed.

Lemma ustep_string_dich : forall b p s a,
  isstr p -> good p -> a <> [] -> b <> [] ->
  Dich b (ustep_string p s a) (ustep_string p s (a ++ b)).
Proof.
  intros b p s a Ht Hg Ha Hb0. rewrite !ustep_string_eq.
  destruct (u_s (up_cur p) =? sStart) eqn:E1.
  - apply Z.eqb_eq in E1.
    pose proof (good_len p Hg (lenst_str_start p Ht E1)) as Hbuf.
    set (cont := with_step (up_cur p) sWithLen).
    pose proof (ustep_len_dich cont p a b Hbuf Ha Hb0) as D.
    destruct (ustep_len p a cont) as [p1 rest e|c] eqn:EL; [|exact I].
    cbn [LDich] in D. destruct D as [D|(D1 & D2 & D3 & D4 & D5 & D6)].
    + destruct (ustep_len p (a ++ b) cont) as [p2 rest' e'|c'] eqn:EW; cbn [extL] in D; [|contradiction].
      destruct D as [<- D]. cbn [str_cont].
      destruct (unil e) eqn:Ee.
      * apply unil_true in Ee. destruct (D Ee) as [<- ->]. subst e.
        destruct (u_s (up_cur p1) =? sWithLen) eqn:Es; cbn [andb]; [|apply Dich_ext; ext_solve].
        apply Z.eqb_eq in Es.
        destruct (ustep_len_res cont p a p1 rest Hbuf EL) as (_ & _ & _ & _ & [(A & _)|(A & B)]).
        { rewrite A, E1 in Es. discriminate. }
        apply str_withlen_dich; [|exact Es|left; apply B].
        unfold isstr in *. rewrite A. exact Ht.
      * cbn [andb]. apply Dich_ext, ext_err. apply unil_false; exact Ee.
    + subst rest e. cbn [str_cont]. rewrite D4, E1.
      replace (sStart =? sWithLen) with false by reflexivity. rewrite andb_false_r.
      right. split; [reflexivity|]. split; [reflexivity|]. split.
      * apply cstep_str. unfold isstr in *. rewrite D4. exact Ht.
      * intros g. rewrite uexec_S, xb_string by (unfold isstr in *; rewrite D4; exact Ht).
        apply ext_latch_l. rewrite ustep_string_eq. rewrite D4, E1. rewrite Z.eqb_refl.
        apply str_cont_ext_nil. exact D6.
  - destruct (u_s (up_cur p) =? sWithLen) eqn:E2.
    + apply Z.eqb_eq in E2. apply str_withlen_dich; auto.
      destruct (good_nolen p Hg) as [_ Hbuf]; [apply lenst_str_other; [exact Ht|lia]|].
      rewrite count_of_str_withlen in Hbuf by assumption. exact Hbuf.
    + apply Dich_ext. ext_solve.
Qed.

Lemma base_len_res : forall cont p p1, base p -> len_res cont p p1 ->
  u_t cont = u_t (up_cur p) -> base p1.
Proof.
  intros cont p p1 (H1 & H2 & H3) (A & B & C & _ & [(D & _)|(D & _)]) Ht;
    unfold base; rewrite A, B, C, D; repeat split; auto.
  eapply stk_same_t; [|exact H1]. exact Ht.
Qed.

Lemma str_withlen_post : forall p s a p1 s1 rest d,
  up_err p = 0 -> base p -> isstr p -> u_s (up_cur p) = sWithLen -> up_marker p = 0 ->
  bufok p (up_lcur p) ->
  str_withlen p s a = UR p1 s1 rest d unilE -> Post p1 d.
Proof.
  intros p s a p1 s1 rest d He Hb Ht Hs Hm Hbuf H. unfold str_withlen in H.
  pose proof (isstr_mid p Ht) as Hmid.
  destruct (up_lcur p =? 0) eqn:EL.
  { destruct (uvis s _) as [s2 e]. apply Z.eqb_eq in EL. rewrite EL in Hbuf. apply bufok_0 in Hbuf.
    eapply str_fin_post; [| | | |exact H]; auto. split; auto. }
  destruct (ucollect p a (up_lcur p)) as [q rest1 [t|]|] eqn:E; [..|discriminate].
  - destruct (collect_some_app p a [] _ _ _ _ Hbuf E) as [_ ->].
    destruct (uvis s _) as [s2 e].
    eapply str_fin_post; [| | | |exact H]; pc; auto. split; pc; auto.
  - destruct (collect_none_app p a [] _ _ _ Hbuf E) as (-> & -> & Hb1 & _ & _).
    unfold str_fin in H. cbn [andb] in H. invSR H. split; [|discriminate].
    split; [exact He|right]. split; [exact Hb|]. split.
    + change (count_of (uset_buf p (up_buf p ++ a))) with (count_of p).
      rewrite count_of_str_withlen by assumption. exact Hb1.
    + intros _. exact Hm.
Qed.

(* the invariant of a state that is still reading a length *)
Lemma Inv_len_partial : forall p p1,
  up_err p = 0 -> base p -> lenst p = true ->
  up_stack p1 = up_stack p -> up_vcur p1 = up_vcur p -> up_vstack p1 = up_vstack p ->
  up_err p1 = up_err p -> up_cur p1 = up_cur p -> up_lcur p1 = up_lcur p ->
  bufok p1 (markcount (up_marker p1)) -> Inv p1.
Proof.
  intros p p1 He (H1 & H2 & H3) Hl A B C D E F Hb.
  assert (Hl1 : lenst p1 = true) by (unfold lenst in *; rewrite E, F; exact Hl).
  split; [congruence|right]. split; [|split].
  - unfold base. rewrite A, B, C, E. auto.
  - unfold count_of. rewrite Hl1. exact Hb.
  - rewrite Hl1. discriminate.
Qed.

Lemma ustep_string_post : forall p s a p1 s1 rest d,
  up_err p = 0 -> good p -> isstr p ->
  ustep_string p s a = UR p1 s1 rest d unilE -> Post p1 d.
Proof.
  intros p s a p1 s1 rest d He Hg Ht H. rewrite ustep_string_eq in H.
  assert (Hb : base p) by apply Hg.
  assert (HI : Inv p) by (split; [exact He|right; exact Hg]).
  destruct (u_s (up_cur p) =? sStart) eqn:E1.
  - apply Z.eqb_eq in E1.
    pose proof (lenst_str_start p Ht E1) as Hl.
    pose proof (good_len p Hg Hl) as Hbuf.
    set (cont := with_step (up_cur p) sWithLen) in *.
    destruct (ustep_len p a cont) as [q rest1 e|c] eqn:EL; [|discriminate]. cbn [str_cont] in H.
    destruct (unil e) eqn:Ee.
    + apply unil_true in Ee. subst e.
      pose proof (ustep_len_res cont p a q rest1 Hbuf EL) as LR.
      pose proof (base_len_res cont p q Hb LR eq_refl) as Hbq.
      destruct LR as (A & B & C & D & [(F & G & _ & K)|(F & G)]).
      * rewrite F, E1 in H. replace (sStart =? sWithLen) with false in H by reflexivity.
        cbn [andb] in H. invSR H. split; [|discriminate].
        eapply Inv_len_partial; eauto.
      * rewrite F in H. cbn [cont with_step u_s mku] in H. rewrite Z.eqb_refl in H. cbn [andb] in H.
        eapply str_withlen_post; [| | | | | |exact H].
        -- congruence.
        -- exact Hbq.
        -- unfold isstr in *. rewrite F. exact Ht.
        -- rewrite F. reflexivity.
        -- apply G.
        -- left. apply G.
    + cbn [andb] in H. invSR H. discriminate.
  - destruct (u_s (up_cur p) =? sWithLen) eqn:E2.
    + apply Z.eqb_eq in E2.
      destruct (good_nolen p Hg) as [Hm Hbuf]; [apply lenst_str_other; [exact Ht|lia]|].
      rewrite count_of_str_withlen in Hbuf by assumption.
      eapply str_withlen_post; [| | | | | |exact H]; auto.
    + invSR H. split; [exact HI|discriminate].
Qed.

(* ---------- simple container states ---------- *)
Ltac solve_clean Hg :=
  apply good_clean; [exact Hg | unfold lenst; blia
                    | unfold count_of, lenst, fixed_count; ifs; reflexivity].

Lemma lenst_cstep : forall p, lenst p = true -> cstep p = false.
Proof.
  intros p H. unfold cstep, can_step_without_input, is_zero_sized, lenst in *.
  destruct (Z.eqb_spec (u_t (up_cur p)) tFixed) as [E|E]; [exfalso; blia|].
  destruct (Z.eqb_spec (u_t (up_cur p)) tArrayCount) as [E1|E1]; [blia|].
  destruct (Z.eqb_spec (u_t (up_cur p)) tArrayTyped) as [E2|E2].
  { apply andb_false_iff. left. blia. }
  destruct (Z.eqb_spec (u_t (up_cur p)) tObjectDyn) as [E3|E3]; [blia|].
  destruct (Z.eqb_spec (u_t (up_cur p)) tObjectCount) as [E4|E4]; [blia|].
  destruct (Z.eqb_spec (u_t (up_cur p)) tObjectTyped) as [E5|E5]; [blia|].
  reflexivity.
Qed.

(* lifting the dichotomy of stepLen to a state whose step is stepLen *)
Lemma of_ul_dich : forall cont p s b r w,
  lenst p = true -> LDich cont p b r w ->
  (forall q g s', up_cur q = up_cur p -> up_lcur q = up_lcur p -> up_marker q <> 0 ->
     xbody0 (uexec g) q s' b = of_ul (ustep_len q b cont) s') ->
  Dich b (of_ul r s) (of_ul w s).
Proof.
  intros cont p s b [p1 rest e|c] w Hl D Hx; [|exact I]. cbn [LDich] in D. cbn [of_ul Dich].
  destruct D as [D|(D1 & D2 & D3 & D4 & D5 & D6)].
  - left. apply (ext_of_ul b (UL p1 rest e) w s D).
  - right. repeat split; auto.
    + apply lenst_cstep. unfold lenst in *. rewrite D4, D5. exact Hl.
    + intros g. rewrite uexec_S, Hx by assumption. apply ext_latch_l.
      apply ext_of_ul. exact D6.
Qed.

Lemma of_ul_post : forall cont p s a p1 s1 rest d,
  up_err p = 0 -> good p -> lenst p = true -> u_t cont = u_t (up_cur p) ->
  of_ul (ustep_len p a cont) s = UR p1 s1 rest d unilE -> Post p1 d.
Proof.
  intros cont p s a p1 s1 rest d He Hg Hl Ht H.
  assert (Hb : base p) by apply Hg.
  pose proof (good_len p Hg Hl) as Hbuf.
  destruct (ustep_len p a cont) as [q rest1 e|c] eqn:EL; [|discriminate].
  cbn [of_ul] in H. invSR H. split; [|discriminate].
  pose proof (ustep_len_res cont p a p1 rest Hbuf EL) as LR.
  pose proof (base_len_res cont p p1 Hb LR Ht) as Hbq.
  destruct LR as (A & B & C & D & [(F & G & _ & K)|(F & G)]).
  - eapply Inv_len_partial; eauto.
  - apply Inv_clean; [congruence|exact Hbq|exact G].
Qed.

Lemma cstep_false_t : forall p, u_t (up_cur p) = tNext \/ u_t (up_cur p) = tArray \/
  u_t (up_cur p) = tArrayDyn \/ u_t (up_cur p) = tObject -> cstep p = false.
Proof.
  intros p H. unfold cstep, can_step_without_input.
  destruct H as [H|[H|[H|H]]]; rewrite H; reflexivity.
Qed.

(* stNext *)
Lemma next_post : forall p s a p1 s1 rest d,
  up_err p = 0 -> good p -> u_t (up_cur p) = tNext ->
  ustep_value p s a = UR p1 s1 rest d unilE -> Post p1 d.
Proof.
  intros p s a p1 s1 rest d He Hg Ht H.
  assert (Hc : clean p) by solve_clean Hg.
  destruct (ustep_value_post p s a p1 s1 rest d He (proj1 Hg) Hc H) as [HI Hd].
  split; [exact HI|]. intros D. rewrite (Hd D). exact Ht.
Qed.

(* stArray / stObject: the byte after the opening marker *)
Lemma base_set_type : forall p t, base p -> mid (up_cur p) -> t <> tNext -> t <> tFail ->
  base (uset_type p t).
Proof.
  intros p t (H1 & H2 & H3) Hm Ht1 Ht2. unfold base. pc. repeat split; auto.
  eapply stk_mid_change; [exact Hm| |exact H1]. split; assumption.
Qed.
Lemma base_set_step : forall p st, base p -> base (uset_step p st).
Proof.
  intros p st (H1 & H2 & H3). unfold base. pc. repeat split; auto;
  try (eapply stk_same_t; [|exact H1]; reflexivity).
Qed.
Lemma base_set_lcur : forall p l, base p -> base (uset_lcur p l).
Proof. intros p l H. exact H. Qed.

Lemma arr_start_ext : forall b p s a, a <> [] -> ext b (arr_start p s a) (arr_start p s (a ++ b)).
Proof.
  intros b p s [|x r] Ha; [congruence|]. cbn [app]. unfold arr_start.
  repeat (first [ ext_solve | bm ]).
Qed.
Lemma obj_start_ext : forall b p s a, a <> [] -> ext b (obj_start p s a) (obj_start p s (a ++ b)).
Proof.
  intros b p s [|x r] Ha; [congruence|]. cbn [app]. unfold obj_start.
  repeat (first [ ext_solve | bm ]).
Qed.

Lemma mid_t : forall c, u_t c <> tNext -> u_t c <> tFail -> mid c.
Proof. intros c H1 H2; split; assumption. Qed.

Lemma arr_start_post : forall p s a p1 s1 rest d,
  up_err p = 0 -> good p -> u_t (up_cur p) = tArray ->
  arr_start p s a = UR p1 s1 rest d unilE -> Post p1 d.
Proof.
  intros p s a p1 s1 rest d He Hg Ht H.
  assert (Hc : clean p) by solve_clean Hg.
  assert (Hm : mid (up_cur p)) by (apply mid_t; rewrite Ht; discriminate).
  unfold arr_start in H. destruct a as [|x r]; [discriminate|].
  repeat (bmH H); invSR H; (split; [|discriminate]);
    (apply Inv_clean; [exact He| |exact Hc]); apply base_set_type; try apply Hg; auto; discriminate.
Qed.
Lemma obj_start_post : forall p s a p1 s1 rest d,
  up_err p = 0 -> good p -> u_t (up_cur p) = tObject ->
  obj_start p s a = UR p1 s1 rest d unilE -> Post p1 d.
Proof.
  intros p s a p1 s1 rest d He Hg Ht H.
  assert (Hc : clean p) by solve_clean Hg.
  assert (Hm : mid (up_cur p)) by (apply mid_t; rewrite Ht; discriminate).
  unfold obj_start in H. destruct a as [|x r]; [discriminate|].
  repeat (bmH H); invSR H; (split; [|discriminate]);
    (apply Inv_clean; [exact He| |exact Hc]); apply base_set_type; try apply Hg; auto; discriminate.
Qed.

(* stArrayDyn *)
Lemma arr_dyn_ext : forall b p s a, a <> [] -> ext b (arr_dyn p s a) (arr_dyn p s (a ++ b)).
Proof.
  intros b p s [|x r] Ha; [congruence|]. cbn [app]. unfold arr_dyn.
  destruct (x =? mArrE).
  - repeat (first [ ext_solve | bm ]).
  - apply ext_nodone. apply (ustep_value_ext b _ s (x :: r)). discriminate.
Qed.

Lemma value_nodone_post : forall p s a p1 s1 rest d,
  up_err p = 0 -> base p -> clean p ->
  value_nodone (ustep_value p s a) = UR p1 s1 rest d unilE -> Post p1 d.
Proof.
  intros p s a p1 s1 rest d He Hb Hc H.
  destruct (ustep_value p s a) as [q sq rq dq eq|c] eqn:E; [|discriminate].
  cbn [value_nodone] in H. invSR H. split; [|discriminate].
  eapply ustep_value_post; eauto.
Qed.

Lemma arr_dyn_post : forall p s a p1 s1 rest d,
  up_err p = 0 -> good p -> u_t (up_cur p) = tArrayDyn ->
  arr_dyn p s a = UR p1 s1 rest d unilE -> Post p1 d.
Proof.
  intros p s a p1 s1 rest d He Hg Ht H.
  assert (Hc : clean p) by solve_clean Hg.
  assert (Hm : mid (up_cur p)) by (apply mid_t; rewrite Ht; discriminate).
  assert (Hb : base p) by apply Hg.
  unfold arr_dyn in H. destruct a as [|x r]; [discriminate|].
  destruct (x =? mArrE).
  - destruct (uvis s EArrEnd) as [s2 e]. destruct (unil e) eqn:Ee.
    + destruct (upop_state p) as [q dq] eqn:Ep. invSR H. eapply upop_state_post; eauto.
    + invSR H. discriminate.
  - destruct (u_s (up_cur p) =? sStart).
    + eapply value_nodone_post; [| | |exact H]; auto; try (apply base_set_step; exact Hb).
    + eapply value_nodone_post; [| | |exact H]; auto.
Qed.

(* stArrayCount *)
Definition cnt_body (p1 : uparser) (s1 : sink) (e0 : Z) (l : Z) (b : bytes) : ures :=
  if negb (unil e0) then UR p1 s1 b false e0
  else if l =? 0 then
    let '(s2, e) := uvis s1 EArrEnd in
    if unil e then let '(p2, d) := upop_len_state p1 in UR p2 s2 b d unilE else UR p1 s2 b true e
  else
    match b with
    | [] => UCrash 16
    | x :: r =>
        if x =? mN then UR p1 s1 r false unilE
        else value_nodone (ustep_value (uset_lcur p1 (up_lcur p1 - 1)) s1 b)
    end.
Lemma arr_counted_eq : forall p s b,
  arr_counted p s b =
    if u_s (up_cur p) =? sStart then of_ul (ustep_len p b (with_step (up_cur p) sWithLen)) s
    else
      let '(p1, s1, e0) :=
        if u_s (up_cur p) =? sWithLen
        then let '(s1, e) := uvis s (EArrStart (up_lcur p) BAny) in (uset_step p sCont, s1, e)
        else (p, s, unilE) in
      cnt_body p1 s1 e0 (up_lcur p) b.
Proof. reflexivity. Qed.

Lemma cnt_body_ext : forall b p1 s1 e0 l a, a <> [] \/ l = 0 ->
  ext b (cnt_body p1 s1 e0 l a) (cnt_body p1 s1 e0 l (a ++ b)).
Proof.
  intros b p1 s1 e0 l a Ha. unfold cnt_body.
  destruct (negb (unil e0)) eqn:E0.
  { apply ext_err. apply unil_false. apply negb_true_iff. exact E0. }
  destruct (l =? 0) eqn:El.
  { repeat (first [ ext_solve | bm ]). }
  destruct a as [|x r]; [destruct Ha; [congruence|lia]|]. cbn [app].
  destruct (x =? mN); [ext_solve|].
  apply ext_nodone. apply (ustep_value_ext b _ s1 (x :: r)). discriminate.
Qed.

Lemma cnt_body_post : forall p1 s1 e0 l a p2 s2 rest d,
  up_err p1 = 0 -> base p1 -> mid (up_cur p1) -> clean p1 ->
  cnt_body p1 s1 e0 l a = UR p2 s2 rest d unilE -> Post p2 d.
Proof.
  intros p1 s1 e0 l a p2 s2 rest d He Hb Hm Hc H. unfold cnt_body in H.
  destruct (negb (unil e0)) eqn:E0.
  { invSR H. discriminate. }
  destruct (l =? 0).
  { destruct (uvis s1 EArrEnd) as [s3 e]. destruct (unil e) eqn:Ee.
    - destruct (upop_len_state p1) as [q dq] eqn:Ep. invSR H. eapply upop_len_state_post; eauto.
    - invSR H. discriminate. }
  destruct a as [|x r]; [discriminate|].
  destruct (x =? mN).
  - invSR H. split; [|discriminate]. apply Inv_clean; assumption.
  - eapply value_nodone_post; [| | |exact H]; auto.
Qed.

Lemma cstep_arrcount : forall p, u_t (up_cur p) = tArrayCount -> cstep p = true ->
  u_s (up_cur p) <> sStart /\ up_lcur p = 0.
Proof.
  intros p Ht H. unfold cstep, can_step_without_input in H. rewrite Ht in H.
  change (tArrayCount =? tFixed) with false in H.
  change (tArrayCount =? tArrayCount) with true in H. cbv iota in H. blia.
Qed.

Lemma arr_counted_dich : forall b p s a,
  u_t (up_cur p) = tArrayCount -> good p -> a <> [] \/ cstep p = true -> b <> [] ->
  Dich b (arr_counted p s a) (arr_counted p s (a ++ b)).
Proof.
  intros b p s a Ht Hg Ha Hb0. rewrite !arr_counted_eq.
  destruct (u_s (up_cur p) =? sStart) eqn:E1.
  - assert (Ha' : a <> []).
    { destruct Ha as [Ha|Ha]; [exact Ha|]. apply cstep_arrcount in Ha; [|exact Ht]. lia. }
    assert (Hl : lenst p = true) by (unfold lenst; blia).
    eapply of_ul_dich; [exact Hl| |].
    + apply ustep_len_dich; auto. apply good_len; assumption.
    + intros q g s' A B C. rewrite xb_arrcount by congruence.
      rewrite arr_counted_eq. rewrite A, E1. reflexivity.
  - apply Dich_ext.
    assert (Ha' : a <> [] \/ up_lcur p = 0).
    { destruct Ha as [Ha|Ha]; [left; exact Ha|right]. apply cstep_arrcount in Ha; tauto. }
    destruct (u_s (up_cur p) =? sWithLen).
    + destruct (uvis s _) as [s1 e]. apply cnt_body_ext. exact Ha'.
    + apply cnt_body_ext. exact Ha'.
Qed.

Lemma arr_counted_post : forall p s a p1 s1 rest d,
  up_err p = 0 -> good p -> u_t (up_cur p) = tArrayCount ->
  arr_counted p s a = UR p1 s1 rest d unilE -> Post p1 d.
Proof.
  intros p s a p1 s1 rest d He Hg Ht H. rewrite arr_counted_eq in H.
  assert (Hm : mid (up_cur p)) by (apply mid_t; rewrite Ht; discriminate).
  assert (Hb : base p) by apply Hg.
  destruct (u_s (up_cur p) =? sStart) eqn:E1.
  - apply (of_ul_post _ p s a p1 s1 rest d He Hg) with (3 := H); [unfold lenst; blia|reflexivity].
  - assert (Hc : clean p) by solve_clean Hg.
    destruct (u_s (up_cur p) =? sWithLen).
    + destruct (uvis s _) as [s2 e].
      eapply cnt_body_post; [| | | |exact H];
        [exact He|apply base_set_step; exact Hb|exact Hm|exact Hc].
    + eapply cnt_body_post; [| | | |exact H]; [exact He|exact Hb|exact Hm|exact Hc].
Qed.

(* ---------- typed containers: the header ---------- *)
Lemma ustep_type_ext : forall b p a cont, a <> [] ->
  extL b (ustep_type p a cont) (ustep_type p (a ++ b) cont).
Proof.
  intros b p [|m r] cont Ha; [congruence|]. cbn [app]. unfold ustep_type.
  destruct (marker_state m); [|apply extL_err; discriminate].
  destruct (m =? mN); [apply extL_err; discriminate|apply extL_same].
Qed.

Lemma header_steps_cases : forall p,
  ((u_s (up_cur p) =? sStart) || (u_s (up_cur p) =? sWithType0) || (u_s (up_cur p) =? sWithType1)) = true ->
  u_s (up_cur p) = sStart \/ u_s (up_cur p) = sWithType0 \/ u_s (up_cur p) = sWithType1.
Proof. intros p H. blia. Qed.

Lemma ustep_header_eq1 : forall p b, u_s (up_cur p) = sWithType1 ->
  ustep_header p b = ustep_len p b (with_step (up_cur p) sWithLen).
Proof. intros p b H. unfold ustep_header. rewrite H. reflexivity. Qed.

Definition istyped (p : uparser) : Prop :=
  u_t (up_cur p) = tArrayTyped \/ u_t (up_cur p) = tObjectTyped.

Lemma header_dich : forall b p s a,
  istyped p -> good p ->
  u_s (up_cur p) = sStart \/ u_s (up_cur p) = sWithType0 \/ u_s (up_cur p) = sWithType1 ->
  a <> [] -> b <> [] ->
  (forall q g s', up_cur q = up_cur p -> xbody0 (uexec g) q s' b = of_ul (ustep_header q b) s') ->
  Dich b (of_ul (ustep_header p a) s) (of_ul (ustep_header p (a ++ b)) s).
Proof.
  intros b p s a Ht Hg Hs Ha Hb0 Hx. destruct Hs as [Hs|[Hs|Hs]].
  - apply Dich_ext, ext_of_ul. unfold ustep_header. rewrite Hs.
    replace (sStart =? sStart) with true by reflexivity. cbv iota.
    apply ustep_type_ext. exact Ha.
  - apply Dich_ext, ext_of_ul. unfold ustep_header. rewrite Hs.
    replace (sWithType0 =? sStart) with false by reflexivity.
    replace (sWithType0 =? sWithType0) with true by reflexivity. cbv iota.
    destruct a as [|c r]; [congruence|]. cbn [app].
    destruct (negb (c =? mCount)); [apply extL_err; discriminate|apply extL_same].
  - rewrite !ustep_header_eq1 by exact Hs.
    assert (Hl : lenst p = true) by (destruct Ht as [Ht|Ht]; unfold lenst; blia).
    eapply of_ul_dich; [exact Hl| |].
    + apply ustep_len_dich; auto. apply good_len; assumption.
    + intros q g s' A B C. rewrite Hx by exact A.
      rewrite ustep_header_eq1 by (rewrite A; exact Hs). rewrite A. reflexivity.
Qed.

Lemma header_post : forall p s a p1 s1 rest d,
  up_err p = 0 -> istyped p -> good p ->
  u_s (up_cur p) = sStart \/ u_s (up_cur p) = sWithType0 \/ u_s (up_cur p) = sWithType1 ->
  of_ul (ustep_header p a) s = UR p1 s1 rest d unilE -> Post p1 d.
Proof.
  intros p s a p1 s1 rest d He Ht Hg Hs H.
  assert (Hb : base p) by apply Hg.
  destruct Hs as [Hs|[Hs|Hs]].
  - assert (Hc : clean p) by (destruct Ht as [Ht|Ht]; solve_clean Hg).
    unfold ustep_header in H. rewrite Hs in H.
    replace (sStart =? sStart) with true in H by reflexivity. cbv iota in H.
    unfold ustep_type in H. destruct a as [|m r]; [discriminate|].
    destruct (marker_state m) as [st|] eqn:Em; [|discriminate].
    destruct (m =? mN); [discriminate|]. cbn [of_ul] in H. invSR H. split; [|discriminate].
    apply Inv_clean; [exact He| |exact Hc].
    destruct Hb as (H1 & H2 & H3). unfold base. pc. split; [|split].
    + eapply stk_same_t; [|exact H1]. reflexivity.
    + destruct (marker_state_mid _ _ Em) as [M _]. exact M.
    + destruct (u_t (up_vcur p) =? tFail); [exact H3|constructor; assumption].
  - assert (Hc : clean p) by (destruct Ht as [Ht|Ht]; solve_clean Hg).
    unfold ustep_header in H. rewrite Hs in H.
    replace (sWithType0 =? sStart) with false in H by reflexivity.
    replace (sWithType0 =? sWithType0) with true in H by reflexivity. cbv iota in H.
    destruct a as [|c r]; [discriminate|].
    destruct (negb (c =? mCount)); [discriminate|]. cbn [of_ul] in H. invSR H. split; [|discriminate].
    apply Inv_clean; [exact He| |exact Hc].
    apply (base_set_step p sWithType1 Hb).
  - rewrite ustep_header_eq1 in H by exact Hs.
    apply (of_ul_post _ p s a p1 s1 rest d He Hg) with (3 := H); [|reflexivity].
    destruct Ht as [Ht|Ht]; unfold lenst; blia.
Qed.

(* pushing the element state of a typed container *)
Lemma Inv_push_vcur : forall q, up_err q = 0 -> base q -> clean q -> Inv (u_push q (up_vcur q)).
Proof.
  intros q He Hb Hc.
  destruct (Z.eq_dec (u_t (up_vcur q)) tFail) as [E|E].
  - split; [exact He|left]. pc. exact E.
  - apply Inv_clean; [exact He| |exact Hc]. apply base_push; [exact Hb|].
    split; [apply Hb|exact E].
Qed.

(* ---------- stArrayTyped ---------- *)
Definition typ_body (rec : uparser -> sink -> bytes -> ures)
    (p1 : uparser) (s1 : sink) (e0 : Z) (l : Z) (b : bytes) : ures :=
  if negb (unil e0) then UR p1 s1 b false e0
  else if l =? 0 then
    let '(s2, e) := uvis s1 EArrEnd in
    if unil e then let '(p2, d) := upop_len_state (v_pop p1) in UR p2 s2 b d unilE else UR p1 s2 b true e
  else
    let p2 := uset_lcur p1 (up_lcur p1 - 1) in
    value_nodone (rec (u_push p2 (up_vcur p2)) s1 b).
Lemma arr_typed_eq : forall rec p s b,
  arr_typed rec p s b =
    if (u_s (up_cur p) =? sStart) || (u_s (up_cur p) =? sWithType0) || (u_s (up_cur p) =? sWithType1)
    then of_ul (ustep_header p b) s
    else
      let '(p1, s1, e0) :=
        if u_s (up_cur p) =? sWithLen
        then let '(s1, e) := uvis s (EArrStart (up_lcur p) (up_vtype p)) in (uset_step p sCont, s1, e)
        else (p, s, unilE) in
      typ_body rec p1 s1 e0 (up_lcur p) b.
Proof. reflexivity. Qed.

Definition DichAt (f : nat) : Prop := forall p s a b,
  Inv p -> a <> [] \/ cstep p = true -> b <> [] ->
  Dich b (uexec f p s a) (uexec f p s (a ++ b)).
Definition PostAt (f : nat) : Prop := forall p s a p1 s1 rest d,
  Inv p -> uexec f p s a = UR p1 s1 rest d unilE -> Post p1 d.

Lemma typ_body_dich : forall f b p1 s1 e0 l a,
  DichAt f -> up_err p1 = 0 -> base p1 -> clean p1 -> b <> [] ->
  a <> [] \/ l = 0 \/ is_zero_sized (up_vcur p1) = true ->
  Dich b (typ_body (uexec f) p1 s1 e0 l a) (typ_body (uexec f) p1 s1 e0 l (a ++ b)).
Proof.
  intros f b p1 s1 e0 l a IH He Hb Hc Hb0 Ha. unfold typ_body.
  destruct (negb (unil e0)) eqn:E0.
  { apply Dich_ext, ext_err. apply unil_false. apply negb_true_iff. exact E0. }
  destruct (l =? 0) eqn:El.
  { apply Dich_ext. repeat (first [ ext_solve | bm ]). }
  cbv zeta. pc. apply Dich_nodone. apply IH.
  - apply (Inv_push_vcur (uset_lcur p1 (up_lcur p1 - 1))); assumption.
  - destruct Ha as [Ha|[Ha|Ha]]; [left; exact Ha|lia|right].
    unfold cstep, can_step_without_input. pc.
    assert (Hf : u_t (up_vcur p1) = tFixed) by (unfold is_zero_sized in Ha; blia).
    rewrite Hf. exact Ha.
  - exact Hb0.
Qed.

Lemma typ_body_post : forall f p1 s1 e0 l a p2 s2 rest d,
  PostAt f -> up_err p1 = 0 -> base p1 -> mid (up_cur p1) -> clean p1 ->
  typ_body (uexec f) p1 s1 e0 l a = UR p2 s2 rest d unilE -> Post p2 d.
Proof.
  intros f p1 s1 e0 l a p2 s2 rest d IH He Hb Hm Hc H. unfold typ_body in H.
  destruct (negb (unil e0)) eqn:E0.
  { invSR H. discriminate. }
  destruct (l =? 0).
  { destruct (uvis s1 EArrEnd) as [s3 e]. destruct (unil e) eqn:Ee.
    - destruct (upop_len_state (v_pop p1)) as [q dq] eqn:Ep. invSR H.
      destruct (v_pop_proj p1) as (A & _ & _ & _ & _ & _ & G).
      eapply upop_len_state_post; [| | | |exact Ep].
      + congruence.
      + apply base_v_pop; exact Hb.
      + rewrite A; exact Hm.
      + apply clean_v_pop; exact Hc.
    - invSR H. discriminate. }
  cbv zeta in H. pc.
  destruct (uexec f _ s1 a) as [q sq rq dq eq|c] eqn:E; [|discriminate].
  cbn [value_nodone] in H. invSR H. split; [|discriminate].
  eapply IH; [|exact E].
  apply (Inv_push_vcur (uset_lcur p1 (up_lcur p1 - 1))); assumption.
Qed.

Lemma cstep_arrtyped : forall p, u_t (up_cur p) = tArrayTyped -> cstep p = true ->
  (u_s (up_cur p) = sWithLen \/ u_s (up_cur p) = sCont) /\
  (up_lcur p = 0 \/ is_zero_sized (up_vcur p) = true).
Proof.
  intros p Ht H. unfold cstep, can_step_without_input in H. rewrite Ht in H.
  change (tArrayTyped =? tFixed) with false in H.
  change (tArrayTyped =? tArrayCount) with false in H.
  change (tArrayTyped =? tArrayTyped) with true in H. cbv iota in H.
  apply andb_true_iff in H. destruct H as [H1 H2]. apply orb_true_iff in H2.
  split; [blia|]. destruct H2 as [H2|H2]; [left; lia|right; exact H2].
Qed.

Lemma arr_typed_dich : forall f b p s a,
  DichAt f -> up_err p = 0 -> u_t (up_cur p) = tArrayTyped -> good p ->
  a <> [] \/ cstep p = true -> b <> [] ->
  Dich b (arr_typed (uexec f) p s a) (arr_typed (uexec f) p s (a ++ b)).
Proof.
  intros f b p s a IH He Ht Hg Ha Hb0. rewrite !arr_typed_eq.
  assert (Hb : base p) by apply Hg.
  destruct ((u_s (up_cur p) =? sStart) || (u_s (up_cur p) =? sWithType0) || (u_s (up_cur p) =? sWithType1)) eqn:E1.
  - pose proof (header_steps_cases p E1) as Hs.
    assert (Ha' : a <> []).
    { destruct Ha as [Ha|Ha]; [exact Ha|]. apply cstep_arrtyped in Ha; [|exact Ht]. blia. }
    apply header_dich; auto; [left; exact Ht|].
    intros q g s' A. rewrite xb_arrtyped by congruence. rewrite arr_typed_eq, A, E1. reflexivity.
  - assert (Hc : clean p) by solve_clean Hg.
    assert (Ha' : a <> [] \/ up_lcur p = 0 \/ is_zero_sized (up_vcur p) = true).
    { destruct Ha as [Ha|Ha]; [left; exact Ha|right]. apply cstep_arrtyped in Ha; tauto. }
    destruct (u_s (up_cur p) =? sWithLen).
    + destruct (uvis s _) as [s1 e]. apply typ_body_dich; auto;
        try (apply base_set_step; exact Hb).
    + apply typ_body_dich; auto.
Qed.

Lemma arr_typed_post : forall f p s a p1 s1 rest d,
  PostAt f -> up_err p = 0 -> good p -> u_t (up_cur p) = tArrayTyped ->
  arr_typed (uexec f) p s a = UR p1 s1 rest d unilE -> Post p1 d.
Proof.
  intros f p s a p1 s1 rest d IH He Hg Ht H. rewrite arr_typed_eq in H.
  assert (Hm : mid (up_cur p)) by (apply mid_t; rewrite Ht; discriminate).
  assert (Hb : base p) by apply Hg.
  destruct ((u_s (up_cur p) =? sStart) || (u_s (up_cur p) =? sWithType0) || (u_s (up_cur p) =? sWithType1)) eqn:E1.
  - pose proof (header_steps_cases p E1) as Hs.
    eapply header_post; [exact He|left; exact Ht|exact Hg|exact Hs|exact H].
  - assert (Hc : clean p) by solve_clean Hg.
    destruct (u_s (up_cur p) =? sWithLen).
    + destruct (uvis s _) as [s2 e].
      eapply typ_body_post; [exact IH| | | | |exact H];
        [exact He|apply base_set_step; exact Hb|exact Hm|exact Hc].
    + eapply typ_body_post; [exact IH| | | | |exact H]; [exact He|exact Hb|exact Hm|exact Hc].
Qed.

(* ---------- stObjectDyn ---------- *)
Lemma cstep_objdyn : forall p, u_t (up_cur p) = tObjectDyn ->
  cstep p = (u_s (up_cur p) =? sFieldNameLen) && (up_lcur p =? 0).
Proof. intros p H. unfold cstep, can_step_without_input. rewrite H. reflexivity. Qed.

Lemma obj_dyn_emptykey_ext : forall b p s a,
  ext b (obj_dyn_emptykey p s a) (obj_dyn_emptykey p s (a ++ b)).
Proof. intros. unfold obj_dyn_emptykey. repeat (first [ ext_solve | bm ]). Qed.

Lemma lenst_objdyn : forall p, u_t (up_cur p) = tObjectDyn ->
  lenst p = (u_s (up_cur p) =? sStart).
Proof. intros p H. unfold lenst. blia. Qed.
Lemma count_of_objdyn_key : forall p, u_t (up_cur p) = tObjectDyn ->
  u_s (up_cur p) = sFieldNameLen -> count_of p = up_lcur p.
Proof.
  intros p H Hs. unfold count_of. rewrite (lenst_objdyn p H), H, Hs. reflexivity.
Qed.

Lemma base_key_done : forall p, base p -> base (uset_step (ul_pop p) sCont).
Proof. intros p H. apply base_set_step. apply base_ul_pop. exact H. Qed.
Lemma clean_key_done : forall p, clean p -> clean (uset_step (ul_pop p) sCont).
Proof. intros p H. apply (clean_ul_pop p H). Qed.
Lemma err_key_done : forall p, up_err (uset_step (ul_pop p) sCont) = up_err p.
Proof. intros p. pc. apply ul_pop_proj. Qed.

Lemma obj_dyn_emptykey_post : forall p s a p1 s1 rest d,
  up_err p = 0 -> good p -> u_t (up_cur p) = tObjectDyn ->
  u_s (up_cur p) = sFieldNameLen -> up_lcur p = 0 ->
  obj_dyn_emptykey p s a = UR p1 s1 rest d unilE -> Post p1 d.
Proof.
  intros p s a p1 s1 rest d He Hg Ht Hs Hl H. unfold obj_dyn_emptykey in H.
  assert (Hc : clean p).
  { apply good_clean; [exact Hg| |].
    - rewrite lenst_objdyn, Hs by exact Ht. reflexivity.
    - rewrite count_of_objdyn_key by assumption. exact Hl. }
  destruct (uvis s _) as [s2 e]. invSR H. split; [|discriminate].
  apply Inv_clean.
  - rewrite err_key_done. exact He.
  - apply base_key_done. apply Hg.
  - apply clean_key_done. exact Hc.
Qed.

Lemma obj_dyn_dich : forall b p s a,
  u_t (up_cur p) = tObjectDyn -> good p ->
  (u_s (up_cur p) =? sFieldNameLen) && (up_lcur p =? 0) = false ->
  a <> [] -> b <> [] ->
  Dich b (obj_dyn p s a) (obj_dyn p s (a ++ b)).
Proof.
  intros b p s a Ht Hg Hk Ha Hb0. destruct a as [|x r]; [congruence|].
  unfold obj_dyn at 1 2. cbn [app].
  destruct ((u_s (up_cur p) =? sStart) && (up_marker p =? 0) && (x =? mObjE)) eqn:C1.
  { apply Dich_ext. repeat (first [ ext_solve | bm ]). }
  destruct (u_s (up_cur p) =? sStart) eqn:C2.
  { change (x :: r ++ b) with ((x :: r) ++ b).
    assert (Hl : lenst p = true) by (rewrite lenst_objdyn by exact Ht; exact C2).
    eapply of_ul_dich; [exact Hl| |].
    - apply ustep_len_dich; [apply good_len; assumption|discriminate|exact Hb0].
    - intros q g s' A B C. rewrite xb_objdyn by congruence. rewrite A, B, Hk.
      destruct b as [|y br]; [congruence|]. unfold obj_dyn. rewrite A, C2.
      replace (up_marker q =? 0) with false by lia. reflexivity. }
  destruct (u_s (up_cur p) =? sFieldNameLen) eqn:C3.
  { apply Z.eqb_eq in C3.
    assert (Hbuf : bufok p (up_lcur p)).
    { destruct (good_nolen p Hg) as [_ Hbuf]; [rewrite lenst_objdyn by exact Ht; exact C2|].
      rewrite count_of_objdyn_key in Hbuf by assumption. exact Hbuf. }
    destruct (ucollect p (x :: r) (up_lcur p)) as [p1 rest [t|]|] eqn:E; [..|exact I].
    - apply Dich_ext. destruct (collect_some_app p (x :: r) b _ _ _ _ Hbuf E) as [E2 _].
      cbn [app] in E2. rewrite E2. destruct (uvis s _) as [s1 e].
      destruct (unil e) eqn:Ee; [apply unil_true in Ee; subst e; apply ext_same|].
      apply ext_err. apply unil_false. exact Ee.
    - destruct (collect_none_app p (x :: r) b _ _ _ Hbuf E) as (-> & -> & Hb1 & _ & E2).
      right. split; [reflexivity|]. split; [reflexivity|]. split.
      + rewrite cstep_objdyn by exact Ht. pc. rewrite C3.
        replace (sFieldNameLen =? sFieldNameLen) with true by reflexivity. exact Hk.
      + intros g. rewrite uexec_S, xb_objdyn by exact Ht. apply ext_latch_l. pc. rewrite C3.
        replace (sFieldNameLen =? sFieldNameLen) with true by reflexivity. rewrite Hk.
        destruct b as [|y br]; [congruence|]. unfold obj_dyn. pc. rewrite C3.
        replace (sFieldNameLen =? sStart) with false by reflexivity. cbn [andb].
        replace (sFieldNameLen =? sFieldNameLen) with true by reflexivity.
        rewrite E2. cbn [app]. apply ext_refl. }
  destruct (u_s (up_cur p) =? sCont) eqn:C4.
  { apply Dich_ext. destruct (x =? mN); [ext_solve|].
    apply ext_nodone. apply (ustep_value_ext b _ s (x :: r)). discriminate. }
  apply Dich_ext. apply (ext_same b p s (x :: r)).
Qed.

Lemma obj_dyn_post : forall p s a p1 s1 rest d,
  up_err p = 0 -> good p -> u_t (up_cur p) = tObjectDyn ->
  obj_dyn p s a = UR p1 s1 rest d unilE -> Post p1 d.
Proof.
  intros p s a p1 s1 rest d He Hg Ht H.
  assert (Hm : mid (up_cur p)) by (apply mid_t; rewrite Ht; discriminate).
  assert (Hb : base p) by apply Hg.
  assert (HI : Inv p) by (split; [exact He|right; exact Hg]).
  unfold obj_dyn in H. destruct a as [|x r]; [discriminate|].
  destruct ((u_s (up_cur p) =? sStart) && (up_marker p =? 0) && (x =? mObjE)) eqn:C1.
  { apply andb_true_iff in C1. destruct C1 as [C1 _]. apply andb_true_iff in C1.
    destruct C1 as [C1 C1']. apply Z.eqb_eq in C1'.
    assert (Hl : lenst p = true) by (rewrite lenst_objdyn by exact Ht; exact C1).
    pose proof (good_len p Hg Hl) as Hbuf. rewrite C1' in Hbuf. apply bufok_0 in Hbuf.
    destruct (uvis s EObjEnd) as [s2 e]. destruct (unil e) eqn:Ee.
    - destruct (upop_state p) as [q dq] eqn:Ep. invSR H.
      eapply upop_state_post; eauto. split; assumption.
    - invSR H. discriminate. }
  destruct (u_s (up_cur p) =? sStart) eqn:C2.
  { apply (of_ul_post _ p s (x :: r) p1 s1 rest d He Hg) with (3 := H); [|reflexivity].
    rewrite lenst_objdyn by exact Ht. exact C2. }
  destruct (good_nolen p Hg) as [Hmk Hbuf]; [rewrite lenst_objdyn by exact Ht; exact C2|].
  destruct (u_s (up_cur p) =? sFieldNameLen) eqn:C3.
  { apply Z.eqb_eq in C3. rewrite count_of_objdyn_key in Hbuf by assumption.
    destruct (ucollect p (x :: r) (up_lcur p)) as [q rest1 [t|]|] eqn:E; [..|discriminate].
    - destruct (collect_some_app p (x :: r) [] _ _ _ _ Hbuf E) as [_ ->].
      destruct (uvis s _) as [s2 e]. invSR H. split; [|discriminate].
      apply Inv_clean.
      + rewrite err_key_done. exact He.
      + apply base_key_done. exact Hb.
      + apply clean_key_done. split; pc; auto.
    - destruct (collect_none_app p (x :: r) [] _ _ _ Hbuf E) as (-> & -> & Hb1 & _ & _).
      invSR H. split; [|discriminate].
      split; [exact He|right]. split; [exact Hb|]. split.
      + change (count_of (uset_buf p (up_buf p ++ x :: r))) with (count_of p).
        rewrite count_of_objdyn_key by assumption. exact Hb1.
      + intros _. exact Hmk. }
  assert (Hc : clean p).
  { split; [|exact Hmk]. apply bufok_0.
    replace (count_of p) with 0 in Hbuf; [exact Hbuf|].
    unfold count_of. rewrite lenst_objdyn, C2, Ht, C3 by exact Ht. reflexivity. }
  destruct (u_s (up_cur p) =? sCont) eqn:C4.
  { destruct (x =? mN).
    - invSR H. split; [exact HI|discriminate].
    - eapply value_nodone_post; [| | |exact H]; auto; try (apply base_set_step; exact Hb). }
  invSR H. split; [exact HI|discriminate].
Qed.

(* ---------- stObjectCount / stObjectTyped ---------- *)
Definition oc_close (fin : bool) (p : uparser) (s : sink) (rest : bytes) (err : Z) : ocres :=
  if fin then let '(s1, e) := uvis s EObjEnd in OC true p s1 rest e else OC false p s rest err.
Definition oc_len (s : sink) (r : ulres) : ocres :=
  match r with
  | ULC w => OCC w
  | UL p1 rest err => oc_close false p1 s rest err
  end.
Definition oc_field_name (p : uparser) (s : sink) (b : bytes) : ocres :=
  if up_lcur p =? 0 then oc_close true p s b unilE
  else oc_len s (ustep_len p b (with_step (up_cur p) sFieldNameLen)).
Definition oc_key (p : uparser) (s : sink) (b : bytes) : ocres :=
  match (if up_lcur p =? 0 then UC p b (Some []) else ucollect p b (up_lcur p)) with
  | UCC => OCC 12
  | UC p1 rest None => oc_close false p1 s rest unilE
  | UC p1 rest (Some tmp) =>
      let p2 := ul_pop p1 in
      let '(s1, e) := uvis s (EKeyRef tmp) in
      oc_close false (uset_step p2 sCont) s1 rest e
  end.
Definition oc_cont (p : uparser) (s : sink) (b : bytes) (typed : bool) : ocres :=
  match b with
  | [] =>
      if typed then
        let p1 := uset_step (uset_lcur p (up_lcur p - 1)) sFieldName in
        oc_close false (u_push p1 (up_vcur p1)) s b unilE
      else OCC 13
  | x :: r =>
      if negb typed && (x =? mN) then oc_close false p s r unilE
      else
        let p1 := uset_step (uset_lcur p (up_lcur p - 1)) sFieldName in
        if typed then oc_close false (u_push p1 (up_vcur p1)) s b unilE
        else match value_nodone (ustep_value p1 s b) with
             | UCrash w => OCC w
             | UR p2 s2 rest _ err => oc_close false p2 s2 rest err
             end
  end.
Definition oc_withlen (p : uparser) (s : sink) (b : bytes) : ocres :=
  let L := up_lcur p in
  let '(s1, e) := uvis s (EObjStart L BAny) in
  if negb (unil e) then OC false p s1 b e
  else if L =? 0 then oc_close true p s1 b unilE
  else oc_field_name (uset_step p sFieldName) s1 b.

Lemma obj_content_eq : forall p s b typed,
  ustep_obj_content p s b typed =
    let step := u_s (up_cur p) in
    if step =? sWithLen then oc_withlen p s b
    else if step =? sFieldName then oc_field_name p s b
    else if step =? sFieldNameLen then oc_key p s b
    else if step =? sCont then oc_cont p s b typed
    else oc_close false p s b unilE.
Proof. reflexivity. Qed.

Definition obj_wrap (typed : bool) (r : ocres) : ures :=
  match r with
  | OCC w => UCrash w
  | OC fin p1 s1 rest err =>
      if fin && unil err
      then let '(p2, d) := upop_len_state (if typed then v_pop p1 else p1) in UR p2 s1 rest d unilE
      else UR p1 s1 rest fin err
  end.
Lemma obj_counted_eq : forall p s b,
  obj_counted p s b =
    if u_s (up_cur p) =? sStart then of_ul (ustep_len p b (with_step (up_cur p) sWithLen)) s
    else obj_wrap false (ustep_obj_content p s b false).
Proof. reflexivity. Qed.
Lemma obj_typed_eq : forall p s b,
  obj_typed p s b =
    if (u_s (up_cur p) =? sStart) || (u_s (up_cur p) =? sWithType0) || (u_s (up_cur p) =? sWithType1)
    then of_ul (ustep_header p b) s
    else obj_wrap true (ustep_obj_content p s b true).
Proof. reflexivity. Qed.

Lemma wrap_ext : forall typed b r w, extO b r w -> ext b (obj_wrap typed r) (obj_wrap typed w).
Proof.
  intros typed b [f1 p1 s1 rest e|c] [f2 p2 s2 rest' e'|c'] H; cbn [extO obj_wrap] in *;
    try tauto; try exact I.
  destruct H as (<- & <- & H). destruct (unil e) eqn:Ee.
  - apply unil_true in Ee. destruct (H Ee) as (<- & <- & ->).
    destruct (f1 && true); [|apply ext_same].
    destruct (upop_len_state _) as [q dq]. apply ext_same.
  - rewrite !andb_false_r. apply ext_err. apply unil_false. exact Ee.
Qed.

Lemma oc_close_ext : forall b fin p s rest e,
  extO b (oc_close fin p s rest e) (oc_close fin p s (rest ++ b) e).
Proof.
  intros. unfold oc_close. destruct fin; [|apply extO_same].
  destruct (uvis s EObjEnd) as [s1 e1]. apply extO_same.
Qed.
Lemma oc_len_ext : forall b s x w, extL b x w -> extO b (oc_len s x) (oc_len s w).
Proof.
  intros b s [p1 rest e|c] [p2 rest' e'|c'] H; cbn [extL oc_len oc_close extO] in *;
    try tauto; try exact I.
Qed.

Definition objc (p : uparser) (typed : bool) : Prop :=
  (u_t (up_cur p) = tObjectCount /\ typed = false) \/ (u_t (up_cur p) = tObjectTyped /\ typed = true).
Lemma objc_mid : forall p typed, objc p typed -> mid (up_cur p).
Proof. intros p typed [[H _]|[H _]]; apply mid_t; rewrite H; discriminate. Qed.

Lemma xb_content : forall typed rec q s b, objc q typed ->
  u_s (up_cur q) = sFieldName \/ u_s (up_cur q) = sFieldNameLen ->
  xbody0 rec q s b = obj_wrap typed (ustep_obj_content q s b typed).
Proof.
  intros typed rec q s b [[Ht ->]|[Ht ->]] Hs.
  - rewrite xb_objcount by exact Ht. rewrite obj_counted_eq.
    replace (u_s (up_cur q) =? sStart) with false by blia. reflexivity.
  - rewrite xb_objtyped by exact Ht. rewrite obj_typed_eq.
    replace ((u_s (up_cur q) =? sStart) || (u_s (up_cur q) =? sWithType0) || (u_s (up_cur q) =? sWithType1))
      with false by blia. reflexivity.
Qed.

Lemma lenst_objc_fn : forall p typed, objc p typed -> u_s (up_cur p) = sFieldName ->
  lenst p = negb (up_lcur p =? 0).
Proof. intros p typed [[Ht _]|[Ht _]] Hs; unfold lenst; blia. Qed.
Lemma lenst_objc_other : forall p typed, objc p typed ->
  u_s (up_cur p) = sWithLen \/ u_s (up_cur p) = sFieldNameLen \/ u_s (up_cur p) = sCont \/
  (u_s (up_cur p) <> sStart /\ (typed = true -> u_s (up_cur p) <> sWithType1) /\
   u_s (up_cur p) <> sFieldName) ->
  lenst p = false.
Proof.
  intros p typed [[Ht Hty]|[Ht Hty]] Hs; unfold lenst.
  - blia.
  - assert (u_s (up_cur p) = sWithLen \/ u_s (up_cur p) = sFieldNameLen \/ u_s (up_cur p) = sCont \/
            (u_s (up_cur p) <> sStart /\ u_s (up_cur p) <> sWithType1 /\ u_s (up_cur p) <> sFieldName))
      by (destruct Hs as [Hs|[Hs|[Hs|(H1 & H2 & H3)]]];
          [auto|auto|auto 6|right; right; right; split; [exact H1|split; [exact (H2 Hty)|exact H3]]]).
    blia.
Qed.
Lemma count_of_objc_key : forall p typed, objc p typed -> u_s (up_cur p) = sFieldNameLen ->
  count_of p = up_lcur p.
Proof.
  intros p typed Ho Hs. unfold count_of. rewrite (lenst_objc_other p typed Ho) by auto.
  destruct Ho as [[Ht _]|[Ht _]]; rewrite Ht, Hs; reflexivity.
Qed.
Lemma count_of_objc_0 : forall p typed, objc p typed -> lenst p = false ->
  u_s (up_cur p) <> sFieldNameLen -> count_of p = 0.
Proof.
  intros p typed Ho Hl Hs. unfold count_of. rewrite Hl.
  destruct Ho as [[Ht _]|[Ht _]]; rewrite Ht; ifs; reflexivity.
Qed.
Lemma cstep_objc_key : forall p typed, objc p typed ->
  u_s (up_cur p) = sFieldName \/ u_s (up_cur p) = sFieldNameLen -> up_lcur p <> 0 -> cstep p = false.
Proof.
  intros p typed [[Ht _]|[Ht _]] Hs Hl; unfold cstep, can_step_without_input; rewrite Ht.
  - change (tObjectCount =? tFixed) with false. change (tObjectCount =? tArrayCount) with false.
    change (tObjectCount =? tArrayTyped) with false. change (tObjectCount =? tObjectDyn) with false.
    change (tObjectCount =? tObjectCount) with true. cbv iota. blia.
  - change (tObjectTyped =? tFixed) with false. change (tObjectTyped =? tArrayCount) with false.
    change (tObjectTyped =? tArrayTyped) with false. change (tObjectTyped =? tObjectDyn) with false.
    change (tObjectTyped =? tObjectCount) with false.
    change (tObjectTyped =? tObjectTyped) with true. cbv iota. blia.
Qed.

Lemma oc_field_name_dich : forall typed b q s a,
  objc q typed -> u_s (up_cur q) = sFieldName -> bufok q (markcount (up_marker q)) ->
  a <> [] \/ up_lcur q = 0 -> b <> [] ->
  Dich b (obj_wrap typed (oc_field_name q s a)) (obj_wrap typed (oc_field_name q s (a ++ b))).
Proof.
  intros typed b q s a Ho Hs Hbuf Ha Hb0. unfold oc_field_name.
  destruct (up_lcur q =? 0) eqn:El.
  { apply Dich_ext, wrap_ext, oc_close_ext. }
  assert (Ha' : a <> []) by (destruct Ha as [Ha|Ha]; [exact Ha|lia]).
  set (cont := with_step (up_cur q) sFieldNameLen).
  pose proof (ustep_len_dich cont q a b Hbuf Ha' Hb0) as D.
  destruct (ustep_len q a cont) as [p1 rest e|c] eqn:EL; [|exact I].
  cbn [LDich] in D. destruct D as [D|(D1 & D2 & D3 & D4 & D5 & D6)].
  - apply Dich_ext, wrap_ext. apply (oc_len_ext b s (UL p1 rest e) _ D).
  - subst rest e. cbn [oc_len oc_close obj_wrap andb].
    right. split; [reflexivity|]. split; [reflexivity|].
    assert (Ho1 : objc p1 typed) by (unfold objc in *; rewrite D4; exact Ho).
    assert (Hs1 : u_s (up_cur p1) = sFieldName) by (rewrite D4; exact Hs).
    split.
    + eapply cstep_objc_key; [exact Ho1|left; exact Hs1|lia].
    + intros g. rewrite uexec_S, (xb_content typed) by auto. apply ext_latch_l.
      apply wrap_ext. rewrite obj_content_eq. cbv zeta. rewrite Hs1.
      replace (sFieldName =? sWithLen) with false by reflexivity.
      replace (sFieldName =? sFieldName) with true by reflexivity. cbv iota.
      unfold oc_field_name. rewrite D5, El, D4. fold cont.
      apply (oc_len_ext [] s _ _ D6).
Qed.

Lemma oc_key_dich : forall typed b p s a,
  objc p typed -> u_s (up_cur p) = sFieldNameLen -> bufok p (up_lcur p) -> b <> [] ->
  Dich b (obj_wrap typed (oc_key p s a)) (obj_wrap typed (oc_key p s (a ++ b))).
Proof.
  intros typed b p s a Ho Hs Hbuf Hb0. unfold oc_key at 1.
  destruct (up_lcur p =? 0) eqn:El.
  { apply Dich_ext, wrap_ext. unfold oc_key. rewrite El.
    destruct (uvis s _) as [s1 e]. apply oc_close_ext. }
  destruct (ucollect p a (up_lcur p)) as [p1 rest [t|]|] eqn:E; [..|exact I].
  - apply Dich_ext, wrap_ext. destruct (collect_some_app p a b _ _ _ _ Hbuf E) as [E2 _].
    unfold oc_key. rewrite El, E2. destruct (uvis s _) as [s1 e]. apply oc_close_ext.
  - destruct (collect_none_app p a b _ _ _ Hbuf E) as (-> & -> & Hb1 & _ & E2).
    cbn [oc_close obj_wrap andb]. right. split; [reflexivity|]. split; [reflexivity|]. split.
    + eapply cstep_objc_key; [exact Ho|right; exact Hs|pc; lia].
    + intros g. rewrite uexec_S, (xb_content typed) by auto. apply ext_latch_l.
      apply wrap_ext. rewrite obj_content_eq. cbv zeta. pc. rewrite Hs.
      replace (sFieldNameLen =? sWithLen) with false by reflexivity.
      replace (sFieldNameLen =? sFieldName) with false by reflexivity.
      replace (sFieldNameLen =? sFieldNameLen) with true by reflexivity. cbv iota.
      unfold oc_key. pc. rewrite El, E2. apply extO_refl.
Qed.

Lemma oc_cont_ext : forall typed b p s a, a <> [] \/ typed = true -> b <> [] ->
  extO b (oc_cont p s a typed) (oc_cont p s (a ++ b) typed).
Proof.
  intros typed b p s a Ha Hb0. destruct a as [|x r].
  - destruct Ha as [Ha|Hty]; [congruence|subst typed]. cbn [app].
    destruct b as [|y br]; [congruence|]. unfold oc_cont. cbn [negb andb].
    apply (oc_close_ext (y :: br) false _ s []).
  - cbn [app]. unfold oc_cont.
    destruct (negb typed && (x =? mN)); [apply oc_close_ext|].
    destruct typed; [apply (oc_close_ext b false _ s (x :: r))|].
    pose proof (ustep_value_ext b (uset_step (uset_lcur p (up_lcur p - 1)) sFieldName) s (x :: r)) as V.
    cbn [app] in V.
    destruct (ustep_value _ s (x :: r)) as [p2 s2 rest d e|c]; cbn [value_nodone]; [|exact I].
    destruct (ustep_value _ s (x :: r ++ b)) as [p3 s3 rest3 d3 e3|c3]; cbn [value_nodone ext] in *;
      [|apply V; discriminate].
    destruct V as (<- & <- & V); [discriminate|]. cbn [oc_close extO].
    split; [reflexivity|]. split; [reflexivity|]. intros Ee. destruct (V Ee) as [<- ->]. auto.
Qed.

Lemma cstep_objc_true : forall p typed, objc p typed -> cstep p = true ->
  (typed = true /\ u_s (up_cur p) = sCont) \/
  ((u_s (up_cur p) = sWithLen \/ u_s (up_cur p) = sFieldName \/ u_s (up_cur p) = sFieldNameLen) /\
   up_lcur p = 0).
Proof.
  intros p typed [[Ht ->]|[Ht ->]] H; unfold cstep, can_step_without_input in H; rewrite Ht in H.
  - change (tObjectCount =? tFixed) with false in H. change (tObjectCount =? tArrayCount) with false in H.
    change (tObjectCount =? tArrayTyped) with false in H. change (tObjectCount =? tObjectDyn) with false in H.
    change (tObjectCount =? tObjectCount) with true in H. cbv iota in H. right. blia.
  - change (tObjectTyped =? tFixed) with false in H. change (tObjectTyped =? tArrayCount) with false in H.
    change (tObjectTyped =? tArrayTyped) with false in H. change (tObjectTyped =? tObjectDyn) with false in H.
    change (tObjectTyped =? tObjectCount) with false in H.
    change (tObjectTyped =? tObjectTyped) with true in H. cbv iota in H.
    apply orb_true_iff in H. destruct H as [H|H]; [left; split; [reflexivity|lia]|right; blia].
Qed.

(* not in the header *)
Definition in_content (p : uparser) (typed : bool) : Prop :=
  u_s (up_cur p) <> sStart /\
  (typed = true -> u_s (up_cur p) <> sWithType0 /\ u_s (up_cur p) <> sWithType1).

Lemma content_dich : forall typed b p s a,
  objc p typed -> in_content p typed -> good p -> a <> [] \/ cstep p = true -> b <> [] ->
  Dich b (obj_wrap typed (ustep_obj_content p s a typed))
         (obj_wrap typed (ustep_obj_content p s (a ++ b) typed)).
Proof.
  intros typed b p s a Ho (N1 & N2) Hg Ha Hb0. rewrite !obj_content_eq. cbv zeta.
  assert (Ha2 : a <> [] \/ (typed = true /\ u_s (up_cur p) = sCont) \/
     ((u_s (up_cur p) = sWithLen \/ u_s (up_cur p) = sFieldName \/ u_s (up_cur p) = sFieldNameLen) /\
      up_lcur p = 0)).
  { destruct Ha as [Ha|Ha]; [left; exact Ha|right]. eapply cstep_objc_true; eauto. }
  destruct (u_s (up_cur p) =? sWithLen) eqn:C1.
  { apply Z.eqb_eq in C1.
    assert (Hl : lenst p = false) by (apply (lenst_objc_other p typed Ho); auto).
    assert (Hc : clean p).
    { apply good_clean; [exact Hg|exact Hl|]. apply (count_of_objc_0 p typed Ho Hl). rewrite C1. discriminate. }
    unfold oc_withlen. destruct (uvis s _) as [s1 e].
    destruct (negb (unil e)) eqn:Ee.
    { apply Dich_ext, wrap_ext, extO_err. apply unil_false. apply negb_true_iff. exact Ee. }
    destruct (up_lcur p =? 0) eqn:El.
    { apply Dich_ext, wrap_ext, oc_close_ext. }
    apply oc_field_name_dich; [exact Ho|reflexivity|left; apply Hc| |exact Hb0].
    left. destruct Ha2 as [Ha2|[[_ Ha2]|[_ Ha2]]]; [exact Ha2| |]; pc; [rewrite C1 in Ha2; discriminate|lia]. }
  destruct (u_s (up_cur p) =? sFieldName) eqn:C2.
  { apply Z.eqb_eq in C2.
    assert (Hbuf : bufok p (markcount (up_marker p))).
    { destruct (lenst p) eqn:Hl; [apply good_len; assumption|].
      destruct (good_nolen p Hg Hl) as [Hm Hb]. rewrite Hm.
      rewrite (count_of_objc_0 p typed Ho Hl) in Hb by (rewrite C2; discriminate). exact Hb. }
    apply oc_field_name_dich; [exact Ho|exact C2|exact Hbuf| |exact Hb0].
    destruct Ha2 as [Ha2|[[_ Ha2]|[_ Ha2]]]; [left; exact Ha2| |right; exact Ha2].
    rewrite C2 in Ha2. discriminate. }
  destruct (u_s (up_cur p) =? sFieldNameLen) eqn:C3.
  { apply Z.eqb_eq in C3.
    assert (Hl : lenst p = false) by (apply (lenst_objc_other p typed Ho); auto).
    destruct (good_nolen p Hg Hl) as [Hm Hb].
    rewrite (count_of_objc_key p typed Ho C3) in Hb.
    apply oc_key_dich; auto. }
  destruct (u_s (up_cur p) =? sCont) eqn:C4.
  { apply Dich_ext, wrap_ext, oc_cont_ext; auto.
    destruct Ha2 as [Ha2|[[Ha2 _]|[Ha2 _]]]; [left; exact Ha2|right; exact Ha2|]. blia. }
  apply Dich_ext, wrap_ext, oc_close_ext.
Qed.

(* what stepObjectCountedContent leaves behind *)
Definition OPost (fin : bool) (p1 : uparser) : Prop :=
  (fin = true -> up_err p1 = 0 /\ base p1 /\ mid (up_cur p1) /\ clean p1) /\
  (fin = false -> Inv p1).

Lemma wrap_post : forall typed fin p1 s1 rest e p2 s2 rest' d,
  OPost fin p1 ->
  obj_wrap typed (OC fin p1 s1 rest e) = UR p2 s2 rest' d unilE -> Post p2 d.
Proof.
  intros typed fin p1 s1 rest e p2 s2 rest' d [O1 O2] H. cbn [obj_wrap] in H.
  destruct (fin && unil e) eqn:E.
  - apply andb_true_iff in E. destruct E as [-> _].
    destruct (O1 eq_refl) as (He & Hb & Hm & Hc).
    destruct (upop_len_state _) as [q dq] eqn:Ep. invSR H. destruct typed.
    + destruct (v_pop_proj p1) as (A & _ & _ & _ & _ & _ & G).
      eapply upop_len_state_post; [| | | |exact Ep].
      * congruence.
      * apply base_v_pop; exact Hb.
      * rewrite A; exact Hm.
      * apply clean_v_pop; exact Hc.
    + eapply upop_len_state_post; eauto.
  - invSR H. rewrite unil_nil, andb_true_r in E. subst d.
    split; [apply O2; reflexivity|discriminate].
Qed.

Lemma OPost_close_true : forall p s rest e fin p1 s1 rest',
  up_err p = 0 -> base p -> mid (up_cur p) -> clean p ->
  oc_close true p s rest e = OC fin p1 s1 rest' unilE -> OPost fin p1.
Proof.
  intros p s rest e fin p1 s1 rest' He Hb Hm Hc H. unfold oc_close in H.
  destruct (uvis s EObjEnd) as [s2 e2]. invSR H. split; [auto|discriminate].
Qed.
Lemma OPost_close_false : forall p s rest e fin p1 s1 rest',
  Inv p -> oc_close false p s rest e = OC fin p1 s1 rest' unilE -> OPost fin p1.
Proof.
  intros p s rest e fin p1 s1 rest' HI H. unfold oc_close in H. invSR H.
  split; [discriminate|auto].
Qed.

Lemma oc_field_name_post : forall typed q s a fin p1 s1 rest,
  objc q typed -> u_s (up_cur q) = sFieldName -> up_err q = 0 -> base q ->
  (up_lcur q = 0 -> clean q) -> bufok q (markcount (up_marker q)) ->
  oc_field_name q s a = OC fin p1 s1 rest unilE -> OPost fin p1.
Proof.
  intros typed q s a fin p1 s1 rest Ho Hs He Hb Hc Hbuf H. unfold oc_field_name in H.
  destruct (up_lcur q =? 0) eqn:El.
  { apply Z.eqb_eq in El. eapply OPost_close_true; [| | | |exact H]; auto.
    eapply objc_mid; eauto. }
  set (cont := with_step (up_cur q) sFieldNameLen) in *.
  destruct (ustep_len q a cont) as [q1 rest1 e|c] eqn:EL; [|discriminate].
  cbn [oc_len] in H. eapply OPost_close_false; [|exact H].
  assert (Ee : e = unilE) by (unfold oc_close in H; inversion H; reflexivity). subst e.
  pose proof (ustep_len_res cont q a q1 rest1 Hbuf EL) as LR.
  pose proof (base_len_res cont q q1 Hb LR eq_refl) as Hbq.
  destruct LR as (A & B & C & D & [(F & G & _ & K)|(F & G)]).
  - eapply Inv_len_partial; eauto.
    rewrite (lenst_objc_fn q typed Ho Hs), El. reflexivity.
  - apply Inv_clean; [congruence|exact Hbq|exact G].
Qed.

Lemma oc_key_post : forall typed p s a fin p1 s1 rest,
  objc p typed -> u_s (up_cur p) = sFieldNameLen -> up_err p = 0 -> base p ->
  up_marker p = 0 -> bufok p (up_lcur p) ->
  oc_key p s a = OC fin p1 s1 rest unilE -> OPost fin p1.
Proof.
  intros typed p s a fin p1 s1 rest Ho Hs He Hb Hm Hbuf H. unfold oc_key in H.
  assert (Hdone : forall q, up_err q = 0 -> base q -> clean q -> Inv (uset_step (ul_pop q) sCont)).
  { intros q E1 E2 E3. apply Inv_clean.
    - rewrite err_key_done. exact E1.
    - apply base_key_done. exact E2.
    - apply clean_key_done. exact E3. }
  destruct (up_lcur p =? 0) eqn:El.
  { apply Z.eqb_eq in El. rewrite El in Hbuf. apply bufok_0 in Hbuf.
    destruct (uvis s _) as [s2 e]. eapply OPost_close_false; [|exact H].
    apply Hdone; auto. split; assumption. }
  destruct (ucollect p a (up_lcur p)) as [q rest1 [t|]|] eqn:E; [..|discriminate].
  - destruct (collect_some_app p a [] _ _ _ _ Hbuf E) as [_ ->].
    destruct (uvis s _) as [s2 e]. eapply OPost_close_false; [|exact H].
    apply Hdone; pc; auto. split; pc; auto.
  - destruct (collect_none_app p a [] _ _ _ Hbuf E) as (-> & -> & Hb1 & _ & _).
    eapply OPost_close_false; [|exact H].
    split; [exact He|right]. split; [exact Hb|]. split.
    + change (count_of (uset_buf p (up_buf p ++ a))) with (count_of p).
      rewrite (count_of_objc_key p typed Ho Hs). exact Hb1.
    + intros _. exact Hm.
Qed.

Lemma oc_cont_post : forall typed p s a fin p1 s1 rest,
  up_err p = 0 -> base p -> clean p ->
  oc_cont p s a typed = OC fin p1 s1 rest unilE -> OPost fin p1.
Proof.
  intros typed p s a fin p1 s1 rest He Hb Hc H. unfold oc_cont in H.
  assert (HI : Inv p) by (apply Inv_clean; assumption).
  assert (Hb1 : base (uset_step (uset_lcur p (up_lcur p - 1)) sFieldName)).
  { apply base_set_step. exact Hb. }
  assert (Hpush : Inv (u_push (uset_step (uset_lcur p (up_lcur p - 1)) sFieldName)
                              (up_vcur (uset_step (uset_lcur p (up_lcur p - 1)) sFieldName)))).
  { apply Inv_push_vcur; auto. }
  destruct a as [|x r].
  - destruct typed; [|discriminate]. eapply OPost_close_false; [|exact H]. exact Hpush.
  - destruct (negb typed && (x =? mN)).
    { eapply OPost_close_false; [|exact H]. exact HI. }
    destruct typed.
    { eapply OPost_close_false; [|exact H]. exact Hpush. }
    destruct (ustep_value _ s (x :: r)) as [p2 s2 rest2 d2 e2|c] eqn:E; cbn [value_nodone] in H;
      [|discriminate].
    eapply OPost_close_false; [|exact H].
    assert (Ee : e2 = unilE) by (unfold oc_close in H; inversion H; reflexivity). subst e2.
    eapply ustep_value_post; [| | |exact E]; auto.
Qed.

Lemma content_post : forall typed p s a fin p1 s1 rest,
  objc p typed -> in_content p typed -> up_err p = 0 -> good p ->
  ustep_obj_content p s a typed = OC fin p1 s1 rest unilE -> OPost fin p1.
Proof.
  intros typed p s a fin p1 s1 rest Ho (N1 & N2) He Hg H.
  rewrite obj_content_eq in H. cbv zeta in H.
  assert (Hb : base p) by apply Hg.
  assert (HI : Inv p) by (split; [exact He|right; exact Hg]).
  pose proof (objc_mid p typed Ho) as Hmid.
  destruct (u_s (up_cur p) =? sWithLen) eqn:C1.
  { apply Z.eqb_eq in C1.
    assert (Hl : lenst p = false) by (apply (lenst_objc_other p typed Ho); auto).
    assert (Hc : clean p).
    { apply good_clean; [exact Hg|exact Hl|]. apply (count_of_objc_0 p typed Ho Hl). rewrite C1. discriminate. }
    unfold oc_withlen in H. destruct (uvis s _) as [s2 e].
    destruct (negb (unil e)) eqn:Ee.
    { invSR H. discriminate. }
    destruct (up_lcur p =? 0) eqn:El.
    { eapply OPost_close_true; [| | | |exact H]; auto. }
    eapply (oc_field_name_post typed); [| | | | | |exact H];
      [exact Ho|reflexivity|exact He|apply base_set_step; exact Hb|intros _; exact Hc|left; apply Hc]. }
  destruct (u_s (up_cur p) =? sFieldName) eqn:C2.
  { apply Z.eqb_eq in C2.
    destruct (lenst p) eqn:Hl.
    - eapply (oc_field_name_post typed); [| | | | | |exact H]; auto.
      + intros L0. rewrite (lenst_objc_fn p typed Ho C2), L0 in Hl. discriminate.
      + apply good_len; assumption.
    - destruct (good_nolen p Hg Hl) as [Hm Hbf].
      rewrite (count_of_objc_0 p typed Ho Hl) in Hbf by (rewrite C2; discriminate).
      eapply (oc_field_name_post typed); [| | | | | |exact H]; auto.
      + intros _. split; [apply bufok_0; exact Hbf|exact Hm].
      + rewrite Hm. exact Hbf. }
  destruct (u_s (up_cur p) =? sFieldNameLen) eqn:C3.
  { apply Z.eqb_eq in C3.
    assert (Hl : lenst p = false) by (apply (lenst_objc_other p typed Ho); auto).
    destruct (good_nolen p Hg Hl) as [Hm Hbf].
    rewrite (count_of_objc_key p typed Ho C3) in Hbf.
    eapply (oc_key_post typed); [| | | | | |exact H]; auto. }
  assert (Hl : lenst p = false).
  { apply (lenst_objc_other p typed Ho). right. right.
    destruct (u_s (up_cur p) =? sCont) eqn:C4; [left; lia|right].
    split; [exact N1|]. split; [intros Hty; apply N2; exact Hty|lia]. }
  assert (Hc : clean p).
  { apply good_clean; [exact Hg|exact Hl|]. apply (count_of_objc_0 p typed Ho Hl). lia. }
  destruct (u_s (up_cur p) =? sCont) eqn:C4.
  { eapply oc_cont_post; [| | |exact H]; auto. }
  eapply OPost_close_false; [|exact H]. exact HI.
Qed.

Lemma cstep_objc_start : forall p typed, objc p typed -> cstep p = true -> in_content p typed.
Proof.
  intros p typed Ho H. destruct (cstep_objc_true p typed Ho H) as [[_ H1]|[H1 _]];
    unfold in_content; blia.
Qed.

Lemma obj_counted_dich : forall b p s a,
  u_t (up_cur p) = tObjectCount -> good p -> a <> [] \/ cstep p = true -> b <> [] ->
  Dich b (obj_counted p s a) (obj_counted p s (a ++ b)).
Proof.
  intros b p s a Ht Hg Ha Hb0. rewrite !obj_counted_eq.
  assert (Ho : objc p false) by (left; auto).
  destruct (u_s (up_cur p) =? sStart) eqn:E1.
  - assert (Ha' : a <> []).
    { destruct Ha as [Ha|Ha]; [exact Ha|]. apply (cstep_objc_start p false Ho) in Ha.
      destruct Ha as [Ha _]. lia. }
    assert (Hl : lenst p = true) by (unfold lenst; blia).
    eapply of_ul_dich; [exact Hl| |].
    + apply ustep_len_dich; auto. apply good_len; assumption.
    + intros q g s' A B C. rewrite xb_objcount by congruence.
      rewrite obj_counted_eq. rewrite A, E1. reflexivity.
  - apply content_dich; auto. split; [lia|discriminate].
Qed.

Lemma obj_counted_post : forall p s a p1 s1 rest d,
  up_err p = 0 -> good p -> u_t (up_cur p) = tObjectCount ->
  obj_counted p s a = UR p1 s1 rest d unilE -> Post p1 d.
Proof.
  intros p s a p1 s1 rest d He Hg Ht H. rewrite obj_counted_eq in H.
  assert (Ho : objc p false) by (left; auto).
  destruct (u_s (up_cur p) =? sStart) eqn:E1.
  - apply (of_ul_post _ p s a p1 s1 rest d He Hg) with (3 := H); [unfold lenst; blia|reflexivity].
  - destruct (ustep_obj_content p s a false) as [fin q sq rq eq|c] eqn:E; [|discriminate].
    assert (Ee : eq = unilE).
    { cbn [obj_wrap] in H. destruct (fin && unil eq) eqn:F.
      - apply andb_true_iff in F. destruct F as [_ F]. apply unil_true. exact F.
      - inversion H. reflexivity. }
    subst eq. eapply wrap_post; [|exact H].
    eapply content_post; [exact Ho| |exact He|exact Hg|exact E]. split; [lia|discriminate].
Qed.

Lemma obj_typed_dich : forall b p s a,
  u_t (up_cur p) = tObjectTyped -> good p -> a <> [] \/ cstep p = true -> b <> [] ->
  Dich b (obj_typed p s a) (obj_typed p s (a ++ b)).
Proof.
  intros b p s a Ht Hg Ha Hb0. rewrite !obj_typed_eq.
  assert (Ho : objc p true) by (right; auto).
  destruct ((u_s (up_cur p) =? sStart) || (u_s (up_cur p) =? sWithType0) || (u_s (up_cur p) =? sWithType1)) eqn:E1.
  - pose proof (header_steps_cases p E1) as Hs.
    assert (Ha' : a <> []).
    { destruct Ha as [Ha|Ha]; [exact Ha|]. apply (cstep_objc_start p true Ho) in Ha.
      destruct Ha as [Ha1 Ha2]. destruct (Ha2 eq_refl). blia. }
    apply header_dich; auto; [right; exact Ht|].
    intros q g s' A. rewrite xb_objtyped by congruence. rewrite obj_typed_eq, A, E1. reflexivity.
  - apply content_dich; auto. split; [lia|intros _; split; lia].
Qed.

Lemma obj_typed_post : forall p s a p1 s1 rest d,
  up_err p = 0 -> good p -> u_t (up_cur p) = tObjectTyped ->
  obj_typed p s a = UR p1 s1 rest d unilE -> Post p1 d.
Proof.
  intros p s a p1 s1 rest d He Hg Ht H. rewrite obj_typed_eq in H.
  assert (Ho : objc p true) by (right; auto).
  destruct ((u_s (up_cur p) =? sStart) || (u_s (up_cur p) =? sWithType0) || (u_s (up_cur p) =? sWithType1)) eqn:E1.
  - pose proof (header_steps_cases p E1) as Hs.
    eapply header_post; [exact He|right; exact Ht|exact Hg|exact Hs|exact H].
  - destruct (ustep_obj_content p s a true) as [fin q sq rq eq|c] eqn:E; [|discriminate].
    assert (Ee : eq = unilE).
    { cbn [obj_wrap] in H. destruct (fin && unil eq) eqn:F.
      - apply andb_true_iff in F. destruct F as [_ F]. apply unil_true. exact F.
      - inversion H. reflexivity. }
    subst eq. eapply wrap_post; [|exact H].
    eapply content_post; [exact Ho| |exact He|exact Hg|exact E]. split; [lia|intros _; split; lia].
Qed.

(* ---------- all states ---------- *)
Lemma t_cases : forall t,
  t = tFail \/ t = tNext \/ t = tFixed \/ t = tHighPrec \/ t = tString \/ t = tArray \/
  t = tArrayDyn \/ t = tArrayCount \/ t = tArrayTyped \/ t = tObject \/ t = tObjectDyn \/
  t = tObjectCount \/ t = tObjectTyped \/ (t < 0 \/ t > 12).
Proof. intros t. blia. Qed.

Lemma xlatch_nil : forall r p1 s1 rest d,
  xlatch r = UR p1 s1 rest d unilE -> r = UR p1 s1 rest d unilE.
Proof.
  intros [p s rest0 d0 e|c] p1 s1 rest d H; cbn [xlatch] in H; [|discriminate].
  destruct (unil e) eqn:E; [exact H|]. inversion H; subst. discriminate.
Qed.

Lemma PostAt_all : forall f, PostAt f.
Proof.
  induction f as [|f IH]; intros p s a p1 s1 rest d HI H; [discriminate|].
  rewrite uexec_S in H. apply xlatch_nil in H.
  destruct HI as [He [Hd|Hg]].
  { rewrite xb_fail in H by exact Hd. invSR H. split; [|discriminate]. split; [exact He|left; exact Hd]. }
  destruct (t_cases (u_t (up_cur p))) as [T|[T|[T|[T|[T|[T|[T|[T|[T|[T|[T|[T|[T|T]]]]]]]]]]]]].
  - exfalso. destruct Hg as ((Hs & _) & _). apply stk_notfail in Hs. congruence.
  - rewrite xb_next in H by exact T. eapply next_post; eauto.
  - rewrite xb_fixed in H by exact T. eapply ustep_fixed_post; eauto.
  - rewrite xb_string in H by (left; exact T). eapply ustep_string_post; eauto. left; exact T.
  - rewrite xb_string in H by (right; exact T). eapply ustep_string_post; eauto. right; exact T.
  - rewrite xb_arr in H by exact T. eapply arr_start_post; eauto.
  - rewrite xb_arrdyn in H by exact T. eapply arr_dyn_post; eauto.
  - rewrite xb_arrcount in H by exact T. eapply arr_counted_post; eauto.
  - rewrite xb_arrtyped in H by exact T. eapply arr_typed_post; eauto.
  - rewrite xb_obj in H by exact T. eapply obj_start_post; eauto.
  - rewrite xb_objdyn in H by exact T.
    destruct ((u_s (up_cur p) =? sFieldNameLen) && (up_lcur p =? 0)) eqn:K.
    + apply andb_true_iff in K. destruct K as [K1 K2].
      apply Z.eqb_eq in K1. apply Z.eqb_eq in K2.
      eapply obj_dyn_emptykey_post; eauto.
    + eapply obj_dyn_post; eauto.
  - rewrite xb_objcount in H by exact T. eapply obj_counted_post; eauto.
  - rewrite xb_objtyped in H by exact T. eapply obj_typed_post; eauto.
  - rewrite xb_other in H by exact T. invSR H.
Qed.

Lemma need_input : forall p (a : bytes), a <> [] \/ cstep p = true -> cstep p = false -> a <> [].
Proof. intros p a [H|H] E; [exact H|congruence]. Qed.

Lemma DichAt_all : forall f, DichAt f.
Proof.
  induction f as [|f IH]; intros p s a b HI Ha Hb0; [exact I|].
  rewrite !uexec_S. apply Dich_latch.
  destruct HI as [He [Hd|Hg]].
  { rewrite !xb_fail by exact Hd. apply Dich_ext. destruct (up_err p =? 0); ext_solve. }
  destruct (t_cases (u_t (up_cur p))) as [T|[T|[T|[T|[T|[T|[T|[T|[T|[T|[T|[T|[T|T]]]]]]]]]]]]].
  - exfalso. destruct Hg as ((Hs & _) & _). apply stk_notfail in Hs. congruence.
  - rewrite !xb_next by exact T. apply Dich_ext, ustep_value_ext.
    apply (need_input p a Ha). apply cstep_false_t. auto.
  - rewrite !xb_fixed by exact T. apply ustep_fixed_dich; auto.
    destruct (good_nolen p Hg (lenst_fixed p T)) as [_ Hb]. rewrite count_of_fixed in Hb by exact T. exact Hb.
  - rewrite !xb_string by (left; exact T). apply ustep_string_dich; auto; [left; exact T|].
    apply (need_input p a Ha). apply cstep_str. left; exact T.
  - rewrite !xb_string by (right; exact T). apply ustep_string_dich; auto; [right; exact T|].
    apply (need_input p a Ha). apply cstep_str. right; exact T.
  - rewrite !xb_arr by exact T. apply Dich_ext, arr_start_ext.
    apply (need_input p a Ha). apply cstep_false_t. auto.
  - rewrite !xb_arrdyn by exact T. apply Dich_ext, arr_dyn_ext.
    apply (need_input p a Ha). apply cstep_false_t. auto.
  - rewrite !xb_arrcount by exact T. apply arr_counted_dich; auto.
  - rewrite !xb_arrtyped by exact T. apply arr_typed_dich; auto.
  - rewrite !xb_obj by exact T. apply Dich_ext, obj_start_ext.
    apply (need_input p a Ha). apply cstep_false_t. auto.
  - rewrite !xb_objdyn by exact T.
    destruct ((u_s (up_cur p) =? sFieldNameLen) && (up_lcur p =? 0)) eqn:K.
    + apply Dich_ext, obj_dyn_emptykey_ext.
    + apply obj_dyn_dich; auto.
      apply (need_input p a Ha). rewrite cstep_objdyn by exact T. exact K.
  - rewrite !xb_objcount by exact T. apply obj_counted_dich; auto.
  - rewrite !xb_objtyped by exact T. apply obj_typed_dich; auto.
  - rewrite !xb_other by exact T. apply Dich_ext. ext_solve.
Qed.

Lemma exec_post : forall p s a p1 s1 rest d,
  Inv p -> uexec_step p s a = UR p1 s1 rest d unilE -> Post p1 d.
Proof. intros. eapply (PostAt_all 3); eauto. Qed.
Lemma exec_dich : forall p s a b,
  Inv p -> a <> [] \/ cstep p = true -> b <> [] ->
  Dich b (uexec_step p s a) (uexec_step p s (a ++ b)).
Proof. intros. apply (DichAt_all 3); auto. Qed.

(* ---------- merging two consecutive feeds into one ---------- *)
(* same visitor, same error; the same parser unless an error occurred *)
Definition sim (r r' : fres) : Prop :=
  let '(p, s, e) := r in let '(p', s', e') := r' in
  s = s' /\ e = e' /\ (e = unilE -> p = p').
Lemma sim_refl : forall r, sim r r.
Proof. intros [[p s] e]; cbn; auto. Qed.

Lemma done_nostep : forall p1 d, Post p1 d -> d = true -> cstep p1 = false.
Proof. intros p1 d [_ H] Hd. apply cstep_false_t. left. apply H. exact Hd. Qed.

Lemma R_ext_nil : forall p1 s1 b p s x r,
  Inv p1 -> Inv p ->
  ext [] (uexec_step p1 s1 b) (uexec_step p s x) -> R p1 s1 b r ->
  exists r', R p s x r' /\ sim r r'.
Proof.
  intros p1 s1 b p s x r HI1 HI X H.
  inversion H; subst;
    match goal with E : uexec_step p1 s1 b = _ |- _ => rewrite E in X; rename E into E0 end;
    destruct (uexec_step p s x) as [pw sw restw dw ew|w] eqn:W; cbn [ext] in X;
    try contradiction; destruct X as (<- & <- & X).
  - eexists; split; [eapply R_err; eauto|]. cbn. repeat split; auto. congruence.
  - destruct (X eq_refl) as (<- & ->). rewrite app_nil_r in W.
    eexists; split; [eapply R_more; eauto|apply sim_refl].
  - destruct (X eq_refl) as (<- & ->). cbn [app] in W.
    destruct dw.
    + pose proof (exec_post _ _ _ _ _ _ _ HI W) as P.
      rewrite (done_nostep _ _ P eq_refl) in *. discriminate.
    + eexists; split; [eapply R_stut; eauto|apply sim_refl].
  - destruct (X eq_refl) as (<- & ->). cbn [app] in W.
    eexists; split; [eapply R_stop; [exact W|]|apply sim_refl].
    pose proof (exec_post _ _ _ _ _ _ _ HI1 E0) as P.
    match goal with Hd : _ \/ _ |- _ =>
      destruct Hd as [Hd|Hd]; [right; apply (done_nostep _ _ P Hd)|right; exact Hd] end.
Qed.

Lemma R_merge : forall p s a r, R p s a r ->
  Inv p -> a <> [] \/ cstep p = true -> forall b, b <> [] ->
  (snd r <> unilE -> exists p1', R p s (a ++ b) (p1', snd (fst r), snd r)) /\
  (snd r = unilE -> forall r2, R (fst (fst r)) (snd (fst r)) b r2 ->
                   exists r2', R p s (a ++ b) r2' /\ sim r2 r2').
Proof.
  induction 1 as [p s a p1 s1 rest d e E Hn | p s a p1 s1 rest d r E Hr HR IH
                 | p s a p1 s1 r E Hx HR IH | p s a p1 s1 d E Hd];
    intros HI Ha b Hb;
    pose proof (exec_dich p s a b HI Ha Hb) as D; rewrite E in D; cbn [Dich] in D.
  - cbn [fst snd]. split; [intros _|congruence].
    destruct D as [D|(_ & D & _)]; [|congruence].
    destruct (uexec_step p s (a ++ b)) as [p2 s2 rest2 d2 e2|w] eqn:W; cbn [ext] in D;
      [|contradiction].
    destruct D as (<- & <- & _). exists p2. eapply R_err; eauto.
  - destruct D as [D|(D & _)]; [|congruence].
    destruct (uexec_step p s (a ++ b)) as [p2 s2 rest2 d2 e2|w] eqn:W; cbn [ext] in D;
      [|contradiction].
    destruct D as (<- & <- & D). destruct (D eq_refl) as (<- & ->).
    assert (HI1 : Inv p1) by (eapply exec_post; eauto).
    destruct (IH HI1 (or_introl Hr) b Hb) as [IH1 IH2].
    assert (Hrb : rest ++ b <> []) by (apply app_nonnil; exact Hr).
    split.
    + intros Hn. destruct (IH1 Hn) as [p1' R1]. exists p1'. eapply R_more; eauto.
    + intros Hn r2 R2. destruct (IH2 Hn r2 R2) as (r2' & R2' & S2).
      exists r2'. split; [eapply R_more; eauto|exact S2].
  - destruct D as [D|(_ & _ & D & _)]; [|unfold cstep in *; congruence].
    destruct (uexec_step p s (a ++ b)) as [p2 s2 rest2 d2 e2|w] eqn:W; cbn [ext] in D;
      [|contradiction].
    destruct D as (<- & <- & D). destruct (D eq_refl) as (<- & ->). cbn [app] in W.
    assert (HI1 : Inv p1) by (eapply exec_post; eauto).
    destruct (IH HI1 (or_intror Hx) b Hb) as [IH1 IH2]. cbn [app] in IH1, IH2.
    split.
    + intros Hn. destruct (IH1 Hn) as [p1' R1]. exists p1'. eapply R_more; eauto.
    + intros Hn r2 R2. destruct (IH2 Hn r2 R2) as (r2' & R2' & S2).
      exists r2'. split; [eapply R_more; eauto|exact S2].
  - cbn [fst snd]. split; [congruence|intros _ r2 R2].
    assert (HI1 : Inv p1) by (eapply exec_post; eauto).
    destruct D as [D|(_ & _ & _ & D)].
    + destruct (uexec_step p s (a ++ b)) as [p2 s2 rest2 d2 e2|w] eqn:W; cbn [ext] in D;
        [|contradiction].
      destruct D as (<- & <- & D). destruct (D eq_refl) as (<- & ->). cbn [app] in W.
      exists r2. split; [eapply R_more; eauto|apply sim_refl].
    + eapply R_ext_nil; [exact HI1|exact HI|exact (D 2%nat)|exact R2].
Qed.

Lemma R_inv : forall p s a r, R p s a r -> Inv p -> snd r = unilE -> Inv (fst (fst r)).
Proof.
  induction 1 as [p s a p1 s1 rest d e E Hn | p s a p1 s1 rest d r E Hr HR IH
                 | p s a p1 s1 r E Hx HR IH | p s a p1 s1 d E Hd]; intros HI Hn'.
  - cbn in Hn'. congruence.
  - apply IH; auto. eapply exec_post; eauto.
  - apply IH; auto. eapply exec_post; eauto.
  - cbn. eapply exec_post; eauto.
Qed.

Lemma Feed_inv : forall p s a p1 s1, Feed p s a (p1, s1, unilE) -> Inv p -> Inv p1.
Proof.
  intros p s a p1 s1 [[_ H]|[_ H]] HI.
  - inversion H; subst. exact HI.
  - apply (R_inv _ _ _ _ H HI eq_refl).
Qed.

Lemma Feed_merge : forall p s a b p1 s1 e, Inv p -> Feed p s a (p1, s1, e) ->
  (e <> unilE -> exists p1', Feed p s (a ++ b) (p1', s1, e)) /\
  (e = unilE -> forall r2, Feed p1 s1 b r2 -> exists r2', Feed p s (a ++ b) r2' /\ sim r2 r2').
Proof.
  intros p s a b p1 s1 e HI [[Ha H]|[Ha H]].
  - inversion H; subst. cbn [app]. split; [congruence|].
    intros _ r2 F2. exists r2. split; [exact F2|apply sim_refl].
  - destruct b as [|b0 br].
    + rewrite app_nil_r. split.
      * intros _. exists p1. right. auto.
      * intros -> r2 [[_ ->]|[Hb _]]; [|congruence].
        exists (p1, s1, unilE). split; [right; auto|apply sim_refl].
    + assert (Hb : b0 :: br <> []) by discriminate.
      destruct (R_merge _ _ _ _ H HI (or_introl Ha) _ Hb) as [M1 M2]. cbn [fst snd] in M1, M2.
      split.
      * intros Hn. destruct (M1 Hn) as [p1' R1]. exists p1'. right. split; auto.
        apply app_nonnil; exact Ha.
      * intros Hn r2 [[Hb' _]|[_ R2]]; [congruence|].
        destruct (M2 Hn r2 R2) as (r2' & R2' & S2). exists r2'. split; [|exact S2].
        right. split; auto. apply app_nonnil; exact Ha.
Qed.

(* ---------- sequences of writes ---------- *)
Lemma Inv0 : Inv uparser0.
Proof.
  split; [reflexivity|right]. split; [|split].
  - split; [reflexivity|]. split; [discriminate|constructor].
  - left; reflexivity.
  - intros _; reflexivity.
Qed.

(* what a run on the whole input b reports: the visitor and the verdict *)
Definition fin_obs (pm : uparser) (sm : sink) (em : Z) : sink * Z :=
  if unil em then (snd (fst (ufin pm sm)), snd (ufin pm sm)) else (sm, em).
Definition Whole (p : uparser) (s : sink) (b : bytes) (o : sink * Z) : Prop :=
  exists pm sm em, Feed p s b (pm, sm, em) /\ o = fin_obs pm sm em.

Lemma Whole_det : forall p s b o o', Whole p s b o -> Whole p s b o' -> o = o'.
Proof.
  intros p s b o o' (pm & sm & em & F & ->) (pm' & sm' & em' & F' & ->).
  pose proof (Feed_det _ _ _ _ _ F F') as E. inversion E; subst. reflexivity.
Qed.

Lemma up_write_Ok : forall p s c p1 s1 err, up_write p s c = Ok (p1, s1, err) ->
  exists p1', Feed p s c (p1', s1, err) /\
    p1 = if unil err then uset_err p1' 0 else uset_cur (uset_err p1' err) (mku tFail sStart).
Proof.
  intros p s c p1 s1 err H. unfold up_write in H.
  destruct (ufeed (2 * length c + 2) p s c) as [[[p1' s1'] e']| | |] eqn:E; try discriminate.
  exists p1'. destruct (unil e') eqn:Ee; inversion H; subst; rewrite Ee;
    (split; [eapply feed_sound; eauto|reflexivity]).
Qed.

Lemma writes_whole : forall cs p s pf sf ef, Inv p ->
  up_writes p s cs = Ok (pf, sf, ef) -> Whole p s (concat cs) (sf, ef).
Proof.
  induction cs as [|c cs IH]; intros p s pf sf ef HI H.
  - cbn [up_writes concat] in *. inversion H as [H0].
    exists p, s, unilE. split; [left; auto|]. unfold fin_obs. rewrite unil_nil, H0. reflexivity.
  - cbn [up_writes concat] in *.
    destruct (up_write p s c) as [[[p1 s1] err]| | |] eqn:E; try discriminate.
    destruct (up_write_Ok _ _ _ _ _ _ E) as (p1' & F & ->).
    destruct (Feed_merge p s c (concat cs) p1' s1 err HI F) as [M1 M2].
    destruct (unil err) eqn:Ee.
    + apply unil_true in Ee. subst err.
      assert (HI1 : Inv p1') by (eapply Feed_inv; eauto).
      rewrite set_err_same in H by apply HI1.
      destruct (IH _ _ _ _ _ HI1 H) as (pm & sm & em & F2 & O).
      destruct (M2 eq_refl _ F2) as ([[pm' sm'] em'] & F3 & S3).
      cbn [sim] in S3. destruct S3 as (<- & <- & S3).
      exists pm', sm, em. split; [exact F3|]. rewrite O. unfold fin_obs.
      destruct (unil em) eqn:Em; [|reflexivity].
      apply unil_true in Em. rewrite (S3 Em). reflexivity.
    + inversion H; subst. apply unil_false in Ee.
      destruct (M1 Ee) as [p1'' F3].
      exists p1'', sf, ef. split; [exact F3|]. unfold fin_obs.
      apply unil_false in Ee. rewrite Ee. reflexivity.
Qed.

Lemma parse_whole : forall p s b pf sf ef,
  up_parse p s b = Ok (pf, sf, ef) -> Whole p s b (sf, ef).
Proof.
  intros p s b pf sf ef H. unfold up_parse in H.
  destruct (ufeed (2 * length b + 2) p s b) as [[[p1 s1] e1]| | |] eqn:E; try discriminate.
  exists p1, s1, e1. split; [eapply feed_sound; eauto|]. unfold fin_obs.
  destruct (unil e1); inversion H as [H0]; [rewrite H0|]; reflexivity.
Qed.

(* One-write split, as a statement about the model functions: when the three
   calls return, Write(a ++ b) does what Write(a); Write(b) does. *)
Theorem C02_ubj_write_split : forall p s a b p1 s1 p2 s2 e2 p3 s3 e3,
  Inv p ->
  up_write p s a = Ok (p1, s1, unilE) -> up_write p1 s1 b = Ok (p2, s2, e2) ->
  up_write p s (a ++ b) = Ok (p3, s3, e3) ->
  s3 = s2 /\ e3 = e2 /\ (e2 = unilE -> p3 = p2).
Proof.
  intros p s a b p1 s1 p2 s2 e2 p3 s3 e3 HI W1 W2 W3.
  destruct (up_write_Ok _ _ _ _ _ _ W1) as (p1' & F1 & E1).
  destruct (up_write_Ok _ _ _ _ _ _ W2) as (p2' & F2 & E2).
  destruct (up_write_Ok _ _ _ _ _ _ W3) as (p3' & F3 & E3).
  assert (HI1 : Inv p1') by (eapply Feed_inv; eauto).
  rewrite unil_nil in E1.
  rewrite set_err_same in E1 by apply HI1. subst p1.
  destruct (Feed_merge p s a b p1' s1 unilE HI F1) as [_ M2].
  destruct (M2 eq_refl _ F2) as ([[pm sm] em] & F4 & S4).
  pose proof (Feed_det _ _ _ _ _ F3 F4) as E. inversion E; subst.
  cbn [sim] in S4. destruct S4 as (<- & <- & S4).
  repeat split; auto. intros ->. rewrite (S4 eq_refl). reflexivity.
Qed.
Print Assumptions C02_ubj_write_split.

(* ---------- C02 ---------- *)
(* Strongest form: whenever the two runs return at all (no panic, no fuel
   exhaustion - see ParseSafety), they report exactly the same events and the
   same verdict (same error class), also when the input is rejected, and for
   every visitor failure schedule vfail.  (Only the final parser state, the
   third component, may differ after an error.) *)
Theorem C02_ubj_chunks_strong : forall vfail cs1 cs2 r1 r2,
  concat cs1 = concat cs2 ->
  urun_chunks vfail cs1 = Ok r1 -> urun_chunks vfail cs2 = Ok r2 -> fst r1 = fst r2.
Proof.
  intros vfail cs1 cs2 r1 r2 Hc H1 H2. unfold urun_chunks in *.
  destruct (up_writes uparser0 (sink0 vfail) cs1) as [[[pf1 sf1] ef1]| | |] eqn:E1; try discriminate.
  destruct (up_writes uparser0 (sink0 vfail) cs2) as [[[pf2 sf2] ef2]| | |] eqn:E2; try discriminate.
  apply (writes_whole _ _ _ _ _ _ Inv0) in E1. apply (writes_whole _ _ _ _ _ _ Inv0) in E2.
  rewrite Hc in E1. pose proof (Whole_det _ _ _ _ _ E1 E2) as E. inversion E; subst.
  inversion H1; inversion H2; subst. reflexivity.
Qed.
Print Assumptions C02_ubj_chunks_strong.

Theorem C02_ubj_entry_strong : forall vfail cs r1 r2,
  urun_parse vfail (concat cs) = Ok r1 -> urun_chunks vfail cs = Ok r2 -> fst r1 = fst r2.
Proof.
  intros vfail cs r1 r2 H1 H2. unfold urun_parse, urun_chunks in *.
  destruct (up_parse uparser0 (sink0 vfail) (concat cs)) as [[[pf1 sf1] ef1]| | |] eqn:E1; try discriminate.
  destruct (up_writes uparser0 (sink0 vfail) cs) as [[[pf2 sf2] ef2]| | |] eqn:E2; try discriminate.
  apply parse_whole in E1. apply (writes_whole _ _ _ _ _ _ Inv0) in E2.
  pose proof (Whole_det _ _ _ _ _ E1 E2) as E. inversion E; subst.
  inversion H1; inversion H2; subst. reflexivity.
Qed.
Print Assumptions C02_ubj_entry_strong.

(* The observation of the task statement: events and accepted? *)
Definition uobs (r : res (list event * Z * uparser)) : option (list event * bool) :=
  match r with Ok (evs, e, _) => Some (evs, e =? unilE) | _ => None end.
Definition same_uobs (r1 r2 : list event * Z * uparser) : Prop := uobs (Ok r1) = uobs (Ok r2).

Lemma same_uobs_of_fst : forall r1 r2, fst r1 = fst r2 -> same_uobs r1 r2.
Proof.
  intros [[ev1 e1] p1] [[ev2 e2] p2] H. cbn [fst] in H. inversion H; subst. reflexivity.
Qed.

Theorem C02_ubj_chunks : forall vfail cs1 cs2 r1 r2,
  concat cs1 = concat cs2 ->
  urun_chunks vfail cs1 = Ok r1 -> urun_chunks vfail cs2 = Ok r2 -> same_uobs r1 r2.
Proof. intros. apply same_uobs_of_fst. eapply C02_ubj_chunks_strong; eauto. Qed.
Print Assumptions C02_ubj_chunks.

Theorem C02_ubj_entry : forall vfail cs r1 r2,
  urun_parse vfail (concat cs) = Ok r1 -> urun_chunks vfail cs = Ok r2 -> same_uobs r1 r2.
Proof. intros. apply same_uobs_of_fst. eapply C02_ubj_entry_strong; eauto. Qed.
Print Assumptions C02_ubj_entry.

(* The form of the task statement spelled out: when the input is accepted the
   events are identical, otherwise both runs reject (and then, too, the events
   before the error and the error class are identical). *)
Corollary C02_ubj_chunks_cases : forall vfail cs1 cs2 ev1 e1 p1 ev2 e2 p2,
  concat cs1 = concat cs2 ->
  urun_chunks vfail cs1 = Ok (ev1, e1, p1) -> urun_chunks vfail cs2 = Ok (ev2, e2, p2) ->
  ev1 = ev2 /\ e1 = e2 /\ ((e1 = unilE /\ e2 = unilE) \/ (e1 <> unilE /\ e2 <> unilE)).
Proof.
  intros vfail cs1 cs2 ev1 e1 p1 ev2 e2 p2 Hc H1 H2.
  pose proof (C02_ubj_chunks_strong vfail cs1 cs2 _ _ Hc H1 H2) as E. cbn [fst] in E.
  inversion E; subst. split; [reflexivity|]. split; [reflexivity|].
  destruct (Z.eq_dec e2 unilE); auto.
Qed.
Print Assumptions C02_ubj_chunks_cases.

(* The unconditional statements, given that the model returns on the inputs
   in some class G (Ubjson/ParseSafety.v: no Panic on any input; OutOfFuel only
   for typed containers of zero-sized elements with huge counts). *)
Definition same_uobs_res (r1 r2 : res (list event * Z * uparser)) : Prop :=
  match r1, r2 with
  | Ok o1, Ok o2 => fst o1 = fst o2
  | _, _ => False
  end.
Section WithTotality.
  Variable G : list bytes -> Prop.
  Hypothesis chunks_total : forall vfail cs, G cs -> exists r, urun_chunks vfail cs = Ok r.
  Hypothesis parse_total : forall vfail cs, G cs -> exists r, urun_parse vfail (concat cs) = Ok r.

  Theorem C02_ubj_chunks_total : forall vfail cs1 cs2, G cs1 -> G cs2 ->
    concat cs1 = concat cs2 -> same_uobs_res (urun_chunks vfail cs1) (urun_chunks vfail cs2).
  Proof.
    intros vfail cs1 cs2 G1 G2 Hc.
    destruct (chunks_total vfail cs1 G1) as (r1 & H1).
    destruct (chunks_total vfail cs2 G2) as (r2 & H2).
    rewrite H1, H2. cbn. eapply C02_ubj_chunks_strong; eauto.
  Qed.

  Theorem C02_ubj_entry_total : forall vfail cs, G cs ->
    same_uobs_res (urun_parse vfail (concat cs)) (urun_chunks vfail cs).
  Proof.
    intros vfail cs G1.
    destruct (parse_total vfail cs G1) as (r1 & H1).
    destruct (chunks_total vfail cs G1) as (r2 & H2).
    rewrite H1, H2. cbn. eapply C02_ubj_entry_strong; eauto.
  Qed.
End WithTotality.
Print Assumptions C02_ubj_chunks_total.
Print Assumptions C02_ubj_entry_total.

(* ---------- the examples the statement was tested on ---------- *)
Definition obs2 (r : res (list event * Z * uparser)) : option (list event * Z) :=
  match r with Ok (evs, e, _) => Some (evs, e) | _ => None end.
(* an object key split across writes *)
Example ex_key_split :
  obs2 (urun_chunks None [[123;105;3;97];[98;99;105;1;125]]) =
  obs2 (urun_parse None [123;105;3;97;98;99;105;1;125]).
Proof. vm_compute. reflexivity. Qed.
(* a length marker alone at the end of a write; an empty write *)
Example ex_marker_alone :
  obs2 (urun_chunks None [[123;105];[];[3;97;98;99;83;73];[0;2;120;121;125]]) =
  obs2 (urun_parse None [123;105;3;97;98;99;83;73;0;2;120;121;125]).
Proof. vm_compute. reflexivity. Qed.
(* a 0 byte where a length marker is expected: rejected in both *)
Example ex_zero_marker :
  obs2 (urun_chunks None [[123;0];[105;1;97;105;5;125]]) = Some ([EObjStart (-1) BAny], ueUnknownMarker) /\
  obs2 (urun_parse None [123;0;105;1;97;105;5;125]) = Some ([EObjStart (-1) BAny], ueUnknownMarker).
Proof. split; vm_compute; reflexivity. Qed.
(* a typed array split inside its header, counted containers that end with the write *)
Example ex_typed_header :
  obs2 (urun_chunks None [[91];[36];[105];[35];[105];[2];[1];[2]]) =
  obs2 (urun_parse None [91;36;105;35;105;2;1;2]) /\
  obs2 (urun_chunks None [[91;36;105;35];[105;2;1;2];[90]]) =
  obs2 (urun_parse None [91;36;105;35;105;2;1;2;90]).
Proof. split; vm_compute; reflexivity. Qed.
