(* What a value looks like after a trip through UBJSON (the representation
   changes C01 allows for this format): unsigned integers above MaxInt64 are
   carried as their decimal digits (high-precision number, delivered as a
   string); in a typed unsigned array/map that needs the 'H' element type every
   element is.  Everything else keeps its value. *)
From SF Require Import Base.Prelude Core.Events Ubjson.Enc.
Open Scope Z_scope.

Definition max_int64 := 9223372036854775807.

Definition is_uint_kind (k : nkind) : bool :=
  match k with KUint16 | KUint32 | KUint64 | KUint => true | _ => false end.
Definition is_uint_bt (bt : btype) : bool :=
  match bt with BUint16 | BUint32 | BUint64 | BUint => true | _ => false end.

Definition ubj_img_scalar (s : scalar) : cvalue :=
  match s with
  | SNum k n => if is_uint_kind k && (max_int64 <? n) then CStr (digits n) else CNum (canon_num k n)
  | _ => cv (scalar_value s)
  end.

Definition needs_h (es : list scalar) : bool := existsb (fun s => max_int64 <? snum s) es.
Definition scalar_h (s : scalar) : cvalue := CStr (digits (snum s)).

Fixpoint ubj_img (t : tree) : cvalue :=
  match t with
  | TVal s _ => ubj_img_scalar s
  | TArr _ _ es => CArr (map ubj_img es)
  | TObj _ _ ms => CObj (map (fun m => (fst (fst m), ubj_img (snd m))) ms)
  | TXArr bt es =>
      if is_uint_bt bt && needs_h es then CArr (map scalar_h es)
      else CArr (map (fun s => cv (scalar_value s)) es)
  | TXObj bt ms =>
      if is_uint_bt bt && needs_h (map snd ms) then CObj (map (fun m => (fst m, scalar_h (snd m))) ms)
      else CObj (map (fun m => (fst m, cv (scalar_value (snd m)))) ms)
  end.
