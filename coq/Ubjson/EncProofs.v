(* Proofs about the UBJSON encoder model (Ubjson/Enc.v) alone:
   - C16: no write error is lost;
   - the bytes the encoder writes for a tree ([tbytes]) when the writer does not
     fail, and C17 (the length stack is back where it was after every value). *)
From SF Require Import Base.Prelude Base.PreludeProofs Core.Events Core.EventsProofs
  Cbor.Enc Ubjson.Spec Ubjson.Enc.
From Coq Require Import ZifyBool ZifyNat ZifyN.
Open Scope Z_scope.

Ltac Zify.zify_post_hook ::= Z.div_mod_to_equations.

(* ====================================================================== *)
(* 1. C16 for the encoder: no write error is lost                          *)
(* ====================================================================== *)

Definition winv (k : nat) (e : uenc) : Prop :=
  w_fail (ue_w e) = Some k /\ (w_n (ue_w e) <= k)%nat.

Lemma andthen_inv r g e1 : r >>> g = (e1, true) -> exists e0, r = (e0, true) /\ g e0 = (e1, true).
Proof.
  destruct r as [e0 ok]. destruct ok; cbn [andthen]; intro H; [eauto | discriminate].
Qed.

Lemma ret_winv k e e1 : (e, true) = (e1, true) -> winv k e -> winv k e1.
Proof. intros H Hi. inversion H; subst; exact Hi. Qed.

Lemma uw_winv k e b e1 : uw e b = (e1, true) -> winv k e -> winv k e1.
Proof.
  intros H [Hf Hn]. unfold uw, wwrite in H. rewrite Hf in H.
  inversion H as [[He Hok]]. unfold winv. cbn [ue_w w_fail w_n].
  split; [reflexivity|]. apply Nat.ltb_lt in Hok. lia.
Qed.

Ltac split_then :=
  repeat match goal with
  | H : (_ >>> _) = (_, true) |- _ =>
      let e0 := fresh "e0" in let H0 := fresh "H0" in
      apply andthen_inv in H; destruct H as (e0 & H0 & H)
  end.

Lemma opt_marker_winv k e marker m e1 : opt_marker e marker m = (e1, true) -> winv k e -> winv k e1.
Proof. unfold opt_marker. destruct marker; [apply uw_winv | apply ret_winv]. Qed.

Lemma ub_int8_winv k e i marker e1 : ub_int8 e i marker = (e1, true) -> winv k e -> winv k e1.
Proof. unfold ub_int8. intros H Hi. split_then. eauto using uw_winv, opt_marker_winv. Qed.
Lemma ub_uint8_winv k e i marker e1 : ub_uint8 e i marker = (e1, true) -> winv k e -> winv k e1.
Proof. unfold ub_uint8. destruct marker; apply uw_winv. Qed.
Lemma ub_int16_winv k e i marker e1 : ub_int16 e i marker = (e1, true) -> winv k e -> winv k e1.
Proof. unfold ub_int16. intros H Hi. split_then. eauto using uw_winv, opt_marker_winv. Qed.
Lemma ub_int32_winv k e i marker e1 : ub_int32 e i marker = (e1, true) -> winv k e -> winv k e1.
Proof. unfold ub_int32. intros H Hi. split_then. eauto using uw_winv, opt_marker_winv. Qed.
Lemma ub_int64_winv k e i marker e1 : ub_int64 e i marker = (e1, true) -> winv k e -> winv k e1.
Proof. unfold ub_int64. intros H Hi. split_then. eauto using uw_winv, opt_marker_winv. Qed.

Lemma ub_onint_winv k e i marker e1 : ub_onint e i marker = (e1, true) -> winv k e -> winv k e1.
Proof.
  unfold ub_onint.
  destruct ((-128 <=? i) && (i <=? 127)); [apply ub_int8_winv|].
  destruct ((0 <=? i) && (i <=? 255)); [apply ub_uint8_winv|].
  destruct ((-32768 <=? i) && (i <=? 32767)); [apply ub_int16_winv|].
  destruct ((-2147483648 <=? i) && (i <=? 2147483647)); [apply ub_int32_winv|].
  apply ub_int64_winv.
Qed.

Lemma ub_writelen_winv k e l e1 : ub_writelen e l = (e1, true) -> winv k e -> winv k e1.
Proof. apply ub_onint_winv. Qed.

Lemma ub_highprec_winv k e u marker e1 : ub_highprec e u marker = (e1, true) -> winv k e -> winv k e1.
Proof.
  unfold ub_highprec. intros H Hi. split_then.
  eauto using uw_winv, opt_marker_winv, ub_writelen_winv.
Qed.

Lemma ub_uint64_winv k e u t marker e1 : ub_uint64 e u t marker = (e1, true) -> winv k e -> winv k e1.
Proof.
  unfold ub_uint64.
  destruct (t =? mi); [apply ub_int8_winv|].
  destruct (t =? mU); [apply ub_uint8_winv|].
  destruct (t =? mI); [apply ub_int16_winv|].
  destruct (t =? ml); [apply ub_int32_winv|].
  destruct (t =? mL); [apply ub_int64_winv|].
  apply ub_highprec_winv.
Qed.

Lemma ub_string_winv k e s marker e1 : ub_string e s marker = (e1, true) -> winv k e -> winv k e1.
Proof.
  unfold ub_string. intros H Hi. split_then.
  destruct (zlen s =? 0);
    eauto using uw_winv, ret_winv, opt_marker_winv, ub_writelen_winv.
Qed.

Lemma ub_float32_winv k e z marker e1 : ub_float32 e z marker = (e1, true) -> winv k e -> winv k e1.
Proof. unfold ub_float32. intros H Hi. split_then. eauto using uw_winv, opt_marker_winv. Qed.
Lemma ub_float64_winv k e z marker e1 : ub_float64 e z marker = (e1, true) -> winv k e -> winv k e1.
Proof. unfold ub_float64. intros H Hi. split_then. eauto using uw_winv, opt_marker_winv. Qed.

Lemma winv_len k e ls : winv k e -> winv k {| ue_w := ue_w e; ue_len := ls |}.
Proof. intro H. exact H. Qed.

Lemma ub_oncount_winv k e l e1 : ub_oncount e l = (e1, true) -> winv k e -> winv k e1.
Proof.
  unfold ub_oncount. intros H Hi.
  destruct (l <=? 0).
  - inversion H; subst e1. exact Hi.
  - split_then. eapply ub_writelen_winv; [exact H|]. eapply uw_winv; [exact H0|]. exact Hi.
Qed.

Lemma ub_start_winv k e m l e1 : ub_start e m l = (e1, true) -> winv k e -> winv k e1.
Proof. unfold ub_start. intros H Hi. split_then. eauto using uw_winv, ub_oncount_winv. Qed.

Lemma ub_finish_winv k e m e1 : ub_finish e m = (e1, true) -> winv k e -> winv k e1.
Proof.
  unfold ub_finish. intros H Hi.
  destruct (ls_pop (ue_len e)) as [ls old].
  destruct (old <=? 0).
  - eapply uw_winv; [exact H|]. exact Hi.
  - inversion H; subst e1. exact Hi.
Qed.

Lemma ub_onint16_winv k e i e1 : ub_onint16 e i = (e1, true) -> winv k e -> winv k e1.
Proof. unfold ub_onint16. destruct (_ && _); [apply ub_int8_winv | apply ub_int16_winv]. Qed.
Lemma ub_onint32_winv k e i e1 : ub_onint32 e i = (e1, true) -> winv k e -> winv k e1.
Proof. unfold ub_onint32. destruct (_ && _); [apply ub_onint16_winv | apply ub_int32_winv]. Qed.
Lemma ub_onint64_winv k e i e1 : ub_onint64 e i = (e1, true) -> winv k e -> winv k e1.
Proof. unfold ub_onint64. destruct (_ && _); [apply ub_onint32_winv | apply ub_int64_winv]. Qed.

Lemma ub_scalar_winv k e s e1 : ub_scalar e s = (e1, true) -> winv k e -> winv k e1.
Proof.
  destruct s as [|b|s|kd z]; cbn [ub_scalar].
  - apply uw_winv.
  - destruct b; apply uw_winv.
  - apply ub_string_winv.
  - destruct kd; try (destruct (z >? 127));
      first [ apply ub_int8_winv | apply ub_onint16_winv | apply ub_onint32_winv
            | apply ub_onint64_winv | apply ub_onint_winv | apply uw_winv
            | apply ub_uint8_winv | apply ub_uint64_winv | apply ub_float32_winv
            | apply ub_float64_winv ].
Qed.

Lemma ub_elem_winv k e bt t s e1 : ub_elem e bt t s = (e1, true) -> winv k e -> winv k e1.
Proof.
  destruct bt; cbn [ub_elem];
    first [ apply ret_winv | apply ub_string_winv | apply ub_int8_winv | apply ub_int16_winv
          | apply ub_int32_winv | apply ub_int64_winv | apply ub_uint8_winv
          | apply ub_uint64_winv | apply ub_float32_winv | apply ub_float64_winv ].
Qed.

Lemma ub_elems_winv k bt t l : forall e e1, ub_elems e bt t l = (e1, true) -> winv k e -> winv k e1.
Proof.
  induction l as [|s r IH]; intros e e1 H Hi; cbn [ub_elems] in H.
  - eapply ret_winv; eassumption.
  - split_then. eapply IH; [exact H|]. eapply ub_elem_winv; eassumption.
Qed.

Lemma ub_bools_winv k l : forall e e1, ub_bools e l = (e1, true) -> winv k e -> winv k e1.
Proof.
  induction l as [|s r IH]; intros e e1 H Hi; cbn [ub_bools] in H.
  - eapply ret_winv; eassumption.
  - split_then. eapply IH; [exact H|]. eapply uw_winv; eassumption.
Qed.

Lemma ub_members_winv k bt t l : forall e e1, ub_members e bt t l = (e1, true) -> winv k e -> winv k e1.
Proof.
  induction l as [|[key s] r IH]; intros e e1 H Hi; cbn [ub_members] in H.
  - eapply ret_winv; eassumption.
  - split_then. eapply IH; [exact H|]. eapply ub_elem_winv; [eassumption|].
    eapply ub_string_winv; eassumption.
Qed.

Lemma ub_bool_members_winv k l : forall e e1, ub_bool_members e l = (e1, true) -> winv k e -> winv k e1.
Proof.
  induction l as [|[key s] r IH]; intros e e1 H Hi; cbn [ub_bool_members] in H.
  - eapply ret_winv; eassumption.
  - split_then. eapply IH; [exact H|]. eapply uw_winv; [eassumption|].
    eapply ub_string_winv; eassumption.
Qed.

Definition is_bool_bt (bt : btype) : bool := match bt with BBool => true | _ => false end.

Lemma ubj_on_xarr e bt es :
  ubj_on e (EXArr bt es) =
  if is_bool_bt bt then
    ub_start e mArrS (zlen es) >>> fun e => ub_bools e es >>> fun e => ub_finish e mArrE
  else if zlen es <=? 0 then uw e [mArrS; mArrE]
  else uw e [mArrS; mType; typed_marker bt es; mCount] >>> fun e =>
       ub_writelen e (zlen es) >>> fun e => ub_elems e bt (typed_marker bt es) es.
Proof. destruct bt; reflexivity. Qed.

Lemma ubj_on_xobj e bt ms :
  ubj_on e (EXObj bt ms) =
  if zlen ms <=? 0 then uw e [mObjS; mObjE]
  else if is_bool_bt bt then
    ub_start e mObjS (zlen ms) >>> fun e => ub_bool_members e ms >>> fun e => ub_finish e mObjE
  else uw e [mObjS; mType; typed_marker bt (map snd ms); mCount] >>> fun e =>
       ub_writelen e (zlen ms) >>> fun e => ub_members e bt (typed_marker bt (map snd ms)) ms.
Proof. destruct bt; reflexivity. Qed.

Lemma ubj_on_winv k e ev e1 : ubj_on e ev = (e1, true) -> winv k e -> winv k e1.
Proof.
  destruct ev as [s|s|len bt| |len bt| |key|key|bt es|bt ms].
  - apply ub_scalar_winv.
  - apply ub_string_winv.
  - apply ub_start_winv.
  - apply ub_finish_winv.
  - apply ub_start_winv.
  - apply ub_finish_winv.
  - apply ub_string_winv.
  - apply ub_string_winv.
  - rewrite ubj_on_xarr. intros H Hi. destruct (is_bool_bt bt).
    + split_then. eapply ub_finish_winv; [exact H|]. eapply ub_bools_winv; [exact H1|].
      eapply ub_start_winv; eassumption.
    + destruct (zlen es <=? 0); [eapply uw_winv; eassumption|].
      split_then. eapply ub_elems_winv; [exact H|]. eapply ub_writelen_winv; [exact H1|].
      eapply uw_winv; eassumption.
  - rewrite ubj_on_xobj. intros H Hi.
    destruct (zlen ms <=? 0); [eapply uw_winv; eassumption|].
    destruct (is_bool_bt bt).
    + split_then. eapply ub_finish_winv; [exact H|]. eapply ub_bool_members_winv; [exact H1|].
      eapply ub_start_winv; eassumption.
    + split_then. eapply ub_members_winv; [exact H|]. eapply ub_writelen_winv; [exact H1|].
      eapply uw_winv; eassumption.
Qed.

Lemma ubj_run_winv k evs : forall e i e',
  winv k e -> ubj_run e evs i = (e', None) -> winv k e'.
Proof.
  induction evs as [|ev r IH]; intros e i e' Hi H; cbn [ubj_run] in H.
  - inversion H; subst e'. exact Hi.
  - destruct (ubj_on e ev) as [e1 ok] eqn:E1. destruct ok; [|discriminate].
    eapply IH; [|exact H]. eapply ubj_on_winv; eassumption.
Qed.

(* If every call returned nil, the failing k-th write was never attempted. *)
Theorem C16_ubj_enc : forall evs e i e' k,
  w_fail (ue_w e) = Some k -> (w_n (ue_w e) <= k)%nat ->
  ubj_run e evs i = (e', None) -> (w_n (ue_w e') <= k)%nat.
Proof.
  intros evs e i e' k Hf Hn H.
  destruct (ubj_run_winv k evs e i e' (conj Hf Hn) H) as [_ H']. exact H'.
Qed.
Print Assumptions C16_ubj_enc.

Theorem C16_ubj_enc0 : forall evs e' k,
  ubj_run (uenc0 (Some k)) evs 0 = (e', None) -> (w_n (ue_w e') <= k)%nat.
Proof.
  intros evs e' k H. eapply C16_ubj_enc; [| |exact H]; cbn; [reflexivity|lia].
Qed.
Print Assumptions C16_ubj_enc0.

(* ====================================================================== *)
(* 2. What the encoder writes when the writer does not fail                *)
(* ====================================================================== *)

Definition nofail (e : uenc) : Prop := w_fail (ue_w e) = None.

(* [e'] is [e] after writing [bs], with length stack [ls] *)
Definition post (e : uenc) (bs : bytes) (ls : lstack) (e' : uenc) : Prop :=
  nofail e' /\ w_bytes (ue_w e') = w_bytes (ue_w e) ++ bs /\ ue_len e' = ls.
Definition outs (r : uenc * bool) (e : uenc) (bs : bytes) (ls : lstack) : Prop :=
  exists e', r = (e', true) /\ post e bs ls e'.
Definition outs0 (r : uenc * bool) (e : uenc) (bs : bytes) : Prop := outs r e bs (ue_len e).

Lemma post_trans e bs1 ls1 e1 bs2 ls2 e2 :
  post e bs1 ls1 e1 -> post e1 bs2 ls2 e2 -> post e (bs1 ++ bs2) ls2 e2.
Proof.
  intros (F1 & B1 & L1) (F2 & B2 & L2). split; [exact F2|]. split; [|exact L2].
  rewrite B2, B1, app_assoc. reflexivity.
Qed.

Lemma outs_eq r e bs bs' ls : outs r e bs ls -> bs = bs' -> outs r e bs' ls.
Proof. intros H <-. exact H. Qed.
Lemma outs0_eq r e bs bs' : outs0 r e bs -> bs = bs' -> outs0 r e bs'.
Proof. intros H <-. exact H. Qed.

Lemma outs_bind r k e bs1 ls1 bs2 ls2 :
  outs r e bs1 ls1 -> (forall e1, post e bs1 ls1 e1 -> outs (k e1) e1 bs2 ls2) ->
  outs (r >>> k) e (bs1 ++ bs2) ls2.
Proof.
  intros (e1 & -> & P1) Hk. cbn [andthen].
  destruct (Hk e1 P1) as (e2 & E2 & P2). exists e2. split; [exact E2|].
  eapply post_trans; eassumption.
Qed.

Lemma outs0_bind r k e bs1 bs2 :
  outs0 r e bs1 -> (forall e1, nofail e1 -> outs0 (k e1) e1 bs2) ->
  outs0 (r >>> k) e (bs1 ++ bs2).
Proof.
  intros H Hk. unfold outs0. eapply outs_bind; [exact H|].
  intros e1 (F1 & B1 & L1). rewrite <- L1. apply Hk. exact F1.
Qed.

Lemma ret_outs0 e : nofail e -> outs0 (e, true) e [].
Proof.
  intro H. exists e. split; [reflexivity|]. split; [exact H|]. split; [|reflexivity].
  rewrite app_nil_r. reflexivity.
Qed.

Lemma uw_outs0 e b : nofail e -> outs0 (uw e b) e b.
Proof.
  intro H. unfold nofail in H. unfold uw, wwrite. rewrite H.
  eexists. split; [reflexivity|]. split; [reflexivity|]. split; [|reflexivity].
  unfold w_bytes, w_chunks. cbn [ue_w w_rchunks rev]. rewrite concat_app.
  cbn [concat]. rewrite app_nil_r. reflexivity.
Qed.

(* ---------- the bytes, as pure functions mirroring the encoder ---------- *)
Definition optm (marker : bool) (m : Z) : bytes := if marker then [m] else [].
Definition int8_b (i : Z) (marker : bool) : bytes := optm marker mi ++ [wrapu 8 i].
Definition uint8_b (u : Z) (marker : bool) : bytes := optm marker mU ++ [u].
Definition int16_b (i : Z) (marker : bool) : bytes := optm marker mI ++ be_enc 2 (wrapu 16 i).
Definition int32_b (i : Z) (marker : bool) : bytes := optm marker ml ++ be_enc 4 (wrapu 32 i).
Definition int64_b (i : Z) (marker : bool) : bytes := optm marker mL ++ be_enc 8 (wrapu 64 i).

Definition onint_b (i : Z) (marker : bool) : bytes :=
  if (-128 <=? i) && (i <=? 127) then int8_b i marker
  else if (0 <=? i) && (i <=? 255) then uint8_b i marker
  else if (-32768 <=? i) && (i <=? 32767) then int16_b i marker
  else if (-2147483648 <=? i) && (i <=? 2147483647) then int32_b i marker
  else int64_b i marker.
Definition len_b (l : Z) : bytes := onint_b l true.

Definition highprec_b (u : Z) (marker : bool) : bytes :=
  optm marker mH ++ len_b (zlen (digits u)) ++ digits u.
Definition uint64_b (u t : Z) (marker : bool) : bytes :=
  if t =? mi then int8_b u marker
  else if t =? mU then uint8_b (wrapu 8 u) marker
  else if t =? mI then int16_b u marker
  else if t =? ml then int32_b u marker
  else if t =? mL then int64_b u marker
  else highprec_b u marker.
Definition string_b (s : bytes) (marker : bool) : bytes := optm marker mS ++ len_b (zlen s) ++ s.
Definition float32_b (bits : Z) (marker : bool) : bytes := optm marker md ++ be_enc 4 bits.
Definition float64_b (bits : Z) (marker : bool) : bytes := optm marker mD ++ be_enc 8 bits.
Definition onint16_b (i : Z) : bytes := if (-128 <=? i) && (i <=? 127) then int8_b i true else int16_b i true.
Definition onint32_b (i : Z) : bytes := if (-32768 <=? i) && (i <=? 32767) then onint16_b i else int32_b i true.
Definition onint64_b (i : Z) : bytes := if (-2147483648 <=? i) && (i <=? 2147483647) then onint32_b i else int64_b i true.

Definition scalar_b (s : scalar) : bytes :=
  match s with
  | SNil => [mZ]
  | SBool true => [mT]
  | SBool false => [mF]
  | SStr s => string_b s true
  | SNum KInt8 z => int8_b z true
  | SNum KInt16 z => onint16_b z
  | SNum KInt32 z => onint32_b z
  | SNum KInt64 z => onint64_b z
  | SNum KInt z => onint_b z true
  | SNum KByte z => if z >? 127 then uint8_b z true else [mC; z]
  | SNum KUint8 z => uint8_b z true
  | SNum (KUint16 | KUint32 | KUint64 | KUint) z => uint64_b z (uint_type z) true
  | SNum KFloat32 z => float32_b z true
  | SNum KFloat64 z => float64_b z true
  end.

Definition elem_b (bt : btype) (t : Z) (s : scalar) : bytes :=
  match bt with
  | BString => string_b (sstr s) false
  | BInt8 => int8_b (snum s) false
  | BInt16 => int16_b (snum s) false
  | BInt32 => int32_b (snum s) false
  | BInt64 | BInt => int64_b (snum s) false
  | BByte | BUint8 => uint8_b (snum s) false
  | BUint16 | BUint32 | BUint64 | BUint => uint64_b (snum s) t false
  | BFloat32 => float32_b (snum s) false
  | BFloat64 => float64_b (snum s) false
  | _ => []
  end.

Definition bool_b (s : scalar) : bytes := [if sbool s then mT else mF].
Definition count_b (l : Z) : bytes := if l <=? 0 then [] else mCount :: len_b l.
Definition close_b (l m : Z) : bytes := if l <=? 0 then [m] else [].

Definition xarr_b (bt : btype) (es : list scalar) : bytes :=
  if is_bool_bt bt then
    (mArrS :: count_b (zlen es)) ++ flat_map bool_b es ++ close_b (zlen es) mArrE
  else if zlen es <=? 0 then [mArrS; mArrE]
  else [mArrS; mType; typed_marker bt es; mCount] ++ len_b (zlen es)
       ++ flat_map (elem_b bt (typed_marker bt es)) es.

Definition xobj_b (bt : btype) (ms : list (bytes * scalar)) : bytes :=
  if zlen ms <=? 0 then [mObjS; mObjE]
  else if is_bool_bt bt then
    (mObjS :: count_b (zlen ms)) ++ flat_map (fun m => string_b (fst m) false ++ bool_b (snd m)) ms
    ++ close_b (zlen ms) mObjE
  else [mObjS; mType; typed_marker bt (map snd ms); mCount] ++ len_b (zlen ms)
       ++ flat_map (fun m => string_b (fst m) false ++ elem_b bt (typed_marker bt (map snd ms)) (snd m)) ms.

Fixpoint tbytes (t : tree) : bytes :=
  match t with
  | TVal s _ => scalar_b s
  | TArr len _ es => (mArrS :: count_b len) ++ flat_map tbytes es ++ close_b len mArrE
  | TObj len _ ms =>
      (mObjS :: count_b len)
      ++ flat_map (fun m => string_b (fst (fst m)) false ++ tbytes (snd m)) ms
      ++ close_b len mObjE
  | TXArr bt es => xarr_b bt es
  | TXObj bt ms => xobj_b bt ms
  end.

(* ---------- each encoder function writes its bytes ---------- *)
Lemma opt_marker_outs e marker m : nofail e -> outs0 (opt_marker e marker m) e (optm marker m).
Proof. intro H. unfold opt_marker, optm. destruct marker; [apply uw_outs0 | apply ret_outs0]; exact H. Qed.

Lemma ub_int8_outs e i marker : nofail e -> outs0 (ub_int8 e i marker) e (int8_b i marker).
Proof.
  intro H. unfold ub_int8, int8_b. apply outs0_bind; [apply opt_marker_outs; exact H|].
  intros e1 H1. apply uw_outs0; exact H1.
Qed.
Lemma ub_uint8_outs e u marker : nofail e -> outs0 (ub_uint8 e u marker) e (uint8_b u marker).
Proof. intro H. unfold ub_uint8, uint8_b, optm. destruct marker; apply uw_outs0; exact H. Qed.
Lemma ub_int16_outs e i marker : nofail e -> outs0 (ub_int16 e i marker) e (int16_b i marker).
Proof.
  intro H. unfold ub_int16, int16_b. apply outs0_bind; [apply opt_marker_outs; exact H|].
  intros e1 H1. apply uw_outs0; exact H1.
Qed.
Lemma ub_int32_outs e i marker : nofail e -> outs0 (ub_int32 e i marker) e (int32_b i marker).
Proof.
  intro H. unfold ub_int32, int32_b. apply outs0_bind; [apply opt_marker_outs; exact H|].
  intros e1 H1. apply uw_outs0; exact H1.
Qed.
Lemma ub_int64_outs e i marker : nofail e -> outs0 (ub_int64 e i marker) e (int64_b i marker).
Proof.
  intro H. unfold ub_int64, int64_b. apply outs0_bind; [apply opt_marker_outs; exact H|].
  intros e1 H1. apply uw_outs0; exact H1.
Qed.

Lemma ub_onint_outs e i marker : nofail e -> outs0 (ub_onint e i marker) e (onint_b i marker).
Proof.
  intro H. unfold ub_onint, onint_b.
  destruct ((-128 <=? i) && (i <=? 127)); [apply ub_int8_outs; exact H|].
  destruct ((0 <=? i) && (i <=? 255)); [apply ub_uint8_outs; exact H|].
  destruct ((-32768 <=? i) && (i <=? 32767)); [apply ub_int16_outs; exact H|].
  destruct ((-2147483648 <=? i) && (i <=? 2147483647)); [apply ub_int32_outs; exact H|].
  apply ub_int64_outs; exact H.
Qed.

Lemma ub_writelen_outs e l : nofail e -> outs0 (ub_writelen e l) e (len_b l).
Proof. apply ub_onint_outs. Qed.

Lemma ub_highprec_outs e u marker : nofail e -> outs0 (ub_highprec e u marker) e (highprec_b u marker).
Proof.
  intro H. unfold ub_highprec, highprec_b.
  apply outs0_bind; [apply opt_marker_outs; exact H|]. intros e1 H1. cbv zeta.
  apply outs0_bind; [apply ub_writelen_outs; exact H1|]. intros e2 H2.
  apply uw_outs0; exact H2.
Qed.

Lemma ub_uint64_outs e u t marker : nofail e -> outs0 (ub_uint64 e u t marker) e (uint64_b u t marker).
Proof.
  intro H. unfold ub_uint64, uint64_b.
  destruct (t =? mi); [apply ub_int8_outs; exact H|].
  destruct (t =? mU); [apply ub_uint8_outs; exact H|].
  destruct (t =? mI); [apply ub_int16_outs; exact H|].
  destruct (t =? ml); [apply ub_int32_outs; exact H|].
  destruct (t =? mL); [apply ub_int64_outs; exact H|].
  apply ub_highprec_outs; exact H.
Qed.

Lemma zlen_0_nil {A} (l : list A) : zlen l = 0 -> l = [].
Proof. destruct l; [reflexivity|]. unfold zlen. cbn [length]. lia. Qed.

Lemma ub_string_outs e s marker : nofail e -> outs0 (ub_string e s marker) e (string_b s marker).
Proof.
  intro H. unfold ub_string, string_b.
  apply outs0_bind; [apply opt_marker_outs; exact H|]. intros e1 H1.
  apply outs0_bind; [apply ub_writelen_outs; exact H1|]. intros e2 H2.
  destruct (zlen s =? 0) eqn:E.
  - apply Z.eqb_eq in E. apply zlen_0_nil in E. subst s. apply ret_outs0; exact H2.
  - apply uw_outs0; exact H2.
Qed.

Lemma ub_float32_outs e z marker : nofail e -> outs0 (ub_float32 e z marker) e (float32_b z marker).
Proof.
  intro H. unfold ub_float32, float32_b. apply outs0_bind; [apply opt_marker_outs; exact H|].
  intros e1 H1. apply uw_outs0; exact H1.
Qed.
Lemma ub_float64_outs e z marker : nofail e -> outs0 (ub_float64 e z marker) e (float64_b z marker).
Proof.
  intro H. unfold ub_float64, float64_b. apply outs0_bind; [apply opt_marker_outs; exact H|].
  intros e1 H1. apply uw_outs0; exact H1.
Qed.

Lemma ub_onint16_outs e i : nofail e -> outs0 (ub_onint16 e i) e (onint16_b i).
Proof.
  intro H. unfold ub_onint16, onint16_b.
  destruct (_ && _); [apply ub_int8_outs | apply ub_int16_outs]; exact H.
Qed.
Lemma ub_onint32_outs e i : nofail e -> outs0 (ub_onint32 e i) e (onint32_b i).
Proof.
  intro H. unfold ub_onint32, onint32_b.
  destruct (_ && _); [apply ub_onint16_outs | apply ub_int32_outs]; exact H.
Qed.
Lemma ub_onint64_outs e i : nofail e -> outs0 (ub_onint64 e i) e (onint64_b i).
Proof.
  intro H. unfold ub_onint64, onint64_b.
  destruct (_ && _); [apply ub_onint32_outs | apply ub_int64_outs]; exact H.
Qed.

Lemma ub_scalar_outs e s : nofail e -> outs0 (ub_scalar e s) e (scalar_b s).
Proof.
  intro H. destruct s as [|b|s|kd z]; cbn [ub_scalar scalar_b].
  - apply uw_outs0; exact H.
  - destruct b; apply uw_outs0; exact H.
  - apply ub_string_outs; exact H.
  - destruct kd; try (destruct (z >? 127));
      first [ apply ub_int8_outs | apply ub_onint16_outs | apply ub_onint32_outs
            | apply ub_onint64_outs | apply ub_onint_outs | apply uw_outs0
            | apply ub_uint8_outs | apply ub_uint64_outs | apply ub_float32_outs
            | apply ub_float64_outs ]; exact H.
Qed.

Lemma ub_elem_outs e bt t s : nofail e -> outs0 (ub_elem e bt t s) e (elem_b bt t s).
Proof.
  intro H. destruct bt; cbn [ub_elem elem_b];
    first [ apply ret_outs0 | apply ub_string_outs | apply ub_int8_outs | apply ub_int16_outs
          | apply ub_int32_outs | apply ub_int64_outs | apply ub_uint8_outs
          | apply ub_uint64_outs | apply ub_float32_outs | apply ub_float64_outs ]; exact H.
Qed.

Lemma ub_elems_outs bt t l : forall e, nofail e -> outs0 (ub_elems e bt t l) e (flat_map (elem_b bt t) l).
Proof.
  induction l as [|s r IH]; intros e H; cbn [ub_elems flat_map].
  - apply ret_outs0; exact H.
  - apply outs0_bind; [apply ub_elem_outs; exact H|]. intros e1 H1. apply IH; exact H1.
Qed.

Lemma ub_bools_outs l : forall e, nofail e -> outs0 (ub_bools e l) e (flat_map bool_b l).
Proof.
  induction l as [|s r IH]; intros e H; cbn [ub_bools flat_map].
  - apply ret_outs0; exact H.
  - apply outs0_bind; [apply uw_outs0; exact H|]. intros e1 H1. apply IH; exact H1.
Qed.

Lemma ub_members_outs bt t l : forall e, nofail e ->
  outs0 (ub_members e bt t l) e (flat_map (fun m => string_b (fst m) false ++ elem_b bt t (snd m)) l).
Proof.
  induction l as [|[key s] r IH]; intros e H; cbn [ub_members flat_map fst snd].
  - apply ret_outs0; exact H.
  - rewrite <- app_assoc.
    apply outs0_bind; [apply ub_string_outs; exact H|]. intros e1 H1.
    apply outs0_bind; [apply ub_elem_outs; exact H1|]. intros e2 H2. apply IH; exact H2.
Qed.

Lemma ub_bool_members_outs l : forall e, nofail e ->
  outs0 (ub_bool_members e l) e (flat_map (fun m => string_b (fst m) false ++ bool_b (snd m)) l).
Proof.
  induction l as [|[key s] r IH]; intros e H; cbn [ub_bool_members flat_map fst snd].
  - apply ret_outs0; exact H.
  - rewrite <- app_assoc.
    apply outs0_bind; [apply ub_string_outs; exact H|]. intros e1 H1.
    apply outs0_bind; [apply uw_outs0; exact H1|]. intros e2 H2. apply IH; exact H2.
Qed.

(* containers: the length stack *)
Lemma ub_oncount_outs e l : nofail e -> outs (ub_oncount e l) e (count_b l) (ls_push (ue_len e) l).
Proof.
  intro H. unfold ub_oncount, count_b. destruct (l <=? 0).
  - eexists. split; [reflexivity|]. split; [exact H|]. split; [|reflexivity].
    cbn [ue_w]. rewrite app_nil_r. reflexivity.
  - change (mCount :: len_b l) with ([mCount] ++ len_b l).
    set (e1 := {| ue_w := ue_w e; ue_len := ls_push (ue_len e) l |}).
    change (ls_push (ue_len e) l) with (ue_len e1).
    assert (H1 : nofail e1) by exact H.
    assert (O : outs0 (uw e1 [mCount] >>> fun e => ub_writelen e l) e1 ([mCount] ++ len_b l)).
    { apply outs0_bind; [apply uw_outs0; exact H1|]. intros e2 H2. apply ub_writelen_outs; exact H2. }
    exact O.
Qed.

Lemma ub_start_outs e m l : nofail e -> outs (ub_start e m l) e (m :: count_b l) (ls_push (ue_len e) l).
Proof.
  intro H. unfold ub_start. change (m :: count_b l) with ([m] ++ count_b l).
  eapply outs_bind; [apply uw_outs0; exact H|].
  intros e1 (F1 & B1 & L1). rewrite <- L1. apply ub_oncount_outs; exact F1.
Qed.

Lemma ls_pop_push s l : ls_pop (ls_push s l) = (s, l).
Proof. destruct s; reflexivity. Qed.

Lemma ub_finish_outs e m ls0 l : nofail e -> ue_len e = ls_push ls0 l ->
  outs (ub_finish e m) e (close_b l m) ls0.
Proof.
  intros H HL. unfold ub_finish, close_b. rewrite HL, ls_pop_push.
  destruct (l <=? 0).
  - set (e1 := {| ue_w := ue_w e; ue_len := ls0 |}).
    assert (O : outs0 (uw e1 [m]) e1 [m]) by (apply uw_outs0; exact H).
    exact O.
  - eexists. split; [reflexivity|]. split; [exact H|]. split; [|reflexivity].
    cbn [ue_w]. rewrite app_nil_r. reflexivity.
Qed.

Lemma ubj_on_xarr_outs e bt es : nofail e -> outs0 (ubj_on e (EXArr bt es)) e (xarr_b bt es).
Proof.
  intro H. rewrite ubj_on_xarr. unfold xarr_b. destruct (is_bool_bt bt).
  - unfold outs0. eapply outs_bind; [apply ub_start_outs; exact H|].
    intros e1 (F1 & B1 & L1).
    eapply outs_bind.
    { apply outs_eq with (bs := flat_map bool_b es); [|reflexivity].
      apply ub_bools_outs; exact F1. }
    intros e2 (F2 & B2 & L2). apply ub_finish_outs; [exact F2|]. rewrite L2. exact L1.
  - destruct (zlen es <=? 0); [apply uw_outs0; exact H|].
    apply outs0_bind; [apply uw_outs0; exact H|]. intros e1 H1.
    apply outs0_bind; [apply ub_writelen_outs; exact H1|]. intros e2 H2.
    apply ub_elems_outs; exact H2.
Qed.

Lemma ubj_on_xobj_outs e bt ms : nofail e -> outs0 (ubj_on e (EXObj bt ms)) e (xobj_b bt ms).
Proof.
  intro H. rewrite ubj_on_xobj. unfold xobj_b.
  destruct (zlen ms <=? 0); [apply uw_outs0; exact H|].
  destruct (is_bool_bt bt).
  - unfold outs0. eapply outs_bind; [apply ub_start_outs; exact H|].
    intros e1 (F1 & B1 & L1).
    eapply outs_bind.
    { apply ub_bool_members_outs; exact F1. }
    intros e2 (F2 & B2 & L2). apply ub_finish_outs; [exact F2|]. rewrite L2. exact L1.
  - apply outs0_bind; [apply uw_outs0; exact H|]. intros e1 H1.
    apply outs0_bind; [apply ub_writelen_outs; exact H1|]. intros e2 H2.
    apply ub_members_outs; exact H2.
Qed.

(* ---------- call sequences ---------- *)
Definition runs (e : uenc) (evs : list event) (bs : bytes) (ls : lstack) : Prop :=
  forall i, exists e', ubj_run e evs i = (e', None) /\ post e bs ls e'.

Lemma runs_eq e evs bs bs' ls : runs e evs bs ls -> bs = bs' -> runs e evs bs' ls.
Proof. intros H <-. exact H. Qed.

Lemma runs_nil e : nofail e -> runs e [] [] (ue_len e).
Proof.
  intros H i. exists e. split; [reflexivity|]. split; [exact H|]. split; [|reflexivity].
  rewrite app_nil_r. reflexivity.
Qed.

Lemma runs_cons e ev r bs1 ls1 bs2 ls2 :
  outs (ubj_on e ev) e bs1 ls1 -> (forall e1, post e bs1 ls1 e1 -> runs e1 r bs2 ls2) ->
  runs e (ev :: r) (bs1 ++ bs2) ls2.
Proof.
  intros (e1 & E1 & P1) Hr i. cbn [ubj_run]. rewrite E1.
  destruct (Hr e1 P1 (S i)) as (e2 & E2 & P2). exists e2. split; [exact E2|].
  eapply post_trans; eassumption.
Qed.

Lemma ubj_run_app a : forall e b i,
  ubj_run e (a ++ b) i =
  match ubj_run e a i with
  | (e1, None) => ubj_run e1 b (i + length a)
  | x => x
  end.
Proof.
  induction a as [|ev r IH]; intros e b i.
  - cbn [app ubj_run length]. rewrite Nat.add_0_r. reflexivity.
  - cbn [app ubj_run length]. destruct (ubj_on e ev) as [e0 ok]. destruct ok; [|reflexivity].
    rewrite IH. replace (S i + length r)%nat with (i + S (length r))%nat by lia. reflexivity.
Qed.

Lemma runs_app e a b bs1 ls1 bs2 ls2 :
  runs e a bs1 ls1 -> (forall e1, post e bs1 ls1 e1 -> runs e1 b bs2 ls2) ->
  runs e (a ++ b) (bs1 ++ bs2) ls2.
Proof.
  intros Ha Hb i. destruct (Ha i) as (e1 & E1 & P1).
  rewrite ubj_run_app, E1.
  destruct (Hb e1 P1 (i + length a)%nat) as (e2 & E2 & P2). exists e2. split; [exact E2|].
  eapply post_trans; eassumption.
Qed.

Lemma runs_one e ev bs ls : outs (ubj_on e ev) e bs ls -> runs e [ev] bs ls.
Proof.
  intros (e1 & E1 & P1) i. cbn [ubj_run]. rewrite E1. exists e1. split; [reflexivity | exact P1].
Qed.

(* ---------- a whole tree ---------- *)
Definition runs_tree (t : tree) : Prop :=
  forall e, nofail e -> runs e (flatten t) (tbytes t) (ue_len e).

Lemma runs_elems es : Forall runs_tree es ->
  forall e, nofail e -> runs e (flatten_elems es) (flat_map tbytes es) (ue_len e).
Proof.
  induction 1 as [|t r Ht Hr IH]; intros e H; cbn [flatten_elems flat_map].
  - apply runs_nil; exact H.
  - eapply runs_app; [apply Ht; exact H|].
    intros e1 (F1 & B1 & L1). rewrite <- L1. apply IH; exact F1.
Qed.

Lemma runs_members ms : Forall (fun m => runs_tree (snd m)) ms ->
  forall e, nofail e ->
  runs e (flatten_members ms)
       (flat_map (fun m => string_b (fst (fst m)) false ++ tbytes (snd m)) ms) (ue_len e).
Proof.
  induction 1 as [|[[k r] t] rest Ht Hr IH]; intros e H; cbn [flatten_members flat_map fst snd].
  - apply runs_nil; exact H.
  - cbn [snd] in Ht. rewrite <- app_assoc.
    change ((key_event k r :: flatten t) ++ flat_map (fun m => match m with (k, r, e) => key_event k r :: flatten e end) rest)
      with (key_event k r :: (flatten t ++ flatten_members rest)).
    apply runs_cons with (ls1 := ue_len e).
    { assert (O : outs0 (ubj_on e (key_event k r)) e (string_b k false)).
      { destruct r; cbn [key_event ubj_on]; apply ub_string_outs; exact H. }
      exact O. }
    intros e1 (F1 & B1 & L1). rewrite <- L1.
    eapply runs_app; [apply Ht; exact F1|].
    intros e2 (F2 & B2 & L2). rewrite <- L2. apply IH; exact F2.
Qed.

Lemma runs_tree_all t : runs_tree t.
Proof.
  induction t as [s r|len bt es IH|len bt ms IH|bt es|bt ms] using tree_ind'; intros e H.
  - assert (O : outs0 (ubj_on e (match s, r with SStr b, true => EStrRef b | _, _ => EVal s end)) e (scalar_b s)).
    { destruct s as [|b|b|kd z]; try destruct r; cbn [ubj_on]; first [apply ub_scalar_outs | apply ub_string_outs]; exact H. }
    cbn [tbytes]. destruct s as [|b|b|kd z]; try destruct r; cbn [flatten]; apply runs_one; exact O.
  - rewrite flatten_arr. cbn [tbytes].
    apply runs_cons with (ls1 := ls_push (ue_len e) len).
    { cbn [ubj_on]. apply ub_start_outs; exact H. }
    intros e1 (F1 & B1 & L1).
    eapply runs_app.
    { apply runs_elems; [exact IH | exact F1]. }
    intros e2 (F2 & B2 & L2).
    apply runs_eq with (bs := close_b len mArrE ++ []); [|apply app_nil_r].
    apply runs_cons with (ls1 := ue_len e).
    { cbn [ubj_on]. apply ub_finish_outs; [exact F2|]. rewrite L2. exact L1. }
    intros e3 (F3 & B3 & L3). rewrite <- L3. apply runs_nil; exact F3.
  - rewrite flatten_obj. cbn [tbytes].
    apply runs_cons with (ls1 := ls_push (ue_len e) len).
    { cbn [ubj_on]. apply ub_start_outs; exact H. }
    intros e1 (F1 & B1 & L1).
    eapply runs_app.
    { apply runs_members; [exact IH | exact F1]. }
    intros e2 (F2 & B2 & L2).
    apply runs_eq with (bs := close_b len mObjE ++ []); [|apply app_nil_r].
    apply runs_cons with (ls1 := ue_len e).
    { cbn [ubj_on]. apply ub_finish_outs; [exact F2|]. rewrite L2. exact L1. }
    intros e3 (F3 & B3 & L3). rewrite <- L3. apply runs_nil; exact F3.
  - cbn [flatten tbytes]. apply runs_one. apply ubj_on_xarr_outs; exact H.
  - cbn [flatten tbytes]. apply runs_one. apply ubj_on_xobj_outs; exact H.
Qed.

(* The encoder, on the events of any tree and a writer that does not fail:
   every call returns nil, the bytes written are [tbytes t], and the length
   stack is back where it was. *)
Theorem ubj_run_tbytes : forall t e i, w_fail (ue_w e) = None ->
  exists e', ubj_run e (flatten t) i = (e', None) /\
    ue_len e' = ue_len e /\ w_fail (ue_w e') = None /\
    w_bytes (ue_w e') = w_bytes (ue_w e) ++ tbytes t.
Proof.
  intros t e i H. destruct (runs_tree_all t e H i) as (e' & E & F & B & L).
  exists e'. auto.
Qed.
Print Assumptions ubj_run_tbytes.

(* C17 (encoder part): after a complete value the encoder is idle again:
   the length stack is exactly what it was, whatever the tree. *)
Theorem C17_ubj_enc_idle_any : forall t e i, w_fail (ue_w e) = None ->
  exists e', ubj_run e (flatten t) i = (e', None) /\ ue_len e' = ue_len e.
Proof.
  intros t e i H. destruct (ubj_run_tbytes t e i H) as (e' & E & L & _). exists e'. auto.
Qed.
Print Assumptions C17_ubj_enc_idle_any.

Theorem ubj_encode_tbytes : forall t, ubj_encode (flatten t) = Some (tbytes t).
Proof.
  intro t. unfold ubj_encode.
  destruct (ubj_run_tbytes t (uenc0 None) 0%nat eq_refl) as (e' & E & _ & _ & B).
  rewrite E, B. reflexivity.
Qed.
Print Assumptions ubj_encode_tbytes.
