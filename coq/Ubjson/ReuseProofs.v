(* C17 (behavioural form) and C18 (one value per Next, call-by-call script independence,
   streams of documents) for the UBJSON parser model (Ubjson/Parse.v).
   All theorems are closed under the global context.

   C17  veq p q: all fields equal except up_vtype (the cached element type of the last typed
        container).  uexec_svt: one execStep does not depend on up_vtype except in state
        (stArrayTyped, stWithLen), and overwrites it in (st*Typed, stStart); step_rel: related
        parsers stay related, with the invariant "in the states between the write and the read
        of up_vtype the two runs are EQUAL" (rel; pass ubody0_Y: those states are reached from
        (stArrayTyped, stStart) only).
        C17_ubj_parse_vtype_dead, C17_ubj_writes_vtype_dead: same events, same verdict, same
        failure, veq-related final parsers, for every visitor behaviour.
        C17_ubj_session_step / C17_ubj_session (guard no_zero_typed, via ParseSafety.ext3b) and
        C17_ubj_session_step_noguard / C17_ubj_session_noguard / C17_ubj_run_*_fresh_noguard
        (no premise on the input): a reused parser behaves as a new one, and after ANY accepted
        input it is fresh-like again: state stack, valueState stack (pass ubody0_V) and length
        stack (lshape, pass ubody0_Y) are empty, no buffer / marker / error is pending.
   C18  mrun_tree: a monitor for "the events of exactly one value"; step_mon (pass ubody0_X):
        the events of one execStep drive the monitor from the state of the parser before the
        step to the state after it, and done is returned exactly when the monitor finishes.
        C18_ubj_next_tree, C18_ubj_next_one_value: a Next that returns nil delivered the events
        of exactly one tree (and consumed input).
        exec_done_ext: a step that reports done is the same step on every longer input (only the
        first alternative of ChunkProofs.Dich is possible).
        udec_next_sound: Next computes NextW (parser, bytes still to come);
        C18_ubj_script_independent_next, C18_ubj_script_independent, C18_ubj_scripts_same_data_next,
        C18_ubj_reader_as_bytes_next: same events and verdict for EACH call of Next.
        C18_ubj_reader_stream(_partial): a stream of k documents accepted by the reference
        decoder: k calls deliver the k trees, the next call reports io.EOF. *)
From Coq Require Import Setoid List NArith ZArith Bool Lia.
From Coq Require Import ZifyBool ZifyNat ZifyN.
From SF Require Import Base.Prelude Core.Events Core.EventsProofs Ubjson.Spec Ubjson.Parse Ubjson.ChunkProofs
  Ubjson.ParseVisitorProofs.
Import ListNotations.
Open Scope Z_scope.
Ltac Zify.zify_post_hook ::= Z.div_mod_to_equations.

(* ====================================================================== *)
(* Part 1: up_vtype is dead outside the header of a typed array            *)
(* ====================================================================== *)
Notation svt := CP.uset_vtype.

Definition veq (p q : uparser) : Prop :=
  up_cur p = up_cur q /\ up_stack p = up_stack q /\ up_vcur p = up_vcur q /\ up_vstack p = up_vstack q /\
  up_lcur p = up_lcur q /\ up_lstack p = up_lstack q /\ up_buf p = up_buf q /\ up_marker p = up_marker q /\
  up_err p = up_err q.

Lemma veq_svt : forall p q, veq p q <-> q = svt p (up_vtype q).
Proof.
  intros p q. split.
  - intros (A & B & C & D & E & F & G & H & I). destruct q. unfold CP.uset_vtype. cbn in *. congruence.
  - intros ->. repeat split.
Qed.

Lemma veq_refl : forall p, veq p p.
Proof. intros p. repeat split. Qed.
Lemma veq_sym : forall p q, veq p q -> veq q p.
Proof. intros p q (A & B & C & D & E & F & G & H & I). repeat split; congruence. Qed.
Lemma veq_trans : forall p q r, veq p q -> veq q r -> veq p r.
Proof.
  intros p q r (A & B & C & D & E & F & G & H & I) (A' & B' & C' & D' & E' & F' & G' & H' & I').
  repeat split; congruence.
Qed.
Lemma veq_svt_l : forall p vt, veq p (svt p vt).
Proof. intros. repeat split. Qed.

(* ---------- setters commute with svt ---------- *)
Section SvtAlgebra.
Variables (p : uparser) (vt : btype).
Lemma sv_cur : up_cur (svt p vt) = up_cur p. Proof. reflexivity. Qed.
Lemma sv_stack : up_stack (svt p vt) = up_stack p. Proof. reflexivity. Qed.
Lemma sv_vcur : up_vcur (svt p vt) = up_vcur p. Proof. reflexivity. Qed.
Lemma sv_vstack : up_vstack (svt p vt) = up_vstack p. Proof. reflexivity. Qed.
Lemma sv_lcur : up_lcur (svt p vt) = up_lcur p. Proof. reflexivity. Qed.
Lemma sv_lstack : up_lstack (svt p vt) = up_lstack p. Proof. reflexivity. Qed.
Lemma sv_buf : up_buf (svt p vt) = up_buf p. Proof. reflexivity. Qed.
Lemma sv_marker : up_marker (svt p vt) = up_marker p. Proof. reflexivity. Qed.
Lemma sv_err : up_err (svt p vt) = up_err p. Proof. reflexivity. Qed.
Lemma sv_vtype : up_vtype (svt p vt) = vt. Proof. reflexivity. Qed.
Lemma sv_set_cur : forall c, uset_cur (svt p vt) c = svt (uset_cur p c) vt. Proof. reflexivity. Qed.
Lemma sv_set_buf : forall b, uset_buf (svt p vt) b = svt (uset_buf p b) vt. Proof. reflexivity. Qed.
Lemma sv_set_lcur : forall l, uset_lcur (svt p vt) l = svt (uset_lcur p l) vt. Proof. reflexivity. Qed.
Lemma sv_set_marker : forall m, uset_marker (svt p vt) m = svt (uset_marker p m) vt. Proof. reflexivity. Qed.
Lemma sv_set_err : forall e, uset_err (svt p vt) e = svt (uset_err p e) vt. Proof. reflexivity. Qed.
Lemma sv_set_step : forall s, uset_step (svt p vt) s = svt (uset_step p s) vt. Proof. reflexivity. Qed.
Lemma sv_set_type : forall t, uset_type (svt p vt) t = svt (uset_type p t) vt. Proof. reflexivity. Qed.
Lemma sv_push : forall st, u_push (svt p vt) st = svt (u_push p st) vt. Proof. reflexivity. Qed.
Lemma sv_lpush : forall l, ul_push (svt p vt) l = svt (ul_push p l) vt. Proof. reflexivity. Qed.
Lemma sv_pop : u_pop (svt p vt) = svt (u_pop p) vt.
Proof. unfold u_pop. cbn [CP.uset_vtype up_stack]. destruct (up_stack p); reflexivity. Qed.
Lemma sv_lpop : ul_pop (svt p vt) = svt (ul_pop p) vt.
Proof. unfold ul_pop. cbn [CP.uset_vtype up_lstack]. destruct (up_lstack p); reflexivity. Qed.
Lemma sv_vpop : v_pop (svt p vt) = svt (v_pop p) vt.
Proof. unfold v_pop. cbn [CP.uset_vtype up_vstack]. destruct (up_vstack p); reflexivity. Qed.
Lemma sv_vpush : forall st bt, v_push (svt p vt) st bt = v_push p st bt. Proof. reflexivity. Qed.
Lemma sv_svt : forall vt', svt (svt p vt) vt' = svt p vt'. Proof. reflexivity. Qed.
Lemma sv_cstep : can_step_without_input (svt p vt) = can_step_without_input p. Proof. reflexivity. Qed.
End SvtAlgebra.

Global Hint Rewrite sv_cur sv_stack sv_vcur sv_vstack sv_lcur sv_lstack sv_buf sv_marker sv_err sv_vtype
  sv_set_cur sv_set_buf sv_set_lcur sv_set_marker sv_set_err sv_set_step sv_set_type
  sv_push sv_lpush sv_pop sv_lpop sv_vpop sv_vpush : svtdb.

Definition mapC (vt : btype) (r : ucres) : ucres :=
  match r with UC p rest tmp => UC (svt p vt) rest tmp | UCC => UCC end.
Definition mapL (vt : btype) (r : ulres) : ulres :=
  match r with UL p rest e => UL (svt p vt) rest e | ULC w => ULC w end.
Definition mapR (vt : btype) (r : ures) : ures :=
  match r with UR p s rest d e => UR (svt p vt) s rest d e | UCrash w => UCrash w end.
Definition mapO (vt : btype) (r : ocres) : ocres :=
  match r with OC f p s rest e => OC f (svt p vt) s rest e | OCC w => OCC w end.

(* the scrutinee that blocks the reduction of a term at its head *)
Ltac scrut t :=
  match t with
  | if ?c then _ else _ => c
  | match ?x with [] => _ | _ :: _ => _ end => scrut_in x
  | match ?x with Some _ => _ | None => _ end => scrut_in x
  | match ?x with UC _ _ _ => _ | UCC => _ end => scrut_in x
  | match ?x with UL _ _ _ => _ | ULC _ => _ end => scrut_in x
  | match ?x with UR _ _ _ _ _ => _ | UCrash _ => _ end => scrut_in x
  | match ?x with OC _ _ _ _ _ => _ | OCC _ => _ end => scrut_in x
  | match ?x with (_, _) => _ end => scrut_in x
  | mapC _ ?x => scrut_in x
  | mapL _ ?x => scrut_in x
  | mapR _ ?x => scrut_in x
  | mapO _ ?x => scrut_in x
  | value_nodone ?x => scrut_in x
  | of_ul ?x _ => scrut_in x
  end
with scrut_in x :=
  match x with
  | _ => scrut x
  | context[if ?c then _ else _] => c
  | _ => x
  end.

Ltac sv_auto :=
  repeat first
    [ progress autorewrite with svtdb
    | progress cbn [mapC mapL mapR mapO of_ul value_nodone]
    | progress cbv beta iota zeta
    | match goal with |- ?L = _ => let c := scrut L in destruct c end ];
  try reflexivity.

Lemma ucollect_svt : forall p vt b k, ucollect (svt p vt) b k = mapC vt (ucollect p b k).
Proof. intros. unfold ucollect. sv_auto. Qed.
Global Hint Rewrite ucollect_svt : svtdb.

Lemma ustep_len_svt : forall p vt b cont, ustep_len (svt p vt) b cont = mapL vt (ustep_len p b cont).
Proof. intros. unfold ustep_len. sv_auto. Qed.
Global Hint Rewrite ustep_len_svt : svtdb.

Lemma ustep_value_svt : forall p vt s b, ustep_value (svt p vt) s b = mapR vt (ustep_value p s b).
Proof. intros. unfold ustep_value. sv_auto. Qed.
Global Hint Rewrite ustep_value_svt : svtdb.

Lemma ustep_fixed_svt : forall p vt s b, ustep_fixed (svt p vt) s b = mapR vt (ustep_fixed p s b).
Proof. intros. unfold ustep_fixed, upop_state. sv_auto. Qed.

Lemma ustep_string_svt : forall p vt s b, ustep_string (svt p vt) s b = mapR vt (ustep_string p s b).
Proof. intros. unfold ustep_string, upop_len_state, upop_state. sv_auto. Qed.

Lemma obj_content_svt : forall p vt s b typed,
  ustep_obj_content (svt p vt) s b typed = mapO vt (ustep_obj_content p s b typed).
Proof. intros. unfold ustep_obj_content. sv_auto. Qed.

(* stepType writes up_vtype: after a successful stepType the two runs coincide *)
Definition mapLe (vt : btype) (r : ulres) : ulres :=
  match r with UL p rest e => UL (if unil e then p else svt p vt) rest e | ULC w => ULC w end.
Definition mapRe (vt : btype) (r : ures) : ures :=
  match r with UR p s rest d e => UR (if unil e then p else svt p vt) s rest d e | UCrash w => UCrash w end.

Lemma ustep_type_svt : forall p vt b cont, ustep_type (svt p vt) b cont = mapLe vt (ustep_type p b cont).
Proof.
  intros. unfold ustep_type. destruct b as [|m r]; [reflexivity|].
  destruct (marker_state m); [|reflexivity]. destruct (m =? mN); reflexivity.
Qed.

Lemma ustep_header_svt : forall p vt b,
  ustep_header (svt p vt) b =
  (if u_s (up_cur p) =? sStart then mapLe vt else mapL vt) (ustep_header p b).
Proof.
  intros. unfold ustep_header. autorewrite with svtdb.
  destruct (u_s (up_cur p) =? sStart); [apply ustep_type_svt|].
  sv_auto.
Qed.

Lemma of_ul_mapL : forall vt r s, of_ul (mapL vt r) s = mapR vt (of_ul r s).
Proof. intros vt [p rest e|w] s; reflexivity. Qed.
Lemma of_ul_mapLe : forall vt r s, of_ul (mapLe vt r) s = mapRe vt (of_ul r s).
Proof. intros vt [p rest e|w] s; reflexivity. Qed.

Lemma xlatch_mapR : forall vt r, xlatch (mapR vt r) = mapR vt (xlatch r).
Proof. intros vt [p s rest d e|w]; [|reflexivity]. cbn [mapR xlatch]. destruct (unil e); reflexivity. Qed.
Lemma xlatch_mapRe : forall vt r, xlatch (mapRe vt r) = mapRe vt (xlatch r).
Proof. intros vt [p s rest d e|w]; [|reflexivity]. cbn [mapRe xlatch]. destruct (unil e) eqn:E; cbn [mapRe]; rewrite E; reflexivity. Qed.

Lemma arr_start_svt : forall p vt s b, arr_start (svt p vt) s b = mapR vt (arr_start p s b).
Proof. intros. unfold arr_start. sv_auto. Qed.
Lemma obj_start_svt : forall p vt s b, obj_start (svt p vt) s b = mapR vt (obj_start p s b).
Proof. intros. unfold obj_start. sv_auto. Qed.
Lemma arr_dyn_svt : forall p vt s b, arr_dyn (svt p vt) s b = mapR vt (arr_dyn p s b).
Proof. intros. unfold arr_dyn, upop_state. sv_auto. Qed.
Lemma arr_counted_svt : forall p vt s b, arr_counted (svt p vt) s b = mapR vt (arr_counted p s b).
Proof. intros. unfold arr_counted, upop_len_state, upop_state. sv_auto. Qed.
Lemma obj_dyn_emptykey_svt : forall p vt s b, obj_dyn_emptykey (svt p vt) s b = mapR vt (obj_dyn_emptykey p s b).
Proof. intros. unfold obj_dyn_emptykey. sv_auto. Qed.
Lemma obj_dyn_svt : forall p vt s b, obj_dyn (svt p vt) s b = mapR vt (obj_dyn p s b).
Proof. intros. unfold obj_dyn, upop_state. sv_auto. Qed.
Lemma obj_counted_svt : forall p vt s b, obj_counted (svt p vt) s b = mapR vt (obj_counted p s b).
Proof.
  intros. unfold obj_counted. autorewrite with svtdb.
  destruct (u_s (up_cur p) =? sStart); [apply of_ul_mapL|].
  rewrite obj_content_svt. destruct (ustep_obj_content p s b false) as [fin p1 s1 rest err|w]; [|reflexivity].
  cbn [mapO]. unfold upop_len_state, upop_state. sv_auto.
Qed.

Definition hdr_step (c : ustate) : bool :=
  (u_s c =? sStart) || (u_s c =? sWithType0) || (u_s c =? sWithType1).

Lemma obj_typed_svt : forall p vt s b,
  obj_typed (svt p vt) s b =
  (if u_s (up_cur p) =? sStart then mapRe vt else mapR vt) (obj_typed p s b).
Proof.
  intros. unfold obj_typed. autorewrite with svtdb.
  destruct ((u_s (up_cur p) =? sStart) || (u_s (up_cur p) =? sWithType0) || (u_s (up_cur p) =? sWithType1)) eqn:Eh.
  - rewrite ustep_header_svt. destruct (u_s (up_cur p) =? sStart); [apply of_ul_mapLe|apply of_ul_mapL].
  - destruct (u_s (up_cur p) =? sStart) eqn:E0; [discriminate Eh|].
    rewrite obj_content_svt. destruct (ustep_obj_content p s b true) as [fin p1 s1 rest err|w]; [|reflexivity].
    cbn [mapO]. unfold upop_len_state, upop_state. sv_auto.
Qed.

(* the typed array: the only reader of up_vtype is the step in state stWithLen *)
Lemma arr_typed_svt : forall rec p vt s b,
  (forall q s' b', up_cur q = up_vcur p -> up_vcur q = up_vcur p -> rec (svt q vt) s' b' = mapR vt (rec q s' b')) ->
  (u_s (up_cur p) =? sWithLen) = false ->
  arr_typed rec (svt p vt) s b =
  (if u_s (up_cur p) =? sStart then mapRe vt else mapR vt) (arr_typed rec p s b).
Proof.
  intros rec p vt s b Hrec Hw. unfold arr_typed. autorewrite with svtdb. rewrite Hw.
  destruct ((u_s (up_cur p) =? sStart) || (u_s (up_cur p) =? sWithType0) || (u_s (up_cur p) =? sWithType1)) eqn:Eh.
  - rewrite ustep_header_svt. destruct (u_s (up_cur p) =? sStart); [apply of_ul_mapLe|apply of_ul_mapL].
  - destruct (u_s (up_cur p) =? sStart) eqn:E0; [discriminate Eh|].
    cbv beta iota zeta. change (unil unilE) with true. cbn [negb]. cbv iota.
    destruct (up_lcur p =? 0).
    + unfold upop_len_state, upop_state. sv_auto.
    + autorewrite with svtdb. rewrite Hrec by reflexivity.
      destruct (rec _ s b); reflexivity.
Qed.

(* states that write / read up_vtype *)
Definition wr (c : ustate) : bool := ((u_t c =? tArrayTyped) || (u_t c =? tObjectTyped)) && (u_s c =? sStart).
Definition rd1 (c : ustate) : bool := (u_t c =? tArrayTyped) && (u_s c =? sWithLen).
Definition vplain (c : ustate) : bool := negb ((u_t c =? tArrayTyped) || (u_t c =? tObjectTyped)).

Ltac tnum := cbn [Z.eqb Pos.eqb orb andb negb tFail tNext tFixed tHighPrec tString tArray tArrayDyn tArrayCount
                  tArrayTyped tObject tObjectDyn tObjectCount tObjectTyped].

Lemma xbody0_svt : forall rec p vt s b,
  (forall q s' b', up_cur q = up_vcur p -> up_vcur q = up_vcur p -> rec (svt q vt) s' b' = mapR vt (rec q s' b')) ->
  rd1 (up_cur p) = false ->
  xbody0 rec (svt p vt) s b = (if wr (up_cur p) then mapRe vt else mapR vt) (xbody0 rec p s b).
Proof.
  intros rec p vt s b Hrec Hrd. unfold xbody0, wr, rd1 in *. rewrite ?sv_cur, ?sv_lcur, ?sv_err.
  destruct (u_t (up_cur p) =? tArrayTyped) eqn:E8.
  { apply Z.eqb_eq in E8. rewrite E8. tnum. apply arr_typed_svt; [exact Hrec|exact Hrd]. }
  destruct (u_t (up_cur p) =? tObjectTyped) eqn:E12.
  { apply Z.eqb_eq in E12. rewrite E12. tnum. apply obj_typed_svt. }
  cbn [orb andb].
  destruct (u_t (up_cur p) =? tFail); [reflexivity|].
  destruct (u_t (up_cur p) =? tNext); [apply ustep_value_svt|].
  destruct (u_t (up_cur p) =? tFixed); [apply ustep_fixed_svt|].
  destruct ((u_t (up_cur p) =? tHighPrec) || (u_t (up_cur p) =? tString)); [apply ustep_string_svt|].
  destruct (u_t (up_cur p) =? tArray); [apply arr_start_svt|].
  destruct (u_t (up_cur p) =? tArrayDyn); [apply arr_dyn_svt|].
  destruct (u_t (up_cur p) =? tArrayCount); [apply arr_counted_svt|].
  destruct (u_t (up_cur p) =? tObject); [apply obj_start_svt|].
  destruct ((u_t (up_cur p) =? tObjectDyn) && (u_s (up_cur p) =? sFieldNameLen) && (up_lcur p =? 0));
    [apply obj_dyn_emptykey_svt|].
  destruct (u_t (up_cur p) =? tObjectDyn); [apply obj_dyn_svt|].
  destruct (u_t (up_cur p) =? tObjectCount); [apply obj_counted_svt|].
  reflexivity.
Qed.

Lemma vplain_not : forall c, vplain c = true -> wr c = false /\ rd1 c = false.
Proof.
  intros c H. unfold vplain, wr, rd1 in *. apply negb_true_iff, orb_false_iff in H. destruct H as [H1 H2].
  rewrite H1, H2. split; reflexivity.
Qed.

(* One parser step does not depend on up_vtype, except in state (stArrayTyped, stWithLen);
   in the states (st*Typed, stStart) it overwrites the field. *)
Lemma uexec_svt : forall f p vt s b, rd1 (up_cur p) = false -> vplain (up_vcur p) = true ->
  uexec f (svt p vt) s b = (if wr (up_cur p) then mapRe vt else mapR vt) (uexec f p s b).
Proof.
  induction f as [|f IH]; intros p vt s b Hrd Hv.
  - cbn [uexec]. destruct (wr _); reflexivity.
  - rewrite !uexec_S. rewrite xbody0_svt; [| |exact Hrd].
    + destruct (wr _); [apply xlatch_mapRe|apply xlatch_mapR].
    + intros q s' b' Hc Hvc. destruct (vplain_not _ Hv) as [W R0].
      rewrite IH; [rewrite Hc, W; reflexivity|rewrite Hc; exact R0|rewrite Hvc; exact Hv].
Qed.

(* ====================================================================== *)
(* Part 2: one pass over execStep - where the state (stArrayTyped,         *)
(* stWithLen) can come from, and the balance of the length stack           *)
(* ====================================================================== *)
(* rd3: the states between the write of up_vtype (stepType) and its read;
   wr3: their possible predecessors.
   lshape: every state on the state stack owns lw entries of the length stack
   (current length first), and below them lies the initial length 0. *)
Definition rd3 (c : ustate) : bool := PS.st_in c [(8,14);(8,15);(8,13)].
Definition wr3 (c : ustate) : bool := PS.st_in c [(8,0);(8,14);(8,15)].

Definition lw (c : ustate) : nat :=
  if PS.st_in c [(11,18);(12,18)] then 2%nat
  else if PS.st_in c [(3,13);(4,13);(7,13);(7,16);(8,13);(8,16);(10,18);(11,13);(11,17);(11,16);(12,13);(12,17);(12,16)]
  then 1%nat else 0%nat.

Fixpoint lshape (S : list ustate) (L : list Z) : bool :=
  match S with
  | [] => match L with [x] => x =? 0 | _ => false end
  | c :: r =>
      match lw c with
      | O => lshape r L
      | S O => match L with _ :: L' => lshape r L' | [] => false end
      | _ => match L with _ :: _ :: L' => lshape r L' | _ => false end
      end
  end.

Definition LB (p : uparser) : Prop := lshape (up_cur p :: up_stack p) (up_lcur p :: up_lstack p) = true.

Lemma lshape_cons : forall c r L, lshape (c :: r) L =
  match lw c with
  | O => lshape r L
  | S O => match L with _ :: L' => lshape r L' | [] => false end
  | _ => match L with _ :: _ :: L' => lshape r L' | _ => false end
  end.
Proof. reflexivity. Qed.

Lemma lshape_nil : forall S, lshape S [] = false.
Proof. induction S as [|c r IH]; [reflexivity|]. rewrite lshape_cons. destruct (lw c) as [|[|n]]; auto. Qed.

Lemma lshape_c0 : forall c r L, lw c = 0%nat -> lshape (c :: r) L = lshape r L.
Proof. intros c r L H. rewrite lshape_cons, H. reflexivity. Qed.

Lemma in_states : forall c l, PS.st_in c l = true -> In (u_t c, u_s c) l.
Proof. exact PS.st_in_In. Qed.

Lemma vstate_facts : forall c, PS.st_in c PS.vstates = true -> lw c = 0%nat /\ rd3 c = false /\ wr3 c = false.
Proof.
  intros [t s] H. apply PS.st_in_In in H. cbn in H.
  repeat (destruct H as [H|H]; [injection H as <- <-; repeat split; reflexivity|]). contradiction.
Qed.
Lemma stackstate_facts : forall c, PS.st_in c PS.stack_states = true -> rd3 c = false.
Proof.
  intros [t s] H. apply PS.st_in_In in H. cbn in H.
  repeat (destruct H as [H|H]; [injection H as <- <-; reflexivity|]). contradiction.
Qed.

Definition postY (p : uparser) (r : ures) : Prop :=
  match r with
  | UCrash _ => True
  | UR p1 _ _ _ err => unil err = true -> (rd3 (up_cur p1) = true -> wr3 (up_cur p) = true) /\ LB p1
  end.

Lemma postY_nodone : forall p r, postY p r -> postY p (value_nodone r).
Proof. intros p [p1 s rest d err|w] H; exact H. Qed.
Lemma postY_latch : forall p r, postY p r -> postY p (PS.latch r).
Proof.
  intros p [p1 s rest d err|w] H; cbn [PS.latch]; [|exact H].
  destruct (unil err) eqn:E; [exact H|]. cbn [postY]. intro H1. congruence.
Qed.
Lemma postY_mono : forall p p' r, wr3 (up_cur p') = false -> postY p' r -> postY p r.
Proof.
  intros p p' [p1 s rest d err|w] Hw H; [|exact H]. cbn [postY] in *. intro Hu.
  destruct (H Hu) as [A B]. split; [|exact B]. intro K. specialize (A K). congruence.
Qed.

Arguments rd3 : simpl never.
Arguments wr3 : simpl never.
Arguments lw : simpl never.
Arguments lshape : simpl never.
Arguments LB : simpl never.

Opaque ustep_len ucollect ustep_value uvis wraps be_dec marker_state marker_btype.

Ltac lw_eval_in H :=
  repeat match type of H with
  | context[lw {| u_t := ?a; u_s := ?b |}] =>
      let v := eval vm_compute in (lw {| u_t := a; u_s := b |}) in
      change (lw {| u_t := a; u_s := b |}) with v in H
  end.
Ltac lw_eval :=
  repeat match goal with
  | |- context[lw {| u_t := ?a; u_s := ?b |}] =>
      let v := eval vm_compute in (lw {| u_t := a; u_s := b |}) in
      change (lw {| u_t := a; u_s := b |}) with v
  end.

Ltac lsh_goal :=
  repeat first
    [ match goal with
      | |- context[lshape ({| u_t := ?a; u_s := ?b |} :: ?r) ?L] =>
          rewrite (lshape_cons {| u_t := a; u_s := b |} r L); lw_eval; cbv iota
      end
    | match goal with
      | Hv : PS.st_in ?c PS.vstates = true |- context[lshape (?c :: ?r) ?L] =>
          rewrite (lshape_c0 c r L (proj1 (vstate_facts c Hv)))
      end ].

Ltac list_cases :=
  repeat match goal with
  | |- context[match ?l with [] => _ | _ :: _ => _ end] => is_var l; destruct l
  end.

Ltac rd_side :=
  let K := fresh "K" in
  intro K;
  first
    [ reflexivity
    | exfalso; vm_compute in K; discriminate K
    | exfalso; match type of K with rd3 ?c = true =>
        first [ match goal with Hv : PS.st_in c PS.vstates = true |- _ =>
                  rewrite (proj1 (proj2 (vstate_facts c Hv))) in K; discriminate K end
              | match goal with Hv : PS.st_in c PS.stack_states = true |- _ =>
                  rewrite (stackstate_facts c Hv) in K; discriminate K end ] end ].

Lemma ubody0_Y : forall rec p s b, PS.inv1b p = true -> LB p -> PS.ready p b ->
  (u_t (up_cur p) = tArrayTyped ->
   forall p' s', PS.inv1b p' = true -> LB p' -> u_t (up_cur p') <> tArrayTyped -> PS.ready p' b ->
     wr3 (up_cur p') = false -> postY p' (rec p' s' b)) ->
  postY p (PS.ubody0 rec p s b).
Proof.
  intros rec p s b Hi HL Hr Hrec.
  destruct (PS.inv1b_split _ Hi) as (H1 & H2 & H3 & H4 & H5).
  destruct p as [[t st] stk vc vs lc ls buf mk vt er].
  unfold LB in HL.
  cbn [up_cur up_stack up_vcur up_vstack up_lcur up_lstack] in H1, H2, H3, H4, H5, HL.
  destruct (PS.vstate_cur _ H4) as (V1 & V2 & V3).
  apply PS.st_in_In in H1. cbn in H1.
  repeat (destruct H1 as [H1|H1]; [injection H1 as <- <-|]); try contradiction.
  all: cbn in H3.
  all: rewrite lshape_cons in HL; lw_eval_in HL; cbv iota in HL.
  all: try (destruct ls as [|l1 ls]; [discriminate HL|]).
  all: destruct b as [|x r]; [ destruct Hr as [Hr|Hr]; [congruence|]; try (discriminate Hr); cbn in Hr |].
  all: unfold PS.ubody0.
  all: cbn -[Z.sub].
  all: PS.crunch1.
  all: try contradiction.
  all: try (intro Hu'; try congruence; try (rewrite Hu' in *; discriminate)).
  all: PS.norm.
  all: try solve [
    split;
    [ unfold u_pop, ul_pop, v_pop;
      repeat (progress (cbn [up_cur up_stack up_vstack up_lstack up_lcur uset_cur uset_lcur forallb] in *; list_cases));
      repeat match goal with H : _ && _ = true |- _ => apply andb_true_iff in H; destruct H end;
      rd_side
    | unfold LB, u_pop, ul_pop, v_pop;
      repeat (progress (cbn [up_cur up_stack up_vstack up_lstack up_lcur uset_cur uset_lcur] in *; list_cases));
      try (rewrite lshape_nil in HL; discriminate HL);
      lsh_goal; try exact HL ] ].
  all: try exact I.
  all: apply postY_nodone;
    (eapply postY_mono; [|apply Hrec]);
    [ exact (proj2 (proj2 (vstate_facts vc H4)))
    | reflexivity
    | apply PS.inv1b_join; cbn [up_cur up_stack up_vcur up_vstack up_lcur forallb]; rewrite ?V2, ?H2; auto
    | unfold LB; cbn [up_cur up_stack up_lcur up_lstack]; lsh_goal; exact HL
    | exact V3
    | first [ left; discriminate
            | right; apply PS.zero_sized_can_step; cbn [up_cur];
              repeat match goal with H : (_ =? 0) = false |- _ => rewrite H in Hr end; exact Hr ]
    | exact (proj2 (proj2 (vstate_facts vc H4))) ].
Qed.

Transparent ustep_len ucollect ustep_value uvis wraps be_dec marker_state marker_btype.

Lemma ubody_Y : forall rec p s b, PS.inv1b p = true -> LB p -> PS.ready p b ->
  (u_t (up_cur p) = tArrayTyped ->
   forall p' s', PS.inv1b p' = true -> LB p' -> u_t (up_cur p') <> tArrayTyped -> PS.ready p' b ->
     wr3 (up_cur p') = false -> postY p' (rec p' s' b)) ->
  postY p (PS.ubody rec p s b).
Proof. intros. unfold PS.ubody. apply postY_latch. apply ubody0_Y; assumption. Qed.

Lemma uexec_step_Y : forall p s b, PS.inv1b p = true -> LB p -> PS.ready p b -> postY p (uexec_step p s b).
Proof.
  intros p s b Hi HL Hr. unfold uexec_step. rewrite PS.uexec_S. apply ubody_Y; try assumption.
  intros _ p' s' Hi' HL' Ht' Hr' _. rewrite PS.uexec_S. apply ubody_Y; try assumption.
  intro X; contradiction.
Qed.

(* ====================================================================== *)
(* Part 3: two runs that differ in up_vtype only                          *)
(* ====================================================================== *)
Definition rel (p q : uparser) : Prop := veq p q /\ (rd3 (up_cur p) = true -> q = p).
Definition safeY (p : uparser) : Prop := PS.inv1b p = true /\ LB p.

Lemma rel_refl : forall p, rel p p.
Proof. intros p. split; [apply veq_refl|reflexivity]. Qed.

Lemma wr3_cases : forall c, wr3 c = true -> wr c = true \/ rd3 c = true.
Proof.
  intros [t s] H. apply PS.st_in_In in H. cbn in H.
  destruct H as [H|[H|[H|[]]]]; injection H as <- <-; [left|right|right]; reflexivity.
Qed.
Lemma rd1_rd3 : forall c, rd3 c = false -> rd1 c = false.
Proof.
  intros [t s] H. unfold rd1. cbn [u_t u_s]. destruct (t =? tArrayTyped) eqn:E1; [|reflexivity].
  destruct (s =? sWithLen) eqn:E2; [|reflexivity]. apply Z.eqb_eq in E1. apply Z.eqb_eq in E2. subst.
  discriminate H.
Qed.
Lemma vstate_vplain : forall c, PS.st_in c PS.vstates = true -> vplain c = true.
Proof.
  intros [t s] H. apply PS.st_in_In in H. cbn in H.
  repeat (destruct H as [H|H]; [injection H as <- <-; reflexivity|]). contradiction.
Qed.

Definition ures_rel (r r' : ures) : Prop :=
  match r, r' with
  | UR p1 s1 rest d e, UR q1 s1' rest' d' e' =>
      s1' = s1 /\ rest' = rest /\ d' = d /\ e' = e /\ veq p1 q1 /\ (e = unilE -> rel p1 q1 /\ safeY p1)
  | UCrash w, UCrash w' => w' = w
  | _, _ => False
  end.

(* the step-level lemma: related parsers stay related and do the same *)
Lemma step_rel : forall p q s b, rel p q -> safeY p -> PS.ready p b ->
  ures_rel (uexec_step p s b) (uexec_step q s b).
Proof.
  intros p q s b [Hv Hq] [Hi HL] Hr.
  pose proof (PS.uexec_step_safe1 p s b Hi Hr) as P1.
  pose proof (uexec_step_Y p s b Hi HL Hr) as PY.
  apply veq_svt in Hv. set (vt := up_vtype q) in *.
  destruct (rd3 (up_cur p)) eqn:Erd.
  { rewrite (Hq eq_refl). destruct (uexec_step p s b) as [p1 s1 rest d e|w]; cbn [ures_rel]; [|reflexivity].
    cbn [PS.post1 postY] in P1, PY.
    split; [reflexivity|]. split; [reflexivity|]. split; [reflexivity|]. split; [reflexivity|].
    split; [apply veq_refl|]. intros He. apply unil_true in He.
    split; [apply rel_refl|]. split; [exact (P1 He)|exact (proj2 (PY He))]. }
  rewrite Hv. unfold uexec_step.
  destruct (PS.inv1b_split _ Hi) as (_ & _ & _ & H4 & _).
  rewrite uexec_svt; [|apply rd1_rd3; exact Erd|apply vstate_vplain; exact H4].
  fold (uexec_step p s b).
  destruct (uexec_step p s b) as [p1 s1 rest d e|w]; [|destruct (wr _); reflexivity].
  cbn [PS.post1 postY] in P1, PY.
  destruct (wr (up_cur p)) eqn:Ew; cbn [mapRe mapR ures_rel].
  - split; [reflexivity|]. split; [reflexivity|]. split; [reflexivity|]. split; [reflexivity|].
    split; [destruct (unil e); [apply veq_refl|apply veq_svt_l]|].
    intros He. subst e. change (unil unilE) with true. cbv iota.
    split; [apply rel_refl|]. split; [exact (P1 eq_refl)|exact (proj2 (PY eq_refl))].
  - split; [reflexivity|]. split; [reflexivity|]. split; [reflexivity|]. split; [reflexivity|].
    split; [apply veq_svt_l|].
    intros He. apply unil_true in He. destruct (PY He) as [A B].
    split; [|split; [exact (P1 He)|exact B]].
    split; [apply veq_svt_l|]. intros K. exfalso.
    destruct (wr3_cases _ (A K)); congruence.
Qed.

Lemma cstep_veq : forall p q, veq p q -> can_step_without_input q = can_step_without_input p.
Proof. intros p q H. apply veq_svt in H. rewrite H. reflexivity. Qed.
Lemma fuel_veq : forall p q b, veq p q -> ufeed_fuel q b = ufeed_fuel p b.
Proof. intros p q b H. apply veq_svt in H. rewrite H. reflexivity. Qed.

Definition resU_rel (r r' : res ures) : Prop :=
  match r, r' with
  | Ok x, Ok y => ures_rel x y
  | Err a, Err b => b = a
  | Panic a, Panic b => b = a
  | OutOfFuel, OutOfFuel => True
  | _, _ => False
  end.

Lemma fu_rel : forall fuel p q s b, rel p q -> safeY p -> PS.ready p b ->
  resU_rel (ufeed_until fuel p s b) (ufeed_until fuel q s b).
Proof.
  induction fuel as [|f IH]; intros p q s b Hrel Hs Hr; cbn [ufeed_until]; [exact I|].
  pose proof (step_rel p q s b Hrel Hs Hr) as H.
  destruct (uexec_step p s b) as [p1 s1 rest d e|w]; destruct (uexec_step q s b) as [q1 s1' rest' d' e'|w'];
    cbn [ures_rel] in H; try contradiction; [|subst; reflexivity].
  destruct H as (-> & -> & -> & -> & Hv & Hn).
  destruct (d || negb (unil e)) eqn:E1.
  { cbn [resU_rel ures_rel]. auto 10. }
  apply orb_false_iff in E1. destruct E1 as [-> En]. apply negb_false_iff, unil_true in En. subst e.
  destruct (Hn eq_refl) as [Hrel1 Hs1]. rewrite (cstep_veq _ _ Hv).
  destruct ((zlen rest =? 0) && negb (can_step_without_input p1)) eqn:Ec.
  { cbn [resU_rel ures_rel]. auto 10. }
  apply IH; [exact Hrel1|exact Hs1|].
  apply andb_false_iff in Ec. destruct Ec as [Ec|Ec].
  - left. intros ->. discriminate Ec.
  - right. apply negb_false_iff in Ec. exact Ec.
Qed.

Definition fres_rel (r r' : res (uparser * sink * Z)) : Prop :=
  match r, r' with
  | Ok (p1, s1, e), Ok (q1, s1', e') =>
      s1' = s1 /\ e' = e /\ veq p1 q1 /\ (e = unilE -> rel p1 q1 /\ safeY p1)
  | Err a, Err b => b = a
  | Panic a, Panic b => b = a
  | OutOfFuel, OutOfFuel => True
  | _, _ => False
  end.

Lemma feed_rel : forall fuel p q s b, rel p q -> safeY p -> fres_rel (ufeed fuel p s b) (ufeed fuel q s b).
Proof.
  induction fuel as [|f IH]; intros p q s b Hrel Hs; cbn [ufeed]; [exact I|].
  destruct (zlen b >? 0) eqn:Eb.
  2:{ cbn [fres_rel]. split; [reflexivity|]. split; [reflexivity|]. split; [exact (proj1 Hrel)|]. intros _. split; assumption. }
  assert (Hr : PS.ready p b) by (left; intros ->; discriminate Eb).
  rewrite (fuel_veq _ _ b (proj1 Hrel)).
  pose proof (fu_rel (ufeed_fuel p b) p q s b Hrel Hs Hr) as H.
  destruct (ufeed_until (ufeed_fuel p b) p s b) as [[p1 s1 rest d e|w]|a|a|];
    destruct (ufeed_until (ufeed_fuel p b) q s b) as [[q1 s1' rest' d' e'|w']|a'|a'|];
    cbn [resU_rel ures_rel] in H; try contradiction; try (subst; reflexivity).
  destruct H as (-> & -> & -> & -> & Hv & Hn).
  destruct (unil e) eqn:Ee.
  - apply unil_true in Ee. destruct (Hn Ee) as [A B]. apply IH; assumption.
  - cbn [fres_rel]. split; [reflexivity|]. split; [reflexivity|]. split; [exact Hv|]. intros ->. discriminate Ee.
Qed.

Lemma LB_set_err : forall p e, LB (uset_err p e) <-> LB p.
Proof. intros. unfold LB. reflexivity. Qed.

Lemma safeY_set_err : forall p e, safeY p -> safeY (uset_err p e).
Proof. intros p e [A B]. split; [rewrite PS.inv1b_set_err; exact A|apply LB_set_err; exact B]. Qed.

Lemma veq_set_err : forall p q e, veq p q -> veq (uset_err p e) (uset_err q e).
Proof. intros p q e H. apply veq_svt in H. rewrite H. repeat split. Qed.
Lemma veq_set_cur : forall p q c, veq p q -> veq (uset_cur p c) (uset_cur q c).
Proof. intros p q c H. apply veq_svt in H. rewrite H. repeat split. Qed.

Lemma rel_set_err : forall p q e, rel p q -> rel (uset_err p e) (uset_err q e).
Proof.
  intros p q e [A B]. split; [apply veq_set_err; exact A|]. intros K. rewrite (B K). reflexivity.
Qed.

Lemma write_rel : forall p q s b, rel p q -> safeY p -> fres_rel (up_write p s b) (up_write q s b).
Proof.
  intros p q s b Hrel Hs. unfold up_write.
  pose proof (feed_rel (2 * length b + 2) p q s b Hrel Hs) as H.
  destruct (ufeed (2 * length b + 2) p s b) as [[[p1 s1] e]|a|a|];
    destruct (ufeed (2 * length b + 2) q s b) as [[[q1 s1'] e']|a'|a'|]; cbn [fres_rel] in H; try contradiction; try exact H.
  destruct H as (-> & -> & Hv & Hn).
  destruct (unil e) eqn:Ee; cbn [fres_rel].
  - apply unil_true in Ee. destruct (Hn Ee) as [A B].
    split; [reflexivity|]. split; [reflexivity|]. split; [apply veq_set_err; exact Hv|].
    intros _. split; [apply rel_set_err; exact A|apply safeY_set_err; exact B].
  - split; [reflexivity|]. split; [reflexivity|]. split; [apply veq_set_cur, veq_set_err; exact Hv|].
    intros ->. discriminate Ee.
Qed.

(* finalize does not look at up_vtype *)
Lemma ufinalize_svt : forall fuel p vt s,
  ufinalize fuel (svt p vt) s = let '(p1, s1, e) := ufinalize fuel p s in (svt p1 vt, s1, e).
Proof.
  induction fuel as [|f IH]; intros p vt s; [reflexivity|].
  cbn [ufinalize]. unfold upop_len_state, upop_state. cbn [fst]. autorewrite with svtdb.
  repeat match goal with
  | |- (if ?c then _ else _) = _ => destruct c
  | |- (let '(_, _) := uvis ?s ?e in _) = _ => destruct (uvis s e) as [? ?]
  end; try reflexivity; apply IH.
Qed.

Lemma ufin_svt : forall p vt s, ufin (svt p vt) s = let '(p1, s1, e) := ufin p s in (svt p1 vt, s1, e).
Proof. intros. unfold ufin. rewrite sv_stack. apply ufinalize_svt. Qed.

Definition out_rel (r r' : res (uparser * sink * Z)) : Prop :=
  match r, r' with
  | Ok (p1, s1, e), Ok (q1, s1', e') => s1' = s1 /\ e' = e /\ veq p1 q1
  | Err a, Err b => b = a
  | Panic a, Panic b => b = a
  | OutOfFuel, OutOfFuel => True
  | _, _ => False
  end.

Lemma ufin_rel : forall p q s, veq p q -> out_rel (Ok (ufin p s)) (Ok (ufin q s)).
Proof.
  intros p q s H. apply veq_svt in H. rewrite H, ufin_svt.
  destruct (ufin p s) as [[p1 s1] e]. cbn [out_rel]. repeat split.
Qed.

(* C17, behavioural form (Parse): the runs from two parsers that differ in up_vtype only
   deliver the same events to every visitor and return the same verdict. *)
Theorem C17_ubj_parse_vtype_dead : forall p q s b, rel p q -> safeY p ->
  out_rel (up_parse p s b) (up_parse q s b).
Proof.
  intros p q s b Hrel Hs. unfold up_parse.
  pose proof (feed_rel (2 * length b + 2) p q s b Hrel Hs) as H.
  destruct (ufeed (2 * length b + 2) p s b) as [[[p1 s1] e]|a|a|];
    destruct (ufeed (2 * length b + 2) q s b) as [[[q1 s1'] e']|a'|a'|]; cbn [fres_rel] in H; try contradiction; try exact H.
  destruct H as (-> & -> & Hv & Hn).
  destruct (unil e); [apply ufin_rel; exact Hv|]. cbn [out_rel]. auto.
Qed.

Theorem C17_ubj_writes_vtype_dead : forall chunks p q s, rel p q -> safeY p ->
  out_rel (up_writes p s chunks) (up_writes q s chunks).
Proof.
  induction chunks as [|c r IH]; intros p q s Hrel Hs; cbn [up_writes].
  - apply ufin_rel. exact (proj1 Hrel).
  - pose proof (write_rel p q s c Hrel Hs) as H.
    destruct (up_write p s c) as [[[p1 s1] e]|a|a|];
      destruct (up_write q s c) as [[[q1 s1'] e']|a'|a'|]; cbn [fres_rel] in H; try contradiction; try exact H.
    destruct H as (-> & -> & Hv & Hn).
    destruct (unil e) eqn:Ee.
    + apply unil_true in Ee. destruct (Hn Ee) as [A B]. apply IH; assumption.
    + cbn [out_rel]. auto.
Qed.

(* ---------- a reused parser ---------- *)
(* fresh-like: every field has its initial value, except the dead up_vtype *)
Definition fresh_like (p : uparser) : Prop := veq uparser0 p.

Lemma fresh_like0 : fresh_like uparser0.
Proof. apply veq_refl. Qed.

Lemma rel0 : forall p, fresh_like p -> rel uparser0 p.
Proof. intros p H. split; [exact H|]. intros K. discriminate K. Qed.

Lemma safeY0 : safeY uparser0.
Proof. split; reflexivity. Qed.

Lemma LB_top : forall p, up_cur p = mku tNext sStart -> up_stack p = [] -> LB p -> up_lcur p = 0 /\ up_lstack p = [].
Proof.
  intros p Hc Hs H. unfold LB in H. rewrite Hc, Hs in H. rewrite lshape_cons in H.
  change (lw (mku tNext sStart)) with 0%nat in H. cbv iota in H. unfold lshape in H.
  destruct (up_lstack p) as [|x l]; [|discriminate H]. apply Z.eqb_eq in H. auto.
Qed.

(* the idle state: everything is as in a new parser *)
Lemma idle_fresh : forall p, top p -> PS.inv1b p = true -> PS.ext3b p = true -> LB p -> fresh_like p.
Proof.
  intros p (Hc & Hs & Hb & Hm & He) Hi Hx HL.
  destruct (top_vstack p Hi Hx Hs) as [Hv Hvs]; [rewrite Hc; reflexivity|rewrite Hc; reflexivity|].
  destruct (LB_top p Hc Hs HL) as [Hl Hls].
  unfold fresh_like, veq, uparser0. cbn [up_cur up_stack up_vcur up_vstack up_lcur up_lstack up_buf up_marker up_err].
  repeat split; congruence.
Qed.

Lemma cstep_top : forall p, up_cur p = mku tNext sStart -> cstep p = false.
Proof. intros p H. unfold cstep, can_step_without_input. rewrite H. reflexivity. Qed.

(* the state between two Write calls of an accepted run *)
Definition between (p : uparser) (fut : bytes) : Prop :=
  Inv p /\ PS.inv1b p = true /\ PS.ext3b p = true /\ PS.guard p fut /\ LB p /\ cstep p = false.

Lemma between0 : forall fut, PS.no_zero_typed fut = true -> between uparser0 fut.
Proof.
  intros fut H. split; [exact Inv0|]. split; [reflexivity|]. split; [reflexivity|].
  split; [apply PS.guard_init; exact H|]. split; [reflexivity|reflexivity].
Qed.

Lemma between_fin : forall p s p' s', between p [] -> ufin p s = (p', s', unilE) -> fresh_like p'.
Proof.
  intros p s p' s' (HI & Hi & Hx & _ & HL & Hc) H.
  destruct (ufin_top _ _ _ _ HI H) as [Ht _].
  unfold ufin in H. destruct (ufinalize_nostep _ _ _ _ _ Hc H) as [-> ->].
  apply idle_fresh; assumption.
Qed.

Lemma between_write : forall p s c fut p1 s1, between p (c ++ fut) ->
  up_write p s c = Ok (p1, s1, unilE) -> between p1 fut.
Proof.
  intros p s c fut p1 s1 (HI & Hi & Hx & Hg & HL & Hc) H.
  destruct (PS.up_write_total p s c fut Hi Hx Hg) as (p1' & s1' & err' & E & Hok).
  rewrite H in E. inversion E; subst p1' s1' err'. destruct (Hok eq_refl) as (A & B & C).
  pose proof (write_rel p p s c (rel_refl p) (conj Hi HL)) as W. rewrite H in W. cbn [fres_rel] in W.
  destruct W as (_ & _ & _ & W). destruct (W eq_refl) as [_ [_ HL1]].
  split; [eapply up_write_inv; eauto|]. split; [exact A|]. split; [exact B|]. split; [exact C|].
  split; [exact HL1|].
  destruct (up_write_Ok _ _ _ _ _ _ H) as (q & F & Eq). rewrite unil_nil in Eq. subst p1.
  change (cstep (uset_err q 0)) with (cstep q).
  destruct F as [[-> F]|[Hn F]].
  - inversion F; subst. exact Hc.
  - exact (R_end_nostep _ _ _ _ F HI eq_refl).
Qed.

Lemma between_writes : forall chunks p s p' s', between p (concat chunks) ->
  up_writes p s chunks = Ok (p', s', unilE) -> fresh_like p'.
Proof.
  induction chunks as [|c r IH]; intros p s p' s' Hb H; cbn [up_writes concat] in *.
  - inversion H as [H0]. eapply between_fin; eauto.
  - destruct (up_write p s c) as [[[p1 s1] e]|a|a|] eqn:Ew; try discriminate H.
    destruct (unil e) eqn:Ee.
    + apply unil_true in Ee. subst e. eapply IH; [|exact H]. eapply between_write; eauto.
    + inversion H; subst. discriminate Ee.
Qed.

Lemma between_parse : forall p s b p' s', between p b ->
  up_parse p s b = Ok (p', s', unilE) -> fresh_like p'.
Proof.
  intros p s b p' s' Hb H.
  apply (between_writes [b] p s p' s'); [cbn [concat]; rewrite app_nil_r; exact Hb|].
  cbn [up_writes]. unfold up_parse in H. unfold up_write.
  destruct (ufeed (2 * length b + 2) p s b) as [[[p1 s1] e]|a|a|] eqn:Ef; try discriminate H.
  destruct (unil e) eqn:Ee; [|inversion H; subst; discriminate Ee].
  apply unil_true in Ee. subst e. rewrite unil_nil.
  destruct Hb as (HI & _). apply feed_sound in Ef. pose proof (Feed_inv _ _ _ _ _ Ef HI) as HI1.
  rewrite set_err_same by apply HI1. exact H.
Qed.

(* one operation on a parser: Parse(b), or Write(c1) ... Write(cn) followed by the end of input *)
Inductive uop := OpParse (b : bytes) | OpWrites (chunks : list bytes).
Definition uop_run (p : uparser) (s : sink) (op : uop) : res (uparser * sink * Z) :=
  match op with OpParse b => up_parse p s b | OpWrites cs => up_writes p s cs end.
Definition uop_data (op : uop) : bytes :=
  match op with OpParse b => b | OpWrites cs => concat cs end.

Lemma out_rel_nil : forall r p' s', out_rel r (Ok (p', s', unilE)) ->
  exists p0, r = Ok (p0, s', unilE) /\ veq p0 p'.
Proof.
  intros [[[p0 s0] e0]|a|a|] p' s' H; cbn [out_rel] in H; try contradiction.
  destruct H as (-> & -> & Hv). eauto.
Qed.

(* C17, session form.  For every fresh-like parser p (one that was just created, or one that
   has accepted any number of inputs before), every operation and EVERY visitor behaviour
   (the sink s records all calls and may fail from any call on):
   (a) the run from p and the run from a new parser deliver the same events, return the
       same verdict (or fail in the same way) and end in parsers that differ in up_vtype only;
   (b) if the operation is accepted, the parser is fresh-like again.
   The premise no_zero_typed (no '$' directly followed by Z, T or F) of (b) is needed only because
   of the recorded finding F2 (containers of zero-sized elements): the balance of the valueState
   stack is available from ParseSafety.ext3b, whose preservation needs that guard. *)
Theorem C17_ubj_session_step : forall p s op, fresh_like p ->
  out_rel (uop_run uparser0 s op) (uop_run p s op) /\
  (forall p' s', PS.no_zero_typed (uop_data op) = true ->
     uop_run p s op = Ok (p', s', unilE) -> fresh_like p').
Proof.
  intros p s op Hf.
  assert (A : out_rel (uop_run uparser0 s op) (uop_run p s op)).
  { destruct op as [b|cs]; cbn [uop_run].
    - apply C17_ubj_parse_vtype_dead; [apply rel0; exact Hf|exact safeY0].
    - apply C17_ubj_writes_vtype_dead; [apply rel0; exact Hf|exact safeY0]. }
  split; [exact A|].
  intros p' s' Hz H. rewrite H in A. destruct (out_rel_nil _ _ _ A) as (p0 & E0 & Hv).
  apply (veq_trans _ p0); [|exact Hv].
  destruct op as [b|cs]; cbn [uop_run uop_data] in *.
  - eapply between_parse; [apply between0; exact Hz|exact E0].
  - eapply between_writes; [apply between0; exact Hz|exact E0].
Qed.

Corollary C17_ubj_parse_reuse : forall p s b, fresh_like p ->
  out_rel (up_parse uparser0 s b) (up_parse p s b).
Proof. intros p s b H. exact (proj1 (C17_ubj_session_step p s (OpParse b) H)). Qed.

Corollary C17_ubj_writes_reuse : forall p s chunks, fresh_like p ->
  out_rel (up_writes uparser0 s chunks) (up_writes p s chunks).
Proof. intros p s cs H. exact (proj1 (C17_ubj_session_step p s (OpWrites cs) H)). Qed.

(* after any accepted input: all three stacks are empty and every field but up_vtype is initial *)
Corollary C17_ubj_run_parse_fresh : forall vfail b evs p,
  PS.no_zero_typed b = true -> urun_parse vfail b = Ok (evs, unilE, p) -> fresh_like p.
Proof.
  intros vfail b evs p Hz H. unfold urun_parse in H.
  destruct (up_parse uparser0 (sink0 vfail) b) as [[[p' s'] e']|a|a|] eqn:E; try discriminate H.
  inversion H; subst.
  exact (proj2 (C17_ubj_session_step uparser0 (sink0 vfail) (OpParse b) fresh_like0) _ _ Hz E).
Qed.

Corollary C17_ubj_run_chunks_fresh : forall vfail chunks evs p,
  PS.no_zero_typed (concat chunks) = true -> urun_chunks vfail chunks = Ok (evs, unilE, p) -> fresh_like p.
Proof.
  intros vfail cs evs p Hz H. unfold urun_chunks in H.
  destruct (up_writes uparser0 (sink0 vfail) cs) as [[[p' s'] e']|a|a|] eqn:E; try discriminate H.
  inversion H; subst.
  exact (proj2 (C17_ubj_session_step uparser0 (sink0 vfail) (OpWrites cs) fresh_like0) _ _ Hz E).
Qed.

(* a whole session: operations on one parser, as long as they are accepted *)
Fixpoint usession (p : uparser) (s : sink) (ops : list uop) : res (uparser * sink * Z) :=
  match ops with
  | [] => Ok (p, s, unilE)
  | op :: r =>
      match uop_run p s op with
      | Ok (p1, s1, e) => if unil e then usession p1 s1 r else Ok (p1, s1, e)
      | x => x
      end
  end.
(* the same session with a new parser for every operation *)
Fixpoint usession_new (s : sink) (ops : list uop) : res (uparser * sink * Z) :=
  match ops with
  | [] => Ok (uparser0, s, unilE)
  | op :: r =>
      match uop_run uparser0 s op with
      | Ok (p1, s1, e) => if unil e then usession_new s1 r else Ok (p1, s1, e)
      | x => x
      end
  end.

Theorem C17_ubj_session : forall ops p s, fresh_like p ->
  forallb (fun op => PS.no_zero_typed (uop_data op)) ops = true ->
  out_rel (usession_new s ops) (usession p s ops).
Proof.
  induction ops as [|op r IH]; intros p s Hf Hz; cbn [usession usession_new].
  - cbn [out_rel]. auto.
  - cbn [forallb] in Hz. apply andb_true_iff in Hz. destruct Hz as [Hz1 Hz2].
    destruct (C17_ubj_session_step p s op Hf) as [A B].
    destruct (uop_run uparser0 s op) as [[[p0 s0] e0]|a|a|];
      destruct (uop_run p s op) as [[[p1 s1] e1]|a'|a'|]; cbn [out_rel] in A; try contradiction; try exact A.
    destruct A as (-> & -> & Hv).
    destruct (unil e0) eqn:Ee; [|cbn [out_rel]; auto].
    apply unil_true in Ee. subst e0. apply IH; [|exact Hz2]. apply (B p1 s0 Hz1 eq_refl).
Qed.


(* ====================================================================== *)
(* Part 4: a monitor for "the events of exactly one value"                 *)
(* ====================================================================== *)
(* open containers, innermost first: array, object waiting for a key, object waiting for a value *)
Inductive mfr := MA | MK | MV.
Inductive mstate := Run (m : list mfr) | Fin.

(* a value has been completed in the context r *)
Definition marrive (r : list mfr) : option mstate :=
  match r with
  | [] => Some Fin
  | MA :: r' => Some (Run (MA :: r'))
  | MV :: r' => Some (Run (MK :: r'))
  | MK :: _ => None
  end.
Definition mtakes (m : list mfr) : bool := match m with MK :: _ => false | _ => true end.

Definition mstep (m : list mfr) (e : event) : option mstate :=
  match e with
  | EVal _ | EStrRef _ | EXArr _ _ | EXObj _ _ => marrive m
  | EArrStart _ _ => if mtakes m then Some (Run (MA :: m)) else None
  | EObjStart _ _ => if mtakes m then Some (Run (MK :: m)) else None
  | EArrEnd => match m with MA :: r => marrive r | _ => None end
  | EObjEnd => match m with MK :: r => marrive r | _ => None end
  | EKey _ | EKeyRef _ => match m with MK :: r => Some (Run (MV :: r)) | _ => None end
  end.

Fixpoint mrun (st : mstate) (l : list event) : option mstate :=
  match l with
  | [] => Some st
  | e :: l' =>
      match st with
      | Fin => None
      | Run m => match mstep m e with Some st' => mrun st' l' | None => None end
      end
  end.

Lemma mrun_app : forall l1 l2 st st1, mrun st l1 = Some st1 -> mrun st (l1 ++ l2) = mrun st1 l2.
Proof.
  induction l1 as [|e l1 IH]; intros l2 st st1 H; cbn [mrun app] in *.
  - inversion H. reflexivity.
  - destruct st as [m|]; [|discriminate]. destruct (mstep m e) as [st'|]; [|discriminate].
    apply IH. exact H.
Qed.

Lemma mrun_fin : forall l st, mrun Fin l = Some st -> l = [] /\ st = Fin.
Proof. intros [|e l] st H; cbn in H; [inversion H; auto|discriminate]. Qed.

(* Fin is reached only through an event; Run [] only without one *)
Lemma mstep_nonempty : forall m e m', mstep m e = Some (Run m') -> m' <> [].
Proof.
  intros m e m' H. assert (A : forall r, marrive r = Some (Run m') -> m' <> []).
  { intros [|[| |] r] K; cbn in K; inversion K; discriminate. }
  destruct e; cbn [mstep] in H; try (apply (A _ H)).
  - destruct (mtakes m); inversion H; discriminate.
  - destruct m as [|[| |] r]; try discriminate; apply (A _ H).
  - destruct (mtakes m); inversion H; discriminate.
  - destruct m as [|[| |] r]; try discriminate; apply (A _ H).
  - destruct m as [|[| |] r]; inversion H; discriminate.
  - destruct m as [|[| |] r]; inversion H; discriminate.
Qed.

Lemma mrun_nonempty : forall l st m', mrun st l = Some (Run m') -> l <> [] -> m' <> [].
Proof.
  induction l as [|e l IH]; intros st m' H Hl; [congruence|].
  cbn [mrun] in H. destruct st as [m|]; [|discriminate].
  destruct (mstep m e) as [st'|] eqn:E; [|discriminate].
  destruct l as [|e2 l2].
  - cbn in H. inversion H; subst. eapply mstep_nonempty; eauto.
  - eapply IH; [exact H|discriminate].
Qed.

Lemma mrun_Fin_nonempty : forall l m, mrun (Run m) l = Some Fin -> l <> [].
Proof. intros [|e l] m H; [discriminate|discriminate]. Qed.

(* ---------- soundness: ghost frames with the subtrees completed so far ---------- *)
Inductive gfr :=
| GA (len : Z) (bt : btype) (done : list tree)
| GO (len : Z) (bt : btype) (done : list (bytes * bool * tree)) (key : option (bytes * bool)).

Definition gshape (f : gfr) : mfr :=
  match f with GA _ _ _ => MA | GO _ _ _ None => MK | GO _ _ _ (Some _) => MV end.
Definition gev (f : gfr) : list event :=
  match f with
  | GA len bt done => EArrStart len bt :: flatten_elems (rev done)
  | GO len bt done key => EObjStart len bt :: flatten_members (rev done) ++
                          match key with Some (k, r) => [key_event k r] | None => [] end
  end.
Fixpoint oev (G : list gfr) : list event :=
  match G with [] => [] | f :: G' => oev G' ++ gev f end.

Definition gres (G : list gfr) (l : list event) (st : mstate) : Prop :=
  match st with
  | Run m' => exists G', m' = map gshape G' /\ oev G' = oev G ++ l
  | Fin => exists t, oev G ++ l = flatten t
  end.

Lemma garrive : forall G st t, marrive (map gshape G) = Some st -> gres G (flatten t) st.
Proof.
  intros [|[len bt done|len bt done [[k r]|]] G'] st t H; cbn [map gshape marrive] in H; inversion H; subst; cbn [gres].
  - exists t. reflexivity.
  - exists (GA len bt (t :: done) :: G'). split; [reflexivity|].
    cbn [oev gev rev]. unfold flatten_elems. rewrite flat_map_app. cbn [flat_map].
    repeat (rewrite <- app_assoc || rewrite app_nil_r || rewrite <- app_comm_cons). reflexivity.
  - exists (GO len bt ((k, r, t) :: done) None :: G'). split; [reflexivity|].
    cbn [oev gev rev]. unfold flatten_members. rewrite flat_map_app. cbn [flat_map].
    repeat (rewrite <- app_assoc || rewrite app_nil_r || rewrite <- app_comm_cons). reflexivity.
Qed.

Lemma gres_shift : forall G f l st, gres G (gev f ++ l) st -> gres (f :: G) l st.
Proof.
  intros G f l [m'|] H; cbn [gres oev] in *.
  - destruct H as (G' & A & B). exists G'. split; [exact A|]. rewrite B, <- app_assoc. reflexivity.
  - destruct H as (t & B). exists t. rewrite <- B, <- app_assoc. reflexivity.
Qed.

Lemma mtakes_shape : forall G, mtakes (map gshape G) = true -> True.
Proof. auto. Qed.

Lemma mstep_sound : forall G e st, mstep (map gshape G) e = Some st -> gres G [e] st.
Proof.
  intros G e st H. destruct e; cbn [mstep] in H.
  - pose proof (garrive G st (TVal s false) H) as K. destruct s; exact K.
  - exact (garrive G st (TVal (SStr s) true) H).
  - destruct (mtakes _); [|discriminate]. inversion H; subst. cbn [gres].
    exists (GA len bt [] :: G). split; [reflexivity|]. reflexivity.
  - destruct G as [|[len bt done|len bt done [[k r]|]] G']; cbn [map gshape] in H; try discriminate H.
    apply gres_shift. pose proof (garrive G' st (TArr len bt (rev done)) H) as K.
    rewrite flatten_arr in K. exact K.
  - destruct (mtakes _); [|discriminate]. inversion H; subst. cbn [gres].
    exists (GO len bt [] None :: G). split; [reflexivity|]. reflexivity.
  - destruct G as [|[len bt done|len bt done [[k r]|]] G']; cbn [map gshape] in H; try discriminate H.
    apply gres_shift. pose proof (garrive G' st (TObj len bt (rev done)) H) as K.
    rewrite flatten_obj in K. cbn [gev]. rewrite app_nil_r. exact K.
  - destruct G as [|[len bt done|len bt done [[k0 r]|]] G']; cbn [map gshape] in H; try discriminate H.
    inversion H; subst. cbn [gres]. exists (GO len bt done (Some (k, false)) :: G'). split; [reflexivity|].
    cbn [oev gev key_event]. rewrite !app_nil_r, <- !app_assoc. reflexivity.
  - destruct G as [|[len bt done|len bt done [[k0 r]|]] G']; cbn [map gshape] in H; try discriminate H.
    inversion H; subst. cbn [gres]. exists (GO len bt done (Some (k, true)) :: G'). split; [reflexivity|].
    cbn [oev gev key_event]. rewrite !app_nil_r, <- !app_assoc. reflexivity.
  - exact (garrive G st (TXArr bt elems) H).
  - exact (garrive G st (TXObj bt members) H).
Qed.

Lemma mrun_sound : forall l G st, mrun (Run (map gshape G)) l = Some st -> gres G l st.
Proof.
  induction l as [|e l IH]; intros G st H; cbn [mrun] in H.
  - inversion H; subst. cbn [gres]. exists G. rewrite app_nil_r. auto.
  - destruct (mstep (map gshape G) e) as [st1|] eqn:E; [|discriminate].
    pose proof (mstep_sound G e st1 E) as K.
    destruct st1 as [m1|].
    + cbn [gres] in K. destruct K as (G1 & -> & B). specialize (IH G1 st H).
      destruct st as [m'|]; cbn [gres] in *.
      * destruct IH as (G' & A' & B'). exists G'. split; [exact A'|]. rewrite B', B, <- app_assoc. reflexivity.
      * destruct IH as (t & B'). exists t. rewrite <- B', B, <- app_assoc. reflexivity.
    + apply mrun_fin in H. destruct H as [-> ->]. exact K.
Qed.

(* the monitor accepts exactly ... at least: whatever it accepts is the stream of one tree *)
Theorem mrun_tree : forall l, mrun (Run []) l = Some Fin -> exists t, l = flatten t.
Proof.
  intros l H. pose proof (mrun_sound l [] Fin H) as K. cbn [gres oev app] in K.
  destruct K as (t & K). exists t. exact K.
Qed.

(* ====================================================================== *)
(* Part 5: one pass over execStep - the events it emits drive the monitor, *)
(* and the done flag is "the monitor has finished"                         *)
(* ====================================================================== *)
(* the monitor state of a parser: the open containers of the current state and of the state stack *)
Definition mcur (c : ustate) : list mfr :=
  if PS.st_in c [(6,0);(6,16);(7,16);(8,16)] then [MA]
  else if PS.st_in c [(10,0);(10,18);(11,17);(11,18);(12,17);(12,18)] then [MK]
  else if PS.st_in c [(10,16);(11,16);(12,16)] then [MV] else [].
Definition mstk1 (c : ustate) : list mfr :=
  if PS.st_in c [(6,16);(7,16);(8,16)] then [MA]
  else if PS.st_in c [(10,0);(11,17);(12,17)] then [MV] else [].
Fixpoint mstk (l : list ustate) : list mfr :=
  match l with [] => [] | c :: r => mstk1 c ++ mstk r end.
Definition mst (p : uparser) : list mfr := mcur (up_cur p) ++ mstk (up_stack p).

(* stNext is at the bottom of the state stack and nowhere else *)
Fixpoint wfs (l : list ustate) : bool :=
  match l with
  | [] => false
  | c :: l' => match l' with [] => u_t c =? 1 | _ :: _ => negb (u_t c =? 1) && wfs l' end
  end.
Definition WF (p : uparser) : Prop := wfs (up_cur p :: up_stack p) = true.

Lemma wfs_cons2 : forall c c2 r, wfs (c :: c2 :: r) = negb (u_t c =? 1) && wfs (c2 :: r).
Proof. reflexivity. Qed.
Lemma wfs_one : forall c, wfs [c] = (u_t c =? 1).
Proof. reflexivity. Qed.
Lemma mstk_cons : forall c r, mstk (c :: r) = mstk1 c ++ mstk r.
Proof. reflexivity. Qed.
Lemma mstk_nil : mstk [] = [].
Proof. reflexivity. Qed.

Lemma mtakes_mstk : forall l, mtakes (mstk l) = true.
Proof.
  induction l as [|c r IH]; [reflexivity|]. rewrite mstk_cons. unfold mstk1.
  destruct (PS.st_in c _); [reflexivity|]. destruct (PS.st_in c _); [reflexivity|]. exact IH.
Qed.

Lemma vstate_factsX : forall c, PS.st_in c PS.vstates = true -> mcur c = [] /\ (u_t c =? 1) = false.
Proof.
  intros [t s] H. apply PS.st_in_In in H. cbn in H.
  repeat (destruct H as [H|H]; [injection H as <- <-; split; reflexivity|]). contradiction.
Qed.
Lemma fresh_factsX : forall c, PS.st_in c PS.fresh_states = true -> mcur c = [] /\ (u_t c =? 1) = false.
Proof. intros c H. apply vstate_factsX. apply PS.fresh_vstate. exact H. Qed.

Lemma zlen_cons_nz : forall (A : Type) (x : A) l, (zlen (x :: l) =? 0) = false.
Proof. intros. unfold zlen. cbn [length]. lia. Qed.

Definition postX (n : nat) (m : list mfr) (s : sink) (r : ures) : Prop :=
  match r with
  | UCrash _ => True
  | UR p1 s1 rest d e => unil e = true ->
      exists l, s1 = s_add s l /\ WF p1 /\ (n <= S (length (up_stack p1)))%nat /\
                (d = true -> up_stack p1 = []) /\
                mrun (Run m) l = Some (if d then Fin else Run (mst p1))
  end.

Lemma postX_latch : forall n m s r, postX n m s r -> postX n m s (PS.latch r).
Proof.
  intros n m s [p1 s1 rest d err|w] H; cbn [PS.latch]; [|exact H].
  destruct (unil err) eqn:E; [exact H|]. cbn [postX]. intro H1. congruence.
Qed.

(* the element step of a typed array, after the events l0 of the array step itself *)
Lemma postX_pre : forall n n' m m' s l0 r,
  mrun (Run m) l0 = Some (Run m') -> (n <= n')%nat -> (2 <= n')%nat ->
  postX n' m' (s_add s l0) r -> postX n m s (value_nodone r).
Proof.
  intros n n' m m' s l0 [p1 s1 rest d e|w] Hm Hn H2 H; [|exact I]. cbn [value_nodone postX] in *.
  intros Hu. destruct (H Hu) as (l & -> & Hw & Hlen & Hd & Hr).
  destruct d.
  - exfalso. rewrite (Hd eq_refl) in Hlen. cbn [length] in Hlen. lia.
  - exists (l0 ++ l). rewrite s_add_add. split; [reflexivity|]. split; [exact Hw|]. split; [lia|].
    split; [discriminate|]. rewrite (mrun_app _ _ _ _ Hm). exact Hr.
Qed.

Lemma postX_pre0 : forall n n' m m' s r,
  m = m' -> (n <= n')%nat -> (2 <= n')%nat -> postX n' m' s r -> postX n m s (value_nodone r).
Proof.
  intros n n' m m' s r -> Hn H2 H. apply (postX_pre n n' m' m' s [] r); [reflexivity|exact Hn|exact H2|].
  rewrite s_add_nil. exact H.
Qed.

Definition uerr (s : sink) (e : event) : Z := snd (uvis s e).
Lemma uvis_eq : forall s e, uvis s e = (s_add s [e], uerr s e).
Proof. intros s e. unfold uerr, uvis. rewrite emit_spec. reflexivity. Qed.

Lemma ustep_value_specX : forall p s x r,
  exists p1 s1 rest d err, ustep_value p s (x :: r) = UR p1 s1 rest d err /\
    (unil err = true ->
       (p1 = p /\ s1 = s /\ d = false /\ x = mN) \/
       (p1 = p /\ d = true /\ exists sc, s1 = s_add s [EVal sc]) \/
       (exists st, PS.st_in st PS.fresh_states = true /\ p1 = u_push p st /\ s1 = s /\ d = false)).
Proof.
  intros p s x r. unfold ustep_value.
  destruct (marker_state x) as [st|] eqn:Em.
  2:{ eexists _, _, _, _, _. split; [reflexivity|]. intro H; discriminate H. }
  assert (Hst : PS.st_in st ((2,1) :: (2,2) :: (2,3) :: (2,4) :: PS.fresh_states) = true).
  { unfold marker_state in Em.
    repeat match type of Em with (if ?c then _ else _) = _ => destruct c end;
    try discriminate Em; injection Em as <-; reflexivity. }
  destruct (u_s st =? sNil) eqn:E1.
  { rewrite uvis_eq. eexists _, _, _, _, _. split; [reflexivity|]. intros _. right; left. eauto. }
  destruct (u_s st =? sNoop) eqn:E2.
  { eexists _, _, _, _, _. split; [reflexivity|]. intros _; left. repeat split.
    unfold marker_state in Em.
    repeat match type of Em with (if ?c then _ else _) = _ => destruct c eqn:? end;
      try discriminate Em; injection Em as <-; try discriminate E2.
    apply Z.eqb_eq. assumption. }
  destruct (u_s st =? sTrue) eqn:E3.
  { rewrite uvis_eq. eexists _, _, _, _, _. split; [reflexivity|]. intros _. right; left. eauto. }
  destruct (u_s st =? sFalse) eqn:E4.
  { rewrite uvis_eq. eexists _, _, _, _, _. split; [reflexivity|]. intros _. right; left. eauto. }
  eexists _, _, _, _, _. split; [reflexivity|]. intros _; right; right. exists st. split; [|auto].
  apply PS.st_in_In in Hst. unfold sNil, sNoop, sTrue, sFalse in *.
  cbn [In PS.fresh_states] in Hst.
  repeat (destruct Hst as [Hst|Hst]; [injection Hst as Ht Hs; destruct st as [t0 s0]; cbn [u_t u_s] in *; subst; try discriminate; reflexivity|]).
  contradiction.
Qed.

Arguments mcur : simpl never.
Arguments mstk1 : simpl never.
Arguments mstk : simpl never.
Arguments mst : simpl never.
Arguments wfs : simpl never.
Arguments WF : simpl never.
Arguments mtakes : simpl never.
Arguments s_add : simpl never.

Opaque ustep_len ucollect ustep_value uvis wraps be_dec marker_state marker_btype.

Ltac crunchX :=
  repeat first
  [ progress PS.norm
  | match goal with
    | |- context[uvis ?s ?e] => rewrite (uvis_eq s e)
    | |- context[ustep_value ?p ?s (?x :: ?r)] =>
        let E := fresh "E" in let Ho := fresh "Ho" in let Hu := fresh "Hu" in
        let st := fresh "st" in let Hst := fresh "Hst" in let err := fresh "err" in let sc := fresh "sc" in
        destruct (ustep_value_specX p s x r) as (? & ? & ? & ? & err & E & Ho); rewrite E; clear E;
        destruct (unil err) eqn:Hu;
        [ specialize (Ho eq_refl); destruct Ho as [(-> & -> & -> & ?Hx)|[(-> & -> & sc & ->)|(st & Hst & -> & -> & ->)]]
        | clear Ho ]
    | |- context[ustep_len ?p ?b ?c] =>
        let E := fresh "E" in let Ho := fresh "Ho" in let Hu := fresh "Hu" in let err := fresh "err" in
        let HL := fresh "HL" in
        destruct (PS.ustep_len_weak p b c) as (? & ? & err & E & Ho); [PS.nonempty|]; rewrite E; clear E;
        destruct (unil err) eqn:Hu;
        [ specialize (Ho eq_refl); destruct Ho as [(? & ? & ->)|(? & ? & HL & ->)] | clear Ho ]
    | |- context[ucollect ?p ?b ?c] =>
        let E := fresh "E" in let Ho := fresh "Ho" in
        destruct (PS.ucollect_weak p b c) as (? & ? & ? & E & Ho); [lia|]; rewrite E; clear E
    | |- context[match marker_state ?m with _ => _ end] => destruct (marker_state m) eqn:?
    | |- context[match ?o with Some _ => _ | None => _ end] => is_var o; destruct o
    | |- context[if ?c then _ else _] => destruct c eqn:?
    end ].


Lemma mtakes_MA : forall r, mtakes (MA :: r) = true. Proof. reflexivity. Qed.
Lemma mtakes_MV : forall r, mtakes (MV :: r) = true. Proof. reflexivity. Qed.
Lemma mtakes_nil : mtakes [] = true. Proof. reflexivity. Qed.

Lemma ulpop_eqv : forall p, exists lc' ls',
  ul_pop p = {| up_cur := up_cur p; up_stack := up_stack p; up_vcur := up_vcur p; up_vstack := up_vstack p;
                up_lcur := lc'; up_lstack := ls'; up_buf := up_buf p; up_marker := up_marker p;
                up_vtype := up_vtype p; up_err := up_err p |}.
Proof. intros p. unfold ul_pop. destruct (up_lstack p); eexists _, _; reflexivity. Qed.
Lemma vpop_eqv : forall p, exists vc' vs',
  v_pop p = {| up_cur := up_cur p; up_stack := up_stack p; up_vcur := vc'; up_vstack := vs';
               up_lcur := up_lcur p; up_lstack := up_lstack p; up_buf := up_buf p; up_marker := up_marker p;
               up_vtype := up_vtype p; up_err := up_err p |}.
Proof. intros p. unfold v_pop. destruct (up_vstack p); eexists _, _; reflexivity. Qed.

Ltac pops_away :=
  repeat match goal with
  | |- context[v_pop ?P] =>
      let E := fresh "E" in destruct (vpop_eqv P) as (? & ? & E); rewrite E in *; clear E;
      cbn [up_cur up_stack up_vcur up_vstack up_lcur up_lstack up_buf up_marker up_vtype up_err] in *
  | |- context[ul_pop ?P] =>
      lazymatch P with context[v_pop _] => fail | _ => idtac end;
      let E := fresh "E" in destruct (ulpop_eqv P) as (? & ? & E); rewrite E in *; clear E;
      cbn [up_cur up_stack up_vcur up_vstack up_lcur up_lstack up_buf up_marker up_vtype up_err] in *
  end;
  unfold u_pop in *; cbn [up_cur up_stack up_vcur up_vstack up_lcur up_lstack up_buf up_marker up_vtype up_err] in *.

Ltac mc_eval :=
  repeat match goal with
  | |- context[mcur {| u_t := ?a; u_s := ?b |}] =>
      let v := eval vm_compute in (mcur {| u_t := a; u_s := b |}) in
      change (mcur {| u_t := a; u_s := b |}) with v
  | |- context[mstk1 {| u_t := ?a; u_s := ?b |}] =>
      let v := eval vm_compute in (mstk1 {| u_t := a; u_s := b |}) in
      change (mstk1 {| u_t := a; u_s := b |}) with v
  | |- context[mstk ({| u_t := ?a; u_s := ?b |} :: ?r)] => rewrite (mstk_cons {| u_t := a; u_s := b |} r)
  end.

Ltac sym_facts :=
  repeat match goal with
  | Hst : PS.st_in ?c PS.fresh_states = true |- context[u_t ?c =? 1] => rewrite (proj2 (fresh_factsX c Hst))
  | Hst : PS.st_in ?c PS.fresh_states = true |- context[mcur ?c] => rewrite (proj1 (fresh_factsX c Hst))
  | Hst : PS.st_in ?c PS.vstates = true |- context[u_t ?c =? 1] => rewrite (proj2 (vstate_factsX c Hst))
  | Hst : PS.st_in ?c PS.vstates = true |- context[mcur ?c] => rewrite (proj1 (vstate_factsX c Hst))
  end.

Ltac mrun_eval :=
  repeat first [ progress cbn [mrun mstep marrive app]
               | rewrite mtakes_mstk | rewrite mtakes_MA | rewrite mtakes_MV | rewrite mtakes_nil
               | rewrite mstk_nil ].

Ltac witnessX :=
  match goal with
  | |- exists l, ?s = s_add ?s l /\ _ => exists (@nil event); split; [symmetry; apply s_add_nil|]
  | |- exists l, s_add ?s ?l1 = s_add ?s l /\ _ => exists l1; split; [reflexivity|]
  | |- exists l, s_add (s_add ?s ?l1) ?l2 = s_add ?s l /\ _ => exists (l1 ++ l2); split; [apply s_add_add|]
  end.

Ltac wfX HW :=
  unfold WF; cbn [up_cur up_stack]; rewrite ?wfs_cons2, ?wfs_one; sym_facts;
  cbn [u_t negb andb Z.eqb Pos.eqb];
  first [ exact HW | reflexivity ].

Ltac dX :=
  first [ discriminate
        | intros _; first [ reflexivity | apply PS.zlen_nil_iff; assumption ] ].

(* the popped state c2 becomes current: go through the seven states that can be on the stack *)
Ltac enum_c2 c2 H2 :=
  let Hc := fresh "Hc" in let H2' := fresh "H2'" in
  cbn [forallb] in H2; apply andb_true_iff in H2; destruct H2 as [Hc H2'];
  apply PS.st_in_In in Hc; destruct c2 as [?t2 ?s2]; cbn [u_t u_s PS.stack_states In] in Hc;
  repeat (destruct Hc as [Hc|Hc]; [injection Hc as <- <-|]); [..|contradiction].

Ltac mrunX :=
  unfold mst; cbn [up_cur up_stack]; sym_facts; mc_eval; mrun_eval; reflexivity.

Ltac pop_prep HW H2 :=
  match goal with
  | |- context[WF ?P] =>
      let c := eval cbn [up_cur] in (up_cur P) in
      is_var c;
      match type of H2 with context[c] => idtac end;
      enum_c2 c H2;
      rewrite (mstk_cons _ _);
      match goal with
      | Hz : (zlen ?stk =? 0) = true |- _ =>
          apply PS.zlen_nil_iff in Hz; subst stk; rewrite wfs_one in HW; cbn [u_t Z.eqb Pos.eqb] in HW;
          try discriminate HW
      | Hz : (zlen ?stk =? 0) = false |- _ =>
          destruct stk; [discriminate Hz|]; rewrite wfs_cons2 in HW; cbn [u_t Z.eqb Pos.eqb negb andb] in HW;
          try discriminate HW
      end
  end.

Ltac leafX HW H2 :=
  pops_away; try pop_prep HW H2;
  (witnessX; (split; [wfX HW|(split; [cbn [length]; lia|(split; [dX|mrunX])])])).

Lemma ubody0_X : forall rec p s b, PS.inv1b p = true -> WF p -> PS.ready p b ->
  (u_t (up_cur p) = tArrayTyped ->
   forall p' s', PS.inv1b p' = true -> WF p' -> u_t (up_cur p') <> tArrayTyped -> PS.ready p' b ->
     postX (length (up_stack p')) (mst p') s' (rec p' s' b)) ->
  postX (length (up_stack p)) (mst p) s (PS.ubody0 rec p s b).
Proof.
  intros rec p s b Hi HW Hr Hrec.
  destruct (PS.inv1b_split _ Hi) as (H1 & H2 & H3 & H4 & H5).
  destruct p as [[t st] stk vc vs lc ls buf mk vt er].
  unfold WF in HW. unfold mst.
  cbn [up_cur up_stack up_vcur up_vstack up_lcur up_lstack] in H1, H2, H3, H4, H5, HW |- *.
  destruct (PS.vstate_cur _ H4) as (V1 & V2 & V3).
  apply PS.st_in_In in H1. cbn in H1.
  repeat (destruct H1 as [H1|H1]; [injection H1 as <- <-|]); try contradiction.
  all: cbn in H3.
  all: destruct stk as [|c2 stk]; [rewrite wfs_one in HW|rewrite wfs_cons2 in HW];
       cbn [u_t negb andb Z.eqb Pos.eqb] in HW; try discriminate HW.
  all: destruct b as [|x r]; [ destruct Hr as [Hr|Hr]; [congruence|]; try (discriminate Hr); cbn in Hr |].
  all: unfold PS.ubody0.
  all: cbn -[Z.sub].
  all: crunchX.
  all: try contradiction.
  all: try (intro Hu'; try congruence; try (rewrite Hu' in *; discriminate)).
  all: PS.norm.
  all: try exact I.
  all: try (match goal with Hx : ?x = mN, Hn : (?x =? mN) = false |- _ => rewrite Hx in Hn; discriminate Hn end).
  all: try solve [leafX HW H2].
  all: match goal with
    | |- postX ?n ?m ?s (value_nodone (?f ?P (s_add ?s ?l0) ?b)) =>
        apply (postX_pre n (length (up_stack P)) m (mst P) s l0)
    | |- postX ?n ?m ?s (value_nodone (?f ?P ?s ?b)) =>
        apply (postX_pre0 n (length (up_stack P)) m (mst P) s)
    end;
    [ unfold mst; cbn [up_cur up_stack]; sym_facts; mc_eval; mrun_eval; reflexivity
    | cbn [up_stack length]; lia
    | cbn [up_stack length]; lia
    | apply Hrec;
      [ reflexivity
      | apply PS.inv1b_join; cbn [up_cur up_stack up_vcur up_vstack up_lcur forallb] in *; rewrite ?V2, ?H2; auto
      | wfX HW
      | exact V3
      | first [ left; discriminate
              | right; apply PS.zero_sized_can_step; cbn [up_cur];
                repeat match goal with H : (_ =? 0) = false |- _ => rewrite H in Hr end; exact Hr ] ] ].
Qed.

Transparent ustep_len ucollect ustep_value uvis wraps be_dec marker_state marker_btype.

Lemma ubody_X : forall rec p s b, PS.inv1b p = true -> WF p -> PS.ready p b ->
  (u_t (up_cur p) = tArrayTyped ->
   forall p' s', PS.inv1b p' = true -> WF p' -> u_t (up_cur p') <> tArrayTyped -> PS.ready p' b ->
     postX (length (up_stack p')) (mst p') s' (rec p' s' b)) ->
  postX (length (up_stack p)) (mst p) s (PS.ubody rec p s b).
Proof. intros. unfold PS.ubody. apply postX_latch. apply ubody0_X; assumption. Qed.

Lemma uexec_step_X : forall p s b, PS.inv1b p = true -> WF p -> PS.ready p b ->
  postX (length (up_stack p)) (mst p) s (uexec_step p s b).
Proof.
  intros p s b Hi HW Hr. unfold uexec_step. rewrite PS.uexec_S. apply ubody_X; try assumption.
  intros _ p' s' Hi' HW' Ht' Hr'. rewrite PS.uexec_S. apply ubody_X; try assumption.
  intro X; contradiction.
Qed.

(* The emission / done-flag lemma for one execStep (the analogue of jstep_emit): the events
   delivered by a step drive the monitor from the state of the parser before the step to the
   state of the parser after it, and done is returned exactly when the monitor has finished,
   i.e. when the events complete the top-level value. *)
Lemma step_mon : forall p s b p1 s1 rest d,
  PS.inv1b p = true -> WF p -> PS.ready p b -> uexec_step p s b = UR p1 s1 rest d unilE ->
  exists l, s1 = s_add s l /\ WF p1 /\ PS.inv1b p1 = true /\ (d = true -> up_stack p1 = []) /\
            mrun (Run (mst p)) l = Some (if d then Fin else Run (mst p1)).
Proof.
  intros p s b p1 s1 rest d Hi HW Hr H.
  pose proof (uexec_step_X p s b Hi HW Hr) as X. pose proof (PS.uexec_step_safe1 p s b Hi Hr) as P.
  rewrite H in X, P. cbn [postX PS.post1] in X, P.
  destruct (X eq_refl) as (l & A & B & _ & C & D). exists l. auto.
Qed.

Lemma fu_mon : forall n p s b p1 s1 rest d,
  PS.inv1b p = true -> WF p -> PS.ready p b -> ufeed_until n p s b = Ok (UR p1 s1 rest d unilE) ->
  exists l, s1 = s_add s l /\ WF p1 /\ PS.inv1b p1 = true /\ (d = true -> up_stack p1 = []) /\
            mrun (Run (mst p)) l = Some (if d then Fin else Run (mst p1)).
Proof.
  induction n as [|n IH]; intros p s b p1 s1 rest d Hi HW Hr H; [discriminate|].
  cbn [ufeed_until] in H.
  destruct (uexec_step p s b) as [pa sa ra da ea|w] eqn:E; [|discriminate].
  destruct (da || negb (unil ea)) eqn:E1.
  - inversion H; subst. eapply step_mon; eauto.
  - apply orb_false_iff in E1. destruct E1 as [-> En]. apply negb_false_iff, unil_true in En. subst ea.
    destruct (step_mon _ _ _ _ _ _ _ Hi HW Hr E) as (l0 & -> & HW1 & Hi1 & _ & M0).
    destruct ((zlen ra =? 0) && negb (can_step_without_input pa)) eqn:Ec.
    + inversion H; subst. exists l0. repeat split; auto. discriminate.
    + assert (Hr1 : PS.ready pa ra).
      { apply andb_false_iff in Ec. destruct Ec as [Ec|Ec].
        - left. intros ->. discriminate Ec.
        - right. apply negb_false_iff in Ec. exact Ec. }
      destruct (IH _ _ _ _ _ _ _ Hi1 HW1 Hr1 H) as (l & -> & A & B & C & D).
      exists (l0 ++ l). rewrite s_add_add. repeat split; auto.
      rewrite (mrun_app _ _ _ _ M0). exact D.
Qed.

(* ---------- one Next ---------- *)
Lemma next_mon : forall fuel d s d' s',
  PS.inv1b (ud_p d) = true -> WF (ud_p d) -> uscript_okb (ud_script d) = true ->
  udec_next fuel d s = Ok (d', s', unilE) ->
  exists l, s' = s_add s l /\ WF (ud_p d') /\ PS.inv1b (ud_p d') = true /\ up_stack (ud_p d') = [] /\
            uscript_okb (ud_script d') = true /\
            mrun (Run (mst (ud_p d))) l = Some Fin.
Proof.
  induction fuel as [|f IH]; intros d s d' s' Hi HW Hsc H; [discriminate|].
  rewrite udec_next_S in H. pose proof (udec_fill_spec d Hsc) as Hf.
  destruct (udec_fill d) as [d1|sc|d1 e]; [| |contradiction].
  - destruct Hf as (Hp & _ & Ho & _). rewrite <- Hp in Hi, HW |- *.
    destruct (zlen (ud_buf d1) =? 0) eqn:Eb; [eapply IH; eauto|].
    assert (Hr : PS.ready (ud_p d1) (ud_buf d1)) by (left; intros E; rewrite E in Eb; discriminate Eb).
    unfold udec_body in H.
    destruct (ufeed_until _ _ _ _) as [[p1 s1 rest dn err|w]|a|a|] eqn:Hfu; try discriminate.
    destruct (unil err) eqn:Ee; cbn [negb] in H; [|inversion H; subst; discriminate Ee].
    apply unil_true in Ee. subst err.
    destruct (fu_mon _ _ _ _ _ _ _ _ Hi HW Hr Hfu) as (l0 & -> & HW1 & Hi1 & Hd & M0).
    destruct dn.
    + inversion H; subst d' s'. cbn [ud_p ud_script]. exists l0. repeat split; auto.
    + match type of H with udec_next f ?d2 _ = _ =>
        destruct (IH d2 _ _ _ Hi1 HW1 Ho H) as (l & -> & A & B & C & D & E) end.
      cbn [ud_p] in E. exists (l0 ++ l). rewrite s_add_add. repeat split; auto.
      rewrite (mrun_app _ _ _ _ M0). exact E.
  - unfold udec_fin in H. destruct (ufin (ud_p d) s) as [[p1 s1] e0]. inversion H as [[Hd' Hs' He]].
    destruct (unil e0) eqn:E0; [discriminate He|]. subst e0. discriminate E0.
Qed.

(* the decoder between two values *)
Definition dtop (d : udecoder) : Prop :=
  PS.inv1b (ud_p d) = true /\ up_cur (ud_p d) = mku tNext sStart /\ up_stack (ud_p d) = [] /\
  uscript_okb (ud_script d) = true.

Lemma top_state : forall p, PS.inv1b p = true -> WF p -> up_stack p = [] -> up_cur p = mku tNext sStart.
Proof.
  intros p Hi HW Hs. unfold WF in HW. rewrite Hs, wfs_one in HW.
  destruct (PS.inv1b_split _ Hi) as (H1 & _). destruct (up_cur p) as [t st]. cbn [u_t] in HW.
  apply Z.eqb_eq in HW. subst t. apply PS.st_in_In in H1. cbn in H1.
  repeat (destruct H1 as [H1|H1]; [injection H1; intros; subst; first [reflexivity|congruence]|]). contradiction.
Qed.

(* C18: a Next that returns nil has delivered the events of EXACTLY ONE value - a complete tree,
   at least one event, and nothing of the value that follows - and the decoder is between two
   values again. *)
Theorem C18_ubj_next_tree : forall fuel d s d' s',
  dtop d -> udec_next fuel d s = Ok (d', s', unilE) ->
  exists t, s' = s_add s (flatten t) /\ dtop d'.
Proof.
  intros fuel d s d' s' (Hi & Hc & Hs & Hsc) H.
  assert (HW : WF (ud_p d)) by (unfold WF; rewrite Hc, Hs; reflexivity).
  destruct (next_mon _ _ _ _ _ Hi HW Hsc H) as (l & -> & A & B & C & D & E).
  assert (Hm : mst (ud_p d) = []) by (unfold mst; rewrite Hc, Hs; reflexivity).
  rewrite Hm in E. destruct (mrun_tree l E) as (t & ->).
  exists t. split; [reflexivity|]. split; [exact B|]. split; [apply top_state; assumption|]. auto.
Qed.

Lemma flatten_nonempty : forall t, flatten t <> [].
Proof. intros [sc [|]|len bt es|len bt ms|bt es|bt ms]; try destruct sc; discriminate. Qed.

(* ====================================================================== *)
(* Part 6: a step that reports done does not depend on what follows        *)
(* ====================================================================== *)
(* ChunkProofs.Dich leaves two alternatives for the step on a ++ b; for a step that
   completes the top-level value only the first one (the step does the same and
   leaves b unread) is possible. *)
Definition DoneExt (b : bytes) (r w : ures) : Prop :=
  match r with
  | UR _ _ _ true e => e = unilE -> ext b r w
  | _ => True
  end.

Lemma DE_ext : forall b r w, ext b r w -> DoneExt b r w.
Proof. intros b [p s rest [|] e|c] w H; cbn [DoneExt]; auto. Qed.
Lemma DE_of_ul : forall b r s w, DoneExt b (of_ul r s) w.
Proof. intros b [p rest e|c] s w; exact I. Qed.
Lemma DE_nodone : forall b r w, DoneExt b (value_nodone r) w.
Proof. intros b [p s rest d e|c] w; exact I. Qed.
Lemma DE_latch : forall b r w, DoneExt b r w -> DoneExt b (xlatch r) (xlatch w).
Proof.
  intros b [p s rest [|] e|c] w H; cbn [DoneExt xlatch] in *; try exact I.
  - destruct (unil e) eqn:E; cbn [DoneExt]; intros He.
    + specialize (H He). subst e. apply (ext_latch b (UR p s rest true unilE) w H).
    + subst e. discriminate E.
  - destruct (unil e); exact I.
Qed.

Lemma fixed_via_done : forall b p s a k mk, bufok p k ->
  DoneExt b (fixed_via p s a k mk) (fixed_via p s (a ++ b) k mk).
Proof.
  intros b p s a k mk Hb. unfold fixed_via at 1.
  destruct (ucollect p a k) as [p1 rest [t|]|] eqn:E; [..|exact I].
  - apply DE_ext. destruct (collect_some_app p a b _ _ _ _ Hb E) as [E2 _].
    unfold fixed_via. rewrite E2. destruct (uvis s _) as [s1 e]. apply fixed_fin_ext.
  - unfold fixed_fin. cbn [andb]. exact I.
Qed.

Lemma ustep_fixed_done : forall b p s a,
  a <> [] \/ is_zero_sized (up_cur p) = true -> bufok p (fixed_count (u_s (up_cur p))) ->
  DoneExt b (ustep_fixed p s a) (ustep_fixed p s (a ++ b)).
Proof.
  intros b p s a Ha Hb. rewrite !ustep_fixed_eq.
  assert (Hvia : forall k mk, fixed_count (u_s (up_cur p)) = k ->
            DoneExt b (fixed_via p s a k mk) (fixed_via p s (a ++ b) k mk)).
  { intros k mk Hk. apply fixed_via_done. rewrite <- Hk. exact Hb. }
  unfold fixed_body at 1 2.
  destruct (u_s (up_cur p) =? sNil) eqn:E1.
  { destruct (uvis s _) as [s1 e]. apply DE_ext, fixed_fin_ext. }
  destruct (u_s (up_cur p) =? sNoop) eqn:E2.
  { apply DE_ext, fixed_fin_ext. }
  destruct (u_s (up_cur p) =? sTrue) eqn:E3.
  { destruct (uvis s _) as [s1 e]. apply DE_ext, fixed_fin_ext. }
  destruct (u_s (up_cur p) =? sFalse) eqn:E4.
  { destruct (uvis s _) as [s1 e]. apply DE_ext, fixed_fin_ext. }
  assert (Ha' : a <> []).
  { destruct Ha as [Ha|Ha]; [exact Ha|]. unfold is_zero_sized in Ha. rewrite E1, E3, E4 in Ha.
    rewrite andb_false_r in Ha. discriminate Ha. }
  destruct (u_s (up_cur p) =? sInt8) eqn:E5.
  { destruct a as [|x r]; [congruence|]. cbn [app].
    destruct (uvis s _) as [s1 e]. apply DE_ext, fixed_fin_ext. }
  destruct (u_s (up_cur p) =? sUInt8) eqn:E6.
  { destruct a as [|x r]; [congruence|]. cbn [app].
    destruct (uvis s _) as [s1 e]. apply DE_ext, fixed_fin_ext. }
  destruct (u_s (up_cur p) =? sChar) eqn:E7.
  { apply Hvia. unfold fixed_count. rewrite E7. reflexivity. }
  destruct (u_s (up_cur p) =? sInt16) eqn:E8.
  { apply Hvia. unfold fixed_count. rewrite E7, E8. reflexivity. }
  destruct (u_s (up_cur p) =? sInt32) eqn:E9.
  { apply Hvia. unfold fixed_count. rewrite E7, E8, E9. reflexivity. }
  destruct (u_s (up_cur p) =? sInt64) eqn:E10.
  { apply Hvia. unfold fixed_count. rewrite E7, E8, E9, E10. reflexivity. }
  destruct (u_s (up_cur p) =? sFloat32) eqn:E11.
  { apply Hvia. unfold fixed_count. rewrite E7, E8, E9, E10, E11. reflexivity. }
  destruct (u_s (up_cur p) =? sFloat64) eqn:E12.
  { apply Hvia. unfold fixed_count. rewrite E7, E8, E9, E10, E11, E12. reflexivity. }
  exact I.
Qed.

Lemma str_withlen_done : forall b p s a, bufok p (up_lcur p) ->
  DoneExt b (str_withlen p s a) (str_withlen p s (a ++ b)).
Proof.
  intros b p s a Hb. unfold str_withlen at 1.
  destruct (up_lcur p =? 0) eqn:EL.
  { apply DE_ext. unfold str_withlen. rewrite EL. destruct (uvis s _) as [s1 e]. apply str_fin_ext. }
  destruct (ucollect p a (up_lcur p)) as [p1 rest [t|]|] eqn:E; [..|exact I].
  - apply DE_ext. destruct (collect_some_app p a b _ _ _ _ Hb E) as [E2 _].
    unfold str_withlen. rewrite EL, E2. destruct (uvis s _) as [s1 e]. apply str_fin_ext.
  - unfold str_fin. cbn [andb]. exact I.
Qed.

Lemma ustep_string_done : forall b p s a,
  isstr p -> good p -> a <> [] -> b <> [] ->
  DoneExt b (ustep_string p s a) (ustep_string p s (a ++ b)).
Proof.
  intros b p s a Ht Hg Ha Hb0. rewrite !ustep_string_eq.
  destruct (u_s (up_cur p) =? sStart) eqn:E1.
  - apply Z.eqb_eq in E1.
    pose proof (good_len p Hg (lenst_str_start p Ht E1)) as Hbuf.
    set (cont := with_step (up_cur p) sWithLen).
    pose proof (ustep_len_dich cont p a b Hbuf Ha Hb0) as D.
    destruct (ustep_len p a cont) as [p1 rest e|c] eqn:EL; [|exact I].
    cbn [LDich] in D. destruct D as [D|(D1 & D2 & D3 & D4 & D5 & D6)].
    + destruct (ustep_len p (a ++ b) cont) as [p2 rest' e'|c'] eqn:EW; cbn [extL] in D; [|contradiction].
      destruct D as [<- D]. cbn [str_cont].
      destruct (unil e) eqn:Ee.
      * apply unil_true in Ee. destruct (D Ee) as [<- ->]. subst e.
        destruct (u_s (up_cur p1) =? sWithLen) eqn:Es; cbn [andb]; [|exact I].
        apply Z.eqb_eq in Es.
        destruct (ustep_len_res cont p a p1 rest Hbuf EL) as (_ & _ & _ & _ & [(A & _)|(A & B)]).
        { rewrite A, E1 in Es. discriminate. }
        apply str_withlen_done. left. apply B.
      * cbn [andb]. exact I.
    + subst rest e. cbn [str_cont]. rewrite D4, E1.
      replace (sStart =? sWithLen) with false by reflexivity. rewrite andb_false_r. exact I.
  - destruct (u_s (up_cur p) =? sWithLen) eqn:E2.
    + apply Z.eqb_eq in E2. apply str_withlen_done.
      destruct (good_nolen p Hg) as [_ Hbuf]; [apply lenst_str_other; [exact Ht|lia]|].
      rewrite count_of_str_withlen in Hbuf by assumption. exact Hbuf.
    + exact I.
Qed.

Lemma arr_counted_done : forall b p s a,
  u_t (up_cur p) = tArrayCount -> a <> [] \/ cstep p = true ->
  DoneExt b (arr_counted p s a) (arr_counted p s (a ++ b)).
Proof.
  intros b p s a Ht Ha. rewrite !arr_counted_eq.
  destruct (u_s (up_cur p) =? sStart) eqn:E1; [apply DE_of_ul|].
  apply DE_ext.
  assert (Ha' : a <> [] \/ up_lcur p = 0).
  { destruct Ha as [Ha|Ha]; [left; exact Ha|right]. apply cstep_arrcount in Ha; tauto. }
  destruct (u_s (up_cur p) =? sWithLen).
  + destruct (uvis s _) as [s1 e]. apply cnt_body_ext. exact Ha'.
  + apply cnt_body_ext. exact Ha'.
Qed.

Lemma typ_body_done : forall rec b p1 s1 e0 l a,
  DoneExt b (typ_body rec p1 s1 e0 l a) (typ_body rec p1 s1 e0 l (a ++ b)).
Proof.
  intros rec b p1 s1 e0 l a. unfold typ_body.
  destruct (negb (unil e0)) eqn:E0; [exact I|].
  destruct (l =? 0) eqn:El.
  { apply DE_ext. repeat (first [ ext_solve | bm ]). }
  cbv zeta. apply DE_nodone.
Qed.

Lemma arr_typed_done : forall rec b p s a,
  DoneExt b (arr_typed rec p s a) (arr_typed rec p s (a ++ b)).
Proof.
  intros rec b p s a. rewrite !arr_typed_eq.
  destruct ((u_s (up_cur p) =? sStart) || (u_s (up_cur p) =? sWithType0) || (u_s (up_cur p) =? sWithType1));
    [apply DE_of_ul|].
  destruct (u_s (up_cur p) =? sWithLen).
  + destruct (uvis s _) as [s1 e]. apply typ_body_done.
  + apply typ_body_done.
Qed.

Lemma obj_dyn_done : forall b p s a, a <> [] ->
  DoneExt b (obj_dyn p s a) (obj_dyn p s (a ++ b)).
Proof.
  intros b p s a Ha. destruct a as [|x r]; [congruence|].
  unfold obj_dyn at 1 2. cbn [app].
  destruct ((u_s (up_cur p) =? sStart) && (up_marker p =? 0) && (x =? mObjE)) eqn:C1.
  { apply DE_ext. repeat (first [ ext_solve | bm ]). }
  destruct (u_s (up_cur p) =? sStart) eqn:C2; [apply DE_of_ul|].
  destruct (u_s (up_cur p) =? sFieldNameLen) eqn:C3.
  { destruct (ucollect p (x :: r) (up_lcur p)) as [p1 rest [t|]|]; try exact I.
    destruct (uvis s _) as [s1 e]. exact I. }
  destruct (u_s (up_cur p) =? sCont) eqn:C4.
  { destruct (x =? mN); [exact I|apply DE_nodone]. }
  exact I.
Qed.

Lemma wrap_close_false : forall typed p s rest e, obj_wrap typed (oc_close false p s rest e) = UR p s rest false e.
Proof. reflexivity. Qed.

Lemma wrap_len_false : forall typed b s r w, DoneExt b (obj_wrap typed (oc_len s r)) w.
Proof. intros typed b s [p1 rest e|c] w; exact I. Qed.

Lemma oc_field_name_done : forall typed b p s a,
  DoneExt b (obj_wrap typed (oc_field_name p s a)) (obj_wrap typed (oc_field_name p s (a ++ b))).
Proof.
  intros typed b p s a. unfold oc_field_name.
  destruct (up_lcur p =? 0); [apply DE_ext, wrap_ext, oc_close_ext|apply wrap_len_false].
Qed.

Lemma content_done : forall typed b p s a,
  DoneExt b (obj_wrap typed (ustep_obj_content p s a typed))
            (obj_wrap typed (ustep_obj_content p s (a ++ b) typed)).
Proof.
  intros typed b p s a. rewrite !obj_content_eq. cbv zeta.
  destruct (u_s (up_cur p) =? sWithLen) eqn:C1.
  { unfold oc_withlen. destruct (uvis s _) as [s1 e].
    destruct (negb (unil e)) eqn:Ee; [exact I|].
    destruct (up_lcur p =? 0) eqn:El; [apply DE_ext, wrap_ext, oc_close_ext|].
    apply oc_field_name_done. }
  destruct (u_s (up_cur p) =? sFieldName) eqn:C2; [apply oc_field_name_done|].
  destruct (u_s (up_cur p) =? sFieldNameLen) eqn:C3.
  { unfold oc_key at 1.
    destruct (if up_lcur p =? 0 then UC p a (Some []) else ucollect p a (up_lcur p)) as [p1 rest [t|]|]; try exact I.
    cbv zeta. destruct (uvis s _) as [s1 e]. exact I. }
  destruct (u_s (up_cur p) =? sCont) eqn:C4.
  { unfold oc_cont at 1. destruct a as [|x r].
    - destruct typed; exact I.
    - destruct (negb typed && (x =? mN)); [exact I|]. cbv zeta.
      destruct typed; [exact I|].
      destruct (ustep_value _ s (x :: r)) as [p2 s2 rest d err|c]; exact I. }
  exact I.
Qed.

Lemma obj_counted_done : forall b p s a,
  DoneExt b (obj_counted p s a) (obj_counted p s (a ++ b)).
Proof.
  intros b p s a. rewrite !obj_counted_eq.
  destruct (u_s (up_cur p) =? sStart); [apply DE_of_ul|apply content_done].
Qed.
Lemma obj_typed_done : forall b p s a,
  DoneExt b (obj_typed p s a) (obj_typed p s (a ++ b)).
Proof.
  intros b p s a. rewrite !obj_typed_eq.
  destruct ((u_s (up_cur p) =? sStart) || (u_s (up_cur p) =? sWithType0) || (u_s (up_cur p) =? sWithType1));
    [apply DE_of_ul|apply content_done].
Qed.

Lemma DoneAt_all : forall f p s a b,
  Inv p -> a <> [] \/ cstep p = true -> b <> [] ->
  DoneExt b (uexec f p s a) (uexec f p s (a ++ b)).
Proof.
  intros [|f] p s a b HI Ha Hb0; [exact I|].
  rewrite !uexec_S. apply DE_latch.
  destruct HI as [He [Hd|Hg]].
  { rewrite !xb_fail by exact Hd. exact I. }
  destruct (t_cases (u_t (up_cur p))) as [T|[T|[T|[T|[T|[T|[T|[T|[T|[T|[T|[T|[T|T]]]]]]]]]]]]].
  - exfalso. destruct Hg as ((Hs & _) & _). apply stk_notfail in Hs. congruence.
  - rewrite !xb_next by exact T. apply DE_ext, ustep_value_ext.
    apply (need_input p a Ha). apply cstep_false_t. auto.
  - rewrite !xb_fixed by exact T. apply ustep_fixed_done.
    + rewrite cstep_fixed in Ha by exact T. exact Ha.
    + destruct (good_nolen p Hg (lenst_fixed p T)) as [_ Hb]. rewrite count_of_fixed in Hb by exact T. exact Hb.
  - rewrite !xb_string by (left; exact T). apply ustep_string_done; auto; [left; exact T|].
    apply (need_input p a Ha). apply cstep_str. left; exact T.
  - rewrite !xb_string by (right; exact T). apply ustep_string_done; auto; [right; exact T|].
    apply (need_input p a Ha). apply cstep_str. right; exact T.
  - rewrite !xb_arr by exact T. apply DE_ext, arr_start_ext.
    apply (need_input p a Ha). apply cstep_false_t. auto.
  - rewrite !xb_arrdyn by exact T. apply DE_ext, arr_dyn_ext.
    apply (need_input p a Ha). apply cstep_false_t. auto.
  - rewrite !xb_arrcount by exact T. apply arr_counted_done; auto.
  - rewrite !xb_arrtyped by exact T. apply arr_typed_done.
  - rewrite !xb_obj by exact T. apply DE_ext, obj_start_ext.
    apply (need_input p a Ha). apply cstep_false_t. auto.
  - rewrite !xb_objdyn by exact T.
    destruct ((u_s (up_cur p) =? sFieldNameLen) && (up_lcur p =? 0)) eqn:K.
    + apply DE_ext, obj_dyn_emptykey_ext.
    + apply obj_dyn_done.
      apply (need_input p a Ha). rewrite cstep_objdyn by exact T. exact K.
  - rewrite !xb_objcount by exact T. apply obj_counted_done.
  - rewrite !xb_objtyped by exact T. apply obj_typed_done.
  - rewrite !xb_other by exact T. exact I.
Qed.

(* a done step is the same step on any longer input, up to the done flag of the longer one
   (which the monitor determines, see done_ext below) *)
Lemma exec_done_ext : forall p s a b p1 s1 rest,
  Inv p -> a <> [] \/ cstep p = true -> b <> [] ->
  uexec_step p s a = UR p1 s1 rest true unilE ->
  exists d', uexec_step p s (a ++ b) = UR p1 s1 (rest ++ b) d' unilE.
Proof.
  intros p s a b p1 s1 rest HI Ha Hb H.
  pose proof (DoneAt_all 3 p s a b HI Ha Hb) as D. fold (uexec_step p s a) in D. fold (uexec_step p s (a ++ b)) in D.
  rewrite H in D. cbn [DoneExt] in D. specialize (D eq_refl).
  destruct (uexec_step p s (a ++ b)) as [p2 s2 rest2 d2 e2|w]; cbn [ext] in D; [|contradiction].
  destruct D as (<- & <- & D). destruct (D eq_refl) as (<- & ->). exists d2. reflexivity.
Qed.


(* ====================================================================== *)
(* Part 7: one Next as a function of the bytes that are still to come      *)
(* ====================================================================== *)
Definition pinv (p : uparser) : Prop := Inv p /\ PS.inv1b p = true /\ WF p.

Lemma pinv0 : pinv uparser0.
Proof. split; [exact Inv0|]. split; reflexivity. Qed.

Lemma ready_of : forall p (a : bytes), a <> [] \/ cstep p = true -> PS.ready p a.
Proof. intros p a H. exact H. Qed.

Lemma pinv_step : forall p s b p1 s1 rest d,
  pinv p -> PS.ready p b -> uexec_step p s b = UR p1 s1 rest d unilE -> pinv p1.
Proof.
  intros p s b p1 s1 rest d (HI & Hi & HW) Hr H.
  destruct (step_mon _ _ _ _ _ _ _ Hi HW Hr H) as (l & _ & A & B & _).
  split; [exact (proj1 (exec_post _ _ _ _ _ _ _ HI H))|]. auto.
Qed.

Lemma s_add_inj : forall s l l', s_add s l = s_add s l' -> l = l'.
Proof.
  intros s l l' H. unfold s_add in H. inversion H as [[H1 H2]].
  apply app_inv_tail in H1. rewrite <- (rev_involutive l), <- (rev_involutive l'), H1. reflexivity.
Qed.

Lemma if_fin_inj : forall (d d' : bool) m, (if d then Fin else Run m) = (if d' then Fin else Run m) -> d = d'.
Proof. intros [|] [|] m H; try reflexivity; discriminate H. Qed.

(* the done flag is a function of the monitor state before the step and the events of the step *)
Lemma done_same : forall p s a a' p1 s1 rest rest' d d',
  pinv p -> PS.ready p a -> PS.ready p a' ->
  uexec_step p s a = UR p1 s1 rest d unilE -> uexec_step p s a' = UR p1 s1 rest' d' unilE -> d = d'.
Proof.
  intros p s a a' p1 s1 rest rest' d d' (HI & Hi & HW) Hr Hr' H H'.
  destruct (step_mon _ _ _ _ _ _ _ Hi HW Hr H) as (l & E & _ & _ & _ & M).
  destruct (step_mon _ _ _ _ _ _ _ Hi HW Hr' H') as (l' & E' & _ & _ & _ & M').
  rewrite E in E'. apply s_add_inj in E'. subst l'. rewrite M in M'. inversion M' as [K].
  exact (if_fin_inj _ _ _ K).
Qed.

(* ... also when the step on the longer input is the step after a silent partial step *)
Lemma done_same2 : forall p s a p1 s1 b x p2 s2 rest2 d2 restw dw,
  pinv p -> PS.ready p a -> PS.ready p1 b -> PS.ready p x ->
  uexec_step p s a = UR p1 s1 [] false unilE ->
  uexec_step p1 s1 b = UR p2 s2 rest2 d2 unilE ->
  uexec_step p s x = UR p2 s2 restw dw unilE -> d2 = dw.
Proof.
  intros p s a p1 s1 b x p2 s2 rest2 d2 restw dw Hp Hr Hr1 Hrx H0 H2 Hw.
  pose proof (pinv_step _ _ _ _ _ _ _ Hp Hr H0) as Hp1.
  destruct Hp as (HI & Hi & HW). destruct Hp1 as (HI1 & Hi1 & HW1).
  destruct (step_mon _ _ _ _ _ _ _ Hi HW Hr H0) as (l0 & E0 & _ & _ & _ & M0).
  destruct (step_mon _ _ _ _ _ _ _ Hi1 HW1 Hr1 H2) as (l2 & E2 & _ & _ & _ & M2).
  destruct (step_mon _ _ _ _ _ _ _ Hi HW Hrx Hw) as (lw & Ew & _ & _ & _ & Mw).
  subst s1. rewrite E2, s_add_add in Ew. apply s_add_inj in Ew. subst lw.
  rewrite (mrun_app _ _ _ _ M0), M2 in Mw. inversion Mw as [K]. exact (if_fin_inj _ _ _ K).
Qed.

(* the loop of feedUntil, without fuel: it stops at done *)
Definition rdres := (uparser * sink * bytes * bool * Z)%type.
Inductive RD : uparser -> sink -> bytes -> rdres -> Prop :=
| RD_err : forall p s b p1 s1 rest d e,
    uexec_step p s b = UR p1 s1 rest d e -> e <> unilE -> RD p s b (p1, s1, rest, d, e)
| RD_done : forall p s b p1 s1 rest,
    uexec_step p s b = UR p1 s1 rest true unilE -> RD p s b (p1, s1, rest, true, unilE)
| RD_more : forall p s b p1 s1 rest r,
    uexec_step p s b = UR p1 s1 rest false unilE -> rest <> [] -> RD p1 s1 rest r -> RD p s b r
| RD_stut : forall p s b p1 s1 r,
    uexec_step p s b = UR p1 s1 [] false unilE -> cstep p1 = true -> RD p1 s1 [] r -> RD p s b r
| RD_stop : forall p s b p1 s1,
    uexec_step p s b = UR p1 s1 [] false unilE -> cstep p1 = false ->
    RD p s b (p1, s1, [], false, unilE).

Lemma RD_det : forall p s b r, RD p s b r -> forall r', RD p s b r' -> r = r'.
Proof.
  induction 1 as [p s b p1 s1 rest d e E Hn | p s b p1 s1 rest E | p s b p1 s1 rest r E Hr _ IH
                 | p s b p1 s1 r E Hx _ IH | p s b p1 s1 E Hd];
    intros r' H'; inversion H'; subst;
    match goal with H : uexec_step _ _ _ = _ |- _ => rewrite E in H; inversion H; subst end;
    try congruence; auto.
Qed.

Lemma feed_until_RD : forall n p s b p1 s1 rest d e,
  ufeed_until n p s b = Ok (UR p1 s1 rest d e) -> RD p s b (p1, s1, rest, d, e).
Proof.
  induction n as [|n IH]; intros p s b p1 s1 rest d e H; [discriminate|].
  cbn [ufeed_until] in H.
  destruct (uexec_step p s b) as [pa sa ra da ea|w] eqn:E; [|discriminate].
  destruct (da || negb (unil ea)) eqn:E1.
  - inversion H; subst; clear H. destruct (unil e) eqn:Ee.
    + apply unil_true in Ee. subst e. cbn [negb] in E1. rewrite orb_false_r in E1. subst d.
      apply RD_done. exact E.
    + apply unil_false in Ee. eapply RD_err; eauto.
  - apply orb_false_iff in E1. destruct E1 as [-> En]. apply negb_false_iff, unil_true in En. subst ea.
    destruct ((zlen ra =? 0) && negb (can_step_without_input pa)) eqn:Ec.
    + inversion H; subst; clear H. apply andb_true_iff in Ec. destruct Ec as [Ec1 Ec2].
      apply Z.eqb_eq, zlen_zero in Ec1. subst rest. apply negb_true_iff in Ec2.
      apply RD_stop; assumption.
    + specialize (IH _ _ _ _ _ _ _ _ H). destruct ra as [|x ra].
      * eapply RD_stut; [exact E| |exact IH].
        cbn in Ec. unfold cstep. destruct (can_step_without_input pa); [reflexivity|discriminate].
      * eapply RD_more; [exact E|discriminate|exact IH].
Qed.

(* same visitor and verdict; after a nil verdict the same parser, rest and done flag *)
Definition simD (r r' : rdres) : Prop :=
  let '(p, s, rest, d, e) := r in let '(p', s', rest', d', e') := r' in
  s = s' /\ e = e' /\ (e = unilE -> p = p' /\ rest = rest' /\ d = d').
Lemma simD_refl : forall r, simD r r.
Proof. intros [[[[p s] rest] d] e]. cbn. auto. Qed.

(* the step from p1 on b is the step from p on x (second alternative of Dich) *)
Lemma RD_ext_nil : forall p s a p1 s1 b x r,
  pinv p -> PS.ready p a -> PS.ready p x -> b <> [] ->
  uexec_step p s a = UR p1 s1 [] false unilE ->
  ext [] (uexec_step p1 s1 b) (uexec_step p s x) -> RD p1 s1 b r ->
  exists r', RD p s x r' /\ simD r r'.
Proof.
  intros p s a p1 s1 b x r Hp Hr Hrx Hb H0 X H.
  assert (Hr1 : PS.ready p1 b) by (left; exact Hb).
  inversion H; subst;
    match goal with E : uexec_step p1 s1 b = _ |- _ => rewrite E in X; rename E into E0 end;
    destruct (uexec_step p s x) as [pw sw restw dw ew|w] eqn:W; cbn [ext] in X;
    try contradiction; destruct X as (<- & <- & X).
  - eexists; split; [eapply RD_err; eauto|]. cbn. repeat split; auto; congruence.
  - destruct (X eq_refl) as (<- & ->). rewrite app_nil_r in W.
    pose proof (done_same2 _ _ _ _ _ _ _ _ _ _ _ _ _ Hp Hr Hr1 Hrx H0 E0 W) as <-.
    eexists; split; [eapply RD_done; eauto|apply simD_refl].
  - destruct (X eq_refl) as (<- & ->). rewrite app_nil_r in W.
    pose proof (done_same2 _ _ _ _ _ _ _ _ _ _ _ _ _ Hp Hr Hr1 Hrx H0 E0 W) as <-.
    eexists; split; [eapply RD_more; eauto|apply simD_refl].
  - destruct (X eq_refl) as (<- & ->). cbn [app] in W.
    pose proof (done_same2 _ _ _ _ _ _ _ _ _ _ _ _ _ Hp Hr Hr1 Hrx H0 E0 W) as <-.
    eexists; split; [eapply RD_stut; eauto|apply simD_refl].
  - destruct (X eq_refl) as (<- & ->). cbn [app] in W.
    pose proof (done_same2 _ _ _ _ _ _ _ _ _ _ _ _ _ Hp Hr Hr1 Hrx H0 E0 W) as <-.
    eexists; split; [eapply RD_stop; eauto|apply simD_refl].
Qed.

(* one run of feedUntil on the buffer a, seen from the whole stream a ++ T *)
Lemma fuD_merge : forall n p s a p1 s1 rest d e,
  ufeed_until n p s a = Ok (UR p1 s1 rest d e) ->
  pinv p -> a <> [] \/ cstep p = true -> forall T, T <> [] ->
  (e <> unilE -> exists p1' rest' d', RD p s (a ++ T) (p1', s1, rest', d', e)) /\
  (e = unilE -> d = true -> RD p s (a ++ T) (p1, s1, rest ++ T, true, unilE)) /\
  (e = unilE -> d = false -> forall r, RD p1 s1 T r -> exists r', RD p s (a ++ T) r' /\ simD r r').
Proof.
  induction n as [|n IH]; intros p s a p1 s1 rest d e H Hp Ha T HT; [discriminate|].
  cbn [ufeed_until] in H.
  destruct (uexec_step p s a) as [pa sa ra da ea|w] eqn:E; [|discriminate].
  pose proof Hp as (HI & Hi & HW).
  pose proof (exec_dich p s a T HI Ha HT) as D. rewrite E in D. cbn [Dich] in D.
  assert (HaT : PS.ready p (a ++ T)).
  { left. destruct a; [exact HT|discriminate]. }
  destruct (da || negb (unil ea)) eqn:E1.
  - inversion H; subst; clear H. split; [|split].
    + intros He. destruct D as [D|(_ & D & _)]; [|congruence].
      destruct (uexec_step p s (a ++ T)) as [p2 s2 rest2 d2 e2|w] eqn:Wh; cbn [ext] in D; [|contradiction].
      destruct D as (<- & <- & _). exists p2, rest2, d2. eapply RD_err; eauto.
    + intros -> ->.
      destruct (exec_done_ext _ _ _ T _ _ _ HI Ha HT E) as (d' & Wh).
      pose proof (done_same _ _ _ _ _ _ _ _ _ _ Hp Ha HaT E Wh) as <-.
      apply RD_done. exact Wh.
    + intros -> ->. rewrite unil_nil in E1. discriminate E1.
  - apply orb_false_iff in E1. destruct E1 as [-> En]. apply negb_false_iff, unil_true in En. subst ea.
    pose proof (pinv_step _ _ _ _ _ _ _ Hp Ha E) as Hp1.
    destruct ((zlen ra =? 0) && negb (can_step_without_input pa)) eqn:Ec.
    + inversion H; subst; clear H.
      apply andb_true_iff in Ec. destruct Ec as [Ec1 Ec2]. apply Z.eqb_eq, zlen_zero in Ec1. subst rest.
      apply negb_true_iff in Ec2.
      split; [congruence|]. split; [intros _ K; discriminate K|]. intros _ _ r HR.
      destruct D as [D|(_ & _ & _ & D)].
      * destruct (uexec_step p s (a ++ T)) as [p2 s2 rest2 d2 e2|w] eqn:Wh; cbn [ext] in D; [|contradiction].
        destruct D as (<- & <- & D). destruct (D eq_refl) as (<- & ->). cbn [app] in Wh.
        pose proof (done_same _ _ _ _ _ _ _ _ _ _ Hp Ha HaT E Wh) as <-.
        exists r. split; [eapply RD_more; eauto|apply simD_refl].
      * eapply (RD_ext_nil p s a p1 s1 T (a ++ T)); eauto; exact (D 2%nat).
    + assert (Ha1 : ra <> [] \/ cstep pa = true).
      { apply andb_false_iff in Ec. destruct Ec as [Ec|Ec].
        - left. intros ->. discriminate Ec.
        - right. apply negb_false_iff in Ec. exact Ec. }
      destruct (IH _ _ _ _ _ _ _ _ H Hp1 Ha1 T HT) as (IH1 & IH2 & IH3).
      destruct D as [D|(D1 & _ & D2 & _)]; [|destruct Ha1; congruence].
      destruct (uexec_step p s (a ++ T)) as [p2 s2 rest2 d2 e2|w] eqn:Wh; cbn [ext] in D; [|contradiction].
      destruct D as (<- & <- & D). destruct (D eq_refl) as (<- & ->).
      pose proof (done_same _ _ _ _ _ _ _ _ _ _ Hp Ha HaT E Wh) as <-.
      assert (Hrt : ra ++ T <> []) by (destruct ra; [exact HT|discriminate]).
      split; [|split].
      * intros He. destruct (IH1 He) as (p1' & rest' & d' & R1). exists p1', rest', d'. eapply RD_more; eauto.
      * intros He Hd. eapply RD_more; eauto.
      * intros He Hd r HR. destruct (IH3 He Hd r HR) as (r' & R' & S'). exists r'. split; [|exact S'].
        eapply RD_more; eauto.
Qed.

(* ---------- the specification of one Next ---------- *)
Definition nobs := (sink * Z * option (uparser * bytes))%type.
Definition nobs_fin (p : uparser) (s : sink) : nobs :=
  let '(p1, s1, e) := ufin p s in (s1, (if unil e then ueEOF else e), None).
Definition nobs_of (r : rdres) : nobs :=
  let '(p1, s1, rest, d, e) := r in
  if unil e then (if d then (s1, unilE, Some (p1, rest)) else nobs_fin p1 s1) else (s1, e, None).

Definition NextW (p : uparser) (s : sink) (T : bytes) (o : nobs) : Prop :=
  (T = [] /\ o = nobs_fin p s) \/ (T <> [] /\ exists r, RD p s T r /\ o = nobs_of r).

Lemma NextW_det : forall p s T o o', NextW p s T o -> NextW p s T o' -> o = o'.
Proof.
  intros p s T o o' [[A ->]|[A (r & R & ->)]] [[A' ->]|[A' (r' & R' & ->)]]; try congruence.
  rewrite (RD_det _ _ _ _ R _ R'). reflexivity.
Qed.

Lemma nobs_of_sim : forall r r', simD r r' -> nobs_of r = nobs_of r'.
Proof.
  intros [[[[p s] rest] d] e] [[[[p' s'] rest'] d'] e'] (<- & <- & H). cbn [nobs_of].
  destruct (unil e) eqn:E; [|reflexivity]. apply unil_true in E. destruct (H E) as (<- & <- & <-). reflexivity.
Qed.

Lemma nobs_fin_notnil : forall p s, snd (fst (nobs_fin p s)) <> unilE.
Proof.
  intros p s. unfold nobs_fin. destruct (ufin p s) as [[p1 s1] e]. cbn [fst snd].
  destruct (unil e) eqn:E; [discriminate|]. apply unil_false. exact E.
Qed.

(* what the decoder observes after Next *)
Definition dobs (d' : udecoder) (s' : sink) (e : Z) : nobs :=
  (s', e, if unil e then Some (ud_p d', urem d') else None).

Lemma pinv_fu : forall n p s b p1 s1 rest d,
  pinv p -> PS.ready p b -> ufeed_until n p s b = Ok (UR p1 s1 rest d unilE) -> pinv p1.
Proof.
  intros n p s b p1 s1 rest d (HI & Hi & HW) Hr H.
  destruct (fu_mon _ _ _ _ _ _ _ _ Hi HW Hr H) as (l & _ & A & B & _).
  split; [exact (proj1 (ufeed_until_post _ _ _ _ _ _ _ _ HI H))|]. auto.
Qed.

(* Next computes NextW of the parser and of everything that is still to come *)
Lemma udec_next_sound : forall fuel d s d' s' e,
  pinv (ud_p d) -> uscript_okb (ud_script d) = true ->
  udec_next fuel d s = Ok (d', s', e) ->
  NextW (ud_p d) s (urem d) (dobs d' s' e) /\
  (e = unilE -> pinv (ud_p d') /\ uscript_okb (ud_script d') = true).
Proof.
  induction fuel as [|f IH]; intros d s d' s' e Hp Hsc H; [discriminate|].
  rewrite udec_next_S in H. pose proof (udec_fill_spec d Hsc) as Hf.
  destruct (udec_fill d) as [d1|sc|d1 e1]; [| |contradiction].
  - destruct Hf as (Hpp & Hr & Ho & _). rewrite <- Hr, <- Hpp in *.
    destruct (zlen (ud_buf d1) =? 0) eqn:Eb; [eapply IH; eauto|].
    assert (Hb : ud_buf d1 <> []) by (intros E; rewrite E in Eb; discriminate Eb).
    unfold udec_body in H.
    destruct (ufeed_until _ _ _ _) as [[p1 s1 rest dn err|w]|a|a|] eqn:Hfu; try discriminate.
    pose proof (feed_until_RD _ _ _ _ _ _ _ _ _ Hfu) as HRD.
    destruct (unil err) eqn:Ee; cbn [negb] in H.
    + apply unil_true in Ee. subst err.
      pose proof (pinv_fu _ _ _ _ _ _ _ _ Hp (or_introl Hb) Hfu) as Hp1.
      destruct dn.
      * inversion H; subst d' s' e. split; [|intros _; cbn [ud_p ud_script]; auto].
        unfold dobs. rewrite unil_nil. cbn [ud_p]. unfold urem at 2. cbn [ud_buf].
        change (utailb {| ud_p := p1; ud_buf := rest; ud_script := ud_script d1; ud_bytesdec := ud_bytesdec d1 |})
          with (utailb d1).
        right. split; [unfold urem; apply app_nonnil; exact Hb|].
        destruct (utailb d1) as [|t T] eqn:ET.
        -- unfold urem. rewrite ET, !app_nil_r. eexists. split; [exact HRD|]. reflexivity.
        -- destruct (fuD_merge _ _ _ _ _ _ _ _ _ Hfu Hp (or_introl Hb) (t :: T) ltac:(discriminate)) as (_ & M & _).
           unfold urem. rewrite ET. eexists. split; [exact (M eq_refl eq_refl)|]. reflexivity.
      * destruct (ufeed_until_post _ _ _ _ _ _ _ _ (proj1 Hp) Hfu) as (_ & _ & Hnd).
        destruct (Hnd eq_refl) as [-> Hcs].
        match type of H with udec_next f ?d2 _ = _ =>
          destruct (IH d2 _ _ _ _ Hp1 Ho H) as [A B] end.
        split; [|exact B]. cbn [ud_p] in A.
        match type of A with NextW _ _ (urem ?d2) _ => change (urem d2) with (utailb d1) in A end.
        destruct (utailb d1) as [|t T] eqn:ET.
        -- destruct A as [[_ A]|[A _]]; [|congruence]. rewrite A.
           right. unfold urem. rewrite ET, app_nil_r. split; [exact Hb|].
           eexists. split; [exact HRD|]. reflexivity.
        -- destruct A as [[A _]|[_ (r & R & A)]]; [discriminate A|].
           destruct (fuD_merge _ _ _ _ _ _ _ _ _ Hfu Hp (or_introl Hb) (t :: T) ltac:(discriminate)) as (_ & _ & M).
           destruct (M eq_refl eq_refl r R) as (r' & R' & S').
           right. unfold urem. rewrite ET. split; [apply app_nonnil; exact Hb|].
           exists r'. split; [exact R'|]. rewrite A. apply nobs_of_sim. exact S'.
    + inversion H; subst d' s' e. split; [|intros ->; discriminate Ee].
      unfold dobs. rewrite Ee.
      right. split; [unfold urem; apply app_nonnil; exact Hb|].
      assert (He : err <> unilE) by (apply unil_false; exact Ee).
      destruct (utailb d1) as [|t T] eqn:ET.
      * unfold urem. rewrite ET, app_nil_r. eexists. split; [exact HRD|]. cbn [nobs_of]. rewrite Ee. reflexivity.
      * destruct (fuD_merge _ _ _ _ _ _ _ _ _ Hfu Hp (or_introl Hb) (t :: T) ltac:(discriminate)) as (M & _ & _).
        destruct (M He) as (p1' & rest' & d' & R1). unfold urem. rewrite ET.
        eexists. split; [exact R1|]. cbn [nobs_of]. rewrite Ee. reflexivity.
  - destruct Hf as [Hr Ho]. unfold udec_fin in H.
    destruct (ufin (ud_p d) s) as [[p1 s1] e0] eqn:Ef. inversion H; subst d' s' e.
    assert (Hne : unil (if unil e0 then ueEOF else e0) = false).
    { destruct (unil e0) eqn:E0; [reflexivity|exact E0]. }
    split; [|intros K; rewrite K in Hne; discriminate Hne].
    left. split; [exact Hr|]. unfold dobs, nobs_fin. rewrite Hne, Ef. reflexivity.
Qed.


(* ====================================================================== *)
(* Part 8: C18 - script independence, call by call                         *)
(* ====================================================================== *)
(* Two decoders with the same parser and the same bytes still to come - however these are
   split between the buffer and the reads of a well-behaved reader, with or without empty
   reads, wherever io.EOF is reported; a bytes decoder is the case "everything is in the
   buffer" - deliver the same events and the same verdict in their next Next, and after a
   nil verdict they are again such a pair. *)
Theorem C18_ubj_script_independent_next : forall f1 f2 d1 d2 s d1' s1' e1 d2' s2' e2,
  pinv (ud_p d1) -> uscript_okb (ud_script d1) = true -> uscript_okb (ud_script d2) = true ->
  ud_p d1 = ud_p d2 -> urem d1 = urem d2 ->
  udec_next f1 d1 s = Ok (d1', s1', e1) -> udec_next f2 d2 s = Ok (d2', s2', e2) ->
  s1' = s2' /\ e1 = e2 /\
  (e1 = unilE -> ud_p d1' = ud_p d2' /\ urem d1' = urem d2' /\ pinv (ud_p d1') /\
                 uscript_okb (ud_script d1') = true /\ uscript_okb (ud_script d2') = true).
Proof.
  intros f1 f2 d1 d2 s d1' s1' e1 d2' s2' e2 Hp Hs1 Hs2 Ep Er H1 H2.
  destruct (udec_next_sound _ _ _ _ _ _ Hp Hs1 H1) as [N1 P1].
  assert (Hp2 : pinv (ud_p d2)) by (rewrite <- Ep; exact Hp).
  destruct (udec_next_sound _ _ _ _ _ _ Hp2 Hs2 H2) as [N2 P2].
  rewrite <- Ep, <- Er in N2. pose proof (NextW_det _ _ _ _ _ N1 N2) as E.
  unfold dobs in E. inversion E as [[A B C]]. subst s2' e2.
  split; [reflexivity|]. split; [reflexivity|]. intros ->. rewrite unil_nil in C. inversion C as [[C1 C2]].
  destruct (P1 eq_refl) as [Q1 Q2]. destruct (P2 eq_refl) as [_ Q3]. auto.
Qed.

(* the observable behaviour of up to k calls of Next: the visitor's log and the verdict
   after each call, stopping at the first non-nil verdict *)
Fixpoint udec_run (fuel k : nat) (d : udecoder) (s : sink) : res (list (list event * Z)) :=
  match k with
  | O => Ok []
  | S k' =>
      match udec_next fuel d s with
      | Ok (d', s', e) =>
          if unil e then
            match udec_run fuel k' d' s' with
            | Ok l => Ok ((s_log s', e) :: l)
            | x => x
            end
          else Ok [(s_log s', e)]
      | Err e => Err e | Panic w => Panic w | OutOfFuel => OutOfFuel
      end
  end.

Theorem C18_ubj_script_independent : forall k f1 f2 d1 d2 s l1 l2,
  pinv (ud_p d1) -> uscript_okb (ud_script d1) = true -> uscript_okb (ud_script d2) = true ->
  ud_p d1 = ud_p d2 -> urem d1 = urem d2 ->
  udec_run f1 k d1 s = Ok l1 -> udec_run f2 k d2 s = Ok l2 -> l1 = l2.
Proof.
  induction k as [|k IH]; intros f1 f2 d1 d2 s l1 l2 Hp Hs1 Hs2 Ep Er H1 H2; cbn [udec_run] in H1, H2.
  - congruence.
  - destruct (udec_next f1 d1 s) as [[[d1' s1'] e1]| | |] eqn:E1; try discriminate.
    destruct (udec_next f2 d2 s) as [[[d2' s2'] e2]| | |] eqn:E2; try discriminate.
    destruct (C18_ubj_script_independent_next _ _ _ _ _ _ _ _ _ _ _ Hp Hs1 Hs2 Ep Er E1 E2) as (<- & <- & K).
    destruct (unil e1) eqn:Ee.
    + apply unil_true in Ee. subst e1. destruct (K eq_refl) as (Kp & Kr & Kpi & Ks1 & Ks2).
      destruct (udec_run f1 k d1' s1') as [l1'| | |] eqn:R1; try discriminate.
      destruct (udec_run f2 k d2' s1') as [l2'| | |] eqn:R2; try discriminate.
      rewrite (IH _ _ _ _ _ _ _ Kpi Ks1 Ks2 Kp Kr R1 R2) in H1. congruence.
    + congruence.
Qed.

(* with the guard of C03 the runs return *)
Lemma udec_run_total : forall k fuel d s, udec_good d -> (umeasure d < fuel)%nat ->
  exists l, udec_run fuel k d s = Ok l.
Proof.
  induction k as [|k IH]; intros fuel d s Hg Hm; cbn [udec_run]; [eauto|].
  destruct (C18_ubj_next_total fuel d s Hg Hm) as (d' & s' & e & H & Hnil). rewrite H.
  destruct (unil e) eqn:Ee; [|eauto].
  apply unil_true in Ee. destruct (Hnil Ee) as (Hg' & _ & _ & _ & Hm').
  destruct (IH fuel d' s' Hg') as (l & Hl); [lia|]. rewrite Hl. eauto.
Qed.

(* C18: two well-behaved scripts with the same data give the same events and the same verdict
   for EACH of the first k calls of Next (and the runs return, under the guard of C03) *)
Theorem C18_ubj_scripts_same_data_next : forall k sc1 sc2 s fuel,
  uscript_okb sc1 = true -> uscript_okb sc2 = true ->
  concat (map fst sc1) = concat (map fst sc2) ->
  PS.no_zero_typed (concat (map fst sc1)) = true ->
  (2 * length sc1 + 1 <= fuel)%nat -> (2 * length sc2 + 1 <= fuel)%nat ->
  exists l, udec_run fuel k (ureader_dec sc1) s = Ok l /\ udec_run fuel k (ureader_dec sc2) s = Ok l.
Proof.
  intros k sc1 sc2 s fuel H1 H2 Hc Hz Hf1 Hf2.
  destruct (udec_run_total k fuel (ureader_dec sc1) s) as (l1 & R1).
  { apply udec_good_reader; assumption. }
  { unfold umeasure, ureader_dec. cbn [ud_script ud_buf]. lia. }
  destruct (udec_run_total k fuel (ureader_dec sc2) s) as (l2 & R2).
  { apply udec_good_reader; [assumption|]. rewrite <- Hc. exact Hz. }
  { unfold umeasure, ureader_dec. cbn [ud_script ud_buf]. lia. }
  exists l1. split; [exact R1|]. rewrite R2. f_equal. symmetry.
  apply (C18_ubj_script_independent k fuel fuel (ureader_dec sc1) (ureader_dec sc2) s l1 l2 pinv0 H1 H2 eq_refl);
    [|exact R1|exact R2].
  unfold urem, utailb, ureader_dec. cbn [ud_buf ud_script ud_bytesdec app]. exact Hc.
Qed.

(* a reader decoder behaves, call by call, like the bytes decoder on everything the reader delivers *)
Corollary C18_ubj_reader_as_bytes_next : forall k f1 f2 sc s l1 l2,
  uscript_okb sc = true ->
  udec_run f1 k (ureader_dec sc) s = Ok l1 ->
  udec_run f2 k (ubytes_dec (concat (map fst sc))) s = Ok l2 -> l1 = l2.
Proof.
  intros k f1 f2 sc s l1 l2 Hsc H1 H2.
  apply (C18_ubj_script_independent k f1 f2 (ureader_dec sc) (ubytes_dec (concat (map fst sc))) s l1 l2
           pinv0 Hsc eq_refl eq_refl); [|exact H1|exact H2].
  unfold urem, utailb, ureader_dec, ubytes_dec. cbn [ud_buf ud_script ud_bytesdec app]. rewrite app_nil_r. reflexivity.
Qed.


(* ====================================================================== *)
(* Part 9: C18 - a stream of k documents                                   *)
(* ====================================================================== *)
(* what k successful calls followed by io.EOF look like: after each call the log has
   grown by exactly the events of the next tree *)
Fixpoint uexpect (log : list event) (ts : list tree) : list (list event * Z) :=
  match ts with
  | [] => [(log, ueEOF)]
  | t :: r => (log ++ flatten t, unilE) :: uexpect (log ++ flatten t) r
  end.

(* a document: accepted by the reference decoder, within the resource guard of C06 *)
Definition doc_ok (b : bytes) : Prop :=
  all_bytes b = true /\ CP.no_huge_zero_typed b = true /\ exists v, ubj_decode b = RValue v [].
Definition doc_tree (b : bytes) (t : tree) : Prop :=
  wf_tree t = true /\ ubj_decode b = RValue (cv (value_of t)) [].

(* the decoder between two documents, one read per document *)
Definition ddoc (vt : btype) (sc : list (bytes * Z)) : udecoder :=
  {| ud_p := svt uparser0 vt; ud_buf := []; ud_script := sc; ud_bytesdec := false |}.
Definition doc_script (docs : list bytes) : list (bytes * Z) := map (fun b => (b, 0)) docs.

Lemma doc_script_ok : forall docs, uscript_okb (doc_script docs) = true.
Proof.
  induction docs as [|b r IH]; [reflexivity|]. unfold doc_script in *. cbn [map uscript_okb].
  destruct (map (fun b0 : bytes => (b0, 0)) r) eqn:E; [reflexivity|]. exact IH.
Qed.
Lemma doc_script_data : forall docs, concat (map fst (doc_script docs)) = concat docs.
Proof.
  induction docs as [|b r IH]; [reflexivity|]. unfold doc_script in *. cbn [map fst concat]. rewrite IH. reflexivity.
Qed.

(* one document in the buffer, any parser that is fresh-like *)
Lemma doc_feed : forall b v vt s, all_bytes b = true -> CP.no_huge_zero_typed b = true ->
  ubj_decode b = RValue v [] -> s_fail s = None ->
  exists t vt', wf_tree t = true /\ cv (value_of t) = v /\
    ufeed_until (ufeed_fuel (svt uparser0 vt) b) (svt uparser0 vt) s b =
      Ok (UR (svt uparser0 vt') (s_add s (flatten t)) [] true unilE).
Proof.
  intros b v vt s Hb Hz H Hs. unfold ubj_decode in H. unfold CP.no_huge_zero_typed in Hz.
  destruct (CP.top_value _ b v [] H Hb s Hs) as (t & n & vt0 & Hwf & Hcv & Hbud & _ & Hreach).
  change (zlen (@nil Z)) with 0 in Hbud. rewrite CP.ztc_nil in Hbud.
  assert (Hne : b <> []) by (intros ->; discriminate H).
  set (F := ufeed_fuel uparser0 b).
  assert (HF : (n + 1 <= F)%nat).
  { unfold F, ufeed_fuel. change (length (up_stack uparser0)) with 0%nat.
    assert (HK : Z.of_nat 8000 = 8000) by (vm_compute; reflexivity).
    unfold zlen in *. lia. }
  assert (E0 : ufeed_until F uparser0 s b = Ok (UR (svt uparser0 vt0) (s_add s (flatten t)) [] true unilE)).
  { replace F with (S (n + (F - S n)))%nat by lia.
    rewrite CP.ufeed_until_S, Hreach. cbn [CP.ufu_cont orb]. reflexivity. }
  assert (Hrel : rel uparser0 (svt uparser0 vt)) by (apply rel0; apply veq_svt_l).
  pose proof (fu_rel F uparser0 (svt uparser0 vt) s b Hrel safeY0 (or_introl Hne)) as R.
  rewrite E0 in R. change (ufeed_fuel (svt uparser0 vt) b) with F.
  destruct (ufeed_until F (svt uparser0 vt) s b) as [[q1 s1 rest1 d1 e1|w]|a|a|]; cbn [resU_rel ures_rel] in R;
    try contradiction.
  destruct R as (-> & -> & -> & -> & Hv & _).
  exists t, (up_vtype q1). split; [exact Hwf|]. split; [exact Hcv|].
  apply veq_svt in Hv. rewrite Hv. reflexivity.
Qed.

Lemma doc_next : forall b v vt rest s f, all_bytes b = true -> CP.no_huge_zero_typed b = true ->
  ubj_decode b = RValue v [] -> s_fail s = None ->
  exists t vt', wf_tree t = true /\ cv (value_of t) = v /\
    udec_next (S (S f)) (ddoc vt ((b, 0) :: rest)) s = Ok (ddoc vt' rest, s_add s (flatten t), unilE).
Proof.
  intros b v vt rest s f Hb Hz H Hs.
  destruct (doc_feed b v vt s Hb Hz H Hs) as (t & vt' & Hwf & Hcv & E).
  exists t, vt'. split; [exact Hwf|]. split; [exact Hcv|].
  assert (Hne : b <> []) by (intros ->; discriminate H).
  rewrite udec_next_S. unfold udec_fill, ddoc. cbn [ud_buf ud_bytesdec ud_script ud_p].
  change (zlen (@nil Z) =? 0) with true. cbv iota. change (negb (0 =? 0)) with false. rewrite andb_false_r.
  cbn [ud_buf]. rewrite (zlen_eqb_nil b Hne).
  unfold udec_body. cbn [ud_p ud_buf ud_script ud_bytesdec]. rewrite E. reflexivity.
Qed.

Lemma s_log_s_add : forall s l, s_log (s_add s l) = s_log s ++ l.
Proof. intros. exact (CP.sadd_log s l). Qed.

(* the reference run: one read per document *)
Lemma docs_run : forall docs s vt fuel, Forall doc_ok docs -> s_fail s = None -> (2 <= fuel)%nat ->
  exists ts, Forall2 doc_tree docs ts /\
    udec_run fuel (S (length docs)) (ddoc vt (doc_script docs)) s = Ok (uexpect (s_log s) ts).
Proof.
  induction docs as [|b r IH]; intros s vt fuel Hd Hs Hf.
  - exists []. split; [constructor|].
    destruct fuel as [|f]; [lia|]. cbn [length udec_run]. rewrite udec_next_S.
    unfold udec_fill, ddoc, doc_script. cbn [map ud_buf ud_bytesdec ud_script].
    change (zlen (@nil Z) =? 0) with true. cbv iota. unfold udec_fin. cbn [ud_p ud_bytesdec].
    rewrite ufin_svt. change (ufin uparser0 s) with (uparser0, s, unilE). cbv beta iota.
    rewrite unil_nil. change (unil ueEOF) with false. cbv iota. reflexivity.
  - inversion Hd as [|b0 r0 (Hb & Hz & v & Hv) Hr]; subst.
    destruct fuel as [|[|f]]; try lia.
    destruct (doc_next b v vt (doc_script r) s f Hb Hz Hv Hs) as (t & vt' & Hwf & Hcv & E).
    destruct (IH (s_add s (flatten t)) vt' (S (S f)) Hr Hs Hf) as (ts & HF & Hrun).
    exists (t :: ts). split; [constructor; [|exact HF]; split; [exact Hwf|rewrite Hcv; exact Hv]|].
    cbn [length]. change (udec_run (S (S f)) (S (S (length r))) (ddoc vt (doc_script (b :: r))) s)
      with (match udec_next (S (S f)) (ddoc vt ((b, 0) :: doc_script r)) s with
            | Ok (d', s', e) =>
                if unil e then
                  match udec_run (S (S f)) (S (length r)) d' s' with
                  | Ok l => Ok ((s_log s', e) :: l)
                  | x => x
                  end
                else Ok [(s_log s', e)]
            | Err e => Err e | Panic w => Panic w | OutOfFuel => OutOfFuel
            end).
    rewrite E, unil_nil, Hrun, s_log_s_add. reflexivity.
Qed.

(* C18, whole stream (the analogue of C18_cbor_reader_stream): if the bytes delivered by a
   well-behaved reader - in reads of any sizes, with or without empty reads - are the
   concatenation of k documents, each accepted by the reference decoder, then k calls of Next
   succeed, each delivering exactly the events of the next document's tree (which is well-formed
   and has the value the reference decoder computes), and the (k+1)-th call reports io.EOF. *)
Theorem C18_ubj_reader_stream_partial : forall docs sc fuel s l,
  Forall doc_ok docs -> uscript_okb sc = true -> concat (map fst sc) = concat docs ->
  s_fail s = None ->
  udec_run fuel (S (length docs)) (ureader_dec sc) s = Ok l ->
  exists ts, Forall2 doc_tree docs ts /\ l = uexpect (s_log s) ts.
Proof.
  intros docs sc fuel s l Hd Hsc Hc Hs Hrun.
  destruct (docs_run docs s BAny 2 Hd Hs (le_n 2)) as (ts & HF & R0).
  exists ts. split; [exact HF|].
  apply (C18_ubj_script_independent (S (length docs)) fuel 2 (ureader_dec sc) (ddoc BAny (doc_script docs)) s
           l (uexpect (s_log s) ts) pinv0 Hsc (doc_script_ok docs) eq_refl); [|exact Hrun|exact R0].
  unfold urem, utailb, ureader_dec, ddoc. cbn [ud_buf ud_script ud_bytesdec app].
  rewrite doc_script_data. exact Hc.
Qed.

(* ... and these k+1 calls do return, under the guard of C03 *)
Theorem C18_ubj_reader_stream : forall docs sc fuel s,
  Forall doc_ok docs -> uscript_okb sc = true -> concat (map fst sc) = concat docs ->
  PS.no_zero_typed (concat docs) = true -> s_fail s = None ->
  (2 * length sc + 1 <= fuel)%nat ->
  exists ts, Forall2 doc_tree docs ts /\
    udec_run fuel (S (length docs)) (ureader_dec sc) s = Ok (uexpect (s_log s) ts).
Proof.
  intros docs sc fuel s Hd Hsc Hc Hz Hs Hf.
  destruct (udec_run_total (S (length docs)) fuel (ureader_dec sc) s) as (l & Hl).
  { apply udec_good_reader; [exact Hsc|]. rewrite Hc. exact Hz. }
  { unfold umeasure, ureader_dec. cbn [ud_script ud_buf]. lia. }
  destruct (C18_ubj_reader_stream_partial docs sc fuel s l Hd Hsc Hc Hs Hl) as (ts & HF & ->).
  exists ts. split; [exact HF|exact Hl].
Qed.

(* C18, one Next, with totality: under the guard of C03 a Next between two values returns; if
   it returns nil it has delivered the events of exactly one value (one tree: at least one
   event, balanced, nothing of the next value), has consumed at least one byte, and the
   decoder is between two values again. *)
Corollary C18_ubj_next_one_value : forall fuel d s,
  dtop d -> udec_good d -> (umeasure d < fuel)%nat ->
  exists d' s' e, udec_next fuel d s = Ok (d', s', e) /\
    (e = unilE -> exists t, s' = s_add s (flatten t) /\ flatten t <> [] /\ dtop d' /\ udec_good d' /\
                            (length (urem d') < length (urem d))%nat).
Proof.
  intros fuel d s Ht Hg Hm.
  destruct (C18_ubj_next_total fuel d s Hg Hm) as (d' & s' & e & H & Hnil).
  exists d', s', e. split; [exact H|]. intros ->.
  destruct (C18_ubj_next_tree fuel d s d' s' Ht H) as (t & E & Ht').
  destruct (Hnil eq_refl) as (Hg' & _ & _ & Hlt & _).
  exists t. split; [exact E|]. split; [apply flatten_nonempty|]. split; [exact Ht'|]. split; [exact Hg'|].
  apply Hlt. destruct Ht as (_ & Hc & _). rewrite Hc. reflexivity.
Qed.


(* ====================================================================== *)
(* Part 10: the balance of the valueState stack (no guard needed)          *)
(* ====================================================================== *)
(* vw: the states of a typed container after stepType has pushed its element state.
   vshape: each of them owns one entry of (valueState, valueState stack); below them
   lies the initial (stFail, empty stack). *)
Definition vw (c : ustate) : bool :=
  PS.st_in c [(8,14);(8,15);(8,13);(8,16);(12,14);(12,15);(12,13);(12,17);(12,18);(12,16)].

Fixpoint vshape (S : list ustate) (vc : ustate) (vs : list ustate) : bool :=
  match S with
  | [] => (u_t vc =? 0) && match vs with [] => true | _ :: _ => false end
  | c :: r =>
      if vw c then
        negb (u_t vc =? 0) &&
        match vs with [] => vshape r (mku tFail sStart) [] | v :: vs' => vshape r v vs' end
      else vshape r vc vs
  end.

Definition VB (p : uparser) : Prop := vshape (up_cur p :: up_stack p) (up_vcur p) (up_vstack p) = true.

Lemma vshape_cons : forall c r vc vs, vshape (c :: r) vc vs =
  if vw c then
    negb (u_t vc =? 0) &&
    match vs with [] => vshape r (mku tFail sStart) [] | v :: vs' => vshape r v vs' end
  else vshape r vc vs.
Proof. reflexivity. Qed.

Lemma vshape_c0 : forall c r vc vs, vw c = false -> vshape (c :: r) vc vs = vshape r vc vs.
Proof. intros c r vc vs H. rewrite vshape_cons, H. reflexivity. Qed.

Lemma vshape_fail : forall S vc vs, vshape S vc vs = true -> (u_t vc =? 0) = true ->
  vs = [] /\ vshape S (mku tFail sStart) [] = true.
Proof.
  induction S as [|c r IH]; intros vc vs H Hz.
  - cbn [vshape] in H. rewrite Hz in H. destruct vs; [auto|discriminate H].
  - rewrite vshape_cons in *. destruct (vw c).
    + rewrite Hz in H. discriminate H.
    + apply (IH vc vs); assumption.
Qed.

Lemma vstate_factsV : forall c, PS.st_in c PS.vstates = true -> vw c = false.
Proof.
  intros [t s] H. apply PS.st_in_In in H. cbn in H.
  repeat (destruct H as [H|H]; [injection H as <- <-; reflexivity|]). contradiction.
Qed.

Definition postV (r : ures) : Prop :=
  match r with
  | UCrash _ => True
  | UR p1 _ _ _ err => unil err = true -> VB p1
  end.
Lemma postV_nodone : forall r, postV r -> postV (value_nodone r).
Proof. intros [p1 s rest d err|w] H; exact H. Qed.
Lemma postV_latch : forall r, postV r -> postV (PS.latch r).
Proof.
  intros [p1 s rest d err|w] H; cbn [PS.latch]; [|exact H].
  destruct (unil err) eqn:E; [exact H|]. cbn [postV]. intro H1. congruence.
Qed.

Arguments vw : simpl never.
Arguments vshape : simpl never.
Arguments VB : simpl never.

Opaque ustep_len ucollect ustep_value uvis wraps be_dec marker_state marker_btype.

Ltac vw_eval_in H :=
  repeat match type of H with
  | context[vw {| u_t := ?a; u_s := ?b |}] =>
      let v := eval vm_compute in (vw {| u_t := a; u_s := b |}) in
      change (vw {| u_t := a; u_s := b |}) with v in H
  end.
Ltac vsh_goal :=
  repeat first
    [ match goal with
      | |- context[vshape ({| u_t := ?a; u_s := ?b |} :: ?r) ?vc ?vs] =>
          rewrite (vshape_cons {| u_t := a; u_s := b |} r vc vs);
          let v := eval vm_compute in (vw {| u_t := a; u_s := b |}) in
          change (vw {| u_t := a; u_s := b |}) with v; cbv iota
      end
    | match goal with
      | Hv : PS.st_in ?c PS.vstates = true |- context[vshape (?c :: ?r) ?vc ?vs] =>
          rewrite (vshape_c0 c r vc vs (vstate_factsV c Hv))
      end ].

Lemma ubody0_V : forall rec p s b, PS.inv1b p = true -> VB p -> PS.ready p b ->
  (u_t (up_cur p) = tArrayTyped ->
   forall p' s', PS.inv1b p' = true -> VB p' -> u_t (up_cur p') <> tArrayTyped -> PS.ready p' b ->
     postV (rec p' s' b)) ->
  postV (PS.ubody0 rec p s b).
Proof.
  intros rec p s b Hi HV Hr Hrec.
  destruct (PS.inv1b_split _ Hi) as (H1 & H2 & H3 & H4 & H5).
  destruct p as [[t st] stk vc vs lc ls buf mk vt er].
  unfold VB in HV.
  cbn [up_cur up_stack up_vcur up_vstack up_lcur up_lstack] in H1, H2, H3, H4, H5, HV.
  destruct (PS.vstate_cur _ H4) as (V1 & V2 & V3).
  apply PS.st_in_In in H1. cbn in H1.
  repeat (destruct H1 as [H1|H1]; [injection H1 as <- <-|]); try contradiction.
  all: cbn in H3.
  all: rewrite vshape_cons in HV; vw_eval_in HV; cbv iota in HV.
  all: try (apply andb_true_iff in HV; destruct HV as [Hnf HV]; apply negb_true_iff in Hnf).
  all: destruct b as [|x r]; [ destruct Hr as [Hr|Hr]; [congruence|]; try (discriminate Hr); cbn in Hr |].
  all: unfold PS.ubody0.
  all: cbn -[Z.sub].
  all: PS.crunch1.
  all: try contradiction.
  all: try (intro Hu'; try congruence; try (rewrite Hu' in *; discriminate)).
  all: PS.norm.
  all: try exact I.
  all: try solve [
    unfold VB, u_pop, ul_pop, v_pop;
    repeat (progress (cbn [up_cur up_stack up_vcur up_vstack up_lstack up_lcur uset_cur uset_lcur] in *; list_cases));
    vsh_goal; rewrite ?Hnf; cbn [negb andb]; first [ exact HV | (rewrite HV; reflexivity) ] ].
  all: try solve [
    match goal with
    | Hm : marker_state _ = Some ?u |- VB _ =>
        let Hu := fresh "Hu" in
        assert (Hu : (u_t u =? 0) = false)
          by (destruct (marker_state_mid _ _ Hm) as [_ K]; apply Z.eqb_neq; exact K);
        unfold VB; cbn [up_cur up_stack up_vcur up_vstack]; vsh_goal; rewrite Hu; cbn [negb andb];
        first [ exact HV
              | match goal with Hz : (u_t _ =? tFail) = true |- _ =>
                  let K := fresh "K" in destruct (vshape_fail _ _ _ HV Hz) as [-> K]; exact K end ]
    end ].
  all: apply postV_nodone; apply Hrec;
    [ reflexivity
    | apply PS.inv1b_join; cbn [up_cur up_stack up_vcur up_vstack up_lcur forallb]; rewrite ?V2, ?H2; auto
    | unfold VB; cbn [up_cur up_stack up_vcur up_vstack]; vsh_goal; rewrite ?Hnf; cbn [negb andb]; exact HV
    | exact V3
    | first [ left; discriminate
            | right; apply PS.zero_sized_can_step; cbn [up_cur];
              repeat match goal with H : (_ =? 0) = false |- _ => rewrite H in Hr end; exact Hr ] ].
Qed.

Transparent ustep_len ucollect ustep_value uvis wraps be_dec marker_state marker_btype.

Lemma ubody_V : forall rec p s b, PS.inv1b p = true -> VB p -> PS.ready p b ->
  (u_t (up_cur p) = tArrayTyped ->
   forall p' s', PS.inv1b p' = true -> VB p' -> u_t (up_cur p') <> tArrayTyped -> PS.ready p' b ->
     postV (rec p' s' b)) ->
  postV (PS.ubody rec p s b).
Proof. intros. unfold PS.ubody. apply postV_latch. apply ubody0_V; assumption. Qed.

Lemma uexec_step_V : forall p s b, PS.inv1b p = true -> VB p -> PS.ready p b -> postV (uexec_step p s b).
Proof.
  intros p s b Hi HV Hr. unfold uexec_step. rewrite PS.uexec_S. apply ubody_V; try assumption.
  intros _ p' s' Hi' HV' Ht' Hr'. rewrite PS.uexec_S. apply ubody_V; try assumption.
  intro X; contradiction.
Qed.


(* ---------- the balance through the loops ---------- *)
Lemma fu_VB : forall n p s b p1 s1 rest d,
  PS.inv1b p = true -> VB p -> PS.ready p b -> ufeed_until n p s b = Ok (UR p1 s1 rest d unilE) ->
  PS.inv1b p1 = true /\ VB p1.
Proof.
  induction n as [|n IH]; intros p s b p1 s1 rest d Hi HV Hr H; [discriminate|].
  cbn [ufeed_until] in H.
  pose proof (uexec_step_V p s b Hi HV Hr) as V. pose proof (PS.uexec_step_safe1 p s b Hi Hr) as P.
  destruct (uexec_step p s b) as [pa sa ra da ea|w] eqn:E; [|discriminate].
  cbn [postV PS.post1] in V, P.
  destruct (da || negb (unil ea)) eqn:E1.
  - inversion H; subst. split; [exact (P eq_refl)|exact (V eq_refl)].
  - apply orb_false_iff in E1. destruct E1 as [-> En]. apply negb_false_iff in En.
    destruct ((zlen ra =? 0) && negb (can_step_without_input pa)) eqn:Ec.
    + inversion H; subst. split; [exact (P eq_refl)|exact (V eq_refl)].
    + eapply IH; [exact (P En)|exact (V En)| |exact H].
      apply andb_false_iff in Ec. destruct Ec as [Ec|Ec].
      * left. intros ->. discriminate Ec.
      * right. apply negb_false_iff in Ec. exact Ec.
Qed.

Lemma feed_VB : forall n p s b p1 s1,
  PS.inv1b p = true -> VB p -> ufeed n p s b = Ok (p1, s1, unilE) -> PS.inv1b p1 = true /\ VB p1.
Proof.
  induction n as [|n IH]; intros p s b p1 s1 Hi HV H; [discriminate|].
  cbn [ufeed] in H. destruct (zlen b >? 0) eqn:Eb; [|inversion H; subst; auto].
  destruct (ufeed_until (ufeed_fuel p b) p s b) as [[pa sa ra da ea|w]|a|a|] eqn:E; try discriminate.
  destruct (unil ea) eqn:Ee; [|inversion H; subst; discriminate Ee].
  apply unil_true in Ee. subst ea.
  assert (Hr : PS.ready p b) by (left; intros ->; discriminate Eb).
  destruct (fu_VB _ _ _ _ _ _ _ _ Hi HV Hr E) as [A B].
  eapply IH; eauto.
Qed.

Lemma write_VB : forall p s b p1 s1,
  PS.inv1b p = true -> VB p -> up_write p s b = Ok (p1, s1, unilE) -> PS.inv1b p1 = true /\ VB p1.
Proof.
  intros p s b p1 s1 Hi HV H. unfold up_write in H.
  destruct (ufeed (2 * length b + 2) p s b) as [[[q sq] e]|a|a|] eqn:E; try discriminate.
  destruct (unil e) eqn:Ee; [|inversion H; subst; discriminate Ee].
  apply unil_true in Ee. subst e. inversion H; subst.
  destruct (feed_VB _ _ _ _ _ _ Hi HV E) as [A B].
  split; [rewrite PS.inv1b_set_err; exact A|exact B].
Qed.

Lemma VB_top : forall p, PS.inv1b p = true -> up_cur p = mku tNext sStart -> up_stack p = [] -> VB p ->
  up_vcur p = mku tFail sStart /\ up_vstack p = [].
Proof.
  intros p Hi Hc Hs H. unfold VB in H. rewrite Hc, Hs in H. rewrite vshape_cons in H.
  change (vw (mku tNext sStart)) with false in H. cbv iota in H. unfold vshape in H.
  apply andb_true_iff in H. destruct H as [H1 H2].
  destruct (up_vstack p) as [|x l]; [|discriminate H2]. split; [|reflexivity].
  destruct (PS.inv1b_split _ Hi) as (_ & _ & _ & H4 & _). apply Z.eqb_eq in H1.
  destruct (up_vcur p) as [t st]. cbn [u_t] in H1. subst t. apply PS.st_in_In in H4. cbn in H4.
  repeat (destruct H4 as [H4|H4]; [injection H4; intros; subst; first [reflexivity|congruence]|]). contradiction.
Qed.

Lemma idle_fresh' : forall p, top p -> PS.inv1b p = true -> LB p -> VB p -> fresh_like p.
Proof.
  intros p (Hc & Hs & Hb & Hm & He) Hi HL HV.
  destruct (VB_top p Hi Hc Hs HV) as [Hv Hvs].
  destruct (LB_top p Hc Hs HL) as [Hl Hls].
  unfold fresh_like, veq, uparser0. cbn [up_cur up_stack up_vcur up_vstack up_lcur up_lstack up_buf up_marker up_err].
  repeat split; congruence.
Qed.

(* the state between two Write calls of an accepted run, without a guard on the input *)
Definition between' (p : uparser) : Prop :=
  Inv p /\ PS.inv1b p = true /\ LB p /\ VB p /\ cstep p = false.

Lemma between0' : between' uparser0.
Proof. split; [exact Inv0|]. repeat split. Qed.

Lemma between_fin' : forall p s p' s', between' p -> ufin p s = (p', s', unilE) -> fresh_like p'.
Proof.
  intros p s p' s' (HI & Hi & HL & HV & Hc) H.
  destruct (ufin_top _ _ _ _ HI H) as [Ht _].
  unfold ufin in H. destruct (ufinalize_nostep _ _ _ _ _ Hc H) as [-> ->].
  apply idle_fresh'; assumption.
Qed.

Lemma between_write' : forall p s c p1 s1, between' p ->
  up_write p s c = Ok (p1, s1, unilE) -> between' p1.
Proof.
  intros p s c p1 s1 (HI & Hi & HL & HV & Hc) H.
  destruct (write_VB _ _ _ _ _ Hi HV H) as [A B].
  pose proof (write_rel p p s c (rel_refl p) (conj Hi HL)) as W. rewrite H in W. cbn [fres_rel] in W.
  destruct W as (_ & _ & _ & W). destruct (W eq_refl) as [_ [_ HL1]].
  split; [eapply up_write_inv; eauto|]. split; [exact A|]. split; [exact HL1|]. split; [exact B|].
  destruct (up_write_Ok _ _ _ _ _ _ H) as (q & F & Eq). rewrite unil_nil in Eq. subst p1.
  change (cstep (uset_err q 0)) with (cstep q).
  destruct F as [[-> F]|[Hn F]].
  - inversion F; subst. exact Hc.
  - exact (R_end_nostep _ _ _ _ F HI eq_refl).
Qed.

Lemma between_writes' : forall chunks p s p' s', between' p ->
  up_writes p s chunks = Ok (p', s', unilE) -> fresh_like p'.
Proof.
  induction chunks as [|c r IH]; intros p s p' s' Hb H; cbn [up_writes] in *.
  - inversion H as [H0]. eapply between_fin'; eauto.
  - destruct (up_write p s c) as [[[p1 s1] e]|a|a|] eqn:Ew; try discriminate H.
    destruct (unil e) eqn:Ee.
    + apply unil_true in Ee. subst e. eapply IH; [|exact H]. eapply between_write'; eauto.
    + inversion H; subst. discriminate Ee.
Qed.

Lemma between_parse' : forall p s b p' s', between' p ->
  up_parse p s b = Ok (p', s', unilE) -> fresh_like p'.
Proof.
  intros p s b p' s' Hb H.
  apply (between_writes' [b] p s p' s' Hb).
  cbn [up_writes]. unfold up_parse in H. unfold up_write.
  destruct (ufeed (2 * length b + 2) p s b) as [[[p1 s1] e]|a|a|] eqn:Ef; try discriminate H.
  destruct (unil e) eqn:Ee; [|inversion H; subst; discriminate Ee].
  apply unil_true in Ee. subst e. rewrite unil_nil.
  destruct Hb as (HI & _). apply feed_sound in Ef. pose proof (Feed_inv _ _ _ _ _ Ef HI) as HI1.
  rewrite set_err_same by apply HI1. exact H.
Qed.

(* C17, session form, final version: no premise on the input at all.  For every fresh-like
   parser p, every operation and every visitor behaviour (a) the run from p and the run from a
   new parser deliver the same events and return the same verdict (or fail in the same way);
   (b) if the operation is accepted - whatever the input was - the parser is fresh-like again:
   state stack, valueState stack and length stack are empty, nothing is buffered, no marker or
   error is pending.  (The guard no_zero_typed of C17_ubj_session_step is not needed: the
   balance of the valueState stack holds for containers of zero-sized elements, too.) *)
Theorem C17_ubj_session_step_noguard : forall p s op, fresh_like p ->
  out_rel (uop_run uparser0 s op) (uop_run p s op) /\
  (forall p' s', uop_run p s op = Ok (p', s', unilE) -> fresh_like p').
Proof.
  intros p s op Hf.
  destruct (C17_ubj_session_step p s op Hf) as [A _].
  split; [exact A|].
  intros p' s' H. rewrite H in A. destruct (out_rel_nil _ _ _ A) as (p0 & E0 & Hv).
  apply (veq_trans _ p0); [|exact Hv].
  destruct op as [b|cs]; cbn [uop_run] in *.
  - eapply between_parse'; [exact between0'|exact E0].
  - eapply between_writes'; [exact between0'|exact E0].
Qed.

Theorem C17_ubj_session_noguard : forall ops p s, fresh_like p ->
  out_rel (usession_new s ops) (usession p s ops).
Proof.
  induction ops as [|op r IH]; intros p s Hf; cbn [usession usession_new].
  - cbn [out_rel]. auto.
  - destruct (C17_ubj_session_step_noguard p s op Hf) as [A B].
    destruct (uop_run uparser0 s op) as [[[p0 s0] e0]|a|a|];
      destruct (uop_run p s op) as [[[p1 s1] e1]|a'|a'|]; cbn [out_rel] in A; try contradiction; try exact A.
    destruct A as (-> & -> & Hv).
    destruct (unil e0) eqn:Ee; [|cbn [out_rel]; auto].
    apply unil_true in Ee. subst e0. apply IH. apply (B p1 s0 eq_refl).
Qed.

(* after ANY accepted input the parser is as new, except for the dead field up_vtype *)
Corollary C17_ubj_run_parse_fresh_noguard : forall vfail b evs p,
  urun_parse vfail b = Ok (evs, unilE, p) -> fresh_like p.
Proof.
  intros vfail b evs p H. unfold urun_parse in H.
  destruct (up_parse uparser0 (sink0 vfail) b) as [[[p' s'] e']|a|a|] eqn:E; try discriminate H.
  inversion H; subst.
  exact (proj2 (C17_ubj_session_step_noguard uparser0 (sink0 vfail) (OpParse b) fresh_like0) _ _ E).
Qed.

Corollary C17_ubj_run_chunks_fresh_noguard : forall vfail chunks evs p,
  urun_chunks vfail chunks = Ok (evs, unilE, p) -> fresh_like p.
Proof.
  intros vfail cs evs p H. unfold urun_chunks in H.
  destruct (up_writes uparser0 (sink0 vfail) cs) as [[[p' s'] e']|a|a|] eqn:E; try discriminate H.
  inversion H; subst.
  exact (proj2 (C17_ubj_session_step_noguard uparser0 (sink0 vfail) (OpWrites cs) fresh_like0) _ _ E).
Qed.

Print Assumptions C17_ubj_parse_vtype_dead.
Print Assumptions C17_ubj_writes_vtype_dead.
Print Assumptions C17_ubj_session_step.
Print Assumptions C17_ubj_parse_reuse.
Print Assumptions C17_ubj_writes_reuse.
Print Assumptions C17_ubj_run_parse_fresh.
Print Assumptions C17_ubj_run_chunks_fresh.
Print Assumptions C17_ubj_session.
Print Assumptions mrun_tree.
Print Assumptions step_mon.
Print Assumptions C18_ubj_next_tree.
Print Assumptions exec_done_ext.
Print Assumptions udec_next_sound.
Print Assumptions C18_ubj_script_independent_next.
Print Assumptions C18_ubj_script_independent.
Print Assumptions C18_ubj_scripts_same_data_next.
Print Assumptions C18_ubj_reader_as_bytes_next.
Print Assumptions C18_ubj_reader_stream_partial.
Print Assumptions C18_ubj_reader_stream.
Print Assumptions C18_ubj_next_one_value.
Print Assumptions C17_ubj_session_step_noguard.
Print Assumptions C17_ubj_session_noguard.
Print Assumptions C17_ubj_run_parse_fresh_noguard.
Print Assumptions C17_ubj_run_chunks_fresh_noguard.
