(* C17 (behavioural form) and C18 (one value per Next) for the UBJSON parser model. *)
From Coq Require Import Setoid List NArith ZArith Bool Lia.
From Coq Require Import ZifyBool ZifyNat ZifyN.
From SF Require Import Base.Prelude Core.Events Core.EventsProofs Ubjson.Spec Ubjson.Parse Ubjson.ChunkProofs
  Ubjson.ParseVisitorProofs.
Import ListNotations.
Open Scope Z_scope.
Ltac Zify.zify_post_hook ::= Z.div_mod_to_equations.

(* ====================================================================== *)
(* Part 1: up_vtype is dead outside the header of a typed array            *)
(* ====================================================================== *)
Notation svt := CP.uset_vtype.

Definition veq (p q : uparser) : Prop :=
  up_cur p = up_cur q /\ up_stack p = up_stack q /\ up_vcur p = up_vcur q /\ up_vstack p = up_vstack q /\
  up_lcur p = up_lcur q /\ up_lstack p = up_lstack q /\ up_buf p = up_buf q /\ up_marker p = up_marker q /\
  up_err p = up_err q.

Lemma veq_svt : forall p q, veq p q <-> q = svt p (up_vtype q).
Proof.
  intros p q. split.
  - intros (A & B & C & D & E & F & G & H & I). destruct q. unfold CP.uset_vtype. cbn in *. congruence.
  - intros ->. repeat split.
Qed.

Lemma veq_refl : forall p, veq p p.
Proof. intros p. repeat split. Qed.
Lemma veq_sym : forall p q, veq p q -> veq q p.
Proof. intros p q (A & B & C & D & E & F & G & H & I). repeat split; congruence. Qed.
Lemma veq_trans : forall p q r, veq p q -> veq q r -> veq p r.
Proof.
  intros p q r (A & B & C & D & E & F & G & H & I) (A' & B' & C' & D' & E' & F' & G' & H' & I').
  repeat split; congruence.
Qed.
Lemma veq_svt_l : forall p vt, veq p (svt p vt).
Proof. intros. repeat split. Qed.

(* ---------- setters commute with svt ---------- *)
Section SvtAlgebra.
Variables (p : uparser) (vt : btype).
Lemma sv_cur : up_cur (svt p vt) = up_cur p. Proof. reflexivity. Qed.
Lemma sv_stack : up_stack (svt p vt) = up_stack p. Proof. reflexivity. Qed.
Lemma sv_vcur : up_vcur (svt p vt) = up_vcur p. Proof. reflexivity. Qed.
Lemma sv_vstack : up_vstack (svt p vt) = up_vstack p. Proof. reflexivity. Qed.
Lemma sv_lcur : up_lcur (svt p vt) = up_lcur p. Proof. reflexivity. Qed.
Lemma sv_lstack : up_lstack (svt p vt) = up_lstack p. Proof. reflexivity. Qed.
Lemma sv_buf : up_buf (svt p vt) = up_buf p. Proof. reflexivity. Qed.
Lemma sv_marker : up_marker (svt p vt) = up_marker p. Proof. reflexivity. Qed.
Lemma sv_err : up_err (svt p vt) = up_err p. Proof. reflexivity. Qed.
Lemma sv_vtype : up_vtype (svt p vt) = vt. Proof. reflexivity. Qed.
Lemma sv_set_cur : forall c, uset_cur (svt p vt) c = svt (uset_cur p c) vt. Proof. reflexivity. Qed.
Lemma sv_set_buf : forall b, uset_buf (svt p vt) b = svt (uset_buf p b) vt. Proof. reflexivity. Qed.
Lemma sv_set_lcur : forall l, uset_lcur (svt p vt) l = svt (uset_lcur p l) vt. Proof. reflexivity. Qed.
Lemma sv_set_marker : forall m, uset_marker (svt p vt) m = svt (uset_marker p m) vt. Proof. reflexivity. Qed.
Lemma sv_set_err : forall e, uset_err (svt p vt) e = svt (uset_err p e) vt. Proof. reflexivity. Qed.
Lemma sv_set_step : forall s, uset_step (svt p vt) s = svt (uset_step p s) vt. Proof. reflexivity. Qed.
Lemma sv_set_type : forall t, uset_type (svt p vt) t = svt (uset_type p t) vt. Proof. reflexivity. Qed.
Lemma sv_push : forall st, u_push (svt p vt) st = svt (u_push p st) vt. Proof. reflexivity. Qed.
Lemma sv_lpush : forall l, ul_push (svt p vt) l = svt (ul_push p l) vt. Proof. reflexivity. Qed.
Lemma sv_pop : u_pop (svt p vt) = svt (u_pop p) vt.
Proof. unfold u_pop. cbn [CP.uset_vtype up_stack]. destruct (up_stack p); reflexivity. Qed.
Lemma sv_lpop : ul_pop (svt p vt) = svt (ul_pop p) vt.
Proof. unfold ul_pop. cbn [CP.uset_vtype up_lstack]. destruct (up_lstack p); reflexivity. Qed.
Lemma sv_vpop : v_pop (svt p vt) = svt (v_pop p) vt.
Proof. unfold v_pop. cbn [CP.uset_vtype up_vstack]. destruct (up_vstack p); reflexivity. Qed.
Lemma sv_vpush : forall st bt, v_push (svt p vt) st bt = v_push p st bt. Proof. reflexivity. Qed.
Lemma sv_svt : forall vt', svt (svt p vt) vt' = svt p vt'. Proof. reflexivity. Qed.
Lemma sv_cstep : can_step_without_input (svt p vt) = can_step_without_input p. Proof. reflexivity. Qed.
End SvtAlgebra.

Global Hint Rewrite sv_cur sv_stack sv_vcur sv_vstack sv_lcur sv_lstack sv_buf sv_marker sv_err sv_vtype
  sv_set_cur sv_set_buf sv_set_lcur sv_set_marker sv_set_err sv_set_step sv_set_type
  sv_push sv_lpush sv_pop sv_lpop sv_vpop sv_vpush : svtdb.

Definition mapC (vt : btype) (r : ucres) : ucres :=
  match r with UC p rest tmp => UC (svt p vt) rest tmp | UCC => UCC end.
Definition mapL (vt : btype) (r : ulres) : ulres :=
  match r with UL p rest e => UL (svt p vt) rest e | ULC w => ULC w end.
Definition mapR (vt : btype) (r : ures) : ures :=
  match r with UR p s rest d e => UR (svt p vt) s rest d e | UCrash w => UCrash w end.
Definition mapO (vt : btype) (r : ocres) : ocres :=
  match r with OC f p s rest e => OC f (svt p vt) s rest e | OCC w => OCC w end.

(* the scrutinee that blocks the reduction of a term at its head *)
Ltac scrut t :=
  match t with
  | if ?c then _ else _ => c
  | match ?x with [] => _ | _ :: _ => _ end => scrut_in x
  | match ?x with Some _ => _ | None => _ end => scrut_in x
  | match ?x with UC _ _ _ => _ | UCC => _ end => scrut_in x
  | match ?x with UL _ _ _ => _ | ULC _ => _ end => scrut_in x
  | match ?x with UR _ _ _ _ _ => _ | UCrash _ => _ end => scrut_in x
  | match ?x with OC _ _ _ _ _ => _ | OCC _ => _ end => scrut_in x
  | match ?x with (_, _) => _ end => scrut_in x
  | mapC _ ?x => scrut_in x
  | mapL _ ?x => scrut_in x
  | mapR _ ?x => scrut_in x
  | mapO _ ?x => scrut_in x
  | value_nodone ?x => scrut_in x
  | of_ul ?x _ => scrut_in x
  end
with scrut_in x :=
  match x with
  | _ => scrut x
  | context[if ?c then _ else _] => c
  | _ => x
  end.

Ltac sv_auto :=
  repeat first
    [ progress autorewrite with svtdb
    | progress cbn [mapC mapL mapR mapO of_ul value_nodone]
    | progress cbv beta iota zeta
    | match goal with |- ?L = _ => let c := scrut L in destruct c end ];
  try reflexivity.

Lemma ucollect_svt : forall p vt b k, ucollect (svt p vt) b k = mapC vt (ucollect p b k).
Proof. intros. unfold ucollect. sv_auto. Qed.
Global Hint Rewrite ucollect_svt : svtdb.

Lemma ustep_len_svt : forall p vt b cont, ustep_len (svt p vt) b cont = mapL vt (ustep_len p b cont).
Proof. intros. unfold ustep_len. sv_auto. Qed.
Global Hint Rewrite ustep_len_svt : svtdb.

Lemma ustep_value_svt : forall p vt s b, ustep_value (svt p vt) s b = mapR vt (ustep_value p s b).
Proof. intros. unfold ustep_value. sv_auto. Qed.
Global Hint Rewrite ustep_value_svt : svtdb.

Lemma ustep_fixed_svt : forall p vt s b, ustep_fixed (svt p vt) s b = mapR vt (ustep_fixed p s b).
Proof. intros. unfold ustep_fixed, upop_state. sv_auto. Qed.

Lemma ustep_string_svt : forall p vt s b, ustep_string (svt p vt) s b = mapR vt (ustep_string p s b).
Proof. intros. unfold ustep_string, upop_len_state, upop_state. sv_auto. Qed.

Lemma obj_content_svt : forall p vt s b typed,
  ustep_obj_content (svt p vt) s b typed = mapO vt (ustep_obj_content p s b typed).
Proof. intros. unfold ustep_obj_content. sv_auto. Qed.

(* stepType writes up_vtype: after a successful stepType the two runs coincide *)
Definition mapLe (vt : btype) (r : ulres) : ulres :=
  match r with UL p rest e => UL (if unil e then p else svt p vt) rest e | ULC w => ULC w end.
Definition mapRe (vt : btype) (r : ures) : ures :=
  match r with UR p s rest d e => UR (if unil e then p else svt p vt) s rest d e | UCrash w => UCrash w end.

Lemma ustep_type_svt : forall p vt b cont, ustep_type (svt p vt) b cont = mapLe vt (ustep_type p b cont).
Proof.
  intros. unfold ustep_type. destruct b as [|m r]; [reflexivity|].
  destruct (marker_state m); [|reflexivity]. destruct (m =? mN); reflexivity.
Qed.

Lemma ustep_header_svt : forall p vt b,
  ustep_header (svt p vt) b =
  (if u_s (up_cur p) =? sStart then mapLe vt else mapL vt) (ustep_header p b).
Proof.
  intros. unfold ustep_header. autorewrite with svtdb.
  destruct (u_s (up_cur p) =? sStart); [apply ustep_type_svt|].
  sv_auto.
Qed.

Lemma of_ul_mapL : forall vt r s, of_ul (mapL vt r) s = mapR vt (of_ul r s).
Proof. intros vt [p rest e|w] s; reflexivity. Qed.
Lemma of_ul_mapLe : forall vt r s, of_ul (mapLe vt r) s = mapRe vt (of_ul r s).
Proof. intros vt [p rest e|w] s; reflexivity. Qed.

Lemma xlatch_mapR : forall vt r, xlatch (mapR vt r) = mapR vt (xlatch r).
Proof. intros vt [p s rest d e|w]; [|reflexivity]. cbn [mapR xlatch]. destruct (unil e); reflexivity. Qed.
Lemma xlatch_mapRe : forall vt r, xlatch (mapRe vt r) = mapRe vt (xlatch r).
Proof. intros vt [p s rest d e|w]; [|reflexivity]. cbn [mapRe xlatch]. destruct (unil e) eqn:E; cbn [mapRe]; rewrite E; reflexivity. Qed.

Lemma arr_start_svt : forall p vt s b, arr_start (svt p vt) s b = mapR vt (arr_start p s b).
Proof. intros. unfold arr_start. sv_auto. Qed.
Lemma obj_start_svt : forall p vt s b, obj_start (svt p vt) s b = mapR vt (obj_start p s b).
Proof. intros. unfold obj_start. sv_auto. Qed.
Lemma arr_dyn_svt : forall p vt s b, arr_dyn (svt p vt) s b = mapR vt (arr_dyn p s b).
Proof. intros. unfold arr_dyn, upop_state. sv_auto. Qed.
Lemma arr_counted_svt : forall p vt s b, arr_counted (svt p vt) s b = mapR vt (arr_counted p s b).
Proof. intros. unfold arr_counted, upop_len_state, upop_state. sv_auto. Qed.
Lemma obj_dyn_emptykey_svt : forall p vt s b, obj_dyn_emptykey (svt p vt) s b = mapR vt (obj_dyn_emptykey p s b).
Proof. intros. unfold obj_dyn_emptykey. sv_auto. Qed.
Lemma obj_dyn_svt : forall p vt s b, obj_dyn (svt p vt) s b = mapR vt (obj_dyn p s b).
Proof. intros. unfold obj_dyn, upop_state. sv_auto. Qed.
Lemma obj_counted_svt : forall p vt s b, obj_counted (svt p vt) s b = mapR vt (obj_counted p s b).
Proof.
  intros. unfold obj_counted. autorewrite with svtdb.
  destruct (u_s (up_cur p) =? sStart); [apply of_ul_mapL|].
  rewrite obj_content_svt. destruct (ustep_obj_content p s b false) as [fin p1 s1 rest err|w]; [|reflexivity].
  cbn [mapO]. unfold upop_len_state, upop_state. sv_auto.
Qed.

Definition hdr_step (c : ustate) : bool :=
  (u_s c =? sStart) || (u_s c =? sWithType0) || (u_s c =? sWithType1).

Lemma obj_typed_svt : forall p vt s b,
  obj_typed (svt p vt) s b =
  (if u_s (up_cur p) =? sStart then mapRe vt else mapR vt) (obj_typed p s b).
Proof.
  intros. unfold obj_typed. autorewrite with svtdb.
  destruct ((u_s (up_cur p) =? sStart) || (u_s (up_cur p) =? sWithType0) || (u_s (up_cur p) =? sWithType1)) eqn:Eh.
  - rewrite ustep_header_svt. destruct (u_s (up_cur p) =? sStart); [apply of_ul_mapLe|apply of_ul_mapL].
  - destruct (u_s (up_cur p) =? sStart) eqn:E0; [discriminate Eh|].
    rewrite obj_content_svt. destruct (ustep_obj_content p s b true) as [fin p1 s1 rest err|w]; [|reflexivity].
    cbn [mapO]. unfold upop_len_state, upop_state. sv_auto.
Qed.

(* the typed array: the only reader of up_vtype is the step in state stWithLen *)
Lemma arr_typed_svt : forall rec p vt s b,
  (forall q s' b', up_cur q = up_vcur p -> up_vcur q = up_vcur p -> rec (svt q vt) s' b' = mapR vt (rec q s' b')) ->
  (u_s (up_cur p) =? sWithLen) = false ->
  arr_typed rec (svt p vt) s b =
  (if u_s (up_cur p) =? sStart then mapRe vt else mapR vt) (arr_typed rec p s b).
Proof.
  intros rec p vt s b Hrec Hw. unfold arr_typed. autorewrite with svtdb. rewrite Hw.
  destruct ((u_s (up_cur p) =? sStart) || (u_s (up_cur p) =? sWithType0) || (u_s (up_cur p) =? sWithType1)) eqn:Eh.
  - rewrite ustep_header_svt. destruct (u_s (up_cur p) =? sStart); [apply of_ul_mapLe|apply of_ul_mapL].
  - destruct (u_s (up_cur p) =? sStart) eqn:E0; [discriminate Eh|].
    cbv beta iota zeta. change (unil unilE) with true. cbn [negb]. cbv iota.
    destruct (up_lcur p =? 0).
    + unfold upop_len_state, upop_state. sv_auto.
    + autorewrite with svtdb. rewrite Hrec by reflexivity.
      destruct (rec _ s b); reflexivity.
Qed.

(* states that write / read up_vtype *)
Definition wr (c : ustate) : bool := ((u_t c =? tArrayTyped) || (u_t c =? tObjectTyped)) && (u_s c =? sStart).
Definition rd1 (c : ustate) : bool := (u_t c =? tArrayTyped) && (u_s c =? sWithLen).
Definition vplain (c : ustate) : bool := negb ((u_t c =? tArrayTyped) || (u_t c =? tObjectTyped)).

Ltac tnum := cbn [Z.eqb Pos.eqb orb andb negb tFail tNext tFixed tHighPrec tString tArray tArrayDyn tArrayCount
                  tArrayTyped tObject tObjectDyn tObjectCount tObjectTyped].

Lemma xbody0_svt : forall rec p vt s b,
  (forall q s' b', up_cur q = up_vcur p -> up_vcur q = up_vcur p -> rec (svt q vt) s' b' = mapR vt (rec q s' b')) ->
  rd1 (up_cur p) = false ->
  xbody0 rec (svt p vt) s b = (if wr (up_cur p) then mapRe vt else mapR vt) (xbody0 rec p s b).
Proof.
  intros rec p vt s b Hrec Hrd. unfold xbody0, wr, rd1 in *. rewrite ?sv_cur, ?sv_lcur, ?sv_err.
  destruct (u_t (up_cur p) =? tArrayTyped) eqn:E8.
  { apply Z.eqb_eq in E8. rewrite E8. tnum. apply arr_typed_svt; [exact Hrec|exact Hrd]. }
  destruct (u_t (up_cur p) =? tObjectTyped) eqn:E12.
  { apply Z.eqb_eq in E12. rewrite E12. tnum. apply obj_typed_svt. }
  cbn [orb andb].
  destruct (u_t (up_cur p) =? tFail); [reflexivity|].
  destruct (u_t (up_cur p) =? tNext); [apply ustep_value_svt|].
  destruct (u_t (up_cur p) =? tFixed); [apply ustep_fixed_svt|].
  destruct ((u_t (up_cur p) =? tHighPrec) || (u_t (up_cur p) =? tString)); [apply ustep_string_svt|].
  destruct (u_t (up_cur p) =? tArray); [apply arr_start_svt|].
  destruct (u_t (up_cur p) =? tArrayDyn); [apply arr_dyn_svt|].
  destruct (u_t (up_cur p) =? tArrayCount); [apply arr_counted_svt|].
  destruct (u_t (up_cur p) =? tObject); [apply obj_start_svt|].
  destruct ((u_t (up_cur p) =? tObjectDyn) && (u_s (up_cur p) =? sFieldNameLen) && (up_lcur p =? 0));
    [apply obj_dyn_emptykey_svt|].
  destruct (u_t (up_cur p) =? tObjectDyn); [apply obj_dyn_svt|].
  destruct (u_t (up_cur p) =? tObjectCount); [apply obj_counted_svt|].
  reflexivity.
Qed.

Lemma vplain_not : forall c, vplain c = true -> wr c = false /\ rd1 c = false.
Proof.
  intros c H. unfold vplain, wr, rd1 in *. apply negb_true_iff, orb_false_iff in H. destruct H as [H1 H2].
  rewrite H1, H2. split; reflexivity.
Qed.

(* One parser step does not depend on up_vtype, except in state (stArrayTyped, stWithLen);
   in the states (st*Typed, stStart) it overwrites the field. *)
Lemma uexec_svt : forall f p vt s b, rd1 (up_cur p) = false -> vplain (up_vcur p) = true ->
  uexec f (svt p vt) s b = (if wr (up_cur p) then mapRe vt else mapR vt) (uexec f p s b).
Proof.
  induction f as [|f IH]; intros p vt s b Hrd Hv.
  - cbn [uexec]. destruct (wr _); reflexivity.
  - rewrite !uexec_S. rewrite xbody0_svt; [| |exact Hrd].
    + destruct (wr _); [apply xlatch_mapRe|apply xlatch_mapR].
    + intros q s' b' Hc Hvc. destruct (vplain_not _ Hv) as [W R0].
      rewrite IH; [rewrite Hc, W; reflexivity|rewrite Hc; exact R0|rewrite Hvc; exact Hv].
Qed.

(* ====================================================================== *)
(* Part 2: one pass over execStep - where the state (stArrayTyped,         *)
(* stWithLen) can come from, and the balance of the length stack           *)
(* ====================================================================== *)
(* rd3: the states between the write of up_vtype (stepType) and its read;
   wr3: their possible predecessors.
   lshape: every state on the state stack owns lw entries of the length stack
   (current length first), and below them lies the initial length 0. *)
Definition rd3 (c : ustate) : bool := PS.st_in c [(8,14);(8,15);(8,13)].
Definition wr3 (c : ustate) : bool := PS.st_in c [(8,0);(8,14);(8,15)].

Definition lw (c : ustate) : nat :=
  if PS.st_in c [(11,18);(12,18)] then 2%nat
  else if PS.st_in c [(3,13);(4,13);(7,13);(7,16);(8,13);(8,16);(10,18);(11,13);(11,17);(11,16);(12,13);(12,17);(12,16)]
  then 1%nat else 0%nat.

Fixpoint lshape (S : list ustate) (L : list Z) : bool :=
  match S with
  | [] => match L with [x] => x =? 0 | _ => false end
  | c :: r =>
      match lw c with
      | O => lshape r L
      | S O => match L with _ :: L' => lshape r L' | [] => false end
      | _ => match L with _ :: _ :: L' => lshape r L' | _ => false end
      end
  end.

Definition LB (p : uparser) : Prop := lshape (up_cur p :: up_stack p) (up_lcur p :: up_lstack p) = true.

Lemma lshape_cons : forall c r L, lshape (c :: r) L =
  match lw c with
  | O => lshape r L
  | S O => match L with _ :: L' => lshape r L' | [] => false end
  | _ => match L with _ :: _ :: L' => lshape r L' | _ => false end
  end.
Proof. reflexivity. Qed.

Lemma lshape_nil : forall S, lshape S [] = false.
Proof. induction S as [|c r IH]; [reflexivity|]. rewrite lshape_cons. destruct (lw c) as [|[|n]]; auto. Qed.

Lemma lshape_c0 : forall c r L, lw c = 0%nat -> lshape (c :: r) L = lshape r L.
Proof. intros c r L H. rewrite lshape_cons, H. reflexivity. Qed.

Lemma in_states : forall c l, PS.st_in c l = true -> In (u_t c, u_s c) l.
Proof. exact PS.st_in_In. Qed.

Lemma vstate_facts : forall c, PS.st_in c PS.vstates = true -> lw c = 0%nat /\ rd3 c = false /\ wr3 c = false.
Proof.
  intros [t s] H. apply PS.st_in_In in H. cbn in H.
  repeat (destruct H as [H|H]; [injection H as <- <-; repeat split; reflexivity|]). contradiction.
Qed.
Lemma stackstate_facts : forall c, PS.st_in c PS.stack_states = true -> rd3 c = false.
Proof.
  intros [t s] H. apply PS.st_in_In in H. cbn in H.
  repeat (destruct H as [H|H]; [injection H as <- <-; reflexivity|]). contradiction.
Qed.

Definition postY (p : uparser) (r : ures) : Prop :=
  match r with
  | UCrash _ => True
  | UR p1 _ _ _ err => unil err = true -> (rd3 (up_cur p1) = true -> wr3 (up_cur p) = true) /\ LB p1
  end.

Lemma postY_nodone : forall p r, postY p r -> postY p (value_nodone r).
Proof. intros p [p1 s rest d err|w] H; exact H. Qed.
Lemma postY_latch : forall p r, postY p r -> postY p (PS.latch r).
Proof.
  intros p [p1 s rest d err|w] H; cbn [PS.latch]; [|exact H].
  destruct (unil err) eqn:E; [exact H|]. cbn [postY]. intro H1. congruence.
Qed.
Lemma postY_mono : forall p p' r, wr3 (up_cur p') = false -> postY p' r -> postY p r.
Proof.
  intros p p' [p1 s rest d err|w] Hw H; [|exact H]. cbn [postY] in *. intro Hu.
  destruct (H Hu) as [A B]. split; [|exact B]. intro K. specialize (A K). congruence.
Qed.

Arguments rd3 : simpl never.
Arguments wr3 : simpl never.
Arguments lw : simpl never.
Arguments lshape : simpl never.
Arguments LB : simpl never.

Opaque ustep_len ucollect ustep_value uvis wraps be_dec marker_state marker_btype.

Ltac lw_eval_in H :=
  repeat match type of H with
  | context[lw {| u_t := ?a; u_s := ?b |}] =>
      let v := eval vm_compute in (lw {| u_t := a; u_s := b |}) in
      change (lw {| u_t := a; u_s := b |}) with v in H
  end.
Ltac lw_eval :=
  repeat match goal with
  | |- context[lw {| u_t := ?a; u_s := ?b |}] =>
      let v := eval vm_compute in (lw {| u_t := a; u_s := b |}) in
      change (lw {| u_t := a; u_s := b |}) with v
  end.

Ltac lsh_goal :=
  repeat first
    [ match goal with
      | |- context[lshape ({| u_t := ?a; u_s := ?b |} :: ?r) ?L] =>
          rewrite (lshape_cons {| u_t := a; u_s := b |} r L); lw_eval; cbv iota
      end
    | match goal with
      | Hv : PS.st_in ?c PS.vstates = true |- context[lshape (?c :: ?r) ?L] =>
          rewrite (lshape_c0 c r L (proj1 (vstate_facts c Hv)))
      end ].

Ltac list_cases :=
  repeat match goal with
  | |- context[match ?l with [] => _ | _ :: _ => _ end] => is_var l; destruct l
  end.

Ltac rd_side :=
  let K := fresh "K" in
  intro K;
  first
    [ reflexivity
    | exfalso; vm_compute in K; discriminate K
    | exfalso; match type of K with rd3 ?c = true =>
        first [ match goal with Hv : PS.st_in c PS.vstates = true |- _ =>
                  rewrite (proj1 (proj2 (vstate_facts c Hv))) in K; discriminate K end
              | match goal with Hv : PS.st_in c PS.stack_states = true |- _ =>
                  rewrite (stackstate_facts c Hv) in K; discriminate K end ] end ].

Lemma ubody0_Y : forall rec p s b, PS.inv1b p = true -> LB p -> PS.ready p b ->
  (u_t (up_cur p) = tArrayTyped ->
   forall p' s', PS.inv1b p' = true -> LB p' -> u_t (up_cur p') <> tArrayTyped -> PS.ready p' b ->
     wr3 (up_cur p') = false -> postY p' (rec p' s' b)) ->
  postY p (PS.ubody0 rec p s b).
Proof.
  intros rec p s b Hi HL Hr Hrec.
  destruct (PS.inv1b_split _ Hi) as (H1 & H2 & H3 & H4 & H5).
  destruct p as [[t st] stk vc vs lc ls buf mk vt er].
  unfold LB in HL.
  cbn [up_cur up_stack up_vcur up_vstack up_lcur up_lstack] in H1, H2, H3, H4, H5, HL.
  destruct (PS.vstate_cur _ H4) as (V1 & V2 & V3).
  apply PS.st_in_In in H1. cbn in H1.
  repeat (destruct H1 as [H1|H1]; [injection H1 as <- <-|]); try contradiction.
  all: cbn in H3.
  all: rewrite lshape_cons in HL; lw_eval_in HL; cbv iota in HL.
  all: try (destruct ls as [|l1 ls]; [discriminate HL|]).
  all: destruct b as [|x r]; [ destruct Hr as [Hr|Hr]; [congruence|]; try (discriminate Hr); cbn in Hr |].
  all: unfold PS.ubody0.
  all: cbn -[Z.sub].
  all: PS.crunch1.
  all: try contradiction.
  all: try (intro Hu'; try congruence; try (rewrite Hu' in *; discriminate)).
  all: PS.norm.
  all: try solve [
    split;
    [ unfold u_pop, ul_pop, v_pop;
      repeat (progress (cbn [up_cur up_stack up_vstack up_lstack up_lcur uset_cur uset_lcur forallb] in *; list_cases));
      repeat match goal with H : _ && _ = true |- _ => apply andb_true_iff in H; destruct H end;
      rd_side
    | unfold LB, u_pop, ul_pop, v_pop;
      repeat (progress (cbn [up_cur up_stack up_vstack up_lstack up_lcur uset_cur uset_lcur] in *; list_cases));
      try (rewrite lshape_nil in HL; discriminate HL);
      lsh_goal; try exact HL ] ].
  all: try exact I.
  all: apply postY_nodone;
    (eapply postY_mono; [|apply Hrec]);
    [ exact (proj2 (proj2 (vstate_facts vc H4)))
    | reflexivity
    | apply PS.inv1b_join; cbn [up_cur up_stack up_vcur up_vstack up_lcur forallb]; rewrite ?V2, ?H2; auto
    | unfold LB; cbn [up_cur up_stack up_lcur up_lstack]; lsh_goal; exact HL
    | exact V3
    | first [ left; discriminate
            | right; apply PS.zero_sized_can_step; cbn [up_cur];
              repeat match goal with H : (_ =? 0) = false |- _ => rewrite H in Hr end; exact Hr ]
    | exact (proj2 (proj2 (vstate_facts vc H4))) ].
Qed.

Transparent ustep_len ucollect ustep_value uvis wraps be_dec marker_state marker_btype.

Lemma ubody_Y : forall rec p s b, PS.inv1b p = true -> LB p -> PS.ready p b ->
  (u_t (up_cur p) = tArrayTyped ->
   forall p' s', PS.inv1b p' = true -> LB p' -> u_t (up_cur p') <> tArrayTyped -> PS.ready p' b ->
     wr3 (up_cur p') = false -> postY p' (rec p' s' b)) ->
  postY p (PS.ubody rec p s b).
Proof. intros. unfold PS.ubody. apply postY_latch. apply ubody0_Y; assumption. Qed.

Lemma uexec_step_Y : forall p s b, PS.inv1b p = true -> LB p -> PS.ready p b -> postY p (uexec_step p s b).
Proof.
  intros p s b Hi HL Hr. unfold uexec_step. rewrite PS.uexec_S. apply ubody_Y; try assumption.
  intros _ p' s' Hi' HL' Ht' Hr' _. rewrite PS.uexec_S. apply ubody_Y; try assumption.
  intro X; contradiction.
Qed.

(* ====================================================================== *)
(* Part 3: two runs that differ in up_vtype only                          *)
(* ====================================================================== *)
Definition rel (p q : uparser) : Prop := veq p q /\ (rd3 (up_cur p) = true -> q = p).
Definition safeY (p : uparser) : Prop := PS.inv1b p = true /\ LB p.

Lemma rel_refl : forall p, rel p p.
Proof. intros p. split; [apply veq_refl|reflexivity]. Qed.

Lemma wr3_cases : forall c, wr3 c = true -> wr c = true \/ rd3 c = true.
Proof.
  intros [t s] H. apply PS.st_in_In in H. cbn in H.
  destruct H as [H|[H|[H|[]]]]; injection H as <- <-; [left|right|right]; reflexivity.
Qed.
Lemma rd1_rd3 : forall c, rd3 c = false -> rd1 c = false.
Proof.
  intros [t s] H. unfold rd1. cbn [u_t u_s]. destruct (t =? tArrayTyped) eqn:E1; [|reflexivity].
  destruct (s =? sWithLen) eqn:E2; [|reflexivity]. apply Z.eqb_eq in E1. apply Z.eqb_eq in E2. subst.
  discriminate H.
Qed.
Lemma vstate_vplain : forall c, PS.st_in c PS.vstates = true -> vplain c = true.
Proof.
  intros [t s] H. apply PS.st_in_In in H. cbn in H.
  repeat (destruct H as [H|H]; [injection H as <- <-; reflexivity|]). contradiction.
Qed.

Definition ures_rel (r r' : ures) : Prop :=
  match r, r' with
  | UR p1 s1 rest d e, UR q1 s1' rest' d' e' =>
      s1' = s1 /\ rest' = rest /\ d' = d /\ e' = e /\ veq p1 q1 /\ (e = unilE -> rel p1 q1 /\ safeY p1)
  | UCrash w, UCrash w' => w' = w
  | _, _ => False
  end.

(* the step-level lemma: related parsers stay related and do the same *)
Lemma step_rel : forall p q s b, rel p q -> safeY p -> PS.ready p b ->
  ures_rel (uexec_step p s b) (uexec_step q s b).
Proof.
  intros p q s b [Hv Hq] [Hi HL] Hr.
  pose proof (PS.uexec_step_safe1 p s b Hi Hr) as P1.
  pose proof (uexec_step_Y p s b Hi HL Hr) as PY.
  apply veq_svt in Hv. set (vt := up_vtype q) in *.
  destruct (rd3 (up_cur p)) eqn:Erd.
  { rewrite (Hq eq_refl). destruct (uexec_step p s b) as [p1 s1 rest d e|w]; cbn [ures_rel]; [|reflexivity].
    cbn [PS.post1 postY] in P1, PY.
    split; [reflexivity|]. split; [reflexivity|]. split; [reflexivity|]. split; [reflexivity|].
    split; [apply veq_refl|]. intros He. apply unil_true in He.
    split; [apply rel_refl|]. split; [exact (P1 He)|exact (proj2 (PY He))]. }
  rewrite Hv. unfold uexec_step.
  destruct (PS.inv1b_split _ Hi) as (_ & _ & _ & H4 & _).
  rewrite uexec_svt; [|apply rd1_rd3; exact Erd|apply vstate_vplain; exact H4].
  fold (uexec_step p s b).
  destruct (uexec_step p s b) as [p1 s1 rest d e|w]; [|destruct (wr _); reflexivity].
  cbn [PS.post1 postY] in P1, PY.
  destruct (wr (up_cur p)) eqn:Ew; cbn [mapRe mapR ures_rel].
  - split; [reflexivity|]. split; [reflexivity|]. split; [reflexivity|]. split; [reflexivity|].
    split; [destruct (unil e); [apply veq_refl|apply veq_svt_l]|].
    intros He. subst e. change (unil unilE) with true. cbv iota.
    split; [apply rel_refl|]. split; [exact (P1 eq_refl)|exact (proj2 (PY eq_refl))].
  - split; [reflexivity|]. split; [reflexivity|]. split; [reflexivity|]. split; [reflexivity|].
    split; [apply veq_svt_l|].
    intros He. apply unil_true in He. destruct (PY He) as [A B].
    split; [|split; [exact (P1 He)|exact B]].
    split; [apply veq_svt_l|]. intros K. exfalso.
    destruct (wr3_cases _ (A K)); congruence.
Qed.

Lemma cstep_veq : forall p q, veq p q -> can_step_without_input q = can_step_without_input p.
Proof. intros p q H. apply veq_svt in H. rewrite H. reflexivity. Qed.
Lemma fuel_veq : forall p q b, veq p q -> ufeed_fuel q b = ufeed_fuel p b.
Proof. intros p q b H. apply veq_svt in H. rewrite H. reflexivity. Qed.

Definition resU_rel (r r' : res ures) : Prop :=
  match r, r' with
  | Ok x, Ok y => ures_rel x y
  | Err a, Err b => b = a
  | Panic a, Panic b => b = a
  | OutOfFuel, OutOfFuel => True
  | _, _ => False
  end.

Lemma fu_rel : forall fuel p q s b, rel p q -> safeY p -> PS.ready p b ->
  resU_rel (ufeed_until fuel p s b) (ufeed_until fuel q s b).
Proof.
  induction fuel as [|f IH]; intros p q s b Hrel Hs Hr; cbn [ufeed_until]; [exact I|].
  pose proof (step_rel p q s b Hrel Hs Hr) as H.
  destruct (uexec_step p s b) as [p1 s1 rest d e|w]; destruct (uexec_step q s b) as [q1 s1' rest' d' e'|w'];
    cbn [ures_rel] in H; try contradiction; [|subst; reflexivity].
  destruct H as (-> & -> & -> & -> & Hv & Hn).
  destruct (d || negb (unil e)) eqn:E1.
  { cbn [resU_rel ures_rel]. auto 10. }
  apply orb_false_iff in E1. destruct E1 as [-> En]. apply negb_false_iff, unil_true in En. subst e.
  destruct (Hn eq_refl) as [Hrel1 Hs1]. rewrite (cstep_veq _ _ Hv).
  destruct ((zlen rest =? 0) && negb (can_step_without_input p1)) eqn:Ec.
  { cbn [resU_rel ures_rel]. auto 10. }
  apply IH; [exact Hrel1|exact Hs1|].
  apply andb_false_iff in Ec. destruct Ec as [Ec|Ec].
  - left. intros ->. discriminate Ec.
  - right. apply negb_false_iff in Ec. exact Ec.
Qed.

Definition fres_rel (r r' : res (uparser * sink * Z)) : Prop :=
  match r, r' with
  | Ok (p1, s1, e), Ok (q1, s1', e') =>
      s1' = s1 /\ e' = e /\ veq p1 q1 /\ (e = unilE -> rel p1 q1 /\ safeY p1)
  | Err a, Err b => b = a
  | Panic a, Panic b => b = a
  | OutOfFuel, OutOfFuel => True
  | _, _ => False
  end.

Lemma feed_rel : forall fuel p q s b, rel p q -> safeY p -> fres_rel (ufeed fuel p s b) (ufeed fuel q s b).
Proof.
  induction fuel as [|f IH]; intros p q s b Hrel Hs; cbn [ufeed]; [exact I|].
  destruct (zlen b >? 0) eqn:Eb.
  2:{ cbn [fres_rel]. split; [reflexivity|]. split; [reflexivity|]. split; [exact (proj1 Hrel)|]. intros _. split; assumption. }
  assert (Hr : PS.ready p b) by (left; intros ->; discriminate Eb).
  rewrite (fuel_veq _ _ b (proj1 Hrel)).
  pose proof (fu_rel (ufeed_fuel p b) p q s b Hrel Hs Hr) as H.
  destruct (ufeed_until (ufeed_fuel p b) p s b) as [[p1 s1 rest d e|w]|a|a|];
    destruct (ufeed_until (ufeed_fuel p b) q s b) as [[q1 s1' rest' d' e'|w']|a'|a'|];
    cbn [resU_rel ures_rel] in H; try contradiction; try (subst; reflexivity).
  destruct H as (-> & -> & -> & -> & Hv & Hn).
  destruct (unil e) eqn:Ee.
  - apply unil_true in Ee. destruct (Hn Ee) as [A B]. apply IH; assumption.
  - cbn [fres_rel]. split; [reflexivity|]. split; [reflexivity|]. split; [exact Hv|]. intros ->. discriminate Ee.
Qed.

Lemma LB_set_err : forall p e, LB (uset_err p e) <-> LB p.
Proof. intros. unfold LB. reflexivity. Qed.

Lemma safeY_set_err : forall p e, safeY p -> safeY (uset_err p e).
Proof. intros p e [A B]. split; [rewrite PS.inv1b_set_err; exact A|apply LB_set_err; exact B]. Qed.

Lemma veq_set_err : forall p q e, veq p q -> veq (uset_err p e) (uset_err q e).
Proof. intros p q e H. apply veq_svt in H. rewrite H. repeat split. Qed.
Lemma veq_set_cur : forall p q c, veq p q -> veq (uset_cur p c) (uset_cur q c).
Proof. intros p q c H. apply veq_svt in H. rewrite H. repeat split. Qed.

Lemma rel_set_err : forall p q e, rel p q -> rel (uset_err p e) (uset_err q e).
Proof.
  intros p q e [A B]. split; [apply veq_set_err; exact A|]. intros K. rewrite (B K). reflexivity.
Qed.

Lemma write_rel : forall p q s b, rel p q -> safeY p -> fres_rel (up_write p s b) (up_write q s b).
Proof.
  intros p q s b Hrel Hs. unfold up_write.
  pose proof (feed_rel (2 * length b + 2) p q s b Hrel Hs) as H.
  destruct (ufeed (2 * length b + 2) p s b) as [[[p1 s1] e]|a|a|];
    destruct (ufeed (2 * length b + 2) q s b) as [[[q1 s1'] e']|a'|a'|]; cbn [fres_rel] in H; try contradiction; try exact H.
  destruct H as (-> & -> & Hv & Hn).
  destruct (unil e) eqn:Ee; cbn [fres_rel].
  - apply unil_true in Ee. destruct (Hn Ee) as [A B].
    split; [reflexivity|]. split; [reflexivity|]. split; [apply veq_set_err; exact Hv|].
    intros _. split; [apply rel_set_err; exact A|apply safeY_set_err; exact B].
  - split; [reflexivity|]. split; [reflexivity|]. split; [apply veq_set_cur, veq_set_err; exact Hv|].
    intros ->. discriminate Ee.
Qed.

(* finalize does not look at up_vtype *)
Lemma ufinalize_svt : forall fuel p vt s,
  ufinalize fuel (svt p vt) s = let '(p1, s1, e) := ufinalize fuel p s in (svt p1 vt, s1, e).
Proof.
  induction fuel as [|f IH]; intros p vt s; [reflexivity|].
  cbn [ufinalize]. unfold upop_len_state, upop_state. cbn [fst]. autorewrite with svtdb.
  repeat match goal with
  | |- (if ?c then _ else _) = _ => destruct c
  | |- (let '(_, _) := uvis ?s ?e in _) = _ => destruct (uvis s e) as [? ?]
  end; try reflexivity; apply IH.
Qed.

Lemma ufin_svt : forall p vt s, ufin (svt p vt) s = let '(p1, s1, e) := ufin p s in (svt p1 vt, s1, e).
Proof. intros. unfold ufin. rewrite sv_stack. apply ufinalize_svt. Qed.

Definition out_rel (r r' : res (uparser * sink * Z)) : Prop :=
  match r, r' with
  | Ok (p1, s1, e), Ok (q1, s1', e') => s1' = s1 /\ e' = e /\ veq p1 q1
  | Err a, Err b => b = a
  | Panic a, Panic b => b = a
  | OutOfFuel, OutOfFuel => True
  | _, _ => False
  end.

Lemma ufin_rel : forall p q s, veq p q -> out_rel (Ok (ufin p s)) (Ok (ufin q s)).
Proof.
  intros p q s H. apply veq_svt in H. rewrite H, ufin_svt.
  destruct (ufin p s) as [[p1 s1] e]. cbn [out_rel]. repeat split.
Qed.

(* C17, behavioural form (Parse): the runs from two parsers that differ in up_vtype only
   deliver the same events to every visitor and return the same verdict. *)
Theorem C17_ubj_parse_vtype_dead : forall p q s b, rel p q -> safeY p ->
  out_rel (up_parse p s b) (up_parse q s b).
Proof.
  intros p q s b Hrel Hs. unfold up_parse.
  pose proof (feed_rel (2 * length b + 2) p q s b Hrel Hs) as H.
  destruct (ufeed (2 * length b + 2) p s b) as [[[p1 s1] e]|a|a|];
    destruct (ufeed (2 * length b + 2) q s b) as [[[q1 s1'] e']|a'|a'|]; cbn [fres_rel] in H; try contradiction; try exact H.
  destruct H as (-> & -> & Hv & Hn).
  destruct (unil e); [apply ufin_rel; exact Hv|]. cbn [out_rel]. auto.
Qed.

Theorem C17_ubj_writes_vtype_dead : forall chunks p q s, rel p q -> safeY p ->
  out_rel (up_writes p s chunks) (up_writes q s chunks).
Proof.
  induction chunks as [|c r IH]; intros p q s Hrel Hs; cbn [up_writes].
  - apply ufin_rel. exact (proj1 Hrel).
  - pose proof (write_rel p q s c Hrel Hs) as H.
    destruct (up_write p s c) as [[[p1 s1] e]|a|a|];
      destruct (up_write q s c) as [[[q1 s1'] e']|a'|a'|]; cbn [fres_rel] in H; try contradiction; try exact H.
    destruct H as (-> & -> & Hv & Hn).
    destruct (unil e) eqn:Ee.
    + apply unil_true in Ee. destruct (Hn Ee) as [A B]. apply IH; assumption.
    + cbn [out_rel]. auto.
Qed.

(* ---------- a reused parser ---------- *)
(* fresh-like: every field has its initial value, except the dead up_vtype *)
Definition fresh_like (p : uparser) : Prop := veq uparser0 p.

Lemma fresh_like0 : fresh_like uparser0.
Proof. apply veq_refl. Qed.

Lemma rel0 : forall p, fresh_like p -> rel uparser0 p.
Proof. intros p H. split; [exact H|]. intros K. discriminate K. Qed.

Lemma safeY0 : safeY uparser0.
Proof. split; reflexivity. Qed.

Lemma LB_top : forall p, up_cur p = mku tNext sStart -> up_stack p = [] -> LB p -> up_lcur p = 0 /\ up_lstack p = [].
Proof.
  intros p Hc Hs H. unfold LB in H. rewrite Hc, Hs in H. rewrite lshape_cons in H.
  change (lw (mku tNext sStart)) with 0%nat in H. cbv iota in H. unfold lshape in H.
  destruct (up_lstack p) as [|x l]; [|discriminate H]. apply Z.eqb_eq in H. auto.
Qed.

(* the idle state: everything is as in a new parser *)
Lemma idle_fresh : forall p, top p -> PS.inv1b p = true -> PS.ext3b p = true -> LB p -> fresh_like p.
Proof.
  intros p (Hc & Hs & Hb & Hm & He) Hi Hx HL.
  destruct (top_vstack p Hi Hx Hs) as [Hv Hvs]; [rewrite Hc; reflexivity|rewrite Hc; reflexivity|].
  destruct (LB_top p Hc Hs HL) as [Hl Hls].
  unfold fresh_like, veq, uparser0. cbn [up_cur up_stack up_vcur up_vstack up_lcur up_lstack up_buf up_marker up_err].
  repeat split; congruence.
Qed.

Lemma cstep_top : forall p, up_cur p = mku tNext sStart -> cstep p = false.
Proof. intros p H. unfold cstep, can_step_without_input. rewrite H. reflexivity. Qed.

(* the state between two Write calls of an accepted run *)
Definition between (p : uparser) (fut : bytes) : Prop :=
  Inv p /\ PS.inv1b p = true /\ PS.ext3b p = true /\ PS.guard p fut /\ LB p /\ cstep p = false.

Lemma between0 : forall fut, PS.no_zero_typed fut = true -> between uparser0 fut.
Proof.
  intros fut H. split; [exact Inv0|]. split; [reflexivity|]. split; [reflexivity|].
  split; [apply PS.guard_init; exact H|]. split; [reflexivity|reflexivity].
Qed.

Lemma between_fin : forall p s p' s', between p [] -> ufin p s = (p', s', unilE) -> fresh_like p'.
Proof.
  intros p s p' s' (HI & Hi & Hx & _ & HL & Hc) H.
  destruct (ufin_top _ _ _ _ HI H) as [Ht _].
  unfold ufin in H. destruct (ufinalize_nostep _ _ _ _ _ Hc H) as [-> ->].
  apply idle_fresh; assumption.
Qed.

Lemma between_write : forall p s c fut p1 s1, between p (c ++ fut) ->
  up_write p s c = Ok (p1, s1, unilE) -> between p1 fut.
Proof.
  intros p s c fut p1 s1 (HI & Hi & Hx & Hg & HL & Hc) H.
  destruct (PS.up_write_total p s c fut Hi Hx Hg) as (p1' & s1' & err' & E & Hok).
  rewrite H in E. inversion E; subst p1' s1' err'. destruct (Hok eq_refl) as (A & B & C).
  pose proof (write_rel p p s c (rel_refl p) (conj Hi HL)) as W. rewrite H in W. cbn [fres_rel] in W.
  destruct W as (_ & _ & _ & W). destruct (W eq_refl) as [_ [_ HL1]].
  split; [eapply up_write_inv; eauto|]. split; [exact A|]. split; [exact B|]. split; [exact C|].
  split; [exact HL1|].
  destruct (up_write_Ok _ _ _ _ _ _ H) as (q & F & Eq). rewrite unil_nil in Eq. subst p1.
  change (cstep (uset_err q 0)) with (cstep q).
  destruct F as [[-> F]|[Hn F]].
  - inversion F; subst. exact Hc.
  - exact (R_end_nostep _ _ _ _ F HI eq_refl).
Qed.

Lemma between_writes : forall chunks p s p' s', between p (concat chunks) ->
  up_writes p s chunks = Ok (p', s', unilE) -> fresh_like p'.
Proof.
  induction chunks as [|c r IH]; intros p s p' s' Hb H; cbn [up_writes concat] in *.
  - inversion H as [H0]. eapply between_fin; eauto.
  - destruct (up_write p s c) as [[[p1 s1] e]|a|a|] eqn:Ew; try discriminate H.
    destruct (unil e) eqn:Ee.
    + apply unil_true in Ee. subst e. eapply IH; [|exact H]. eapply between_write; eauto.
    + inversion H; subst. discriminate Ee.
Qed.

Lemma between_parse : forall p s b p' s', between p b ->
  up_parse p s b = Ok (p', s', unilE) -> fresh_like p'.
Proof.
  intros p s b p' s' Hb H.
  apply (between_writes [b] p s p' s'); [cbn [concat]; rewrite app_nil_r; exact Hb|].
  cbn [up_writes]. unfold up_parse in H. unfold up_write.
  destruct (ufeed (2 * length b + 2) p s b) as [[[p1 s1] e]|a|a|] eqn:Ef; try discriminate H.
  destruct (unil e) eqn:Ee; [|inversion H; subst; discriminate Ee].
  apply unil_true in Ee. subst e. rewrite unil_nil.
  destruct Hb as (HI & _). apply feed_sound in Ef. pose proof (Feed_inv _ _ _ _ _ Ef HI) as HI1.
  rewrite set_err_same by apply HI1. exact H.
Qed.

(* one operation on a parser: Parse(b), or Write(c1) ... Write(cn) followed by the end of input *)
Inductive uop := OpParse (b : bytes) | OpWrites (chunks : list bytes).
Definition uop_run (p : uparser) (s : sink) (op : uop) : res (uparser * sink * Z) :=
  match op with OpParse b => up_parse p s b | OpWrites cs => up_writes p s cs end.
Definition uop_data (op : uop) : bytes :=
  match op with OpParse b => b | OpWrites cs => concat cs end.

Lemma out_rel_nil : forall r p' s', out_rel r (Ok (p', s', unilE)) ->
  exists p0, r = Ok (p0, s', unilE) /\ veq p0 p'.
Proof.
  intros [[[p0 s0] e0]|a|a|] p' s' H; cbn [out_rel] in H; try contradiction.
  destruct H as (-> & -> & Hv). eauto.
Qed.

(* C17, session form.  For every fresh-like parser p (one that was just created, or one that
   has accepted any number of inputs before), every operation and EVERY visitor behaviour
   (the sink s records all calls and may fail from any call on):
   (a) the run from p and the run from a new parser deliver the same events, return the
       same verdict (or fail in the same way) and end in parsers that differ in up_vtype only;
   (b) if the operation is accepted, the parser is fresh-like again.
   The premise no_zero_typed (no '$' directly followed by Z, T or F) of (b) is needed only because
   of the recorded finding F2 (containers of zero-sized elements): the balance of the valueState
   stack is available from ParseSafety.ext3b, whose preservation needs that guard. *)
Theorem C17_ubj_session_step : forall p s op, fresh_like p ->
  out_rel (uop_run uparser0 s op) (uop_run p s op) /\
  (forall p' s', PS.no_zero_typed (uop_data op) = true ->
     uop_run p s op = Ok (p', s', unilE) -> fresh_like p').
Proof.
  intros p s op Hf.
  assert (A : out_rel (uop_run uparser0 s op) (uop_run p s op)).
  { destruct op as [b|cs]; cbn [uop_run].
    - apply C17_ubj_parse_vtype_dead; [apply rel0; exact Hf|exact safeY0].
    - apply C17_ubj_writes_vtype_dead; [apply rel0; exact Hf|exact safeY0]. }
  split; [exact A|].
  intros p' s' Hz H. rewrite H in A. destruct (out_rel_nil _ _ _ A) as (p0 & E0 & Hv).
  apply (veq_trans _ p0); [|exact Hv].
  destruct op as [b|cs]; cbn [uop_run uop_data] in *.
  - eapply between_parse; [apply between0; exact Hz|exact E0].
  - eapply between_writes; [apply between0; exact Hz|exact E0].
Qed.

Corollary C17_ubj_parse_reuse : forall p s b, fresh_like p ->
  out_rel (up_parse uparser0 s b) (up_parse p s b).
Proof. intros p s b H. exact (proj1 (C17_ubj_session_step p s (OpParse b) H)). Qed.

Corollary C17_ubj_writes_reuse : forall p s chunks, fresh_like p ->
  out_rel (up_writes uparser0 s chunks) (up_writes p s chunks).
Proof. intros p s cs H. exact (proj1 (C17_ubj_session_step p s (OpWrites cs) H)). Qed.

(* after any accepted input: all three stacks are empty and every field but up_vtype is initial *)
Corollary C17_ubj_run_parse_fresh : forall vfail b evs p,
  PS.no_zero_typed b = true -> urun_parse vfail b = Ok (evs, unilE, p) -> fresh_like p.
Proof.
  intros vfail b evs p Hz H. unfold urun_parse in H.
  destruct (up_parse uparser0 (sink0 vfail) b) as [[[p' s'] e']|a|a|] eqn:E; try discriminate H.
  inversion H; subst.
  exact (proj2 (C17_ubj_session_step uparser0 (sink0 vfail) (OpParse b) fresh_like0) _ _ Hz E).
Qed.

Corollary C17_ubj_run_chunks_fresh : forall vfail chunks evs p,
  PS.no_zero_typed (concat chunks) = true -> urun_chunks vfail chunks = Ok (evs, unilE, p) -> fresh_like p.
Proof.
  intros vfail cs evs p Hz H. unfold urun_chunks in H.
  destruct (up_writes uparser0 (sink0 vfail) cs) as [[[p' s'] e']|a|a|] eqn:E; try discriminate H.
  inversion H; subst.
  exact (proj2 (C17_ubj_session_step uparser0 (sink0 vfail) (OpWrites cs) fresh_like0) _ _ Hz E).
Qed.

(* a whole session: operations on one parser, as long as they are accepted *)
Fixpoint usession (p : uparser) (s : sink) (ops : list uop) : res (uparser * sink * Z) :=
  match ops with
  | [] => Ok (p, s, unilE)
  | op :: r =>
      match uop_run p s op with
      | Ok (p1, s1, e) => if unil e then usession p1 s1 r else Ok (p1, s1, e)
      | x => x
      end
  end.
(* the same session with a new parser for every operation *)
Fixpoint usession_new (s : sink) (ops : list uop) : res (uparser * sink * Z) :=
  match ops with
  | [] => Ok (uparser0, s, unilE)
  | op :: r =>
      match uop_run uparser0 s op with
      | Ok (p1, s1, e) => if unil e then usession_new s1 r else Ok (p1, s1, e)
      | x => x
      end
  end.

Theorem C17_ubj_session : forall ops p s, fresh_like p ->
  forallb (fun op => PS.no_zero_typed (uop_data op)) ops = true ->
  out_rel (usession_new s ops) (usession p s ops).
Proof.
  induction ops as [|op r IH]; intros p s Hf Hz; cbn [usession usession_new].
  - cbn [out_rel]. auto.
  - cbn [forallb] in Hz. apply andb_true_iff in Hz. destruct Hz as [Hz1 Hz2].
    destruct (C17_ubj_session_step p s op Hf) as [A B].
    destruct (uop_run uparser0 s op) as [[[p0 s0] e0]|a|a|];
      destruct (uop_run p s op) as [[[p1 s1] e1]|a'|a'|]; cbn [out_rel] in A; try contradiction; try exact A.
    destruct A as (-> & -> & Hv).
    destruct (unil e0) eqn:Ee; [|cbn [out_rel]; auto].
    apply unil_true in Ee. subst e0. apply IH; [|exact Hz2]. apply (B p1 s0 Hz1 eq_refl).
Qed.

Print Assumptions C17_ubj_parse_vtype_dead.
Print Assumptions C17_ubj_writes_vtype_dead.
Print Assumptions C17_ubj_session_step.
Print Assumptions C17_ubj_parse_reuse.
Print Assumptions C17_ubj_writes_reuse.
Print Assumptions C17_ubj_run_parse_fresh.
Print Assumptions C17_ubj_run_chunks_fresh.
Print Assumptions C17_ubj_session.
