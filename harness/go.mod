module sfharness

go 1.21

require github.com/elastic/go-structform v0.0.0

replace github.com/elastic/go-structform => /repo
