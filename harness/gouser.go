package main

import (
	"fmt"
	"math"
	"strconv"
	"strings"

	structform "github.com/elastic/go-structform"
	"github.com/elastic/go-structform/gotype"
	"github.com/elastic/go-structform/visitors"
)

// =================== C12 / C17: custom folders, Folder, IsZeroer ===================
// userfold \t <mode x|p> <idx>:<seed> <idx>:<seed> ... \t EV <events of the LAST fold> R <verdict> ## WANT <expected events, '_' joined>
//
// Hand-written types with a registered folder (gotype.Folders), types implementing
// gotype.Folder (value and pointer receiver, also as inline fields) and gotype.IsZeroer, in
// every placement: top level, behind a pointer, as struct field (plain, pointer, omitempty,
// inline), slice / array / map element, and reached through interface{} in all of these.
// The expectation is written down by hand from the documented mapping: "values with a
// registered or implemented custom folder exactly as that folder emits them".  Several
// placements are folded through ONE iterator (compiled folders are cached per iterator);
// the last one is compared.
type ufT struct {
	A int
	B string
}
type ufO struct {
	K string
	V int
}
type ufP struct {
	K string
	V int
}
type ufZ struct{ N int }

// ufZP: IsZero with a POINTER receiver, no custom folder (folds as a plain struct)
type ufZP struct{ X int }

func (z *ufZP) IsZero() bool { return z.X == 0 }

// ufBox / ufMap: pointer-shaped value types with a registered folder
type ufBox struct{ P *int }
type ufMap map[string]int

// ufNode inlines a pointer to itself
type ufNode struct {
	V    int
	Next *ufNode `struct:",inline"`
}

// ufMid: an inlined interface{} inside a value held by an inlined interface{}
type ufMid struct {
	B int
	Y interface{} `struct:",inline"`
}

// ufIn is a plain struct inlined through a pointer by two different struct types
type ufIn struct {
	Q int
	R string
}

// ufKR emits its keys BY REFERENCE (as a Folder that replays a parsed document does)
type ufKR struct {
	K string
	V int
}

func (o ufKR) Fold(v structform.ExtVisitor) error {
	if err := v.OnObjectStart(1, structform.AnyType); err != nil {
		return err
	}
	if err := v.OnKeyRef([]byte(o.K)); err != nil {
		return err
	}
	if err := v.OnInt(o.V); err != nil {
		return err
	}
	return v.OnObjectFinished()
}

// ufNest: a Folder that folds a part of itself with gotype.Fold on the visitor it was given,
// and goes on with extended events afterwards
type ufNest struct {
	A  int
	In ufZ
}

func (n ufNest) Fold(v structform.ExtVisitor) error {
	if err := v.OnObjectStart(-1, structform.AnyType); err != nil {
		return err
	}
	if err := v.OnKey("in"); err != nil {
		return err
	}
	if err := gotype.Fold(n.In, v); err != nil {
		return err
	}
	if err := v.OnKeyRef([]byte("tags")); err != nil {
		return err
	}
	if err := v.OnStringArray([]string{"x", "y"}); err != nil {
		return err
	}
	if err := v.OnKey("a"); err != nil {
		return err
	}
	if err := v.OnInt(n.A); err != nil {
		return err
	}
	return v.OnObjectFinished()
}

// ufNil has a registered folder that knows about nil
type ufNil struct{ V int }

// ufFv: Fold is a value method; ufFI: an interface type that embeds Folder
type ufFv struct{ N int }

func (f ufFv) Fold(v structform.ExtVisitor) error { return v.OnString("fv") }

type ufFI interface{ gotype.Folder }

// Folder implemented on the POINTER of named map / slice / array types
type ufPfMap map[string]int

func (m *ufPfMap) Fold(v structform.ExtVisitor) error { return v.OnString("pfmap") }

type ufPfSlice []int

func (m *ufPfSlice) Fold(v structform.ExtVisitor) error { return v.OnString("pfslice") }

type ufPfArr [2]int

func (m *ufPfArr) Fold(v structform.ExtVisitor) error { return v.OnString("pfarr") }

// ufS implements fmt.Stringer (an interface WITH methods) and folds as a plain struct
type ufS struct{ N int }

func (s ufS) String() string { return "ufS" }

// ufR has a REGISTERED folder that emits an object (so that it can also be inlined)
type ufR struct {
	K string
	V int
}

func (o ufO) Fold(v structform.ExtVisitor) error {
	if err := v.OnObjectStart(1, structform.AnyType); err != nil {
		return err
	}
	if err := v.OnKey(o.K); err != nil {
		return err
	}
	if err := v.OnInt(o.V); err != nil {
		return err
	}
	return v.OnObjectFinished()
}
func (o *ufP) Fold(v structform.ExtVisitor) error {
	if err := v.OnObjectStart(1, structform.AnyType); err != nil {
		return err
	}
	if err := v.OnKey("P" + o.K); err != nil {
		return err
	}
	if err := v.OnInt(o.V); err != nil {
		return err
	}
	return v.OnObjectFinished()
}
func (z ufZ) IsZero() bool { return z.N == 0 }

func ufTString(t *ufT) string { return "T:" + strconv.Itoa(t.A) + ":" + t.B }

var userFoldOptT = gotype.Folders(func(t *ufT, v structform.ExtVisitor) error { return v.OnString(ufTString(t)) })

var userFoldOptRest = gotype.Folders(
	func(b *ufBox, v structform.ExtVisitor) error { return v.OnString("BOX:" + strconv.Itoa(*b.P)) },
	func(m *ufMap, v structform.ExtVisitor) error { return v.OnString("MAP:" + strconv.Itoa(len(*m))) },
	func(r *ufR, v structform.ExtVisitor) error {
		if err := v.OnObjectStart(1, structform.AnyType); err != nil {
			return err
		}
		if err := v.OnKey("R" + r.K); err != nil {
			return err
		}
		if err := v.OnInt(r.V); err != nil {
			return err
		}
		return v.OnObjectFinished()
	},
	func(p *ufNil, v structform.ExtVisitor) error {
		if p == nil {
			return v.OnString("nilN")
		}
		return v.OnInt(p.V)
	},
	func(f *float64, v structform.ExtVisitor) error {
		if math.IsNaN(*f) {
			return v.OnNil()
		}
		return v.OnString("F:" + strconv.FormatFloat(*f, 'g', -1, 64))
	},
)

// expected values: string, int, bool, nil, []interface{}, xo (ordered object)
type xkv struct {
	k string
	v interface{}
}
type xo []xkv

func xvEvents(x interface{}, evs []event) []event {
	switch v := x.(type) {
	case nil:
		return append(evs, event{kind: evNil, sc: scalar{kind: evNil}})
	case string:
		return append(evs, event{kind: evStr, sc: scS(v)})
	case int:
		return append(evs, event{kind: evNum, sc: scI(kInt, int64(v))})
	case bool:
		return append(evs, event{kind: evBool, sc: scB(v)})
	case float64:
		return append(evs, event{kind: evNum, sc: scU(kFloat64, math.Float64bits(v))})
	case []interface{}:
		evs = append(evs, event{kind: evArrStart, n: len(v)})
		for _, e := range v {
			evs = xvEvents(e, evs)
		}
		return append(evs, event{kind: evArrEnd})
	case xo:
		evs = append(evs, event{kind: evObjStart, n: len(v)})
		for _, m := range v {
			evs = append(evs, event{kind: evKey, s: []byte(m.k)})
			evs = xvEvents(m.v, evs)
		}
		return append(evs, event{kind: evObjEnd})
	}
	panic(fmt.Sprintf("xvEvents: %T", x))
}

var ufKeys = []string{"k", "key", "x", "a1", "é"}

// userPlacement builds placement idx with contents drawn from r: the Go value and the documented result.
func userPlacement(idx int, r *rng) (interface{}, interface{}) {
	a := ufT{A: r.n(100), B: []string{"", "b", "x y", "é"}[r.n(4)]}
	b := ufT{A: r.n(100), B: "bb"}
	sa, sb := ufTString(&a), ufTString(&b)
	n := r.n(50)
	k := ufKeys[r.n(len(ufKeys))]
	o := ufO{K: k, V: r.n(9)}
	p := ufP{K: k, V: r.n(9)}
	ox := xo{{o.K, o.V}}
	px := xo{{"P" + p.K, p.V}}
	f := []float64{1.5, 0, -2.25, 1e21, math.NaN()}[r.n(5)]
	var fx interface{} = "F:" + strconv.FormatFloat(f, 'g', -1, 64)
	if math.IsNaN(f) {
		fx = nil
	}
	switch idx {
	case 0:
		return a, sa
	case 1:
		return &a, sa
	case 2:
		return struct {
			X ufT
			N int
		}{a, n}, xo{{"x", sa}, {"n", n}}
	case 3:
		return struct {
			X *ufT
			N int
		}{&a, n}, xo{{"x", sa}, {"n", n}}
	case 4:
		type t struct {
			X *ufT `struct:",omitempty"`
			N int
		}
		if r.bool() {
			return t{nil, n}, xo{{"n", n}}
		}
		return t{&a, n}, xo{{"x", sa}, {"n", n}}
	case 5:
		return []ufT{a, b}, []interface{}{sa, sb}
	case 6:
		return []*ufT{&a, &b}, []interface{}{sa, sb}
	case 7:
		return [2]*ufT{&a, &b}, []interface{}{sa, sb}
	case 8:
		return map[string]ufT{k: a}, xo{{k, sa}}
	case 9:
		return map[string]*ufT{k: &a}, xo{{k, sa}}
	case 10:
		return []interface{}{a, &b, n}, []interface{}{sa, sb, n}
	case 11:
		return map[string]interface{}{k: a}, xo{{k, sa}}
	case 12:
		type t struct {
			X interface{}
			N int
		}
		if r.bool() {
			return t{&a, n}, xo{{"x", sa}, {"n", n}}
		}
		return t{a, n}, xo{{"x", sa}, {"n", n}}
	case 13:
		return o, ox
	case 14:
		return &o, ox
	case 15:
		return struct {
			A int
			X ufO `struct:",inline"`
		}{n, o}, xo{{"a", n}, {o.K, o.V}}
	case 16:
		return struct {
			A int
			X interface{} `struct:",inline"`
		}{n, o}, xo{{"a", n}, {o.K, o.V}}
	case 17:
		return []ufO{o, {K: "z", V: 1}}, []interface{}{ox, xo{{"z", 1}}}
	case 18:
		return struct {
			O ufO
			P *ufP
		}{o, &p}, xo{{"o", ox}, {"p", px}}
	case 19:
		type t struct {
			Z ufZ `struct:",omitempty"`
			M int
		}
		z := ufZ{N: r.n(3)}
		if z.N == 0 {
			return t{z, n}, xo{{"m", n}}
		}
		return t{z, n}, xo{{"z", xo{{"n", z.N}}}, {"m", n}}
	case 20:
		type t struct {
			Z *ufZ `struct:",omitempty"`
			M int
		}
		if r.bool() {
			return t{nil, n}, xo{{"m", n}}
		}
		return t{&ufZ{N: 1 + r.n(3)}, n}, xo{{"z", xo{{"n", 0}}}, {"m", n}} // placeholder, fixed below
	case 21:
		return f, fx
	case 22:
		return []interface{}{f, "s"}, []interface{}{fx, "s"}
	case 23:
		return map[string]interface{}{k: f}, xo{{k, fx}}
	case 24:
		return struct {
			F float64
			G *float64
			H interface{}
		}{f, &f, f}, xo{{"f", fx}, {"g", fx}, {"h", fx}}
	case 25:
		// the struct of placement 15 inside an inlined interface{} of another struct
		inner := struct {
			A int
			X ufO `struct:",inline"`
		}{n, o}
		return struct {
			B int
			Y interface{} `struct:",inline"`
		}{n + 1, inner}, xo{{"b", n + 1}, {"a", n}, {o.K, o.V}}
	case 26:
		return map[string]interface{}{k: []interface{}{&a, map[string]interface{}{"q": b}}}, xo{{k, []interface{}{sa, xo{{"q", sb}}}}}
	case 27:
		return &p, px
	case 28:
		rr := ufR{K: k, V: n}
		return struct {
			X ufR
			Y *ufR
		}{rr, &rr}, xo{{"x", xo{{"R" + k, n}}}, {"y", xo{{"R" + k, n}}}}
	case 29:
		// a registered folder on an inlined field: its members are inlined
		return struct {
			A int
			X ufR `struct:",inline"`
		}{n, ufR{K: k, V: 7}}, xo{{"a", n}, {"R" + k, 7}}
	case 30:
		// pointer-receiver Folder, inlined through a pointer
		return struct {
			A int
			X *ufP `struct:",inline"`
		}{n, &p}, xo{{"a", n}, {"P" + p.K, p.V}}
	case 31:
		// Folder behind an interface in a slice and a map
		return []interface{}{o, &p, map[string]interface{}{"m": o}}, []interface{}{ox, px, xo{{"m", ox}}}
	case 32:
		// omitempty on a type whose IsZero has a pointer receiver (no custom folder)
		type t struct {
			A int
			B ufZP `struct:",omitempty"`
		}
		z := ufZP{X: r.n(3)}
		if z.X == 0 {
			return t{n, z}, xo{{"a", n}}
		}
		return t{n, z}, xo{{"a", n}, {"b", xo{{"x", z.X}}}}
	case 33:
		// nil pointers to a value-receiver Folder fold as null
		return struct {
			A int
			B *ufO
			C []*ufO
		}{n, nil, []*ufO{nil, &o}}, xo{{"a", n}, {"b", nil}, {"c", []interface{}{nil, ox}}}
	case 34:
		return (*ufO)(nil), nil
	case 35:
		// registered folders for pointer-shaped value types, not addressable
		q := n
		return []interface{}{ufBox{P: &q}, ufMap{"a": 1, "b": 2}, struct{ X ufBox }{ufBox{P: &q}}},
			[]interface{}{"BOX:" + strconv.Itoa(n), "MAP:2", xo{{"x", "BOX:" + strconv.Itoa(n)}}}
	case 36:
		// a type inlining a pointer to itself
		if r.bool() {
			return ufNode{V: n}, xo{{"v", n}}
		}
		return ufNode{V: n, Next: &ufNode{V: n + 1, Next: &ufNode{V: n + 2}}}, xo{{"v", n}, {"v", n + 1}, {"v", n + 2}}
	case 38:
		// two struct types inlining the same pointer type: the inline folder is cached per iterator
		in := &ufIn{Q: n, R: k}
		if r.bool() {
			return struct {
				X int
				P *ufIn `struct:",inline"`
			}{1, in}, xo{{"x", 1}, {"q", n}, {"r", k}}
		}
		return struct {
			P *ufIn `struct:",inline"`
			Y int
		}{in, 2}, xo{{"q", n}, {"r", k}, {"y", 2}}
	case 39:
		// ... and the same type inlined by value, and nil
		if r.bool() {
			return struct {
				Z int
				P ufIn `struct:",inline"`
			}{3, ufIn{Q: n, R: k}}, xo{{"z", 3}, {"q", n}, {"r", k}}
		}
		return struct {
			Z int
			P *ufIn `struct:",inline"`
		}{3, nil}, xo{{"z", 3}}
	case 40:
		// field names with upper-case letters outside A-Z: the default member name is the
		// lower-cased name (strings.ToLower, not an ASCII loop)
		return struct {
			Ärger int
			ΩMega string
			NAÏVE bool
		}{n, k, true}, xo{{"ärger", n}, {"ωmega", k}, {"naïve", true}}
	case 41:
		// a Folder that reports its keys by reference: plain, inlined, and inlined behind an interface
		kr := ufKR{K: k, V: n}
		switch r.n(3) {
		case 0:
			return struct {
				A int
				X ufKR
			}{1, kr}, xo{{"a", 1}, {"x", xo{{k, n}}}}
		case 1:
			return struct {
				A int
				X ufKR `struct:",inline"`
			}{1, kr}, xo{{"a", 1}, {k, n}}
		}
		return struct {
			A int
			X interface{} `struct:",inline"`
		}{1, kr}, xo{{"a", 1}, {k, n}}
	case 42:
		// values behind interfaces WITH methods fold as what they hold
		return struct {
				M map[string]fmt.Stringer
				S fmt.Stringer
				E error
				L []fmt.Stringer
			}{map[string]fmt.Stringer{k: ufS{n}}, ufS{n + 1}, nil, []fmt.Stringer{ufS{1}, nil}},
			xo{{"m", xo{{k, xo{{"n", n}}}}}, {"s", xo{{"n", n + 1}}}, {"e", nil}, {"l", []interface{}{xo{{"n", 1}}, nil}}}
	case 46:
		// a Folder that calls gotype.Fold on the visitor it was handed, in several places of one value
		nst := ufNest{A: n, In: ufZ{N: n + 1}}
		nx := xo{{"in", xo{{"n", n + 1}}}, {"tags", []interface{}{"x", "y"}}, {"a", n}}
		switch r.n(3) {
		case 0:
			return nst, nx
		case 1:
			return []interface{}{nst, k, nst}, []interface{}{nx, k, nx}
		}
		return struct {
			X ufNest
			Y int
			Z map[string]interface{}
		}{nst, 1, map[string]interface{}{k: nst}}, xo{{"x", nx}, {"y", 1}, {"z", xo{{k, nx}}}}
	case 47:
		// a registered folder that handles nil itself gets the nil pointer wherever it sits
		var np *ufNil
		switch r.n(3) {
		case 0:
			return []interface{}{np, &ufNil{n}, []interface{}{np}}, []interface{}{"nilN", n, []interface{}{"nilN"}}
		case 1:
			return map[string]interface{}{k: []interface{}{np, np}}, xo{{k, []interface{}{"nilN", "nilN"}}}
		}
		return struct {
				F *ufNil
				L []*ufNil
				I []interface{}
				M map[string]interface{}
				V ufNil
			}{np, []*ufNil{np, {n}}, []interface{}{np, &ufNil{n}}, map[string]interface{}{k: np}, ufNil{n}},
			xo{{"f", "nilN"}, {"l", []interface{}{"nilN", n}}, {"i", []interface{}{"nilN", n}}, {"m", xo{{k, "nilN"}}}, {"v", n}}
	case 48:
		// typed containers of a primitive with a registered folder keep their typed fast path
		// (registrations are looked up per static type): plain numbers, announced as such
		return struct {
			M map[string]float64
			L []float64
		}{map[string]float64{k: 1.5}, []float64{2.5}}, xo{{"m", xo{{k, 1.5}}}, {"l", []interface{}{2.5}}}
	case 45:
		// more nil pointers through one iterator than any sensible nesting limit
		return struct {
				L []*int
				P *int
				M map[string]*int
			}{make([]*int, 1500), &n, map[string]*int{k: nil}},
			xo{{"l", make([]interface{}, 1500)}, {"p", n}, {"m", xo{{k, nil}}}}
	case 43:
		// a nil pointer whose Fold is a VALUE method, held by an interface type that embeds Folder
		return struct {
				A ufFI
				L []ufFI
				M map[string]ufFI
				Z ufFI
			}{(*ufFv)(nil), []ufFI{(*ufFv)(nil), ufFv{n}, &ufFv{n}}, map[string]ufFI{k: (*ufFv)(nil)}, nil},
			xo{{"a", nil}, {"l", []interface{}{nil, "fv", "fv"}}, {"m", xo{{k, nil}}}, {"z", nil}}
	case 44:
		// a Folder with a POINTER receiver on named map / slice / array types, wherever the value sits
		switch r.n(5) {
		case 0:
			return ufPfMap{k: n}, "pfmap"
		case 1:
			return []interface{}{ufPfMap{k: n}, ufPfSlice{n}, ufPfArr{n, 1}}, []interface{}{"pfmap", "pfslice", "pfarr"}
		case 2:
			return map[string]interface{}{k: ufPfSlice{}}, xo{{k, "pfslice"}}
		case 3:
			return ufPfSlice{n, n}, "pfslice"
		}
		return struct {
			F ufPfMap
			G interface{}
			H []ufPfSlice
		}{ufPfMap{}, ufPfSlice{n}, []ufPfSlice{{1}}}, xo{{"f", "pfmap"}, {"g", "pfslice"}, {"h", []interface{}{"pfslice"}}}
	case 37:
		// inlined interface{} inside a value held by an inlined interface{}
		return struct {
			A int
			X interface{} `struct:",inline"`
		}{n, ufMid{B: n + 1, Y: map[string]int{k: 3}}}, xo{{"a", n}, {"b", n + 1}, {k, 3}}
	}
	panic("userPlacement")
}

const nUserPlacements = 49

// placement 20 needs the value it generated: build it here with one rng so that value and expectation agree
func userPlacementFixed(idx int, seed uint64) (interface{}, interface{}) {
	if idx == 20 {
		r := newRng(seed)
		n := r.n(50)
		type t struct {
			Z *ufZ `struct:",omitempty"`
			M int
		}
		if r.bool() {
			return t{nil, n}, xo{{"m", n}}
		}
		z := &ufZ{N: 1 + r.n(3)}
		return t{z, n}, xo{{"z", xo{{"n", z.N}}}, {"m", n}}
	}
	return userPlacement(idx, newRng(seed))
}

func userfoldRun(mode string, items [][2]uint64) string {
	var got, want []event
	var err error
	wantErr := false
	o := guard(guardTime, func() {
		xrec := newXRecorder(-1)
		var vis structform.Visitor = xrec
		failK := -1
		if i := strings.Index(mode, "f"); i >= 0 {
			failK = atoi(mode[i+1:]) // the visitor fails at the k-th event of the LAST item
			mode = mode[:i]
		}
		if mode == "p" {
			vis = xrec.refRecorder.recorder // a plain visitor: no extended interfaces
		}
		it, e := gotype.NewIterator(vis, userFoldOptT, userFoldOptRest)
		if e != nil {
			err = e
			return
		}
		for i, item := range items {
			if item[0] == nUserPlacements {
				// an invalid option: Fold must report it, not succeed without folding anything
				xrec.evs = nil
				err = gotype.Fold(int(item[1]), vis, gotype.Folders(42))
				if i == len(items)-1 {
					got = xrec.evs
					wantErr = true
				}
				continue
			}
			if item[0] == nUserPlacements+1 {
				// option values are inputs: an iterator built from the first option alone must not
				// see folders that another iterator added through a second option
				other := newXRecorder(-1)
				if _, e := gotype.NewIterator(other, userFoldOptT, userFoldOptRest); e != nil {
					err = e
					return
				}
				it2, e := gotype.NewIterator(vis, userFoldOptT)
				if e != nil {
					err = e
					return
				}
				xrec.evs = nil
				err = it2.Fold(1.5)
				if i == len(items)-1 {
					got = xrec.evs
					want = []event{{kind: evNum, sc: scU(kFloat64, math.Float64bits(1.5))}}
				}
				continue
			}
			v, x := userPlacementFixed(int(item[0]), item[1])
			if i == len(items)-1 && failK >= 0 {
				xrec.failAt = xrec.calls + failK
			}
			if item[1]%2 == 0 {
				// the same value goes through Fold WITHOUT any option first (its result does not
				// matter): whatever that leaves behind in the process must not change what the
				// iterator with the registered folders does
				func() {
					defer func() { recover() }()
					gotype.Fold(v, visitors.NilVisitor())
				}()
			}
			xrec.evs = nil
			err = it.Fold(v)
			if i == len(items)-1 {
				got = xrec.evs
				want = xvEvents(x, nil)
			} else if err != nil {
				return
			}
		}
	})
	if wantErr {
		return fmt.Sprintf("EV %s R %s ## WANT ERR", eventsTok(got), verdictTok(o, err))
	}
	return fmt.Sprintf("EV %s R %s ## WANT %s", eventsTok(got), verdictTok(o, err), strings.ReplaceAll(eventsTok(want), " ", "_"))
}

func userfoldCase(r *rng) string {
	n := 1 + r.n(3)
	items := make([][2]uint64, n)
	parts := make([]string, n)
	for i := range items {
		items[i] = [2]uint64{uint64(r.n(nUserPlacements + 2)), r.u64() % 1000003}
		parts[i] = fmt.Sprintf("%d:%d", items[i][0], items[i][1])
	}
	mode := []string{"x", "p"}[r.n(2)]
	if r.chance(1, 4) && int(items[n-1][0]) < nUserPlacements {
		mode += fmt.Sprintf("f%d", r.n(12))
	}
	return fmt.Sprintf("userfold\t%s %s\t%s", mode, strings.Join(parts, " "), userfoldRun(mode, items))
}

func userfoldReplay(input string) string {
	f := strings.Fields(input)
	var items [][2]uint64
	for _, p := range f[1:] {
		var a, b uint64
		fmt.Sscanf(p, "%d:%d", &a, &b)
		items = append(items, [2]uint64{a, b})
	}
	return userfoldRun(f[0], items)
}

func init() {
	kinds["userfold"] = kindT{userfoldCase, userfoldReplay}
}
