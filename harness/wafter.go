package main

import (
	"fmt"
	"strings"
)

// =================== C16 / C03: Write after an error ===================
// wafter<fmt> \t <failAt> chunk chunk ... \t A ok | A events-after-error <n> | A error-forgotten | PANIC | HANG
//
// The document is written chunk by chunk to one parser whose visitor fails at event failAt
// (or the document itself is malformed); after the first failing Write the caller goes on:
// an empty Write, then the remaining chunks, finally (cborl, ubjson) a Parse.  No event of that document may reach the
// visitor any more, every further Write must report an error, and nothing may hang.
func (f *format) wafterRun(failAt int, chunks [][]byte) string {
	res := "A ok"
	o := guard(guardTime, func() {
		rec := newRecorder(failAt)
		p := f.newParser(refRecorder{rec})
		failed := false
		callsAtFailure := 0
		// for cborl / ubjson (whose Parse continues the document: feed + end of input) half of the
		// cases hand the first piece to Parse instead of Write
		h := 0
		for _, c := range chunks {
			h += len(c)
			for _, b := range c {
				h = h*31 + int(b)
			}
		}
		viaParse := f.name != "json" && len(chunks) >= 2 && (h>>3)%2 == 1
		for i := 0; i < len(chunks); i++ {
			var err error
			if i == 0 && viaParse {
				err = p.Parse(chunks[0])
			} else {
				_, err = p.Write(chunks[i])
			}
			if failed {
				if err == nil {
					res = "A error-forgotten"
					return
				}
				continue
			}
			if err != nil {
				failed = true
				callsAtFailure = rec.calls
				if _, err := p.Write(nil); err == nil {
					res = "A error-forgotten"
					return
				}
			}
		}
		if failed && f.name != "json" {
			// ... and Parse must not revive it either
			if err := p.Parse(chunks[len(chunks)-1]); err == nil {
				res = "A error-forgotten-by-Parse"
				return
			}
		}
		if failed && rec.calls != callsAtFailure {
			res = fmt.Sprintf("A events-after-error %d", rec.calls-callsAtFailure)
		}
	})
	if o.panicked || o.hung {
		return verdictTok(o, nil)
	}
	return res
}

func (f *format) wafterCase(r *rng) string {
	doc := f.genDoc(r)
	for len(doc) < 3 {
		doc = f.genDoc(r)
	}
	chunks := r.chunking(doc)
	if len(chunks) < 2 {
		c := 1 + r.n(len(doc)-1)
		chunks = [][]byte{doc[:c:c], doc[c:]}
	}
	failAt := -1
	if r.chance(2, 3) {
		failAt = r.n(6)
	}
	return fmt.Sprintf("wafter%s\t%d %s\t%s", f.name, failAt, chunksTok(chunks), f.wafterRun(failAt, chunks))
}

func (f *format) wafterReplay(input string) string {
	fl := strings.Fields(input)
	return f.wafterRun(atoi(fl[0]), parseChunks(fl[1:]))
}

// =================== C03: nesting as deep as the input is long ===================
// deep<fmt> \t <shape> <depth> \t D ok | D err | PANIC | HANG   (a crash of the process is a failed shard)
func (f *format) deepDoc(shape, depth int) []byte {
	var doc []byte
	switch f.name {
	case "cbor":
		switch shape % 3 {
		case 0: // definite one-element arrays: all of them close at once
			for i := 0; i < depth; i++ {
				doc = append(doc, 0x81)
			}
			doc = append(doc, 0x01)
		case 1: // definite one-member maps
			for i := 0; i < depth; i++ {
				doc = append(doc, 0xa1, 0x61, 'k')
			}
			doc = append(doc, 0x01)
		default: // indefinite arrays
			for i := 0; i < depth; i++ {
				doc = append(doc, 0x9f)
			}
			doc = append(doc, 0x01)
			for i := 0; i < depth; i++ {
				doc = append(doc, 0xff)
			}
		}
	case "ubj":
		switch shape % 3 {
		case 0: // counted one-element arrays
			for i := 0; i < depth; i++ {
				doc = append(doc, '[', '#', 'U', 1)
			}
			doc = append(doc, 'Z')
		case 1: // counted one-member objects
			for i := 0; i < depth; i++ {
				doc = append(doc, '{', '#', 'U', 1, 'U', 1, 'k')
			}
			doc = append(doc, 'Z')
		default:
			for i := 0; i < depth; i++ {
				doc = append(doc, '[')
			}
			doc = append(doc, 'Z')
			for i := 0; i < depth; i++ {
				doc = append(doc, ']')
			}
		}
	default:
		if shape%2 == 0 {
			for i := 0; i < depth; i++ {
				doc = append(doc, '[')
			}
			doc = append(doc, '1')
			for i := 0; i < depth; i++ {
				doc = append(doc, ']')
			}
		} else {
			for i := 0; i < depth; i++ {
				doc = append(doc, '{', '"', 'k', '"', ':')
			}
			doc = append(doc, '1')
			for i := 0; i < depth; i++ {
				doc = append(doc, '}')
			}
		}
	}
	return doc
}

type countVisitor struct{ recorder }

func (f *format) deepRun(shape, depth int) string {
	res := "D ok"
	o := guard(20*guardTime, func() {
		rec := newRecorder(-1)
		rec.evs = make([]event, 0, 8)
		p := f.newParser(refRecorder{rec})
		if err := p.Parse(f.deepDoc(shape, depth)); err != nil {
			res = "D err"
			return
		}
		if rec.calls < 2*depth {
			res = fmt.Sprintf("D events %d", rec.calls)
		}
	})
	if o.panicked || o.hung {
		return verdictTok(o, nil)
	}
	return res
}

func (f *format) deepCase(r *rng) string {
	shape := r.n(6)
	depth := []int{1 << 16, 1 << 18, 1 << 20, 1 << 22}[r.n(4)]
	return fmt.Sprintf("deep%s\t%d %d\t%s", f.name, shape, depth, f.deepRun(shape, depth))
}

func (f *format) deepReplay(input string) string {
	fl := strings.Fields(input)
	return f.deepRun(atoi(fl[0]), atoi(fl[1]))
}

func init() {
	for _, n := range fmtNames {
		n := n
		kinds["wafter"+n] = kindT{func(r *rng) string { return formats[n].wafterCase(r) }, func(s string) string { return formats[n].wafterReplay(s) }}
		kinds["deep"+n] = kindT{func(r *rng) string { return formats[n].deepCase(r) }, func(s string) string { return formats[n].deepReplay(s) }}
	}
}
