package main

import (
	"bytes"
	"fmt"
	"strings"

	structform "github.com/elastic/go-structform"
)

// =================== C17: an encoder used for a second document ===================
// encreuse<fmt> \t <cfg> | doc1 toks | doc2 toks \t R same | R diff <reused hex> <fresh hex> | R skip | PANIC | HANG
//
// Any complete document - a bare scalar as well as a container - is written through a visitor,
// then a second one through the same visitor; what the second one adds to the output must be
// exactly what a new visitor with the same settings writes for it.  (The model-backed encoder
// kinds only continue with container documents, the case C01/C08 speak about.)  Direct oracle.
func (f *format) encReuseRun(cfg int, d1, d2 []event) string {
	res := "R skip"
	o := guard(guardTime, func() {
		var w1, w2 bytes.Buffer
		vs, _ := f.newVisitor(&w1, cfg)
		ev := structform.EnsureExtVisitor(vs)
		if idx, _ := play(ev, d1); idx >= 0 {
			return // the first document was refused (non-finite float, ...): nothing to compare
		}
		n := w1.Len()
		i1, _ := play(ev, d2)
		fresh, _ := f.newVisitor(&w2, cfg)
		i2, _ := play(structform.EnsureExtVisitor(fresh), d2)
		got := w1.Bytes()[n:]
		if i1 != i2 || !bytes.Equal(got, w2.Bytes()) {
			res = fmt.Sprintf("R diff %s/%d %s/%d", hexTok(got), i1, hexTok(w2.Bytes()), i2)
			return
		}
		res = "R same"
	})
	if o.panicked || o.hung {
		return verdictTok(o, nil)
	}
	return res
}

func (f *format) encReuseCase(r *rng) string {
	o := f.encOpts
	o.longStr = false
	d1 := r.genStream(o)
	d2 := r.genStream(o)
	cfg := r.n(f.cfgs)
	return fmt.Sprintf("encreuse%s\t%d | %s | %s\t%s", f.name, cfg, eventsTok(d1), eventsTok(d2), f.encReuseRun(cfg, d1, d2))
}

func (f *format) encReuseReplay(input string) string {
	parts := strings.Split(input, "|")
	return f.encReuseRun(atoi(strings.TrimSpace(parts[0])), parseEventsTok(parts[1]), parseEventsTok(parts[2]))
}

func init() {
	for _, n := range []string{"json", "ubj", "cbor"} {
		n := n
		kinds["encreuse"+n] = kindT{func(r *rng) string { return formats[n].encReuseCase(r) }, func(s string) string { return formats[n].encReuseReplay(s) }}
	}
}
