package main

import (
	"fmt"
	"math"
	"reflect"
	"sort"
	"strconv"
	"strings"
	"unsafe"
)

// ---- Go types and values as text (mirrors coq/Gotype/Types.v) ----
//
// type:  b s i8 i16 i32 i64 i u8 u16 u32 u64 u f32 f64 any | P T | L T | A n T | M T | MK T
//        | S n (namehex taghex|- T)* | N T(underlying) | X
// value: t f | s:hex | <decimal> | nil | & V | [ n V* | { n (keyhex V)* | ( n V* | I T V

// named (defined) types without methods; reflect cannot create these
type nBool bool
type nStr string
type nInt int
type nI8 int8
type nU16 uint16
type nU64 uint64
type nF64 float64
type nInts []int
type nStrs []string
type nAnys []interface{}
type nBytes []byte
type nMapInt map[string]int
type nMapStr map[string]string
type nMapAny map[string]interface{}
type nArr2 [2]int
type nMapK map[int]string

var namedTypes = []reflect.Type{
	reflect.TypeOf(nBool(false)), reflect.TypeOf(nStr("")), reflect.TypeOf(nInt(0)), reflect.TypeOf(nI8(0)),
	reflect.TypeOf(nU16(0)), reflect.TypeOf(nU64(0)), reflect.TypeOf(nF64(0)), reflect.TypeOf(nInts(nil)),
	reflect.TypeOf(nStrs(nil)), reflect.TypeOf(nAnys(nil)), reflect.TypeOf(nBytes(nil)), reflect.TypeOf(nMapInt(nil)),
	reflect.TypeOf(nMapStr(nil)), reflect.TypeOf(nMapAny(nil)), reflect.TypeOf(nArr2{}), reflect.TypeOf(nMapK(nil)),
}

var namedByTok = map[string]reflect.Type{}

func init() {
	for _, t := range namedTypes {
		namedByTok[typeTok(t)] = t
	}
}

var primTypes = map[string]reflect.Type{
	"b": reflect.TypeOf(false), "s": reflect.TypeOf(""),
	"i8": reflect.TypeOf(int8(0)), "i16": reflect.TypeOf(int16(0)), "i32": reflect.TypeOf(int32(0)), "i64": reflect.TypeOf(int64(0)), "i": reflect.TypeOf(0),
	"u8": reflect.TypeOf(uint8(0)), "u16": reflect.TypeOf(uint16(0)), "u32": reflect.TypeOf(uint32(0)), "u64": reflect.TypeOf(uint64(0)), "u": reflect.TypeOf(uint(0)),
	"f32": reflect.TypeOf(float32(0)), "f64": reflect.TypeOf(float64(0)),
}
var tAny = reflect.TypeOf((*interface{})(nil)).Elem()
var tChan = reflect.TypeOf(make(chan int))

var kindTok = map[reflect.Kind]string{
	reflect.Bool: "b", reflect.String: "s", reflect.Int8: "i8", reflect.Int16: "i16", reflect.Int32: "i32", reflect.Int64: "i64", reflect.Int: "i",
	reflect.Uint8: "u8", reflect.Uint16: "u16", reflect.Uint32: "u32", reflect.Uint64: "u64", reflect.Uint: "u",
	reflect.Float32: "f32", reflect.Float64: "f64",
}

func hxs(s string) string {
	if s == "" {
		return "-"
	}
	return hx([]byte(s))
}

func structTag(tag reflect.StructTag) string { return tag.Get("struct") }

func typeTokU(t reflect.Type, ignoreName bool) string {
	if !ignoreName && t.PkgPath() != "" && t.Name() != "" && t.Kind() != reflect.Struct {
		return "N " + typeTokU(t, true)
	}
	if k, ok := kindTok[t.Kind()]; ok {
		return k
	}
	switch t.Kind() {
	case reflect.Interface:
		if t.NumMethod() == 0 {
			return "any"
		}
		return "X"
	case reflect.Ptr:
		return "P " + typeTok(t.Elem())
	case reflect.Slice:
		return "L " + typeTok(t.Elem())
	case reflect.Array:
		return fmt.Sprintf("A %d %s", t.Len(), typeTok(t.Elem()))
	case reflect.Map:
		if t.Key().Kind() == reflect.String {
			return "M " + typeTok(t.Elem())
		}
		return "MK " + typeTok(t.Elem())
	case reflect.Struct:
		var sb strings.Builder
		fmt.Fprintf(&sb, "S %d", t.NumField())
		for i := 0; i < t.NumField(); i++ {
			f := t.Field(i)
			fmt.Fprintf(&sb, " %s %s %s", hxs(f.Name), hxs(structTag(f.Tag)), typeTok(f.Type))
		}
		return sb.String()
	}
	return "X"
}

func typeTok(t reflect.Type) string { return typeTokU(t, false) }

func valTok(v reflect.Value) string {
	switch v.Kind() {
	case reflect.Bool:
		if v.Bool() {
			return "t"
		}
		return "f"
	case reflect.String:
		return "s:" + hx([]byte(v.String()))
	case reflect.Int8, reflect.Int16, reflect.Int32, reflect.Int64, reflect.Int:
		return strconv.FormatInt(v.Int(), 10)
	case reflect.Uint8, reflect.Uint16, reflect.Uint32, reflect.Uint64, reflect.Uint:
		return strconv.FormatUint(v.Uint(), 10)
	case reflect.Float32:
		return strconv.FormatUint(uint64(math.Float32bits(float32(v.Float()))), 10)
	case reflect.Float64:
		return strconv.FormatUint(math.Float64bits(v.Float()), 10)
	case reflect.Interface:
		if v.IsNil() {
			return "nil"
		}
		return "I " + typeTok(v.Elem().Type()) + " " + valTok(v.Elem())
	case reflect.Ptr:
		if v.IsNil() {
			return "nil"
		}
		return "& " + valTok(v.Elem())
	case reflect.Slice, reflect.Array:
		if v.Kind() == reflect.Slice && v.IsNil() {
			return "nil"
		}
		var sb strings.Builder
		fmt.Fprintf(&sb, "[ %d", v.Len())
		for i := 0; i < v.Len(); i++ {
			sb.WriteString(" " + valTok(v.Index(i)))
		}
		return sb.String()
	case reflect.Map:
		if v.IsNil() {
			return "nil"
		}
		if v.Type().Key().Kind() != reflect.String {
			return fmt.Sprintf("{ 0")
		}
		keys := v.MapKeys()
		sort.Slice(keys, func(i, j int) bool { return keys[i].String() < keys[j].String() })
		var sb strings.Builder
		fmt.Fprintf(&sb, "{ %d", len(keys))
		for _, k := range keys {
			sb.WriteString(" " + hxs(k.String()) + " " + valTok(v.MapIndex(k)))
		}
		return sb.String()
	case reflect.Struct:
		var sb strings.Builder
		fmt.Fprintf(&sb, "( %d", v.NumField())
		for i := 0; i < v.NumField(); i++ {
			sb.WriteString(" " + valTok(v.Field(i)))
		}
		return sb.String()
	}
	return "nil"
}

// ---- parsing the text back (replay) ----
type tokStream struct {
	t []string
	i int
}

func (s *tokStream) next() string {
	if s.i >= len(s.t) {
		panic("token stream exhausted")
	}
	s.i++
	return s.t[s.i-1]
}

func unhxs(t string) string {
	if t == "-" {
		return ""
	}
	return string(unhx(t))
}

func parseType(s *tokStream) reflect.Type {
	t := s.next()
	if p, ok := primTypes[t]; ok {
		return p
	}
	switch t {
	case "any":
		return tAny
	case "X":
		return tChan
	case "P":
		return reflect.PtrTo(parseType(s))
	case "L":
		return reflect.SliceOf(parseType(s))
	case "A":
		n := atoi(s.next())
		return reflect.ArrayOf(n, parseType(s))
	case "M":
		return reflect.MapOf(primTypes["s"], parseType(s))
	case "MK":
		return reflect.MapOf(primTypes["i"], parseType(s))
	case "N":
		start := s.i
		parseType(s)
		tok := "N " + strings.Join(s.t[start:s.i], " ")
		if nt, ok := namedByTok[tok]; ok {
			return nt
		}
		panic("unknown named type " + tok)
	case "S":
		n := atoi(s.next())
		fields := make([]reflect.StructField, n)
		for i := range fields {
			name := unhxs(s.next())
			tag := unhxs(s.next())
			ft := parseType(s)
			fields[i] = mkField(name, tag, ft)
		}
		return reflect.StructOf(fields)
	}
	panic("bad type token " + t)
}

func mkField(name, tag string, ft reflect.Type) reflect.StructField {
	f := reflect.StructField{Name: name, Type: ft}
	if tag != "" {
		f.Tag = reflect.StructTag(`struct:"` + tag + `"`)
	}
	if name[0] < 'A' || name[0] > 'Z' {
		f.PkgPath = "main"
	}
	return f
}

// settable view of a (possibly unexported) field of an addressable struct
func fieldSettable(f reflect.Value) reflect.Value {
	if f.CanSet() {
		return f
	}
	return reflect.NewAt(f.Type(), unsafe.Pointer(f.UnsafeAddr())).Elem()
}

func parseValue(s *tokStream, t reflect.Type) reflect.Value {
	v := reflect.New(t).Elem()
	parseValueInto(s, v)
	return v
}

func parseValueInto(s *tokStream, v reflect.Value) {
	t := v.Type()
	tok := s.next()
	switch t.Kind() {
	case reflect.Bool:
		v.SetBool(tok == "t")
	case reflect.String:
		v.SetString(string(unhx(tok[2:])))
	case reflect.Int8, reflect.Int16, reflect.Int32, reflect.Int64, reflect.Int:
		n, _ := strconv.ParseInt(tok, 10, 64)
		v.SetInt(n)
	case reflect.Uint8, reflect.Uint16, reflect.Uint32, reflect.Uint64, reflect.Uint:
		n, _ := strconv.ParseUint(tok, 10, 64)
		v.SetUint(n)
	case reflect.Float32:
		n, _ := strconv.ParseUint(tok, 10, 64)
		v.SetFloat(float64(math.Float32frombits(uint32(n))))
	case reflect.Float64:
		n, _ := strconv.ParseUint(tok, 10, 64)
		v.SetFloat(math.Float64frombits(n))
	case reflect.Interface:
		if tok == "nil" {
			return
		}
		dt := parseType(s)
		v.Set(parseValue(s, dt))
	case reflect.Ptr:
		if tok == "nil" {
			return
		}
		p := reflect.New(t.Elem())
		parseValueInto(s, p.Elem())
		v.Set(p)
	case reflect.Slice:
		if tok == "nil" {
			return
		}
		n := atoi(s.next())
		sl := reflect.MakeSlice(t, n, n)
		for i := 0; i < n; i++ {
			parseValueInto(s, sl.Index(i))
		}
		v.Set(sl)
	case reflect.Array:
		n := atoi(s.next())
		for i := 0; i < n; i++ {
			parseValueInto(s, v.Index(i))
		}
	case reflect.Map:
		if tok == "nil" {
			return
		}
		n := atoi(s.next())
		m := reflect.MakeMap(t)
		for i := 0; i < n; i++ {
			k := unhxs(s.next())
			e := parseValue(s, t.Elem())
			m.SetMapIndex(reflect.ValueOf(k).Convert(t.Key()), e)
		}
		v.Set(m)
	case reflect.Struct:
		n := atoi(s.next())
		for i := 0; i < n; i++ {
			parseValueInto(s, fieldSettable(v.Field(i)))
		}
	default:
		// unsupported kinds carry "nil"
	}
}

// ---- generators ----
type typeOpts struct {
	depth       int
	unsupported bool // may contain chan / non-string map keys
	tags        bool
}

var genNames = []string{"A", "B", "Cc", "Dd", "Field", "X1", "a", "b", "Zz", "Name", "ID", "aB"}
var tagNames = []string{"", "", "a", "b", "x", "name", "A", " sp ", "-", "cc", "key", "omit", "omitempty", "inline", "squash"}
var tagOptsPool = []string{"", "", "", ",omitempty", ",omit", ",inline", ",squash", ", omitempty", ",omitempty ", ",unknown", ",omitempty,inline", ",omitempty,omit", ",inline,unknown", ",,omitempty"}

func (r *rng) primType() reflect.Type {
	ks := []string{"b", "s", "i8", "i16", "i32", "i64", "i", "u8", "u16", "u32", "u64", "u", "f32", "f64", "s", "i", "b"}
	return primTypes[ks[r.n(len(ks))]]
}

func (r *rng) genType(o typeOpts) reflect.Type {
	if o.depth <= 0 {
		switch r.n(10) {
		case 0:
			return tAny
		case 1:
			return namedTypes[r.n(len(namedTypes)-1)]
		}
		return r.primType()
	}
	sub := o
	sub.depth--
	switch r.n(20) {
	case 0, 1, 2:
		return r.primType()
	case 3:
		return tAny
	case 4, 5:
		return reflect.PtrTo(r.genType(sub))
	case 6, 7:
		return reflect.SliceOf(r.genType(sub))
	case 8:
		return reflect.ArrayOf(r.n(3), r.genType(sub))
	case 9, 10:
		return reflect.MapOf(primTypes["s"], r.genType(sub))
	case 11:
		nt := namedTypes[r.n(len(namedTypes))]
		if nt.Kind() == reflect.Map && nt.Key().Kind() != reflect.String && !o.unsupported {
			return namedTypes[0]
		}
		return nt
	case 12:
		if o.unsupported && r.chance(1, 3) {
			if r.bool() {
				return tChan
			}
			return reflect.MapOf(primTypes["i"], r.primType())
		}
		return r.primType()
	default:
		return r.genStruct(sub)
	}
}

func (r *rng) genTag(ft reflect.Type, o typeOpts) string {
	if !o.tags || r.chance(1, 3) {
		return ""
	}
	name := tagNames[r.n(len(tagNames))]
	opt := tagOptsPool[r.n(len(tagOptsPool))]
	// steer inline towards types where it is meaningful most of the time
	if strings.Contains(opt, "inline") || strings.Contains(opt, "squash") {
		bt := ft
		for bt.Kind() == reflect.Ptr {
			bt = bt.Elem()
		}
		k := bt.Kind()
		if k != reflect.Struct && k != reflect.Map && k != reflect.Interface && !r.chance(1, 6) {
			opt = ""
		}
	}
	return name + opt
}

func (r *rng) genStruct(o typeOpts) reflect.Type {
	n := r.n(5)
	fields := make([]reflect.StructField, 0, n)
	used := map[string]bool{}
	for i := 0; i < n; i++ {
		name := genNames[r.n(len(genNames))]
		if used[name] {
			continue
		}
		used[name] = true
		ft := r.genType(o)
		if r.chance(1, 5) {
			// a field that inline is made for
			sub := o
			if sub.depth > 1 {
				sub.depth = 1
			}
			switch r.n(3) {
			case 0:
				ft = r.genStruct(sub)
			case 1:
				ft = reflect.MapOf(primTypes["s"], r.genType(typeOpts{depth: 0}))
			default:
				ft = tAny
			}
			if r.chance(1, 3) {
				ft = reflect.PtrTo(ft)
			}
		}
		fields = append(fields, mkField(name, r.genTag(ft, o), ft))
	}
	return reflect.StructOf(fields)
}

var gIntPool = []int64{0, 1, -1, 2, 23, 24, 127, 128, -128, -129, 255, 256, 32767, 32768, -32768, -32769, 65535, 65536,
	2147483647, 2147483648, -2147483648, -2147483649, 4294967295, 4294967296, math.MaxInt64, math.MinInt64, 42, 1000000}
var gUintPool = []uint64{0, 1, 2, 127, 128, 255, 256, 65535, 65536, 4294967295, 4294967296, math.MaxInt64, math.MaxInt64 + 1, math.MaxUint64, 7, 300}
var floatPool = []float64{0, math.Copysign(0, -1), 1, -1, 0.5, 1.5, 3.141592653589793, 1e-7, 1e21, 123456789, math.MaxFloat64, math.SmallestNonzeroFloat64, 1e6, 100000, 0.0001,
	9223372036854775808, 1e19, 1.8446744073709550e19, 9223372036854774784, -9223372036854775808, 4294967296, 2147483648, 255, 256, 65535, 65536}
var gStrPool = []string{"", "a", "abc", "key", "hello world", "éè", "日本", "\"q\"", "a\nb", "<&>", "\x00", "\xff\xfe", "k1", "k2", "x"}

func (r *rng) genGoValue(t reflect.Type, depth int) reflect.Value {
	v := reflect.New(t).Elem()
	r.fillValue(v, depth)
	return v
}

func (r *rng) dynType(depth int) reflect.Type {
	o := typeOpts{depth: depth, tags: true}
	if o.depth > 2 {
		o.depth = 2
	}
	switch r.n(8) {
	case 0, 1, 2:
		return r.primType()
	case 3:
		return namedTypes[r.n(len(namedTypes)-1)]
	case 4:
		return reflect.MapOf(primTypes["s"], r.genType(typeOpts{depth: 0}))
	case 5:
		return reflect.SliceOf(r.genType(typeOpts{depth: 0}))
	default:
		t := r.genType(o)
		if t.Kind() == reflect.Interface {
			return r.primType()
		}
		return t
	}
}

func (r *rng) fillValue(v reflect.Value, depth int) {
	t := v.Type()
	switch t.Kind() {
	case reflect.Bool:
		v.SetBool(r.bool())
	case reflect.String:
		v.SetString(gStrPool[r.n(len(gStrPool))])
	case reflect.Int8, reflect.Int16, reflect.Int32, reflect.Int64, reflect.Int:
		x := gIntPool[r.n(len(gIntPool))]
		bits := uint(t.Bits())
		x = x << (64 - bits) >> (64 - bits) // wrap into the type
		v.SetInt(x)
	case reflect.Uint8, reflect.Uint16, reflect.Uint32, reflect.Uint64, reflect.Uint:
		x := gUintPool[r.n(len(gUintPool))]
		bits := uint(t.Bits())
		x = x << (64 - bits) >> (64 - bits)
		v.SetUint(x)
	case reflect.Float32:
		if r.chance(1, 4) {
			v.SetFloat(float64(math.Float32frombits(uint32(r.u64()))))
			if f := v.Float(); math.IsNaN(f) || math.IsInf(f, 0) {
				v.SetFloat(1.25)
			}
		} else {
			v.SetFloat(float64(float32(floatPool[r.n(len(floatPool))])))
			if math.IsInf(v.Float(), 0) {
				v.SetFloat(2.5)
			}
		}
	case reflect.Float64:
		if r.chance(1, 4) {
			f := math.Float64frombits(r.u64())
			if math.IsNaN(f) || math.IsInf(f, 0) {
				f = 1.25
			}
			v.SetFloat(f)
		} else {
			v.SetFloat(floatPool[r.n(len(floatPool))])
		}
	case reflect.Interface:
		if t.NumMethod() != 0 || r.chance(1, 4) || depth <= 0 && r.chance(1, 2) {
			return
		}
		if depth > 0 && r.chance(1, 12) {
			// a deep chain of single-member objects / single-element arrays inside the
			// interface{} region (its scratch buffers grow at depth 5)
			var x interface{} = gStrPool[r.n(len(gStrPool))]
			for d := 5 + r.n(5); d > 0; d-- {
				if r.chance(1, 4) {
					x = []interface{}{x}
				} else {
					x = map[string]interface{}{"k": x}
				}
			}
			v.Set(reflect.ValueOf(x))
			return
		}
		dt := r.dynType(depth - 1)
		v.Set(r.genGoValue(dt, depth-1))
	case reflect.Ptr:
		if r.chance(1, 3) {
			return
		}
		p := reflect.New(t.Elem())
		r.fillValue(p.Elem(), depth-1)
		v.Set(p)
	case reflect.Slice:
		if r.chance(1, 5) {
			return
		}
		n := []int{0, 0, 1, 1, 2, 3}[r.n(6)]
		sl := reflect.MakeSlice(t, n, n+r.n(2))
		for i := 0; i < n; i++ {
			r.fillValue(sl.Index(i), depth-1)
		}
		v.Set(sl)
	case reflect.Array:
		for i := 0; i < v.Len(); i++ {
			r.fillValue(v.Index(i), depth-1)
		}
	case reflect.Map:
		if r.chance(1, 5) {
			return
		}
		m := reflect.MakeMap(t)
		if t.Key().Kind() == reflect.String {
			n := []int{0, 1, 1, 1, 1, 2, 3}[r.n(7)]
			for i := 0; i < n; i++ {
				k := gStrPool[1+r.n(len(gStrPool)-1)]
				if r.chance(1, 8) {
					k = ""
				}
				m.SetMapIndex(reflect.ValueOf(k).Convert(t.Key()), r.genGoValue(t.Elem(), depth-1))
			}
		}
		v.Set(m)
	case reflect.Struct:
		for i := 0; i < v.NumField(); i++ {
			r.fillValue(fieldSettable(v.Field(i)), depth-1)
		}
	}
}

// does the value contain a map with more than one entry (iteration order then is random)?
func hasMultiMap(v reflect.Value) bool {
	switch v.Kind() {
	case reflect.Interface, reflect.Ptr:
		return !v.IsNil() && hasMultiMap(v.Elem())
	case reflect.Slice, reflect.Array:
		for i := 0; i < v.Len(); i++ {
			if hasMultiMap(v.Index(i)) {
				return true
			}
		}
	case reflect.Map:
		if v.Len() > 1 {
			return true
		}
		for _, k := range v.MapKeys() {
			if hasMultiMap(v.MapIndex(k)) {
				return true
			}
		}
	case reflect.Struct:
		for i := 0; i < v.NumField(); i++ {
			if hasMultiMap(v.Field(i)) {
				return true
			}
		}
	}
	return false
}

// a value that can be handed to gotype as interface{}: structs with unexported fields
// cannot go through Interface() when obtained from a field, top-level values can.
func ifaceOf(v reflect.Value) interface{} {
	return v.Interface()
}
