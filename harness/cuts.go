package main

import (
	"fmt"
	"os"
	"strconv"
	"strings"
)

// =================== C02: every cut set of a short document ===================
// cuts<fmt> \t <maxlen> <dochex> \t WHOLE <EV .. R ..> ALL <n> | DIFF <mode> <mask> <EV .. R ..>
// The document is parsed in one piece (Parse) and then once per subset of its cut
// positions, as Write*+end and through a scripted reader (ParseReader); the first run whose
// events or verdict differ from the whole-buffer run is reported.
func cutChunks(doc []byte, mask int) [][]byte {
	var cs [][]byte
	start := 0
	for i := 1; i < len(doc); i++ {
		if mask&(1<<uint(i-1)) != 0 {
			cs = append(cs, doc[start:i:i])
			start = i
		}
	}
	cs = append(cs, doc[start:len(doc):len(doc)])
	return cs
}

// for rejected documents only the verdict counts (the property compares accept/reject there)
func cutObs(obs string) string {
	obs = stripDepth(obs)
	if i := strings.LastIndex(obs, " R "); i >= 0 && !strings.HasSuffix(obs, " R ok") {
		v := obs[i+3:]
		if v != "PANIC" && v != "HANG" {
			v = "err"
		}
		return "EV . R " + v
	}
	return obs
}

func (f *format) cutsRun(doc []byte) string {
	whole := cutObs(f.parseRun("P", -1, [][]byte{doc}))
	n := 0
	if strings.HasSuffix(whole, "HANG") || strings.HasSuffix(whole, "PANIC") {
		return fmt.Sprintf("WHOLE %s ALL 0", whole)
	}
	if len(doc) > 0 {
		masks := 1 << uint(len(doc)-1)
		for m := 0; m < masks; m++ {
			cs := cutChunks(doc, m)
			for _, mode := range []string{"W", "R"} {
				if mode == "R" && m%3 != 0 && len(doc) > 6 {
					continue
				}
				o := cutObs(f.parseRun(mode, -1, cs))
				n++
				if o != whole {
					return fmt.Sprintf("WHOLE %s DIFF %s %d %s", whole, mode, m, o)
				}
			}
		}
		// empty writes at every position of the byte-at-a-time chunking
		var cs [][]byte
		for i := range doc {
			cs = append(cs, doc[i:i:i], doc[i:i+1:i+1])
		}
		cs = append(cs, doc[len(doc):])
		o := cutObs(f.parseRun("W", -1, cs))
		n++
		if o != whole {
			return fmt.Sprintf("WHOLE %s DIFF E 0 %s", whole, o)
		}
	}
	return fmt.Sprintf("WHOLE %s ALL %d", whole, n)
}

func (f *format) cutsCase(r *rng, maxlen int) string {
	var doc []byte
	for tries := 0; tries < 50; tries++ {
		if r.chance(3, 4) {
			doc = f.genItem(r)
		} else {
			doc = f.genDoc(r)
		}
		if len(doc) <= maxlen {
			break
		}
		doc = doc[:maxlen]
		if r.bool() {
			break // a truncated document is a fine subject too
		}
	}
	if len(doc) > maxlen {
		doc = doc[:maxlen]
	}
	return fmt.Sprintf("cuts%s\t%d %s\t%s", f.name, maxlen, hx(doc), f.cutsRun(doc))
}

func (f *format) cutsReplay(input string) string {
	fl := strings.Fields(input)
	return f.cutsRun(unhx(fl[1]))
}

// =================== C02: every single cut (and byte-at-a-time) of a longer document ===================
// scut<fmt> \t <dochex> \t WHOLE <obs> ALL <n> | DIFF <mode> <position> <obs>
func (f *format) scutRun(doc []byte) string {
	whole := cutObs(f.parseRun("P", -1, [][]byte{doc}))
	if strings.HasSuffix(whole, "HANG") || strings.HasSuffix(whole, "PANIC") {
		return fmt.Sprintf("WHOLE %s ALL 0", whole)
	}
	n := 0
	for i := 1; i < len(doc); i++ {
		o := cutObs(f.parseRun("W", -1, [][]byte{doc[:i:i], doc[i:len(doc):len(doc)]}))
		n++
		if o != whole {
			return fmt.Sprintf("WHOLE %s DIFF W %d %s", whole, i, o)
		}
	}
	if len(doc) > 0 {
		var cs [][]byte
		for i := range doc {
			cs = append(cs, doc[i:i+1:i+1])
		}
		for _, mode := range []string{"W", "R"} {
			o := cutObs(f.parseRun(mode, -1, cs))
			n++
			if o != whole {
				return fmt.Sprintf("WHOLE %s DIFF %s 0 %s", whole, mode, o)
			}
		}
	}
	return fmt.Sprintf("WHOLE %s ALL %d", whole, n)
}

func (f *format) scutCase(r *rng) string {
	var doc []byte
	for tries := 0; tries < 20; tries++ {
		if r.chance(4, 5) {
			doc = f.genItem(r)
		} else {
			doc = f.genDoc(r)
		}
		if len(doc) <= 700 {
			break
		}
		doc = doc[:700]
	}
	return fmt.Sprintf("scut%s\t%s\t%s", f.name, hx(doc), f.scutRun(doc))
}

func init() {
	for _, n := range fmtNames {
		n := n
		kinds["scut"+n] = kindT{
			func(r *rng) string { return formats[n].scutCase(r) },
			func(s string) string { return formats[n].scutRun(unhx(strings.Fields(s)[0])) }}
		kinds["cuts"+n] = kindT{
			func(r *rng) string {
				max := 9
				if cutsMax > 0 {
					max = cutsMax
				}
				return formats[n].cutsCase(r, max)
			},
			func(s string) string { return formats[n].cutsReplay(s) }}
	}
}

var cutsMax = 0

func init() {
	if v, err := strconv.Atoi(os.Getenv("VERIF_CUTSMAX")); err == nil && v > 0 && v <= 14 {
		cutsMax = v
	}
}
