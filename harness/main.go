package main

import (
	"bufio"
	"fmt"
	"os"
	"strconv"
	"strings"
	"syscall"
)

// sfharness gen <kind> <seed> <count>   -> one line per case: kind \t input \t impl observation
// sfharness replay                      -> stdin: kind \t input [\t ...] ; re-runs the implementation
type kindT struct {
	gen    func(r *rng) string
	replay func(input string) string
}

var kinds = map[string]kindT{}

func init() {
	kinds["lru"] = kindT{lruCase, lruReplay}
}

// genOrdinal numbers the cases of a run across its shards (shard seeds are consecutive): kinds that
// sweep a small domain systematically take their position from it
var genOrdinal uint64

func main() {
	if len(os.Args) < 2 {
		fmt.Fprintln(os.Stderr, "usage: sfharness gen|replay ...")
		os.Exit(2)
	}
	out := bufio.NewWriterSize(os.Stdout, 1<<20)
	defer out.Flush()
	switch os.Args[1] {
	case "gen":
		kind := os.Args[2]
		seed, _ := strconv.ParseUint(os.Args[3], 10, 64)
		count, _ := strconv.Atoi(os.Args[4])
		k, ok := kinds[kind]
		if !ok {
			fmt.Fprintln(os.Stderr, "unknown kind", kind)
			os.Exit(2)
		}
		start := 0
		if len(os.Args) > 5 {
			start, _ = strconv.Atoi(os.Args[5])
		}
		for i := start; i < count; i++ {
			r := newRng(seed*1000003 + uint64(i))
			genOrdinal = seed*uint64(count) + uint64(i)
			line := k.gen(r)
			fmt.Fprintln(out, line)
			if hungGoroutines > 0 {
				// a goroutine of the implementation is spinning: continue in a fresh process image
				out.Flush()
				args := []string{os.Args[0], "gen", kind, os.Args[3], os.Args[4], strconv.Itoa(i + 1)}
				if err := syscall.Exec(os.Args[0], args, os.Environ()); err != nil {
					fmt.Fprintln(os.Stderr, "re-exec failed:", err)
					os.Exit(3)
				}
			}
		}
	case "race":
		seed, _ := strconv.ParseUint(os.Args[2], 10, 64)
		rounds, _ := strconv.Atoi(os.Args[3])
		workers, _ := strconv.Atoi(os.Args[4])
		out.Flush()
		rc := raceMain(seed, rounds, workers)
		os.Exit(rc)
	case "replay":
		sc := bufio.NewScanner(os.Stdin)
		sc.Buffer(make([]byte, 1<<20), 1<<26)
		for sc.Scan() {
			parts := strings.Split(sc.Text(), "\t")
			if len(parts) < 2 {
				continue
			}
			k, ok := kinds[parts[0]]
			if !ok {
				continue
			}
			fmt.Fprintf(out, "%s\t%s\t%s\n", parts[0], parts[1], k.replay(parts[1]))
		}
	default:
		fmt.Fprintln(os.Stderr, "unknown command")
		os.Exit(2)
	}
}
