package main

import (
	"bytes"
	"fmt"
	"reflect"
	"sync"

	structform "github.com/elastic/go-structform"

	"github.com/elastic/go-structform/cborl"
	"github.com/elastic/go-structform/gotype"
	"github.com/elastic/go-structform/json"
	"github.com/elastic/go-structform/ubjson"
)

// =================== C19: independent instances on concurrent goroutines ===================
// sfharness race <seed> <rounds> <goroutines>
// Every round: a fresh set of (type, value) pairs - the Go types are created in this round, so
// their folders and unfolders are compiled for the first time inside the goroutines - is
// pushed by every goroutine through its own pipelines (Fold -> encoder -> parser -> Unfolder,
// all three formats, plus direct Fold -> Unfolder) on its own instances; the inputs (values,
// types) are shared and read-only.  Each goroutine's results must equal the results of the
// same pipelines run alone afterwards.
// Built with -race the race detector reports any conflicting access.
type raceItem struct {
	t reflect.Type
	v reflect.Value
}

// option values and user folders / unfolders: created once, handed to every goroutine
// (they are inputs, like the values; each goroutine still builds its own instances from them)
type raceA struct{ S string }
type raceB struct{ S string }
type raceOptTarget struct {
	A raceA
	B raceB
	C string
}

var (
	raceOptA   = gotype.Unfolders(func(to *raceA, s string) error { to.S = "A:" + s; return nil })
	raceOptB   = gotype.Unfolders(func(to *raceB, s string) error { to.S = "B:" + s; return nil })
	raceFoldO  = gotype.Folders(func(v *raceA, vis structform.ExtVisitor) error { return vis.OnString("F:" + v.S) })
	raceFoldO2 = gotype.Folders(func(v *raceB, vis structform.ExtVisitor) error { return vis.OnString("G:" + v.S) })
)

var raceSharedInner = []interface{}{1, "two", []interface{}{3.5, nil}}
var raceSharedList = []interface{}{raceSharedInner, map[string]interface{}{"k": raceSharedInner}, raceSharedInner, []int{1, 2}}
var raceSharedMap = map[string]map[string]interface{}{
	"a": {"h": raceA{"x"}},
	"b": {"s": raceOptTarget{C: "y"}},
}

// raceOptions: instances configured through options and setters, on the goroutine's own instances
func raceOptions(w int) []string {
	var out []string
	doc := map[string]interface{}{"a": "1", "b": "2", "c": "<3&>"}
	run := func(name string, opts ...gotype.UnfoldOption) {
		var t raceOptTarget
		res := ""
		func() {
			defer func() {
				if r := recover(); r != nil {
					res = fmt.Sprint("PANIC ", r)
				}
			}()
			u, err := gotype.NewUnfolder(&t, opts...)
			if err != nil {
				res = "SETUPERR"
				return
			}
			if err := gotype.Fold(doc, u); err != nil {
				res = "ERR"
				return
			}
			res = fmt.Sprintf("%+v", t)
		}()
		out = append(out, name+":"+res)
	}
	run("optA+optB", raceOptA, raceOptB)
	run("optA", raceOptA)
	run("optB+optA", raceOptB, raceOptA)
	run("none")
	// numbers that need the high-precision form, and key caches on map targets
	{
		var ub bytes.Buffer
		err := gotype.Fold([]uint64{1<<63 + uint64(w), 18446744073709551615 - uint64(w), 7}, ubjson.NewVisitor(&ub))
		out = append(out, fmt.Sprintf("ubjH:%v:%s", err, hx(ub.Bytes())))
		var m map[string]string
		res := ""
		if u, err := gotype.NewUnfolder(&m); err != nil {
			res = "SETUPERR"
		} else {
			u.EnableKeyCache(4)
			doc := fmt.Sprintf(`[{"field-%02d":"v%d","k":"w"},{"field-%02d":"x","k":"y"}]`, w, w, w)
			var ms []map[string]string
			u.SetTarget(&ms)
			if err := json.Parse([]byte(doc), u); err != nil {
				res = "ERR"
			} else {
				res = fmt.Sprintf("%d %s %s %s", len(ms), ms[0][fmt.Sprintf("field-%02d", w)], ms[1]["k"], ms[1][fmt.Sprintf("field-%02d", w)])
			}
		}
		out = append(out, "keycache:"+res)
	}
	// stateful and processing user unfolders behind shared option values; the processed values sit at
	// different depths from goroutine to goroutine, several values per document
	{
		docP := map[string]interface{}{"name": fmt.Sprintf("w%d", w), "quota": w + 1}
		var res string
		func() {
			defer func() {
				if r := recover(); r != nil {
					res = fmt.Sprint("PANIC ", r)
				}
			}()
			var err error
			var u *gotype.Unfolder
			switch w % 3 {
			case 0:
				var t uuP
				if u, err = gotype.NewUnfolder(&t, uuOptP, uuOptO, uuOptI, uuOptKV); err == nil {
					err = gotype.Fold(docP, u)
				}
				res = fmt.Sprintf("%v %+v", err, t)
			case 1:
				var t []uuOuter
				if u, err = gotype.NewUnfolder(&t, uuOptP, uuOptO, uuOptI, uuOptKV); err == nil {
					err = gotype.Fold([]map[string]interface{}{{"tag": "a", "in": docP}, {"tag": "b", "in": docP}, {"tag": "c", "in": docP}}, u)
				}
				res = fmt.Sprintf("%v %+v", err, t)
			default:
				var t struct {
					L []struct{ P *uuP }
					I []uuI
					K uuKV
				}
				if u, err = gotype.NewUnfolder(&t, uuOptP, uuOptO, uuOptI, uuOptKV); err == nil {
					err = gotype.Fold(map[string]interface{}{
						"l": []map[string]interface{}{{"p": docP}, {"p": docP}},
						"i": []int{w, -w, 3},
						"k": map[string]int{"only": w},
					}, u)
				}
				res = fmt.Sprintf("%v", err)
				for _, e := range t.L {
					if e.P != nil {
						res += fmt.Sprintf(" %+v", *e.P)
					} else {
						res += " nil"
					}
				}
				res += fmt.Sprintf(" %+v %+v", t.I, t.K)
			}
		}()
		out = append(out, "userproc:"+res)
	}
	// every goroutine folds the SAME read-only generic values (a []interface{} that contains
	// slices and maps, a map holding structs of two types) with its own iterator and encoder
	{
		var res string
		func() {
			defer func() {
				if r := recover(); r != nil {
					res = fmt.Sprint("PANIC ", r)
				}
			}()
			var buf bytes.Buffer
			it, err := gotype.NewIterator(json.NewVisitor(&buf))
			if err != nil {
				res = "SETUPERR"
				return
			}
			for i := 0; i < 20; i++ {
				if err := it.Fold(raceSharedList); err != nil {
					res = "ERR " + err.Error()
					return
				}
				buf.WriteString("|")
				if err := it.Fold(raceSharedMap["a"]); err != nil {
					res = "ERR " + err.Error()
					return
				}
				if err := it.Fold(raceSharedMap["b"]); err != nil {
					res = "ERR " + err.Error()
					return
				}
				if i == 0 {
					res = buf.String()
				}
				buf.Reset()
			}
		}()
		out = append(out, "shared:"+res)
	}
	// recycled Unfolders (Reset, then SetTarget) building containers nested in interface{} positions
	{
		var res string
		func() {
			defer func() {
				if r := recover(); r != nil {
					res = fmt.Sprint("PANIC ", r)
				}
			}()
			var first, v interface{}
			u, err := gotype.NewUnfolder(&first)
			if err != nil {
				res = "SETUPERR"
				return
			}
			for round := 0; round < 3; round++ {
				u.Reset()
				v = nil
				if err := u.SetTarget(&v); err != nil {
					res = "SETUPERR"
					return
				}
				doc := fmt.Sprintf(`{"w":[%d,[%d,{"x":[%d],"y":{"z":"s%d"}}],{"a":%d}],"m":{"k":%d}}`, w, w+1, w+2, w, w+3, w+4+round)
				if err := json.Parse([]byte(doc), u); err != nil {
					res = "ERR"
					return
				}
			}
			var buf bytes.Buffer
			if err := gotype.Fold(v, json.NewVisitor(&buf)); err != nil {
				res = "FOLDERR"
				return
			}
			m := v.(map[string]interface{})
			res = fmt.Sprintf("%v %v", m["w"], m["m"])
		}()
		out = append(out, "recycled:"+res)
	}
	// JSON encoder settings differ from goroutine to goroutine
	for _, html := range []bool{w%2 == 0, w%3 == 0} {
		var buf bytes.Buffer
		vs := json.NewVisitor(&buf)
		vs.SetEscapeHTML(html)
		vs.SetIgnoreInvalidFloat(w%2 == 1)
		vs.SetExplicitRadixPoint(w%4 < 2)
		var it *gotype.Iterator
		var err error
		if html {
			it, err = gotype.NewIterator(vs, raceFoldO, raceFoldO2)
		} else {
			it, err = gotype.NewIterator(vs, raceFoldO)
		}
		res := ""
		if err != nil {
			res = "SETUPERR"
		} else if err := it.Fold(struct {
			T *raceA
			V raceA
			W raceB
			S string
			F float64
		}{&raceA{"<p>"}, raceA{"&q"}, raceB{"w"}, "a<b>&c", 2}); err != nil {
			res = "ERR"
		} else {
			res = buf.String()
		}
		out = append(out, fmt.Sprintf("json(html=%v):%s", html, res))
	}
	return out
}

func racePipeline(items []raceItem, w int) []string {
	out := raceOptions(w)
	for _, item := range items {
		iv := item.v.Interface()
		for _, route := range []string{"direct", "json", "ubj", "cbor"} {
			target := reflect.New(item.t)
			u, err := gotype.NewUnfolder(target.Interface())
			if err != nil {
				out = append(out, route+":SETUPERR")
				continue
			}
			res := ""
			func() {
				defer func() {
					if r := recover(); r != nil {
						res = fmt.Sprint("PANIC ", r)
					}
				}()
				switch route {
				case "direct":
					if err := gotype.Fold(iv, u); err != nil {
						res = "ERR"
						return
					}
				default:
					var buf bytes.Buffer
					switch route {
					case "json":
						err = gotype.Fold(iv, json.NewVisitor(&buf))
					case "ubj":
						err = gotype.Fold(iv, ubjson.NewVisitor(&buf))
					case "cbor":
						err = gotype.Fold(iv, cborl.NewVisitor(&buf))
					}
					if err != nil {
						res = "FOLDERR"
						return
					}
					switch route {
					case "json":
						err = json.Parse(buf.Bytes(), u)
					case "ubj":
						err = ubjson.Parse(buf.Bytes(), u)
					case "cbor":
						err = cborl.Parse(buf.Bytes(), u)
					}
					if err != nil {
						res = "ERR " + hx(buf.Bytes())
						return
					}
					res = hx(buf.Bytes()) + " "
				}
				res += valTok(target.Elem())
			}()
			out = append(out, route+":"+res)
		}
	}
	return out
}

func raceMain(seed uint64, rounds, workers int) int {
	bad := 0
	for round := 0; round < rounds; round++ {
		r := newRng(seed*7919 + uint64(round))
		// shared inputs; no value with several map entries (iteration order is random)
		var items []raceItem
		for len(items) < 6 {
			t := r.genType(typeOpts{depth: 1 + r.n(3), tags: true})
			if t.Kind() == reflect.Interface {
				continue
			}
			v := r.genGoValue(t, 3)
			if hasMultiMap(v) {
				continue
			}
			items = append(items, raceItem{t, v})
		}
		results := make([][]string, workers)
		var wg sync.WaitGroup
		start := make(chan struct{})
		for w := 0; w < workers; w++ {
			wg.Add(1)
			go func(w int) {
				defer wg.Done()
				<-start
				results[w] = racePipeline(items, w)
			}(w)
		}
		close(start)
		wg.Wait()
		// the expected results: the same pipelines run alone, AFTER the concurrent phase, so that the
		// first use of every type (compilation of its folder / unfolder) happens inside the goroutines
		for w := 0; w < workers; w++ {
			want := racePipeline(items, w)
			if len(results[w]) != len(want) {
				fmt.Printf("MISMATCH round=%d worker=%d: %d results, expected %d\n", round, w, len(results[w]), len(want))
				bad++
				continue
			}
			for i := range want {
				if results[w][i] != want[i] {
					fmt.Printf("MISMATCH round=%d worker=%d item=%d type=%s got=%s want=%s\n", round, w, i/4, typeTok(items[i/4].t), results[w][i], want[i])
					bad++
					break
				}
			}
		}
	}
	fmt.Printf("RACE-DONE rounds=%d workers=%d pipelines=%d mismatches=%d\n", rounds, workers, rounds*workers*6*4, bad)
	if bad > 0 {
		return 1
	}
	return 0
}
