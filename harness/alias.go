package main

import (
	"fmt"
	"runtime"
	"sort"
	"strings"

	structform "github.com/elastic/go-structform"
	"github.com/elastic/go-structform/gotype"
)

// =================== C15: stored values never alias transient buffers ===================
// alias \t <fmt> <gcEvery> <cache> | chunks of document 1 | chunks of document 2 \t A ok | A <what changed> | PANIC | HANG
//
// Document 1 is parsed (Write* + end) into (a) an Unfolder with an interface{} target and
// (b) a recorder that keeps every string / key it was handed BY VALUE without copying it.
// Then every chunk buffer is overwritten, document 2 goes through the same parser and
// unfolder (reusing their internal buffers), a garbage collection runs, and the value
// unfolded from document 1 and the by-value strings must be what they were.  A GC is forced
// every gcEvery events (0 = never).

type aliasRecorder struct {
	kept   []string // as delivered, not copied
	clones []string // copied at delivery time
	n      int
	gc     int
}

func (a *aliasRecorder) tick() error {
	a.n++
	if a.gc > 0 && a.n%a.gc == 0 {
		runtime.GC()
	}
	return nil
}
func (a *aliasRecorder) keep(s string) error {
	a.kept = append(a.kept, s)
	a.clones = append(a.clones, strings.Clone(s))
	return a.tick()
}
func (a *aliasRecorder) OnObjectStart(int, structform.BaseType) error { return a.tick() }
func (a *aliasRecorder) OnObjectFinished() error                      { return a.tick() }
func (a *aliasRecorder) OnKey(s string) error                         { return a.keep(s) }
func (a *aliasRecorder) OnArrayStart(int, structform.BaseType) error  { return a.tick() }
func (a *aliasRecorder) OnArrayFinished() error                       { return a.tick() }
func (a *aliasRecorder) OnNil() error                                 { return a.tick() }
func (a *aliasRecorder) OnBool(bool) error                            { return a.tick() }
func (a *aliasRecorder) OnString(s string) error                      { return a.keep(s) }
func (a *aliasRecorder) OnInt8(int8) error                            { return a.tick() }
func (a *aliasRecorder) OnInt16(int16) error                          { return a.tick() }
func (a *aliasRecorder) OnInt32(int32) error                          { return a.tick() }
func (a *aliasRecorder) OnInt64(int64) error                          { return a.tick() }
func (a *aliasRecorder) OnInt(int) error                              { return a.tick() }
func (a *aliasRecorder) OnByte(byte) error                            { return a.tick() }
func (a *aliasRecorder) OnUint8(uint8) error                          { return a.tick() }
func (a *aliasRecorder) OnUint16(uint16) error                        { return a.tick() }
func (a *aliasRecorder) OnUint32(uint32) error                        { return a.tick() }
func (a *aliasRecorder) OnUint64(uint64) error                        { return a.tick() }
func (a *aliasRecorder) OnUint(uint) error                            { return a.tick() }
func (a *aliasRecorder) OnFloat32(float32) error                      { return a.tick() }
func (a *aliasRecorder) OnFloat64(float64) error                      { return a.tick() }
func (a *aliasRecorder) OnStringRef([]byte) error                     { return a.tick() } // may alias by contract
func (a *aliasRecorder) OnKeyRef([]byte) error                        { return a.tick() }

// gcVisitor forwards to an ExtVisitor and forces a GC every n events
type gcVisitor struct {
	structform.ExtVisitor
	n, every int
}

func (g *gcVisitor) t() {
	g.n++
	if g.every > 0 && g.n%g.every == 0 {
		runtime.GC()
	}
}
func (g *gcVisitor) OnObjectStart(l int, b structform.BaseType) error {
	g.t()
	return g.ExtVisitor.OnObjectStart(l, b)
}
func (g *gcVisitor) OnObjectFinished() error { g.t(); return g.ExtVisitor.OnObjectFinished() }
func (g *gcVisitor) OnKey(s string) error    { g.t(); return g.ExtVisitor.OnKey(s) }
func (g *gcVisitor) OnKeyRef(s []byte) error { g.t(); return g.ExtVisitor.OnKeyRef(s) }
func (g *gcVisitor) OnArrayStart(l int, b structform.BaseType) error {
	g.t()
	return g.ExtVisitor.OnArrayStart(l, b)
}
func (g *gcVisitor) OnArrayFinished() error     { g.t(); return g.ExtVisitor.OnArrayFinished() }
func (g *gcVisitor) OnString(s string) error    { g.t(); return g.ExtVisitor.OnString(s) }
func (g *gcVisitor) OnStringRef(s []byte) error { g.t(); return g.ExtVisitor.OnStringRef(s) }

func ownChunks(cs [][]byte) [][]byte {
	out := make([][]byte, len(cs))
	for i, c := range cs {
		out[i] = append(make([]byte, 0, len(c)), c...)
	}
	return out
}

func scribble(cs [][]byte) {
	for _, c := range cs {
		for i := range c {
			c[i] = 0xAA
		}
	}
}

// targets: 0 interface{}; 1 map[string][]interface{}; 2 map[string]map[string]interface{};
// 3 map[string]*string; 4 []string  (reflection-based map / slice unfolders and their keys);
// 5, 6 structs with an inlined map for the members that have no field
func aliasTargets(kind int) (interface{}, interface{}, func() string) {
	switch kind {
	case 1:
		var a, b map[string][]interface{}
		return &a, &b, func() string { return fmt.Sprintf("%#v", a) }
	case 2:
		var a, b map[string]map[string]interface{}
		return &a, &b, func() string { return fmt.Sprintf("%#v", a) }
	case 3:
		var a, b map[string]*string
		return &a, &b, func() string {
			var sb strings.Builder
			keys := make([]string, 0, len(a))
			for k := range a {
				keys = append(keys, k)
			}
			sort.Strings(keys)
			for _, k := range keys {
				if a[k] == nil {
					fmt.Fprintf(&sb, "%q:nil ", k)
				} else {
					fmt.Fprintf(&sb, "%q:%q ", k, *a[k])
				}
			}
			return sb.String()
		}
	case 4:
		var a, b []string
		return &a, &b, func() string { return fmt.Sprintf("%#v", a) }
	case 5:
		// a struct that collects unknown members in an inlined map (refused by the library as it
		// stands: the case then says nothing; kept for the day it is accepted)
		type rest struct {
			K0   string
			Rest map[string]interface{} `struct:",inline"`
		}
		var a, b rest
		return &a, &b, func() string { return fmt.Sprintf("%#v", a) }
	case 6:
		type rest struct {
			K0   string
			Rest map[string]string `struct:",inline"`
		}
		var a, b rest
		return &a, &b, func() string { return fmt.Sprintf("%#v", a) }
	}
	var a, b interface{}
	return &a, &b, func() string { return valTokAny(a) }
}

func aliasRun(f *format, gcEvery, cache, tkind int, doc1, doc2 [][]byte) string {
	res := "A ok"
	o := guard(2*guardTime, func() {
		// (a) unfolder
		c1, c2 := ownChunks(doc1), ownChunks(doc2)
		pt1, pt2, show := aliasTargets(tkind)
		u, uerr := gotype.NewUnfolder(pt1)
		if uerr != nil {
			return // the target type is not supported: nothing to observe
		}
		if cache >= 0 {
			u.EnableKeyCache(cache)
		}
		gv := &gcVisitor{ExtVisitor: structform.EnsureExtVisitor(u), every: gcEvery}
		p := f.newParser(gv)
		feed := func(cs [][]byte) error {
			for _, c := range cs {
				if _, err := p.Write(c); err != nil {
					return err
				}
			}
			return p.VerifFinalize()
		}
		if err := feed(c1); err != nil {
			res = "A ok" // document 1 is not accepted: nothing stored to compare
			return
		}
		before := show()
		scribble(c1)
		u.SetTarget(pt2)
		if feed(c2) == nil {
			scribble(c2)
		}
		runtime.GC()
		if after := show(); after != before {
			res = "A unfolded value changed: " + strings.ReplaceAll(before, " ", "_") + " -> " + strings.ReplaceAll(after, " ", "_")
			return
		}
		// (b) by-value deliveries of the parser itself
		c1, c2 = ownChunks(doc1), ownChunks(doc2)
		rec := &aliasRecorder{gc: gcEvery}
		p = f.newParser(rec)
		if feed(c1) != nil {
			return
		}
		scribble(c1)
		if feed(c2) == nil {
			scribble(c2)
		}
		runtime.GC()
		for i := range rec.kept {
			if rec.kept[i] != rec.clones[i] {
				res = fmt.Sprintf("A string delivered by value changed: %s -> %s", hx([]byte(rec.clones[i])), hx([]byte(rec.kept[i])))
				return
			}
		}
	})
	if o.panicked || o.hung {
		return verdictTok(o, nil)
	}
	return res
}

func valTokAny(v interface{}) string {
	if v == nil {
		return "nil"
	}
	return fmt.Sprintf("%#v", v)
}

func aliasCase(r *rng) string {
	f := formats[fmtNames[r.n(3)]]
	var gen func() [][]byte
	gen = func() [][]byte {
		doc := f.genItem(r)
		if r.chance(1, 3) {
			// string-heavy documents: long strings and keys cross chunk boundaries
			evs := []event{{kind: evObjStart, n: -1}}
			for i := 0; i < 1+r.n(4); i++ {
				evs = append(evs, event{kind: evKey, s: []byte(strings.Repeat("k", r.n(70)) + fmt.Sprint(i))})
				evs = append(evs, event{kind: evStr, sc: scalar{kind: evStr, s: []byte(strings.Repeat("v\\n", r.n(50)) + "é" + fmt.Sprint(i))}})
			}
			evs = append(evs, event{kind: evObjEnd})
			w := &recWriter{failAt: -1}
			vs, _ := f.newVisitor(w, 0)
			if _, err := play(structform.EnsureExtVisitor(vs), evs); err == nil {
				doc = w.bytes()
			}
		}
		return r.chunking(doc)
	}
	tkind := 0
	if r.chance(1, 2) {
		tkind = 1 + r.n(6)
		shaped := func() [][]byte {
			str := func(i int) event {
				return event{kind: evStr, sc: scalar{kind: evStr, s: []byte(strings.Repeat("s", r.n(80)) + fmt.Sprint(i))}}
			}
			key := func(i int) event {
				return event{kind: evKey, s: []byte(strings.Repeat("k", r.n(80)) + fmt.Sprint(i))}
			}
			var evs []event
			n := 1 + r.n(4)
			if tkind == 4 {
				evs = append(evs, event{kind: evArrStart, n: -1})
				for i := 0; i < n; i++ {
					evs = append(evs, str(i))
				}
				evs = append(evs, event{kind: evArrEnd})
			} else {
				evs = append(evs, event{kind: evObjStart, n: -1})
				for i := 0; i < n; i++ {
					evs = append(evs, key(i))
					switch tkind {
					case 1:
						evs = append(evs, event{kind: evArrStart, n: -1}, str(i), event{kind: evArrEnd})
					case 2:
						evs = append(evs, event{kind: evObjStart, n: -1}, key(i+10), str(i), event{kind: evObjEnd})
					case 3, 5, 6:
						evs = append(evs, str(i))
					}
				}
				evs = append(evs, event{kind: evObjEnd})
			}
			w := &recWriter{failAt: -1}
			vs, _ := f.newVisitor(w, 0)
			play(structform.EnsureExtVisitor(vs), evs)
			return r.chunking(w.bytes())
		}
		gen = shaped
	}
	d1, d2 := gen(), gen()
	gc := []int{0, 0, 1, 3, 7}[r.n(5)]
	cache := -1
	if r.chance(1, 3) {
		cache = r.n(4)
	}
	return fmt.Sprintf("alias\t%s %d %d %d | %s | %s\t%s", f.name, gc, cache, tkind, chunksTok(d1), chunksTok(d2), aliasRun(f, gc, cache, tkind, d1, d2))
}

func aliasReplay(input string) string {
	parts := strings.SplitN(input, "|", 3)
	h := strings.Fields(parts[0])
	return aliasRun(formats[h[0]], atoi(h[1]), atoi(h[2]), atoi(h[3]), parseChunks(strings.Fields(parts[1])), parseChunks(strings.Fields(parts[2])))
}

func init() {
	kinds["alias"] = kindT{aliasCase, aliasReplay}
}
