package main

import (
	"errors"
	"fmt"
	"math"
	"strconv"
	"strings"

	structform "github.com/elastic/go-structform"
)

// ---- event model (mirrors coq/Core/Events.v) ----
type evKind int

const (
	evNil evKind = iota
	evBool
	evStr
	evStrRef
	evNum
	evArrStart
	evArrEnd
	evObjStart
	evObjEnd
	evKey
	evKeyRef
	evXArr
	evXObj
)

// number kinds, same codes as nkind_code
const (
	kInt8 = iota
	kInt16
	kInt32
	kInt64
	kInt
	kByte
	kUint8
	kUint16
	kUint32
	kUint64
	kUint
	kFloat32
	kFloat64
)

var nkindNames = []string{"i8", "i16", "i32", "i64", "i", "by", "u8", "u16", "u32", "u64", "u", "f32", "f64"}

type scalar struct {
	kind evKind // evNil, evBool, evStr, evNum
	b    bool
	s    []byte
	nk   int
	i    int64  // signed kinds
	u    uint64 // unsigned kinds and float bits
}

type member struct {
	key []byte
	val scalar
}

type event struct {
	kind  evKind
	sc    scalar // evNil/evBool/evStr/evNum
	s     []byte // strref/key/keyref
	n     int    // announced length
	bt    structform.BaseType
	elems []scalar
	mems  []member
}

func isSigned(nk int) bool { return nk <= kInt }

func scalarTok(s scalar) string {
	switch s.kind {
	case evNil:
		return "n"
	case evBool:
		if s.b {
			return "t"
		}
		return "f"
	case evStr:
		return "s:" + hx(s.s)
	case evNum:
		if isSigned(s.nk) {
			return nkindNames[s.nk] + ":" + strconv.FormatInt(s.i, 10)
		}
		return nkindNames[s.nk] + ":" + strconv.FormatUint(s.u, 10)
	}
	panic("bad scalar")
}

func eventTok(e event) string {
	switch e.kind {
	case evNil, evBool, evStr, evNum:
		return scalarTok(e.sc)
	case evStrRef:
		return "S:" + hx(e.s)
	case evKey:
		return "k:" + hx(e.s)
	case evKeyRef:
		return "K:" + hx(e.s)
	case evArrStart:
		return fmt.Sprintf("[:%d:%d", e.n, int(e.bt))
	case evArrEnd:
		return "]"
	case evObjStart:
		return fmt.Sprintf("{:%d:%d", e.n, int(e.bt))
	case evObjEnd:
		return "}"
	case evXArr:
		parts := make([]string, len(e.elems))
		for i, s := range e.elems {
			parts[i] = scalarTok(s)
		}
		return fmt.Sprintf("X[:%d:%s", int(e.bt), strings.Join(parts, ","))
	case evXObj:
		parts := make([]string, len(e.mems))
		for i, m := range e.mems {
			parts[i] = hx(m.key) + "=" + scalarTok(m.val)
		}
		return fmt.Sprintf("X{:%d:%s", int(e.bt), strings.Join(parts, ","))
	}
	panic("bad event")
}

func eventsTok(evs []event) string {
	if len(evs) == 0 {
		return "."
	}
	parts := make([]string, len(evs))
	for i, e := range evs {
		parts[i] = eventTok(e)
	}
	return strings.Join(parts, " ")
}

func parseScalarTok(t string) scalar {
	switch {
	case t == "n":
		return scalar{kind: evNil}
	case t == "t":
		return scalar{kind: evBool, b: true}
	case t == "f":
		return scalar{kind: evBool, b: false}
	case strings.HasPrefix(t, "s:"):
		return scalar{kind: evStr, s: unhx(t[2:])}
	}
	i := strings.IndexByte(t, ':')
	name, val := t[:i], t[i+1:]
	for nk, n := range nkindNames {
		if n == name {
			s := scalar{kind: evNum, nk: nk}
			if isSigned(nk) {
				s.i, _ = strconv.ParseInt(val, 10, 64)
			} else {
				s.u, _ = strconv.ParseUint(val, 10, 64)
			}
			return s
		}
	}
	panic("bad scalar token " + t)
}

func parseEventTok(t string) event {
	switch {
	case t == "]":
		return event{kind: evArrEnd}
	case t == "}":
		return event{kind: evObjEnd}
	case strings.HasPrefix(t, "S:"):
		return event{kind: evStrRef, s: unhx(t[2:])}
	case strings.HasPrefix(t, "k:"):
		return event{kind: evKey, s: unhx(t[2:])}
	case strings.HasPrefix(t, "K:"):
		return event{kind: evKeyRef, s: unhx(t[2:])}
	case strings.HasPrefix(t, "[:"), strings.HasPrefix(t, "{:"):
		f := strings.Split(t[2:], ":")
		n, _ := strconv.Atoi(f[0])
		bt, _ := strconv.Atoi(f[1])
		k := evArrStart
		if t[0] == '{' {
			k = evObjStart
		}
		return event{kind: k, n: n, bt: structform.BaseType(bt)}
	case strings.HasPrefix(t, "X[:"):
		f := strings.SplitN(t[3:], ":", 2)
		bt, _ := strconv.Atoi(f[0])
		e := event{kind: evXArr, bt: structform.BaseType(bt)}
		if f[1] != "" {
			for _, p := range strings.Split(f[1], ",") {
				e.elems = append(e.elems, parseScalarTok(p))
			}
		}
		return e
	case strings.HasPrefix(t, "X{:"):
		f := strings.SplitN(t[3:], ":", 2)
		bt, _ := strconv.Atoi(f[0])
		e := event{kind: evXObj, bt: structform.BaseType(bt)}
		if f[1] != "" {
			for _, p := range strings.Split(f[1], ",") {
				kv := strings.SplitN(p, "=", 2)
				e.mems = append(e.mems, member{unhx(kv[0]), parseScalarTok(kv[1])})
			}
		}
		return e
	}
	sc := parseScalarTok(t)
	return event{kind: sc.kind, sc: sc}
}

func parseEventsTok(s string) []event {
	var evs []event
	for _, t := range strings.Fields(s) {
		if t == "." {
			continue
		}
		evs = append(evs, parseEventTok(t))
	}
	return evs
}

// ---- recording visitor ----
var errInjected = errors.New("injected failure")

type recorder struct {
	evs    []event
	failAt int // -1: never; the failAt-th call (0-based) and all later ones fail
	calls  int
	onCall func() // optional: called on every event (GC forcing, pointer classification)
	// strings and keys handed over BY VALUE, as delivered (not copied) and as copied at delivery
	// time: a Go string is immutable, so the two must still agree when the run is over (C15)
	kept, clones []string
	failErr      error // the injected error (errInjected unless set)
}

func (r *recorder) keep(s string) {
	if len(r.kept) < 2000 {
		r.kept = append(r.kept, s)
		r.clones = append(r.clones, strings.Clone(s))
	}
}

// aliasFlag reports the first by-value string that changed after it was delivered.
func (r *recorder) aliasFlag() string {
	for i := range r.kept {
		if r.kept[i] != r.clones[i] {
			return " ## ALIAS " + hx([]byte(r.clones[i])) + " -> " + hx([]byte(r.kept[i]))
		}
	}
	return ""
}

func newRecorder(failAt int) *recorder { return &recorder{failAt: failAt} }

func (r *recorder) add(e event) error {
	if len(r.evs) < 5000 {
		r.evs = append(r.evs, e)
	}
	r.calls++
	if r.onCall != nil {
		r.onCall()
	}
	if r.failAt >= 0 && r.calls-1 >= r.failAt {
		if r.failErr != nil {
			return r.failErr
		}
		return errInjected
	}
	return nil
}

func numI(nk int, v int64) event {
	return event{kind: evNum, sc: scalar{kind: evNum, nk: nk, i: v}}
}
func numU(nk int, v uint64) event {
	return event{kind: evNum, sc: scalar{kind: evNum, nk: nk, u: v}}
}

func (r *recorder) OnObjectStart(n int, bt structform.BaseType) error {
	return r.add(event{kind: evObjStart, n: n, bt: bt})
}
func (r *recorder) OnObjectFinished() error { return r.add(event{kind: evObjEnd}) }
func (r *recorder) OnKey(s string) error {
	r.keep(s)
	return r.add(event{kind: evKey, s: []byte(s)})
}
func (r *recorder) OnArrayStart(n int, bt structform.BaseType) error {
	return r.add(event{kind: evArrStart, n: n, bt: bt})
}
func (r *recorder) OnArrayFinished() error { return r.add(event{kind: evArrEnd}) }
func (r *recorder) OnNil() error           { return r.add(event{kind: evNil, sc: scalar{kind: evNil}}) }
func (r *recorder) OnBool(b bool) error {
	return r.add(event{kind: evBool, sc: scalar{kind: evBool, b: b}})
}
func (r *recorder) OnString(s string) error {
	r.keep(s)
	return r.add(event{kind: evStr, sc: scalar{kind: evStr, s: []byte(s)}})
}
func (r *recorder) OnInt8(i int8) error     { return r.add(numI(kInt8, int64(i))) }
func (r *recorder) OnInt16(i int16) error   { return r.add(numI(kInt16, int64(i))) }
func (r *recorder) OnInt32(i int32) error   { return r.add(numI(kInt32, int64(i))) }
func (r *recorder) OnInt64(i int64) error   { return r.add(numI(kInt64, i)) }
func (r *recorder) OnInt(i int) error       { return r.add(numI(kInt, int64(i))) }
func (r *recorder) OnByte(b byte) error     { return r.add(numU(kByte, uint64(b))) }
func (r *recorder) OnUint8(u uint8) error   { return r.add(numU(kUint8, uint64(u))) }
func (r *recorder) OnUint16(u uint16) error { return r.add(numU(kUint16, uint64(u))) }
func (r *recorder) OnUint32(u uint32) error { return r.add(numU(kUint32, uint64(u))) }
func (r *recorder) OnUint64(u uint64) error { return r.add(numU(kUint64, u)) }
func (r *recorder) OnUint(u uint) error     { return r.add(numU(kUint, uint64(u))) }
func (r *recorder) OnFloat32(f float32) error {
	return r.add(numU(kFloat32, uint64(math.Float32bits(f))))
}
func (r *recorder) OnFloat64(f float64) error { return r.add(numU(kFloat64, math.Float64bits(f))) }

// refRecorder additionally implements StringRefVisitor (copies the bytes).
type refRecorder struct{ *recorder }

func (r refRecorder) OnStringRef(s []byte) error {
	touchCap(s)
	return r.add(event{kind: evStrRef, s: append([]byte(nil), s...)})
}
func (r refRecorder) OnKeyRef(s []byte) error {
	touchCap(s)
	return r.add(event{kind: evKeyRef, s: append([]byte(nil), s...)})
}

// ---- playing events into a visitor ----
func playScalar(v structform.Visitor, s scalar) error {
	switch s.kind {
	case evNil:
		return v.OnNil()
	case evBool:
		return v.OnBool(s.b)
	case evStr:
		return v.OnString(string(s.s))
	case evNum:
		switch s.nk {
		case kInt8:
			return v.OnInt8(int8(s.i))
		case kInt16:
			return v.OnInt16(int16(s.i))
		case kInt32:
			return v.OnInt32(int32(s.i))
		case kInt64:
			return v.OnInt64(s.i)
		case kInt:
			return v.OnInt(int(s.i))
		case kByte:
			return v.OnByte(byte(s.u))
		case kUint8:
			return v.OnUint8(uint8(s.u))
		case kUint16:
			return v.OnUint16(uint16(s.u))
		case kUint32:
			return v.OnUint32(uint32(s.u))
		case kUint64:
			return v.OnUint64(s.u)
		case kUint:
			return v.OnUint(uint(s.u))
		case kFloat32:
			return v.OnFloat32(math.Float32frombits(uint32(s.u)))
		case kFloat64:
			return v.OnFloat64(math.Float64frombits(s.u))
		}
	}
	panic("bad scalar")
}

// mkSlice returns a slice of n elements with (deterministically) 0..3 elements of spare
// capacity that hold junk: consumers must go by len, never by cap
func mkSlice[T any](n int, junk T) []T {
	c := n + (n*7+3)%4
	a := make([]T, c)
	for i := range a {
		a[i] = junk
	}
	return a[:n]
}

func playXArr(v structform.ExtVisitor, e event) error {
	n := len(e.elems)
	switch e.bt {
	case structform.BoolType:
		a := mkSlice[bool](n, true)
		for i, s := range e.elems {
			a[i] = s.b
		}
		return v.OnBoolArray(a)
	case structform.StringType:
		a := mkSlice[string](n, "\xaa")
		for i, s := range e.elems {
			a[i] = string(s.s)
		}
		return v.OnStringArray(a)
	case structform.Int8Type:
		a := mkSlice[int8](n, 0x55)
		for i, s := range e.elems {
			a[i] = int8(s.i)
		}
		return v.OnInt8Array(a)
	case structform.Int16Type:
		a := mkSlice[int16](n, 0x5555)
		for i, s := range e.elems {
			a[i] = int16(s.i)
		}
		return v.OnInt16Array(a)
	case structform.Int32Type:
		a := mkSlice[int32](n, 0x55555555)
		for i, s := range e.elems {
			a[i] = int32(s.i)
		}
		return v.OnInt32Array(a)
	case structform.Int64Type:
		a := mkSlice[int64](n, 0x5555555555555555)
		for i, s := range e.elems {
			a[i] = s.i
		}
		return v.OnInt64Array(a)
	case structform.IntType:
		a := mkSlice[int](n, 0x5555555555555555)
		for i, s := range e.elems {
			a[i] = int(s.i)
		}
		return v.OnIntArray(a)
	case structform.ByteType:
		a := mkSlice[byte](n, 0xaa)
		for i, s := range e.elems {
			a[i] = byte(s.u)
		}
		return v.OnBytes(a)
	case structform.Uint8Type:
		a := mkSlice[uint8](n, 0xaa)
		for i, s := range e.elems {
			a[i] = uint8(s.u)
		}
		return v.OnUint8Array(a)
	case structform.Uint16Type:
		a := mkSlice[uint16](n, 0xaaaa)
		for i, s := range e.elems {
			a[i] = uint16(s.u)
		}
		return v.OnUint16Array(a)
	case structform.Uint32Type:
		a := mkSlice[uint32](n, 0xaaaaaaaa)
		for i, s := range e.elems {
			a[i] = uint32(s.u)
		}
		return v.OnUint32Array(a)
	case structform.Uint64Type:
		a := mkSlice[uint64](n, 0xaaaaaaaaaaaaaaaa)
		for i, s := range e.elems {
			a[i] = s.u
		}
		return v.OnUint64Array(a)
	case structform.UintType:
		a := mkSlice[uint](n, 0xaaaaaaaaaaaaaaaa)
		for i, s := range e.elems {
			a[i] = uint(s.u)
		}
		return v.OnUintArray(a)
	case structform.Float32Type:
		a := mkSlice[float32](n, float32(1.5))
		for i, s := range e.elems {
			a[i] = math.Float32frombits(uint32(s.u))
		}
		return v.OnFloat32Array(a)
	case structform.Float64Type:
		a := mkSlice[float64](n, 2.5)
		for i, s := range e.elems {
			a[i] = math.Float64frombits(s.u)
		}
		return v.OnFloat64Array(a)
	}
	panic("bad xarr type")
}

// playXObj: Go maps have random iteration order, so typed maps are only
// generated with at most one member (order then is irrelevant) unless the
// consumer's output is compared modulo member order.
func playXObj(v structform.ExtVisitor, e event) error {
	switch e.bt {
	case structform.BoolType:
		m := map[string]bool{}
		for _, x := range e.mems {
			m[string(x.key)] = x.val.b
		}
		return v.OnBoolObject(m)
	case structform.StringType:
		m := map[string]string{}
		for _, x := range e.mems {
			m[string(x.key)] = string(x.val.s)
		}
		return v.OnStringObject(m)
	case structform.Int8Type:
		m := map[string]int8{}
		for _, x := range e.mems {
			m[string(x.key)] = int8(x.val.i)
		}
		return v.OnInt8Object(m)
	case structform.Int16Type:
		m := map[string]int16{}
		for _, x := range e.mems {
			m[string(x.key)] = int16(x.val.i)
		}
		return v.OnInt16Object(m)
	case structform.Int32Type:
		m := map[string]int32{}
		for _, x := range e.mems {
			m[string(x.key)] = int32(x.val.i)
		}
		return v.OnInt32Object(m)
	case structform.Int64Type:
		m := map[string]int64{}
		for _, x := range e.mems {
			m[string(x.key)] = x.val.i
		}
		return v.OnInt64Object(m)
	case structform.IntType:
		m := map[string]int{}
		for _, x := range e.mems {
			m[string(x.key)] = int(x.val.i)
		}
		return v.OnIntObject(m)
	case structform.Uint8Type:
		m := map[string]uint8{}
		for _, x := range e.mems {
			m[string(x.key)] = uint8(x.val.u)
		}
		return v.OnUint8Object(m)
	case structform.Uint16Type:
		m := map[string]uint16{}
		for _, x := range e.mems {
			m[string(x.key)] = uint16(x.val.u)
		}
		return v.OnUint16Object(m)
	case structform.Uint32Type:
		m := map[string]uint32{}
		for _, x := range e.mems {
			m[string(x.key)] = uint32(x.val.u)
		}
		return v.OnUint32Object(m)
	case structform.Uint64Type:
		m := map[string]uint64{}
		for _, x := range e.mems {
			m[string(x.key)] = x.val.u
		}
		return v.OnUint64Object(m)
	case structform.UintType:
		m := map[string]uint{}
		for _, x := range e.mems {
			m[string(x.key)] = uint(x.val.u)
		}
		return v.OnUintObject(m)
	case structform.Float32Type:
		m := map[string]float32{}
		for _, x := range e.mems {
			m[string(x.key)] = math.Float32frombits(uint32(x.val.u))
		}
		return v.OnFloat32Object(m)
	case structform.Float64Type:
		m := map[string]float64{}
		for _, x := range e.mems {
			m[string(x.key)] = math.Float64frombits(x.val.u)
		}
		return v.OnFloat64Object(m)
	}
	panic("bad xobj type")
}

func playEvent(v structform.ExtVisitor, e event) error {
	switch e.kind {
	case evNil, evBool, evStr, evNum:
		return playScalar(v, e.sc)
	case evStrRef:
		// by-reference contract: the bytes are only valid during the call - overwrite them afterwards
		b := append(make([]byte, 0, len(e.s)+1), e.s...) // like a parser's sub-slice: never nil, even when empty
		err := v.OnStringRef(b)
		for i := range b {
			b[i] = 0xAA
		}
		return err
	case evKey:
		return v.OnKey(string(e.s))
	case evKeyRef:
		b := append(make([]byte, 0, len(e.s)+1), e.s...) // like a parser's sub-slice: never nil, even when empty
		err := v.OnKeyRef(b)
		for i := range b {
			b[i] = 0xAA
		}
		return err
	case evArrStart:
		return v.OnArrayStart(e.n, e.bt)
	case evArrEnd:
		return v.OnArrayFinished()
	case evObjStart:
		return v.OnObjectStart(e.n, e.bt)
	case evObjEnd:
		return v.OnObjectFinished()
	case evXArr:
		return playXArr(v, e)
	case evXObj:
		return playXObj(v, e)
	}
	panic("bad event")
}

// play feeds events until one returns an error; returns the index of that event or -1.
func play(v structform.ExtVisitor, evs []event) (int, error) {
	for i, e := range evs {
		if err := playEvent(v, e); err != nil {
			return i, err
		}
	}
	return -1, nil
}
