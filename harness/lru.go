package main

import (
	"fmt"
	"strings"
	"time"

	"github.com/elastic/go-structform/gotype"
)

// lru case: capacity + key history.
// line: lru \t cap k1 k2 ... \t obs
// obs : R ret1 ret2 ... C cached1 cached2 ... N <len(m)>  |  PANIC
func lruKeys(r *rng) (int, [][]byte) {
	caps := []int{0, 1, 1, 2, 2, 3, 3, 4, 5, 8, -1}
	cp := caps[r.n(len(caps))]
	alpha := 1 + r.n(7)
	n := r.n(24)
	pool := make([][]byte, alpha)
	for i := range pool {
		switch r.n(4) {
		case 0:
			pool[i] = []byte{}
		case 1:
			pool[i] = []byte{byte('a' + i)}
		case 2:
			pool[i] = []byte(fmt.Sprintf("key%d", i))
		default:
			pool[i] = r.bytes(1 + r.n(5))
		}
	}
	if alpha >= 2 && r.chance(1, 4) {
		// two distinct keys with equal hashes
		p := collidePairs[r.n(len(collidePairs))]
		pool[0], pool[1] = []byte(p[0]), []byte(p[1])
	}
	keys := make([][]byte, n)
	for i := range keys {
		keys[i] = pool[r.n(alpha)]
	}
	return cp, keys
}

func lruRunImpl(cp int, keys [][]byte) string {
	var rets []string
	var cached []string
	var nm int
	o := guard(2*time.Second, func() {
		var c gotype.VerifSymbolCache
		c.Init(cp)
		for _, k := range keys {
			buf := append([]byte(nil), k...)
			s := c.Get(buf)
			// overwrite the bytes the key was first seen in
			for i := range buf {
				buf[i] ^= 0xFF
			}
			rets = append(rets, s)
		}
		cached, nm = c.Keys()
	})
	if o.panicked {
		return "PANIC"
	}
	if o.hung {
		return "HANG"
	}
	var sb strings.Builder
	sb.WriteString("R")
	for _, s := range rets {
		sb.WriteString(" " + hx([]byte(s)))
	}
	sb.WriteString(" C")
	for _, s := range cached {
		sb.WriteString(" " + hx([]byte(s)))
	}
	fmt.Fprintf(&sb, " N %d", nm)
	return sb.String()
}

func lruCase(r *rng) string {
	cp, keys := lruKeys(r)
	var sb strings.Builder
	fmt.Fprintf(&sb, "lru\t%d", cp)
	for _, k := range keys {
		sb.WriteString(" " + hx(k))
	}
	sb.WriteString("\t" + lruRunImpl(cp, keys))
	return sb.String()
}

func lruReplay(input string) string {
	f := strings.Fields(input)
	var cp int
	fmt.Sscan(f[0], &cp)
	var keys [][]byte
	for _, k := range f[1:] {
		keys = append(keys, unhx(k))
	}
	return lruRunImpl(cp, keys)
}
