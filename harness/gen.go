package main

import (
	"math"

	structform "github.com/elastic/go-structform"
)

// ---- boundary-centred value pools ----
var intPool = []int64{0, 1, -1, 2, 5, 23, 24, 25, -24, -25, -26, 42, 100, 127, 128, -128, -129, -127, 200, -200, 255, 256, -255, -256, -257,
	32767, 32768, -32768, -32769, 65535, 65536, -65536, -65537, 1 << 31, 1<<31 - 1, -(1 << 31), -(1 << 31) - 1, 1<<32 - 1, 1 << 32, -(1 << 32), -(1 << 32) - 1,
	math.MaxInt64, math.MaxInt64 - 1, math.MinInt64, math.MinInt64 + 1, 1 << 53, 1<<53 + 1, 12345678, -12345678, 123456781234, 1e15, 999999, 1000000, 1e18}

var uintPool = []uint64{0, 1, 23, 24, 25, 127, 128, 255, 256, 32767, 32768, 65535, 65536, 1<<31 - 1, 1 << 31, 1<<32 - 1, 1 << 32,
	math.MaxInt64, math.MaxInt64 + 1, math.MaxUint64, math.MaxUint64 - 1, 1 << 53, 10, 99, 100, 1000, 12345678}

var f64Pool = []float64{0, math.Copysign(0, -1), 1, -1, 0.5, 3.14, -3.14, 7e9, 1e-4, 9.99e-5, 1e-5, 1e5, 999999, 1e6, 1e20, 1e21, 1e22, 123456789, 0.1, 1.0 / 3,
	math.MaxFloat64, -math.MaxFloat64, math.SmallestNonzeroFloat64, 2.2250738585072014e-308, 1e300, 1e-300, 5e-324, 1.5, 2.5, 100, 1e15, 1e16, 1e17, 9007199254740993, 4.9e-324,
	float64(math.MaxInt64), float64(math.MaxUint64), 1 << 63, -(1 << 63), 1e19, 2e19}

var f32Pool = []float32{0, float32(math.Copysign(0, -1)), 1, -1, 0.5, 3.14, -3.14, 7e9, 1e-4, 1e-5, 1e6, 1e20, 1e21, 0.1, math.MaxFloat32, math.SmallestNonzeroFloat32, 16777216, 16777217, 1.5, 1e10}

func clampI(nk int, v int64) int64 {
	switch nk {
	case kInt8:
		return int64(int8(v))
	case kInt16:
		return int64(int16(v))
	case kInt32:
		return int64(int32(v))
	}
	return v
}

func clampU(nk int, v uint64) uint64 {
	switch nk {
	case kByte, kUint8:
		return uint64(uint8(v))
	case kUint16:
		return uint64(uint16(v))
	case kUint32:
		return uint64(uint32(v))
	}
	return v
}

type genOpts struct {
	nonfinite  bool // allow NaN/Inf floats
	anyBytes   bool // strings with arbitrary bytes (invalid UTF-8)
	ext        bool // extended events
	multiXObj  bool // typed maps with several members
	refs       bool // by-reference strings/keys
	maxDepth   int
	deepChance int // 1/deepChance of a very deep nest
	longStr    bool // strings and keys of 32-64 KiB now and then
}

func (r *rng) genNum(nk int, o genOpts) scalar {
	s := scalar{kind: evNum, nk: nk}
	switch {
	case isSigned(nk):
		var v int64
		switch r.n(4) {
		case 0:
			v = int64(r.u64())
		case 1:
			v = int64(r.n(300)) - 150
		default:
			v = intPool[r.n(len(intPool))]
		}
		// spread pool values over the narrow kinds by taking width boundaries
		if nk == kInt8 && r.bool() {
			v = []int64{-128, -127, -25, -24, -1, 0, 23, 24, 127}[r.n(9)]
		}
		if nk == kInt16 && r.bool() {
			v = []int64{-32768, -32767, -257, -256, -200, -129, -128, 127, 128, 255, 256, 32767}[r.n(12)]
		}
		if nk == kInt32 && r.bool() {
			v = []int64{-(1 << 31), -(1 << 31) + 1, -65537, -65536, -32769, -32768, 32767, 32768, 65535, 65536, 1<<31 - 1}[r.n(11)]
		}
		s.i = clampI(nk, v)
	case nk == kFloat32:
		var f float32
		switch r.n(5) {
		case 0:
			f = math.Float32frombits(uint32(r.u64()))
		case 1:
			f = float32(r.n(2000)-1000) / 8
		default:
			f = f32Pool[r.n(len(f32Pool))]
			if r.bool() {
				f = -f
			}
		}
		if !o.nonfinite && (math.IsNaN(float64(f)) || math.IsInf(float64(f), 0)) {
			f = 1.25
		}
		if o.nonfinite && r.chance(1, 12) {
			f = []float32{float32(math.NaN()), float32(math.Inf(1)), float32(math.Inf(-1))}[r.n(3)]
		}
		s.u = uint64(math.Float32bits(f))
	case nk == kFloat64:
		var f float64
		switch r.n(5) {
		case 0:
			f = math.Float64frombits(r.u64())
		case 1:
			f = float64(r.n(2000)-1000) / 8
		default:
			f = f64Pool[r.n(len(f64Pool))]
			if r.bool() {
				f = -f
			}
		}
		if !o.nonfinite && (math.IsNaN(f) || math.IsInf(f, 0)) {
			f = 1.25
		}
		if o.nonfinite && r.chance(1, 12) {
			f = []float64{math.NaN(), math.Inf(1), math.Inf(-1)}[r.n(3)]
		}
		s.u = math.Float64bits(f)
	default:
		var v uint64
		switch r.n(4) {
		case 0:
			v = r.u64()
		case 1:
			v = uint64(r.n(300))
		default:
			v = uintPool[r.n(len(uintPool))]
		}
		s.u = clampU(nk, v)
	}
	return s
}

var strPool = [][]byte{
	{}, []byte("a"), []byte("test"), []byte("key"), []byte("hello world"), []byte("\""), []byte("\\"), []byte("a\"b\\c/d"),
	[]byte("\n"), []byte("\t\r\n\b\f"), []byte("\x00"), []byte("\x01\x1f"), []byte("\x7f"), []byte("<>&"), []byte("<script>&amp;"),
	[]byte("é"), []byte("\né"), []byte("日本語"), []byte("\"日本"), []byte("\xe2\x80\xa8"), []byte("\xe2\x80\xa9"), []byte("a\xe2\x80\xa8b"),
	[]byte("\U0001F600"), []byte("\\u00e9"), []byte("\\"), []byte("\\\\"), []byte("/"), []byte("\xef\xbf\xbd"),
	[]byte("0123456789012345678901234567890123456789012345678901234567890123"),  // 64
	[]byte("01234567890123456789012345678901234567890123456789012345678901234"), // 65
	[]byte("012345678901234567890123456789012345678901234567890123456789012"),   // 63
	[]byte("01234567890123456789012"), []byte("012345678901234567890123"),       // 23, 24
}

var badUtf8 = [][]byte{{0xff}, {0xc0, 0x80}, {0xe2, 0x80}, {0xed, 0xa0, 0x80}, {0xf4, 0x90, 0x80, 0x80}, {0x80}, {'a', 0xc3}, {0xc3, '"'}, {0xf0, 0x9f, 0x98}, {'\\', 0xff}, {'\n', 0xe9}}

func (r *rng) genStr(o genOpts) []byte {
	if o.longStr && r.chance(1, 150) {
		// lengths around the 16-bit marker boundaries (UBJSON has no unsigned 16-bit length);
		// only where the models handle them in reasonable time (encoder kinds)
		n := []int{32767, 32768, 40000, 65535, 65536}[r.n(5)]
		b := make([]byte, n)
		for i := range b {
			b[i] = byte('a' + i%26)
		}
		return b
	}
	switch r.n(11) {
	case 10:
		// a long string that needs escaping in JSON: raw lengths sweep the region around the
		// parsers' inline buffer sizes (64) and the JSON unquote threshold (cap - 8)
		n := 44 + r.n(33)
		if r.chance(1, 4) {
			n = 116 + r.n(18)
		}
		b := make([]byte, n)
		for i := range b {
			b[i] = byte('a' + i%26)
		}
		for k := 1 + r.n(2); k > 0; k-- {
			b[r.n(n)] = []byte{'\n', '"', '\\', '\t'}[r.n(4)]
		}
		return b
	case 0:
		n := r.n(12)
		b := make([]byte, n)
		for i := range b {
			b[i] = byte(32 + r.n(95))
		}
		return b
	case 1:
		if o.anyBytes {
			return r.bytes(r.n(10))
		}
		return []byte("x")
	case 2:
		if o.anyBytes {
			a := strPool[r.n(len(strPool))]
			b := badUtf8[r.n(len(badUtf8))]
			return append(append([]byte{}, a...), b...)
		}
		return []byte("yz")
	case 3:
		// long string (crosses the parsers' 64 byte inline buffers, 1-byte length limits)
		// ... and lengths whose encoded bytes are structural characters of some format:
		// '"' '#' '$' ',' ':' 'N' 'Z' '[' '\\' ']' '{' '}' and 0x015D / 0x017D / 0x0123 / 0x01FF
		n := []int{66, 100, 127, 128, 255, 256, 257, 300, 34, 35, 36, 44, 58, 78, 90, 91, 92, 93, 123, 125, 349, 381, 291, 511}[r.n(24)]
		b := make([]byte, n)
		for i := range b {
			b[i] = byte('a' + i%26)
		}
		return b
	case 4:
		// concatenation of two pool entries: escapes followed by multi-byte runes etc.
		a := strPool[r.n(len(strPool))]
		b := strPool[r.n(len(strPool))]
		return append(append([]byte{}, a...), b...)
	default:
		return append([]byte{}, strPool[r.n(len(strPool))]...)
	}
}

var scalarKinds = []int{kInt8, kInt16, kInt32, kInt64, kInt, kByte, kUint8, kUint16, kUint32, kUint64, kUint, kFloat32, kFloat64}

func (r *rng) genScalar(o genOpts) scalar {
	switch r.n(8) {
	case 0:
		return scalar{kind: evNil}
	case 1:
		return scalar{kind: evBool, b: r.bool()}
	case 2, 3:
		return scalar{kind: evStr, s: r.genStr(o)}
	default:
		return r.genNum(scalarKinds[r.n(len(scalarKinds))], o)
	}
}

var xarrTypes = []structform.BaseType{structform.BoolType, structform.StringType, structform.Int8Type, structform.Int16Type, structform.Int32Type,
	structform.Int64Type, structform.IntType, structform.ByteType, structform.Uint8Type, structform.Uint16Type, structform.Uint32Type,
	structform.Uint64Type, structform.UintType, structform.Float32Type, structform.Float64Type}
var xobjTypes = []structform.BaseType{structform.BoolType, structform.StringType, structform.Int8Type, structform.Int16Type, structform.Int32Type,
	structform.Int64Type, structform.IntType, structform.Uint8Type, structform.Uint16Type, structform.Uint32Type,
	structform.Uint64Type, structform.UintType, structform.Float32Type, structform.Float64Type}

var btKind = map[structform.BaseType]int{structform.Int8Type: kInt8, structform.Int16Type: kInt16, structform.Int32Type: kInt32, structform.Int64Type: kInt64,
	structform.IntType: kInt, structform.ByteType: kByte, structform.Uint8Type: kUint8, structform.Uint16Type: kUint16, structform.Uint32Type: kUint32,
	structform.Uint64Type: kUint64, structform.UintType: kUint, structform.Float32Type: kFloat32, structform.Float64Type: kFloat64}

func (r *rng) genTyped(bt structform.BaseType, o genOpts) scalar {
	switch bt {
	case structform.BoolType:
		return scalar{kind: evBool, b: r.bool()}
	case structform.StringType:
		return scalar{kind: evStr, s: r.genStr(o)}
	}
	return r.genNum(btKind[bt], o)
}

// hugeElem: small elements for the very long typed arrays of the big<fmt> kinds
func hugeElem(bt structform.BaseType, i int) scalar {
	switch bt {
	case structform.BoolType:
		return scalar{kind: evBool, b: i%3 == 0}
	case structform.StringType:
		return scalar{kind: evStr, s: []byte{byte('a' + i%26)}}
	}
	nk := btKind[bt]
	switch {
	case isSigned(nk):
		return scI(nk, int64(i%200)-100)
	case nk == kFloat32 || nk == kFloat64:
		return r0Float(nk, i)
	}
	return scU(nk, uint64(i%250))
}

func (r *rng) genCount() int {
	if r.budget <= 0 {
		return r.n(2)
	}
	switch r.n(10) {
	case 0:
		return 0
	case 1, 2:
		return 1
	case 3:
		return []int{23, 24, 25}[r.n(3)]
	default:
		return r.n(5)
	}
}

// collidePairs: pairs of distinct keys with equal hashes under the usual non-cryptographic hash
// functions (FNV-1a/64, FNV-1a/32, FNV-1/32, CRC-32, Java's 31-multiplier, djb2): an index that keeps
// hashes instead of keys confuses them
var collidePairs = [][2]string{
	{"7mohtcOFVz", "c1E51sSEyx"}, {"8yn0iYCKYHlIj4-BwPqk", "GReLUrM4wMqfg9yzV3KQ"},
	{"m0oe1l", "5aum35"}, {"d3b6os", "p8bl5t"}, {"rdeoil", "34r5ov"}, {"4ecu33", "c2g1vv"},
	{"k5y5tn", "wfjhaz"}, {"vy5xb2", "j6iyv2"}, {"Aa", "BB"}, {"Ez", "FY"},
}

func (r *rng) genKey(o genOpts) []byte {
	if r.chance(1, 10) {
		return []byte(collidePairs[r.n(3)*r.n(4)%len(collidePairs)][r.n(2)])
	}
	switch r.n(6) {
	case 0:
		return []byte{}
	case 1, 2:
		return []byte{byte('a' + r.n(4))}
	default:
		return r.genStr(o)
	}
}

// genValue appends the events of one random well-formed value.
func (r *rng) genValue(evs []event, depth int, o genOpts) []event {
	c := r.n(10)
	r.budget--
	if depth >= o.maxDepth || r.budget <= 0 {
		c = 0
	}
	switch {
	case c < 4:
		s := r.genScalar(o)
		if s.kind == evStr && o.refs && r.bool() {
			return append(evs, event{kind: evStrRef, s: s.s})
		}
		return append(evs, event{kind: s.kind, sc: s})
	case c < 6:
		n := r.genCount()
		if depth > 3 && n > 4 {
			n = 2
		}
		announced := n
		if r.bool() {
			announced = -1
		}
		abt := structform.AnyType
		if r.chance(1, 10) {
			abt = structform.ZeroType // "no element type": any elements
		}
		evs = append(evs, event{kind: evArrStart, n: announced, bt: abt})
		for i := 0; i < n; i++ {
			evs = r.genValue(evs, depth+1, o)
		}
		return append(evs, event{kind: evArrEnd})
	case c < 8:
		n := r.genCount()
		if depth > 3 && n > 4 {
			n = 2
		}
		announced := n
		if r.bool() {
			announced = -1
		}
		obt := structform.AnyType
		if r.chance(1, 10) {
			obt = structform.ZeroType
		}
		evs = append(evs, event{kind: evObjStart, n: announced, bt: obt})
		for i := 0; i < n; i++ {
			k := r.genKey(o)
			if o.refs && r.bool() {
				evs = append(evs, event{kind: evKeyRef, s: k})
			} else {
				evs = append(evs, event{kind: evKey, s: k})
			}
			evs = r.genValue(evs, depth+1, o)
		}
		return append(evs, event{kind: evObjEnd})
	case c == 8 && o.ext:
		bt := xarrTypes[r.n(len(xarrTypes))]
		n := r.genCount()
		e := event{kind: evXArr, bt: bt}
		for i := 0; i < n; i++ {
			e.elems = append(e.elems, r.genTyped(bt, o))
		}
		return append(evs, e)
	case c == 9 && o.ext:
		bt := xobjTypes[r.n(len(xobjTypes))]
		n := r.n(2)
		if o.multiXObj {
			n = r.n(4)
		}
		e := event{kind: evXObj, bt: bt}
		seen := map[string]bool{}
		for i := 0; i < n; i++ {
			k := r.genKey(o)
			if seen[string(k)] {
				continue
			}
			seen[string(k)] = true
			e.mems = append(e.mems, member{k, r.genTyped(bt, o)})
		}
		return append(evs, e)
	default:
		// typed basic container: announced element type with matching elements
		bt := xarrTypes[r.n(len(xarrTypes))]
		n := r.genCount()
		announced := n
		if r.bool() {
			announced = -1
		}
		if r.chance(1, 3) && bt != structform.ByteType {
			// typed basic object: announced element type with matching member values
			evs = append(evs, event{kind: evObjStart, n: announced, bt: bt})
			seen := map[string]bool{}
			cnt := 0
			for i := 0; i < n; i++ {
				k := r.genKey(o)
				if seen[string(k)] {
					continue
				}
				seen[string(k)] = true
				cnt++
				s := r.genTyped(bt, o)
				evs = append(evs, event{kind: evKey, s: k}, event{kind: s.kind, sc: s})
			}
			if announced >= 0 {
				evs[len(evs)-1-2*cnt].n = cnt
			}
			return append(evs, event{kind: evObjEnd})
		}
		evs = append(evs, event{kind: evArrStart, n: announced, bt: bt})
		for i := 0; i < n; i++ {
			s := r.genTyped(bt, o)
			evs = append(evs, event{kind: s.kind, sc: s})
		}
		return append(evs, event{kind: evArrEnd})
	}
}

// genDeep wraps a value into many nested containers (state stacks spill at 32/64).
func (r *rng) genDeep(o genOpts) []event {
	d := []int{3, 4, 5, 6, 7, 8, 9, 12, 17, 31, 32, 33, 63, 64, 65, 66}[r.n(16)]
	var evs []event
	kinds := make([]bool, d)
	for i := 0; i < d; i++ {
		kinds[i] = r.bool()
		n := 1
		if r.bool() {
			n = -1
		}
		if kinds[i] {
			evs = append(evs, event{kind: evArrStart, n: n, bt: structform.AnyType})
		} else {
			evs = append(evs, event{kind: evObjStart, n: n, bt: structform.AnyType}, event{kind: evKey, s: []byte("k")})
		}
	}
	o.maxDepth = 1
	evs = r.genValue(evs, 0, o)
	for i := d - 1; i >= 0; i-- {
		if kinds[i] {
			evs = append(evs, event{kind: evArrEnd})
		} else {
			evs = append(evs, event{kind: evObjEnd})
		}
	}
	return evs
}

func (r *rng) genStream(o genOpts) []event {
	r.budget = 30
	if o.deepChance > 0 && r.chance(1, o.deepChance) {
		return r.genDeep(o)
	}
	return r.genValue(nil, 0, o)
}

func r0Float(nk int, i int) scalar {
	f := float64(i%64) / 4
	if nk == kFloat32 {
		return scalar{kind: evNum, nk: nk, u: uint64(math.Float32bits(float32(f)))}
	}
	return scalar{kind: evNum, nk: nk, u: math.Float64bits(f)}
}
