package main

import (
	"encoding/binary"
	"io"
	"math"

	structform "github.com/elastic/go-structform"
	"github.com/elastic/go-structform/cborl"
)

// =================== CBOR byte generators ===================
func cbHead(major byte, v uint64, r *rng) []byte {
	// random (possibly non-minimal) width
	min := 0
	switch {
	case v < 24:
		min = 0
	case v <= 0xff:
		min = 1
	case v <= 0xffff:
		min = 2
	case v <= 0xffffffff:
		min = 3
	default:
		min = 4
	}
	w := min
	if r != nil && r.chance(1, 3) {
		w = min + r.n(5-min)
	}
	switch w {
	case 0:
		return []byte{major | byte(v)}
	case 1:
		return []byte{major | 24, byte(v)}
	case 2:
		b := []byte{major | 25, 0, 0}
		binary.BigEndian.PutUint16(b[1:], uint16(v))
		return b
	case 3:
		b := []byte{major | 26, 0, 0, 0, 0}
		binary.BigEndian.PutUint32(b[1:], uint32(v))
		return b
	default:
		b := []byte{major | 27, 0, 0, 0, 0, 0, 0, 0, 0}
		binary.BigEndian.PutUint64(b[1:], v)
		return b
	}
}

func (r *rng) genCborItem(depth int, unsupported bool) []byte {
	c := r.n(20)
	if depth == 0 {
		r.budget = 30
	}
	r.budget--
	if (depth >= 4 || r.budget <= 0) && c >= 12 {
		c = r.n(12)
	}
	switch {
	case c < 3:
		return cbHead(0, uintPool[r.n(len(uintPool))], r)
	case c < 6:
		// negative: -1-n for any n < 2^64 (n >= 2^63 is below int64: unsupported)
		n := uintPool[r.n(len(uintPool))]
		if v := intPool[r.n(len(intPool))]; r.bool() && v < 0 {
			n = uint64(-(v + 1))
		}
		if !unsupported && n > math.MaxInt64 {
			n = math.MaxInt64
		}
		return cbHead(0x20, n, r)
	case c == 6:
		return []byte{[]byte{0xf4, 0xf5, 0xf6, 0xf7}[r.n(4)]}
	case c == 7:
		b := make([]byte, 5)
		b[0] = 0xfa
		binary.BigEndian.PutUint32(b[1:], uint32(r.genNum(kFloat32, genOpts{nonfinite: true}).u))
		return b
	case c == 8:
		b := make([]byte, 9)
		b[0] = 0xfb
		binary.BigEndian.PutUint64(b[1:], r.genNum(kFloat64, genOpts{nonfinite: true}).u)
		return b
	case c < 11:
		s := r.genStr(genOpts{anyBytes: true})
		return append(cbHead(0x60, uint64(len(s)), r), s...)
	case c == 11:
		s := r.genStr(genOpts{anyBytes: true})
		return append(cbHead(0x40, uint64(len(s)), r), s...)
	case c < 16:
		n := r.genCount()
		if depth > 2 && n > 3 {
			n = 2
		}
		var b []byte
		indef := r.chance(1, 3)
		if indef {
			b = []byte{0x9f}
		} else {
			b = cbHead(0x80, uint64(n), r)
		}
		for i := 0; i < n; i++ {
			b = append(b, r.genCborItem(depth+1, unsupported)...)
		}
		if indef {
			b = append(b, 0xff)
		}
		return b
	case c < 19:
		n := r.genCount()
		if depth > 2 && n > 3 {
			n = 2
		}
		var b []byte
		indef := r.chance(1, 3)
		if indef {
			b = []byte{0xbf}
		} else {
			b = cbHead(0xa0, uint64(n), r)
		}
		for i := 0; i < n; i++ {
			k := r.genKey(genOpts{anyBytes: true})
			b = append(b, cbHead(0x60, uint64(len(k)), r)...)
			b = append(b, k...)
			b = append(b, r.genCborItem(depth+1, unsupported)...)
		}
		if indef {
			b = append(b, 0xff)
		}
		return b
	default:
		if !unsupported {
			return []byte{0x00}
		}
		// unsupported features
		switch r.n(7) {
		case 0:
			tag := uint64(r.n(300))
			if r.chance(1, 3) {
				tag = []uint64{55799, 55798, 0, 1, 2, 3, 4, 24, 32, 21, 22, 23, 1 << 32}[r.n(13)] // self-describe, date/time, bignum, ...
			}
			return append(cbHead(0xc0, tag, r), r.genCborItem(depth+1, false)...) // tag
		case 1:
			return []byte{0xf9, byte(r.u64()), byte(r.u64())} // half float
		case 2:
			return []byte{0x7f, 0x61, 'a', 0xff} // indefinite text
		case 3:
			return []byte{0x5f, 0x41, 1, 0xff} // indefinite bytes
		case 4:
			return []byte{0xa1, 0x01, 0x02} // non-text key
		case 5:
			return cbHead(0x20, math.MaxInt64+1+uint64(r.n(1000)), nil) // below -2^63
		default:
			return []byte{0xf8, byte(32 + r.n(200))} // simple value
		}
	}
}

func (r *rng) genCborDeep() []byte {
	d := []int{31, 32, 33, 63, 64, 65}[r.n(6)]
	var b, tail []byte
	for i := 0; i < d; i++ {
		switch r.n(4) {
		case 0:
			b = append(b, 0x81)
		case 1:
			b = append(b, 0x9f)
			tail = append([]byte{0xff}, tail...)
		case 2:
			b = append(b, 0xa1, 0x61, 'k')
		default:
			b = append(b, 0xbf, 0x61, 'k')
			tail = append([]byte{0xff}, tail...)
		}
	}
	b = append(b, r.genCborItem(4, false)...)
	return append(b, tail...)
}

// genCborDoc: class 0 valid stream, 1 with unsupported feature, 2 truncated, 3 mutated, 4 random
func (r *rng) genCborDoc() []byte {
	switch c := r.n(20); {
	case c < 9:
		doc := r.genCborItem(0, false)
		if r.chance(1, 5) {
			doc = append(doc, r.genCborItem(0, false)...)
		}
		return doc
	case c == 9:
		return r.genCborDeep()
	case c < 12:
		return r.genCborItem(0, true)
	case c < 15:
		doc := r.genCborItem(0, false)
		if len(doc) > 1 {
			doc = doc[:1+r.n(len(doc)-1)]
		}
		return doc
	case c < 18:
		doc := r.genCborItem(0, false)
		for k := 0; k <= r.n(3); k++ {
			if len(doc) == 0 {
				break
			}
			i := r.n(len(doc))
			switch r.n(4) {
			case 0:
				doc[i] ^= 1 << uint(r.n(8))
			case 1:
				doc[i] = byte(r.u64())
			case 2:
				doc = append(doc[:i], append([]byte{byte(r.u64())}, doc[i:]...)...)
			default:
				// length fields up to 2^64-1
				doc = append(doc[:i], append([]byte{[]byte{0x5b, 0x7b, 0x9b, 0xbb, 0x1b, 0x3b}[r.n(6)], 0xff, 0xff, 0xff, 0xff, 0xff, 0xff, 0xff, byte(r.u64())}, doc[i:]...)...)
			}
		}
		return doc
	case c == 18:
		// every initial byte followed by a random tail
		return append([]byte{byte(r.u64())}, r.bytes(r.n(12))...)
	default:
		return r.bytes(r.n(24))
	}
}

type cborParser struct{ *cborl.Parser }

func (p cborParser) depths() string {
	d := p.VerifDepths()
	return itoa3(d[0], d[1], d[4])
}

func init() {
	registerFormat(&format{
		name: "cbor",
		newVisitor: func(w io.Writer, cfg int) (structform.Visitor, func() int) {
			vs := cborl.NewVisitor(w)
			return vs, func() int { d, _ := vs.VerifDepth(); return d }
		},
		newParser:      func(vs structform.Visitor) parserI { return cborParser{cborl.NewParser(vs)} },
		parseReader:    func(in io.Reader, vs structform.Visitor) (int64, error) { return cborl.ParseReader(in, vs) },
		pkgParse:       func(b []byte, vs structform.Visitor) error { return cborl.Parse(b, vs) },
		pkgParseString: func(str string, vs structform.Visitor) error { return cborl.ParseString(str, vs) },
		newDecoder: func(in io.Reader, buf int, vs structform.Visitor) decoderI {
			return cborl.NewDecoder(in, buf, vs)
		},
		newBytesDecoder: func(b []byte, vs structform.Visitor) decoderI { return cborl.NewBytesDecoder(b, vs) },
		genDoc:          func(r *rng) []byte { return r.genCborDoc() },
		genItem:         func(r *rng) []byte { return r.genCborItem(0, false) },
		encOpts:         genOpts{nonfinite: true, anyBytes: true, ext: true, refs: true, maxDepth: 4, deepChance: 40},
		cfgs:            1,
	})
}

var _ = binary.BigEndian
var _ = math.MaxInt64
