package main

import (
	"encoding/binary"
	"fmt"
	"io"
	"math"
	"strings"

	structform "github.com/elastic/go-structform"
	"github.com/elastic/go-structform/cborl"
)

// =================== encoder cases ===================
// cborenc \t <failAt> | toks \t W chunks E <idx|-> D <depth>
func cborEncRun(failAt int, evs []event) string {
	w := &recWriter{failAt: failAt}
	idx := -1
	var err error
	var depth int
	o := guard(guardTime, func() {
		vs := cborl.NewVisitor(w)
		idx, err = play(structform.EnsureExtVisitor(vs), evs)
		depth, _ = vs.VerifDepth()
	})
	if o.panicked || o.hung {
		return verdictTok(o, nil)
	}
	e := "-"
	if idx >= 0 {
		e = fmt.Sprint(idx)
		if err != errInjected {
			e += "!"
		}
	}
	return fmt.Sprintf("W %s E %s D %d", chunksTok(w.chunks), e, depth)
}

var encOpts = genOpts{nonfinite: true, anyBytes: true, ext: true, refs: true, maxDepth: 4, deepChance: 40}

func cborEncCase(r *rng) string {
	evs := r.genStream(encOpts)
	if r.chance(1, 4) { // a second document on the same encoder
		evs = append(evs, r.genStream(encOpts)...)
	}
	failAt := -1
	if r.chance(1, 3) {
		failAt = r.n(2*len(evs) + 1)
	}
	return fmt.Sprintf("cborenc\t%d | %s\t%s", failAt, eventsTok(evs), cborEncRun(failAt, evs))
}

func cborEncReplay(input string) string {
	parts := strings.SplitN(input, "|", 2)
	return cborEncRun(atoi(strings.TrimSpace(parts[0])), parseEventsTok(parts[1]))
}

// =================== CBOR byte generators ===================
func cbHead(major byte, v uint64, r *rng) []byte {
	// random (possibly non-minimal) width
	min := 0
	switch {
	case v < 24:
		min = 0
	case v <= 0xff:
		min = 1
	case v <= 0xffff:
		min = 2
	case v <= 0xffffffff:
		min = 3
	default:
		min = 4
	}
	w := min
	if r != nil && r.chance(1, 3) {
		w = min + r.n(5-min)
	}
	switch w {
	case 0:
		return []byte{major | byte(v)}
	case 1:
		return []byte{major | 24, byte(v)}
	case 2:
		b := []byte{major | 25, 0, 0}
		binary.BigEndian.PutUint16(b[1:], uint16(v))
		return b
	case 3:
		b := []byte{major | 26, 0, 0, 0, 0}
		binary.BigEndian.PutUint32(b[1:], uint32(v))
		return b
	default:
		b := []byte{major | 27, 0, 0, 0, 0, 0, 0, 0, 0}
		binary.BigEndian.PutUint64(b[1:], v)
		return b
	}
}

func (r *rng) genCborItem(depth int, unsupported bool) []byte {
	c := r.n(20)
	if depth == 0 {
		r.budget = 30
	}
	r.budget--
	if (depth >= 4 || r.budget <= 0) && c >= 12 {
		c = r.n(12)
	}
	switch {
	case c < 3:
		return cbHead(0, uintPool[r.n(len(uintPool))], r)
	case c < 6:
		// negative: -1-n for any n < 2^64 (n >= 2^63 is below int64: unsupported)
		n := uintPool[r.n(len(uintPool))]
		if v := intPool[r.n(len(intPool))]; r.bool() && v < 0 {
			n = uint64(-(v + 1))
		}
		if !unsupported && n > math.MaxInt64 {
			n = math.MaxInt64
		}
		return cbHead(0x20, n, r)
	case c == 6:
		return []byte{[]byte{0xf4, 0xf5, 0xf6, 0xf7}[r.n(4)]}
	case c == 7:
		b := make([]byte, 5)
		b[0] = 0xfa
		binary.BigEndian.PutUint32(b[1:], uint32(r.genNum(kFloat32, genOpts{nonfinite: true}).u))
		return b
	case c == 8:
		b := make([]byte, 9)
		b[0] = 0xfb
		binary.BigEndian.PutUint64(b[1:], r.genNum(kFloat64, genOpts{nonfinite: true}).u)
		return b
	case c < 11:
		s := r.genStr(genOpts{anyBytes: true})
		return append(cbHead(0x60, uint64(len(s)), r), s...)
	case c == 11:
		s := r.genStr(genOpts{anyBytes: true})
		return append(cbHead(0x40, uint64(len(s)), r), s...)
	case c < 16:
		n := r.genCount()
		if depth > 2 && n > 3 {
			n = 2
		}
		var b []byte
		indef := r.chance(1, 3)
		if indef {
			b = []byte{0x9f}
		} else {
			b = cbHead(0x80, uint64(n), r)
		}
		for i := 0; i < n; i++ {
			b = append(b, r.genCborItem(depth+1, unsupported)...)
		}
		if indef {
			b = append(b, 0xff)
		}
		return b
	case c < 19:
		n := r.genCount()
		if depth > 2 && n > 3 {
			n = 2
		}
		var b []byte
		indef := r.chance(1, 3)
		if indef {
			b = []byte{0xbf}
		} else {
			b = cbHead(0xa0, uint64(n), r)
		}
		for i := 0; i < n; i++ {
			k := r.genKey(genOpts{anyBytes: true})
			b = append(b, cbHead(0x60, uint64(len(k)), r)...)
			b = append(b, k...)
			b = append(b, r.genCborItem(depth+1, unsupported)...)
		}
		if indef {
			b = append(b, 0xff)
		}
		return b
	default:
		if !unsupported {
			return []byte{0x00}
		}
		// unsupported features
		switch r.n(7) {
		case 0:
			return append(cbHead(0xc0, uint64(r.n(300)), r), r.genCborItem(depth+1, false)...) // tag
		case 1:
			return []byte{0xf9, byte(r.u64()), byte(r.u64())} // half float
		case 2:
			return []byte{0x7f, 0x61, 'a', 0xff} // indefinite text
		case 3:
			return []byte{0x5f, 0x41, 1, 0xff} // indefinite bytes
		case 4:
			return []byte{0xa1, 0x01, 0x02} // non-text key
		case 5:
			return cbHead(0x20, math.MaxInt64+1+uint64(r.n(1000)), nil) // below -2^63
		default:
			return []byte{0xf8, byte(32 + r.n(200))} // simple value
		}
	}
}

func (r *rng) genCborDeep() []byte {
	d := []int{31, 32, 33, 63, 64, 65}[r.n(6)]
	var b, tail []byte
	for i := 0; i < d; i++ {
		switch r.n(4) {
		case 0:
			b = append(b, 0x81)
		case 1:
			b = append(b, 0x9f)
			tail = append([]byte{0xff}, tail...)
		case 2:
			b = append(b, 0xa1, 0x61, 'k')
		default:
			b = append(b, 0xbf, 0x61, 'k')
			tail = append([]byte{0xff}, tail...)
		}
	}
	b = append(b, r.genCborItem(4, false)...)
	return append(b, tail...)
}

// genCborDoc: class 0 valid stream, 1 with unsupported feature, 2 truncated, 3 mutated, 4 random
func (r *rng) genCborDoc() []byte {
	switch c := r.n(20); {
	case c < 9:
		doc := r.genCborItem(0, false)
		if r.chance(1, 5) {
			doc = append(doc, r.genCborItem(0, false)...)
		}
		return doc
	case c == 9:
		return r.genCborDeep()
	case c < 12:
		return r.genCborItem(0, true)
	case c < 15:
		doc := r.genCborItem(0, false)
		if len(doc) > 1 {
			doc = doc[:1+r.n(len(doc)-1)]
		}
		return doc
	case c < 18:
		doc := r.genCborItem(0, false)
		for k := 0; k <= r.n(3); k++ {
			if len(doc) == 0 {
				break
			}
			i := r.n(len(doc))
			switch r.n(4) {
			case 0:
				doc[i] ^= 1 << uint(r.n(8))
			case 1:
				doc[i] = byte(r.u64())
			case 2:
				doc = append(doc[:i], append([]byte{byte(r.u64())}, doc[i:]...)...)
			default:
				// length fields up to 2^64-1
				doc = append(doc[:i], append([]byte{[]byte{0x5b, 0x7b, 0x9b, 0xbb, 0x1b, 0x3b}[r.n(6)], 0xff, 0xff, 0xff, 0xff, 0xff, 0xff, 0xff, byte(r.u64())}, doc[i:]...)...)
			}
		}
		return doc
	case c == 18:
		// every initial byte followed by a random tail
		return append([]byte{byte(r.u64())}, r.bytes(r.n(12))...)
	default:
		return r.bytes(r.n(24))
	}
}

// =================== parser cases ===================
// cborparse \t <mode> <vfail> chunks... \t EV toks R verdict D depths
// modes: P = Parse(whole) ; S = ParseString ; W = Write* + end ; R = ParseReader(scripted reader)
func cborParseRun(mode string, vfail int, chunks [][]byte) string {
	rec := newRecorder(vfail)
	var err error
	var depths [5]int
	o := guard(guardTime, func() {
		switch mode {
		case "P":
			p := cborl.NewParser(refRecorder{rec})
			var doc []byte
			for _, c := range chunks {
				doc = append(doc, c...)
			}
			err = p.Parse(doc[:len(doc):len(doc)])
			depths = p.VerifDepths()
		case "S":
			p := cborl.NewParser(refRecorder{rec})
			var doc []byte
			for _, c := range chunks {
				doc = append(doc, c...)
			}
			err = p.ParseString(string(doc))
			depths = p.VerifDepths()
		case "W":
			p := cborl.NewParser(refRecorder{rec})
			for _, c := range chunks {
				if _, err = p.Write(c); err != nil {
					break
				}
			}
			if err == nil {
				err = p.VerifFinalize()
			}
			depths = p.VerifDepths()
		case "R":
			steps := make([]readStep, len(chunks))
			for i, c := range chunks {
				steps[i] = readStep{data: c}
			}
			_, err = cborl.ParseReader(&scriptReader{steps: steps}, refRecorder{rec})
		}
	})
	return fmt.Sprintf("EV %s R %s D %d %d %d", eventsTok(rec.evs), verdictTok(o, err), depths[0], depths[1], depths[4])
}

func cborParseCase(r *rng) string {
	doc := r.genCborDoc()
	chunks := r.chunking(doc)
	mode := []string{"P", "W", "W", "W", "R", "S"}[r.n(6)]
	if mode == "P" || mode == "S" {
		chunks = [][]byte{doc}
	}
	vfail := -1
	if r.chance(1, 6) {
		vfail = r.n(12)
	}
	obs := cborParseRun(mode, vfail, chunks)
	// C02 direct oracle: the same document in one piece must give the same events and verdict
	flags := ""
	if mode != "P" && vfail < 0 {
		whole := cborParseRun("P", -1, [][]byte{doc})
		a, b := stripDepth(obs), stripDepth(whole)
		if a != b {
			flags = " ## C02 whole=" + strings.ReplaceAll(b, " ", "_")
		}
	}
	return fmt.Sprintf("cborparse\t%s %d %s\t%s%s", mode, vfail, chunksTok(chunks), obs, flags)
}

// stripDepth removes the hook-only part and merges by-value/by-reference
func stripDepth(obs string) string {
	if i := strings.Index(obs, " D "); i >= 0 {
		obs = obs[:i]
	}
	return obs
}

func cborParseReplay(input string) string {
	f := strings.Fields(input)
	return cborParseRun(f[0], atoi(f[1]), parseChunks(f[2:]))
}

// =================== decoder cases ===================
// cbordec \t <B|R> <bufsize> <nexts> <script: hex[+e] ...> \t per Next: "EV toks R verdict ;" ...
func cborDecRun(kind string, bufsize, nexts int, steps []readStep) string {
	var sb strings.Builder
	rec := newRecorder(-1)
	var dec *cborl.Decoder
	if kind == "B" {
		var doc []byte
		for _, s := range steps {
			doc = append(doc, s.data...)
		}
		dec = cborl.NewBytesDecoder(doc, refRecorder{rec})
	} else {
		st := make([]readStep, len(steps))
		copy(st, steps)
		dec = cborl.NewDecoder(&scriptReader{steps: st}, bufsize, refRecorder{rec})
	}
	for i := 0; i < nexts; i++ {
		rec.evs = nil
		var err error
		o := guard(guardTime, func() { err = dec.Next() })
		fmt.Fprintf(&sb, "EV %s R %s ; ", eventsTok(rec.evs), verdictTok(o, err))
		if o.panicked || o.hung || (err != nil) {
			break
		}
	}
	return strings.TrimSpace(sb.String())
}

func scriptTok(steps []readStep) string {
	if len(steps) == 0 {
		return "."
	}
	parts := make([]string, len(steps))
	for i, s := range steps {
		parts[i] = hx(s.data)
		if s.eof {
			parts[i] += "+e"
		}
	}
	return strings.Join(parts, " ")
}

func parseScript(toks []string) []readStep {
	var steps []readStep
	for _, t := range toks {
		if t == "." {
			continue
		}
		eof := strings.HasSuffix(t, "+e")
		t = strings.TrimSuffix(t, "+e")
		steps = append(steps, readStep{data: unhx(t), eof: eof})
	}
	return steps
}

// script cuts the stream into reads of size 1..bufsize; the last one may carry io.EOF
func (r *rng) readScript(doc []byte, bufsize int) []readStep {
	var steps []readStep
	mode := r.n(3)
	for i := 0; i < len(doc); {
		n := bufsize
		switch mode {
		case 0:
			n = 1
		case 1:
			n = 1 + r.n(bufsize)
		}
		if i+n > len(doc) {
			n = len(doc) - i
		}
		steps = append(steps, readStep{data: doc[i : i+n]})
		i += n
	}
	if len(steps) > 0 && r.bool() {
		steps[len(steps)-1].eof = true
	}
	return steps
}

func cborDecCase(r *rng) string {
	var doc []byte
	k := r.n(5)
	for i := 0; i < k; i++ {
		doc = append(doc, r.genCborItem(0, false)...)
	}
	switch r.n(6) {
	case 0: // truncated stream
		if len(doc) > 1 {
			doc = doc[:1+r.n(len(doc)-1)]
		}
	case 1:
		doc = append(doc, r.genCborDoc()...)
	}
	kind := "R"
	if r.chance(1, 4) {
		kind = "B"
	}
	bufsize := []int{1, 2, 3, 4, 7, 8, 16, 64}[r.n(8)]
	steps := r.readScript(doc, bufsize)
	if kind == "B" {
		steps = []readStep{{data: doc}}
	}
	nexts := k + 2
	return fmt.Sprintf("cbordec\t%s %d %d %s\t%s", kind, bufsize, nexts, scriptTok(steps), cborDecRun(kind, bufsize, nexts, steps))
}

func cborDecReplay(input string) string {
	f := strings.Fields(input)
	return cborDecRun(f[0], atoi(f[1]), atoi(f[2]), parseScript(f[3:]))
}

func init() {
	kinds["cborenc"] = kindT{cborEncCase, cborEncReplay}
	kinds["cborparse"] = kindT{cborParseCase, cborParseReplay}
	kinds["cbordec"] = kindT{cborDecCase, cborDecReplay}
}

var _ = io.EOF
