package main

import (
	"fmt"
	"strings"

	structform "github.com/elastic/go-structform"
	"github.com/elastic/go-structform/visitors"
)

// =================== visitors.ExpectObjVisitor: the filter in front of an inlined value ===================
// expobj \t <failAt> | toks \t EV toks E <none|target|notobj> DONE <0|1>
//
// The events go through EnsureExtVisitor(NewExpectObjVisitor(EnsureExtVisitor(recorder))) - the way
// gotype/fold_inline.go builds it - and stop at the first error.  The streams are objects (mostly),
// typed maps, other values, and damaged streams (events dropped, a finish too many): the filter is
// modelled for every event list (Core/Visitors.v).
func expobjRun(failAt int, evs []event) string {
	rec := newRecorder(failAt)
	var err error
	done := false
	o := guard(guardTime, func() {
		f := visitors.NewExpectObjVisitor(structform.EnsureExtVisitor(refRecorder{rec}))
		_, err = play(structform.EnsureExtVisitor(f), evs)
		done = f.Done()
	})
	if o.panicked || o.hung {
		return verdictTok(o, nil)
	}
	e := "none"
	switch {
	case err == errInjected:
		e = "target"
	case err != nil:
		e = "notobj"
	}
	d := 0
	if done {
		d = 1
	}
	return fmt.Sprintf("EV %s E %s DONE %d", eventsTok(rec.evs), e, d)
}

func expobjCase(r *rng) string {
	o := genOpts{nonfinite: true, anyBytes: true, ext: true, refs: true, maxDepth: 3}
	r.budget = 24
	var evs []event
	for docs := 1 + r.n(6)/5; docs > 0; docs-- {
		switch c := r.n(10); {
		case c < 6:
			// an object with generated members
			n := r.n(4)
			announced := n
			if r.bool() {
				announced = -1
			}
			evs = append(evs, event{kind: evObjStart, n: announced, bt: structform.AnyType})
			for i := 0; i < n; i++ {
				k := r.genKey(o)
				if r.bool() {
					evs = append(evs, event{kind: evKeyRef, s: k})
				} else {
					evs = append(evs, event{kind: evKey, s: k})
				}
				evs = r.genValue(evs, 1, o)
			}
			evs = append(evs, event{kind: evObjEnd})
		case c < 8:
			bt := xobjTypes[r.n(len(xobjTypes))]
			x := event{kind: evXObj, bt: bt}
			if r.bool() {
				x.mems = append(x.mems, member{r.genKey(o), r.genTyped(bt, o)})
			}
			evs = append(evs, x)
		default:
			evs = r.genValue(evs, 0, o)
		}
	}
	if r.chance(1, 6) && len(evs) > 1 {
		// damaged: drop one event, or finish once too often
		if r.bool() {
			i := r.n(len(evs))
			evs = append(append([]event{}, evs[:i]...), evs[i+1:]...)
		} else {
			i := r.n(len(evs) + 1)
			evs = append(append(append([]event{}, evs[:i]...), event{kind: evObjEnd}), evs[i:]...)
		}
	}
	failAt := -1
	if r.chance(1, 3) {
		failAt = r.n(10)
	}
	return fmt.Sprintf("expobj\t%d | %s\t%s", failAt, eventsTok(evs), expobjRun(failAt, evs))
}

func expobjReplay(input string) string {
	parts := strings.SplitN(input, "|", 2)
	return expobjRun(atoi(strings.TrimSpace(parts[0])), parseEventsTok(parts[1]))
}

func init() {
	kinds["expobj"] = kindT{expobjCase, expobjReplay}
}
