package main

import (
	"fmt"
	"reflect"
	"sort"
	"strings"

	structform "github.com/elastic/go-structform"
	"github.com/elastic/go-structform/gotype"
)

// =================== C17 / C14: reused iterator and unfolder ===================
// histfold \t <n> ; type | value ; ... (the last one is the probe) \t EV toks R verdict [## C17 fresh=...]
//
//	all values are folded through ONE Iterator; the probe's events are reported and compared
//	(on the Go side) with a fresh iterator.
func histfoldRun(items [][2]string) string {
	rec := newXRecorder(-1)
	var err error
	var probe interface{}
	o := guard(guardTime, func() {
		it, _ := gotype.NewIterator(rec)
		for i, tv := range items {
			_, _, iv := parseTypedValue(tv[0], tv[1])
			if i == len(items)-1 {
				rec.evs = nil
				probe = iv
			}
			err = it.Fold(iv)
		}
	})
	obs := foldObs(rec.evs, o, err)
	if !(o.panicked || o.hung) {
		fresh := foldRun("X", -1, probe)
		same := fresh == obs
		if !same && probe != nil && hasMultiMap(reflect.ValueOf(probe)) {
			// map iteration order: compare as multisets of tokens
			a, b := strings.Fields(fresh), strings.Fields(obs)
			sort.Strings(a)
			sort.Strings(b)
			same = strings.Join(a, " ") == strings.Join(b, " ") ||
				(strings.HasSuffix(fresh, " R err") && strings.HasSuffix(obs, " R err")) // the events before an error depend on the order
		}
		if !same {
			obs += " ## C17 fresh=" + strings.ReplaceAll(fresh, " ", "_")
		}
	}
	return obs
}

func histfoldCase(r *rng) string {
	n := 1 + r.n(4)
	var parts []string
	var items [][2]string
	// histories like to repeat types: first use and cached use of each type
	pool := []reflect.Type{}
	for i := 0; i < 2; i++ {
		pool = append(pool, r.genType(typeOpts{depth: 1 + r.n(3), tags: true, unsupported: r.chance(1, 12)}))
	}
	for i := 0; i < n; i++ {
		t := pool[r.n(len(pool))]
		v := r.genGoValue(t, 3)
		if t.Kind() == reflect.Interface {
			if v.IsNil() {
				t = primTypes["i"]
				v = reflect.ValueOf(7)
			} else {
				v = v.Elem()
				t = v.Type()
			}
		}
		tt, vt := typeTok(t), valTok(v)
		parts = append(parts, tt+" | "+vt)
		items = append(items, [2]string{tt, vt})
	}
	multi := 0
	_, pv, _ := parseTypedValue(items[n-1][0], items[n-1][1])
	if pv.IsValid() && hasMultiMap(pv) {
		multi = 1
	}
	return fmt.Sprintf("histfold\t%d %d ; %s\t%s", n, multi, strings.Join(parts, " ; "), histfoldRun(items))
}

func histfoldReplay(input string) string {
	segs := strings.Split(input, ";")
	var items [][2]string
	for _, s := range segs[1:] {
		tv := strings.SplitN(s, "|", 2)
		items = append(items, [2]string{tv[0], tv[1]})
	}
	return histfoldRun(items)
}

// histunf \t <n> <cache> <resetAlways> ; type | old | events ; ...  \t <observation of the last document> [## C17 fresh=...]
//
//	all documents go through ONE Unfolder (SetTarget before each, Reset after an abandoned or
//	failed one); the last document's observation is compared with a fresh unfolder.
type unfDoc struct {
	t       reflect.Type
	old     reflect.Value
	evs     []event
	typeTok string
	oldTok  string
}

func histunfRun(cache int, resetAlways bool, docs []unfDoc) string {
	var res string
	o := guard(guardTime, func() {
		u, _ := gotype.NewUnfolder(nil)
		if cache >= 0 {
			u.EnableKeyCache(cache)
		}
		for i, d := range docs {
			last := i == len(docs)-1
			target := reflect.New(d.t)
			if d.old.IsValid() {
				target.Elem().Set(d.old)
			}
			if err := u.SetTarget(target.Interface()); err != nil {
				if last {
					res = "SETUPERR"
				}
				continue
			}
			_, err := play(structform.EnsureExtVisitor(u), d.evs)
			complete := completeDoc(d.evs)
			if last {
				switch {
				case err != nil:
					res = "R err"
				case !complete:
					res = "R more D " + depthsTok(u)
				default:
					res = "R ok V " + valTok(target.Elem()) + " D " + depthsTok(u)
				}
			}
			if err != nil || !complete || (resetAlways && !last) {
				u.Reset()
			}
		}
	})
	if o.panicked || o.hung {
		return verdictTok(o, nil)
	}
	d := docs[len(docs)-1]
	fresh := unfoldRun(-1, d.t, d.old, d.evs)
	if fresh != res {
		res += " ## C17 fresh=" + strings.ReplaceAll(fresh, " ", "_")
	}
	return res
}

func histunfCase(r *rng) string {
	n := 1 + r.n(4)
	var docs []unfDoc
	var parts []string
	for i := 0; i < n; i++ {
		t := r.genType(typeOpts{depth: 1 + r.n(3), tags: true, unsupported: r.chance(1, 15)})
		d := unfDoc{t: t, typeTok: typeTok(t), oldTok: "zero"}
		if r.chance(1, 3) {
			d.old = r.genGoValue(t, 2)
			d.oldTok = valTok(d.old)
		}
		d.evs = r.varyDelivery(r.unfoldStream(t))
		if i < n-1 && r.chance(1, 2) && len(d.evs) > 1 {
			d.evs = d.evs[:1+r.n(len(d.evs)-1)] // abandoned at a random event
		}
		docs = append(docs, d)
		parts = append(parts, fmt.Sprintf("%s | %s | %s", d.typeTok, d.oldTok, eventsTok(d.evs)))
	}
	cache := -1
	if r.chance(1, 3) {
		cache = r.n(4)
	}
	resetAlways := r.chance(1, 3)
	ra := 0
	if resetAlways {
		ra = 1
	}
	return fmt.Sprintf("histunf\t%d %d %d ; %s\t%s", n, cache, ra, strings.Join(parts, " ; "), histunfRun(cache, resetAlways, docs))
}

func histunfReplay(input string) string {
	segs := strings.Split(input, ";")
	cache, resetAlways := -1, false
	if h := strings.Fields(segs[0]); len(h) >= 3 {
		cache, resetAlways = atoi(h[1]), h[2] == "1"
	}
	var docs []unfDoc
	for _, s := range segs[1:] {
		p := strings.SplitN(s, "|", 3)
		t := parseType(&tokStream{t: strings.Fields(p[0])})
		d := unfDoc{t: t}
		if strings.TrimSpace(p[1]) != "zero" {
			d.old = parseValue(&tokStream{t: strings.Fields(p[1])}, t)
		}
		d.evs = parseEventsTok(p[2])
		docs = append(docs, d)
	}
	return histunfRun(cache, resetAlways, docs)
}

func init() {
	kinds["histfold"] = kindT{histfoldCase, histfoldReplay}
	kinds["histunf"] = kindT{histunfCase, histunfReplay}
}
