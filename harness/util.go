package main

import (
	"encoding/hex"
	"fmt"
	"strings"
	"time"
)

func hx(b []byte) string {
	if len(b) == 0 {
		return "-"
	}
	return hex.EncodeToString(b)
}

func unhx(s string) []byte {
	if s == "-" {
		return nil
	}
	b, err := hex.DecodeString(s)
	if err != nil {
		panic("bad hex " + s)
	}
	return b
}

// outcome of a guarded call
type outcome struct {
	panicked bool
	hung     bool
	msg      string
}

var hungGoroutines int

// guard runs f on its own goroutine with recover and a deadline.
func guard(d time.Duration, f func()) outcome {
	ch := make(chan outcome, 1)
	go func() {
		defer func() {
			if r := recover(); r != nil {
				ch <- outcome{panicked: true, msg: strings.ReplaceAll(fmt.Sprint(r), "\n", " ")}
			}
		}()
		f()
		ch <- outcome{}
	}()
	select {
	case o := <-ch:
		return o
	case <-time.After(d):
		hungGoroutines++
		return outcome{hung: true}
	}
}
