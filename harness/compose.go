package main

import (
	"fmt"
	"sort"
	"strings"

	structform "github.com/elastic/go-structform"
	"github.com/elastic/go-structform/visitors"
)

var fmtNames = []string{"cbor", "ubj", "json"}

func hexTok(b []byte) string { return hx(b) }

func ftabSeg(f *format, evs []event) string {
	if f.floatTab {
		return " | " + floatTable(evs)
	}
	return ""
}

// =================== C01: encode then parse ===================
// rt<fmt> \t <cfg> | toks [| ftab] \t B <hex> E <idx|-> EV toks R verdict
func (f *format) rtRun(cfg int, evs []event) string {
	w := &recWriter{failAt: -1}
	idx := -1
	var eerr error
	o := guard(guardTime, func() {
		vs, _ := f.newVisitor(w, cfg)
		idx, eerr = play(structform.EnsureExtVisitor(vs), evs)
	})
	if o.panicked || o.hung {
		return verdictTok(o, nil)
	}
	e := "-"
	if idx >= 0 {
		e = fmt.Sprint(idx)
		if eerr != errInjected {
			e += "!"
		}
		return fmt.Sprintf("B %s E %s", hexTok(w.bytes()), e)
	}
	// the entry point that reads the image back is a function of its bytes: whole buffer, string,
	// io.Reader (one read, with or without io.EOF arriving together with the data)
	h := uint64(1469598103934665603)
	for _, b := range w.bytes() {
		h = (h ^ uint64(b)) * 1099511628211
	}
	mode := []string{"P", "G", "S", "R", "E", "T"}[(h>>20)%6]
	if (mode == "G" || mode == "T") && (h>>8)%2 == 0 && len(w.bytes()) > 1 {
		// a truncated copy of the image goes through the package-level function first (its result does
		// not matter): whatever that leaves behind in the process must not reach the next call
		guard(guardTime, func() { f.pkgParse(append([]byte{}, w.bytes()[:len(w.bytes())/2]...), visitors.NilVisitor()) })
	}
	p := f.parseRun(mode, -1, [][]byte{w.bytes()})
	return fmt.Sprintf("B %s E - %s", hexTok(w.bytes()), stripDepth(p))
}

func (f *format) rtCase(r *rng) string {
	o := f.encOpts
	evs := r.genStream(o)
	cfg := r.n(f.cfgs)
	return fmt.Sprintf("rt%s\t%d | %s%s\t%s", f.name, cfg, eventsTok(evs), ftabSeg(f, evs), f.rtRun(cfg, evs))
}

func (f *format) rtReplay(input string) string {
	parts := strings.SplitN(input, "|", 3)
	return f.rtRun(atoi(strings.TrimSpace(parts[0])), parseEventsTok(parts[1]))
}

// =================== C08: parser of S connected to encoder of D ===================
// xc \t <src> <dst> <cfg> chunks... \t B <hex> R verdict D <depth> [## SREF ..] [## DREF ..]
func xcRun(src, dst *format, cfg int, chunks [][]byte) string {
	w := &recWriter{failAt: -1}
	var err error
	depth := 0
	o := guard(guardTime, func() {
		vs, dep := dst.newVisitor(w, cfg)
		p := src.newParser(vs)
		for _, c := range chunks {
			if _, err = p.Write(c); err != nil {
				break
			}
		}
		if err == nil {
			err = p.VerifFinalize()
		}
		depth = dep()
	})
	v := verdictTok(o, err)
	return fmt.Sprintf("B %s R %s D %d", hexTok(w.bytes()), v, depth)
}

func xcCase(r *rng) string {
	src := formats[fmtNames[r.n(3)]]
	dst := formats[fmtNames[r.n(3)]]
	cfg := r.n(dst.cfgs)
	// valid source documents; a stream consists of containers only
	var doc []byte
	k := 1
	if r.chance(1, 4) {
		k = 2 + r.n(2)
	}
	for i := 0; i < k; i++ {
		var item []byte
		for tries := 0; ; tries++ {
			item = src.genItem(r)
			if k == 1 || tries > 20 {
				break
			}
			if c := item[0]; c == '[' || c == '{' || (src.name == "cbor" && c >= 0x80 && c < 0xc0) {
				break
			}
		}
		if i > 0 {
			doc = append(doc, src.sep...)
		}
		doc = append(doc, item...)
	}
	if src.name == "ubj" {
		doc = sanitizeUbj(doc)
	}
	chunks := r.chunking(doc)
	tab := ""
	if dst.floatTab {
		rec := newRecorder(-1)
		guard(guardTime, func() { src.newParser(refRecorder{rec}).Parse(doc) })
		tab = " | " + floatTable(rec.evs)
	}
	obs := xcRun(src, dst, cfg, chunks)
	if src.refTokens != nil {
		obs += " ## SREF " + src.refTokens(doc)
	}
	if dst.refTokens != nil {
		f := strings.Fields(obs)
		obs += " ## DREF " + dst.refTokens(unhx(f[1]))
	}
	return fmt.Sprintf("xc\t%s %s %d %s%s\t%s", src.name, dst.name, cfg, chunksTok(chunks), tab, obs)
}

func xcReplay(input string) string {
	f := strings.Fields(strings.SplitN(input, "|", 2)[0])
	return xcRun(formats[f[0]], formats[f[1]], atoi(f[2]), parseChunks(f[3:]))
}

// =================== C10: extended event vs its expansion ===================
// x10<fmt> \t <cfg> | prefix | ext | suffix [| ftab] \t A <hex> <depth> E <idx> B <hex> <depth> E <idx>
func expandEvent(e event) []event {
	switch e.kind {
	case evXArr:
		out := []event{{kind: evArrStart, n: len(e.elems), bt: e.bt}}
		for _, s := range e.elems {
			out = append(out, event{kind: s.kind, sc: s})
		}
		return append(out, event{kind: evArrEnd})
	case evXObj:
		out := []event{{kind: evObjStart, n: len(e.mems), bt: e.bt}}
		for _, m := range e.mems {
			out = append(out, event{kind: evKey, s: m.key}, event{kind: m.val.kind, sc: m.val})
		}
		return append(out, event{kind: evObjEnd})
	case evStrRef:
		return []event{{kind: evStr, sc: scalar{kind: evStr, s: e.s}}}
	case evKeyRef:
		return []event{{kind: evKey, s: e.s}}
	}
	return []event{e}
}

func (f *format) x10Run(cfg int, pre []event, x event, suf []event) string {
	one := func(mid []event) string {
		w := &recWriter{failAt: -1}
		idx := -1
		depth := 0
		o := guard(guardTime, func() {
			vs, dep := f.newVisitor(w, cfg)
			all := append(append(append([]event{}, pre...), mid...), suf...)
			idx, _ = play(structform.EnsureExtVisitor(vs), all)
			depth = dep()
		})
		if o.panicked || o.hung {
			return verdictTok(o, nil) + " 0 E -"
		}
		e := "-"
		if idx >= 0 {
			e = "err"
		}
		return fmt.Sprintf("%s %d E %s", hexTok(w.bytes()), depth, e)
	}
	return "A " + one([]event{x}) + " B " + one(expandEvent(x))
}

// context: the extended value sits at top level, in an array or as an object member,
// followed by further elements/members and documents
func (r *rng) x10Context(x event, o genOpts) (pre, suf []event) {
	o.ext = false
	o.maxDepth = 2
	switch r.n(4) {
	case 0:
		return nil, nil
	case 1:
		n := r.n(3)
		m := r.n(3)
		announced := n + m + 1
		if r.bool() {
			announced = -1
		}
		pre = []event{{kind: evArrStart, n: announced, bt: structform.AnyType}}
		for i := 0; i < n; i++ {
			pre = r.genValue(pre, 1, o)
		}
		for i := 0; i < m; i++ {
			suf = r.genValue(suf, 1, o)
		}
		suf = append(suf, event{kind: evArrEnd})
	case 2:
		n := r.n(3)
		m := r.n(3)
		announced := n + m + 1
		if r.bool() {
			announced = -1
		}
		pre = []event{{kind: evObjStart, n: announced, bt: structform.AnyType}}
		for i := 0; i < n; i++ {
			pre = append(pre, event{kind: evKey, s: r.genKey(o)})
			pre = r.genValue(pre, 1, o)
		}
		pre = append(pre, event{kind: evKey, s: r.genKey(o)})
		for i := 0; i < m; i++ {
			suf = append(suf, event{kind: evKey, s: r.genKey(o)})
			suf = r.genValue(suf, 1, o)
		}
		suf = append(suf, event{kind: evObjEnd})
	default:
		// nested twice
		pre = []event{{kind: evArrStart, n: -1, bt: structform.AnyType}, {kind: evObjStart, n: 1, bt: structform.AnyType}, {kind: evKey, s: []byte("k")}}
		suf = []event{{kind: evObjEnd}}
		suf = r.genValue(suf, 1, o)
		suf = append(suf, event{kind: evArrEnd})
	}
	if r.chance(1, 3) && (len(pre) > 0) { // a following container document
		suf = append(suf, event{kind: evArrStart, n: -1, bt: structform.AnyType})
		suf = r.genValue(suf, 1, o)
		suf = append(suf, event{kind: evArrEnd})
	}
	return pre, suf
}

func (r *rng) genExtEvent(o genOpts) event {
	switch r.n(8) {
	case 0:
		return event{kind: evStrRef, s: r.genStr(o)}
	case 1, 2, 3, 4:
		bt := xarrTypes[r.n(len(xarrTypes))]
		n := r.genCount()
		e := event{kind: evXArr, bt: bt}
		for i := 0; i < n; i++ {
			e.elems = append(e.elems, r.genTyped(bt, o))
		}
		return e
	default:
		bt := xobjTypes[r.n(len(xobjTypes))]
		n := r.n(2)
		e := event{kind: evXObj, bt: bt}
		for i := 0; i < n; i++ {
			e.mems = append(e.mems, member{r.genKey(o), r.genTyped(bt, o)})
		}
		return e
	}
}

func (f *format) x10Case(r *rng) string {
	o := f.encOpts
	o.nonfinite = false
	r.budget = 20
	x := r.genExtEvent(o)
	pre, suf := r.x10Context(x, o)
	cfg := r.n(f.cfgs)
	all := append(append(append([]event{}, pre...), x), suf...)
	obs := f.x10Run(cfg, pre, x, suf)
	if f.refTokens != nil {
		fl := strings.Fields(obs)
		obs += " ## AREF " + f.refTokens(unhx(fl[1])) + " ## BREF " + f.refTokens(unhx(fl[6]))
	}
	return fmt.Sprintf("x10%s\t%d | %s | %s | %s%s\t%s", f.name, cfg, eventsTok(pre), eventTok(x), eventsTok(suf), ftabSeg(f, all), obs)
}

func (f *format) x10Replay(input string) string {
	parts := strings.Split(input, "|")
	x := parseEventsTok(parts[2])
	return f.x10Run(atoi(strings.TrimSpace(parts[0])), parseEventsTok(parts[1]), x[0], parseEventsTok(parts[3]))
}

// =================== C17: histories on one parser instance ===================
// hist<fmt> \t <mode> doc / doc / ... / probe \t EV toks R verdict D depths ## C17 fresh=...
func (f *format) histRun(modes string, docs [][]byte) (string, string) {
	rec := newRecorder(-1)
	var err error
	depths := "- - -"
	probe := docs[len(docs)-1]
	histErr := false
	o := guard(guardTime, func() {
		p := f.newParser(refRecorder{rec})
		for i, d := range docs {
			if i == len(docs)-1 {
				rec.evs = nil
			}
			mode := modes // one letter: the same entry point for every document; else one letter per document
			if len(modes) > 1 {
				mode = modes[i : i+1]
			}
			if mode == "P" {
				err = p.Parse(d)
			} else {
				// written in pieces; the cut positions are a function of the document's bytes (replayable)
				for _, c := range docChunks(d) {
					if _, err = p.Write(c); err != nil {
						break
					}
				}
				if err == nil && (i == len(docs)-1) {
					err = p.VerifFinalize()
				}
			}
			if err != nil && i < len(docs)-1 {
				histErr = true
				break
			}
		}
		depths = p.depths()
	})
	if histErr {
		return "HISTERR", "HISTERR"
	}
	evs := rec.evs
	if f.mergeRefs {
		for i := range evs {
			switch evs[i].kind {
			case evStr:
				evs[i] = event{kind: evStrRef, s: evs[i].sc.s}
			case evKey:
				evs[i].kind = evKeyRef
			}
		}
	}
	reused := fmt.Sprintf("EV %s R %s D %s", eventsTok(evs), verdictTok(o, err), depths)
	fresh := f.parseRun("P", -1, [][]byte{probe})
	return reused, fresh
}

// docChunks cuts a document into the pieces it is written in: derived from its bytes only.
// Half of the documents that contain a backslash are cut right behind one of them.
func docChunks(d []byte) [][]byte {
	h := uint64(1469598103934665603)
	for _, b := range d {
		h = (h ^ uint64(b)) * 1099511628211
	}
	r := newRng(h)
	var bs []int
	for i, b := range d {
		if b == '\\' && i+1 < len(d) {
			bs = append(bs, i+1)
		}
	}
	if len(bs) > 0 && r.bool() {
		c := bs[r.n(len(bs))]
		return [][]byte{d[:c:c], d[c:len(d):len(d)]}
	}
	return r.chunking(d)
}

func (f *format) histCase(r *rng) string {
	n := 1 + r.n(4)
	var docs [][]byte
	for i := 0; i <= n; i++ {
		d := f.genItem(r)
		if f.name == "ubj" {
			d = sanitizeUbj(d)
		}
		if f.name == "json" && r.bool() {
			d = append(d, ' ')
		}
		docs = append(docs, d)
	}
	mode := []string{"P", "W"}[r.n(2)]
	if r.chance(1, 3) {
		// the entry point changes from document to document
		mode = ""
		for range docs {
			mode += []string{"P", "W"}[r.n(2)]
		}
	}
	if f.name == "json" {
		// a number written with Write needs a separator before the next document
		for i := range docs {
			if mode == "W" || (len(mode) > 1 && mode[i] == 'W') {
				docs[i] = append(docs[i], '\n')
			}
		}
	}
	reused, fresh := f.histRun(mode, docs)
	flags := ""
	if stripDepth(reused) != stripDepth(fresh) {
		flags = " ## C17 fresh=" + strings.ReplaceAll(stripDepth(fresh), " ", "_")
	}
	parts := make([]string, len(docs))
	for i, d := range docs {
		parts[i] = hx(d)
	}
	return fmt.Sprintf("hist%s\t%s %s\t%s%s", f.name, mode, strings.Join(parts, " "), reused, flags)
}

func (f *format) histReplay(input string) string {
	fl := strings.Fields(input)
	reused, _ := f.histRun(fl[0], parseChunks(fl[1:]))
	return reused
}

// =================== adapters: EnsureExtVisitor around a plain visitor ===================
// adapt \t <failAt> | ext tok \t EV toks E <ok|inj|err>
type plainRecorder struct{ *recorder } // only structform.Visitor

func adaptRun(failAt int, x event) (string, []event) {
	rec := newRecorder(failAt)
	var err error
	o := guard(guardTime, func() {
		ev := structform.EnsureExtVisitor(plainRecorder{rec})
		err = playEvent(ev, x)
	})
	return fmt.Sprintf("EV %s E %s", eventsTok(rec.evs), verdictTok(o, err)), rec.evs
}

func adaptCase(r *rng) string {
	o := genOpts{nonfinite: true, anyBytes: true}
	r.budget = 20
	var x event
	switch r.n(10) {
	case 0:
		x = event{kind: evStrRef, s: r.genStr(o)}
	case 1:
		x = event{kind: evKeyRef, s: r.genKey(o)}
	case 2, 3, 4, 5:
		bt := xarrTypes[r.n(len(xarrTypes))]
		x = event{kind: evXArr, bt: bt}
		for i, n := 0, r.genCount(); i < n; i++ {
			x.elems = append(x.elems, r.genTyped(bt, o))
		}
	default:
		bt := xobjTypes[r.n(len(xobjTypes))]
		x = event{kind: evXObj, bt: bt}
		seen := map[string]bool{}
		for i, n := 0, r.n(5); i < n; i++ {
			k := r.genKey(o)
			if seen[string(k)] {
				continue
			}
			seen[string(k)] = true
			x.mems = append(x.mems, member{k, r.genTyped(bt, o)})
		}
	}
	failAt := -1
	if r.chance(1, 3) {
		failAt = r.n(8)
	}
	obs, evs := adaptRun(failAt, x)
	// Go's map iteration order is an oracle of the model: list the members in the
	// order in which they were observed (unobserved ones keep their relative order)
	if x.kind == evXObj && len(x.mems) > 1 {
		pos := map[string]int{}
		n := 0
		for _, e := range evs {
			if e.kind == evKey {
				if _, ok := pos[string(e.s)]; !ok {
					pos[string(e.s)] = n
					n++
				}
			}
		}
		sort.SliceStable(x.mems, func(i, j int) bool {
			pi, oki := pos[string(x.mems[i].key)]
			pj, okj := pos[string(x.mems[j].key)]
			if oki && okj {
				return pi < pj
			}
			return oki && !okj
		})
	}
	return fmt.Sprintf("adapt\t%d | %s\t%s", failAt, eventTok(x), obs)
}

func adaptReplay(input string) string {
	parts := strings.SplitN(input, "|", 2)
	obs, _ := adaptRun(atoi(strings.TrimSpace(parts[0])), parseEventsTok(parts[1])[0])
	return obs
}

func init() {
	for _, n := range fmtNames {
		n := n
		kinds["rt"+n] = kindT{func(r *rng) string { return formats[n].rtCase(r) }, func(s string) string { return formats[n].rtReplay(s) }}
		kinds["x10"+n] = kindT{func(r *rng) string { return formats[n].x10Case(r) }, func(s string) string { return formats[n].x10Replay(s) }}
		kinds["hist"+n] = kindT{func(r *rng) string { return formats[n].histCase(r) }, func(s string) string { return formats[n].histReplay(s) }}
	}
	kinds["xc"] = kindT{xcCase, xcReplay}
	kinds["adapt"] = kindT{adaptCase, adaptReplay}
}
