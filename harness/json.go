package main

import (
	"bytes"
	stdjson "encoding/json"
	"fmt"
	"io"
	"math"
	"math/big"
	"strconv"
	"strings"
	"unicode/utf8"

	structform "github.com/elastic/go-structform"
	sfjson "github.com/elastic/go-structform/json"
)

// ---------- reference: encoding/json token stream -> event tokens ----------
// returns "ERR" for texts encoding/json rejects, "RANGE" when a number is outside
// the 64-bit integer / float64 range (the parser may reject or widen those)
func refJSONTokens(doc []byte) string {
	dec := stdjson.NewDecoder(bytes.NewReader(doc))
	dec.UseNumber()
	var toks []string
	type ctx struct {
		obj     bool
		wantKey bool
	}
	var stack []ctx
	rng, wide := false, false
	for {
		t, err := dec.Token()
		if err == io.EOF {
			break
		}
		if err != nil {
			return "ERR"
		}
		isKey := len(stack) > 0 && stack[len(stack)-1].obj && stack[len(stack)-1].wantKey
		switch v := t.(type) {
		case stdjson.Delim:
			switch v {
			case '[':
				toks = append(toks, "[:-1:0")
				stack = append(stack, ctx{})
				continue
			case '{':
				toks = append(toks, "{:-1:0")
				stack = append(stack, ctx{obj: true, wantKey: true})
				continue
			case ']':
				toks = append(toks, "]")
				stack = stack[:len(stack)-1]
			case '}':
				toks = append(toks, "}")
				stack = stack[:len(stack)-1]
			}
		case string:
			if isKey {
				toks = append(toks, "K:"+hx([]byte(v)))
				stack[len(stack)-1].wantKey = false
				continue
			}
			toks = append(toks, "S:"+hx([]byte(v)))
		case stdjson.Number:
			s := string(v)
			isInt := !strings.ContainsAny(s, ".eE")
			if isInt {
				n, _ := new(big.Int).SetString(s, 10)
				switch {
				case n.IsInt64():
					toks = append(toks, "i64:"+n.String())
				case n.IsUint64():
					toks = append(toks, "u64:"+n.String())
				default:
					// outside the 64-bit range: the parser may reject the text or widen the literal to
					// float64 - but must not report any other number
					f, err := strconv.ParseFloat(s, 64)
					if err != nil {
						rng = true
					} else {
						wide = true
						toks = append(toks, "f64:"+strconv.FormatUint(math.Float64bits(f), 10))
					}
				}
			} else {
				f, err := strconv.ParseFloat(s, 64)
				if err != nil {
					rng = true
				}
				toks = append(toks, "f64:"+strconv.FormatUint(math.Float64bits(f), 10))
			}
		case bool:
			if v {
				toks = append(toks, "t")
			} else {
				toks = append(toks, "f")
			}
		case nil:
			toks = append(toks, "n")
		}
		if len(stack) > 0 && stack[len(stack)-1].obj {
			stack[len(stack)-1].wantKey = true
		}
		if len(stack) == 0 {
			// top-level values must be separated by white space (a JSON text is one value;
			// streams are sequences of texts): adjacent values are not decided by this reference
			if off := int(dec.InputOffset()); off < len(doc) {
				if c := doc[off]; c != ' ' && c != '\t' && c != '\n' && c != '\r' {
					return "ADJ"
				}
			}
		}
	}
	if len(stack) > 0 {
		return "ERR"
	}
	if rng {
		return "RANGE"
	}
	if wide && len(toks) > 0 {
		return "WIDE_" + strings.Join(toks, "_")
	}
	if len(toks) == 0 {
		return "EMPTY"
	}
	return strings.Join(toks, "_")
}

// ---------- JSON text generators ----------
var jsonWS = []string{"", "", "", " ", "\n", "\t", "\r\n", "  "}

func (r *rng) ws() string { return jsonWS[r.n(len(jsonWS))] }

func (r *rng) jsonString() string {
	var sb strings.Builder
	sb.WriteByte('"')
	n := r.n(6)
	for i := 0; i < n; i++ {
		switch r.n(16) {
		case 0:
			sb.WriteString([]string{`\"`, `\\`, `\/`, `\b`, `\f`, `\n`, `\r`, `\t`}[r.n(8)])
		case 1:
			sb.WriteString([]string{`é`, `A`, `\u0000`, ` `, `�`, `€`, `é`, `￿`, `\u007f`, `\u0080`, `߿`, `ࠀ`}[r.n(12)])
		case 2:
			sb.WriteString([]string{`😀`, `𝄞`, `𐀀`, `􏿿`}[r.n(4)]) // pairs
		case 3:
			sb.WriteString([]string{`\ud800`, `\udc00`, `\ud83dA`, `\ud83dx`, `\ud83d\n`, `\udfff\ud800`, `\ud800𐀀`}[r.n(7)]) // lone surrogates
		case 4:
			sb.WriteString([]string{"é", "日本語", "\U0001F600", "ß", " ", " ", "�", "\u0080"}[r.n(8)])
		case 5:
			sb.WriteString("abcdefghijklmnopqrstuvwxyzabcdefghijklmnopqrstuvwxyzabcdefghijklmnopqrstuvwxyz"[:r.n(78)])
		case 6:
			sb.WriteString([]string{"<", ">", "&", "'", "/", " ", "\x7f"}[r.n(7)])
		default:
			sb.WriteByte(byte('a' + r.n(26)))
		}
	}
	sb.WriteByte('"')
	return sb.String()
}

var jsonNumbers = []string{"0", "-0", "1", "-1", "12", "123456789", "9223372036854775807", "9223372036854775808", "-9223372036854775808",
	"-9223372036854775809", "18446744073709551615", "18446744073709551616", "1.5", "-1.5", "0.1", "1e5", "1E5", "1e+5", "1e-5", "1.25e2",
	"0.0", "-0.0", "1e400", "-1e400", "1e-400", "4.9e-324", "1.7976931348623157e308", "123456789012345678901234567890", "0.30000000000000004",
	"2.2250738585072014e-308", "1e22", "1e23", "9007199254740993", "100", "10", "1.0", "3.14", "-3.14", "7e9", "12345678", "-12345678", "5e-324", "0e0", "1E400"}

// integer literals around the 64-bit borders: 2^63, 2^64 (+-30), with an extra digit, negative
func (r *rng) jsonBorderInt() string {
	base := new(big.Int).Lsh(big.NewInt(1), []uint{63, 64, 64, 32, 53}[r.n(5)])
	base.Add(base, big.NewInt(int64(r.n(44)-13)))
	s := base.String()
	if r.chance(1, 4) {
		s += string(rune('0' + r.n(10)))
	}
	if r.chance(1, 6) {
		s = s[:len(s)-1]
	}
	if r.chance(1, 3) {
		s = "-" + s
	}
	return s
}

func (r *rng) jsonNumber() string {
	if r.chance(1, 6) {
		return r.jsonBorderInt()
	}
	if r.chance(1, 40) {
		// a valid literal longer than the parser's 64 byte inline buffer
		z := strings.Repeat("0", 60+r.n(30))
		return []string{"0." + z + "125", "1" + z + ".0", "-0." + z + "5e3", "12" + z, "1." + z + "1"}[r.n(5)]
	}
	switch r.n(5) {
	case 0:
		return strconv.FormatInt(intPool[r.n(len(intPool))], 10)
	case 1:
		return strconv.FormatUint(uintPool[r.n(len(uintPool))], 10)
	case 2:
		f := math.Float64frombits(r.genNum(kFloat64, genOpts{}).u)
		return strconv.FormatFloat(f, 'g', -1, 64)
	default:
		return jsonNumbers[r.n(len(jsonNumbers))]
	}
}

func (r *rng) jsonValue(depth int) string {
	if depth == 0 {
		r.budget = 30
	}
	r.budget--
	c := r.n(12)
	if depth >= 4 || r.budget <= 0 {
		c = r.n(8)
	}
	switch {
	case c < 3:
		return r.jsonNumber()
	case c < 6:
		return r.jsonString()
	case c == 6:
		return []string{"null", "true", "false"}[r.n(3)]
	case c == 7:
		return []string{"null", "true", "false"}[r.n(3)]
	case c < 10:
		n := r.ubCount(depth)
		var sb strings.Builder
		sb.WriteString("[" + r.ws())
		for i := 0; i < n; i++ {
			if i > 0 {
				sb.WriteString(r.ws() + "," + r.ws())
			}
			sb.WriteString(r.jsonValue(depth + 1))
		}
		sb.WriteString(r.ws() + "]")
		return sb.String()
	default:
		n := r.ubCount(depth)
		var sb strings.Builder
		sb.WriteString("{" + r.ws())
		for i := 0; i < n; i++ {
			if i > 0 {
				sb.WriteString(r.ws() + "," + r.ws())
			}
			if r.chance(1, 3) {
				sb.WriteString(`"` + string([]byte{byte('a' + r.n(3))}) + `"`)
			} else {
				sb.WriteString(r.jsonString())
			}
			sb.WriteString(r.ws() + ":" + r.ws())
			sb.WriteString(r.jsonValue(depth + 1))
		}
		sb.WriteString(r.ws() + "}")
		return sb.String()
	}
}

func (r *rng) jsonDeep() string {
	d := []int{31, 32, 33, 34, 63, 64, 65}[r.n(7)]
	var a, b string
	for i := 0; i < d; i++ {
		if r.bool() {
			a += "["
			b = "]" + b
		} else {
			a += `{"k":`
			b = "}" + b
		}
	}
	return a + r.jsonValue(4) + b
}

// token sequences that violate the grammar
var jsonBad = []string{"[1,]", "[,1]", "[1 2]", `{"a":1,}`, `{"a" 1}`, `{"a":}`, `{,}`, `{1:2}`, "[1,,2]", "]", "}", "[}", "{]", `{"a":1 "b":2}`, `["a":1]`,
	"1,2", `{"a"}`, "[[]", "[]]", `{"a":[}`, ":", ",", `[:1]`, `{"a"::1}`, `[1:]`, `{"a":1]`, "[1}", `{"a",1}`, `[true false]`, "nul", "tru", "fals", "nulll x", "truE",
	`"abc`, `"a\`, `"\u12"`, `"\u123`, `"\x"`, "\"a\nb\"", "\"\x01\"", `"\ud800`, `"\ud800\u`, `"\ud800\u12"`, "[1", `{"a":1`, `{"a"`, `{`, `[`, "-", "+", ".", "1.2.3", "1e", "1ee5", "--1", "0x10", "1_0", "Infinity", "NaN", "-Infinity", "'a'", "[1,\x00]"}

func (r *rng) genJSONDoc() []byte {
	switch c := r.n(20); {
	case c < 9:
		doc := r.ws() + r.jsonValue(0) + r.ws()
		if r.chance(1, 5) {
			doc += " " + r.jsonValue(0) + r.ws()
		}
		return []byte(doc)
	case c == 9:
		return []byte(r.jsonDeep())
	case c < 12:
		return []byte(r.ws() + jsonBad[r.n(len(jsonBad))] + r.ws())
	case c < 14:
		doc := r.jsonValue(0)
		if len(doc) > 1 {
			doc = doc[:1+r.n(len(doc)-1)]
		}
		return []byte(doc)
	case c < 18:
		doc := []byte(r.jsonValue(0))
		for k := 0; k <= r.n(3); k++ {
			if len(doc) == 0 {
				break
			}
			i := r.n(len(doc))
			switch r.n(4) {
			case 0:
				doc[i] ^= 1 << uint(r.n(8))
			case 1:
				doc[i] = byte(r.u64())
			case 2:
				doc = append(doc[:i], append([]byte{[]byte(`{}[],:"\ 0-+.eEntfu`)[r.n(19)]}, doc[i:]...)...)
			default:
				doc = append(doc[:i], doc[i+1:]...)
			}
		}
		return doc
	case c == 18:
		return append([]byte{[]byte(`{}[],:"\ 0-+.eEntfu`)[r.n(19)]}, r.bytes(r.n(12))...)
	default:
		return r.bytes(r.n(24))
	}
}

type jsonParser struct{ *sfjson.Parser }

func (p jsonParser) depths() string {
	d := p.VerifDepths()
	return itoa3(d[0], d[1], d[2])
}

// floatTable lists the strconv text of every float in the events (the model's oracle)
func floatTable(evs []event) string {
	seen := map[string]bool{}
	var parts []string
	add := func(s scalar) {
		if s.kind != evNum || (s.nk != kFloat32 && s.nk != kFloat64) {
			return
		}
		var key, txt string
		if s.nk == kFloat32 {
			f := math.Float32frombits(uint32(s.u))
			key = fmt.Sprintf("32:%d", s.u)
			txt = string(strconv.AppendFloat(nil, float64(f), 'g', -1, 32))
		} else {
			key = fmt.Sprintf("64:%d", s.u)
			txt = string(strconv.AppendFloat(nil, math.Float64frombits(s.u), 'g', -1, 64))
		}
		if !seen[key] {
			seen[key] = true
			parts = append(parts, key+"="+hx([]byte(txt)))
		}
	}
	for _, e := range evs {
		switch e.kind {
		case evNum:
			add(e.sc)
		case evXArr:
			for _, s := range e.elems {
				add(s)
			}
		case evXObj:
			for _, m := range e.mems {
				add(m.val)
			}
		}
	}
	if len(parts) == 0 {
		return "."
	}
	return strings.Join(parts, " ")
}

func init() {
	registerFormat(&format{
		name: "json",
		newVisitor: func(w io.Writer, cfg int) (structform.Visitor, func() int) {
			vs := sfjson.NewVisitor(w)
			// a setter is only called where the setting differs from the visitor's default:
			// the defaults themselves must be right, whatever other visitors have been told
			if cfg&1 == 0 {
				vs.SetEscapeHTML(false)
			}
			if cfg&2 != 0 {
				vs.SetIgnoreInvalidFloat(true)
			}
			if cfg&4 != 0 {
				vs.SetExplicitRadixPoint(true)
			}
			return vs, func() int { d, _ := vs.VerifDepth(); return d }
		},
		newParser:      func(vs structform.Visitor) parserI { return jsonParser{sfjson.NewParser(vs)} },
		parseReader:    func(in io.Reader, vs structform.Visitor) (int64, error) { return sfjson.ParseReader(in, vs) },
		pkgParse:       func(b []byte, vs structform.Visitor) error { return sfjson.Parse(b, vs) },
		pkgParseString: func(str string, vs structform.Visitor) error { return sfjson.ParseString(str, vs) },
		newDecoder: func(in io.Reader, buf int, vs structform.Visitor) decoderI {
			return sfjson.NewDecoder(in, buf, vs)
		},
		newBytesDecoder: func(b []byte, vs structform.Visitor) decoderI { return sfjson.NewBytesDecoder(b, vs) },
		genDoc:          func(r *rng) []byte { return r.genJSONDoc() },
		genItem:         func(r *rng) []byte { return []byte(r.jsonValue(0)) },
		sep:             []byte(" "),
		encOpts:         genOpts{nonfinite: true, anyBytes: true, ext: true, refs: true, maxDepth: 4, deepChance: 40},
		cfgs:            8,
		mergeRefs:       true,
		containerDocs:   true,
		floatTab:        true,
		refTokens: func(doc []byte) string {
			if !utf8.Valid(doc) {
				return "BADUTF8"
			}
			return refJSONTokens(doc)
		},
	})
}
