package main

import (
	"fmt"
	"math"
	"reflect"
	"strings"

	structform "github.com/elastic/go-structform"
	"github.com/elastic/go-structform/gotype"
)

// =================== unfold cases ===================
// unfold \t <cache> | type | old value | events \t SETUPERR | R ok V <value> D <depths> | R err D <depths> | PANIC | HANG
//
//	cache: -1 no key cache, otherwise EnableKeyCache(cache)
func depthsTok(u *gotype.Unfolder) string {
	d := u.VerifDepths()
	parts := make([]string, len(d))
	for i, x := range d {
		parts[i] = fmt.Sprint(x)
	}
	return strings.Join(parts, ",")
}

func unfoldRun(cache int, t reflect.Type, old reflect.Value, evs []event) string {
	target := reflect.New(t)
	if old.IsValid() {
		target.Elem().Set(old)
	}
	var res string
	o := guard(guardTime, func() {
		u, err := gotype.NewUnfolder(nil)
		if err != nil {
			res = "SETUPERR"
			return
		}
		if cache >= 0 {
			u.EnableKeyCache(cache)
		}
		if err := u.SetTarget(target.Interface()); err != nil {
			res = "SETUPERR"
			return
		}
		_, err = play(structform.EnsureExtVisitor(u), evs)
		if err != nil {
			res = "R err"
			return
		}
		if !completeDoc(evs) {
			res = "R more D " + depthsTok(u)
			return
		}
		res = "R ok V " + valTok(target.Elem()) + " D " + depthsTok(u)
	})
	if o.panicked || o.hung {
		return verdictTok(o, nil)
	}
	return res
}

// completeDoc: do the events form at least one complete value (all containers closed)?
func completeDoc(evs []event) bool {
	depth := 0
	for _, e := range evs {
		switch e.kind {
		case evArrStart, evObjStart:
			depth++
		case evArrEnd, evObjEnd:
			depth--
		}
	}
	return depth == 0 && len(evs) > 0 && evs[len(evs)-1].kind != evKey && evs[len(evs)-1].kind != evKeyRef
}

// deliver strings/keys by reference, hide announced lengths
func (r *rng) varyDelivery(evs []event) []event {
	out := make([]event, len(evs))
	copy(out, evs)
	refs := r.chance(1, 2)
	unknown := r.chance(1, 3)
	huge := r.chance(1, 8)
	for i := range out {
		e := &out[i]
		switch e.kind {
		case evStr:
			if refs && r.bool() {
				*e = event{kind: evStrRef, s: e.sc.s}
			}
		case evKey:
			if refs && r.bool() {
				e.kind = evKeyRef
			}
		case evArrStart, evObjStart:
			if unknown && r.bool() {
				e.n = -1
			} else if huge && r.chance(1, 3) {
				// an announced length the stream does not back with elements (C14: a hint, not a licence to allocate)
				e.n = []int{5000, 1 << 20, 1 << 40, 1 << 62, math.MaxInt64}[r.n(5)]
			}
		}
	}
	return out
}

// sparsify drops object members (key and value) at every depth with probability 1/3; the
// announced lengths of all objects become "unknown"
func (r *rng) sparsify(evs []event) []event {
	var out []event
	for i := 0; i < len(evs); i++ {
		e := evs[i]
		if (e.kind == evKey || e.kind == evKeyRef) && r.chance(1, 3) && i+1 < len(evs) {
			// find the end of the member's value
			d, j := 0, i+1
			for ; j < len(evs); j++ {
				switch evs[j].kind {
				case evObjStart, evArrStart:
					d++
				case evObjEnd, evArrEnd:
					d--
				}
				if d == 0 {
					break
				}
			}
			i = j
			continue
		}
		if e.kind == evObjStart {
			e.n = -1
		}
		out = append(out, e)
	}
	return out
}

// a copy of t where struct types get an extra member now and then is approximated by
// folding a value of an independent type: the interesting mismatches come from there
func (r *rng) unfoldStream(t reflect.Type) []event {
	fold := func(st reflect.Type) []event {
		v := r.genGoValue(st, 3)
		rec := newXRecorder(-1)
		var err error
		o := guard(guardTime, func() { err = gotype.Fold(v.Interface(), rec) })
		if o.panicked || o.hung || err != nil || len(rec.evs) == 0 {
			return []event{{kind: evNil, sc: scalar{kind: evNil}}}
		}
		return rec.evs
	}
	switch r.n(10) {
	case 0, 1, 2, 3, 4, 5:
		if t.Kind() != reflect.Interface {
			if r.chance(1, 4) {
				// a sparse document: members dropped at every depth (what the stream does not
				// mention stays as it is - also in a reused element, map member or scratch value)
				return r.sparsify(fold(t))
			}
			return fold(t)
		}
		return fold(r.dynType(2))
	case 6:
		return fold(r.genType(typeOpts{depth: 1 + r.n(2), tags: true}))
	case 7:
		// an object with extra members of every kind around the target's own
		evs := fold(t)
		if len(evs) > 1 && evs[0].kind == evObjStart {
			extra := r.genStream(genOpts{ext: true, maxDepth: 2, refs: true})
			k := event{kind: evKey, s: []byte("extra")}
			body := append([]event{k}, extra...)
			evs = append(append(append([]event{{kind: evObjStart, n: -1}}, body...), evs[1:len(evs)-1]...), evs[len(evs)-1])
			if r.bool() {
				evs = append(evs[:len(evs)-1], append(append([]event{{kind: evKey, s: []byte("zz")}}, r.genStream(genOpts{maxDepth: 1, refs: true})...), event{kind: evObjEnd})...)
			}
		}
		return evs
	default:
		// raw streams; a share of them deeply nested (the scratch buffers for interface{} regions grow at depth 5)
		return r.genStream(genOpts{ext: true, maxDepth: 2, refs: true, multiXObj: false, deepChance: 4})
	}
}

func unfoldCase(r *rng) string {
	o := typeOpts{depth: 1 + r.n(3), tags: true, unsupported: r.chance(1, 12)}
	t := r.genType(o)
	var old reflect.Value
	oldTok := "zero"
	if r.chance(2, 5) {
		old = r.genGoValue(t, 2)
		oldTok = valTok(old)
	}
	evs := r.varyDelivery(r.unfoldStream(t))
	if r.chance(1, 12) && len(evs) > 1 {
		evs = evs[:1+r.n(len(evs)-1)] // abandoned document
	}
	cache := -1
	if r.chance(1, 4) {
		cache = r.n(4)
	}
	return fmt.Sprintf("unfold\t%d | %s | %s | %s\t%s", cache, typeTok(t), oldTok, eventsTok(evs), unfoldRun(cache, t, old, evs))
}

func unfoldReplay(input string) string {
	parts := strings.SplitN(input, "|", 4)
	cache := atoi(strings.TrimSpace(parts[0]))
	t := parseType(&tokStream{t: strings.Fields(parts[1])})
	var old reflect.Value
	if strings.TrimSpace(parts[2]) != "zero" {
		old = parseValue(&tokStream{t: strings.Fields(parts[2])}, t)
	}
	return unfoldRun(cache, t, old, parseEventsTok(parts[3]))
}

func init() {
	kinds["unfold"] = kindT{unfoldCase, unfoldReplay}
}
