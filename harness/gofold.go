package main

import (
	"fmt"
	"math"
	"reflect"
	"sort"
	"strings"

	structform "github.com/elastic/go-structform"
	"github.com/elastic/go-structform/gotype"
)

// ---- recording ExtVisitor: typed array / map events are recorded as such ----
type xRecorder struct{ refRecorder }

func newXRecorder(failAt int) xRecorder { return xRecorder{refRecorder{newRecorder(failAt)}} }

func scB(b bool) scalar           { return scalar{kind: evBool, b: b} }
func scS(s string) scalar         { return scalar{kind: evStr, s: []byte(s)} }
func scI(nk int, v int64) scalar  { return scalar{kind: evNum, nk: nk, i: v} }
func scU(nk int, v uint64) scalar { return scalar{kind: evNum, nk: nk, u: v} }

func (r xRecorder) xarr(bt structform.BaseType, el []scalar) error {
	return r.add(event{kind: evXArr, bt: bt, elems: el})
}
func (r xRecorder) xobj(bt structform.BaseType, ms []member) error {
	sort.Slice(ms, func(i, j int) bool { return string(ms[i].key) < string(ms[j].key) })
	return r.add(event{kind: evXObj, bt: bt, mems: ms})
}

func (r xRecorder) OnBoolArray(a []bool) error {
	el := make([]scalar, len(a))
	for i, x := range a {
		el[i] = scB(x)
	}
	return r.xarr(structform.BoolType, el)
}
func (r xRecorder) OnStringArray(a []string) error {
	el := make([]scalar, len(a))
	for i, x := range a {
		el[i] = scS(x)
	}
	return r.xarr(structform.StringType, el)
}
func (r xRecorder) OnInt8Array(a []int8) error {
	el := make([]scalar, len(a))
	for i, x := range a {
		el[i] = scI(kInt8, int64(x))
	}
	return r.xarr(structform.Int8Type, el)
}
func (r xRecorder) OnInt16Array(a []int16) error {
	el := make([]scalar, len(a))
	for i, x := range a {
		el[i] = scI(kInt16, int64(x))
	}
	return r.xarr(structform.Int16Type, el)
}
func (r xRecorder) OnInt32Array(a []int32) error {
	el := make([]scalar, len(a))
	for i, x := range a {
		el[i] = scI(kInt32, int64(x))
	}
	return r.xarr(structform.Int32Type, el)
}
func (r xRecorder) OnInt64Array(a []int64) error {
	el := make([]scalar, len(a))
	for i, x := range a {
		el[i] = scI(kInt64, x)
	}
	return r.xarr(structform.Int64Type, el)
}
func (r xRecorder) OnIntArray(a []int) error {
	el := make([]scalar, len(a))
	for i, x := range a {
		el[i] = scI(kInt, int64(x))
	}
	return r.xarr(structform.IntType, el)
}
func (r xRecorder) OnBytes(a []byte) error {
	el := make([]scalar, len(a))
	for i, x := range a {
		el[i] = scU(kByte, uint64(x))
	}
	return r.xarr(structform.ByteType, el)
}
func (r xRecorder) OnUint8Array(a []uint8) error {
	el := make([]scalar, len(a))
	for i, x := range a {
		el[i] = scU(kUint8, uint64(x))
	}
	return r.xarr(structform.Uint8Type, el)
}
func (r xRecorder) OnUint16Array(a []uint16) error {
	el := make([]scalar, len(a))
	for i, x := range a {
		el[i] = scU(kUint16, uint64(x))
	}
	return r.xarr(structform.Uint16Type, el)
}
func (r xRecorder) OnUint32Array(a []uint32) error {
	el := make([]scalar, len(a))
	for i, x := range a {
		el[i] = scU(kUint32, uint64(x))
	}
	return r.xarr(structform.Uint32Type, el)
}
func (r xRecorder) OnUint64Array(a []uint64) error {
	el := make([]scalar, len(a))
	for i, x := range a {
		el[i] = scU(kUint64, x)
	}
	return r.xarr(structform.Uint64Type, el)
}
func (r xRecorder) OnUintArray(a []uint) error {
	el := make([]scalar, len(a))
	for i, x := range a {
		el[i] = scU(kUint, uint64(x))
	}
	return r.xarr(structform.UintType, el)
}
func (r xRecorder) OnFloat32Array(a []float32) error {
	el := make([]scalar, len(a))
	for i, x := range a {
		el[i] = scU(kFloat32, uint64(math.Float32bits(x)))
	}
	return r.xarr(structform.Float32Type, el)
}
func (r xRecorder) OnFloat64Array(a []float64) error {
	el := make([]scalar, len(a))
	for i, x := range a {
		el[i] = scU(kFloat64, math.Float64bits(x))
	}
	return r.xarr(structform.Float64Type, el)
}

func (r xRecorder) OnBoolObject(m map[string]bool) error {
	ms := make([]member, 0, len(m))
	for k, x := range m {
		ms = append(ms, member{[]byte(k), scB(x)})
	}
	return r.xobj(structform.BoolType, ms)
}
func (r xRecorder) OnStringObject(m map[string]string) error {
	ms := make([]member, 0, len(m))
	for k, x := range m {
		ms = append(ms, member{[]byte(k), scS(x)})
	}
	return r.xobj(structform.StringType, ms)
}
func (r xRecorder) OnInt8Object(m map[string]int8) error {
	ms := make([]member, 0, len(m))
	for k, x := range m {
		ms = append(ms, member{[]byte(k), scI(kInt8, int64(x))})
	}
	return r.xobj(structform.Int8Type, ms)
}
func (r xRecorder) OnInt16Object(m map[string]int16) error {
	ms := make([]member, 0, len(m))
	for k, x := range m {
		ms = append(ms, member{[]byte(k), scI(kInt16, int64(x))})
	}
	return r.xobj(structform.Int16Type, ms)
}
func (r xRecorder) OnInt32Object(m map[string]int32) error {
	ms := make([]member, 0, len(m))
	for k, x := range m {
		ms = append(ms, member{[]byte(k), scI(kInt32, int64(x))})
	}
	return r.xobj(structform.Int32Type, ms)
}
func (r xRecorder) OnInt64Object(m map[string]int64) error {
	ms := make([]member, 0, len(m))
	for k, x := range m {
		ms = append(ms, member{[]byte(k), scI(kInt64, x)})
	}
	return r.xobj(structform.Int64Type, ms)
}
func (r xRecorder) OnIntObject(m map[string]int) error {
	ms := make([]member, 0, len(m))
	for k, x := range m {
		ms = append(ms, member{[]byte(k), scI(kInt, int64(x))})
	}
	return r.xobj(structform.IntType, ms)
}
func (r xRecorder) OnUint8Object(m map[string]uint8) error {
	ms := make([]member, 0, len(m))
	for k, x := range m {
		ms = append(ms, member{[]byte(k), scU(kUint8, uint64(x))})
	}
	return r.xobj(structform.Uint8Type, ms)
}
func (r xRecorder) OnUint16Object(m map[string]uint16) error {
	ms := make([]member, 0, len(m))
	for k, x := range m {
		ms = append(ms, member{[]byte(k), scU(kUint16, uint64(x))})
	}
	return r.xobj(structform.Uint16Type, ms)
}
func (r xRecorder) OnUint32Object(m map[string]uint32) error {
	ms := make([]member, 0, len(m))
	for k, x := range m {
		ms = append(ms, member{[]byte(k), scU(kUint32, uint64(x))})
	}
	return r.xobj(structform.Uint32Type, ms)
}
func (r xRecorder) OnUint64Object(m map[string]uint64) error {
	ms := make([]member, 0, len(m))
	for k, x := range m {
		ms = append(ms, member{[]byte(k), scU(kUint64, x)})
	}
	return r.xobj(structform.Uint64Type, ms)
}
func (r xRecorder) OnUintObject(m map[string]uint) error {
	ms := make([]member, 0, len(m))
	for k, x := range m {
		ms = append(ms, member{[]byte(k), scU(kUint, uint64(x))})
	}
	return r.xobj(structform.UintType, ms)
}
func (r xRecorder) OnFloat32Object(m map[string]float32) error {
	ms := make([]member, 0, len(m))
	for k, x := range m {
		ms = append(ms, member{[]byte(k), scU(kFloat32, uint64(math.Float32bits(x)))})
	}
	return r.xobj(structform.Float32Type, ms)
}
func (r xRecorder) OnFloat64Object(m map[string]float64) error {
	ms := make([]member, 0, len(m))
	for k, x := range m {
		ms = append(ms, member{[]byte(k), scU(kFloat64, math.Float64bits(x))})
	}
	return r.xobj(structform.Float64Type, ms)
}

var _ structform.ExtVisitor = xRecorder{}

// =================== fold cases ===================
// fold \t <mode X|P> <failAt> <multi 0|1> | type | value \t EV toks R verdict
//
//	mode X: the visitor implements the extended interfaces; P: a plain Visitor (adapters expand)
func foldObs(evs []event, o outcome, err error) string {
	return fmt.Sprintf("EV %s R %s", eventsTok(evs), verdictTok(o, err))
}

func foldRun(mode string, failAt int, v interface{}) string {
	var evs []event
	var err error
	o := guard(guardTime, func() {
		if mode == "X" {
			rec := newXRecorder(failAt)
			err = gotype.Fold(v, rec)
			evs = rec.evs
		} else {
			rec := newRecorder(failAt)
			err = gotype.Fold(v, rec)
			evs = rec.evs
		}
	})
	return foldObs(evs, o, err)
}

func foldCase(r *rng) string {
	o := typeOpts{depth: 1 + r.n(3), tags: true, unsupported: r.chance(1, 10)}
	t := r.genType(o)
	var v reflect.Value
	var iv interface{}
	if r.chance(1, 40) {
		t = tAny // an untyped nil
		v = reflect.New(t).Elem()
		iv = nil
	} else {
		v = r.genGoValue(t, 3)
		iv = v.Interface()
		if t.Kind() == reflect.Interface {
			// Interface() of an interface-typed value yields the dynamic value
			if v.IsNil() {
				iv = nil
			} else {
				v = v.Elem()
				t = v.Type()
			}
		}
	}
	mode := "X"
	if r.chance(1, 4) {
		mode = "P"
	}
	failAt := -1
	if r.chance(1, 5) {
		failAt = r.n(10)
	}
	multi := 0
	if hasMultiMap(v) {
		multi = 1
	}
	tt, vt := typeTok(t), "nil"
	if iv != nil {
		vt = valTok(v)
	} else {
		tt = "any"
	}
	return fmt.Sprintf("fold\t%s %d %d | %s | %s\t%s", mode, failAt, multi, tt, vt, foldRun(mode, failAt, iv))
}

func parseTypedValue(tseg, vseg string) (reflect.Type, reflect.Value, interface{}) {
	t := parseType(&tokStream{t: strings.Fields(tseg)})
	if t == tAny && strings.TrimSpace(vseg) == "nil" {
		return t, reflect.Value{}, nil
	}
	v := parseValue(&tokStream{t: strings.Fields(vseg)}, t)
	return t, v, v.Interface()
}

func foldReplay(input string) string {
	parts := strings.SplitN(input, "|", 3)
	h := strings.Fields(parts[0])
	_, _, iv := parseTypedValue(parts[1], parts[2])
	return foldRun(h[0], atoi(h[1]), iv)
}

func init() {
	kinds["fold"] = kindT{foldCase, foldReplay}
}
