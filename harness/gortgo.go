package main

import (
	"bytes"
	"fmt"
	"reflect"
	"strings"

	structform "github.com/elastic/go-structform"
	"github.com/elastic/go-structform/cborl"
	"github.com/elastic/go-structform/gotype"
	"github.com/elastic/go-structform/json"
	"github.com/elastic/go-structform/ubjson"
)

// =================== C11: Fold then Unfold, directly or through a codec ===================
// rtgo \t <route direct|json|ubj|cbor> <multi> | type | value \t SETUPERR | FOLDERR | R ok V <value> | R err | PANIC | HANG
func rtgoRun(route string, t reflect.Type, v reflect.Value) string {
	target := reflect.New(t)
	var res string
	o := guard(guardTime, func() {
		u, err := gotype.NewUnfolder(target.Interface())
		if err != nil {
			res = "SETUPERR"
			return
		}
		iv := v.Interface()
		switch route {
		case "direct":
			if err := gotype.Fold(iv, u); err != nil {
				res = "R err"
				return
			}
		default:
			var buf bytes.Buffer
			var enc structform.Visitor
			switch route {
			case "json":
				enc = json.NewVisitor(&buf)
			case "ubj":
				enc = ubjson.NewVisitor(&buf)
			case "cbor":
				enc = cborl.NewVisitor(&buf)
			}
			if err := gotype.Fold(iv, enc); err != nil {
				res = "FOLDERR"
				return
			}
			switch route {
			case "json":
				err = json.Parse(buf.Bytes(), u)
			case "ubj":
				err = ubjson.Parse(buf.Bytes(), u)
			case "cbor":
				err = cborl.Parse(buf.Bytes(), u)
			}
			if err != nil {
				res = "R err"
				return
			}
		}
		res = "R ok V " + valTok(target.Elem())
	})
	if o.panicked || o.hung {
		return verdictTok(o, nil)
	}
	return res
}

func rtgoCase(r *rng) string {
	o := typeOpts{depth: 1 + r.n(3), tags: true, unsupported: r.chance(1, 15)}
	t := r.genType(o)
	for t.Kind() == reflect.Interface {
		t = r.genType(o) // the target is set through a pointer to a concrete variable type
	}
	v := r.genGoValue(t, 3)
	route := []string{"direct", "direct", "json", "ubj", "cbor"}[r.n(5)]
	multi := 0
	if hasMultiMap(v) {
		multi = 1
	}
	return fmt.Sprintf("rtgo\t%s %d | %s | %s\t%s", route, multi, typeTok(t), valTok(v), rtgoRun(route, t, v))
}

func rtgoReplay(input string) string {
	parts := strings.SplitN(input, "|", 3)
	h := strings.Fields(parts[0])
	t := parseType(&tokStream{t: strings.Fields(parts[1])})
	v := parseValue(&tokStream{t: strings.Fields(parts[2])}, t)
	return rtgoRun(h[0], t, v)
}

func init() {
	kinds["rtgo"] = kindT{rtgoCase, rtgoReplay}
}
