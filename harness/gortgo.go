package main

import (
	"bytes"
	"fmt"
	"reflect"
	"strings"

	structform "github.com/elastic/go-structform"
	"github.com/elastic/go-structform/cborl"
	"github.com/elastic/go-structform/gotype"
	"github.com/elastic/go-structform/json"
	"github.com/elastic/go-structform/ubjson"
)

// =================== C11: Fold then Unfold, directly or through a codec ===================
// rtgo \t <route direct|json|ubj|cbor> <multi> | type | value \t SETUPERR | FOLDERR | R ok V <value> | R err | PANIC | HANG
func rtgoRun(route string, t reflect.Type, v reflect.Value) string {
	target := reflect.New(t)
	var res string
	o := guard(guardTime, func() {
		u, err := gotype.NewUnfolder(target.Interface())
		if err != nil {
			res = "SETUPERR"
			return
		}
		iv := v.Interface()
		switch route {
		case "direct":
			if err := gotype.Fold(iv, u); err != nil {
				res = "R err"
				return
			}
		default:
			var buf bytes.Buffer
			var enc structform.Visitor
			switch route {
			case "json":
				enc = json.NewVisitor(&buf)
			case "ubj":
				enc = ubjson.NewVisitor(&buf)
			case "cbor":
				enc = cborl.NewVisitor(&buf)
			}
			if err := gotype.Fold(iv, enc); err != nil {
				res = "FOLDERR"
				return
			}
			switch route {
			case "json":
				err = json.Parse(buf.Bytes(), u)
			case "ubj":
				err = ubjson.Parse(buf.Bytes(), u)
			case "cbor":
				err = cborl.Parse(buf.Bytes(), u)
			}
			if err != nil {
				res = "R err"
				return
			}
		}
		res = "R ok V " + valTok(target.Elem())
	})
	if o.panicked || o.hung {
		return verdictTok(o, nil)
	}
	return res
}

func rtgoCase(r *rng) string {
	o := typeOpts{depth: 1 + r.n(3), tags: true, unsupported: r.chance(1, 15)}
	t := r.genType(o)
	for t.Kind() == reflect.Interface {
		t = r.genType(o) // the target is set through a pointer to a concrete variable type
	}
	v := r.genGoValue(t, 3)
	route := []string{"direct", "direct", "json", "ubj", "cbor"}[r.n(5)]
	multi := 0
	if hasMultiMap(v) {
		multi = 1
	}
	return fmt.Sprintf("rtgo\t%s %d | %s | %s\t%s", route, multi, typeTok(t), valTok(v), rtgoRun(route, t, v))
}

func rtgoReplay(input string) string {
	parts := strings.SplitN(input, "|", 3)
	h := strings.Fields(parts[0])
	t := parseType(&tokStream{t: strings.Fields(parts[1])})
	v := parseValue(&tokStream{t: strings.Fields(parts[2])}, t)
	return rtgoRun(h[0], t, v)
}

func init() {
	kinds["rtgo"] = kindT{rtgoCase, rtgoReplay}
}

// =================== C11: self-referential types (hand-written: reflect cannot create them) ===================
// rec \t <route> <shape seed> \t R ok EQ | R ok NEQ <got> | R err | SETUPERR | FOLDERR | PANIC | HANG
type recNode struct {
	V    int
	S    string `struct:"s,omitempty"`
	Next *recNode
	Kids []recNode
	M    map[string]*recNode `struct:"m"`
}

type recList struct {
	Head *recList `struct:"head"`
	Tail []*recList
	Any  interface{}
}

func genRecNode(r *rng, depth int) recNode {
	n := recNode{V: r.n(100), S: []string{"", "x", "yz"}[r.n(3)]}
	if depth > 0 {
		if r.bool() {
			c := genRecNode(r, depth-1)
			n.Next = &c
		}
		for i := r.n(3); i > 0; i-- {
			n.Kids = append(n.Kids, genRecNode(r, depth-1))
		}
		if r.chance(1, 3) {
			c := genRecNode(r, depth-1)
			n.M = map[string]*recNode{"k": &c}
		}
	}
	return n
}

// recMS / recMM: maps whose elements contain (or are) the map type itself, by value
type recMS struct {
	V int
	M map[string]recMS
}
type recMM map[string]recMM

func genRecMS(r *rng, depth int) recMS {
	n := recMS{V: r.n(1000)}
	if depth > 0 {
		n.M = map[string]recMS{}
		for i, k := 0, 1+r.n(3); i < k; i++ {
			n.M[fmt.Sprintf("k%d", i)] = genRecMS(r, depth-1-r.n(2))
		}
	}
	return n
}

func genRecMM(r *rng, depth int) recMM {
	m := recMM{}
	if depth > 0 {
		for i, k := 0, 1+r.n(3); i < k; i++ {
			m[fmt.Sprintf("k%d", i)] = genRecMM(r, depth-1-r.n(2))
		}
	}
	return m
}

func recMSEq(a, b recMS) bool {
	if a.V != b.V || len(a.M) != len(b.M) {
		return false
	}
	for k, x := range a.M {
		y, ok := b.M[k]
		if !ok || !recMSEq(x, y) {
			return false
		}
	}
	return true
}

func recMMEq(a, b recMM) bool {
	if len(a) != len(b) {
		return false
	}
	for k, x := range a {
		y, ok := b[k]
		if !ok || !recMMEq(x, y) {
			return false
		}
	}
	return true
}

// recIntl: exported fields whose names start with upper-case letters that are not A-Z
type recIntl struct {
	Ärger  int
	Über   string
	Ωmega  []int8
	Élan   *recIntl
	Straße float64
	ÑandÚ  map[string]int
}

func genRecList(r *rng, depth int) *recList {
	if depth <= 0 || r.chance(1, 4) {
		return nil
	}
	l := &recList{Head: genRecList(r, depth-1)}
	for i := r.n(3); i > 0; i-- {
		l.Tail = append(l.Tail, genRecList(r, depth-1))
	}
	if r.bool() {
		l.Any = int64(r.n(50))
	}
	return l
}

func recNodeEq(a, b recNode) bool {
	if a.V != b.V || a.S != b.S || (a.Next == nil) != (b.Next == nil) || len(a.Kids) != len(b.Kids) || len(a.M) != len(b.M) {
		return false
	}
	if a.Next != nil && !recNodeEq(*a.Next, *b.Next) {
		return false
	}
	for i := range a.Kids {
		if !recNodeEq(a.Kids[i], b.Kids[i]) {
			return false
		}
	}
	for k, x := range a.M {
		y, ok := b.M[k]
		if !ok || (x == nil) != (y == nil) || (x != nil && !recNodeEq(*x, *y)) {
			return false
		}
	}
	return true
}

func recListEq(a, b *recList) bool {
	if a == nil || b == nil {
		return a == nil && b == nil
	}
	if !recListEq(a.Head, b.Head) || len(a.Tail) != len(b.Tail) {
		return false
	}
	for i := range a.Tail {
		if !recListEq(a.Tail[i], b.Tail[i]) {
			return false
		}
	}
	return fmt.Sprint(a.Any) == fmt.Sprint(b.Any) // the interface comes back as generic data of the same value
}

func recRun(route string, seed uint64) string {
	r := newRng(seed)
	var res string
	o := guard(guardTime, func() {
		var orig, target interface{}
		var eq func() bool
		if r.chance(1, 4) {
			// map types that contain themselves BY VALUE: one compiled map unfolder serves every depth
			if r.bool() {
				v := genRecMS(r, 1+r.n(3))
				var out recMS
				orig, target = v, &out
				eq = func() bool { return recMSEq(v, out) }
			} else {
				v := genRecMM(r, 1+r.n(3))
				var out recMM
				orig, target = v, &out
				eq = func() bool { return recMMEq(v, out) }
			}
		} else if r.chance(1, 5) {
			// field names outside ASCII: the member names are whatever Fold derives from them, and
			// Unfold must find the fields again
			v := recIntl{Ärger: int(r.n(100)) - 50, Über: string(r.genStr(genOpts{})), Ωmega: []int8{int8(r.n(100)), -3}, Élan: &recIntl{Ärger: 1 + r.n(9), Straße: float64(r.n(64)) / 4}, ÑandÚ: map[string]int{"k": r.n(7)}}
			var out recIntl
			orig, target = v, &out
			eq = func() bool { return reflect.DeepEqual(v, out) }
		} else if r.bool() {
			v := genRecNode(r, 1+r.n(3))
			var out recNode
			orig, target = v, &out
			eq = func() bool { return recNodeEq(v, out) }
		} else {
			v := genRecList(r, 1+r.n(4))
			if v == nil {
				v = &recList{}
			}
			var out *recList
			orig, target = v, &out
			eq = func() bool { return recListEq(v, out) }
		}
		t := reflect.TypeOf(target).Elem()
		tv := reflect.ValueOf(orig)
		_ = t
		// reuse rtgoRun's routes through a small shim
		res = recRoute(route, tv.Interface(), target)
		if res == "R ok" {
			if eq() {
				res = "R ok EQ"
			} else {
				res = "R ok NEQ " + asciiTok(fmt.Sprintf("%+v", reflect.ValueOf(target).Elem().Interface()))
			}
		}
	})
	if o.panicked || o.hung {
		return verdictTok(o, nil)
	}
	return res
}

func recRoute(route string, iv interface{}, target interface{}) string {
	u, err := gotype.NewUnfolder(target)
	if err != nil {
		return "SETUPERR"
	}
	if route == "direct" {
		if err := gotype.Fold(iv, u); err != nil {
			return "R err"
		}
		return "R ok"
	}
	var buf bytes.Buffer
	switch route {
	case "json":
		err = gotype.Fold(iv, json.NewVisitor(&buf))
	case "ubj":
		err = gotype.Fold(iv, ubjson.NewVisitor(&buf))
	case "cbor":
		err = gotype.Fold(iv, cborl.NewVisitor(&buf))
	}
	if err != nil {
		return "FOLDERR"
	}
	switch route {
	case "json":
		err = json.Parse(buf.Bytes(), u)
	case "ubj":
		err = ubjson.Parse(buf.Bytes(), u)
	case "cbor":
		err = cborl.Parse(buf.Bytes(), u)
	}
	if err != nil {
		return "R err"
	}
	return "R ok"
}

func recCase(r *rng) string {
	route := []string{"direct", "json", "ubj", "cbor"}[r.n(4)]
	seed := r.u64() % 1000000007
	return fmt.Sprintf("rec\t%s %d\t%s", route, seed, recRun(route, seed))
}

func recReplay(input string) string {
	f := strings.Fields(input)
	var seed uint64
	fmt.Sscan(f[1], &seed)
	return recRun(f[0], seed)
}

func init() {
	kinds["rec"] = kindT{recCase, recReplay}
}
