package main

import (
	"encoding/binary"
	"io"
	"strconv"
	"strings"

	structform "github.com/elastic/go-structform"
	"github.com/elastic/go-structform/ubjson"
)

// a length with a random (possibly non-minimal) integer marker
func ubLen(n int, r *rng) []byte {
	min := 0
	switch {
	case n <= 127:
		min = 0
	case n <= 255:
		min = 1
	case n <= 32767:
		min = 2
	default:
		min = 3
	}
	w := min
	if r != nil && r.chance(1, 3) {
		w = min + r.n(5-min)
		if w == 1 && n > 255 {
			w = 2
		}
	}
	switch w {
	case 0:
		return []byte{'i', byte(n)}
	case 1:
		return []byte{'U', byte(n)}
	case 2:
		return []byte{'I', byte(n >> 8), byte(n)}
	case 3:
		b := []byte{'l', 0, 0, 0, 0}
		binary.BigEndian.PutUint32(b[1:], uint32(n))
		return b
	default:
		b := []byte{'L', 0, 0, 0, 0, 0, 0, 0, 0}
		binary.BigEndian.PutUint64(b[1:], uint64(n))
		return b
	}
}

var ubScalarMarkers = []byte{'Z', 'T', 'F', 'i', 'U', 'I', 'l', 'L', 'd', 'D', 'C', 'H', 'S'}

// payload of a value of type m (without the marker)
func (r *rng) ubPayload(m byte, depth int) []byte {
	switch m {
	case 'Z', 'T', 'F':
		return nil
	case 'i', 'U', 'C':
		return []byte{byte([]int{0, 1, 127, 128, 255, 200, 42}[r.n(7)])}
	case 'I':
		v := intPool[r.n(len(intPool))]
		return []byte{byte(v >> 8), byte(v)}
	case 'l':
		b := make([]byte, 4)
		binary.BigEndian.PutUint32(b, uint32(intPool[r.n(len(intPool))]))
		return b
	case 'L':
		b := make([]byte, 8)
		binary.BigEndian.PutUint64(b, uint64(intPool[r.n(len(intPool))]))
		return b
	case 'd':
		b := make([]byte, 4)
		binary.BigEndian.PutUint32(b, uint32(r.genNum(kFloat32, genOpts{nonfinite: true}).u))
		return b
	case 'D':
		b := make([]byte, 8)
		binary.BigEndian.PutUint64(b, r.genNum(kFloat64, genOpts{nonfinite: true}).u)
		return b
	case 'H':
		s := strconv.FormatUint(uintPool[r.n(len(uintPool))], 10)
		if r.chance(1, 3) {
			// what high-precision numbers exist for: more digits and larger exponents than any
			// binary type holds, in every spelling of the JSON number grammar
			s = []string{"-12345678901234567890.5e10", "1e309", "-2.5e+1000", "1E-400", "6.02214076E+23", "1e+10", "-0", "0.0",
				"3.14159265358979323846264338327950288419716939937510582097494459230781640628620899862803482534211706798",
				strings.Repeat("9", 310), "-" + strings.Repeat("1", 400) + ".5", "0e0", "18446744073709551616", "-9223372036854775809"}[r.n(14)]
		}
		return append(ubLen(len(s), r), s...)
	case 'S':
		s := r.genStr(genOpts{anyBytes: true})
		return append(ubLen(len(s), r), s...)
	case '[':
		return r.ubArrayBody(depth)
	case '{':
		return r.ubObjectBody(depth)
	}
	panic("bad marker")
}

func (r *rng) ubElemType(depth int) byte {
	if depth < 3 && r.chance(1, 5) {
		return []byte{'[', '{'}[r.n(2)]
	}
	return ubScalarMarkers[r.n(len(ubScalarMarkers))]
}

func (r *rng) ubCount(depth int) int {
	n := r.genCount()
	if depth > 1 && n > 3 {
		n = 2
	}
	return n
}

func (r *rng) maybeNoop(b []byte) []byte {
	if r.chance(1, 12) {
		return append(b, 'N')
	}
	return b
}

// body of an array after '['
func (r *rng) ubArrayBody(depth int) []byte {
	n := r.ubCount(depth)
	var b []byte
	switch r.n(3) {
	case 0: // plain
		for i := 0; i < n; i++ {
			b = r.maybeNoop(b)
			b = append(b, r.genUbjValue(depth+1)...)
		}
		b = r.maybeNoop(b)
		return append(b, ']')
	case 1: // counted
		b = append([]byte{'#'}, ubLen(n, r)...)
		for i := 0; i < n; i++ {
			b = r.maybeNoop(b)
			b = append(b, r.genUbjValue(depth+1)...)
		}
		return b
	default: // typed
		t := r.ubElemType(depth)
		b = append([]byte{'$', t, '#'}, ubLen(n, r)...)
		for i := 0; i < n; i++ {
			b = append(b, r.ubPayload(t, depth+1)...)
		}
		return b
	}
}

func (r *rng) ubKey() []byte {
	k := r.genKey(genOpts{anyBytes: true})
	return append(ubLen(len(k), r), k...)
}

func (r *rng) ubObjectBody(depth int) []byte {
	n := r.ubCount(depth)
	var b []byte
	switch r.n(3) {
	case 0:
		for i := 0; i < n; i++ {
			b = append(b, r.ubKey()...)
			b = r.maybeNoop(b)
			b = append(b, r.genUbjValue(depth+1)...)
		}
		return append(b, '}')
	case 1:
		b = append([]byte{'#'}, ubLen(n, r)...)
		for i := 0; i < n; i++ {
			b = append(b, r.ubKey()...)
			b = r.maybeNoop(b)
			b = append(b, r.genUbjValue(depth+1)...)
		}
		return b
	default:
		t := r.ubElemType(depth)
		b = append([]byte{'$', t, '#'}, ubLen(n, r)...)
		for i := 0; i < n; i++ {
			b = append(b, r.ubKey()...)
			b = append(b, r.ubPayload(t, depth+1)...)
		}
		return b
	}
}

func (r *rng) genUbjValue(depth int) []byte {
	if depth == 0 {
		r.budget = 30
	}
	r.budget--
	c := r.n(20)
	if depth >= 4 || r.budget <= 0 {
		c = r.n(13)
	}
	switch {
	case c < 13:
		m := ubScalarMarkers[c]
		return append([]byte{m}, r.ubPayload(m, depth)...)
	case c < 17:
		return append([]byte{'['}, r.ubArrayBody(depth)...)
	default:
		return append([]byte{'{'}, r.ubObjectBody(depth)...)
	}
}

func (r *rng) genUbjDeep() []byte {
	d := []int{31, 32, 33, 34, 63, 64, 65}[r.n(7)]
	var b, tail []byte
	for i := 0; i < d; i++ {
		switch r.n(4) {
		case 0:
			b = append(b, '[')
			tail = append([]byte{']'}, tail...)
		case 1:
			b = append(b, '[', '#', 'i', 1)
		case 2:
			b = append(b, '{', 'i', 1, 'k')
			tail = append([]byte{'}'}, tail...)
		default:
			b = append(b, '{', '#', 'i', 1, 'i', 1, 'k')
		}
	}
	b = append(b, r.genUbjValue(4)...)
	return append(b, tail...)
}

// sanitizeUbj keeps typed containers of zero-sized elements (Z, T, F) out of the
// range of counts where "finishes within the guard time" is not a crisp verdict:
// counts are either <= 1000 or >= 2^40 (recorded as a known finding: time
// proportional to the announced count).
func sanitizeUbj(doc []byte) []byte {
	for i := 0; i+4 < len(doc); i++ {
		if doc[i] != '$' || doc[i+2] != '#' {
			continue
		}
		if t := doc[i+1]; t != 'Z' && t != 'T' && t != 'F' {
			continue
		}
		var n uint64
		j := i + 4
		switch doc[i+3] {
		case 'I':
			if j+2 <= len(doc) {
				n = uint64(binary.BigEndian.Uint16(doc[j:]))
			}
		case 'l':
			if j+4 <= len(doc) {
				n = uint64(binary.BigEndian.Uint32(doc[j:]))
			}
		case 'L':
			if j+8 <= len(doc) {
				n = binary.BigEndian.Uint64(doc[j:])
			}
		default:
			// i, U: at most 255; I, l, L with fewer bytes than needed: truncated
			if doc[i+3] == 'I' || doc[i+3] == 'l' || doc[i+3] == 'L' {
				doc[i+1] = 'i'
			}
			continue
		}
		if n > 1000 && n < 1<<40 || int64(n) < 0 && false {
			doc[i+1] = 'i'
		}
	}
	return doc
}

func (r *rng) genUbjDoc() []byte { return sanitizeUbj(r.genUbjDoc0()) }

func (r *rng) genUbjDoc0() []byte {
	switch c := r.n(20); {
	case c < 10:
		doc := r.genUbjValue(0)
		if r.chance(1, 8) {
			doc = append([]byte{'N'}, doc...)
		}
		if r.chance(1, 5) {
			doc = append(doc, r.genUbjValue(0)...)
		}
		return doc
	case c == 10:
		return r.genUbjDeep()
	case c < 14:
		doc := r.genUbjValue(0)
		if len(doc) > 1 {
			doc = doc[:1+r.n(len(doc)-1)]
		}
		return doc
	case c < 18:
		doc := r.genUbjValue(0)
		for k := 0; k <= r.n(3); k++ {
			if len(doc) == 0 {
				break
			}
			i := r.n(len(doc))
			switch r.n(5) {
			case 0:
				doc[i] ^= 1 << uint(r.n(8))
			case 1:
				doc[i] = byte(r.u64())
			case 2:
				doc = append(doc[:i], append([]byte{byte(r.u64())}, doc[i:]...)...)
			case 3:
				doc[i] = []byte("ZNTFiUIlLdDHCS{}[]#$")[r.n(20)]
			default:
				// huge or negative lengths
				ins := [][]byte{{'S', 'L', 0x7f, 0xff, 0xff, 0xff, 0xff, 0xff, 0xff, 0xff}, {'[', '#', 'L', 0x7f, 0xff, 0xff, 0xff, 0xff, 0xff, 0xff, 0xff},
					{'S', 'i', 0x80}, {'[', '#', 'l', 0x80, 0, 0, 0}, {'[', '$', 'i', '#', 'L', 0x40, 0, 0, 0, 0, 0, 0, 0}, {'{', '#', 'L', 0x7f, 0xff, 0xff, 0xff, 0xff, 0xff, 0xff, 0xff},
					{'[', '#', 'S'}, {'[', '$', 'N', '#', 'i', 1}, {'H', 'U', 200}, {'[', '$', 'T', '#', 'L', 0x7f, 0xff, 0xff, 0xff, 0xff, 0xff, 0xff, 0xff}}[r.n(9)+r.n(2)*r.n(2)*r.n(2)*r.n(2)]
				doc = append(doc[:i], append(append([]byte{}, ins...), doc[i:]...)...)
			}
		}
		return doc
	case c == 18:
		return append([]byte{[]byte("ZNTFiUIlLdDHCS{}[]#$")[r.n(20)]}, r.bytes(r.n(12))...)
	default:
		return r.bytes(r.n(24))
	}
}

type ubjParser struct{ *ubjson.Parser }

func (p ubjParser) depths() string {
	d := p.VerifDepths()
	return itoa3(d[0], d[1], d[2])
}

func init() {
	registerFormat(&format{
		name: "ubj",
		newVisitor: func(w io.Writer, cfg int) (structform.Visitor, func() int) {
			vs := ubjson.NewVisitor(w)
			return vs, func() int { d, _ := vs.VerifDepth(); return d }
		},
		newParser:      func(vs structform.Visitor) parserI { return ubjParser{ubjson.NewParser(vs)} },
		parseReader:    func(in io.Reader, vs structform.Visitor) (int64, error) { return ubjson.ParseReader(in, vs) },
		pkgParse:       func(b []byte, vs structform.Visitor) error { return ubjson.Parse(b, vs) },
		pkgParseString: func(str string, vs structform.Visitor) error { return ubjson.ParseString(str, vs) },
		newDecoder: func(in io.Reader, buf int, vs structform.Visitor) decoderI {
			return ubjson.NewDecoder(in, buf, vs)
		},
		newBytesDecoder: func(b []byte, vs structform.Visitor) decoderI { return ubjson.NewBytesDecoder(b, vs) },
		genDoc:          func(r *rng) []byte { return r.genUbjDoc() },
		genItem:         func(r *rng) []byte { return r.genUbjValue(0) },
		encOpts:         genOpts{nonfinite: true, anyBytes: true, ext: true, refs: true, maxDepth: 4, deepChance: 40},
		cfgs:            1,
	})
}
