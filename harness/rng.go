package main

// splitmix64: every random choice of a case derives from one state.
type rng struct {
	s      uint64
	budget int
}

func newRng(seed uint64) *rng { return &rng{s: seed*0x9E3779B97F4A7C15 + 0x1234567} }

func (r *rng) u64() uint64 {
	r.s += 0x9E3779B97F4A7C15
	z := r.s
	z = (z ^ (z >> 30)) * 0xBF58476D1CE4E5B9
	z = (z ^ (z >> 27)) * 0x94D049BB133111EB
	return z ^ (z >> 31)
}

// n returns a number in [0,n).
func (r *rng) n(n int) int {
	if n <= 0 {
		return 0
	}
	return int(r.u64() % uint64(n))
}

func (r *rng) bool() bool { return r.u64()&1 == 1 }

// chance returns true with probability num/den.
func (r *rng) chance(num, den int) bool { return r.n(den) < num }

func (r *rng) bytes(n int) []byte {
	b := make([]byte, n)
	for i := range b {
		b[i] = byte(r.u64())
	}
	return b
}
